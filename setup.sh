#!/bin/sh
# Offline setup after a fresh restore: build the Coq development (full .vo), extract the model,
# build the OCaml driver and the Rust harness.  Everything from files on disk.
set -e
cd "$(dirname "$0")"
export CARGO_NET_OFFLINE=true
python3 tools/translate.py
mkdir -p coq/extracted work replays
( cd coq && coq_makefile -f _CoqProject -o Makefile >/dev/null && timeout 3000 make -k -j16 2>&1 | grep -v "^COQC\|^COQDEP\|Closed under" | tail -20 )
( cd ocaml && ./build.sh )
cp /repo/Cargo.lock harness/Cargo.lock
( cd harness && RUSTFLAGS="--cfg adf_obdd_verif" CARGO_TARGET_DIR="$PWD/target" cargo build --offline --quiet 2>&1 | grep -v "^warning\|^ *|\|^ *=\|^ *-->\|^$" | tail -5 || true )
test -x ocaml/driver && test -x harness/target/debug/verif-harness && echo "setup ok"
