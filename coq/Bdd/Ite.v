(** Correctness of [ite_f] / [ite] (Bdd::if_then_else). *)
From Coq Require Import NArith List Bool Lia ListSet.
From ADF Require Import Base.Maps Spec.Spec Bdd.Store Bdd.WF Bdd.Node Bdd.Restrict.
Import ListNotations.
Local Open Scope N_scope.

Definition ite_spec (st st' : store) (i t e r : N) : Prop :=
  extends st st' /\ r < size st' /\
  feq (den st' r) (fun a => if den st i a then den st t a else den st e a) /\
  min3 (topv st i) (topv st t) (topv st e) <= topv st' r.

(** * the function, cut into its non-recursive prefix and its recursive step *)
Definition ite_early (st : store) (i t e : N) : option N :=
  if i =? 1 then Some t
  else if i =? 0 then Some e
  else if t =? e then Some t
  else if (t =? 1) && (e =? 0) then Some i
  else TM.find (k3 i t e) (itec st).

Definition ite_step (c : cfg) (rec : store -> N -> N -> N -> option (store * N))
  (st : store) (i t e : N) : option (store * N) :=
  let minvar := N.min (nv (get_node st i)) (N.min (nv (get_node st t)) (nv (get_node st e))) in
  do (s1, itop) <- restrict c st i minvar true;
  do (s2, ttop) <- restrict c s1 t minvar true;
  do (s3, etop) <- restrict c s2 e minvar true;
  do (s4, ibot) <- restrict c s3 i minvar false;
  do (s5, tbot) <- restrict c s4 t minvar false;
  do (s6, ebot) <- restrict c s5 e minvar false;
  do (s7, top_ite) <- rec s6 itop ttop etop;
  do (s8, bot_ite) <- rec s7 ibot tbot ebot;
  let '(s9, r) := mk_node c s8 minvar bot_ite top_ite in
  Some (set_itec s9 (k3 i t e) r, r).

Lemma ite_f_unfold c fuel st i t e :
  ite_f c fuel st i t e =
  match ite_early st i t e with
  | Some r => Some (st, r)
  | None => match fuel with O => None | S f => ite_step c (ite_f c f) st i t e end
  end.
Proof.
  unfold ite_early.
  destruct fuel as [|f]; cbn [ite_f];
    destruct (i =? 1); try reflexivity; destruct (i =? 0); try reflexivity;
    destruct (t =? e); try reflexivity; destruct ((t =? 1) && (e =? 0)); try reflexivity;
    destruct (TM.find (k3 i t e) (itec st)); reflexivity.
Qed.

(** ** the non-recursive exits *)
Lemma min3_le_1 a b c : min3 a b c <= a. Proof. unfold min3. lia. Qed.
Lemma min3_le_2 a b c : min3 a b c <= b. Proof. unfold min3. lia. Qed.
Lemma min3_le_3 a b c : min3 a b c <= c. Proof. unfold min3. lia. Qed.
Lemma min3_glb a b c m : m <= a -> m <= b -> m <= c -> m <= min3 a b c.
Proof. unfold min3. lia. Qed.
Lemma min3_glb_lt a b c m : m < a -> m < b -> m < c -> m < min3 a b c.
Proof. unfold min3. lia. Qed.

Lemma ite_early_ok c st i t e r :
  WF c st -> i < size st -> t < size st -> e < size st ->
  ite_early st i t e = Some r -> ite_spec st st i t e r.
Proof.
  intros WFst Hi Ht He X. unfold ite_early in X.
  destruct (N.eqb_spec i 1) as [Ei1|Ni1].
  { inversion X; subst r i. split; [apply extends_refl|]. split; [exact Ht|].
    split; [intros a; rewrite den_1; reflexivity|apply min3_le_2]. }
  destruct (N.eqb_spec i 0) as [Ei0|Ni0].
  { inversion X; subst r i. split; [apply extends_refl|]. split; [exact He|].
    split; [intros a; rewrite den_0; reflexivity|apply min3_le_3]. }
  destruct (N.eqb_spec t e) as [Ete|Nte].
  { inversion X; subst r e. split; [apply extends_refl|]. split; [exact Ht|].
    split; [intros a; destruct (den st i a); reflexivity|apply min3_le_2]. }
  destruct ((t =? 1) && (e =? 0)) eqn:E10.
  { apply andb_true_iff in E10. destruct E10 as [E1 E0]. apply N.eqb_eq in E1, E0. subst t e.
    inversion X; subst r. split; [apply extends_refl|]. split; [exact Hi|].
    split; [intros a; rewrite den_1, den_0; destruct (den st i a); reflexivity|apply min3_le_1]. }
  destruct (wf_itec c st WFst i t e r X) as (_ & _ & _ & Hr & Hd & Hm).
  split; [apply extends_refl|]. split; [exact Hr|]. split; [exact Hd|exact Hm].
Qed.

Lemma ite_early_none_nonterminal st i t e : ite_early st i t e = None -> 2 <= i.
Proof.
  unfold ite_early. destruct (N.eqb_spec i 1) as [|N1]; [discriminate|].
  destruct (N.eqb_spec i 0) as [|N0]; [discriminate|]. intros _. lia.
Qed.

(** * handles that denote a cofactor at [m] and live strictly below [m] *)
Definition cof_handle (st0 st : store) (h m : N) (b : bool) (r : N) : Prop :=
  r < size st /\ feq (den st r) (cofactor (den st0 h) m b) /\ m < topv st r.

Lemma cof_handle_extends st0 st st' h m b r :
  WFN st -> extends st st' -> cof_handle st0 st h m b r -> cof_handle st0 st' h m b r.
Proof.
  intros W E (Hr & Hd & Ht).
  split; [apply (extends_lt st st' r E Hr)|]. split.
  - intros a. rewrite (den_extends st st' W E r a Hr). apply Hd.
  - rewrite (topv_extends st st' r E Hr). exact Ht.
Qed.

(** restricting, in a later store, a handle of the original store at a variable not above its top *)
Lemma restrict_old c st0 st st' h m b r :
  WFN st0 -> extends st0 st -> WF c st -> h < size st0 -> m < VBOT -> m <= topv st0 h ->
  restrict c st h m b = Some (st', r) ->
  WF c st' /\ extends st st' /\ extends st0 st' /\ itec st' = itec st /\ cof_handle st0 st' h m b r.
Proof.
  intros W0 E0 WFst Hh Hm Hle X. unfold restrict in X.
  assert (Hhs : h < size st) by (apply (extends_lt st0 st h E0 Hh)).
  destruct (restrict_f_ok c _ st h m b st' r WFst Hhs X) as (WF' & E & Hr & Hd & T1 & T2 & Hi).
  split; [exact WF'|]. split; [exact E|]. split; [apply (extends_trans st0 st st' E0 E)|].
  split; [exact Hi|].
  split; [exact Hr|]. split.
  - intros a. rewrite Hd. unfold cofactor. apply (den_extends st0 st W0 E0 h _ Hh).
  - apply T2; [exact Hm|]. rewrite (topv_extends st0 st h E0 Hh). exact Hle.
Qed.

(** handles that denote the if-then-else of the three [b]-cofactors at [m] *)
Definition ite_handle (st0 st : store) (i t e m : N) (b : bool) (r : N) : Prop :=
  r < size st /\
  feq (den st r) (fun a => if den st0 i (upd a m b) then den st0 t (upd a m b) else den st0 e (upd a m b)) /\
  m < topv st r.

Lemma ite_handle_extends st0 st st' i t e m b r :
  WFN st -> extends st st' -> ite_handle st0 st i t e m b r -> ite_handle st0 st' i t e m b r.
Proof.
  intros W E (Hr & Hd & Ht).
  split; [apply (extends_lt st st' r E Hr)|]. split.
  - intros a. rewrite (den_extends st st' W E r a Hr). apply Hd.
  - rewrite (topv_extends st st' r E Hr). exact Ht.
Qed.

Lemma ite_handle_of_spec st0 st st' i t e m b ri rt re r :
  cof_handle st0 st i m b ri -> cof_handle st0 st t m b rt -> cof_handle st0 st e m b re ->
  ite_spec st st' ri rt re r -> ite_handle st0 st' i t e m b r.
Proof.
  intros (Hri & Di & Ti) (Hrt & Dt & Tt) (Hre & De & Te) (E & Hr & Hd & Hm).
  split; [exact Hr|]. split.
  - intros a. rewrite Hd, Di, Dt, De. reflexivity.
  - pose proof (min3_glb_lt _ _ _ m Ti Tt Te). lia.
Qed.

(** Shannon expansion, pointwise *)
Lemma den_upd_same st h a m : den st h (upd a m (a m)) = den st h a.
Proof. apply den_ext. intros x. apply upd_same. Qed.

(** ** the common last step: record the result in the memo table *)
Lemma ite_finish c st s9 i t e r :
  WF c st -> WF c s9 -> extends st s9 -> i < size st -> t < size st -> e < size st -> r < size s9 ->
  feq (den s9 r) (fun a => if den st i a then den st t a else den st e a) ->
  min3 (topv st i) (topv st t) (topv st e) <= topv s9 r ->
  WF c (set_itec s9 (k3 i t e) r) /\ ite_spec st (set_itec s9 (k3 i t e) r) i t e r.
Proof.
  intros WFst WF9 E Hi Ht He Hr Hd Hm.
  pose proof (wf_n c st WFst) as W.
  set (st' := set_itec s9 (k3 i t e) r).
  assert (En : nodes st' = nodes s9) by reflexivity.
  split.
  - apply set_itec_WF; auto.
    + apply (extends_lt st s9 i E Hi).
    + apply (extends_lt st s9 t E Ht).
    + apply (extends_lt st s9 e E He).
    + intros a. rewrite (den_extends st s9 W E i _ Hi), (den_extends st s9 W E t _ Ht),
        (den_extends st s9 W E e _ He). apply Hd.
    + rewrite (topv_extends st s9 i E Hi), (topv_extends st s9 t E Ht), (topv_extends st s9 e E He).
      exact Hm.
  - split; [apply (extends_trans st s9 st' E); apply set_itec_extends|].
    split; [exact Hr|].
    split; [intros a; rewrite (den_nodes_eq s9 st' En); apply Hd|].
    rewrite (topv_nodes_eq s9 st' En). exact Hm.
Qed.

(** ** the recursive step *)
Definition rec_ok (c : cfg) (rec : store -> N -> N -> N -> option (store * N)) : Prop :=
  forall st i t e st' r, WF c st -> i < size st -> t < size st -> e < size st ->
    rec st i t e = Some (st', r) -> WF c st' /\ ite_spec st st' i t e r.

Lemma ite_step_ok c rec st i t e st' r :
  rec_ok c rec -> WF c st -> 2 <= i -> i < size st -> t < size st -> e < size st ->
  ite_step c rec st i t e = Some (st', r) -> WF c st' /\ ite_spec st st' i t e r.
Proof.
  intros IH WFst H2 Hi Ht He X. pose proof (wf_n c st WFst) as W.
  unfold ite_step in X.
  fold (topv st i) in X. fold (topv st t) in X. fold (topv st e) in X.
  fold (min3 (topv st i) (topv st t) (topv st e)) in X.
  set (m := min3 (topv st i) (topv st t) (topv st e)) in *.
  assert (Hmi : m <= topv st i) by apply min3_le_1.
  assert (Hmt : m <= topv st t) by apply min3_le_2.
  assert (Hme : m <= topv st e) by apply min3_le_3.
  assert (Hm : m < VBOT) by (pose proof (topv_nonterminal st i W H2 Hi); lia).
  apply obind_inv in X. destruct X as ([s1 itop] & X1 & X).
  apply obind_inv in X. destruct X as ([s2 ttop] & X2 & X).
  apply obind_inv in X. destruct X as ([s3 etop] & X3 & X).
  apply obind_inv in X. destruct X as ([s4 ibot] & X4 & X).
  apply obind_inv in X. destruct X as ([s5 tbot] & X5 & X).
  apply obind_inv in X. destruct X as ([s6 ebot] & X6 & X).
  apply obind_inv in X. destruct X as ([s7 top_ite] & X7 & X).
  apply obind_inv in X. destruct X as ([s8 bot_ite] & X8 & X).
  destruct (mk_node c s8 m bot_ite top_ite) as [s9 r9] eqn:M.
  inversion X; subst st' r9. clear X.
  destruct (restrict_old c st st s1 i m true itop W (extends_refl st) WFst Hi Hm Hmi X1)
    as (WF1 & _ & E1 & _ & C1).
  destruct (restrict_old c st s1 s2 t m true ttop W E1 WF1 Ht Hm Hmt X2)
    as (WF2 & E12 & E2 & _ & C2).
  destruct (restrict_old c st s2 s3 e m true etop W E2 WF2 He Hm Hme X3)
    as (WF3 & E23 & E3 & _ & C3).
  destruct (restrict_old c st s3 s4 i m false ibot W E3 WF3 Hi Hm Hmi X4)
    as (WF4 & E34 & E4 & _ & C4).
  destruct (restrict_old c st s4 s5 t m false tbot W E4 WF4 Ht Hm Hmt X5)
    as (WF5 & E45 & E5 & _ & C5).
  destruct (restrict_old c st s5 s6 e m false ebot W E5 WF5 He Hm Hme X6)
    as (WF6 & E56 & E6 & _ & C6).
  pose proof (wf_n c s1 WF1) as W1. pose proof (wf_n c s2 WF2) as W2.
  pose proof (wf_n c s3 WF3) as W3. pose proof (wf_n c s4 WF4) as W4.
  pose proof (wf_n c s5 WF5) as W5. pose proof (wf_n c s6 WF6) as W6.
  (* bring all six cofactor handles to s6 *)
  assert (E16 : extends s1 s6).
  { apply (extends_trans s1 s2 s6 E12), (extends_trans s2 s3 s6 E23), (extends_trans s3 s4 s6 E34),
      (extends_trans s4 s5 s6 E45), E56. }
  assert (E26 : extends s2 s6).
  { apply (extends_trans s2 s3 s6 E23), (extends_trans s3 s4 s6 E34), (extends_trans s4 s5 s6 E45), E56. }
  assert (E36 : extends s3 s6).
  { apply (extends_trans s3 s4 s6 E34), (extends_trans s4 s5 s6 E45), E56. }
  assert (E46 : extends s4 s6) by (apply (extends_trans s4 s5 s6 E45), E56).
  pose proof (cof_handle_extends st s1 s6 i m true itop W1 E16 C1) as D1.
  pose proof (cof_handle_extends st s2 s6 t m true ttop W2 E26 C2) as D2.
  pose proof (cof_handle_extends st s3 s6 e m true etop W3 E36 C3) as D3.
  pose proof (cof_handle_extends st s4 s6 i m false ibot W4 E46 C4) as D4.
  pose proof (cof_handle_extends st s5 s6 t m false tbot W5 E56 C5) as D5.
  pose proof C6 as D6.
  (* first recursive call *)
  destruct (IH s6 itop ttop etop s7 top_ite WF6 (proj1 D1) (proj1 D2) (proj1 D3) X7) as (WF7 & S7).
  pose proof (ite_handle_of_spec st s6 s7 i t e m true itop ttop etop top_ite D1 D2 D3 S7) as HT.
  assert (E67 : extends s6 s7) by apply S7.
  pose proof (wf_n c s7 WF7) as W7.
  pose proof (cof_handle_extends st s6 s7 i m false ibot W6 E67 D4) as F4.
  pose proof (cof_handle_extends st s6 s7 t m false tbot W6 E67 D5) as F5.
  pose proof (cof_handle_extends st s6 s7 e m false ebot W6 E67 D6) as F6.
  (* second recursive call *)
  destruct (IH s7 ibot tbot ebot s8 bot_ite WF7 (proj1 F4) (proj1 F5) (proj1 F6) X8) as (WF8 & S8).
  pose proof (ite_handle_of_spec st s7 s8 i t e m false ibot tbot ebot bot_ite F4 F5 F6 S8) as HB.
  assert (E78 : extends s7 s8) by apply S8.
  pose proof (ite_handle_extends st s7 s8 i t e m true top_ite W7 E78 HT) as HT8.
  destruct HT8 as (Hrt & Dt & Tt). destruct HB as (Hrb & Db & Tb).
  (* the new node *)
  destruct (mk_node_ok c s8 m bot_ite top_ite s9 r WF8 Hm Hrb Hrt Tb Tt M)
    as (WF9 & E89 & Hr9 & D9 & T9 & _ & _).
  assert (E9 : extends st s9).
  { apply (extends_trans st s6 s9 E6), (extends_trans s6 s7 s9 E67), (extends_trans s7 s8 s9 E78), E89. }
  apply (ite_finish c st s9 i t e r WFst WF9 E9 Hi Ht He Hr9).
  - intros a. rewrite D9, Dt, Db.
    rewrite <- (den_upd_same st i a m), <- (den_upd_same st t a m), <- (den_upd_same st e a m).
    destruct (a m); reflexivity.
  - exact T9.
Qed.

(** * main theorem *)
Theorem ite_f_ok c : forall fuel st i t e st' r, WF c st -> i < size st -> t < size st -> e < size st ->
  ite_f c fuel st i t e = Some (st', r) -> WF c st' /\ ite_spec st st' i t e r.
Proof.
  induction fuel as [|f IH]; intros st i t e st' r WFst Hi Ht He X; rewrite ite_f_unfold in X.
  - destruct (ite_early st i t e) as [r0|] eqn:EE; [|discriminate X].
    inversion X; subst st' r0. split; [exact WFst|]. apply (ite_early_ok c); assumption.
  - destruct (ite_early st i t e) as [r0|] eqn:EE.
    + inversion X; subst st' r0. split; [exact WFst|]. apply (ite_early_ok c); assumption.
    + apply (ite_step_ok c (ite_f c f)); try assumption.
      apply (ite_early_none_nonterminal st i t e EE).
Qed.

Corollary ite_ok c st i t e st' r : WF c st -> i < size st -> t < size st -> e < size st ->
  ite c st i t e = Some (st', r) -> WF c st' /\ ite_spec st st' i t e r.
Proof. unfold ite. apply ite_f_ok. Qed.
