(** Totality of [ite] with the canonical fuel [S (size st)].
    The minimal top variable of the three operands strictly increases along the recursion of
    [ite_f], no operation introduces a variable that does not already label a node, and there
    are fewer labelled nodes than [size st]. *)
From Coq Require Import NArith List Bool Lia ListSet.
From ADF Require Import Base.Maps Spec.Spec Bdd.Store Bdd.WF Bdd.Node Bdd.Restrict Bdd.Ite.
Import ListNotations.
Local Open Scope N_scope.

(** * the variables labelling the nodes of a store *)
Definition VarsIn (st : store) (L : list N) : Prop :=
  forall h, 2 <= h -> h < size st -> In (topv st h) L.

Lemma VarsIn_nodes_eq st st' L :
  nodes st' = nodes st -> size st' = size st -> VarsIn st L -> VarsIn st' L.
Proof.
  intros En Es V h H2 Hh. rewrite (topv_nodes_eq st st' En). apply V; [exact H2|]. rewrite <- Es. exact Hh.
Qed.

Lemma mk_node_vars c st v lo hi st' r L :
  mk_node c st v lo hi = (st', r) -> In v L -> VarsIn st L -> VarsIn st' L.
Proof.
  intros X Hv V.
  destruct (mk_node_cases c st v lo hi st' r X)
    as [(_ & -> & _) | [(_ & _ & ->) | (_ & _ & _ & HF)]]; [exact V|exact V|].
  intros h H2 Hh. rewrite (fresh_size c st st' v lo hi HF) in Hh.
  destruct (N.eq_dec h (size st)) as [->|Hne].
  - unfold topv. rewrite (fresh_get_t c st st' v lo hi HF). exact Hv.
  - assert (Hlt : h < size st) by lia.
    assert (G : get_node st' h = get_node st h).
    { unfold get_node. rewrite (fresh_nodes c st st' v lo hi HF).
      destruct (N.eqb_spec (size st) h) as [He|_]; [congruence|reflexivity]. }
    unfold topv. rewrite G. apply (V h H2 Hlt).
Qed.

Lemma restrict_f_vars c L : forall fuel st tree var b st' r, WF c st -> tree < size st ->
  restrict_f c fuel st tree var b = Some (st', r) -> VarsIn st L -> VarsIn st' L.
Proof.
  induction fuel as [|f IH]; intros st tree var b st' r WFst Ht X V; [discriminate X|].
  pose proof (wf_n c st WFst) as W.
  cbn [restrict_f] in X.
  destruct (TM.find (k3 tree var (b2n b)) (resc st)) as [r0|] eqn:Fc.
  { inversion X; subst st' r0. exact V. }
  destruct (varlist c && negb (nset_mem var (get_vd st tree))).
  { inversion X; subst st' r. exact V. }
  destruct ((var <? nv (get_node st tree)) || (VBOT <=? nv (get_node st tree))) eqn:Eord.
  { inversion X; subst st' r. exact V. }
  apply orb_false_iff in Eord. destruct Eord as [Eo1 Eo2].
  apply N.ltb_ge in Eo1. apply N.leb_gt in Eo2.
  assert (H2 : 2 <= tree).
  { destruct (N.le_gt_cases tree 1) as [Hterm|Hnt]; [|lia].
    pose proof (nv_terminal st tree W Hterm). lia. }
  destruct (wf_node' st tree W H2 Ht) as (_ & _ & Hlo & Hhi & _).
  destruct (nv (get_node st tree) <? var).
  - apply obind_inv in X. destruct X as ([st1 lo'] & X1 & X).
    apply obind_inv in X. destruct X as ([st2 hi'] & X2 & X).
    destruct (mk_node c st2 (nv (get_node st tree)) lo' hi') as [st3 r3] eqn:M.
    inversion X; subst st' r3.
    assert (Hlos : nlo (get_node st tree) < size st) by lia.
    destruct (restrict_f_ok c f st _ var b st1 lo' WFst Hlos X1) as (WF1 & E1 & _).
    assert (Hhis : nhi (get_node st tree) < size st1) by (apply (extends_lt st st1 _ E1); lia).
    pose proof (IH st _ var b st1 lo' WFst Hlos X1 V) as V1.
    pose proof (IH st1 _ var b st2 hi' WF1 Hhis X2 V1) as V2.
    assert (V3 : VarsIn st3 L).
    { apply (mk_node_vars c st2 _ lo' hi' st3 r L M); [|exact V2]. apply (V tree H2 Ht). }
    apply (VarsIn_nodes_eq st3); [reflexivity|reflexivity|exact V3].
  - apply obind_inv in X. destruct X as ([st1 r1] & X1 & X).
    inversion X; subst st' r1.
    assert (Hch : (if b then nhi (get_node st tree) else nlo (get_node st tree)) < size st)
      by (destruct b; lia).
    pose proof (IH st _ var b st1 r WFst Hch X1 V) as V1.
    apply (VarsIn_nodes_eq st1); [reflexivity|reflexivity|exact V1].
Qed.

(** * counting the variables of [L] that are not below [m] *)
Definition cnt_ge (L : list N) (m : N) : nat := length (filter (fun v => m <=? v) L).

Lemma cnt_ge_cons x L m : cnt_ge (x :: L) m = ((if m <=? x then 1 else 0) + cnt_ge L m)%nat.
Proof. unfold cnt_ge. cbn [filter]. destruct (m <=? x); reflexivity. Qed.

Lemma cnt_ge_mono L m m' : m <= m' -> (cnt_ge L m' <= cnt_ge L m)%nat.
Proof.
  intros Hle. induction L as [|x L IH]; [apply le_n|]. rewrite !cnt_ge_cons.
  destruct (N.leb_spec m' x) as [H1|H1]; destruct (N.leb_spec m x) as [H2|H2]; lia.
Qed.

Lemma cnt_ge_lt L m m' : In m L -> m < m' -> (cnt_ge L m' < cnt_ge L m)%nat.
Proof.
  intros Hin Hlt. induction L as [|x L IH]; [contradiction|]. rewrite !cnt_ge_cons.
  destruct Hin as [->|Hin].
  - pose proof (cnt_ge_mono L m m' (N.lt_le_incl _ _ Hlt)).
    destruct (N.leb_spec m' m) as [H1|H1]; destruct (N.leb_spec m m) as [H2|H2]; lia.
  - specialize (IH Hin).
    destruct (N.leb_spec m' x) as [H1|H1]; destruct (N.leb_spec m x) as [H2|H2]; lia.
Qed.

Lemma cnt_ge_length L m : (cnt_ge L m <= length L)%nat.
Proof.
  induction L as [|x L IH]; [apply le_n|]. rewrite cnt_ge_cons. cbn [length].
  destruct (m <=? x); lia.
Qed.

(** a list of all variables of a store, no longer than the store *)
Definition vars_of (st : store) : list N :=
  map (fun k => topv st (N.of_nat k)) (seq 2 (N.to_nat (size st) - 2)).

Lemma vars_of_length st : length (vars_of st) = (N.to_nat (size st) - 2)%nat.
Proof. unfold vars_of. rewrite map_length, seq_length. reflexivity. Qed.

Lemma vars_of_VarsIn st : VarsIn st (vars_of st).
Proof.
  intros h H2 Hh. unfold vars_of.
  apply in_map_iff. exists (N.to_nat h). split; [rewrite N2Nat.id; reflexivity|apply in_seq; lia].
Qed.

(** * restricting an old handle in a later store always succeeds *)
Lemma restrict_old_total c st0 st h m b L :
  WFN st0 -> extends st0 st -> WF c st -> h < size st0 -> m < VBOT -> m <= topv st0 h -> VarsIn st L ->
  exists st' r, restrict c st h m b = Some (st', r) /\
    WF c st' /\ extends st st' /\ extends st0 st' /\ cof_handle st0 st' h m b r /\ VarsIn st' L.
Proof.
  intros W0 E0 WFst Hh Hm Hle V.
  assert (Hhs : h < size st) by (apply (extends_lt st0 st h E0 Hh)).
  destruct (restrict_total c st h m b WFst Hhs) as (st' & r & X).
  exists st', r. split; [exact X|].
  destruct (restrict_old c st0 st st' h m b r W0 E0 WFst Hh Hm Hle X) as (WF' & E & E0' & _ & C).
  split; [exact WF'|]. split; [exact E|]. split; [exact E0'|]. split; [exact C|].
  unfold restrict in X. apply (restrict_f_vars c L _ st h m b st' r WFst Hhs X V).
Qed.

(** the minimal top variable of a non-terminal triple labels a node *)
Lemma min3_in_vars st i t e L :
  WFN st -> VarsIn st L -> 2 <= i -> i < size st -> t < size st -> e < size st ->
  In (min3 (topv st i) (topv st t) (topv st e)) L /\ min3 (topv st i) (topv st t) (topv st e) < VBOT.
Proof.
  intros W V H2 Hi Ht He.
  pose proof (topv_nonterminal st i W H2 Hi) as Hvi.
  pose proof (min3_le_1 (topv st i) (topv st t) (topv st e)) as Hm1.
  split; [|lia].
  assert (G : forall x, x < size st -> topv st x < VBOT -> In (topv st x) L).
  { intros x Hx Hv. apply V; [|exact Hx].
    destruct (N.le_gt_cases x 1) as [Hterm|Hnt]; [|lia].
    pose proof (topv_terminal st x W Hterm). lia. }
  unfold min3 in *.
  destruct (N.min_spec (topv st t) (topv st e)) as [[_ E1]|[_ E1]]; rewrite E1 in *;
  match goal with |- In (N.min ?a ?b) L =>
    destruct (N.min_spec a b) as [[_ E2]|[_ E2]]; rewrite E2 in *
  end; apply G; auto; lia.
Qed.

(** * totality of [ite_f], together with the preservation of the variable set *)
Lemma ite_f_total_vars c L : forall fuel st i t e,
  WF c st -> i < size st -> t < size st -> e < size st -> VarsIn st L ->
  (cnt_ge L (min3 (topv st i) (topv st t) (topv st e)) <= fuel)%nat ->
  exists st' r, ite_f c fuel st i t e = Some (st', r) /\ VarsIn st' L.
Proof.
  induction fuel as [|f IH]; intros st i t e WFst Hi Ht He V Hc; rewrite ite_f_unfold;
    (destruct (ite_early st i t e) as [r0|] eqn:EE; [exists st, r0; split; [reflexivity|exact V]|]);
    pose proof (wf_n c st WFst) as W;
    pose proof (ite_early_none_nonterminal st i t e EE) as H2;
    destruct (min3_in_vars st i t e L W V H2 Hi Ht He) as (Hin & Hm).
  - (* no fuel: impossible, the minimal variable itself is counted *)
    exfalso. set (m := min3 (topv st i) (topv st t) (topv st e)) in *.
    assert (Hpos : (0 < cnt_ge L m)%nat).
    { clear - Hin. induction L as [|x L IHL]; [contradiction|]. rewrite cnt_ge_cons.
      destruct Hin as [->|Hin]; [rewrite N.leb_refl; lia|]. specialize (IHL Hin). lia. }
    lia.
  - unfold ite_step. cbv zeta.
    fold (topv st i). fold (topv st t). fold (topv st e).
    fold (min3 (topv st i) (topv st t) (topv st e)).
    set (m := min3 (topv st i) (topv st t) (topv st e)) in *.
    assert (Hmi : m <= topv st i) by apply min3_le_1.
    assert (Hmt : m <= topv st t) by apply min3_le_2.
    assert (Hme : m <= topv st e) by apply min3_le_3.
    destruct (restrict_old_total c st st i m true L W (extends_refl st) WFst Hi Hm Hmi V)
      as (s1 & itop & X1 & WF1 & _ & E1 & C1 & V1).
    destruct (restrict_old_total c st s1 t m true L W E1 WF1 Ht Hm Hmt V1)
      as (s2 & ttop & X2 & WF2 & E12 & E2 & C2 & V2).
    destruct (restrict_old_total c st s2 e m true L W E2 WF2 He Hm Hme V2)
      as (s3 & etop & X3 & WF3 & E23 & E3 & C3 & V3).
    destruct (restrict_old_total c st s3 i m false L W E3 WF3 Hi Hm Hmi V3)
      as (s4 & ibot & X4 & WF4 & E34 & E4 & C4 & V4).
    destruct (restrict_old_total c st s4 t m false L W E4 WF4 Ht Hm Hmt V4)
      as (s5 & tbot & X5 & WF5 & E45 & E5 & C5 & V5).
    destruct (restrict_old_total c st s5 e m false L W E5 WF5 He Hm Hme V5)
      as (s6 & ebot & X6 & WF6 & E56 & E6 & C6 & V6).
    rewrite X1; cbn [obind]. rewrite X2; cbn [obind]. rewrite X3; cbn [obind].
    rewrite X4; cbn [obind]. rewrite X5; cbn [obind]. rewrite X6; cbn [obind].
    pose proof (wf_n c s1 WF1) as W1. pose proof (wf_n c s2 WF2) as W2.
    pose proof (wf_n c s3 WF3) as W3. pose proof (wf_n c s4 WF4) as W4.
    pose proof (wf_n c s5 WF5) as W5. pose proof (wf_n c s6 WF6) as W6.
    assert (E46 : extends s4 s6) by (apply (extends_trans s4 s5 s6 E45), E56).
    assert (E36 : extends s3 s6) by (apply (extends_trans s3 s4 s6 E34), E46).
    assert (E26 : extends s2 s6) by (apply (extends_trans s2 s3 s6 E23), E36).
    assert (E16 : extends s1 s6) by (apply (extends_trans s1 s2 s6 E12), E26).
    pose proof (cof_handle_extends st s1 s6 i m true itop W1 E16 C1) as D1.
    pose proof (cof_handle_extends st s2 s6 t m true ttop W2 E26 C2) as D2.
    pose proof (cof_handle_extends st s3 s6 e m true etop W3 E36 C3) as D3.
    pose proof (cof_handle_extends st s4 s6 i m false ibot W4 E46 C4) as D4.
    pose proof (cof_handle_extends st s5 s6 t m false tbot W5 E56 C5) as D5.
    pose proof C6 as D6.
    (* first recursive call *)
    assert (Hc7 : (cnt_ge L (min3 (topv s6 itop) (topv s6 ttop) (topv s6 etop)) <= f)%nat).
    { pose proof (min3_glb_lt _ _ _ m (proj2 (proj2 D1)) (proj2 (proj2 D2)) (proj2 (proj2 D3))) as Hlt.
      pose proof (cnt_ge_lt L m _ Hin Hlt). lia. }
    destruct (IH s6 itop ttop etop WF6 (proj1 D1) (proj1 D2) (proj1 D3) V6 Hc7)
      as (s7 & top_ite & X7 & V7).
    rewrite X7; cbn [obind].
    destruct (ite_f_ok c f s6 itop ttop etop s7 top_ite WF6 (proj1 D1) (proj1 D2) (proj1 D3) X7)
      as (WF7 & S7).
    assert (E67 : extends s6 s7) by apply S7.
    pose proof (cof_handle_extends st s6 s7 i m false ibot W6 E67 D4) as F4.
    pose proof (cof_handle_extends st s6 s7 t m false tbot W6 E67 D5) as F5.
    pose proof (cof_handle_extends st s6 s7 e m false ebot W6 E67 D6) as F6.
    (* second recursive call *)
    assert (Hc8 : (cnt_ge L (min3 (topv s7 ibot) (topv s7 tbot) (topv s7 ebot)) <= f)%nat).
    { pose proof (min3_glb_lt _ _ _ m (proj2 (proj2 F4)) (proj2 (proj2 F5)) (proj2 (proj2 F6))) as Hlt.
      pose proof (cnt_ge_lt L m _ Hin Hlt). lia. }
    destruct (IH s7 ibot tbot ebot WF7 (proj1 F4) (proj1 F5) (proj1 F6) V7 Hc8)
      as (s8 & bot_ite & X8 & V8).
    rewrite X8; cbn [obind].
    destruct (mk_node c s8 m bot_ite top_ite) as [s9 r] eqn:M.
    exists (set_itec s9 (k3 i t e) r), r. split; [reflexivity|].
    apply (VarsIn_nodes_eq s9); [reflexivity|reflexivity|].
    apply (mk_node_vars c s8 m bot_ite top_ite s9 r L M Hin V8).
Qed.

Theorem ite_total c st i t e : WF c st -> i < size st -> t < size st -> e < size st ->
  exists st' r, ite c st i t e = Some (st', r).
Proof.
  intros WFst Hi Ht He. unfold ite.
  destruct (ite_f_total_vars c (vars_of st) (S (N.to_nat (size st))) st i t e WFst Hi Ht He
              (vars_of_VarsIn st)) as (st' & r & X & _).
  - pose proof (cnt_ge_length (vars_of st) (min3 (topv st i) (topv st t) (topv st e))) as H.
    rewrite vars_of_length in H. lia.
  - exists st', r. exact X.
Qed.
