(** Well-formedness of the node table, denotation of handles, extension of stores.
    Proofs about the model of lib/src/obdd.rs start here. *)
From Coq Require Import NArith List Bool Lia.
From ADF Require Import Base.Maps Spec.Spec Bdd.Store.
Import ListNotations.
Local Open Scope N_scope.

Arguments N.add : simpl never.
Arguments N.sub : simpl never.
Arguments N.mul : simpl never.
Arguments N.eqb : simpl never.
Arguments N.ltb : simpl never.
Arguments N.leb : simpl never.
Arguments N.min : simpl never.
Arguments N.max : simpl never.
Arguments N.to_nat : simpl never.

Lemma N_strong_ind (P : N -> Prop) :
  (forall n, (forall m, m < n -> P m) -> P n) -> forall n, P n.
Proof. intros H n. induction n as [n IH] using (well_founded_induction N.lt_wf_0). apply H, IH. Qed.

Lemma VBOT_lt_VTOP : VBOT < VTOP. Proof. reflexivity. Qed.

(** node-table invariant: terminals in place, every other node is a proper, reduced, ordered
    node with earlier children, and [uniq] is exactly the inverse of [nodes] on handles >= 2 *)
Record WFN (st : store) : Prop := mkWFN {
  wf_bot : NM.find 0 (nodes st) = Some node_bot;
  wf_top : NM.find 1 (nodes st) = Some node_top;
  wf_size : 2 <= size st;
  wf_dom : forall h, NM.find h (nodes st) <> None <-> h < size st;
  wf_node : forall h n, 2 <= h -> NM.find h (nodes st) = Some n ->
      nv n < VBOT /\ nlo n <> nhi n /\ nlo n < h /\ nhi n < h /\
      nv n < nv (get_node st (nlo n)) /\ nv n < nv (get_node st (nhi n));
  wf_uniq : forall v lo hi t, TM.find (k3 v lo hi) (uniq st) = Some t <->
      (2 <= t /\ NM.find t (nodes st) = Some (mkN v lo hi))
}.

Lemma get_node_find st h n : NM.find h (nodes st) = Some n -> get_node st h = n.
Proof. unfold get_node. intros ->. reflexivity. Qed.

Lemma find_get_node st h : WFN st -> h < size st -> NM.find h (nodes st) = Some (get_node st h).
Proof.
  intros W Hh. apply (wf_dom st W) in Hh. unfold get_node.
  destruct (NM.find h (nodes st)); congruence.
Qed.

Lemma get_node_0 st : WFN st -> get_node st 0 = node_bot.
Proof. intros W. apply get_node_find, (wf_bot st W). Qed.
Lemma get_node_1 st : WFN st -> get_node st 1 = node_top.
Proof. intros W. apply get_node_find, (wf_top st W). Qed.

Lemma wf_node' st h : WFN st -> 2 <= h -> h < size st ->
  let n := get_node st h in
  nv n < VBOT /\ nlo n <> nhi n /\ nlo n < h /\ nhi n < h /\
  nv n < nv (get_node st (nlo n)) /\ nv n < nv (get_node st (nhi n)).
Proof. intros W H2 Hs. apply (wf_node st W h); auto. apply find_get_node; auto. Qed.

Lemma nv_terminal st h : WFN st -> h <= 1 -> VBOT <= nv (get_node st h).
Proof.
  intros W Hh. assert (h = 0 \/ h = 1) as [-> | ->] by lia.
  - rewrite get_node_0; auto. cbn. lia.
  - rewrite get_node_1; auto. cbn. unfold VBOT, VTOP. lia.
Qed.

Lemma nv_nonterminal st h : WFN st -> 2 <= h -> h < size st -> nv (get_node st h) < VBOT.
Proof. intros W H2 Hs. apply (wf_node' st h W H2 Hs). Qed.

(** denotation: walk from [h]; the canonical fuel is the handle itself *)
Fixpoint den_f (fuel : nat) (st : store) (h : N) (a : asg) : bool :=
  match fuel with
  | O => false
  | S f =>
    if h =? 0 then false else if h =? 1 then true else
    let n := get_node st h in den_f f st (if a (nv n) then nhi n else nlo n) a
  end.
Definition den (st : store) (h : N) : bfun := fun a => den_f (S (N.to_nat h)) st h a.
Arguments den : simpl never.

Lemma den_f_indep st : WFN st -> forall f1 f2 h a, h < size st ->
  (N.to_nat h < f1)%nat -> (N.to_nat h < f2)%nat -> den_f f1 st h a = den_f f2 st h a.
Proof.
  intros W f1. induction f1 as [|f1 IH]; intros f2 h a Hs H1 H2; [lia|].
  destruct f2 as [|f2]; [lia|]. cbn [den_f].
  destruct (N.eqb_spec h 0) as [?Hq|?Hq]; [reflexivity|].
  destruct (N.eqb_spec h 1) as [?Hq|?Hq]; [reflexivity|].
  assert (H2h : 2 <= h) by lia.
  destruct (wf_node' st h W H2h Hs) as (_ & _ & Hlo & Hhi & _).
  apply IH; destruct (a (nv (get_node st h))); lia.
Qed.

Lemma den_f_enough st : WFN st -> forall f h a, h < size st -> (N.to_nat h < f)%nat ->
  den_f f st h a = den st h a.
Proof. intros W f h a Hs Hf. unfold den. apply den_f_indep; auto; lia. Qed.

Lemma den_0 st a : den st 0 a = false. Proof. reflexivity. Qed.
Lemma den_1 st a : den st 1 a = true. Proof. reflexivity. Qed.

Lemma den_node st h a : WFN st -> 2 <= h -> h < size st ->
  den st h a = den st (if a (nv (get_node st h)) then nhi (get_node st h) else nlo (get_node st h)) a.
Proof.
  intros W H2 Hs. unfold den at 1. cbn [den_f].
  destruct (N.eqb_spec h 0) as [?Hq|?Hq]; [lia|]. destruct (N.eqb_spec h 1) as [?Hq|?Hq]; [lia|].
  destruct (wf_node' st h W H2 Hs) as (_ & _ & Hlo & Hhi & _).
  apply den_f_enough; auto.
  - destruct (a (nv (get_node st h))); lia.
  - destruct (a (nv (get_node st h))); lia.
Qed.

(** the inductive evaluation relation of the specification agrees with [den] *)
Lemma table_of_length st : length (table_of st) = N.to_nat (size st).
Proof. unfold table_of. rewrite map_length, seq_length. reflexivity. Qed.

Lemma getn_table_of st h : h < size st -> getn (table_of st) h = get_node st h.
Proof.
  intros Hs. unfold getn, table_of.
  rewrite nth_indep with (d' := get_node st (N.of_nat 0))
    by (rewrite map_length, seq_length; lia).
  rewrite (map_nth (fun x => get_node st (N.of_nat x)) (seq 0 (N.to_nat (size st))) 0%nat).
  rewrite seq_nth by lia. cbn. f_equal. lia.
Qed.

Lemma den_Den st : WFN st -> forall h a, h < size st -> Den (table_of st) h a (den st h a).
Proof.
  intros W h. induction h as [h IH] using N_strong_ind. intros a Hs.
  destruct (N.eq_dec h 0) as [->|?Hq]; [apply DenBot|].
  destruct (N.eq_dec h 1) as [->|?Hq]; [apply DenTop|].
  assert (H2 : 2 <= h) by lia.
  rewrite den_node by auto.
  destruct (wf_node' st h W H2 Hs) as (_ & _ & Hlo & Hhi & _).
  apply DenNode; auto.
  - rewrite table_of_length. lia.
  - rewrite getn_table_of by auto.
    apply IH; destruct (a (nv (get_node st h))); lia.
Qed.

Lemma Den_fun t h a b b' : Den t h a b -> Den t h a b' -> b = b'.
Proof.
  intros H. revert b'. induction H; intros b' H'.
  - inversion H'; subst; auto; lia.
  - inversion H'; subst; auto; lia.
  - inversion H'; subst; try lia. auto.
Qed.

(** [st'] extends [st]: same nodes below [size st] *)
Definition extends (st st' : store) : Prop :=
  size st <= size st' /\ forall h, h < size st -> NM.find h (nodes st') = NM.find h (nodes st).

Lemma extends_refl st : extends st st.
Proof. split; auto. lia. Qed.
Lemma extends_trans a b c : extends a b -> extends b c -> extends a c.
Proof.
  intros [H1 H2] [H3 H4]. split; [lia|]. intros h Hh. rewrite H4 by lia. apply H2; auto.
Qed.

Lemma extends_get_node st st' h : extends st st' -> h < size st -> get_node st' h = get_node st h.
Proof. intros [_ H] Hh. unfold get_node. rewrite H; auto. Qed.

Lemma den_f_extends st st' : WFN st -> extends st st' -> forall f h a, h < size st ->
  den_f f st' h a = den_f f st h a.
Proof.
  intros W E f. induction f as [|f IH]; intros h a Hs; [reflexivity|]. cbn [den_f].
  destruct (N.eqb_spec h 0) as [?Hq|?Hq]; [reflexivity|].
  destruct (N.eqb_spec h 1) as [?Hq|?Hq]; [reflexivity|].
  assert (H2 : 2 <= h) by lia.
  destruct (wf_node' st h W H2 Hs) as (_ & _ & Hlo & Hhi & _).
  rewrite (extends_get_node st st' h E Hs).
  apply IH. destruct (a (nv (get_node st h))); lia.
Qed.

Lemma den_extends st st' : WFN st -> extends st st' -> forall h a, h < size st -> den st' h a = den st h a.
Proof. intros W E h a Hs. unfold den. apply den_f_extends; auto. Qed.

(** functions of handles are insensitive to variables above/below *)
Lemma den_indep_below st : WFN st -> forall h a v b, h < size st -> v < nv (get_node st h) ->
  den st h (upd a v b) = den st h a.
Proof.
  intros W h. induction h as [h IH] using N_strong_ind. intros a v b Hs Hv.
  destruct (N.eq_dec h 0) as [->|?Hq]; [reflexivity|].
  destruct (N.eq_dec h 1) as [->|?Hq]; [reflexivity|].
  assert (H2 : 2 <= h) by lia.
  destruct (wf_node' st h W H2 Hs) as (_ & _ & Hlo & Hhi & Hvl & Hvh).
  rewrite !(den_node st h _ W H2 Hs).
  set (n := get_node st h) in *.
  assert (E : upd a v b (nv n) = a (nv n)).
  { unfold upd. destruct (N.eqb_spec (nv n) v) as [?Hq|?Hq]; [lia|reflexivity]. }
  rewrite E. destruct (a (nv n)); apply IH; lia.
Qed.

(** the Shannon expansion of a handle at a variable not above its top variable *)
Lemma den_cofactor_top st : WFN st -> forall h a b, 2 <= h -> h < size st ->
  den st h (upd a (nv (get_node st h)) b) =
  den st (if b then nhi (get_node st h) else nlo (get_node st h)) a.
Proof.
  intros W h a b H2 Hs.
  destruct (wf_node' st h W H2 Hs) as (_ & _ & Hlo & Hhi & Hvl & Hvh).
  rewrite (den_node st h _ W H2 Hs).
  set (n := get_node st h) in *.
  assert (E : upd a (nv n) b (nv n) = b) by (unfold upd; rewrite N.eqb_refl; reflexivity).
  rewrite E. destruct b; apply den_indep_below; auto; lia.
Qed.

Lemma den_cofactor_lo st : WFN st -> forall h a, 2 <= h -> h < size st ->
  den st h (upd a (nv (get_node st h)) false) = den st (nlo (get_node st h)) a.
Proof. intros W h a H2 Hs. apply (den_cofactor_top st W h a false H2 Hs). Qed.
Lemma den_cofactor_hi st : WFN st -> forall h a, 2 <= h -> h < size st ->
  den st h (upd a (nv (get_node st h)) true) = den st (nhi (get_node st h)) a.
Proof. intros W h a H2 Hs. apply (den_cofactor_top st W h a true H2 Hs). Qed.

(** canonicity: in a well-formed table two handles with the same function are equal *)
Theorem canonicity st : WFN st -> forall h k, h < size st -> k < size st ->
  (forall a, den st h a = den st k a) -> h = k.
Proof.
  intros W.
  (* strong induction on max h k, via a bound *)
  assert (G : forall m h k, h < m -> k < m -> h < size st -> k < size st ->
              (forall a, den st h a = den st k a) -> h = k).
  { induction m as [|m IH] using N.peano_ind; intros h k Hhm Hkm Hh Hk E; [lia|].
    (* terminal cases *)
    assert (T0 : forall x, x < size st -> x < N.succ m -> (forall a, den st x a = false) -> x = 0).
    { intros x Hx Hxm Ex.
      destruct (N.eq_dec x 0); auto. destruct (N.eq_dec x 1) as [->|?Hq]; [specialize (Ex (fun _ => true)); discriminate|].
      assert (H2 : 2 <= x) by lia.
      destruct (wf_node' st x W H2 Hx) as (_ & Hne & Hlo & Hhi & _).
      exfalso. apply Hne.
      apply (IH (nlo (get_node st x)) (nhi (get_node st x))); try lia.
      intros a. rewrite <- (den_cofactor_lo st W x a H2 Hx), <- (den_cofactor_hi st W x a H2 Hx).
      rewrite !Ex. reflexivity. }
    assert (T1 : forall x, x < size st -> x < N.succ m -> (forall a, den st x a = true) -> x = 1).
    { intros x Hx Hxm Ex.
      destruct (N.eq_dec x 1); auto. destruct (N.eq_dec x 0) as [->|?Hq]; [specialize (Ex (fun _ => true)); discriminate|].
      assert (H2 : 2 <= x) by lia.
      destruct (wf_node' st x W H2 Hx) as (_ & Hne & Hlo & Hhi & _).
      exfalso. apply Hne.
      apply (IH (nlo (get_node st x)) (nhi (get_node st x))); try lia.
      intros a. rewrite <- (den_cofactor_lo st W x a H2 Hx), <- (den_cofactor_hi st W x a H2 Hx).
      rewrite !Ex. reflexivity. }
    destruct (N.eq_dec h 0) as [->|Hh0].
    { symmetry. apply T0; auto. intros a. rewrite <- E. reflexivity. }
    destruct (N.eq_dec h 1) as [->|Hh1].
    { symmetry. apply T1; auto. intros a. rewrite <- E. reflexivity. }
    destruct (N.eq_dec k 0) as [->|Hk0].
    { apply T0; auto. }
    destruct (N.eq_dec k 1) as [->|Hk1].
    { apply T1; auto. }
    assert (H2h : 2 <= h) by lia. assert (H2k : 2 <= k) by lia.
    destruct (wf_node' st h W H2h Hh) as (Hvh & Hneh & Hloh & Hhih & Hvlh & Hvhh).
    destruct (wf_node' st k W H2k Hk) as (Hvk & Hnek & Hlok & Hhik & Hvlk & Hvhk).
    destruct (N.lt_trichotomy (nv (get_node st h)) (nv (get_node st k))) as [Hlt | [Heq | Hgt]].
    - (* h tests an earlier variable than k: k is independent of it, so lo h = hi h *)
      exfalso. apply Hneh.
      apply (IH (nlo (get_node st h)) (nhi (get_node st h))); try lia.
      intros a.
      rewrite <- (den_cofactor_lo st W h a H2h Hh), <- (den_cofactor_hi st W h a H2h Hh).
      rewrite !E.
      rewrite !(den_indep_below st W k) by (auto; lia). reflexivity.
    - (* same top variable: children pairwise equal, then uniqueness of the node *)
      assert (El : nlo (get_node st h) = nlo (get_node st k)).
      { apply (IH (nlo (get_node st h)) (nlo (get_node st k))); try lia. intros a.
        rewrite <- (den_cofactor_lo st W h a H2h Hh), <- (den_cofactor_lo st W k a H2k Hk).
        rewrite Heq. apply E. }
      assert (Eh : nhi (get_node st h) = nhi (get_node st k)).
      { apply (IH (nhi (get_node st h)) (nhi (get_node st k))); try lia. intros a.
        rewrite <- (den_cofactor_hi st W h a H2h Hh), <- (den_cofactor_hi st W k a H2k Hk).
        rewrite Heq. apply E. }
      assert (Fh : NM.find h (nodes st) = Some (get_node st h)) by (apply find_get_node; auto).
      assert (Fk : NM.find k (nodes st) = Some (get_node st k)) by (apply find_get_node; auto).
      assert ((get_node st h) = (get_node st k)) by (destruct (get_node st h), (get_node st k); cbn in *; congruence).
      destruct (get_node st h) as [v lo hi] eqn:Enh.
      assert (U1 : TM.find (k3 v lo hi) (uniq st) = Some h) by (apply (wf_uniq st W); split; auto).
      assert (U2 : TM.find (k3 v lo hi) (uniq st) = Some k) by (apply (wf_uniq st W); split; auto; congruence).
      congruence.
    - exfalso. apply Hnek.
      apply (IH (nlo (get_node st k)) (nhi (get_node st k))); try lia.
      intros a.
      rewrite <- (den_cofactor_lo st W k a H2k Hk), <- (den_cofactor_hi st W k a H2k Hk).
      rewrite <- !E.
      rewrite !(den_indep_below st W h) by (auto; lia). reflexivity. }
  intros h k Hh Hk E. apply (G (N.succ (N.max h k))); auto; lia.
Qed.

Corollary const_true_iff st h : WFN st -> h < size st -> (h = 1 <-> forall a, den st h a = true).
Proof.
  intros W Hh. split; [intros ->; reflexivity|].
  intros E. apply (canonicity st W h 1); auto. pose proof (wf_size st W). lia.
Qed.
Corollary const_false_iff st h : WFN st -> h < size st -> (h = 0 <-> forall a, den st h a = false).
Proof.
  intros W Hh. split; [intros ->; reflexivity|].
  intros E. apply (canonicity st W h 0); auto. pose proof (wf_size st W). lia.
Qed.

(** link to the specification's [Canonical] predicate on the exported table *)
Lemma nth_error_table_of st h : h < size st ->
  nth_error (table_of st) (N.to_nat h) = Some (get_node st h).
Proof.
  intros Hs. rewrite (nth_error_nth' _ (mkN VTOP 1 1)) by (rewrite table_of_length; lia).
  f_equal. apply (getn_table_of st h Hs).
Qed.
