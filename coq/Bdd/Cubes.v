(** Path cubes (Bdd::interpretations): the cubes returned for a non-terminal root are pairwise
    disjoint and cover exactly the assignments that agree with the goal on the goal variable and
    evaluate to the goal value. *)
From Coq Require Import NArith List Bool Lia ListSet PeanoNat.
From ADF Require Import Base.Maps Spec.Spec Bdd.Store Bdd.WF Bdd.Node Bdd.Canon Bdd.Counts.
Import ListNotations.
Local Open Scope N_scope.

Definition in_cube (a : asg) (cube : list N * list N) : Prop :=
  (forall v, In v (fst cube) -> a v = false) /\ (forall v, In v (snd cube) -> a v = true).

Definition Disj (c1 c2 : list N * list N) : Prop := forall a, ~ (in_cube a c1 /\ in_cube a c2).

Lemma Disj_sym c1 c2 : Disj c1 c2 -> Disj c2 c1.
Proof. intros H a [H1 H2]. apply (H a). split; assumption. Qed.

Lemma in_cube_nil a : in_cube a ([], []).
Proof. split; intros v []. Qed.

Lemma in_cube_snoc_pos a neg pos v :
  in_cube a (neg, pos ++ [v]) <-> in_cube a (neg, pos) /\ a v = true.
Proof.
  unfold in_cube. cbn [fst snd]. split.
  - intros [Hn Hp]. split; [split|].
    + exact Hn.
    + intros x Hx. apply Hp. apply in_or_app. left. exact Hx.
    + apply Hp. apply in_or_app. right. left. reflexivity.
  - intros [[Hn Hp] Hv]. split; [exact Hn|].
    intros x Hx. apply in_app_or in Hx. destruct Hx as [Hx|[<-|[]]]; [apply Hp, Hx|exact Hv].
Qed.

Lemma in_cube_snoc_neg a neg pos v :
  in_cube a (neg ++ [v], pos) <-> in_cube a (neg, pos) /\ a v = false.
Proof.
  unfold in_cube. cbn [fst snd]. split.
  - intros [Hn Hp]. split; [split|].
    + intros x Hx. apply Hn. apply in_or_app. left. exact Hx.
    + exact Hp.
    + apply Hn. apply in_or_app. right. left. reflexivity.
  - intros [[Hn Hp] Hv]. split; [|exact Hp].
    intros x Hx. apply in_app_or in Hx. destruct Hx as [Hx|[<-|[]]]; [apply Hn, Hx|exact Hv].
Qed.

(** * the function, cut into the treatment of one child and the step *)
Definition branch (f : nat) (st : store) (ch : N) (goal : bool) (gv : N) (neg pos : list N)
  : list (list N * list N) :=
  if is_tv ch then (if eqb (is_true ch) goal then [(neg, pos)] else [])
  else cubes_f f st ch goal gv neg pos.

Lemma cubes_f_S f st h goal gv neg pos :
  cubes_f (S f) st h goal gv neg pos =
  if is_tv h then [] else
  (if negb (gv =? nv (get_node st h)) || goal
   then branch f st (nhi (get_node st h)) goal gv neg (pos ++ [nv (get_node st h)]) else []) ++
  (if negb (gv =? nv (get_node st h)) || negb goal
   then branch f st (nlo (get_node st h)) goal gv (neg ++ [nv (get_node st h)]) pos else []).
Proof. reflexivity. Qed.

Lemma cubes_terminal st h goal gv : h <= 1 -> cubes st h goal gv = [].
Proof.
  intros Hh. unfold cubes. rewrite cubes_f_S. unfold is_tv.
  destruct (N.leb_spec h 1) as [_|Hgt]; [reflexivity|lia].
Qed.

(** * disjointness (holds by construction, for every store and every fuel) *)
Lemma cubes_f_incl : forall f st h goal gv neg pos cb,
  In cb (cubes_f f st h goal gv neg pos) -> incl neg (fst cb) /\ incl pos (snd cb).
Proof.
  induction f as [|f IH]; intros st h goal gv neg pos cb Hin; [destruct Hin|].
  rewrite cubes_f_S in Hin. destruct (is_tv h); [destruct Hin|].
  assert (B : forall ch neg' pos', In cb (branch f st ch goal gv neg' pos') ->
            incl neg' (fst cb) /\ incl pos' (snd cb)).
  { intros ch neg' pos' Hb. unfold branch in Hb. destruct (is_tv ch).
    - destruct (eqb (is_true ch) goal); [|destruct Hb]. destruct Hb as [<-|[]].
      cbn [fst snd]. split; apply incl_refl.
    - apply (IH st ch goal gv neg' pos' cb Hb). }
  apply in_app_or in Hin. destruct Hin as [Hin|Hin].
  - destruct (negb (gv =? nv (get_node st h)) || goal); [|destruct Hin].
    destruct (B _ _ _ Hin) as (B1 & B2). split; [exact B1|].
    intros x Hx. apply B2. apply in_or_app. left. exact Hx.
  - destruct (negb (gv =? nv (get_node st h)) || negb goal); [|destruct Hin].
    destruct (B _ _ _ Hin) as (B1 & B2). split; [|exact B2].
    intros x Hx. apply B1. apply in_or_app. left. exact Hx.
Qed.

Lemma FOP_app {X} (R : X -> X -> Prop) l1 l2 :
  ForallOrdPairs R l1 -> ForallOrdPairs R l2 -> (forall x y, In x l1 -> In y l2 -> R x y) ->
  ForallOrdPairs R (l1 ++ l2).
Proof.
  intros H1 H2 Hc. induction H1 as [|x l Hx Hl IH]; cbn [app]; [exact H2|].
  constructor.
  - apply Forall_app. split; [exact Hx|]. apply Forall_forall. intros y Hy.
    apply Hc; [left; reflexivity|exact Hy].
  - apply IH. intros x0 y Hx0 Hy. apply Hc; [right; exact Hx0|exact Hy].
Qed.

Lemma FOP_nth_lt {X} (R : X -> X -> Prop) l : ForallOrdPairs R l ->
  forall i j x y, (i < j)%nat -> nth_error l i = Some x -> nth_error l j = Some y -> R x y.
Proof.
  intros H. induction H as [|a l Ha Hl IH]; intros i j x y Hij Hi Hj.
  - destruct i; discriminate Hi.
  - destruct j as [|j]; [lia|]. cbn [nth_error] in Hj. destruct i as [|i].
    + cbn [nth_error] in Hi. inversion Hi; subst a.
      apply (proj1 (Forall_forall _ _) Ha). apply (nth_error_In _ _ Hj).
    + cbn [nth_error] in Hi. apply (IH i j); [lia|assumption|assumption].
Qed.

Lemma FOP_nth {X} (R : X -> X -> Prop) l : (forall x y, R x y -> R y x) -> ForallOrdPairs R l ->
  forall i j x y, i <> j -> nth_error l i = Some x -> nth_error l j = Some y -> R x y.
Proof.
  intros Hs H i j x y Hij Hi Hj. destruct (Nat.lt_ge_cases i j) as [Hlt|Hge].
  - apply (FOP_nth_lt R l H i j); assumption.
  - apply Hs. apply (FOP_nth_lt R l H j i); [lia|assumption|assumption].
Qed.

Lemma cubes_f_pairdisj : forall f st h goal gv neg pos,
  ForallOrdPairs Disj (cubes_f f st h goal gv neg pos).
Proof.
  induction f as [|f IH]; intros st h goal gv neg pos; [constructor|].
  rewrite cubes_f_S. destruct (is_tv h); [constructor|].
  assert (B : forall ch neg' pos', ForallOrdPairs Disj (branch f st ch goal gv neg' pos')).
  { intros ch neg' pos'. unfold branch. destruct (is_tv ch); [|apply IH].
    destruct (eqb (is_true ch) goal); repeat constructor. }
  assert (Bi : forall ch neg' pos' cb, In cb (branch f st ch goal gv neg' pos') ->
            incl neg' (fst cb) /\ incl pos' (snd cb)).
  { intros ch neg' pos' cb Hb. unfold branch in Hb. destruct (is_tv ch).
    - destruct (eqb (is_true ch) goal); [|destruct Hb]. destruct Hb as [<-|[]].
      cbn [fst snd]. split; apply incl_refl.
    - apply (cubes_f_incl f st ch goal gv neg' pos' cb Hb). }
  apply FOP_app.
  - destruct (negb (gv =? nv (get_node st h)) || goal); [apply B|constructor].
  - destruct (negb (gv =? nv (get_node st h)) || negb goal); [apply B|constructor].
  - intros x y Hx Hy a [[_ Hxp] [Hyn _]].
    destruct (negb (gv =? nv (get_node st h)) || goal); [|destruct Hx].
    destruct (negb (gv =? nv (get_node st h)) || negb goal); [|destruct Hy].
    destruct (Bi _ _ _ _ Hx) as (_ & Ix). destruct (Bi _ _ _ _ Hy) as (Iy & _).
    assert (E1 : a (nv (get_node st h)) = true).
    { apply Hxp, Ix. apply in_or_app. right. left. reflexivity. }
    assert (E2 : a (nv (get_node st h)) = false).
    { apply Hyn, Iy. apply in_or_app. right. left. reflexivity. }
    congruence.
Qed.

(** no assignment lies in two different cubes of the result (indices, so that a repeated cube
    would count as two) *)
Theorem cubes_disjoint_gen st h goal gv : forall i j c1 c2, i <> j ->
  nth_error (cubes st h goal gv) i = Some c1 -> nth_error (cubes st h goal gv) j = Some c2 ->
  forall a, ~ (in_cube a c1 /\ in_cube a c2).
Proof.
  intros i j c1 c2 Hij H1 H2.
  apply (FOP_nth Disj _ Disj_sym (cubes_f_pairdisj _ st h goal gv [] []) i j c1 c2 Hij H1 H2).
Qed.

Theorem cubes_disjoint st h goal gv : WFN st -> h < size st -> forall i j c1 c2, i <> j ->
  nth_error (cubes st h goal gv) i = Some c1 -> nth_error (cubes st h goal gv) j = Some c2 ->
  forall a, ~ (in_cube a c1 /\ in_cube a c2).
Proof. intros _ _. apply cubes_disjoint_gen. Qed.

(** * cover *)
Lemma ex_in_app {X} (Q : X -> Prop) l1 l2 :
  (exists x, In x (l1 ++ l2) /\ Q x) <-> (exists x, In x l1 /\ Q x) \/ (exists x, In x l2 /\ Q x).
Proof.
  split.
  - intros (x & Hin & Hq). apply in_app_or in Hin. destruct Hin; [left|right]; eauto.
  - intros [(x & Hin & Hq)|(x & Hin & Hq)]; exists x; split; auto; apply in_or_app; auto.
Qed.

Lemma ex_in_if {X} (Q : X -> Prop) (b : bool) l :
  (exists x, In x (if b then l else []) /\ Q x) <-> b = true /\ exists x, In x l /\ Q x.
Proof.
  destruct b; split.
  - intros H. split; [reflexivity|exact H].
  - intros [_ H]. exact H.
  - intros (x & [] & _).
  - intros [E _]. discriminate E.
Qed.

Lemma cubes_f_cover st goal gv : WFN st -> forall h, h < size st -> 2 <= h ->
  forall f neg pos a, (N.to_nat h < f)%nat -> a gv = goal ->
  ((exists cb, In cb (cubes_f f st h goal gv neg pos) /\ in_cube a cb) <->
   (den st h a = goal /\ in_cube a (neg, pos))).
Proof.
  intros W.
  apply (handle_ind st (fun h => 2 <= h -> forall f neg pos a, (N.to_nat h < f)%nat -> a gv = goal ->
    ((exists cb, In cb (cubes_f f st h goal gv neg pos) /\ in_cube a cb) <->
     (den st h a = goal /\ in_cube a (neg, pos)))) W); [lia|lia|].
  intros h H2 Hs IHl IHh _ f neg pos a Hf Hgv.
  destruct f as [|f]; [lia|].
  destruct (child_lt st h W H2 Hs) as (Hlo & Hhi & Hlos & Hhis).
  assert (B : forall ch, ch < h -> ch < size st ->
    (2 <= ch -> forall f neg pos a, (N.to_nat ch < f)%nat -> a gv = goal ->
      ((exists cb, In cb (cubes_f f st ch goal gv neg pos) /\ in_cube a cb) <->
       (den st ch a = goal /\ in_cube a (neg, pos)))) ->
    forall neg' pos',
    ((exists cb, In cb (branch f st ch goal gv neg' pos') /\ in_cube a cb) <->
     (den st ch a = goal /\ in_cube a (neg', pos')))).
  { intros ch Hch Hchs IHc neg' pos'. unfold branch, is_tv, is_true.
    destruct (N.leb_spec ch 1) as [Hle|Hgt].
    - assert (Ed : den st ch a = (ch =? 1)).
      { assert (ch = 0 \/ ch = 1) as [-> | ->] by lia; reflexivity. }
      rewrite Ed. destruct (eqb_spec (ch =? 1) goal) as [Eg|Ng].
      + split.
        * intros (cb & [<-|[]] & Hc). split; [exact Eg|exact Hc].
        * intros [_ Hc]. exists (neg', pos'). split; [left; reflexivity|exact Hc].
      + split.
        * intros (cb & [] & _).
        * intros [Eg _]. contradiction.
    - apply IHc; [lia|lia|exact Hgv]. }
  rewrite cubes_f_S. unfold is_tv at 1. destruct (N.leb_spec h 1) as [|_]; [lia|].
  rewrite ex_in_app, !ex_in_if.
  rewrite (B _ Hhi Hhis IHh), (B _ Hlo Hlos IHl).
  rewrite in_cube_snoc_pos, in_cube_snoc_neg.
  rewrite (den_node st h a W H2 Hs).
  set (var := nv (get_node st h)) in *.
  destruct (a var) eqn:Ev.
  - split.
    + intros [(_ & Hd & Hc & _)|(_ & _ & _ & Hf0)]; [split; assumption|discriminate Hf0].
    + intros [Hd Hc]. left. split; [|split; [exact Hd|split; [exact Hc|reflexivity]]].
      destruct (N.eqb_spec gv var) as [Eg|Ng]; [|reflexivity].
      cbn [negb orb]. rewrite <- Hgv, Eg. exact Ev.
  - split.
    + intros [(_ & _ & _ & Hf0)|(_ & Hd & Hc & _)]; [discriminate Hf0|split; assumption].
    + intros [Hd Hc]. right. split; [|split; [exact Hd|split; [exact Hc|reflexivity]]].
      destruct (N.eqb_spec gv var) as [Eg|Ng]; [|reflexivity].
      cbn [negb orb]. rewrite <- Hgv, Eg, Ev. reflexivity.
Qed.

Theorem cubes_cover st h goal gv : WFN st -> 2 <= h -> h < size st -> forall a, a gv = goal ->
  (den st h a = goal <-> exists cube, In cube (cubes st h goal gv) /\ in_cube a cube).
Proof.
  intros W H2 Hs a Hgv. unfold cubes.
  rewrite (cubes_f_cover st goal gv W h Hs H2 (S (N.to_nat h)) [] [] a) by (auto; lia).
  split; [intros H; split; [exact H|apply in_cube_nil]|intros [H _]; exact H].
Qed.

(** documented finding: for a terminal root no cube is returned, even when the terminal equals
    the goal; so the cover statement needs a non-terminal root *)
Theorem cubes_terminal_refuted :
  ~ (forall st h goal gv, WFN st -> h < size st -> forall a, a gv = goal ->
       (den st h a = goal <-> exists cube, In cube (cubes st h goal gv) /\ in_cube a cube)).
Proof.
  intros H.
  assert (Hs : 1 < size (init cfg_default)) by reflexivity.
  destruct (H (init cfg_default) 1 true 0 (init_WFN cfg_default) Hs (fun _ => true) eq_refl) as [H1 _].
  destruct (H1 (den_1 _ _)) as (cb & Hin & _).
  rewrite cubes_terminal in Hin by lia. destruct Hin.
Qed.

(** * examples (store of Counts.v: 4 = x0&x1, 7 = (x0&x1)|x2, 9 = x0^x2) *)
Example ex_cubes :
  cubes (ex_st cfg_default) 4 true 100 = [([], [0; 1])] /\
  cubes (ex_st cfg_default) 4 false 100 = [([1], [0]); ([0], [])] /\
  cubes (ex_st cfg_default) 7 true 100 = [([], [0; 1]); ([1], [0; 2]); ([0], [2])] /\
  (* goal variable x2: only the branches with x2 = goal are followed *)
  cubes (ex_st cfg_default) 7 true 2 = [([], [0; 1]); ([1], [0; 2]); ([0], [2])] /\
  cubes (ex_st cfg_default) 7 false 2 = [([1; 2], [0]); ([0; 2], [])] /\
  cubes (ex_st cfg_default) 9 true 0 = [([2], [0])] /\
  cubes (ex_st cfg_default) 1 true 0 = [].
Proof. vm_compute. repeat split. Qed.

Example ex_cubes_cover :
  WFN (ex_st cfg_default) /\ 2 <= 7 /\ 7 < size (ex_st cfg_default) /\
  forall a, a 2 = true ->
    (den (ex_st cfg_default) 7 a = true <->
     exists cube, In cube [([], [0; 1]); ([1], [0; 2]); ([0], [2])] /\ in_cube a cube).
Proof.
  pose proof (wf_n _ _ (ex_wf cfg_default)) as W.
  assert (Hs : 7 < size (ex_st cfg_default)) by (vm_compute; reflexivity).
  assert (E : cubes (ex_st cfg_default) 7 true 2 = [([], [0; 1]); ([1], [0; 2]); ([0], [2])])
    by (vm_compute; reflexivity).
  split; [exact W|]. split; [lia|]. split; [exact Hs|].
  intros a Ha. rewrite <- E. apply (cubes_cover _ 7 true 2 W); [lia|exact Hs|exact Ha].
Qed.

Print Assumptions cubes_disjoint.
Print Assumptions cubes_disjoint_gen.
Print Assumptions cubes_cover.
Print Assumptions cubes_terminal.
Print Assumptions cubes_terminal_refuted.
