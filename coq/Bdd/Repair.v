(** The repair step [fix_import] applied to a store that is NOT fresh from an import (a live store, or a
    second application after an import):
    - when the variable-set table is rebuilt from scratch ([fix_import_x true], the repaired source) the
      result is a fully well-formed store with the same node table, whatever was computed before;
    - on a store fresh from an import both variants coincide (so the theorems of Bdd/Rebuild.v carry over);
    - the appending variant ([fix_import_x false], the pinned source) misaligns the table on a live store:
      a concrete program on which a later restriction returns another diagram. *)
From Coq Require Import NArith List Bool Lia.
From ADF Require Import Base.Maps Spec.Spec Gen.GenFlags Bdd.Store Bdd.WF Bdd.Node Bdd.Restrict Bdd.Ops Bdd.Canon Bdd.Rebuild.
Import ListNotations.
Local Open Scope N_scope.

Lemma clear_vd_import_raw l : clear_vd (import_raw l) = import_raw l.
Proof.
  unfold import_raw, clear_vd. destruct (fold_left _ l _) as [[nm um] k]. reflexivity.
Qed.

Lemma fix_import_x_import b c l : fix_import_x b c (import_raw l) = fix_import c (import_raw l).
Proof. unfold fix_import_x. destruct b; [rewrite clear_vd_import_raw|]; reflexivity. Qed.

Lemma clear_vd_same_tab st : same_tab st (clear_vd st).
Proof. repeat split. Qed.

Lemma clear_vd_WFN st : WFN st -> WFN (clear_vd st).
Proof. apply WFN_nodes_eq; reflexivity. Qed.

(** the repaired repair step on ANY well-formed store *)
Theorem fix_import_repaired_wf c st : WF c st ->
  WF c (fix_import_x true c st) /\ same_tab st (fix_import_x true c st).
Proof.
  intros [W R I V]. unfold fix_import_x. split.
  - destruct (fix_import_shape c (clear_vd st)) as (cs & ->). apply set_counts_WF.
    destruct (gen_vardeps_frame c (clear_vd st)) as (A1 & A2 & A3 & _ & A5 & A6 & _).
    constructor.
    + apply (WFN_nodes_eq st); [rewrite A1|rewrite A2|rewrite A3| ]; try reflexivity. exact W.
    + apply (RescOK_nodes_eq st); [rewrite A1|rewrite A2|rewrite A6| ]; try reflexivity. exact R.
    + apply (ItecOK_nodes_eq st); [rewrite A1|rewrite A2|rewrite A5| ]; try reflexivity. exact I.
    + apply gen_vardeps_VdOK; [apply clear_vd_WFN; exact W|reflexivity].
  - apply (same_tab_trans st (clear_vd st)); [apply clear_vd_same_tab|apply fix_import_same_tab].
Qed.

(** ... and on a store whose variable-set and count tables are NOT in order, as long as the node table,
    the unique table and the two operation memo tables are: that is what a call interrupted by a panic
    leaves behind (nodes and unique-table entries are written together, memo entries only after the
    recursive call returned; the variable sets and the counts are written last) *)
Theorem fix_import_repairs_interrupted c st : WFN st -> RescOK st -> ItecOK st ->
  WF c (fix_import_x true c st) /\ same_tab st (fix_import_x true c st).
Proof.
  intros W R I. unfold fix_import_x. split.
  - destruct (fix_import_shape c (clear_vd st)) as (cs & ->). apply set_counts_WF.
    destruct (gen_vardeps_frame c (clear_vd st)) as (A1 & A2 & A3 & _ & A5 & A6 & _).
    constructor.
    + apply (WFN_nodes_eq st); [rewrite A1|rewrite A2|rewrite A3| ]; try reflexivity. exact W.
    + apply (RescOK_nodes_eq st); [rewrite A1|rewrite A2|rewrite A6| ]; try reflexivity. exact R.
    + apply (ItecOK_nodes_eq st); [rewrite A1|rewrite A2|rewrite A5| ]; try reflexivity. exact I.
    + apply gen_vardeps_VdOK; [apply clear_vd_WFN; exact W|reflexivity].
  - apply (same_tab_trans st (clear_vd st)); [apply clear_vd_same_tab|apply fix_import_same_tab].
Qed.

(** the premises are met by a store that is not well-formed: an imported store before the repair step *)
Lemma interrupted_premises_satisfiable c st : WF c st -> varlist c = true ->
  let s := import_raw (table_of st) in WFN s /\ RescOK s /\ ItecOK s /\ ~ WF c s.
Proof.
  intros [W _ _ _] Hv s. destruct (import_raw_rest (table_of st)) as (_ & _ & _ & Hi & Hr & _).
  split; [apply import_raw_wfn, W|]. split; [|split].
  - intros t v b r F. unfold s in F. rewrite Hr, tm_find_empty in F. discriminate.
  - intros i t e r F. unfold s in F. rewrite Hi, tm_find_empty in F. discriminate.
  - intros [_ _ _ V]. exact (import_needs_fix c st W Hv V).
Qed.

Corollary fix_import_repaired_den c st h : WF c st -> h < size st ->
  forall a, den (fix_import_x true c st) h a = den st h a.
Proof.
  intros W Hh a. destruct (fix_import_repaired_wf c st W) as [_ S]. apply same_tab_den. exact S.
Qed.

(** the appending variant on a live store: (v0 and v1 and v2) or (not v0 and v1 and v3) is built, the repair
    step is applied to the live store, then a fresh conjunction is built and restricted by one of its
    variables: the appended table answers for the wrong node and the restriction is skipped *)
Definition live_prog : list op :=
  [OVar 0; OVar 1; OVar 2; OVar 3; OAnd 1 2; OAnd 0 4; ONot 0; OAnd 1 3; OAnd 6 7; OOr 5 8].
Example fix_import_appending_breaks_a_live_store :
  match run cfg_default (init cfg_default, []) live_prog with
  | Some (st, regs) =>
    let good := fix_import_x true cfg_default st in
    let bad := fix_import_x false cfg_default st in
    match band cfg_default good (reg regs 2) (reg regs 3), band cfg_default bad (reg regs 2) (reg regs 3) with
    | Some (g1, hg), Some (b1, hb) =>
      hg = hb /\
      match restrict cfg_default g1 hg 3 true, restrict cfg_default b1 hb 3 true with
      | Some (_, rg), Some (_, rb) => rg = reg regs 2 /\ rb = hb /\ rb <> rg
      | _, _ => False
      end
    | _, _ => False
    end
  | None => False
  end.
Proof. vm_compute. repeat split; discriminate. Qed.
(** the repair step leaves the stream of a store alone: nothing is sent, nothing that is queued is lost, the node table stays *)
Lemma fix_import_x_outq b c st : outq (fix_import_x b c st) = outq st.
Proof.
  unfold fix_import_x.
  destruct (fix_import_frame c (if b then clear_vd st else st)) as (_ & _ & _ & _ & _ & H & _).
  rewrite H. destruct b; reflexivity.
Qed.
Lemma fix_import_x_same_tab b c st : same_tab st (fix_import_x b c st).
Proof.
  unfold fix_import_x. destruct b.
  - apply (same_tab_trans st (clear_vd st)); [apply clear_vd_same_tab|apply fix_import_same_tab].
  - apply fix_import_same_tab.
Qed.
Print Assumptions fix_import_repaired_wf.
Print Assumptions fix_import_repairs_interrupted.
Print Assumptions fix_import_appending_breaks_a_live_store.
