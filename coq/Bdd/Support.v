(** Variable dependencies (Bdd::var_dependencies) and the impact measures built on them
    (Bdd::passive_var_impact, Bdd::active_var_impact): the computed set is exactly the set of
    variables the function of the handle depends on. *)
From Coq Require Import NArith List Bool Lia ListSet PeanoNat.
From ADF Require Import Base.Maps Spec.Spec Bdd.Store Bdd.WF Bdd.Node Bdd.Ops Bdd.Canon Bdd.Counts.
Import ListNotations.
Local Open Scope N_scope.

(** * variables labelling a node reachable from a handle *)
Inductive Occ (st : store) : N -> N -> Prop :=
| OccHere h : 2 <= h -> h < size st -> Occ st h (nv (get_node st h))
| OccLo h v : 2 <= h -> h < size st -> Occ st (nlo (get_node st h)) v -> Occ st h v
| OccHi h v : 2 <= h -> h < size st -> Occ st (nhi (get_node st h)) v -> Occ st h v.

Lemma Occ_terminal st h v : h <= 1 -> ~ Occ st h v.
Proof. intros Hh H. inversion H; lia. Qed.

Lemma Occ_node_inv st h v : Occ st h v ->
  v = nv (get_node st h) \/ Occ st (nlo (get_node st h)) v \/ Occ st (nhi (get_node st h)) v.
Proof. intros H. inversion H; subst; auto. Qed.

Lemma Occ_node st h v : 2 <= h -> h < size st ->
  (Occ st h v <->
   v = nv (get_node st h) \/ Occ st (nlo (get_node st h)) v \/ Occ st (nhi (get_node st h)) v).
Proof.
  intros H2 Hs. split; [apply Occ_node_inv|].
  intros [->|[H|H]]; [apply OccHere|apply OccLo|apply OccHi]; assumption.
Qed.

(** variables increase along paths *)
Lemma Occ_ge st h v : WFN st -> Occ st h v -> nv (get_node st h) <= v.
Proof.
  intros W H. induction H as [h H2 Hs|h v H2 Hs _ IH|h v H2 Hs _ IH].
  - lia.
  - destruct (wf_node' st h W H2 Hs) as (_ & _ & _ & _ & Hvl & _). lia.
  - destruct (wf_node' st h W H2 Hs) as (_ & _ & _ & _ & _ & Hvh). lia.
Qed.

(** * both code paths compute the occurring variables *)
Lemma vd_Occ c st : WFN st -> VdOK c st -> varlist c = true ->
  forall h, h < size st -> forall v, In v (get_vd st h) <-> Occ st h v.
Proof.
  intros W V Hc. destruct (V Hc) as (_ & V0 & V1 & Vr).
  apply (handle_ind st (fun h => forall v, In v (get_vd st h) <-> Occ st h v) W).
  - intros v. split; [intros H; destruct (V0 v H)|intros H; destruct (Occ_terminal st 0 v ltac:(lia) H)].
  - intros v. split; [intros H; destruct (V1 v H)|intros H; destruct (Occ_terminal st 1 v ltac:(lia) H)].
  - intros h H2 Hs IHl IHh v. rewrite (Vr h H2 Hs v), (Occ_node st h v H2 Hs), IHl, IHh. reflexivity.
Qed.

Lemma vardeps_rec_Occ st : WFN st -> forall h, h < size st ->
  forall f, (N.to_nat h < f)%nat -> forall v, In v (vardeps_rec_f f st h) <-> Occ st h v.
Proof.
  intros W.
  apply (handle_ind st (fun h => forall f, (N.to_nat h < f)%nat ->
           forall v, In v (vardeps_rec_f f st h) <-> Occ st h v) W).
  - intros [|f] Hf v; [lia|]. cbn [vardeps_rec_f]. rewrite (get_node_0 st W). cbn [nv].
    rewrite N.leb_refl. split; [intros []|intros H; destruct (Occ_terminal st 0 v ltac:(lia) H)].
  - intros [|f] Hf v; [lia|]. cbn [vardeps_rec_f]. rewrite (get_node_1 st W). cbn [nv].
    destruct (N.leb_spec VBOT VTOP) as [_|Hlt]; [|pose proof VBOT_lt_VTOP; lia].
    split; [intros []|intros H; destruct (Occ_terminal st 1 v ltac:(lia) H)].
  - intros h H2 Hs IHl IHh [|f] Hf v; [lia|]. cbn [vardeps_rec_f].
    destruct (child_lt st h W H2 Hs) as (Hlo & Hhi & _).
    pose proof (nv_nonterminal st h W H2 Hs) as Hv.
    destruct (N.leb_spec VBOT (nv (get_node st h))) as [Hle|_]; [lia|].
    rewrite nset_add_In, nset_union_In, (Occ_node st h v H2 Hs), IHl, IHh by lia. reflexivity.
Qed.

Lemma var_dependencies_Occ c st h v : WF c st -> h < size st ->
  (In v (var_dependencies c st h) <-> Occ st h v).
Proof.
  intros WFst Hs. pose proof (wf_n c st WFst) as W. unfold var_dependencies.
  destruct (varlist c) eqn:Hc.
  - apply (vd_Occ c st W (wf_vd c st WFst) Hc h Hs).
  - apply (vardeps_rec_Occ st W h Hs). lia.
Qed.

(** * a constructive form of canonicity: different handles are told apart by an assignment *)
Lemma distinct_witness st : WFN st -> forall h k, h < size st -> k < size st -> h <> k ->
  exists a, den st h a <> den st k a.
Proof.
  intros W.
  assert (G : forall m h k, h < m -> k < m -> h < size st -> k < size st -> h <> k ->
              exists a, den st h a <> den st k a).
  { induction m as [|m IH] using N.peano_ind; intros h k Hhm Hkm Hh Hk Hne; [lia|].
    (* a non-terminal handle is not a constant function *)
    assert (NT : forall x b, 2 <= x -> x < size st -> x < N.succ m -> exists a, den st x a <> b).
    { intros x b H2 Hx Hxm.
      destruct (wf_node' st x W H2 Hx) as (_ & Hnex & Hlo & Hhi & _).
      destruct (IH (nlo (get_node st x)) (nhi (get_node st x))) as (a & Ha); try lia.
      destruct (bool_dec (den st (nlo (get_node st x)) a) b) as [E|E].
      - exists (upd a (nv (get_node st x)) true). rewrite (den_cofactor_hi st W x a H2 Hx). congruence.
      - exists (upd a (nv (get_node st x)) false). rewrite (den_cofactor_lo st W x a H2 Hx). exact E. }
    destruct (N.eq_dec h 0) as [->|Hh0].
    { destruct (N.eq_dec k 1) as [->|Hk1]; [exists (fun _ => true); rewrite den_0, den_1; discriminate|].
      destruct (NT k false) as (a & Ha); try lia. exists a. rewrite den_0. congruence. }
    destruct (N.eq_dec h 1) as [->|Hh1].
    { destruct (N.eq_dec k 0) as [->|Hk0]; [exists (fun _ => true); rewrite den_0, den_1; discriminate|].
      destruct (NT k true) as (a & Ha); try lia. exists a. rewrite den_1. congruence. }
    destruct (N.eq_dec k 0) as [->|Hk0].
    { destruct (NT h false) as (a & Ha); try lia. exists a. rewrite den_0. exact Ha. }
    destruct (N.eq_dec k 1) as [->|Hk1].
    { destruct (NT h true) as (a & Ha); try lia. exists a. rewrite den_1. exact Ha. }
    assert (H2h : 2 <= h) by lia. assert (H2k : 2 <= k) by lia.
    destruct (wf_node' st h W H2h Hh) as (Hvh & Hneh & Hloh & Hhih & Hvlh & Hvhh).
    destruct (wf_node' st k W H2k Hk) as (Hvk & Hnek & Hlok & Hhik & Hvlk & Hvhk).
    destruct (N.lt_trichotomy (nv (get_node st h)) (nv (get_node st k))) as [Hlt | [Heq | Hgt]].
    - (* h tests an earlier variable: its children differ somewhere, k ignores the variable *)
      destruct (IH (nlo (get_node st h)) (nhi (get_node st h))) as (a & Ha); try lia.
      destruct (bool_dec (den st (nlo (get_node st h)) a) (den st k a)) as [E|E].
      + exists (upd a (nv (get_node st h)) true).
        rewrite (den_cofactor_hi st W h a H2h Hh), (den_indep_below st W k a _ true Hk Hlt). congruence.
      + exists (upd a (nv (get_node st h)) false).
        rewrite (den_cofactor_lo st W h a H2h Hh), (den_indep_below st W k a _ false Hk Hlt). exact E.
    - (* same variable: some pair of children differs *)
      destruct (N.eq_dec (nlo (get_node st h)) (nlo (get_node st k))) as [El|Nl].
      + destruct (N.eq_dec (nhi (get_node st h)) (nhi (get_node st k))) as [Eh|Nh].
        * exfalso. apply Hne.
          assert (Fh : NM.find h (nodes st) = Some (get_node st h)) by (apply find_get_node; auto).
          assert (Fk : NM.find k (nodes st) = Some (get_node st k)) by (apply find_get_node; auto).
          assert (En : get_node st h = get_node st k)
            by (destruct (get_node st h), (get_node st k); cbn in *; congruence).
          destruct (get_node st h) as [v lo hi] eqn:Enh.
          assert (U1 : TM.find (k3 v lo hi) (uniq st) = Some h) by (apply (wf_uniq st W); split; auto).
          assert (U2 : TM.find (k3 v lo hi) (uniq st) = Some k) by (apply (wf_uniq st W); split; auto; congruence).
          congruence.
        * destruct (IH (nhi (get_node st h)) (nhi (get_node st k))) as (a & Ha); try lia.
          exists (upd a (nv (get_node st h)) true).
          rewrite (den_cofactor_hi st W h a H2h Hh). rewrite Heq, (den_cofactor_hi st W k a H2k Hk). exact Ha.
      + destruct (IH (nlo (get_node st h)) (nlo (get_node st k))) as (a & Ha); try lia.
        exists (upd a (nv (get_node st h)) false).
        rewrite (den_cofactor_lo st W h a H2h Hh). rewrite Heq, (den_cofactor_lo st W k a H2k Hk). exact Ha.
    - destruct (IH (nlo (get_node st k)) (nhi (get_node st k))) as (a & Ha); try lia.
      destruct (bool_dec (den st (nlo (get_node st k)) a) (den st h a)) as [E|E].
      + exists (upd a (nv (get_node st k)) true).
        rewrite (den_cofactor_hi st W k a H2k Hk), (den_indep_below st W h a _ true Hh Hgt). congruence.
      + exists (upd a (nv (get_node st k)) false).
        rewrite (den_cofactor_lo st W k a H2k Hk), (den_indep_below st W h a _ false Hh Hgt). congruence. }
  intros h k Hh Hk Hne. apply (G (N.succ (N.max h k))); auto; lia.
Qed.

(** * occurring variables = variables the function depends on *)
Lemma depends_Occ st : WFN st -> forall h, h < size st -> forall v, depends (den st h) v -> Occ st h v.
Proof.
  intros W.
  apply (handle_ind st (fun h => forall v, depends (den st h) v -> Occ st h v) W).
  - intros v (a & Ha). exfalso. apply Ha. reflexivity.
  - intros v (a & Ha). exfalso. apply Ha. reflexivity.
  - intros h H2 Hs IHl IHh v (a & Ha).
    destruct (N.eq_dec v (nv (get_node st h))) as [->|Hne]; [apply OccHere; assumption|].
    rewrite !(den_node st h _ W H2 Hs) in Ha.
    rewrite !(upd_neq a v _ (nv (get_node st h))) in Ha by congruence.
    destruct (a (nv (get_node st h))).
    + apply OccHi; auto. apply IHh. exists a. exact Ha.
    + apply OccLo; auto. apply IHl. exists a. exact Ha.
Qed.

Lemma upd_comm (a : asg) v1 b1 v2 b2 x : v1 <> v2 ->
  upd (upd a v1 b1) v2 b2 x = upd (upd a v2 b2) v1 b1 x.
Proof.
  intros Hne. unfold upd.
  destruct (N.eqb_spec x v2) as [E2|N2]; destruct (N.eqb_spec x v1) as [E1|N1]; congruence.
Qed.

Lemma Occ_depends st : WFN st -> forall h v, Occ st h v -> depends (den st h) v.
Proof.
  intros W h v H. induction H as [h H2 Hs|h v H2 Hs Ho IH|h v H2 Hs Ho IH].
  - destruct (wf_node' st h W H2 Hs) as (_ & Hne & Hlo & Hhi & _).
    assert (Hlos : nlo (get_node st h) < size st) by lia.
    assert (Hhis : nhi (get_node st h) < size st) by lia.
    destruct (distinct_witness st W _ _ Hlos Hhis Hne) as (a & Ha).
    exists a. rewrite (den_cofactor_hi st W h a H2 Hs), (den_cofactor_lo st W h a H2 Hs). congruence.
  - destruct (wf_node' st h W H2 Hs) as (_ & _ & Hlo & Hhi & Hvl & _).
    pose proof (Occ_ge st _ v W Ho) as Hge.
    destruct IH as (a & Ha).
    set (vh := nv (get_node st h)) in *.
    exists (upd a vh false).
    rewrite (den_ext st h _ (upd (upd a v true) vh false)) by (intros x; apply upd_comm; lia).
    rewrite (den_ext st h (upd (upd a vh false) v false) (upd (upd a v false) vh false))
      by (intros x; apply upd_comm; lia).
    unfold vh. rewrite !(den_cofactor_lo st W h _ H2 Hs). exact Ha.
  - destruct (wf_node' st h W H2 Hs) as (_ & _ & Hlo & Hhi & _ & Hvh).
    pose proof (Occ_ge st _ v W Ho) as Hge.
    destruct IH as (a & Ha).
    set (vh := nv (get_node st h)) in *.
    exists (upd a vh true).
    rewrite (den_ext st h _ (upd (upd a v true) vh true)) by (intros x; apply upd_comm; lia).
    rewrite (den_ext st h (upd (upd a vh true) v false) (upd (upd a v false) vh true))
      by (intros x; apply upd_comm; lia).
    unfold vh. rewrite !(den_cofactor_hi st W h _ H2 Hs). exact Ha.
Qed.

Theorem Occ_iff_depends st h v : WFN st -> h < size st -> (Occ st h v <-> depends (den st h) v).
Proof. intros W Hs. split; [apply Occ_depends, W|apply depends_Occ; assumption]. Qed.

Theorem deps_exact c st h v : WF c st -> h < size st ->
  (In v (var_dependencies c st h) <-> depends (den st h) v).
Proof.
  intros WFst Hs. rewrite (var_dependencies_Occ c st h v WFst Hs).
  apply Occ_iff_depends; [apply (wf_n c st WFst)|exact Hs].
Qed.

Corollary deps_mem_exact c st h v : WF c st -> h < size st ->
  (nset_mem v (var_dependencies c st h) = true <-> depends (den st h) v).
Proof. intros WFst Hs. rewrite nset_mem_In. apply deps_exact; assumption. Qed.

(** * impact measures *)
Lemma fold_count {X} (p : X -> bool) l : forall n,
  fold_left (fun acc t => if p t then acc + 1 else acc) l n = n + N.of_nat (length (filter p l)).
Proof.
  induction l as [|x l IH]; intros n; cbn [fold_left filter]; [cbn; lia|].
  rewrite IH. destruct (p x); cbn [length]; lia.
Qed.

(** the passive impact of [v] counts exactly the terms of [tl] whose function depends on [v] *)
Theorem passive_impact_exact c st v tl : WF c st -> Forall (fun h => h < size st) tl ->
  passive_var_impact c st v tl =
    N.of_nat (length (filter (fun h => nset_mem v (var_dependencies c st h)) tl)) /\
  forall h, In h tl -> (nset_mem v (var_dependencies c st h) = true <-> depends (den st h) v).
Proof.
  intros WFst Htl. split.
  - unfold passive_var_impact. rewrite fold_count. lia.
  - intros h Hin. apply deps_mem_exact; [exact WFst|].
    apply (proj1 (Forall_forall _ _) Htl h Hin).
Qed.

Lemma nth_Forall {X} (Q : X -> Prop) l d n : Forall Q l -> Q d -> Q (nth n l d).
Proof.
  intros Hl Hd. revert n. induction Hl as [|x l Hx _ IH]; intros [|n]; cbn [nth]; auto.
Qed.

(** the active impact of [v] counts exactly the positions [idx < length tl] such that the function
    of the [v]-th term depends on variable [idx] *)
Theorem active_impact_exact c st v tl : WF c st -> Forall (fun h => h < size st) tl ->
  let t := nth (N.to_nat v) tl 0 in
  t < size st /\
  active_var_impact c st v tl =
    N.of_nat (length (filter (fun idx => nset_mem (N.of_nat idx) (var_dependencies c st t))
                             (seq 0 (length tl)))) /\
  forall idx, (nset_mem (N.of_nat idx) (var_dependencies c st t) = true <->
               depends (den st t) (N.of_nat idx)).
Proof.
  intros WFst Htl t.
  assert (Ht : t < size st).
  { unfold t. apply nth_Forall; [exact Htl|]. apply (size_gt_0 c st WFst). }
  split; [exact Ht|]. split.
  - unfold active_var_impact. cbv zeta. fold t. rewrite fold_count. lia.
  - intros idx. apply deps_mem_exact; assumption.
Qed.

(** * examples (store of Counts.v: 4 = x0&x1, 7 = (x0&x1)|x2, 9 = x0^x2, 6 = x1|x2) *)
Example ex_deps :
  var_dependencies cfg_default (ex_st cfg_default) 7 = [2; 1; 0] /\
  var_dependencies cfg_none (ex_st cfg_none) 7 = [2; 1; 0] /\
  var_dependencies cfg_default (ex_st cfg_default) 9 = [2; 0] /\
  var_dependencies cfg_none (ex_st cfg_none) 9 = [2; 0] /\
  var_dependencies cfg_default (ex_st cfg_default) 1 = [].
Proof. vm_compute. repeat split. Qed.

Example ex_deps_exact c : 9 < size (ex_st c) ->
  forall v, In v (var_dependencies c (ex_st c) 9) <-> depends (den (ex_st c) 9) v.
Proof. intros Hs v. apply deps_exact; [apply ex_wf|exact Hs]. Qed.

Example ex_x0_xor_x2_ignores_x1 : ~ depends (den (ex_st cfg_default) 9) 1.
Proof.
  assert (Hs : 9 < size (ex_st cfg_default)) by (vm_compute; reflexivity).
  rewrite <- (deps_exact cfg_default _ 9 1 (ex_wf _) Hs).
  assert (E : var_dependencies cfg_default (ex_st cfg_default) 9 = [2; 0]) by (vm_compute; reflexivity).
  rewrite E. cbn [In]. intros [H|[H|[]]]; discriminate H.
Qed.

Example ex_impacts :
  (* x1 occurs in x1, x0&x1, (x0&x1)|x2 but not in x0, x2, x0^x2 *)
  passive_var_impact cfg_default (ex_st cfg_default) 1 [2; 3; 4; 5; 7; 9] = 3 /\
  passive_var_impact cfg_none (ex_st cfg_none) 1 [2; 3; 4; 5; 7; 9] = 3 /\
  (* term number 4 = (x0&x1)|x2 depends on the variables 0, 1, 2 among the 6 positions *)
  active_var_impact cfg_default (ex_st cfg_default) 4 [2; 3; 4; 5; 7; 9] = 3 /\
  active_var_impact cfg_none (ex_st cfg_none) 5 [2; 3; 4; 5; 7; 9] = 2.
Proof. vm_compute. repeat split. Qed.

Example ex_impact_hyps c :
  Forall (fun h => h < size (ex_st c)) [2; 3; 4; 5; 7; 9] ->
  passive_var_impact c (ex_st c) 1 [2; 3; 4; 5; 7; 9] =
  N.of_nat (length (filter (fun h => nset_mem 1 (var_dependencies c (ex_st c) h)) [2; 3; 4; 5; 7; 9])).
Proof. intros H. apply (passive_impact_exact c (ex_st c) 1 _ (ex_wf c) H). Qed.

Print Assumptions distinct_witness.
Print Assumptions Occ_iff_depends.
Print Assumptions deps_exact.
Print Assumptions passive_impact_exact.
Print Assumptions active_impact_exact.
