(** C14: persistence of diagram stores.
    - [from_nodes]  (From<Vec<BddNode>> for Bdd, the web service's database layer): replaying the
      exported node list through [mk_node] reproduces the node table, handle by handle;
    - [import_raw] + [fix_import] (serde import followed by the documented repair step) does the same;
    - the imported store WITHOUT the repair step violates the var_deps invariant;
    - the CLI never overwrites an existing export file.
    Everything holds for stores exported at ANY point of their life: the only hypothesis on the
    exported store is the node-table invariant [WFN]. *)
From Coq Require Import NArith Arith List Bool Lia ListSet.
From ADF Require Import Base.Maps Spec.Spec Bdd.Store Bdd.WF Bdd.Node Bdd.Restrict Bdd.Ite Bdd.IteTotal
  Bdd.Ops Bdd.Canon.
Import ListNotations.
Local Open Scope N_scope.

(* ------------------------------------------------------------------ *)
(** * stores with the same node table (same numbering, same unique table) *)

Definition same_tab (st s : store) : Prop :=
  size s = size st /\
  (forall h, NM.find h (nodes s) = NM.find h (nodes st)) /\
  (forall k, TM.find k (uniq s) = TM.find k (uniq st)).

Lemma same_tab_refl st : same_tab st st.
Proof. repeat split. Qed.

Lemma same_tab_sym st s : same_tab st s -> same_tab s st.
Proof. intros (A & B & C). repeat split; intros; symmetry; auto. Qed.

Lemma same_tab_trans a b c : same_tab a b -> same_tab b c -> same_tab a c.
Proof.
  intros (A1 & B1 & C1) (A2 & B2 & C2). split; [congruence|]. split; intros.
  - rewrite B2. apply B1.
  - rewrite C2. apply C1.
Qed.

Lemma same_tab_get_node st s h : same_tab st s -> get_node s h = get_node st h.
Proof. intros (_ & Hn & _). unfold get_node. rewrite Hn. reflexivity. Qed.

Lemma same_tab_topv st s h : same_tab st s -> topv s h = topv st h.
Proof. intros H. unfold topv. rewrite (same_tab_get_node st s h H). reflexivity. Qed.

Lemma same_tab_table st s : same_tab st s -> table_of s = table_of st.
Proof.
  intros H. unfold table_of. rewrite (proj1 H). apply map_ext.
  intros h. apply (same_tab_get_node st s _ H).
Qed.

Lemma same_tab_den_f st s : same_tab st s -> forall f h a, den_f f s h a = den_f f st h a.
Proof.
  intros H f. induction f as [|f IH]; intros h a; [reflexivity|]. cbn [den_f].
  rewrite (same_tab_get_node st s h H). rewrite IH. reflexivity.
Qed.

Lemma same_tab_den st s : same_tab st s -> forall h, feq (den s h) (den st h).
Proof. intros H h a. unfold den. apply same_tab_den_f. exact H. Qed.

Lemma same_tab_WFN st s : same_tab st s -> WFN st -> WFN s.
Proof.
  intros H W. pose proof H as (Es & En & Eu).
  constructor.
  - rewrite En. apply (wf_bot st W).
  - rewrite En. apply (wf_top st W).
  - rewrite Es. apply (wf_size st W).
  - intros h. rewrite En, Es. apply (wf_dom st W).
  - intros h n H2 F. rewrite En in F. rewrite !(same_tab_get_node st s _ H).
    apply (wf_node st W h n H2 F).
  - intros v lo hi t. rewrite Eu, En. apply (wf_uniq st W).
Qed.

Lemma same_tab_extends st s : same_tab st s -> extends st s.
Proof. intros (Es & En & _). split; [lia|]. intros h _. apply En. Qed.

(** in well-formed stores the unique table is determined by the node table *)
Lemma same_nodes_same_uniq st s : WFN st -> WFN s ->
  (forall h, NM.find h (nodes s) = NM.find h (nodes st)) ->
  forall k, TM.find k (uniq s) = TM.find k (uniq st).
Proof.
  intros W Ws Hn k. destruct k as [v [lo hi]]. change (v, (lo, hi)) with (k3 v lo hi).
  destruct (TM.find (k3 v lo hi) (uniq s)) as [t|] eqn:F1.
  - apply (wf_uniq s Ws) in F1. rewrite Hn in F1. apply (wf_uniq st W) in F1. symmetry. exact F1.
  - destruct (TM.find (k3 v lo hi) (uniq st)) as [t|] eqn:F2; [|reflexivity].
    apply (wf_uniq st W) in F2. rewrite <- Hn in F2. apply (wf_uniq s Ws) in F2. congruence.
Qed.

(** var_deps entries of two well-formed stores over the same table agree as sets *)
Lemma vd_same_tab c c' st s :
  same_tab st s -> WFN st -> VdOK c st -> VdOK c' s -> varlist c = true -> varlist c' = true ->
  forall h, h < size st -> forall v, In v (get_vd s h) <-> In v (get_vd st h).
Proof.
  intros H W V V' Hc Hc'. destruct (V Hc) as (_ & V0 & V1 & Vr). destruct (V' Hc') as (_ & V0' & V1' & Vr').
  intros h. induction h as [h IH] using N_strong_ind. intros Hs v.
  destruct (N.eq_dec h 0) as [->|Hh0]; [split; intros X; exfalso; [apply (V0' v X)|apply (V0 v X)]|].
  destruct (N.eq_dec h 1) as [->|Hh1]; [split; intros X; exfalso; [apply (V1' v X)|apply (V1 v X)]|].
  assert (H2 : 2 <= h) by lia.
  destruct (wf_node' st h W H2 Hs) as (_ & _ & Hlo & Hhi & _).
  assert (Hs' : h < size s) by (rewrite (proj1 H); exact Hs).
  rewrite (Vr h H2 Hs v), (Vr' h H2 Hs' v). rewrite (same_tab_get_node st s h H).
  rewrite (IH (nlo (get_node st h))) by lia. rewrite (IH (nhi (get_node st h))) by lia. reflexivity.
Qed.

(** the var_deps entry of a handle lists exactly the variables found by the recursive
    traversal [vardeps_rec_f] (the implementation of the build without feature variablelist):
    the variables that occur on a path from the handle *)
Lemma vd_rec c st : WFN st -> VdOK c st -> varlist c = true ->
  forall f h, h < size st -> (N.to_nat h < f)%nat ->
  forall v, In v (vardeps_rec_f f st h) <-> In v (get_vd st h).
Proof.
  intros W V Hc. destruct (V Hc) as (_ & V0 & V1 & Vr).
  induction f as [|f IH]; intros h Hs Hf v; [lia|]. cbn [vardeps_rec_f].
  destruct (N.leb_spec VBOT (nv (get_node st h))) as [Hv|Hv].
  - assert (Hh : h <= 1) by (apply (topv_VBOT_terminal st h W Hs Hv)).
    assert (h = 0 \/ h = 1) as [-> | ->] by lia; split; intros X; try (destruct X).
    + exfalso. apply (V0 v X).
    + exfalso. apply (V1 v X).
  - assert (H2 : 2 <= h).
    { destruct (N.le_gt_cases h 1) as [Hle|Hgt]; [|lia]. pose proof (nv_terminal st h W Hle). lia. }
    destruct (wf_node' st h W H2 Hs) as (_ & _ & Hlo & Hhi & _).
    rewrite nset_add_In, nset_union_In, (Vr h H2 Hs v).
    rewrite (IH (nlo (get_node st h))) by lia. rewrite (IH (nhi (get_node st h))) by lia. reflexivity.
Qed.

Corollary var_dependencies_feature_independent c c' st h v :
  WFN st -> VdOK c st -> varlist c = true -> varlist c' = false -> h < size st ->
  (In v (var_dependencies c st h) <-> In v (var_dependencies c' st h)).
Proof.
  intros W V Hc Hc' Hs. unfold var_dependencies. rewrite Hc, Hc'.
  symmetry. apply (vd_rec c st W V Hc); [exact Hs|lia].
Qed.

(* ------------------------------------------------------------------ *)
(** * 1. rebuilding from the node list ([from_nodes]) *)

Definition replay (c : cfg) (l : list node) (s : store) : store :=
  fold_left (fun s n => fst (mk_node c s (nv n) (nlo n) (nhi n))) l s.

Lemma from_nodes_replay c l : from_nodes c l = replay c l (init c).
Proof. reflexivity. Qed.

Lemma mk_node_same c s v x : mk_node c s v x x = (s, x).
Proof. unfold mk_node. rewrite N.eqb_refl. reflexivity. Qed.

(** replaying never touches the memo tables or installs a sender *)
Lemma mk_node_memo c s v lo hi :
  itec (fst (mk_node c s v lo hi)) = itec s /\ resc (fst (mk_node c s v lo hi)) = resc s /\
  (outq s = None -> outq (fst (mk_node c s v lo hi)) = None).
Proof.
  unfold mk_node. destruct (lo =? hi); [cbn [fst]; auto|].
  destruct (TM.find (k3 v lo hi) (uniq s)); [cbn [fst]; auto|].
  destruct (varlist c); cbn [fst itec resc outq]; (split; [reflexivity|]); (split; [reflexivity|]);
    intros ->; reflexivity.
Qed.

Lemma replay_memo c l : forall s,
  itec (replay c l s) = itec s /\ resc (replay c l s) = resc s /\ (outq s = None -> outq (replay c l s) = None).
Proof.
  induction l as [|n l IH]; intros s; [cbn; auto|]. cbn [replay fold_left].
  destruct (mk_node_memo c s (nv n) (nlo n) (nhi n)) as (A & B & C).
  destruct (IH (fst (mk_node c s (nv n) (nlo n) (nhi n)))) as (A' & B' & C'). unfold replay in *.
  split; [congruence|]. split; [congruence|]. intros Ho. apply C', C, Ho.
Qed.

Theorem from_nodes_memo_empty c l :
  itec (from_nodes c l) = TM.empty N /\ resc (from_nodes c l) = TM.empty N /\ outq (from_nodes c l) = None.
Proof.
  rewrite from_nodes_replay. destruct (replay_memo c l (init c)) as (A & B & C).
  split; [rewrite A; reflexivity|]. split; [rewrite B; reflexivity|]. apply C. reflexivity.
Qed.

(** the invariant of the replay: after the first [k] entries the store is well formed, has [k]
    nodes, and agrees with the exported store on the handles below [k] *)
Record Pre (c : cfg) (st s : store) (k : nat) : Prop := mkPre {
  pre_wf : WF c s;
  pre_size : size s = N.of_nat k;
  pre_nodes : forall h, h < N.of_nat k -> NM.find h (nodes s) = NM.find h (nodes st)
}.

Lemma pre_init c st : WFN st -> Pre c st (init c) 2.
Proof.
  intros W. constructor.
  - apply init_wf.
  - reflexivity.
  - intros h Hh. change (N.of_nat 2) with 2 in Hh.
    assert (h = 0 \/ h = 1) as [-> | ->] by lia.
    + rewrite (wf_bot st W). apply (wf_bot _ (init_WFN c)).
    + rewrite (wf_top st W). apply (wf_top _ (init_WFN c)).
Qed.

(** one replayed entry: it is neither reduced away nor found, it is appended at its old index *)
Lemma replay_step c st s k :
  WFN st -> Pre c st s k -> (2 <= k)%nat -> N.of_nat k < size st ->
  let n := get_node st (N.of_nat k) in
  Pre c st (fst (mk_node c s (nv n) (nlo n) (nhi n))) (S k) /\
  snd (mk_node c s (nv n) (nlo n) (nhi n)) = N.of_nat k.
Proof.
  intros W [WFs Hsz Hn] Hk2 Hks. cbv zeta.
  set (h := N.of_nat k) in *.
  assert (H2 : 2 <= h) by (unfold h; lia).
  pose proof (wf_node' st h W H2 Hks) as A. cbv zeta in A.
  pose proof (find_get_node st h W Hks) as Fh.
  destruct (get_node st h) as [v lo hi]. cbn [nv nlo nhi] in *.
  destruct A as (A1 & A2 & A3 & A4 & A5 & A6).
  pose proof (wf_n c s WFs) as Ws.
  assert (Glo : get_node s lo = get_node st lo) by (unfold get_node; rewrite Hn by lia; reflexivity).
  assert (Ghi : get_node s hi = get_node st hi) by (unfold get_node; rewrite Hn by lia; reflexivity).
  destruct (mk_node c s v lo hi) as [s' r] eqn:X. cbn [fst snd].
  destruct (mk_node_cases c s v lo hi s' r X)
    as [(Heq & _ & _) | [(_ & F & _) | (_ & F & -> & HF)]].
  - contradiction.
  - exfalso. apply (wf_uniq s Ws) in F. destruct F as (Hr2 & Fr).
    assert (Hr : r < size s) by (apply (wf_dom s Ws); congruence).
    rewrite Hsz in Hr. rewrite Hn in Fr by exact Hr.
    assert (U1 : TM.find (k3 v lo hi) (uniq st) = Some r) by (apply (wf_uniq st W); auto).
    assert (U2 : TM.find (k3 v lo hi) (uniq st) = Some h) by (apply (wf_uniq st W); auto).
    rewrite U1 in U2. inversion U2. lia.
  - split; [|exact Hsz].
    assert (Hlo : lo < size s) by (rewrite Hsz; exact A3).
    assert (Hhi : hi < size s) by (rewrite Hsz; exact A4).
    assert (Hvl : v < topv s lo) by (unfold topv; rewrite Glo; exact A5).
    assert (Hvh : v < topv s hi) by (unfold topv; rewrite Ghi; exact A6).
    destruct (mk_node_ok c s v lo hi s' (size s) WFs A1 Hlo Hhi Hvl Hvh X) as (WF' & _).
    destruct HF as (En & Es & _).
    constructor.
    + exact WF'.
    + rewrite Es, Hsz. lia.
    + intros x Hx. rewrite En, nm_find_add, Hsz. fold h.
      destruct (N.eqb_spec h x) as [<-|Hne]; [symmetry; exact Fh|].
      apply Hn. lia.
Qed.

Lemma replay_seq c st : WFN st -> forall m k s,
  (2 <= k)%nat -> (k + m = N.to_nat (size st))%nat -> Pre c st s k ->
  Pre c st (replay c (map (fun h => get_node st (N.of_nat h)) (seq k m)) s) (N.to_nat (size st)).
Proof.
  intros W. induction m as [|m IH]; intros k s Hk Hkm P.
  - cbn. replace (N.to_nat (size st)) with k by lia. exact P.
  - cbn [seq map replay fold_left].
    assert (Hks : N.of_nat k < size st) by lia.
    destruct (replay_step c st s k W P Hk Hks) as (P' & _). cbv zeta in P'.
    apply (IH (S k)); [lia|lia|exact P'].
Qed.

Lemma table_of_split st : WFN st -> exists m, N.to_nat (size st) = S (S m) /\
  table_of st = node_bot :: node_top :: map (fun h => get_node st (N.of_nat h)) (seq 2 m).
Proof.
  intros W. pose proof (wf_size st W) as Hs.
  destruct (N.to_nat (size st)) as [|[|m]] eqn:E; try lia.
  exists m. split; [reflexivity|]. unfold table_of. rewrite E. cbn [seq map].
  change (N.of_nat 0) with 0. change (N.of_nat 1) with 1.
  rewrite (get_node_0 st W), (get_node_1 st W). reflexivity.
Qed.

Lemma pre_final c st s : WFN st -> Pre c st s (N.to_nat (size st)) -> same_tab st s.
Proof.
  intros W [WFs Hsz Hn]. rewrite N2Nat.id in Hsz, Hn. pose proof (wf_n c s WFs) as Ws.
  assert (Hall : forall h, NM.find h (nodes s) = NM.find h (nodes st)).
  { intros h. destruct (N.lt_ge_cases h (size st)) as [Hlt|Hge]; [apply Hn, Hlt|].
    destruct (NM.find h (nodes s)) as [n|] eqn:F1.
    - assert (h < size s) by (apply (wf_dom s Ws); congruence). lia.
    - destruct (NM.find h (nodes st)) as [n|] eqn:F2; [|reflexivity].
      assert (h < size st) by (apply (wf_dom st W); congruence). lia. }
  split; [exact Hsz|]. split; [exact Hall|]. apply (same_nodes_same_uniq st s W Ws Hall).
Qed.

Lemma from_nodes_pre c st : WFN st -> Pre c st (from_nodes c (table_of st)) (N.to_nat (size st)).
Proof.
  intros W. destruct (table_of_split st W) as (m & Em & Et).
  rewrite Et, from_nodes_replay. cbn [replay fold_left].
  cbn [node_bot node_top nv nlo nhi]. rewrite !mk_node_same. cbn [fst].
  apply (replay_seq c st W m 2%nat (init c)); [lia|lia|apply pre_init, W].
Qed.

Theorem from_nodes_same_tab c st : WFN st -> same_tab st (from_nodes c (table_of st)).
Proof. intros W. apply (pre_final c st _ W), from_nodes_pre, W. Qed.

(** identical node numbering *)
Theorem from_nodes_table c st : WFN st -> table_of (from_nodes c (table_of st)) = table_of st.
Proof. intros W. apply same_tab_table, from_nodes_same_tab, W. Qed.

Theorem from_nodes_size c st : WFN st -> size (from_nodes c (table_of st)) = size st.
Proof. intros W. apply (from_nodes_same_tab c st W). Qed.

Theorem from_nodes_nodes c st h : WFN st ->
  NM.find h (nodes (from_nodes c (table_of st))) = NM.find h (nodes st).
Proof. intros W. apply (from_nodes_same_tab c st W). Qed.

(** the rebuilt store satisfies the full invariant of the target build [c]
    (whatever build the exporting store belonged to) *)
Theorem from_nodes_wf c st : WFN st -> WF c (from_nodes c (table_of st)).
Proof. intros W. apply (pre_wf c st _ _ (from_nodes_pre c st W)). Qed.

Theorem from_nodes_den c st h : WFN st -> h < size st ->
  feq (den (from_nodes c (table_of st)) h) (den st h) /\ size (from_nodes c (table_of st)) = size st.
Proof.
  intros W _. split; [apply same_tab_den, from_nodes_same_tab, W|apply from_nodes_size, W].
Qed.

Theorem from_nodes_uniq c st : WFN st ->
  forall k, TM.find k (uniq (from_nodes c (table_of st))) = TM.find k (uniq st).
Proof. intros W. apply (from_nodes_same_tab c st W). Qed.

Theorem from_nodes_vdeps c st : WF c st -> varlist c = true ->
  forall h, h < size st ->
  forall v, In v (get_vd (from_nodes c (table_of st)) h) <-> In v (get_vd st h).
Proof.
  intros [W _ _ V] Hc. apply (vd_same_tab c c st _ (from_nodes_same_tab c st W) W V); auto.
  apply (wf_vd c _ (from_nodes_wf c st W)).
Qed.

(** ... also when the exporting build had no var_deps table at all: the entries are the
    variables on the paths below the handle *)
Theorem from_nodes_vdeps_rec c st : WFN st -> varlist c = true ->
  forall h, h < size st ->
  forall v, In v (get_vd (from_nodes c (table_of st)) h) <-> In v (vardeps_rec_f (S (N.to_nat h)) st h).
Proof.
  intros W Hc h Hs v. set (s := from_nodes c (table_of st)).
  pose proof (from_nodes_same_tab c st W) as H. fold s in H.
  pose proof (from_nodes_wf c st W) as WFs. fold s in WFs.
  assert (Hs' : h < size s) by (rewrite (proj1 H); exact Hs).
  rewrite <- (vd_rec c s (wf_n c s WFs) (wf_vd c s WFs) Hc (S (N.to_nat h)) h Hs') by lia.
  assert (E : forall f x, vardeps_rec_f f s x = vardeps_rec_f f st x).
  { induction f as [|f IH]; intros x; [reflexivity|]. cbn [vardeps_rec_f].
    rewrite (same_tab_get_node st s x H), !IH. reflexivity. }
  rewrite E. reflexivity.
Qed.

(* ------------------------------------------------------------------ *)
(** * 2. serde import ([import_raw]) and the repair step ([fix_import]) *)

Definition imp_step (acc : NM.t node * TM.t N * N) (n : node) : NM.t node * TM.t N * N :=
  let '(nm, um, k) := acc in
  (NM.add k n nm, (if 2 <=? k then TM.add (k3 (nv n) (nlo n) (nhi n)) k um else um), k + 1).

Lemma import_raw_eq l :
  import_raw l =
  let '(nm, um, k) := fold_left imp_step l (NM.empty node, TM.empty N, 0) in
  mkS nm k um (NM.empty (list N)) 0 (NM.empty cnt) (TM.empty N) (TM.empty N) None.
Proof. reflexivity. Qed.

(** everything except the node table and the unique table is empty after the import *)
Lemma import_raw_rest l :
  vdeps (import_raw l) = NM.empty (list N) /\ vsize (import_raw l) = 0 /\
  counts (import_raw l) = NM.empty cnt /\ itec (import_raw l) = TM.empty N /\
  resc (import_raw l) = TM.empty N /\ outq (import_raw l) = None.
Proof.
  rewrite import_raw_eq. destruct (fold_left imp_step l _) as [[nm um] k]. cbn. repeat split.
Qed.

Definition ImpInv (st : store) (acc : NM.t node * TM.t N * N) (k : nat) : Prop :=
  let '(nm, um, kN) := acc in
  kN = N.of_nat k /\
  (forall h, NM.find h nm = if h <? N.of_nat k then NM.find h (nodes st) else None) /\
  (forall v lo hi t, TM.find (k3 v lo hi) um = Some t <->
     (2 <= t /\ t < N.of_nat k /\ NM.find t (nodes st) = Some (mkN v lo hi))).

Lemma imp_step_inv st acc k : WFN st -> ImpInv st acc k -> N.of_nat k < size st ->
  ImpInv st (imp_step acc (get_node st (N.of_nat k))) (S k).
Proof.
  intros W I Hk. destruct acc as [[nm um] kN]. destruct I as (-> & In_ & Iu).
  set (K := N.of_nat k) in *.
  pose proof (find_get_node st K W Hk) as FK.
  destruct (get_node st K) as [v0 lo0 hi0]. unfold ImpInv. cbn [imp_step nv nlo nhi].
  assert (ES : N.of_nat (S k) = K + 1) by (unfold K; lia). rewrite ES.
  split; [reflexivity|]. split.
  - intros h. rewrite nm_find_add, In_.
    destruct (N.eqb_spec K h) as [<-|Hne].
    + destruct (N.ltb_spec K (K + 1)); [symmetry; exact FK|lia].
    + destruct (N.ltb_spec h K); destruct (N.ltb_spec h (K + 1)); try reflexivity; lia.
  - intros v lo hi t.
    destruct (N.leb_spec 2 K) as [HK2|HK2].
    + rewrite tm_find_add. destruct (key3_eqb (k3 v0 lo0 hi0) (k3 v lo hi)) eqn:E.
      * apply key3_eqb_spec in E. inversion E; subst v0 lo0 hi0. split.
        -- intros X. inversion X; subst t. split; [exact HK2|]. split; [lia|exact FK].
        -- intros (Ht2 & _ & Ft). f_equal.
           assert (U1 : TM.find (k3 v lo hi) (uniq st) = Some t) by (apply (wf_uniq st W); auto).
           assert (U2 : TM.find (k3 v lo hi) (uniq st) = Some K) by (apply (wf_uniq st W); auto).
           congruence.
      * rewrite Iu. split.
        -- intros (A & B & C). split; [exact A|]. split; [lia|exact C].
        -- intros (A & B & C). split; [exact A|]. split; [|exact C].
           destruct (N.eq_dec t K) as [->|Hne]; [|lia]. exfalso.
           rewrite FK in C. inversion C; subst v0 lo0 hi0.
           assert (KK : key3_eqb (k3 v lo hi) (k3 v lo hi) = true) by (apply key3_eqb_spec; reflexivity).
           congruence.
    + rewrite Iu. split; intros (A & B & C); (split; [exact A|]); (split; [lia|exact C]).
Qed.

Lemma imp_fold_inv st : WFN st -> forall m k acc,
  (k + m = N.to_nat (size st))%nat -> ImpInv st acc k ->
  ImpInv st (fold_left imp_step (map (fun h => get_node st (N.of_nat h)) (seq k m)) acc) (N.to_nat (size st)).
Proof.
  intros W. induction m as [|m IH]; intros k acc Hkm I.
  - cbn. replace (N.to_nat (size st)) with k by lia. exact I.
  - cbn [seq map fold_left]. apply (IH (S k)); [lia|].
    apply (imp_step_inv st acc k W I). lia.
Qed.

Lemma imp_init_inv st : ImpInv st (NM.empty node, TM.empty N, 0) 0.
Proof.
  split; [reflexivity|]. split.
  - intros h. rewrite nm_find_empty. change (N.of_nat 0) with 0.
    destruct (N.ltb_spec h 0); [lia|reflexivity].
  - intros v lo hi t. rewrite tm_find_empty. change (N.of_nat 0) with 0. split; [discriminate|lia].
Qed.

Theorem import_raw_same_tab st : WFN st -> same_tab st (import_raw (table_of st)).
Proof.
  intros W. rewrite import_raw_eq. unfold table_of.
  pose proof (imp_fold_inv st W (N.to_nat (size st)) 0%nat _ (eq_refl _) (imp_init_inv st)) as I.
  destruct (fold_left imp_step _ _) as [[nm um] kN]. destruct I as (-> & In_ & Iu).
  rewrite N2Nat.id in *.
  split; [reflexivity|]. cbn [nodes uniq]. split.
  - intros h. rewrite In_. destruct (N.ltb_spec h (size st)) as [Hlt|Hge]; [reflexivity|].
    destruct (NM.find h (nodes st)) as [n|] eqn:F; [|reflexivity].
    assert (h < size st) by (apply (wf_dom st W); congruence). lia.
  - intros k. destruct k as [v [lo hi]]. change (v, (lo, hi)) with (k3 v lo hi).
    destruct (TM.find (k3 v lo hi) um) as [t|] eqn:F1.
    + apply Iu in F1. destruct F1 as (A & _ & C). symmetry. apply (wf_uniq st W). auto.
    + destruct (TM.find (k3 v lo hi) (uniq st)) as [t|] eqn:F2; [|reflexivity].
      apply (wf_uniq st W) in F2. destruct F2 as (A & C).
      assert (B : t < size st) by (apply (wf_dom st W); congruence).
      assert (X : TM.find (k3 v lo hi) um = Some t) by (apply Iu; auto). congruence.
Qed.

Theorem import_raw_table st : WFN st ->
  table_of (import_raw (table_of st)) = table_of st /\
  size (import_raw (table_of st)) = size st /\
  forall k, TM.find k (uniq (import_raw (table_of st))) = TM.find k (uniq st).
Proof.
  intros W. pose proof (import_raw_same_tab st W) as H.
  split; [apply same_tab_table, H|]. split; [apply H|apply H].
Qed.

Theorem import_raw_wfn st : WFN st -> WFN (import_raw (table_of st)).
Proof. intros W. apply (same_tab_WFN st _ (import_raw_same_tab st W) W). Qed.

(** ** the repair step *)

Definition getv (vd : NM.t (list N)) (x : N) : list N :=
  match NM.find x vd with Some l => l | None => [] end.

Definition gv_step (st : store) (acc : NM.t (list N) * N) (h : nat) : NM.t (list N) * N :=
  let '(vd, vs) := acc in
  let n := get_node st (N.of_nat h) in
  if VBOT <=? nv n then (NM.add vs [] vd, vs + 1)
  else (NM.add vs (nset_add (nv n) (nset_union (getv vd (nlo n)) (getv vd (nhi n)))) vd, vs + 1).

Lemma gen_vardeps_eq c st : varlist c = true ->
  gen_vardeps c st =
  let '(vd, vs) := fold_left (gv_step st) (seq 0 (N.to_nat (size st))) (vdeps st, vsize st) in
  mkS (nodes st) (size st) (uniq st) vd vs (counts st) (itec st) (resc st) (outq st).
Proof. intros Hc. unfold gen_vardeps. rewrite Hc. reflexivity. Qed.

Lemma gen_vardeps_off c st : varlist c = false -> gen_vardeps c st = st.
Proof. intros Hc. unfold gen_vardeps. rewrite Hc. reflexivity. Qed.

(** [gen_vardeps] touches nothing but the var_deps table *)
Lemma gen_vardeps_frame c st :
  nodes (gen_vardeps c st) = nodes st /\ size (gen_vardeps c st) = size st /\
  uniq (gen_vardeps c st) = uniq st /\ counts (gen_vardeps c st) = counts st /\
  itec (gen_vardeps c st) = itec st /\ resc (gen_vardeps c st) = resc st /\
  outq (gen_vardeps c st) = outq st.
Proof.
  destruct (varlist c) eqn:Hc.
  - rewrite (gen_vardeps_eq c st Hc). destruct (fold_left _ _ _) as [vd vs]. cbn. repeat split.
  - rewrite (gen_vardeps_off c st Hc). repeat split.
Qed.

Definition vd_entry (st : store) (vd : NM.t (list N)) (h : N) : list N :=
  let n := get_node st h in
  if VBOT <=? nv n then [] else nset_add (nv n) (nset_union (getv vd (nlo n)) (getv vd (nhi n))).

Definition GvInv (st : store) (acc : NM.t (list N) * N) (k : nat) : Prop :=
  let '(vd, vs) := acc in
  vs = N.of_nat k /\ forall h, h < N.of_nat k -> getv vd h = vd_entry st vd h.

Lemma getv_add vd k l h : getv (NM.add k l vd) h = if k =? h then l else getv vd h.
Proof. unfold getv. rewrite nm_find_add. destruct (k =? h); reflexivity. Qed.

Lemma gv_step_inv st acc k : WFN st -> GvInv st acc k -> N.of_nat k < size st ->
  GvInv st (gv_step st acc k) (S k).
Proof.
  intros W I Hk. destruct acc as [vd vs]. destruct I as (-> & Iv).
  set (K := N.of_nat k) in *.
  assert (ES : N.of_nat (S k) = K + 1) by (unfold K; lia).
  (* the entry computed for [K] and the new table *)
  set (L := vd_entry st vd K).
  assert (EG : gv_step st (vd, K) k = (NM.add K L vd, K + 1)).
  { unfold gv_step, L, vd_entry. fold K. cbv zeta. destruct (VBOT <=? nv (get_node st K)); reflexivity. }
  rewrite EG. split; [symmetry; exact ES|]. rewrite ES.
  (* entries of handles up to K only look at strictly smaller handles *)
  assert (Stable : forall h, h <= K -> vd_entry st (NM.add K L vd) h = vd_entry st vd h).
  { intros h Hh. unfold vd_entry. cbv zeta.
    destruct (N.leb_spec VBOT (nv (get_node st h))) as [Hv|Hv]; [reflexivity|].
    assert (H2 : 2 <= h).
    { destruct (N.le_gt_cases h 1) as [Hle|Hgt]; [|lia]. pose proof (nv_terminal st h W Hle). lia. }
    assert (Hs : h < size st) by lia.
    destruct (wf_node' st h W H2 Hs) as (_ & _ & Hlo & Hhi & _).
    rewrite !getv_add.
    destruct (N.eqb_spec K (nlo (get_node st h))) as [E|_]; [lia|].
    destruct (N.eqb_spec K (nhi (get_node st h))) as [E|_]; [lia|]. reflexivity. }
  intros h Hh. rewrite (Stable h) by lia. rewrite getv_add.
  destruct (N.eqb_spec K h) as [<-|Hne]; [reflexivity|]. apply Iv. lia.
Qed.

Lemma gv_fold_inv st : WFN st -> forall m k acc,
  (k + m = N.to_nat (size st))%nat -> GvInv st acc k ->
  GvInv st (fold_left (gv_step st) (seq k m) acc) (N.to_nat (size st)).
Proof.
  intros W. induction m as [|m IH]; intros k acc Hkm I.
  - cbn. replace (N.to_nat (size st)) with k by lia. exact I.
  - cbn [seq fold_left]. apply (IH (S k)); [lia|].
    apply (gv_step_inv st acc k W I). lia.
Qed.

(** on a store whose var_deps table is EMPTY (vsize = 0), [gen_vardeps] establishes [VdOK] *)
Lemma gen_vardeps_VdOK c st : WFN st -> vsize st = 0 -> VdOK c (gen_vardeps c st).
Proof.
  intros W Hvs Hc. rewrite (gen_vardeps_eq c st Hc).
  assert (I0 : GvInv st (vdeps st, vsize st) 0).
  { split; [exact Hvs|]. intros h Hh. change (N.of_nat 0) with 0 in Hh. lia. }
  pose proof (gv_fold_inv st W (N.to_nat (size st)) 0%nat _ (eq_refl _) I0) as I.
  destruct (fold_left _ _ _) as [vd vs]. destruct I as (-> & Iv). rewrite N2Nat.id in *.
  unfold get_vd, get_node. cbn [vdeps vsize size nodes]. fold (getv vd).
  pose proof (wf_size st W) as Hs.
  split; [reflexivity|]. split; [|split].
  - intros v. fold (getv vd 0). rewrite (Iv 0) by lia. unfold vd_entry. rewrite (get_node_0 st W). cbn. auto.
  - intros v. fold (getv vd 1). rewrite (Iv 1) by lia. unfold vd_entry. rewrite (get_node_1 st W). cbn. auto.
  - intros h H2 Hh v. fold (get_node st h). fold (getv vd h).
    fold (getv vd (nlo (get_node st h))). fold (getv vd (nhi (get_node st h))).
    rewrite (Iv h Hh). unfold vd_entry. cbv zeta.
    pose proof (nv_nonterminal st h W H2 Hh) as Hv.
    destruct (N.leb_spec VBOT (nv (get_node st h))) as [Hv'|_]; [lia|].
    rewrite nset_add_In, nset_union_In. reflexivity.
Qed.

(** [count_memo] only writes the count table *)
Lemma set_counts_id s : s = set_counts s (counts s).
Proof. destruct s. reflexivity. Qed.

Lemma count_memo_f_frame : forall fuel s t, exists cs, fst (count_memo_f fuel s t) = set_counts s cs.
Proof.
  induction fuel as [|f IH]; intros s t; cbn [count_memo_f].
  - exists (counts s). apply set_counts_id.
  - destruct (t =? 1); [exists (counts s); apply set_counts_id|].
    destruct (t =? 0); [exists (counts s); apply set_counts_id|].
    destruct (NM.find t (counts s)); [exists (counts s); apply set_counts_id|].
    destruct (IH s (nlo (get_node s t))) as (cs1 & E1).
    destruct (count_memo_f f s (nlo (get_node s t))) as [s1 cl]. cbn [fst] in E1. subst s1.
    destruct (IH (set_counts s cs1) (nhi (get_node s t))) as (cs2 & E2).
    destruct (count_memo_f f (set_counts s cs1) (nhi (get_node s t))) as [s2 ch]. cbn [fst] in E2. subst s2.
    cbn [fst]. eexists. reflexivity.
Qed.

Lemma count_memo_f_mono : forall fuel s t h,
  NM.find h (counts s) <> None -> NM.find h (counts (fst (count_memo_f fuel s t))) <> None.
Proof.
  induction fuel as [|f IH]; intros s t h Hh; cbn [count_memo_f]; [exact Hh|].
  destruct (t =? 1); [exact Hh|]. destruct (t =? 0); [exact Hh|].
  destruct (NM.find t (counts s)); [exact Hh|].
  pose proof (IH s (nlo (get_node s t)) h Hh) as H1.
  destruct (count_memo_f f s (nlo (get_node s t))) as [s1 cl]. cbn [fst] in H1.
  pose proof (IH s1 (nhi (get_node s t)) h H1) as H2.
  destruct (count_memo_f f s1 (nhi (get_node s t))) as [s2 ch]. cbn [fst] in H2.
  cbn [fst set_counts counts]. rewrite nm_find_add. destruct (t =? h); [discriminate|exact H2].
Qed.

Lemma count_memo_defines s t : 2 <= t -> NM.find t (counts (fst (count_memo s t))) <> None.
Proof.
  intros H2. unfold count_memo. cbn [count_memo_f].
  destruct (N.eqb_spec t 1) as [E|_]; [lia|]. destruct (N.eqb_spec t 0) as [E|_]; [lia|].
  destruct (NM.find t (counts s)) as [r|] eqn:F; [cbn [fst]; congruence|].
  destruct (count_memo_f _ s (nlo (get_node s t))) as [s1 cl].
  destruct (count_memo_f _ s1 (nhi (get_node s t))) as [s2 ch].
  cbn [fst set_counts counts]. rewrite nm_find_add, N.eqb_refl. discriminate.
Qed.

Definition count_all (l : list nat) (s : store) : store :=
  fold_left (fun s h => fst (count_memo s (N.of_nat h))) l s.

Lemma count_all_frame : forall l s, exists cs, count_all l s = set_counts s cs.
Proof.
  induction l as [|h l IH]; intros s; cbn [count_all fold_left].
  - exists (counts s). apply set_counts_id.
  - destruct (count_memo_f_frame (S (N.to_nat (N.of_nat h))) s (N.of_nat h)) as (cs1 & E1).
    change (fst (count_memo s (N.of_nat h)) = set_counts s cs1) in E1. rewrite E1.
    destruct (IH (set_counts s cs1)) as (cs & E).
    unfold count_all in E. rewrite E. exists cs. reflexivity.
Qed.

Lemma count_all_defined : forall l s h,
  (NM.find h (counts s) <> None \/ (2 <= h /\ In (N.to_nat h) l)) ->
  NM.find h (counts (count_all l s)) <> None.
Proof.
  induction l as [|x l IH]; intros s h Hh; cbn [count_all fold_left].
  - destruct Hh as [Hh|(_ & [])]. exact Hh.
  - apply IH. destruct Hh as [Hh|(H2 & [E|Hin])].
    + left. apply count_memo_f_mono, Hh.
    + left. subst x. rewrite N2Nat.id. apply count_memo_defines, H2.
    + right. auto.
Qed.

Definition seeded (s1 : store) : store :=
  set_counts s1 (NM.add 0 cnt_bot (NM.add 1 cnt_top (counts s1))).

Lemma fix_import_eq c s :
  fix_import c s =
  if 1 <=? adhoc c
  then count_all (seq 0 (N.to_nat (size (seeded (gen_vardeps c s))))) (seeded (gen_vardeps c s))
  else gen_vardeps c s.
Proof. reflexivity. Qed.

(** [fix_import] = [gen_vardeps] followed by an update of the count table only *)
Lemma fix_import_shape c s : exists cs, fix_import c s = set_counts (gen_vardeps c s) cs.
Proof.
  rewrite fix_import_eq. destruct (1 <=? adhoc c).
  - destruct (count_all_frame (seq 0 (N.to_nat (size (seeded (gen_vardeps c s))))) (seeded (gen_vardeps c s)))
      as (cs & E).
    rewrite E. exists cs. reflexivity.
  - exists (counts (gen_vardeps c s)). apply set_counts_id.
Qed.

Lemma fix_import_frame c s :
  nodes (fix_import c s) = nodes s /\ size (fix_import c s) = size s /\ uniq (fix_import c s) = uniq s /\
  itec (fix_import c s) = itec s /\ resc (fix_import c s) = resc s /\ outq (fix_import c s) = outq s /\
  vdeps (fix_import c s) = vdeps (gen_vardeps c s) /\ vsize (fix_import c s) = vsize (gen_vardeps c s).
Proof.
  destruct (fix_import_shape c s) as (cs & ->).
  destruct (gen_vardeps_frame c s) as (A1 & A2 & A3 & _ & A5 & A6 & A7).
  cbn [set_counts nodes size uniq itec resc outq vdeps vsize]. repeat split; assumption.
Qed.

Lemma fix_import_same_tab c s : same_tab s (fix_import c s).
Proof.
  destruct (fix_import_frame c s) as (A1 & A2 & A3 & _).
  split; [exact A2|]. split; intros; [rewrite A1|rewrite A3]; reflexivity.
Qed.

Lemma set_counts_WF c s cs : WF c s -> WF c (set_counts s cs).
Proof.
  intros [W R I V]. constructor.
  - apply (WFN_nodes_eq s); auto.
  - apply (RescOK_nodes_eq s); auto.
  - apply (ItecOK_nodes_eq s); auto.
  - apply (VdOK_nodes_eq c s); auto.
Qed.

(** the repair step on ANY well-formed node table whose var_deps table and memo tables are
    empty yields a fully well-formed store *)
Lemma fix_import_WF_gen c s :
  WFN s -> vsize s = 0 -> (forall k, TM.find k (itec s) = None) -> (forall k, TM.find k (resc s) = None) ->
  WF c (fix_import c s).
Proof.
  intros W Hvs Hi Hr. destruct (fix_import_shape c s) as (cs & ->). apply set_counts_WF.
  destruct (gen_vardeps_frame c s) as (A1 & A2 & A3 & _ & A5 & A6 & _).
  constructor.
  - apply (WFN_nodes_eq s); auto.
  - intros t v b r F. rewrite A6, Hr in F. discriminate.
  - intros i t e r F. rewrite A5, Hi in F. discriminate.
  - apply gen_vardeps_VdOK; assumption.
Qed.

Lemma fix_import_counts_gen c s : 1 <= adhoc c -> 2 <= size s ->
  forall h, h < size s -> NM.find h (counts (fix_import c s)) <> None.
Proof.
  intros Ha Hs2 h Hh. rewrite fix_import_eq.
  destruct (N.leb_spec 1 (adhoc c)) as [_|Hlt]; [|lia].
  set (s2 := seeded (gen_vardeps c s)).
  assert (Es : size s2 = size s) by (unfold s2, seeded; cbn [set_counts size]; apply gen_vardeps_frame).
  apply count_all_defined.
  destruct (N.eq_dec h 0) as [->|Hh0].
  { left. unfold s2, seeded. cbn [set_counts counts]. rewrite nm_find_add, N.eqb_refl. discriminate. }
  destruct (N.eq_dec h 1) as [->|Hh1].
  { left. unfold s2, seeded. cbn [set_counts counts]. rewrite !nm_find_add.
    destruct (0 =? 1); [discriminate|]. rewrite N.eqb_refl. discriminate. }
  right. split; [lia|]. apply in_seq. rewrite Es. lia.
Qed.

Theorem fix_import_same_tab_orig c st : WFN st -> same_tab st (fix_import c (import_raw (table_of st))).
Proof.
  intros W. apply (same_tab_trans st (import_raw (table_of st))).
  - apply import_raw_same_tab, W.
  - apply fix_import_same_tab.
Qed.

Theorem fix_import_wf c st : WFN st ->
  let s := fix_import c (import_raw (table_of st)) in
  WF c s /\ table_of s = table_of st /\ size s = size st /\
  (forall k, TM.find k (uniq s) = TM.find k (uniq st)) /\
  (varlist c = true -> forall h, h < size st -> forall v,
     In v (get_vd s h) <-> In v (vardeps_rec_f (S (N.to_nat h)) st h)) /\
  (1 <= adhoc c -> forall h, h < size st -> NM.find h (counts s) <> None).
Proof.
  intros W s.
  pose proof (fix_import_same_tab_orig c st W) as H. fold s in H.
  destruct (import_raw_rest (table_of st)) as (_ & Hvs & _ & Hi & Hr & _).
  assert (WFs : WF c s).
  { apply fix_import_WF_gen.
    - apply import_raw_wfn, W.
    - exact Hvs.
    - intros k. rewrite Hi. apply tm_find_empty.
    - intros k. rewrite Hr. apply tm_find_empty. }
  split; [exact WFs|]. split; [apply same_tab_table, H|]. split; [apply H|]. split; [apply H|]. split.
  - intros Hc h Hs v.
    assert (Hs' : h < size s) by (rewrite (proj1 H); exact Hs).
    rewrite <- (vd_rec c s (wf_n c s WFs) (wf_vd c s WFs) Hc (S (N.to_nat h)) h Hs') by lia.
    assert (E : forall f x, vardeps_rec_f f s x = vardeps_rec_f f st x).
    { induction f as [|f IH]; intros x; [reflexivity|]. cbn [vardeps_rec_f].
      rewrite (same_tab_get_node st s x H), !IH. reflexivity. }
    rewrite E. reflexivity.
  - intros Ha h Hh. unfold s. apply fix_import_counts_gen; [exact Ha| |].
    + rewrite (proj1 (proj2 (import_raw_table st W))). apply (wf_size st W).
    + rewrite (proj1 (proj2 (import_raw_table st W))). exact Hh.
Qed.

(** the var_deps entries regenerated by the repair step agree with those of the exporting store *)
Theorem fix_import_vdeps c st : WF c st -> varlist c = true ->
  forall h, h < size st ->
  forall v, In v (get_vd (fix_import c (import_raw (table_of st))) h) <-> In v (get_vd st h).
Proof.
  intros [W _ _ V] Hc.
  apply (vd_same_tab c c st _ (fix_import_same_tab_orig c st W) W V); auto.
  apply (wf_vd c _ (proj1 (fix_import_wf c st W))).
Qed.

Theorem fix_import_den c st h : WFN st ->
  feq (den (fix_import c (import_raw (table_of st))) h) (den st h).
Proof. intros W. apply same_tab_den, fix_import_same_tab_orig, W. Qed.

(** ** the count table written by the repair step holds the true counts
    (those of the cache-free recursion [count_naive]) for every handle *)

Lemma count_naive_f_indep st : WFN st -> forall f1 f2 t, t < size st ->
  (N.to_nat t < f1)%nat -> (N.to_nat t < f2)%nat -> count_naive_f f1 st t = count_naive_f f2 st t.
Proof.
  intros W f1. induction f1 as [|f1 IH]; intros f2 t Hs H1 H2; [lia|].
  destruct f2 as [|f2]; [lia|]. cbn [count_naive_f].
  destruct (N.eqb_spec t 1) as [?Hq|?Hq]; [reflexivity|].
  destruct (N.eqb_spec t 0) as [?Hq|?Hq]; [reflexivity|].
  assert (H2t : 2 <= t) by lia.
  destruct (wf_node' st t W H2t Hs) as (_ & _ & Hlo & Hhi & _).
  rewrite (IH f2 (nlo (get_node st t))) by lia. rewrite (IH f2 (nhi (get_node st t))) by lia. reflexivity.
Qed.

Lemma count_naive_node st t : WFN st -> 2 <= t -> t < size st ->
  count_naive st t = combine_cnt (count_naive st (nlo (get_node st t))) (count_naive st (nhi (get_node st t))).
Proof.
  intros W H2 Hs. unfold count_naive at 1. cbn [count_naive_f].
  destruct (N.eqb_spec t 1) as [?Hq|?Hq]; [lia|]. destruct (N.eqb_spec t 0) as [?Hq|?Hq]; [lia|].
  destruct (wf_node' st t W H2 Hs) as (_ & _ & Hlo & Hhi & _).
  unfold count_naive. f_equal; apply (count_naive_f_indep st W); lia.
Qed.

Lemma same_tab_count_naive st s : same_tab st s -> forall t, count_naive s t = count_naive st t.
Proof.
  intros H t. unfold count_naive. generalize (S (N.to_nat t)). intros f. revert t.
  induction f as [|f IH]; intros t; [reflexivity|]. cbn [count_naive_f].
  rewrite (same_tab_get_node st s t H), !IH. reflexivity.
Qed.

Definition CntOK (s : store) (cs : NM.t cnt) : Prop :=
  forall h r, h < size s -> NM.find h cs = Some r -> r = count_naive s h.

Lemma count_memo_f_ok s : WFN s -> forall fuel cs t, t < size s -> (N.to_nat t < fuel)%nat -> CntOK s cs ->
  snd (count_memo_f fuel (set_counts s cs) t) = count_naive s t /\
  exists cs', fst (count_memo_f fuel (set_counts s cs) t) = set_counts s cs' /\ CntOK s cs'.
Proof.
  intros W. induction fuel as [|f IH]; intros cs t Hs Hf OK; [lia|]. cbn [count_memo_f].
  destruct (N.eqb_spec t 1) as [->|Hn1]; [cbn [fst snd]; split; [reflexivity|exists cs; auto]|].
  destruct (N.eqb_spec t 0) as [->|Hn0]; [cbn [fst snd]; split; [reflexivity|exists cs; auto]|].
  change (counts (set_counts s cs)) with cs.
  destruct (NM.find t cs) as [r|] eqn:F.
  { cbn [fst snd]. split; [apply (OK t r Hs F)|exists cs; auto]. }
  change (get_node (set_counts s cs) t) with (get_node s t).
  assert (H2 : 2 <= t) by lia.
  destruct (wf_node' s t W H2 Hs) as (_ & _ & Hlo & Hhi & _).
  destruct (IH cs (nlo (get_node s t))) as (R1 & cs1 & E1 & OK1); [lia|lia|exact OK|].
  destruct (count_memo_f f (set_counts s cs) (nlo (get_node s t))) as [s1 cl]. cbn [fst snd] in R1, E1. subst s1 cl.
  destruct (IH cs1 (nhi (get_node s t))) as (R2 & cs2 & E2 & OK2); [lia|lia|exact OK1|].
  destruct (count_memo_f f (set_counts s cs1) (nhi (get_node s t))) as [s2 ch]. cbn [fst snd] in R2, E2. subst s2 ch.
  cbn [fst snd]. split; [symmetry; apply (count_naive_node s t W H2 Hs)|].
  eexists. split; [reflexivity|].
  intros h r Hh. change (counts (set_counts s cs2)) with cs2. rewrite nm_find_add.
  destruct (N.eqb_spec t h) as [<-|Hne].
  - intros X. inversion X. symmetry. apply (count_naive_node s t W H2 Hs).
  - apply OK2, Hh.
Qed.

Lemma count_all_ok s : WFN s -> forall l cs, Forall (fun h => N.of_nat h < size s) l -> CntOK s cs ->
  exists cs', count_all l (set_counts s cs) = set_counts s cs' /\ CntOK s cs'.
Proof.
  intros W. induction l as [|h l IH]; intros cs Hl OK; cbn [count_all fold_left].
  - exists cs. auto.
  - inversion Hl as [|h' l' Hh Hl']; subst h' l'.
    destruct (count_memo_f_ok s W (S (N.to_nat (N.of_nat h))) cs (N.of_nat h) Hh) as (_ & cs1 & E1 & OK1);
      [lia|exact OK|].
    change (fst (count_memo (set_counts s cs) (N.of_nat h)) = set_counts s cs1) in E1. rewrite E1.
    apply (IH cs1 Hl' OK1).
Qed.

Theorem fix_import_counts c st : WFN st -> 1 <= adhoc c ->
  forall h, h < size st ->
  NM.find h (counts (fix_import c (import_raw (table_of st)))) = Some (count_naive st h).
Proof.
  intros W Ha h Hh.
  set (s0 := import_raw (table_of st)).
  pose proof (import_raw_same_tab st W) as H0. fold s0 in H0.
  destruct (import_raw_rest (table_of st)) as (_ & _ & Hc0 & _). fold s0 in Hc0.
  pose proof (proj2 (proj2 (proj2 (proj2 (proj2 (fix_import_wf c st W))))) Ha h Hh) as Def.
  cbv zeta in Def. fold s0 in Def.
  set (s1 := gen_vardeps c s0).
  destruct (gen_vardeps_frame c s0) as (A1 & A2 & A3 & A4 & _). fold s1 in A1, A2, A3, A4.
  assert (H1 : same_tab st s1).
  { apply (same_tab_trans st s0); [exact H0|]. split; [exact A2|]. split; intros; [rewrite A1|rewrite A3]; reflexivity. }
  assert (W1 : WFN s1) by (apply (same_tab_WFN st s1 H1 W)).
  assert (Hs1 : size s1 = size st) by apply H1.
  assert (OK0 : CntOK s1 (NM.add 0 cnt_bot (NM.add 1 cnt_top (counts s1)))).
  { intros x r _. rewrite A4, Hc0, !nm_find_add, nm_find_empty.
    destruct (N.eqb_spec 0 x) as [<-|_]; [intros X; inversion X; reflexivity|].
    destruct (N.eqb_spec 1 x) as [<-|_]; [intros X; inversion X; reflexivity|discriminate]. }
  revert Def. rewrite fix_import_eq. destruct (N.leb_spec 1 (adhoc c)) as [_|Hlt]; [|lia].
  fold s1. unfold seeded.
  set (cs0 := NM.add 0 cnt_bot (NM.add 1 cnt_top (counts s1))) in *.
  assert (Hl : Forall (fun x => N.of_nat x < size s1) (seq 0 (N.to_nat (size (set_counts s1 cs0))))).
  { apply Forall_forall. intros x Hx. apply in_seq in Hx. cbn [set_counts size] in Hx. lia. }
  destruct (count_all_ok s1 W1 _ cs0 Hl OK0) as (cs' & E & OK').
  rewrite E. cbn [set_counts counts]. intros Def.
  destruct (NM.find h cs') as [r|] eqn:F; [|congruence].
  rewrite (OK' h r) by (rewrite ?Hs1; auto). f_equal. apply (same_tab_count_naive st s1 H1).
Qed.

(* ------------------------------------------------------------------ *)
(** * the repair step is necessary: the imported store without it *)

Lemma import_vd_empty l h : vsize (import_raw l) = 0 /\ get_vd (import_raw l) h = [].
Proof.
  destruct (import_raw_rest l) as (A & B & _). split; [exact B|].
  unfold get_vd. rewrite A, nm_find_empty. reflexivity.
Qed.

(** under feature variablelist the imported store violates the var_deps invariant:
    the table has no entry at all ... *)
Theorem import_needs_fix c st : WFN st -> varlist c = true -> ~ VdOK c (import_raw (table_of st)).
Proof.
  intros W Hc V. destruct (V Hc) as (E & _).
  rewrite (proj1 (import_vd_empty _ 0)), (proj1 (proj2 (import_raw_table st W))) in E.
  pose proof (wf_size st W). lia.
Qed.

(** ... and, as soon as the store contains one non-terminal node, the recurrence between the
    entries fails as well (independently of the length of the table) *)
Theorem import_needs_fix_entries st : WFN st -> 2 < size st ->
  let s := import_raw (table_of st) in
  ~ (forall h, 2 <= h -> h < size s -> forall v,
       In v (get_vd s h) <->
       (v = nv (get_node s h) \/ In v (get_vd s (nlo (get_node s h))) \/ In v (get_vd s (nhi (get_node s h))))).
Proof.
  intros W Hs s R.
  assert (Hs' : 2 < size s) by (unfold s; rewrite (proj1 (proj2 (import_raw_table st W))); exact Hs).
  specialize (R 2 (N.le_refl 2) Hs' (nv (get_node s 2))).
  subst s. rewrite (proj2 (import_vd_empty (table_of st) 2)) in R.
  apply R. left. reflexivity.
Qed.

(** observable consequence: on the unrepaired store every [restrict] is the identity (the
    early exit "variable not in var_deps" always fires), whatever the diagram depends on *)
Theorem import_unfixed_restrict_identity c l t v b : varlist c = true ->
  restrict c (import_raw l) t v b = Some (import_raw l, t).
Proof.
  intros Hc. unfold restrict. cbn [restrict_f].
  destruct (import_raw_rest l) as (_ & _ & _ & _ & Er & _). rewrite Er, tm_find_empty, Hc.
  rewrite (proj2 (import_vd_empty l t)). reflexivity.
Qed.

(** [fix_import] is only meant for freshly imported stores: applied to a live store whose
    var_deps table is not empty it pushes a second copy of every entry *)
Example fix_import_on_live_store_refuted :
  WF cfg_default (init cfg_default) /\ ~ VdOK cfg_default (fix_import cfg_default (init cfg_default)).
Proof.
  split; [apply init_wf|]. intros V. destruct (V eq_refl) as (E & _). vm_compute in E. discriminate E.
Qed.

(* ------------------------------------------------------------------ *)
(** * operations after the round trip
    A conjunction computed on a store [s] with the same node table as [st] (any build) denotes
    the same function as the one computed on [st]; and whenever that function was already
    present in the exported table, it is the SAME handle.  (For a function that is new on both
    sides the handles agree in all computed examples; the memo tables of [st] are not exported,
    so the general statement is about functions.) *)
Theorem roundtrip_band c c' st s a b st1 r :
  WF c st -> WF c' s -> same_tab st s -> a < size st -> b < size st ->
  band c st a b = Some (st1, r) ->
  exists s1 r', band c' s a b = Some (s1, r') /\ feq (den s1 r') (den st1 r) /\
                (r < size st -> r' = r) /\ (r' < size st -> r' = r).
Proof.
  intros WFst WFs H Ha Hb X.
  assert (Ha' : a < size s) by (rewrite (proj1 H); exact Ha).
  assert (Hb' : b < size s) by (rewrite (proj1 H); exact Hb).
  destruct (band_total c' s a b WFs Ha' Hb') as (s1 & r' & X').
  exists s1, r'. split; [exact X'|].
  destruct (band_ok c st a b st1 r WFst Ha Hb X) as (WF1 & E1 & Hr & D1).
  destruct (band_ok c' s a b s1 r' WFs Ha' Hb' X') as (WF1' & E1' & Hr' & D1').
  assert (EQ : feq (den s1 r') (den st1 r)).
  { intros x. rewrite D1, D1'. rewrite !(same_tab_den st s H). reflexivity. }
  split; [exact EQ|]. split.
  - intros Hlt. assert (Hlt' : r < size s) by (rewrite (proj1 H); exact Hlt).
    apply (canonicity s1 (wf_n c' s1 WF1')); [exact Hr'|apply (extends_lt s s1 r E1' Hlt')|].
    intros x. rewrite EQ.
    rewrite (extends_den_stable c st st1 r WFst E1 Hlt x).
    rewrite (extends_den_stable c' s s1 r WFs E1' Hlt' x).
    symmetry. apply (same_tab_den st s H).
  - intros Hlt. assert (Hlt' : r' < size s) by (rewrite (proj1 H); exact Hlt).
    symmetry. apply (canonicity st1 (wf_n c st1 WF1)); [exact Hr|apply (extends_lt st st1 r' E1 Hlt)|].
    intros x. rewrite <- EQ.
    rewrite (extends_den_stable c st st1 r' WFst E1 Hlt x).
    rewrite (extends_den_stable c' s s1 r' WFs E1' Hlt' x).
    apply (same_tab_den st s H).
Qed.

(* ------------------------------------------------------------------ *)
(** * 4. the CLI never overwrites an existing export file
    (bin/adf-bdd: "if export.exists() { error } else { write }"); file system = association list *)
Section CliExport.
  Context {K V : Type} (keq : K -> K -> bool).

  Fixpoint fs_find (p : K) (fs : list (K * V)) : option V :=
    match fs with
    | [] => None
    | (q, x) :: r => if keq q p then Some x else fs_find p r
    end.
  Definition fs_mem (p : K) (fs : list (K * V)) : bool :=
    match fs_find p fs with Some _ => true | None => false end.

  (** returns the new file system and whether something was written *)
  Definition cli_export (fs : list (K * V)) (p : K) (content : V) : list (K * V) * bool :=
    if fs_mem p fs then (fs, false) else ((p, content) :: fs, true).

  Theorem export_no_overwrite fs p content old :
    fs_find p fs = Some old -> fs_find p (fst (cli_export fs p content)) = Some old.
  Proof. intros F. unfold cli_export, fs_mem. rewrite F. exact F. Qed.

  Theorem export_existing_untouched fs p content old :
    fs_find p fs = Some old -> cli_export fs p content = (fs, false).
  Proof. intros F. unfold cli_export, fs_mem. rewrite F. reflexivity. Qed.

  Theorem export_other_files fs p content q : keq p q = false ->
    fs_find q (fst (cli_export fs p content)) = fs_find q fs.
  Proof.
    intros Hq. unfold cli_export. destruct (fs_mem p fs); cbn [fst fs_find]; [reflexivity|].
    rewrite Hq. reflexivity.
  Qed.

  Theorem export_creates fs p content : keq p p = true -> fs_find p fs = None ->
    cli_export fs p content = ((p, content) :: fs, true) /\
    fs_find p (fst (cli_export fs p content)) = Some content.
  Proof.
    intros Hp F. unfold cli_export, fs_mem. rewrite F. cbn [fst fs_find]. rewrite Hp. auto.
  Qed.
End CliExport.

(* ------------------------------------------------------------------ *)
(** * examples *)
Definition demo_store (c : cfg) : store :=
  match run c (init c, []) demo with Some (st, _) => st | None => init c end.

Lemma demo_store_wf c : WF c (demo_store c).
Proof.
  unfold demo_store. destruct (run c (init c, []) demo) as [[st regs]|] eqn:X.
  - apply (reachable_wf c demo st regs X).
  - apply init_wf.
Qed.

(** the store after the demo program has 13 nodes; export, rebuild both ways: same table, and a
    following conjunction (x0 xor x1) & x2 gets the same (new) handle 14 on all three stores *)
Example demo_roundtrip :
  let c := cfg_default in
  let st := demo_store c in
  let s1 := from_nodes c (table_of st) in
  let s2 := fix_import c (import_raw (table_of st)) in
  size st = 13 /\
  table_of s1 = table_of st /\ table_of s2 = table_of st /\
  option_map snd (band c st 7 10) = Some 14 /\
  option_map snd (band c s1 7 10) = Some 14 /\
  option_map snd (band c s2 7 10) = Some 14 /\
  option_map (fun r => table_of (fst r)) (band c s1 7 10) = option_map (fun r => table_of (fst r)) (band c st 7 10) /\
  option_map (fun r => table_of (fst r)) (band c s2 7 10) = option_map (fun r => table_of (fst r)) (band c st 7 10).
Proof. vm_compute. repeat split. Qed.

(** the same across builds: exported by the default build, imported by the build without any
    feature and by the build with adhoccountmodels *)
Example demo_roundtrip_cross_build :
  let st := demo_store cfg_default in
  table_of (from_nodes (mkCfg 0 false) (table_of st)) = table_of st /\
  table_of (from_nodes (mkCfg 2 true) (table_of st)) = table_of st /\
  table_of (fix_import (mkCfg 0 false) (import_raw (table_of st))) = table_of st /\
  table_of (fix_import (mkCfg 2 true) (import_raw (table_of st))) = table_of st /\
  option_map snd (band (mkCfg 0 false) (from_nodes (mkCfg 0 false) (table_of st)) 7 10) = Some 14 /\
  option_map snd (band (mkCfg 2 true) (fix_import (mkCfg 2 true) (import_raw (table_of st))) 7 10) = Some 14.
Proof. vm_compute. repeat split. Qed.

(** without the repair step: handle 4 is x0 & x1, its cofactor x0 := 1 is x1 = handle 3;
    the unrepaired import answers 4 *)
Example demo_unfixed_restrict_wrong :
  let c := cfg_default in
  let st := demo_store c in
  option_map snd (restrict c st 4 0 true) = Some 3 /\
  option_map snd (restrict c (fix_import c (import_raw (table_of st))) 4 0 true) = Some 3 /\
  option_map snd (restrict c (from_nodes c (table_of st)) 4 0 true) = Some 3 /\
  option_map snd (restrict c (import_raw (table_of st)) 4 0 true) = Some 4.
Proof. vm_compute. repeat split. Qed.

(** the documented exception: with adhoccounting but without adhoccountmodels [mk_node] writes
    zero model counts into the count table (live store and [from_nodes]), the repair step writes
    the real ones; so the count TABLES of the two rebuilds differ (the node tables do not) *)
Example demo_counts_differ :
  let c := cfg_default in
  let st := demo_store c in
  get_cnt (from_nodes c (table_of st)) 4 = get_cnt st 4 /\
  get_cnt st 4 = mkC 0 0 2 1 2 /\
  get_cnt (fix_import c (import_raw (table_of st))) 4 = mkC 3 1 2 1 2 /\
  count_naive st 4 = mkC 3 1 2 1 2.
Proof. vm_compute. repeat split. Qed.

Print Assumptions from_nodes_table.
Print Assumptions from_nodes_wf.
Print Assumptions from_nodes_den.
Print Assumptions from_nodes_uniq.
Print Assumptions from_nodes_vdeps.
Print Assumptions from_nodes_vdeps_rec.
Print Assumptions from_nodes_memo_empty.
Print Assumptions import_raw_table.
Print Assumptions import_raw_wfn.
Print Assumptions fix_import_wf.
Print Assumptions fix_import_vdeps.
Print Assumptions fix_import_counts.
Print Assumptions fix_import_den.
Print Assumptions roundtrip_band.
Print Assumptions import_needs_fix.
Print Assumptions import_needs_fix_entries.
Print Assumptions import_unfixed_restrict_identity.
Print Assumptions fix_import_on_live_store_refuted.
Print Assumptions export_no_overwrite.
Print Assumptions export_creates.
Print Assumptions demo_roundtrip.
