(** Correctness of the public operations of the diagram package. *)
From Coq Require Import NArith List Bool Lia ListSet.
From ADF Require Import Base.Maps Spec.Spec Bdd.Store Bdd.WF Bdd.Node Bdd.Restrict Bdd.Ite Bdd.IteTotal.
Import ListNotations.
Local Open Scope N_scope.

(** "no operation changes the function of a previously issued handle" *)
Corollary extends_den_stable c st st' h :
  WF c st -> extends st st' -> h < size st -> feq (den st' h) (den st h).
Proof. intros WFst E Hh a. apply (den_extends st st' (wf_n c st WFst) E h a Hh). Qed.

Lemma size_gt_0 c st : WF c st -> 0 < size st.
Proof. intros WFst. pose proof (wf_size st (wf_n c st WFst)). lia. Qed.
Lemma size_gt_1 c st : WF c st -> 1 < size st.
Proof. intros WFst. pose proof (wf_size st (wf_n c st WFst)). lia. Qed.

(** the shape shared by all results *)
Definition op_spec (c : cfg) (st st' : store) (r : N) (f : bfun) : Prop :=
  WF c st' /\ extends st st' /\ r < size st' /\ feq (den st' r) f.

Lemma ite_op c st i t e st' r :
  WF c st -> i < size st -> t < size st -> e < size st -> ite c st i t e = Some (st', r) ->
  op_spec c st st' r (fun x => if den st i x then den st t x else den st e x).
Proof.
  intros WFst Hi Ht He X.
  destruct (ite_ok c st i t e st' r WFst Hi Ht He X) as (WF' & E & Hr & Hd & _).
  split; [exact WF'|]. split; [exact E|]. split; [exact Hr|exact Hd].
Qed.

Lemma variable_ok c st v st' r : WF c st -> v < VBOT -> variable c st v = (st', r) ->
  WF c st' /\ extends st st' /\ r < size st' /\ feq (den st' r) (fun x => x v).
Proof.
  intros WFst Hv X. unfold variable in X. pose proof (wf_n c st WFst) as W.
  assert (T0 : v < topv st 0) by (rewrite (topv_0 st W); exact Hv).
  assert (T1 : v < topv st 1) by (rewrite (topv_1 st W); pose proof VBOT_lt_VTOP; lia).
  destruct (mk_node_ok c st v 0 1 st' r WFst Hv (size_gt_0 c st WFst) (size_gt_1 c st WFst) T0 T1 X)
    as (WF' & E & Hr & Hd & _).
  split; [exact WF'|]. split; [exact E|]. split; [exact Hr|].
  intros a. rewrite Hd, den_0, den_1. destruct (a v); reflexivity.
Qed.

Lemma bnot_ok c st a st' r : WF c st -> a < size st -> bnot c st a = Some (st', r) ->
  WF c st' /\ extends st st' /\ r < size st' /\ feq (den st' r) (fun x => negb (den st a x)).
Proof.
  intros WFst Ha X. unfold bnot in X.
  destruct (ite_op c st a 0 1 st' r WFst Ha (size_gt_0 c st WFst) (size_gt_1 c st WFst) X)
    as (WF' & E & Hr & Hd).
  split; [exact WF'|]. split; [exact E|]. split; [exact Hr|].
  intros x. rewrite Hd, den_0, den_1. destruct (den st a x); reflexivity.
Qed.

Lemma band_ok c st a b st' r : WF c st -> a < size st -> b < size st -> band c st a b = Some (st', r) ->
  WF c st' /\ extends st st' /\ r < size st' /\ feq (den st' r) (fun x => den st a x && den st b x).
Proof.
  intros WFst Ha Hb X. unfold band in X.
  destruct (ite_op c st a b 0 st' r WFst Ha Hb (size_gt_0 c st WFst) X) as (WF' & E & Hr & Hd).
  split; [exact WF'|]. split; [exact E|]. split; [exact Hr|].
  intros x. rewrite Hd, den_0. destruct (den st a x); reflexivity.
Qed.

Lemma bor_ok c st a b st' r : WF c st -> a < size st -> b < size st -> bor c st a b = Some (st', r) ->
  WF c st' /\ extends st st' /\ r < size st' /\ feq (den st' r) (fun x => den st a x || den st b x).
Proof.
  intros WFst Ha Hb X. unfold bor in X.
  destruct (ite_op c st a 1 b st' r WFst Ha (size_gt_1 c st WFst) Hb X) as (WF' & E & Hr & Hd).
  split; [exact WF'|]. split; [exact E|]. split; [exact Hr|].
  intros x. rewrite Hd, den_1. destruct (den st a x); reflexivity.
Qed.

Lemma bimp_ok c st a b st' r : WF c st -> a < size st -> b < size st -> bimp c st a b = Some (st', r) ->
  WF c st' /\ extends st st' /\ r < size st' /\ feq (den st' r) (fun x => implb (den st a x) (den st b x)).
Proof.
  intros WFst Ha Hb X. unfold bimp in X.
  destruct (ite_op c st a b 1 st' r WFst Ha Hb (size_gt_1 c st WFst) X) as (WF' & E & Hr & Hd).
  split; [exact WF'|]. split; [exact E|]. split; [exact Hr|].
  intros x. rewrite Hd, den_1. destruct (den st a x); reflexivity.
Qed.

Lemma biff_ok c st a b st' r : WF c st -> a < size st -> b < size st -> biff c st a b = Some (st', r) ->
  WF c st' /\ extends st st' /\ r < size st' /\ feq (den st' r) (fun x => Bool.eqb (den st a x) (den st b x)).
Proof.
  intros WFst Ha Hb X. unfold biff in X. pose proof (wf_n c st WFst) as W.
  apply obind_inv in X. destruct X as ([s1 nb] & X1 & X).
  destruct (bnot_ok c st b s1 nb WFst Hb X1) as (WF1 & E1 & Hnb & Dnb).
  destruct (ite_op c s1 a b nb st' r WF1 (extends_lt st s1 a E1 Ha) (extends_lt st s1 b E1 Hb) Hnb X)
    as (WF' & E & Hr & Hd).
  split; [exact WF'|]. split; [apply (extends_trans st s1 st' E1 E)|]. split; [exact Hr|].
  intros x. rewrite Hd, Dnb.
  rewrite (den_extends st s1 W E1 a x Ha), (den_extends st s1 W E1 b x Hb).
  destruct (den st a x), (den st b x); reflexivity.
Qed.

Lemma bxor_ok c st a b st' r : WF c st -> a < size st -> b < size st -> bxor c st a b = Some (st', r) ->
  WF c st' /\ extends st st' /\ r < size st' /\ feq (den st' r) (fun x => xorb (den st a x) (den st b x)).
Proof.
  intros WFst Ha Hb X. unfold bxor in X. pose proof (wf_n c st WFst) as W.
  apply obind_inv in X. destruct X as ([s1 nb] & X1 & X).
  destruct (bnot_ok c st b s1 nb WFst Hb X1) as (WF1 & E1 & Hnb & Dnb).
  destruct (ite_op c s1 a nb b st' r WF1 (extends_lt st s1 a E1 Ha) Hnb (extends_lt st s1 b E1 Hb) X)
    as (WF' & E & Hr & Hd).
  split; [exact WF'|]. split; [apply (extends_trans st s1 st' E1 E)|]. split; [exact Hr|].
  intros x. rewrite Hd, Dnb.
  rewrite (den_extends st s1 W E1 a x Ha), (den_extends st s1 W E1 b x Hb).
  destruct (den st a x), (den st b x); reflexivity.
Qed.

Lemma restrict_ok c st t v b st' r : WF c st -> t < size st -> restrict c st t v b = Some (st', r) ->
  WF c st' /\ extends st st' /\ r < size st' /\ feq (den st' r) (cofactor (den st t) v b).
Proof.
  intros WFst Ht X. unfold restrict in X.
  destruct (restrict_f_ok c _ st t v b st' r WFst Ht X) as (WF' & E & Hr & Hd & _).
  split; [exact WF'|]. split; [exact E|]. split; [exact Hr|exact Hd].
Qed.

Lemma constant_ok c st b : WF c st ->
  constant b < size st /\ feq (den st (constant b)) (fun _ => b).
Proof.
  intros WFst. destruct b; cbn [constant].
  - split; [apply (size_gt_1 c st WFst)|intros a; reflexivity].
  - split; [apply (size_gt_0 c st WFst)|intros a; reflexivity].
Qed.

(** * the operations never fail on valid handles of a well-formed store *)
Lemma bnot_total c st a : WF c st -> a < size st -> exists st' r, bnot c st a = Some (st', r).
Proof.
  intros WFst Ha. unfold bnot.
  apply (ite_total c st a 0 1 WFst Ha (size_gt_0 c st WFst) (size_gt_1 c st WFst)).
Qed.

Lemma band_total c st a b : WF c st -> a < size st -> b < size st ->
  exists st' r, band c st a b = Some (st', r).
Proof. intros WFst Ha Hb. unfold band. apply (ite_total c st a b 0 WFst Ha Hb (size_gt_0 c st WFst)). Qed.

Lemma bor_total c st a b : WF c st -> a < size st -> b < size st ->
  exists st' r, bor c st a b = Some (st', r).
Proof. intros WFst Ha Hb. unfold bor. apply (ite_total c st a 1 b WFst Ha (size_gt_1 c st WFst) Hb). Qed.

Lemma bimp_total c st a b : WF c st -> a < size st -> b < size st ->
  exists st' r, bimp c st a b = Some (st', r).
Proof. intros WFst Ha Hb. unfold bimp. apply (ite_total c st a b 1 WFst Ha Hb (size_gt_1 c st WFst)). Qed.

Lemma biff_total c st a b : WF c st -> a < size st -> b < size st ->
  exists st' r, biff c st a b = Some (st', r).
Proof.
  intros WFst Ha Hb. unfold biff.
  destruct (bnot_total c st b WFst Hb) as (s1 & nb & X1). rewrite X1. cbn [obind].
  destruct (bnot_ok c st b s1 nb WFst Hb X1) as (WF1 & E1 & Hnb & _).
  apply (ite_total c s1 a b nb WF1 (extends_lt st s1 a E1 Ha) (extends_lt st s1 b E1 Hb) Hnb).
Qed.

Lemma bxor_total c st a b : WF c st -> a < size st -> b < size st ->
  exists st' r, bxor c st a b = Some (st', r).
Proof.
  intros WFst Ha Hb. unfold bxor.
  destruct (bnot_total c st b WFst Hb) as (s1 & nb & X1). rewrite X1. cbn [obind].
  destruct (bnot_ok c st b s1 nb WFst Hb X1) as (WF1 & E1 & Hnb & _).
  apply (ite_total c s1 a nb b WF1 (extends_lt st s1 a E1 Ha) Hnb (extends_lt st s1 b E1 Hb)).
Qed.
