(** Cache/bookkeeping invariants and the correctness of [mk_node] (Bdd::node). *)
From Coq Require Import NArith List Bool Lia ListSet.
From ADF Require Import Base.Maps Spec.Spec Bdd.Store Bdd.WF.
Import ListNotations.
Local Open Scope N_scope.

Definition topv (st : store) (h : N) : N := nv (get_node st h).
Definition min3 (a b c : N) : N := N.min a (N.min b c).

(** restrict_cache entries are correct cofactors that do not lower the top variable *)
Definition RescOK (st : store) : Prop :=
  forall t v b r, TM.find (k3 t v (b2n b)) (resc st) = Some r ->
    t < size st /\ r < size st /\ feq (den st r) (cofactor (den st t) v b) /\
    topv st t <= topv st r /\ (v < VBOT -> v <= topv st t -> v < topv st r).

(** ite_cache entries are correct if-then-else results *)
Definition ItecOK (st : store) : Prop :=
  forall i t e r, TM.find (k3 i t e) (itec st) = Some r ->
    i < size st /\ t < size st /\ e < size st /\ r < size st /\
    feq (den st r) (fun a => if den st i a then den st t a else den st e a) /\
    min3 (topv st i) (topv st t) (topv st e) <= topv st r.

(** var_deps (feature variablelist): one entry per node, satisfying the local recurrence *)
Definition VdOK (c : cfg) (st : store) : Prop :=
  varlist c = true ->
  vsize st = size st /\ (forall v, ~ In v (get_vd st 0)) /\ (forall v, ~ In v (get_vd st 1)) /\
  forall h, 2 <= h -> h < size st -> forall v,
    In v (get_vd st h) <->
    (v = nv (get_node st h) \/ In v (get_vd st (nlo (get_node st h))) \/ In v (get_vd st (nhi (get_node st h)))).

Record WF (c : cfg) (st : store) : Prop := mkWF {
  wf_n : WFN st;
  wf_resc : RescOK st;
  wf_itec : ItecOK st;
  wf_vd : VdOK c st
}.

(** * small facts about [topv] and [extends] *)

Lemma topv_extends st st' h : extends st st' -> h < size st -> topv st' h = topv st h.
Proof. intros E Hh. unfold topv. rewrite (extends_get_node st st' h E Hh). reflexivity. Qed.

Lemma extends_size st st' : extends st st' -> size st <= size st'.
Proof. intros [H _]. exact H. Qed.

Lemma extends_lt st st' h : extends st st' -> h < size st -> h < size st'.
Proof. intros [H _] Hh. lia. Qed.

Lemma topv_0 st : WFN st -> topv st 0 = VBOT.
Proof. intros W. unfold topv. rewrite get_node_0; auto. Qed.
Lemma topv_1 st : WFN st -> topv st 1 = VTOP.
Proof. intros W. unfold topv. rewrite get_node_1; auto. Qed.

Lemma topv_terminal st h : WFN st -> h <= 1 -> VBOT <= topv st h.
Proof. intros W Hh. apply nv_terminal; auto. Qed.
Lemma topv_nonterminal st h : WFN st -> 2 <= h -> h < size st -> topv st h < VBOT.
Proof. intros W H2 Hs. apply nv_nonterminal; auto. Qed.

(** a handle whose top variable is a terminal marker is a terminal *)
Lemma topv_VBOT_terminal st h : WFN st -> h < size st -> VBOT <= topv st h -> h <= 1.
Proof.
  intros W Hs Hv. destruct (N.le_gt_cases h 1) as [Hle|Hgt]; [exact Hle|].
  assert (H2 : 2 <= h) by lia. pose proof (topv_nonterminal st h W H2 Hs). lia.
Qed.

Lemma den_terminal st h a a' : h <= 1 -> den st h a = den st h a'.
Proof. intros Hh. assert (h = 0 \/ h = 1) as [-> | ->] by lia; reflexivity. Qed.

(** [den] respects pointwise-equal assignments (no functional extensionality needed) *)
Lemma den_f_ext st f : forall h a a', (forall x, a x = a' x) -> den_f f st h a = den_f f st h a'.
Proof.
  induction f as [|f IH]; intros h a a' E; [reflexivity|]. cbn [den_f].
  destruct (h =? 0); [reflexivity|]. destruct (h =? 1); [reflexivity|].
  rewrite (E (nv (get_node st h))). apply IH. exact E.
Qed.

Lemma den_ext st h a a' : (forall x, a x = a' x) -> den st h a = den st h a'.
Proof. intros E. unfold den. apply den_f_ext. exact E. Qed.

Lemma upd_same a v x : upd a v (a v) x = a x.
Proof. unfold upd. destruct (N.eqb_spec x v) as [->|Hne]; reflexivity. Qed.

Lemma upd_eq a v b : upd a v b v = b.
Proof. unfold upd. rewrite N.eqb_refl. reflexivity. Qed.

Lemma upd_neq a v b x : x <> v -> upd a v b x = a x.
Proof. unfold upd. intros Hne. destruct (N.eqb_spec x v) as [He|_]; [contradiction|reflexivity]. Qed.

(** * transport of the cache invariants along [extends] *)

Lemma RescOK_extends st st' : WFN st -> extends st st' -> resc st' = resc st -> RescOK st -> RescOK st'.
Proof.
  intros W E Er R t v b r F. rewrite Er in F. destruct (R t v b r F) as (Ht & Hr & Hd & Ht1 & Ht2).
  pose proof (extends_size st st' E) as Es.
  split; [lia|]. split; [lia|]. split; [|split].
  - intros a. unfold cofactor. rewrite !(den_extends st st' W E) by auto. apply Hd.
  - rewrite !(topv_extends st st') by auto. exact Ht1.
  - rewrite !(topv_extends st st') by auto. exact Ht2.
Qed.

Lemma ItecOK_extends st st' : WFN st -> extends st st' -> itec st' = itec st -> ItecOK st -> ItecOK st'.
Proof.
  intros W E Ei R i t e r F. rewrite Ei in F. destruct (R i t e r F) as (Hi & Ht & He & Hr & Hd & Hm).
  pose proof (extends_size st st' E) as Es.
  split; [lia|]. split; [lia|]. split; [lia|]. split; [lia|]. split.
  - intros a. rewrite !(den_extends st st' W E) by auto. apply Hd.
  - rewrite !(topv_extends st st') by auto. exact Hm.
Qed.

(** * var_deps *)

(** a variable that is not in the var_deps entry of a handle does not influence its function *)
Lemma vd_indep c st : WFN st -> VdOK c st -> varlist c = true ->
  forall h a v b, h < size st -> ~ In v (get_vd st h) -> den st h (upd a v b) = den st h a.
Proof.
  intros W V Hc. destruct (V Hc) as (_ & _ & _ & Vr).
  intros h. induction h as [h IH] using N_strong_ind. intros a v b Hs Hn.
  destruct (N.eq_dec h 0) as [->|Hh0]; [reflexivity|].
  destruct (N.eq_dec h 1) as [->|Hh1]; [reflexivity|].
  assert (H2 : 2 <= h) by lia.
  destruct (wf_node' st h W H2 Hs) as (_ & _ & Hlo & Hhi & _).
  rewrite !(den_node st h _ W H2 Hs).
  assert (Hv : v <> nv (get_node st h) /\ ~ In v (get_vd st (nlo (get_node st h))) /\ ~ In v (get_vd st (nhi (get_node st h)))).
  { repeat split; intro X; apply Hn; apply (Vr h H2 Hs v); auto. }
  destruct Hv as (Hv1 & Hv2 & Hv3).
  assert (E : upd a v b (nv (get_node st h)) = a (nv (get_node st h))).
  { apply upd_neq. congruence. }
  rewrite E. destruct (a (nv (get_node st h))); apply IH; auto; lia.
Qed.

Lemma vd_top c st h : WFN st -> VdOK c st -> varlist c = true -> 2 <= h -> h < size st ->
  In (topv st h) (get_vd st h).
Proof.
  intros W V Hc H2 Hs. destruct (V Hc) as (_ & _ & _ & Vr). apply (Vr h H2 Hs). left. reflexivity.
Qed.

Lemma nset_add_In v x l : In v (nset_add x l) <-> v = x \/ In v l.
Proof.
  unfold nset_add. split.
  - intros H. apply set_add_elim in H. tauto.
  - intros [->|H]; [apply set_add_intro2; reflexivity | apply set_add_intro1; auto].
Qed.
Lemma nset_union_In v a b : In v (nset_union a b) <-> In v a \/ In v b.
Proof.
  unfold nset_union. split.
  - apply set_union_elim.
  - apply set_union_intro.
Qed.
Lemma nset_mem_In v l : nset_mem v l = true <-> In v l.
Proof.
  unfold nset_mem. split.
  - apply set_mem_correct1.
  - apply set_mem_correct2.
Qed.
Lemma nset_mem_false v l : nset_mem v l = false <-> ~ In v l.
Proof.
  rewrite <- nset_mem_In. destruct (nset_mem v l); split; congruence.
Qed.

(** * what [mk_node] guarantees *)
Definition node_spec (st st' : store) (v lo hi r : N) : Prop :=
  extends st st' /\ r < size st' /\
  (forall a, den st' r a = if a v then den st hi a else den st lo a) /\
  v <= topv st' r /\
  itec st' = itec st /\ resc st' = resc st.

(** ** the shape of the store after a fresh node has been appended *)
Definition FreshOf (c : cfg) (st st' : store) (v lo hi : N) : Prop :=
  nodes st' = NM.add (size st) (mkN v lo hi) (nodes st) /\
  size st' = size st + 1 /\
  uniq st' = TM.add (k3 v lo hi) (size st) (uniq st) /\
  itec st' = itec st /\ resc st' = resc st /\
  (varlist c = true ->
     vdeps st' = NM.add (vsize st) (nset_add v (nset_union (get_vd st lo) (get_vd st hi))) (vdeps st) /\
     vsize st' = vsize st + 1).

Lemma mk_node_cases c st v lo hi st' r :
  mk_node c st v lo hi = (st', r) ->
  (lo = hi /\ st' = st /\ r = lo) \/
  (lo <> hi /\ TM.find (k3 v lo hi) (uniq st) = Some r /\ st' = st) \/
  (lo <> hi /\ TM.find (k3 v lo hi) (uniq st) = None /\ r = size st /\ FreshOf c st st' v lo hi).
Proof.
  unfold mk_node. destruct (N.eqb_spec lo hi) as [Heq|Hne].
  { intros X. inversion X; subst. left. auto. }
  destruct (TM.find (k3 v lo hi) (uniq st)) as [t|] eqn:F.
  { intros X. inversion X. subst. right. left. auto. }
  intros X. right. right. split; [exact Hne|]. split; [reflexivity|].
  unfold FreshOf.
  destruct (varlist c) eqn:Hvc; destruct (1 <=? adhoc c) eqn:Hac; inversion X; subst st' r;
    cbn [nodes size uniq vdeps vsize counts itec resc outq];
    (split; [reflexivity|]); (split; [reflexivity|]); (split; [reflexivity|]); (split; [reflexivity|]);
    (split; [reflexivity|]); (split; [reflexivity|]); intros Hc; try discriminate Hc;
    split; reflexivity.
Qed.

Section Fresh.
  Variables (c : cfg) (st st' : store) (v lo hi : N).
  Hypothesis W : WFN st.
  Hypothesis Hv : v < VBOT.
  Hypothesis Hlo : lo < size st.
  Hypothesis Hhi : hi < size st.
  Hypothesis Hvl : v < topv st lo.
  Hypothesis Hvh : v < topv st hi.
  Hypothesis Hne : lo <> hi.
  Hypothesis Hnone : TM.find (k3 v lo hi) (uniq st) = None.
  Hypothesis HF : FreshOf c st st' v lo hi.

  Let t := size st.

  Lemma fresh_size : size st' = t + 1.
  Proof. apply HF. Qed.

  Lemma fresh_nodes h :
    NM.find h (nodes st') = if t =? h then Some (mkN v lo hi) else NM.find h (nodes st).
  Proof. destruct HF as (Hn & _). rewrite Hn. apply nm_find_add. Qed.

  Lemma fresh_uniq k :
    TM.find k (uniq st') = if key3_eqb (k3 v lo hi) k then Some t else TM.find k (uniq st).
  Proof. destruct HF as (_ & _ & Hu & _). rewrite Hu. apply tm_find_add. Qed.

  Lemma fresh_t2 : 2 <= t.
  Proof. apply (wf_size st W). Qed.

  Lemma fresh_extends : extends st st'.
  Proof.
    split; [rewrite fresh_size; unfold t; lia|].
    intros h Hh. rewrite fresh_nodes. destruct (N.eqb_spec t h) as [He|_]; [unfold t in He; lia|reflexivity].
  Qed.

  Lemma fresh_get_t : get_node st' t = mkN v lo hi.
  Proof. apply get_node_find. rewrite fresh_nodes, N.eqb_refl. reflexivity. Qed.

  Lemma fresh_get_old h : h < t -> get_node st' h = get_node st h.
  Proof. intros Hh. apply (extends_get_node st st' h fresh_extends Hh). Qed.

  Lemma fresh_WFN : WFN st'.
  Proof.
    pose proof fresh_t2 as Ht2.
    constructor.
    - rewrite fresh_nodes. destruct (N.eqb_spec t 0) as [He|_]; [lia|apply (wf_bot st W)].
    - rewrite fresh_nodes. destruct (N.eqb_spec t 1) as [He|_]; [lia|apply (wf_top st W)].
    - rewrite fresh_size. lia.
    - intros h. rewrite fresh_nodes, fresh_size. destruct (N.eqb_spec t h) as [He|Hth].
      + split; [intros _; lia|intros _; discriminate].
      + rewrite (wf_dom st W h). fold t. lia.
    - intros h n H2 Fh. rewrite fresh_nodes in Fh. destruct (N.eqb_spec t h) as [He|Hth].
      + inversion Fh; subst n; cbn [nv nlo nhi].
        rewrite !fresh_get_old by (unfold t; lia). subst h.
        unfold topv in Hvl, Hvh. unfold t. repeat split; auto.
      + assert (Hht : h < t) by (apply (wf_dom st W); congruence).
        destruct (wf_node st W h n H2 Fh) as (A1 & A2 & A3 & A4 & A5 & A6).
        rewrite !fresh_get_old by lia. repeat split; auto.
    - intros v0 lo0 hi0 t0. rewrite fresh_uniq, fresh_nodes.
      destruct (key3_eqb (k3 v lo hi) (k3 v0 lo0 hi0)) eqn:K.
      + apply key3_eqb_spec in K. inversion K; subst v0 lo0 hi0. split.
        * intros X; inversion X; subst t0. rewrite N.eqb_refl. split; [lia|reflexivity].
        * intros [H2 Fn]. destruct (N.eqb_spec t t0) as [->|Hn]; [reflexivity|].
          assert (Fu : TM.find (k3 v lo hi) (uniq st) = Some t0) by (apply (wf_uniq st W); auto).
          congruence.
      + rewrite (wf_uniq st W v0 lo0 hi0 t0). destruct (N.eqb_spec t t0) as [He|Hn].
        * subst t0. split.
          -- intros [_ Fn]. exfalso.
             assert (t < size st) by (apply (wf_dom st W); congruence). unfold t in *; lia.
          -- intros [_ Fn]. inversion Fn; subst. exfalso.
             assert (KK : key3_eqb (k3 v0 lo0 hi0) (k3 v0 lo0 hi0) = true) by (apply key3_eqb_spec; reflexivity).
             congruence.
        * tauto.
  Qed.

  Lemma fresh_den a : den st' t a = if a v then den st hi a else den st lo a.
  Proof.
    pose proof fresh_t2 as Ht2.
    rewrite (den_node st' t a fresh_WFN Ht2) by (rewrite fresh_size; lia).
    rewrite fresh_get_t. cbn [nv nlo nhi].
    destruct (a v); apply (den_extends st st' W fresh_extends); assumption.
  Qed.

  Lemma fresh_topv : topv st' t = v.
  Proof. unfold topv. rewrite fresh_get_t. reflexivity. Qed.

  Lemma fresh_node_spec : node_spec st st' v lo hi t.
  Proof.
    split; [exact fresh_extends|]. split; [rewrite fresh_size; lia|].
    split; [exact fresh_den|]. split; [rewrite fresh_topv; lia|].
    destruct HF as (_ & _ & _ & Hi & Hr & _). auto.
  Qed.

  Lemma fresh_VdOK : VdOK c st -> VdOK c st'.
  Proof.
    intros V Hc. destruct (V Hc) as (Vs & V0 & V1 & Vr).
    destruct HF as (_ & _ & _ & _ & _ & Hvd). destruct (Hvd Hc) as (Hvd1 & Hvd2).
    pose proof fresh_t2 as Ht2.
    assert (Fvd : forall h, NM.find h (vdeps st') =
         if t =? h then Some (nset_add v (nset_union (get_vd st lo) (get_vd st hi))) else NM.find h (vdeps st)).
    { intros h. rewrite Hvd1, Vs. apply nm_find_add. }
    assert (GVold : forall h, h < t -> get_vd st' h = get_vd st h).
    { intros h Hh. unfold get_vd. rewrite Fvd. destruct (N.eqb_spec t h) as [He|_]; [lia|reflexivity]. }
    assert (GVt : get_vd st' t = nset_add v (nset_union (get_vd st lo) (get_vd st hi))).
    { unfold get_vd. rewrite Fvd, N.eqb_refl. reflexivity. }
    split; [rewrite Hvd2, Vs, fresh_size; reflexivity|].
    split; [intros v0; rewrite GVold by lia; auto|].
    split; [intros v0; rewrite GVold by lia; auto|].
    intros h H2 Hh v0. rewrite fresh_size in Hh.
    destruct (N.eq_dec h t) as [->|Hht].
    - rewrite GVt, fresh_get_t. cbn [nv nlo nhi]. rewrite !GVold by (unfold t; lia).
      rewrite nset_add_In, nset_union_In. tauto.
    - assert (Hlt : h < t) by lia.
      destruct (wf_node' st h W H2 Hlt) as (_ & _ & B1 & B2 & _).
      rewrite fresh_get_old by lia. rewrite !GVold by lia. apply (Vr h H2 Hlt).
  Qed.
End Fresh.

Lemma mk_node_ok c st v lo hi st' r :
  WF c st -> v < VBOT -> lo < size st -> hi < size st -> v < topv st lo -> v < topv st hi ->
  mk_node c st v lo hi = (st', r) ->
  WF c st' /\ node_spec st st' v lo hi r.
Proof.
  intros WFst Hv Hlo Hhi Hvl Hvh X. destruct WFst as [W R I V].
  destruct (mk_node_cases c st v lo hi st' r X)
    as [(Heq & -> & ->) | [(Hne & F & ->) | (Hne & F & -> & HF)]].
  - (* reduced away *)
    subst hi. split; [constructor; auto|].
    split; [apply extends_refl|]. split; [exact Hlo|]. split; [intros a; destruct (a v); reflexivity|].
    split; [lia|]. split; reflexivity.
  - (* already present *)
    split; [constructor; auto|].
    apply (wf_uniq st W) in F. destruct F as [Ht2 Ft].
    assert (Hts : r < size st) by (apply (wf_dom st W); congruence).
    assert (G : get_node st r = mkN v lo hi) by (apply get_node_find; auto).
    split; [apply extends_refl|]. split; [exact Hts|]. split; [|split; [|split; reflexivity]].
    + intros a. rewrite (den_node st r a W Ht2 Hts). rewrite G. cbn [nv nlo nhi]. destruct (a v); reflexivity.
    + unfold topv. rewrite G. cbn [nv]. lia.
  - (* fresh node *)
    pose proof (fresh_WFN c st st' v lo hi W Hv Hlo Hhi Hvl Hvh Hne F HF) as W'.
    pose proof (fresh_node_spec c st st' v lo hi W Hv Hlo Hhi Hvl Hvh Hne F HF) as NS.
    split; [|exact NS].
    destruct NS as (E & _ & _ & _ & Ei & Er).
    constructor.
    + exact W'.
    + apply (RescOK_extends st st' W E Er R).
    + apply (ItecOK_extends st st' W E Ei I).
    + apply (fresh_VdOK c st st' v lo hi W Hv Hlo Hhi Hvl Hvh Hne HF V).
Qed.

(** * the initial store *)
Lemma init_WFN c : WFN (init c).
Proof.
  constructor; unfold init; cbn [nodes size uniq].
  - rewrite !nm_find_add. reflexivity.
  - rewrite !nm_find_add. reflexivity.
  - lia.
  - intros h. rewrite !nm_find_add, nm_find_empty.
    destruct (N.eqb_spec 1 h) as [He|Hn1]; [split; [lia|discriminate]|].
    destruct (N.eqb_spec 0 h) as [He|Hn0]; [split; [lia|discriminate]|].
    split; [congruence|lia].
  - intros h n H2. rewrite !nm_find_add, nm_find_empty.
    destruct (N.eqb_spec 1 h) as [He|Hn1]; [lia|].
    destruct (N.eqb_spec 0 h) as [He|Hn0]; [lia|]. discriminate.
  - intros v lo hi t. rewrite tm_find_empty. split; [discriminate|].
    intros [H2 F]. rewrite !nm_find_add, nm_find_empty in F.
    destruct (N.eqb_spec 1 t) as [He|Hn1]; [lia|].
    destruct (N.eqb_spec 0 t) as [He|Hn0]; [lia|]. discriminate.
Qed.

Lemma init_wf c : WF c (init c).
Proof.
  constructor.
  - apply init_WFN.
  - intros t v b r. unfold init; cbn [resc]. rewrite tm_find_empty. discriminate.
  - intros i t e r. unfold init; cbn [itec]. rewrite tm_find_empty. discriminate.
  - intros Hc. unfold get_vd, init. cbn [vdeps vsize size]. rewrite Hc.
    split; [reflexivity|]. rewrite !nm_find_add. cbn.
    split; [auto|]. split; [auto|]. intros h H2 Hh. lia.
Qed.

(** * updating only a memo table keeps the node table, hence every denotation *)
Lemma den_f_nodes_eq st st' : nodes st' = nodes st -> forall f h a, den_f f st' h a = den_f f st h a.
Proof.
  intros En f. induction f as [|f IH]; intros h a; [reflexivity|]. cbn [den_f].
  unfold get_node. rewrite En. fold (get_node st h). rewrite IH. reflexivity.
Qed.

Lemma den_nodes_eq st st' : nodes st' = nodes st -> forall h a, den st' h a = den st h a.
Proof. intros En h a. unfold den. apply den_f_nodes_eq. exact En. Qed.

Lemma topv_nodes_eq st st' : nodes st' = nodes st -> forall h, topv st' h = topv st h.
Proof. intros En h. unfold topv, get_node. rewrite En. reflexivity. Qed.

Lemma WFN_nodes_eq st st' :
  nodes st' = nodes st -> size st' = size st -> uniq st' = uniq st -> WFN st -> WFN st'.
Proof.
  intros En Es Eu W.
  assert (G : forall h, get_node st' h = get_node st h) by (intros h; unfold get_node; rewrite En; reflexivity).
  constructor.
  - rewrite En. apply (wf_bot st W).
  - rewrite En. apply (wf_top st W).
  - rewrite Es. apply (wf_size st W).
  - intros h. rewrite En, Es. apply (wf_dom st W).
  - intros h n H2 F. rewrite En in F. rewrite !G. apply (wf_node st W h n H2 F).
  - intros v lo hi t. rewrite Eu, En. apply (wf_uniq st W).
Qed.

Lemma extends_nodes_eq st st' : nodes st' = nodes st -> size st' = size st -> extends st st'.
Proof. intros En Es. split; [lia|]. intros h _. rewrite En. reflexivity. Qed.

Lemma RescOK_nodes_eq st st' :
  nodes st' = nodes st -> size st' = size st -> resc st' = resc st -> RescOK st -> RescOK st'.
Proof.
  intros En Es Er R t v b r F. rewrite Er in F. destruct (R t v b r F) as (Ht & Hr & Hd & Ht1 & Ht2).
  rewrite Es, !(topv_nodes_eq st st' En).
  split; [exact Ht|]. split; [exact Hr|]. split; [|split; assumption].
  intros a. unfold cofactor. rewrite !(den_nodes_eq st st' En). apply Hd.
Qed.

Lemma ItecOK_nodes_eq st st' :
  nodes st' = nodes st -> size st' = size st -> itec st' = itec st -> ItecOK st -> ItecOK st'.
Proof.
  intros En Es Ei R i t e r F. rewrite Ei in F. destruct (R i t e r F) as (Hi & Ht & He & Hr & Hd & Hm).
  rewrite Es, !(topv_nodes_eq st st' En).
  repeat (split; [assumption|]). split; [|exact Hm].
  intros a. rewrite !(den_nodes_eq st st' En). apply Hd.
Qed.

Lemma VdOK_nodes_eq c st st' :
  nodes st' = nodes st -> size st' = size st -> vdeps st' = vdeps st -> vsize st' = vsize st ->
  VdOK c st -> VdOK c st'.
Proof.
  intros En Es Ev Evs V Hc. destruct (V Hc) as (Vs & V0 & V1 & Vr).
  assert (G : forall h, get_node st' h = get_node st h) by (intros h; unfold get_node; rewrite En; reflexivity).
  assert (GV : forall h, get_vd st' h = get_vd st h) by (intros h; unfold get_vd; rewrite Ev; reflexivity).
  rewrite Evs, Es. split; [exact Vs|]. split; [intros v; rewrite GV; apply V0|].
  split; [intros v; rewrite GV; apply V1|].
  intros h H2 Hh v. rewrite G, !GV. apply (Vr h H2 Hh).
Qed.

(** ** [set_resc] *)
Lemma set_resc_WF c st t v b r :
  WF c st -> t < size st -> r < size st -> feq (den st r) (cofactor (den st t) v b) ->
  topv st t <= topv st r -> (v < VBOT -> v <= topv st t -> v < topv st r) ->
  WF c (set_resc st (k3 t v (b2n b)) r).
Proof.
  intros [W R I V] Ht Hr Hd H1 H2.
  set (st' := set_resc st (k3 t v (b2n b)) r).
  assert (En : nodes st' = nodes st) by reflexivity.
  assert (Es : size st' = size st) by reflexivity.
  constructor.
  - apply (WFN_nodes_eq st st'); auto.
  - intros t0 v0 b0 r0 F. unfold st', set_resc in F. cbn [resc] in F. rewrite tm_find_add in F.
    rewrite Es, !(topv_nodes_eq st st' En).
    destruct (key3_eqb (k3 t v (b2n b)) (k3 t0 v0 (b2n b0))) eqn:K.
    + apply key3_eqb_spec in K. inversion K as [[K1 K2 K3]]. apply b2n_inj in K3. subst t0 v0 b0.
      inversion F; subst r0.
      split; [exact Ht|]. split; [exact Hr|]. split; [|split; assumption].
      intros a. unfold cofactor. rewrite !(den_nodes_eq st st' En). apply Hd.
    + destruct (R t0 v0 b0 r0 F) as (A1 & A2 & A3 & A4 & A5).
      split; [exact A1|]. split; [exact A2|]. split; [|split; assumption].
      intros a. unfold cofactor. rewrite !(den_nodes_eq st st' En). apply A3.
  - apply (ItecOK_nodes_eq st st'); auto.
  - apply (VdOK_nodes_eq c st st'); auto.
Qed.

Lemma set_resc_extends st k r : extends st (set_resc st k r).
Proof. apply extends_nodes_eq; reflexivity. Qed.

(** ** [set_itec] *)
Lemma set_itec_WF c st i t e r :
  WF c st -> i < size st -> t < size st -> e < size st -> r < size st ->
  feq (den st r) (fun a => if den st i a then den st t a else den st e a) ->
  min3 (topv st i) (topv st t) (topv st e) <= topv st r ->
  WF c (set_itec st (k3 i t e) r).
Proof.
  intros [W R I V] Hi Ht He Hr Hd Hm.
  set (st' := set_itec st (k3 i t e) r).
  assert (En : nodes st' = nodes st) by reflexivity.
  assert (Es : size st' = size st) by reflexivity.
  constructor.
  - apply (WFN_nodes_eq st st'); auto.
  - apply (RescOK_nodes_eq st st'); auto.
  - intros i0 t0 e0 r0 F. unfold st', set_itec in F. cbn [itec] in F. rewrite tm_find_add in F.
    rewrite Es, !(topv_nodes_eq st st' En).
    destruct (key3_eqb (k3 i t e) (k3 i0 t0 e0)) eqn:K.
    + apply key3_eqb_spec in K. inversion K; subst i0 t0 e0. inversion F; subst r0.
      repeat (split; [assumption|]). split; [|exact Hm].
      intros a. rewrite !(den_nodes_eq st st' En). apply Hd.
    + destruct (I i0 t0 e0 r0 F) as (A1 & A2 & A3 & A4 & A5 & A6).
      repeat (split; [assumption|]). split; [|exact A6].
      intros a. rewrite !(den_nodes_eq st st' En). apply A5.
  - apply (VdOK_nodes_eq c st st'); auto.
Qed.

Lemma set_itec_extends st k r : extends st (set_itec st k r).
Proof. apply extends_nodes_eq; reflexivity. Qed.

(** * option-monad inversion *)
Lemma obind_inv {A B} (x : option A) (f : A -> option B) y :
  obind x f = Some y -> exists a, x = Some a /\ f a = Some y.
Proof. destruct x as [a|]; cbn; [eauto|discriminate]. Qed.
