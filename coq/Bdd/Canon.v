(** Every reachable state of the diagram package is well formed; link to the specification
    ([Canonical], [SameHandleIffSameFunction]); semantic correctness of programs of operations. *)
From Coq Require Import NArith List Bool Lia ListSet.
From ADF Require Import Base.Maps Spec.Spec Bdd.Store Bdd.WF Bdd.Node Bdd.Restrict Bdd.Ite Bdd.IteTotal Bdd.Ops.
Import ListNotations.
Local Open Scope N_scope.

(** * programs over the public API *)
Inductive op :=
| OVar (v : N) | OConst (b : bool) | ONot (a : nat) | OAnd (a b : nat) | OOr (a b : nat)
| OImp (a b : nat) | OIff (a b : nat) | OXor (a b : nat) | ORestrict (a : nat) (v : N) (b : bool).

(** a program state: store + register file of issued handles; operands index the register
    file (out of range = handle 0) *)
Definition reg (regs : list N) (k : nat) : N := nth k regs 0.

Definition push (regs : list N) (x : option (store * N)) : option (store * list N) :=
  match x with Some (st', r) => Some (st', regs ++ [r]) | None => None end.

Definition run_op (c : cfg) (s : store * list N) (o : op) : option (store * list N) :=
  let '(st, regs) := s in
  match o with
  | OVar v => if VBOT <=? v then None else push regs (Some (variable c st v))
  | OConst b => push regs (Some (st, constant b))
  | ONot a => push regs (bnot c st (reg regs a))
  | OAnd a b => push regs (band c st (reg regs a) (reg regs b))
  | OOr a b => push regs (bor c st (reg regs a) (reg regs b))
  | OImp a b => push regs (bimp c st (reg regs a) (reg regs b))
  | OIff a b => push regs (biff c st (reg regs a) (reg regs b))
  | OXor a b => push regs (bxor c st (reg regs a) (reg regs b))
  | ORestrict a v b => push regs (restrict c st (reg regs a) v b)
  end.

Fixpoint run (c : cfg) (s : store * list N) (p : list op) : option (store * list N) :=
  match p with
  | [] => Some s
  | o :: p' => match run_op c s o with Some s' => run c s' p' | None => None end
  end.

(** * what programs mean: one Boolean function per register *)
Definition freg (fs : list bfun) (k : nat) : bfun := nth k fs (fun _ => false).

Definition sem_fun (fs : list bfun) (o : op) : bfun :=
  match o with
  | OVar v => fun x => x v
  | OConst b => fun _ => b
  | ONot a => fun x => negb (freg fs a x)
  | OAnd a b => fun x => freg fs a x && freg fs b x
  | OOr a b => fun x => freg fs a x || freg fs b x
  | OImp a b => fun x => implb (freg fs a x) (freg fs b x)
  | OIff a b => fun x => Bool.eqb (freg fs a x) (freg fs b x)
  | OXor a b => fun x => xorb (freg fs a x) (freg fs b x)
  | ORestrict a v b => cofactor (freg fs a) v b
  end.

Definition sem_op (fs : list bfun) (o : op) : list bfun := fs ++ [sem_fun fs o].
Definition sem_from (fs : list bfun) (p : list op) : list bfun := fold_left sem_op p fs.
Definition sem (p : list op) : list bfun := sem_from [] p.

(** * the invariant of program states *)
Definition reg_ok (st : store) (h : N) (f : bfun) : Prop := h < size st /\ feq (den st h) f.

Definition State (c : cfg) (st : store) (regs : list N) (fs : list bfun) : Prop :=
  WF c st /\ Forall2 (reg_ok st) regs fs.

Lemma reg_ok_extends c st st' h f : WF c st -> extends st st' -> reg_ok st h f -> reg_ok st' h f.
Proof.
  intros WFst E (Hh & Hd). split; [apply (extends_lt st st' h E Hh)|].
  intros a. rewrite (extends_den_stable c st st' h WFst E Hh a). apply Hd.
Qed.

Lemma regs_ok_extends c st st' regs fs :
  WF c st -> extends st st' -> Forall2 (reg_ok st) regs fs -> Forall2 (reg_ok st') regs fs.
Proof.
  intros WFst E H. induction H as [|h f regs fs Hhf _ IH]; constructor; auto.
  apply (reg_ok_extends c st st' h f WFst E Hhf).
Qed.

Lemma reg_lookup c st regs fs k : State c st regs fs -> reg_ok st (reg regs k) (freg fs k).
Proof.
  intros (WFst & H). revert k. unfold reg, freg.
  induction H as [|h f regs fs Hhf _ IH]; intros k.
  - destruct k; cbn [nth]; (split; [apply (size_gt_0 c st WFst)|intros a; reflexivity]).
  - destruct k as [|k]; cbn [nth]; [exact Hhf|apply IH].
Qed.

Lemma push_ok c st st' regs fs r f :
  State c st regs fs -> WF c st' -> extends st st' -> r < size st' -> feq (den st' r) f ->
  State c st' (regs ++ [r]) (fs ++ [f]).
Proof.
  intros (WFst & H) WF' E Hr Hd. split; [exact WF'|].
  apply Forall2_app.
  - apply (regs_ok_extends c st st' regs fs WFst E H).
  - constructor; [split; assumption|constructor].
Qed.

Lemma push_inv regs x st' regs' :
  push regs x = Some (st', regs') -> exists r, x = Some (st', r) /\ regs' = regs ++ [r].
Proof.
  unfold push. destruct x as [[s r]|]; [|discriminate]. intros X. inversion X; subst. eauto.
Qed.

(** one operation preserves the invariant and computes the function it names *)
Lemma run_op_ok c st regs fs o st' regs' :
  State c st regs fs -> run_op c (st, regs) o = Some (st', regs') ->
  State c st' regs' (sem_op fs o).
Proof.
  intros S X. pose proof S as (WFst & _). unfold sem_op.
  destruct o as [v|b|a|a b|a b|a b|a b|a b|a v b]; cbn [run_op sem_fun] in X |- *.
  - (* OVar *)
    destruct (N.leb_spec VBOT v) as [|Hv]; [discriminate X|].
    apply push_inv in X. destruct X as (r & X & ->). inversion X as [X'].
    destruct (variable_ok c st v st' r WFst Hv X') as (WF' & E & Hr & Hd).
    apply (push_ok c st st'); assumption.
  - (* OConst *)
    apply push_inv in X. destruct X as (r & X & ->). inversion X; subst st' r.
    destruct (constant_ok c st b WFst) as (Hr & Hd).
    apply (push_ok c st st); try assumption. apply extends_refl.
  - (* ONot *)
    apply push_inv in X. destruct X as (r & X & ->).
    destruct (reg_lookup c st regs fs a S) as (Ha & Da).
    destruct (bnot_ok c st _ st' r WFst Ha X) as (WF' & E & Hr & Hd).
    apply (push_ok c st st'); try assumption.
    intros x. rewrite Hd, Da. reflexivity.
  - (* OAnd *)
    apply push_inv in X. destruct X as (r & X & ->).
    destruct (reg_lookup c st regs fs a S) as (Ha & Da).
    destruct (reg_lookup c st regs fs b S) as (Hb & Db).
    destruct (band_ok c st _ _ st' r WFst Ha Hb X) as (WF' & E & Hr & Hd).
    apply (push_ok c st st'); try assumption.
    intros x. rewrite Hd, Da, Db. reflexivity.
  - (* OOr *)
    apply push_inv in X. destruct X as (r & X & ->).
    destruct (reg_lookup c st regs fs a S) as (Ha & Da).
    destruct (reg_lookup c st regs fs b S) as (Hb & Db).
    destruct (bor_ok c st _ _ st' r WFst Ha Hb X) as (WF' & E & Hr & Hd).
    apply (push_ok c st st'); try assumption.
    intros x. rewrite Hd, Da, Db. reflexivity.
  - (* OImp *)
    apply push_inv in X. destruct X as (r & X & ->).
    destruct (reg_lookup c st regs fs a S) as (Ha & Da).
    destruct (reg_lookup c st regs fs b S) as (Hb & Db).
    destruct (bimp_ok c st _ _ st' r WFst Ha Hb X) as (WF' & E & Hr & Hd).
    apply (push_ok c st st'); try assumption.
    intros x. rewrite Hd, Da, Db. reflexivity.
  - (* OIff *)
    apply push_inv in X. destruct X as (r & X & ->).
    destruct (reg_lookup c st regs fs a S) as (Ha & Da).
    destruct (reg_lookup c st regs fs b S) as (Hb & Db).
    destruct (biff_ok c st _ _ st' r WFst Ha Hb X) as (WF' & E & Hr & Hd).
    apply (push_ok c st st'); try assumption.
    intros x. rewrite Hd, Da, Db. reflexivity.
  - (* OXor *)
    apply push_inv in X. destruct X as (r & X & ->).
    destruct (reg_lookup c st regs fs a S) as (Ha & Da).
    destruct (reg_lookup c st regs fs b S) as (Hb & Db).
    destruct (bxor_ok c st _ _ st' r WFst Ha Hb X) as (WF' & E & Hr & Hd).
    apply (push_ok c st st'); try assumption.
    intros x. rewrite Hd, Da, Db. reflexivity.
  - (* ORestrict *)
    apply push_inv in X. destruct X as (r & X & ->).
    destruct (reg_lookup c st regs fs a S) as (Ha & Da).
    destruct (restrict_ok c st _ v b st' r WFst Ha X) as (WF' & E & Hr & Hd).
    apply (push_ok c st st'); try assumption.
    intros x. rewrite Hd. unfold cofactor. apply Da.
Qed.

Lemma run_ok c : forall p st regs fs st' regs',
  State c st regs fs -> run c (st, regs) p = Some (st', regs') ->
  State c st' regs' (sem_from fs p).
Proof.
  induction p as [|o p IH]; intros st regs fs st' regs' S X.
  - cbn in X. inversion X; subst. exact S.
  - cbn [run] in X. destruct (run_op c (st, regs) o) as [[st1 regs1]|] eqn:X1; [|discriminate X].
    unfold sem_from. cbn [fold_left]. apply (IH st1 regs1 (sem_op fs o) st' regs'); [|exact X].
    apply (run_op_ok c st regs fs o st1 regs1 S X1).
Qed.

Lemma init_state c : State c (init c) [] [].
Proof. split; [apply init_wf|constructor]. Qed.

(** * every reachable state is well formed, every issued handle is valid *)
Theorem reachable_wf c p st regs :
  run c (init c, []) p = Some (st, regs) -> WF c st /\ Forall (fun h => h < size st) regs.
Proof.
  intros X. destruct (run_ok c p (init c) [] [] st regs (init_state c) X) as (WFst & H).
  split; [exact WFst|]. clear X.
  induction H as [|h f regs0 fs0 Hhf _ IH]; [constructor|constructor; [exact (proj1 Hhf)|exact IH]].
Qed.

(** * semantic correctness of programs: register [k] denotes the [k]-th function of [sem p];
      in particular later operations never change the functions of earlier registers *)
Theorem run_den c p st regs :
  run c (init c, []) p = Some (st, regs) ->
  Forall2 (fun h f => feq (den st h) f) regs (sem p).
Proof.
  intros X. destruct (run_ok c p (init c) [] [] st regs (init_state c) X) as (WFst & H).
  unfold sem. clear X. induction H as [|h f regs0 fs0 Hhf _ IH]; [constructor|constructor; [exact (proj2 Hhf)|exact IH]].
Qed.

Lemma sem_from_app fs p q : sem_from fs (p ++ q) = sem_from (sem_from fs p) q.
Proof. unfold sem_from. apply fold_left_app. Qed.

Lemma sem_from_length fs p : length (sem_from fs p) = (length fs + length p)%nat.
Proof.
  revert fs. induction p as [|o p IH]; intros fs; cbn [sem_from fold_left length]; [lia|].
  unfold sem_from in IH. rewrite IH. unfold sem_op. rewrite app_length. cbn [length]. lia.
Qed.

Lemma sem_from_prefix fs p k : (k < length fs)%nat -> freg (sem_from fs p) k = freg fs k.
Proof.
  revert fs. induction p as [|o p IH]; intros fs Hk; [reflexivity|].
  cbn [sem_from fold_left]. unfold sem_from in IH. rewrite IH.
  - unfold freg, sem_op. apply app_nth1. exact Hk.
  - unfold sem_op. rewrite app_length. lia.
Qed.

(** the function of a register is fixed when it is issued: running a longer program
    does not change it *)
Corollary sem_stable p q k : (k < length p)%nat -> freg (sem (p ++ q)) k = freg (sem p) k.
Proof.
  intros Hk. unfold sem. rewrite sem_from_app. apply sem_from_prefix.
  rewrite sem_from_length. cbn [length]. lia.
Qed.

Corollary run_den_nth c p st regs k :
  run c (init c, []) p = Some (st, regs) ->
  reg (regs) k < size st /\ feq (den st (reg regs k)) (freg (sem p) k).
Proof.
  intros X. pose proof (run_ok c p (init c) [] [] st regs (init_state c) X) as S.
  apply (reg_lookup c st regs (sem p) k S).
Qed.

(** * link to the specification's predicates on the exported table *)
Lemma table_len st : N.of_nat (length (table_of st)) = size st.
Proof. rewrite table_of_length. apply N2Nat.id. Qed.

Theorem wf_canonical st : WFN st -> Canonical (table_of st).
Proof.
  intros W. pose proof (wf_size st W) as Hs.
  unfold Canonical. rewrite table_len.
  split; [|split; [|split]].
  - assert (H0 : 0 < size st) by lia.
    pose proof (nth_error_table_of st 0 H0) as E. rewrite (get_node_0 st W) in E. exact E.
  - assert (H1 : 1 < size st) by lia.
    pose proof (nth_error_table_of st 1 H1) as E. rewrite (get_node_1 st W) in E. exact E.
  - intros h H2 Hh. cbv zeta.
    rewrite (getn_table_of st h Hh).
    destruct (wf_node' st h W H2 Hh) as (A1 & A2 & A3 & A4 & A5 & A6).
    rewrite (getn_table_of st (nlo (get_node st h))) by lia.
    rewrite (getn_table_of st (nhi (get_node st h))) by lia.
    repeat split; assumption.
  - intros h k H2 Hhk Hk.
    rewrite (getn_table_of st h) by lia. rewrite (getn_table_of st k) by lia.
    intros Eq.
    assert (Fh : NM.find h (nodes st) = Some (get_node st h)) by (apply find_get_node; auto; lia).
    assert (Fk : NM.find k (nodes st) = Some (get_node st k)) by (apply find_get_node; auto; lia).
    rewrite <- Eq in Fk.
    destruct (get_node st h) as [v lo hi].
    assert (U1 : TM.find (k3 v lo hi) (uniq st) = Some h) by (apply (wf_uniq st W); split; auto).
    assert (U2 : TM.find (k3 v lo hi) (uniq st) = Some k) by (apply (wf_uniq st W); split; auto; lia).
    rewrite U1 in U2. inversion U2. lia.
Qed.

Lemma Den_iff_den st : WFN st -> forall h a b, h < size st -> (Den (table_of st) h a b <-> den st h a = b).
Proof.
  intros W h a b Hh. split.
  - intros D. apply (Den_fun (table_of st) h a _ _ (den_Den st W h a Hh) D).
  - intros <-. apply (den_Den st W h a Hh).
Qed.

Theorem wf_same_handle_iff_same_function st : WFN st -> SameHandleIffSameFunction (table_of st).
Proof.
  intros W h k. rewrite table_len. intros Hh Hk. split.
  - intros ->. intros a b. reflexivity.
  - intros E. apply (canonicity st W h k Hh Hk). intros a.
    symmetry. apply (proj1 (Den_iff_den st W k a (den st h a) Hk)). apply E. apply (den_Den st W h a Hh).
Qed.

Corollary reachable_canonical c p st regs :
  run c (init c, []) p = Some (st, regs) -> Canonical (table_of st).
Proof. intros X. apply wf_canonical, (wf_n c), (reachable_wf c p st regs X). Qed.

Corollary reachable_same_handle_iff_same_function c p st regs :
  run c (init c, []) p = Some (st, regs) -> SameHandleIffSameFunction (table_of st).
Proof. intros X. apply wf_same_handle_iff_same_function, (wf_n c), (reachable_wf c p st regs X). Qed.

(** two registers hold the same handle iff the program gives them the same function *)
Corollary reachable_regs_equal_iff c p st regs j k :
  run c (init c, []) p = Some (st, regs) ->
  (reg regs j = reg regs k <-> feq (freg (sem p) j) (freg (sem p) k)).
Proof.
  intros X. destruct (run_den_nth c p st regs j X) as (Hj & Dj).
  destruct (run_den_nth c p st regs k X) as (Hk & Dk).
  pose proof (wf_n c st (proj1 (reachable_wf c p st regs X))) as W.
  split.
  - intros E a. rewrite <- Dj, <- Dk, E. reflexivity.
  - intros E. apply (canonicity st W _ _ Hj Hk). intros a. rewrite Dj, Dk. apply E.
Qed.

(** validity / unsatisfiability checks are comparisons with the terminals *)
Corollary valid_iff_top c p st regs h :
  run c (init c, []) p = Some (st, regs) -> h < size st ->
  (h = 1 <-> forall a, den st h a = true).
Proof.
  intros X Hh. apply const_true_iff; [|exact Hh]. apply (wf_n c), (reachable_wf c p st regs X).
Qed.

Corollary unsat_iff_bot c p st regs h :
  run c (init c, []) p = Some (st, regs) -> h < size st ->
  (h = 0 <-> forall a, den st h a = false).
Proof.
  intros X Hh. apply const_false_iff; [|exact Hh]. apply (wf_n c), (reachable_wf c p st regs X).
Qed.

Corollary reg_valid_iff c p st regs k :
  run c (init c, []) p = Some (st, regs) ->
  (reg regs k = 1 <-> forall a, freg (sem p) k a = true).
Proof.
  intros X. destruct (run_den_nth c p st regs k X) as (Hk & Dk).
  rewrite (valid_iff_top c p st regs _ X Hk). split; intros H a; [rewrite <- Dk|rewrite Dk]; apply H.
Qed.

Corollary reg_unsat_iff c p st regs k :
  run c (init c, []) p = Some (st, regs) ->
  (reg regs k = 0 <-> forall a, freg (sem p) k a = false).
Proof.
  intros X. destruct (run_den_nth c p st regs k X) as (Hk & Dk).
  rewrite (unsat_iff_bot c p st regs _ X Hk). split; intros H a; [rewrite <- Dk|rewrite Dk]; apply H.
Qed.

(** * programs never get stuck: the only rejected operation is a variable index that collides
      with the terminal markers *)
Definition op_valid (o : op) : Prop := match o with OVar v => v < VBOT | _ => True end.

Lemma push_some regs st' r : push regs (Some (st', r)) = Some (st', regs ++ [r]).
Proof. reflexivity. Qed.

Lemma run_op_total c st regs fs o :
  State c st regs fs -> op_valid o -> exists st' regs', run_op c (st, regs) o = Some (st', regs').
Proof.
  intros S Hv. pose proof S as (WFst & _).
  destruct o as [v|b|a|a b|a b|a b|a b|a b|a v b]; cbn [run_op op_valid] in Hv |- *.
  - destruct (N.leb_spec VBOT v) as [Hle|_]; [lia|].
    destruct (variable c st v) as [st' r]. rewrite push_some. eauto.
  - rewrite push_some. eauto.
  - destruct (reg_lookup c st regs fs a S) as (Ha & _).
    destruct (bnot_total c st _ WFst Ha) as (st' & r & X). rewrite X, push_some. eauto.
  - destruct (reg_lookup c st regs fs a S) as (Ha & _). destruct (reg_lookup c st regs fs b S) as (Hb & _).
    destruct (band_total c st _ _ WFst Ha Hb) as (st' & r & X). rewrite X, push_some. eauto.
  - destruct (reg_lookup c st regs fs a S) as (Ha & _). destruct (reg_lookup c st regs fs b S) as (Hb & _).
    destruct (bor_total c st _ _ WFst Ha Hb) as (st' & r & X). rewrite X, push_some. eauto.
  - destruct (reg_lookup c st regs fs a S) as (Ha & _). destruct (reg_lookup c st regs fs b S) as (Hb & _).
    destruct (bimp_total c st _ _ WFst Ha Hb) as (st' & r & X). rewrite X, push_some. eauto.
  - destruct (reg_lookup c st regs fs a S) as (Ha & _). destruct (reg_lookup c st regs fs b S) as (Hb & _).
    destruct (biff_total c st _ _ WFst Ha Hb) as (st' & r & X). rewrite X, push_some. eauto.
  - destruct (reg_lookup c st regs fs a S) as (Ha & _). destruct (reg_lookup c st regs fs b S) as (Hb & _).
    destruct (bxor_total c st _ _ WFst Ha Hb) as (st' & r & X). rewrite X, push_some. eauto.
  - destruct (reg_lookup c st regs fs a S) as (Ha & _).
    destruct (restrict_total c st _ v b WFst Ha) as (st' & r & X). rewrite X, push_some. eauto.
Qed.

Lemma run_total_from c : forall p st regs fs, State c st regs fs -> Forall op_valid p ->
  exists st' regs', run c (st, regs) p = Some (st', regs').
Proof.
  induction p as [|o p IH]; intros st regs fs S Hp; [cbn [run]; eauto|].
  inversion Hp as [|o' p' Ho Hp']; subst o' p'.
  destruct (run_op_total c st regs fs o S Ho) as (st1 & regs1 & X1).
  cbn [run]. rewrite X1.
  apply (IH st1 regs1 (sem_op fs o) (run_op_ok c st regs fs o st1 regs1 S X1) Hp').
Qed.

Theorem run_total c p : Forall op_valid p -> exists st regs, run c (init c, []) p = Some (st, regs).
Proof. apply (run_total_from c p (init c) [] [] (init_state c)). Qed.

(** * the hypotheses are inhabited: a small program that runs to completion *)
Definition demo : list op :=
  [ OVar 0; OVar 1; OAnd 0 1; ONot 2; OOr 2 3; OXor 0 1; OIff 0 1; OOr 5 6;
    ORestrict 2 0 true; OImp 0 1; OConst false; OVar 2; OAnd 2 11; ORestrict 12 1 false; OAnd 1 0 ].

Definition demo_regs (c : cfg) : option (list N) :=
  match run c (init c, []) demo with Some (_, regs) => Some regs | None => None end.

(** registers: x0, x1, x0&x1, ~(x0&x1), top, x0^x1, x0<->x1, top, (x0&x1)[x0:=1] = x1, x0->x1, bot,
    x2, (x0&x1)&x2, ((x0&x1)&x2)[x1:=0] = bot, x1&x0 = x0&x1 (same handle as register 2) *)
Example demo_runs :
  demo_regs cfg_default = Some [2; 3; 4; 6; 1; 7; 8; 1; 3; 9; 0; 10; 12; 0; 4] /\
  demo_regs (mkCfg 0 false) = Some [2; 3; 4; 6; 1; 7; 8; 1; 3; 9; 0; 10; 12; 0; 4] /\
  demo_regs (mkCfg 2 true) = Some [2; 3; 4; 6; 1; 7; 8; 1; 3; 9; 0; 10; 12; 0; 4].
Proof. vm_compute. repeat split. Qed.

Example demo_reachable :
  exists st regs, run cfg_default (init cfg_default, []) demo = Some (st, regs) /\ length regs = 15%nat.
Proof.
  destruct (run cfg_default (init cfg_default, []) demo) as [[st regs]|] eqn:X.
  - exists st, regs. split; [reflexivity|].
    assert (E : demo_regs cfg_default = Some regs) by (unfold demo_regs; rewrite X; reflexivity).
    rewrite (proj1 demo_runs) in E. inversion E. reflexivity.
  - exfalso. assert (E : demo_regs cfg_default = None) by (unfold demo_regs; rewrite X; reflexivity).
    rewrite (proj1 demo_runs) in E. discriminate E.
Qed.

Print Assumptions mk_node_ok.
Print Assumptions restrict_f_ok.
Print Assumptions restrict_total.
Print Assumptions ite_f_ok.
Print Assumptions band_ok.
Print Assumptions reachable_wf.
Print Assumptions wf_same_handle_iff_same_function.
Print Assumptions run_den.
Print Assumptions ite_total.
Print Assumptions run_total.
