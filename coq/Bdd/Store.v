(** Executable model of lib/src/obdd.rs (struct Bdd and its methods), function by
    function, same state, same recursion, same order of node creation.
    No proofs in this file. *)
From Coq Require Import NArith List Bool ListSet.
From ADF Require Import Base.Maps Spec.Spec Gen.GenFlags.
Import ListNotations.
Local Open Scope N_scope.

(** cargo features that split function bodies in obdd.rs *)
Record cfg := mkCfg {
  adhoc : N;          (* 0 = no ad-hoc counting, 1 = adhoccounting, 2 = adhoccounting + adhoccountmodels *)
  varlist : bool      (* feature variablelist *)
}.
Definition cfg_default : cfg := mkCfg 1 true.

(** CountNode = (ModelCounts, ModelCounts, usize): (cmodels, models), (paths to bot, paths to top), depth *)
Record cnt := mkC { c_cm : N; c_m : N; c_pcm : N; c_pm : N; c_dp : N }.
Definition cnt_top : cnt := mkC 0 1 0 1 0.
Definition cnt_bot : cnt := mkC 1 0 1 0 0.

Record store := mkS {
  nodes  : NM.t node;         (* Bdd.nodes, index = handle *)
  size   : N;                 (* nodes.len() *)
  uniq   : TM.t N;            (* Bdd.cache : BddNode -> Term *)
  vdeps  : NM.t (list N);     (* Bdd.var_deps (feature variablelist) *)
  vsize  : N;                 (* var_deps.len() *)
  counts : NM.t cnt;          (* Bdd.count_cache *)
  itec   : TM.t N;            (* Bdd.ite_cache *)
  resc   : TM.t N;            (* Bdd.restrict_cache, key (tree, var, val) *)
  outq   : option (list node) (* Bdd.sender: Some l = sender set, l = nodes sent so far, newest first *)
}.

Definition node_bot : node := mkN VBOT 0 0.
Definition node_top : node := mkN VTOP 1 1.

Definition init (c : cfg) : store :=
  mkS (NM.add 1 node_top (NM.add 0 node_bot (NM.empty node))) 2
      (TM.empty N)
      (if varlist c then NM.add 1 [] (NM.add 0 [] (NM.empty (list N))) else NM.empty (list N))
      (if varlist c then 2 else 0)
      (if 1 <=? adhoc c then NM.add 0 cnt_bot (NM.add 1 cnt_top (NM.empty cnt)) else NM.empty cnt)
      (TM.empty N) (TM.empty N) None.

Definition get_node (st : store) (h : N) : node :=
  match NM.find h (nodes st) with Some n => n | None => node_top end.
Definition get_vd (st : store) (h : N) : list N :=
  match NM.find h (vdeps st) with Some l => l | None => [] end.
Definition get_cnt (st : store) (h : N) : cnt :=
  match NM.find h (counts st) with Some c => c | None => cnt_top end.

Definition nset_add (v : N) (l : list N) : list N := set_add N.eq_dec v l.
Definition nset_union (a b : list N) : list N := set_union N.eq_dec a b.
Definition nset_mem (v : N) (l : list N) : bool := set_mem N.eq_dec v l.

Definition is_tv (h : N) : bool := h <=? 1.       (* Term::is_truth_value *)
Definition is_true (h : N) : bool := h =? 1.      (* Term::is_true *)

(** the ad-hoc count entry computed in [Bdd::node] *)
Definition node_cnt (c : cfg) (cl ch : cnt) : cnt :=
  let dl := c_dp cl in let dh := c_dp ch in
  let '(le, he) :=
    if adhoc c =? 2
    then (if dh <? dl then (1, 2 ^ (dl - dh)) else (2 ^ (dh - dl), 1))
    else (0, 0) in
  mkC (c_cm cl * le + c_cm ch * he) (c_m cl * le + c_m ch * he)
      (c_pcm cl + c_pcm ch) (c_pm cl + c_pm ch) (N.max dl dh + 1).

(** Bdd::node *)
Definition mk_node (c : cfg) (st : store) (v lo hi : N) : store * N :=
  if lo =? hi then (st, lo) else
  match TM.find (k3 v lo hi) (uniq st) with
  | Some t => (st, t)
  | None =>
    let t := size st in
    let n := mkN v lo hi in
    let '(vd, vs) :=
      if varlist c
      then (NM.add (vsize st) (nset_add v (nset_union (get_vd st lo) (get_vd st hi))) (vdeps st), vsize st + 1)
      else (vdeps st, vsize st) in
    let cs :=
      if 1 <=? adhoc c
      then NM.add t (node_cnt c (get_cnt st lo) (get_cnt st hi)) (counts st)
      else counts st in
    (mkS (NM.add t n (nodes st)) (t + 1) (TM.add (k3 v lo hi) t (uniq st))
         vd vs cs (itec st) (resc st)
         (match outq st with Some q => Some (n :: q) | None => None end), t)
  end.

Definition set_resc (st : store) (k : key3) (r : N) : store :=
  mkS (nodes st) (size st) (uniq st) (vdeps st) (vsize st) (counts st) (itec st)
      (TM.add k r (resc st)) (outq st).
Definition set_itec (st : store) (k : key3) (r : N) : store :=
  mkS (nodes st) (size st) (uniq st) (vdeps st) (vsize st) (counts st)
      (TM.add k r (itec st)) (resc st) (outq st).
Definition set_counts (st : store) (cs : NM.t cnt) : store :=
  mkS (nodes st) (size st) (uniq st) (vdeps st) (vsize st) cs (itec st) (resc st) (outq st).
Definition set_outq (st : store) (q : option (list node)) : store :=
  mkS (nodes st) (size st) (uniq st) (vdeps st) (vsize st) (counts st) (itec st) (resc st) q.

Definition obind {A B} (x : option A) (f : A -> option B) : option B :=
  match x with Some a => f a | None => None end.
Notation "'do' p <- e ; k" := (obind e (fun p => k))
  (at level 200, p pattern, e at level 100, k at level 200, right associativity).

(** Bdd::restrict.  [None] = recursion fuel exhausted (never with the canonical fuel on a
    well-formed store: children have smaller handles). *)
Fixpoint restrict_f (c : cfg) (fuel : nat) (st : store) (tree var : N) (val : bool)
  : option (store * N) :=
  match fuel with
  | O => None
  | S f =>
    match TM.find (k3 tree var (b2n val)) (resc st) with
    | Some r => Some (st, r)
    | None =>
      let n := get_node st tree in
      if varlist c && negb (nset_mem var (get_vd st tree)) then Some (st, tree)
      else if (var <? nv n) || (VBOT <=? nv n) then Some (st, tree)
      else if nv n <? var then
        do (st1, lo') <- restrict_f c f st (nlo n) var val;
        do (st2, hi') <- restrict_f c f st1 (nhi n) var val;
        let '(st3, r) := mk_node c st2 (nv n) lo' hi' in
        Some (set_resc st3 (k3 tree var (b2n val)) r, r)
      else
        do (st1, r) <- restrict_f c f st (if val then nhi n else nlo n) var val;
        Some (set_resc st1 (k3 tree var (b2n val)) r, r)
    end
  end.

Definition restrict (c : cfg) (st : store) (tree var : N) (val : bool) : option (store * N) :=
  restrict_f c (S (N.to_nat tree)) st tree var val.

(** Bdd::if_then_else *)
Fixpoint ite_f (c : cfg) (fuel : nat) (st : store) (i t e : N) : option (store * N) :=
  if i =? 1 then Some (st, t)
  else if i =? 0 then Some (st, e)
  else if t =? e then Some (st, t)
  else if (t =? 1) && (e =? 0) then Some (st, i)
  else match TM.find (k3 i t e) (itec st) with
  | Some r => Some (st, r)
  | None =>
    match fuel with
    | O => None
    | S f =>
      let minvar := N.min (nv (get_node st i)) (N.min (nv (get_node st t)) (nv (get_node st e))) in
      do (s1, itop) <- restrict c st i minvar true;
      do (s2, ttop) <- restrict c s1 t minvar true;
      do (s3, etop) <- restrict c s2 e minvar true;
      do (s4, ibot) <- restrict c s3 i minvar false;
      do (s5, tbot) <- restrict c s4 t minvar false;
      do (s6, ebot) <- restrict c s5 e minvar false;
      do (s7, top_ite) <- ite_f c f s6 itop ttop etop;
      do (s8, bot_ite) <- ite_f c f s7 ibot tbot ebot;
      let '(s9, r) := mk_node c s8 minvar bot_ite top_ite in
      Some (set_itec s9 (k3 i t e) r, r)
    end
  end.

Definition ite (c : cfg) (st : store) (i t e : N) : option (store * N) :=
  ite_f c (S (N.to_nat (size st))) st i t e.

Definition variable (c : cfg) (st : store) (v : N) : store * N := mk_node c st v 0 1.
Definition constant (b : bool) : N := if b then 1 else 0.
Definition bnot (c : cfg) (st : store) (t : N) := ite c st t 0 1.
Definition band (c : cfg) (st : store) (a b : N) := ite c st a b 0.
Definition bor  (c : cfg) (st : store) (a b : N) := ite c st a 1 b.
Definition bimp (c : cfg) (st : store) (a b : N) := ite c st a b 1.
Definition biff (c : cfg) (st : store) (a b : N) :=
  do (s1, nb) <- bnot c st b; ite c s1 a b nb.
Definition bxor (c : cfg) (st : store) (a b : N) :=
  do (s1, nb) <- bnot c st b; ite c s1 a nb b.

(** Bdd::interpretations (path cubes towards [goal]); fuel = handle + 1 *)
Fixpoint cubes_f (fuel : nat) (st : store) (tree : N) (goal : bool) (gv : N)
  (neg pos : list N) : list (list N * list N) :=
  match fuel with
  | O => []
  | S f =>
    let n := get_node st tree in
    let var := nv n in
    if is_tv tree then [] else
    (if negb (gv =? var) || goal then
       if is_tv (nhi n)
       then (if eqb (is_true (nhi n)) goal then [(neg, pos ++ [var])] else [])
       else cubes_f f st (nhi n) goal gv neg (pos ++ [var])
     else []) ++
    (if negb (gv =? var) || negb goal then
       if is_tv (nlo n)
       then (if eqb (is_true (nlo n)) goal then [(neg ++ [var], pos)] else [])
       else cubes_f f st (nlo n) goal gv (neg ++ [var]) pos
     else [])
  end.
Definition cubes (st : store) (tree : N) (goal : bool) (gv : N) :=
  cubes_f (S (N.to_nat tree)) st tree goal gv [] [].

(** the arithmetic shared by modelcount_naive and modelcount_memoization *)
Definition combine_cnt (cl ch : cnt) : cnt :=
  let dl := c_dp cl in let dh := c_dp ch in
  let '(le, he) := if dh <? dl then (0, dl - dh) else (dh - dl, 0) in
  mkC (c_cm cl * 2 ^ le + c_cm ch * 2 ^ he) (c_m cl * 2 ^ le + c_m ch * 2 ^ he)
      (c_pcm cl + c_pcm ch) (c_pm cl + c_pm ch) (N.max dl dh + 1).

Fixpoint count_naive_f (fuel : nat) (st : store) (t : N) : cnt :=
  match fuel with
  | O => cnt_top
  | S f =>
    if t =? 1 then cnt_top else if t =? 0 then cnt_bot else
    let n := get_node st t in
    combine_cnt (count_naive_f f st (nlo n)) (count_naive_f f st (nhi n))
  end.
Definition count_naive (st : store) (t : N) : cnt := count_naive_f (S (N.to_nat t)) st t.

(** modelcount_memoization: reads and fills count_cache (a RefCell: mutation behind &self) *)
Fixpoint count_memo_f (fuel : nat) (st : store) (t : N) : store * cnt :=
  match fuel with
  | O => (st, cnt_top)
  | S f =>
    if t =? 1 then (st, cnt_top) else if t =? 0 then (st, cnt_bot) else
    match NM.find t (counts st) with
    | Some r => (st, r)
    | None =>
      let n := get_node st t in
      let '(s1, cl) := count_memo_f f st (nlo n) in
      let '(s2, ch) := count_memo_f f s1 (nhi n) in
      let r := combine_cnt cl ch in
      (set_counts s2 (NM.add t r (counts s2)), r)
    end
  end.
Definition count_memo (st : store) (t : N) : store * cnt := count_memo_f (S (N.to_nat t)) st t.

(** Bdd::models / Bdd::paths : (counter-models, models) *)
Definition models (c : cfg) (st : store) (t : N) (memo : bool) : store * (N * N) :=
  if adhoc c =? 2 then (st, (c_cm (get_cnt st t), c_m (get_cnt st t)))
  else if memo then let '(s, r) := count_memo st t in (s, (c_cm r, c_m r))
  else (st, (c_cm (count_naive st t), c_m (count_naive st t))).
Definition paths (c : cfg) (st : store) (t : N) (memo : bool) : store * (N * N) :=
  if 1 <=? adhoc c then (st, (c_pcm (get_cnt st t), c_pm (get_cnt st t)))
  else if memo then let '(s, r) := count_memo st t in (s, (c_pcm r, c_pm r))
  else (st, (c_pcm (count_naive st t), c_pm (count_naive st t))).

(** Bdd::max_depth; the fallback recursion of the build without ad-hoc counting
    is modelled as written (see DESIGN.md D7). [plus] is what the fallback adds per level. *)
Fixpoint depth_fallback_f (plus : N) (fuel : nat) (st : store) (t : N) : N :=
  match fuel with
  | O => 0
  | S f =>
    match NM.find t (counts st) with
    | Some r => c_dp r
    | None =>
      if is_tv t then 0
      else N.max (depth_fallback_f plus f st (nhi (get_node st t)))
                 (depth_fallback_f plus f st (nlo (get_node st t))) + plus
    end
  end.
Definition DEPTH_PLUS : N := g_depth_plus.   (* regenerated from the source: 1 iff the fallback adds one per level *)
Definition max_depth (c : cfg) (st : store) (t : N) : N :=
  if 1 <=? adhoc c then c_dp (get_cnt st t)
  else depth_fallback_f DEPTH_PLUS (S (N.to_nat t)) st t.

(** Bdd::var_dependencies *)
Fixpoint vardeps_rec_f (fuel : nat) (st : store) (t : N) : list N :=
  match fuel with
  | O => []
  | S f =>
    let n := get_node st t in
    if VBOT <=? nv n then []
    else nset_add (nv n) (nset_union (vardeps_rec_f f st (nlo n)) (vardeps_rec_f f st (nhi n)))
  end.
Definition var_dependencies (c : cfg) (st : store) (t : N) : list N :=
  if varlist c then get_vd st t else vardeps_rec_f (S (N.to_nat t)) st t.

Definition passive_var_impact (c : cfg) (st : store) (v : N) (tl : list N) : N :=
  fold_left (fun acc t => if nset_mem v (var_dependencies c st t) then acc + 1 else acc) tl 0.
Definition active_var_impact (c : cfg) (st : store) (v : N) (tl : list N) : N :=
  let deps := var_dependencies c st (nth (N.to_nat v) tl 0) in
  fold_left (fun acc idx => if nset_mem (N.of_nat idx) deps then acc + 1 else acc)
            (seq 0 (length tl)) 0.

(** Bdd::generate_var_dependencies + Bdd::fix_import *)
Definition gen_vardeps (c : cfg) (st : store) : store :=
  if varlist c then
    let step (acc : NM.t (list N) * N) (h : nat) :=
      let '(vd, vs) := acc in
      let n := get_node st (N.of_nat h) in
      let get x := match NM.find x vd with Some l => l | None => [] end in
      if VBOT <=? nv n then (NM.add vs [] vd, vs + 1)
      else (NM.add vs (nset_add (nv n) (nset_union (get (nlo n)) (get (nhi n)))) vd, vs + 1) in
    let '(vd, vs) := fold_left step (seq 0 (N.to_nat (size st))) (vdeps st, vsize st) in
    mkS (nodes st) (size st) (uniq st) vd vs (counts st) (itec st) (resc st) (outq st)
  else st.
Definition fix_import (c : cfg) (st : store) : store :=
  let s1 := gen_vardeps c st in
  if 1 <=? adhoc c then
    let s2 := set_counts s1 (NM.add 0 cnt_bot (NM.add 1 cnt_top (counts s1))) in
    fold_left (fun s h => fst (count_memo s (N.of_nat h))) (seq 0 (N.to_nat (size s2))) s2
  else s1.

(** the repair step as the source has it: whether generate_var_dependencies starts from an empty table
    ([g_fix_import_clears], regenerated from obdd.rs) or appends to whatever is there *)
Definition clear_vd (st : store) : store :=
  mkS (nodes st) (size st) (uniq st) (NM.empty (list N)) 0 (counts st) (itec st) (resc st) (outq st).
Definition fix_import_x (clears : bool) (c : cfg) (st : store) : store :=
  fix_import c (if clears then clear_vd st else st).
Definition fix_import_cur (c : cfg) (st : store) : store := fix_import_x g_fix_import_clears c st.

(** the node table as a list (what serde writes, what the web service stores) *)
Definition table_of (st : store) : list node :=
  map (fun h => get_node st (N.of_nat h)) (seq 0 (N.to_nat (size st))).

(** From<Vec<BddNode>> for Bdd : replay through [node] *)
Definition from_nodes (c : cfg) (l : list node) : store :=
  fold_left (fun s n => fst (mk_node c s (nv n) (nlo n) (nhi n))) l (init c).

(** serde import: nodes and cache are read back, everything else is Default (empty) *)
Definition import_raw (l : list node) : store :=
  let step (acc : NM.t node * TM.t N * N) (n : node) :=
    let '(nm, um, k) := acc in
    (NM.add k n nm, (if 2 <=? k then TM.add (k3 (nv n) (nlo n) (nhi n)) k um else um), k + 1) in
  let '(nm, um, k) := fold_left step l (NM.empty node, TM.empty N, 0) in
  mkS nm k um (NM.empty (list N)) 0 (NM.empty cnt) (TM.empty N) (TM.empty N) None.

(** obdd/frontend.rs: Bdd::recv.  [inq] = messages pending in the receiver's channel, oldest first.
    Returns (store, remaining channel, found). *)
Fixpoint recv_loop (st : store) (inq : list node) (term : N) : store * list node * bool :=
  match inq with
  | [] => (st, [], false)
  | n :: rest =>
    let t := size st in
    let st' := mkS (NM.add t n (nodes st)) (t + 1) (TM.add (k3 (nv n) (nlo n) (nhi n)) t (uniq st))
                   (vdeps st) (vsize st) (counts st) (itec st) (resc st)
                   (match outq st with Some q => Some (n :: q) | None => None end) in
    if t =? term then (st', rest, true) else recv_loop st' rest term
  end.
Definition recv (st : store) (has_receiver : bool) (inq : list node) (term : N)
  : store * list node * bool :=
  if term <? size st then (st, inq, true)
  else if has_receiver then recv_loop st inq term
  else (st, inq, false).
