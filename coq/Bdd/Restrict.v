(** Correctness and totality of [restrict_f] / [restrict] (Bdd::restrict). *)
From Coq Require Import NArith List Bool Lia ListSet.
From ADF Require Import Base.Maps Spec.Spec Bdd.Store Bdd.WF Bdd.Node.
Import ListNotations.
Local Open Scope N_scope.

Definition restrict_spec (st st' : store) (tree var : N) (b : bool) (r : N) : Prop :=
  extends st st' /\ r < size st' /\ feq (den st' r) (cofactor (den st tree) var b) /\
  topv st tree <= topv st' r /\ (var < VBOT -> var <= topv st tree -> var < topv st' r) /\
  itec st' = itec st.

(** ** case: memo-table hit *)
Lemma restrict_case_cache c st tree var b r :
  WF c st -> TM.find (k3 tree var (b2n b)) (resc st) = Some r ->
  WF c st /\ restrict_spec st st tree var b r.
Proof.
  intros WFst F. split; [exact WFst|].
  destruct (wf_resc c st WFst tree var b r F) as (Ht & Hr & Hd & H1 & H2).
  split; [apply extends_refl|]. split; [exact Hr|]. split; [exact Hd|].
  split; [exact H1|]. split; [exact H2|reflexivity].
Qed.

(** ** case: the handle itself is returned *)
Lemma restrict_case_same st tree var b :
  tree < size st -> feq (den st tree) (cofactor (den st tree) var b) ->
  (var < VBOT -> var <= topv st tree -> var < topv st tree) ->
  restrict_spec st st tree var b tree.
Proof.
  intros Ht Hd Hs.
  split; [apply extends_refl|]. split; [exact Ht|]. split; [exact Hd|].
  split; [lia|]. split; [exact Hs|reflexivity].
Qed.

(** early exit on the var_deps list *)
Lemma restrict_case_vd c st tree var b :
  WF c st -> tree < size st -> varlist c = true -> nset_mem var (get_vd st tree) = false ->
  restrict_spec st st tree var b tree.
Proof.
  intros WFst Ht Hc Hm. pose proof (wf_n c st WFst) as W. pose proof (wf_vd c st WFst) as V.
  apply nset_mem_false in Hm.
  apply restrict_case_same; [exact Ht| |].
  - intros a. unfold cofactor. symmetry. apply (vd_indep c st W V Hc tree a var b Ht Hm).
  - intros Hv Hle. destruct (N.le_gt_cases tree 1) as [Hterm|Hnt].
    + pose proof (topv_terminal st tree W Hterm). lia.
    + assert (H2 : 2 <= tree) by lia.
      pose proof (vd_top c st tree W V Hc H2 Ht) as Hin.
      assert (var <> topv st tree) by (intros ->; contradiction). lia.
Qed.

(** exit on the variable order *)
Lemma restrict_case_order c st tree var b :
  WF c st -> tree < size st -> (var < topv st tree \/ VBOT <= topv st tree) ->
  restrict_spec st st tree var b tree.
Proof.
  intros WFst Ht Ho. pose proof (wf_n c st WFst) as W.
  apply restrict_case_same; [exact Ht| |].
  - intros a. unfold cofactor. destruct Ho as [Hlt|Hterm].
    + symmetry. apply (den_indep_below st W tree a var b Ht Hlt).
    + apply den_terminal. apply (topv_VBOT_terminal st tree W Ht Hterm).
  - intros Hv Hle. destruct Ho as [Hlt|Hterm]; lia.
Qed.

(** ** the common last step: record the result in the memo table *)
Lemma restrict_finish c st st1 tree var b r :
  WF c st -> WF c st1 -> extends st st1 -> tree < size st -> r < size st1 ->
  feq (den st1 r) (cofactor (den st tree) var b) ->
  topv st tree <= topv st1 r -> (var < VBOT -> var <= topv st tree -> var < topv st1 r) ->
  itec st1 = itec st ->
  WF c (set_resc st1 (k3 tree var (b2n b)) r) /\
  restrict_spec st (set_resc st1 (k3 tree var (b2n b)) r) tree var b r.
Proof.
  intros WFst WF1 E Ht Hr Hd H1 H2 Hi.
  pose proof (wf_n c st WFst) as W.
  set (st' := set_resc st1 (k3 tree var (b2n b)) r).
  assert (En : nodes st' = nodes st1) by reflexivity.
  split.
  - apply set_resc_WF; auto.
    + apply (extends_lt st st1 tree E Ht).
    + intros a. unfold cofactor. rewrite (den_extends st st1 W E tree _ Ht). apply Hd.
    + rewrite (topv_extends st st1 tree E Ht). exact H1.
    + rewrite (topv_extends st st1 tree E Ht). exact H2.
  - split; [apply (extends_trans st st1 st' E); apply set_resc_extends|].
    split; [exact Hr|].
    split; [intros a; rewrite (den_nodes_eq st1 st' En); apply Hd|].
    rewrite (topv_nodes_eq st1 st' En).
    split; [exact H1|]. split; [exact H2|exact Hi].
Qed.

(** ** case: the node's variable is the restricted one: descend into one child *)
Lemma restrict_case_descend c st st1 tree var (b : bool) r :
  WF c st -> tree < size st -> 2 <= tree -> topv st tree = var ->
  WF c st1 ->
  restrict_spec st st1 (if b then nhi (get_node st tree) else nlo (get_node st tree)) var b r ->
  WF c (set_resc st1 (k3 tree var (b2n b)) r) /\
  restrict_spec st (set_resc st1 (k3 tree var (b2n b)) r) tree var b r.
Proof.
  intros WFst Ht H2 Hv WF1 S1. destruct S1 as (E & Hr & Hd & T1 & T2 & Hi).
  pose proof (wf_n c st WFst) as W.
  destruct (wf_node' st tree W H2 Ht) as (Hvb & _ & Hlo & Hhi & Hvl & Hvh).
  set (n := get_node st tree) in *.
  set (ch := if b then nhi n else nlo n) in *.
  assert (Hch : topv st tree < topv st ch).
  { unfold topv at 1. fold n. unfold ch, topv. destruct b; assumption. }
  apply (restrict_finish c st st1 tree var b r WFst WF1 E Ht Hr).
  - intros a. rewrite Hd. unfold cofactor.
    rewrite (den_node st tree _ W H2 Ht). fold n. unfold topv in Hv. fold n in Hv.
    rewrite Hv, upd_eq. reflexivity.
  - lia.
  - intros _ _. lia.
  - exact Hi.
Qed.

(** ** case: the node's variable is above the restricted one: rebuild *)
Lemma restrict_case_rebuild c st st1 st2 st3 tree var b lo' hi' r :
  WF c st -> tree < size st -> 2 <= tree -> topv st tree < var ->
  WF c st1 -> restrict_spec st st1 (nlo (get_node st tree)) var b lo' ->
  WF c st2 -> restrict_spec st1 st2 (nhi (get_node st tree)) var b hi' ->
  mk_node c st2 (nv (get_node st tree)) lo' hi' = (st3, r) ->
  WF c (set_resc st3 (k3 tree var (b2n b)) r) /\
  restrict_spec st (set_resc st3 (k3 tree var (b2n b)) r) tree var b r.
Proof.
  intros WFst Ht H2 Hv WF1 S1 WF2 S2 M.
  destruct S1 as (E1 & Hr1 & D1 & T1 & _ & I1). destruct S2 as (E2 & Hr2 & D2 & T2 & _ & I2).
  pose proof (wf_n c st WFst) as W. pose proof (wf_n c st1 WF1) as W1.
  destruct (wf_node' st tree W H2 Ht) as (Hvb & _ & Hlo & Hhi & Hvl & Hvh).
  set (n := get_node st tree) in *.
  assert (Hlos : nlo n < size st) by lia. assert (Hhis : nhi n < size st) by lia.
  assert (Hlo2 : lo' < size st2) by (apply (extends_lt st1 st2 lo' E2 Hr1)).
  assert (Tlo : nv n < topv st2 lo').
  { rewrite (topv_extends st1 st2 lo' E2 Hr1). unfold topv in T1 at 1. lia. }
  assert (Thi : nv n < topv st2 hi').
  { rewrite (topv_extends st st1 (nhi n) E1 Hhis) in T2. unfold topv in T2 at 1. lia. }
  destruct (mk_node_ok c st2 (nv n) lo' hi' st3 r WF2 Hvb Hlo2 Hr2 Tlo Thi M)
    as (WF3 & E3 & Hr3 & D3 & T3 & I3 & _).
  assert (E : extends st st3).
  { apply (extends_trans st st1 st3 E1). apply (extends_trans st1 st2 st3 E2 E3). }
  unfold topv in Hv. fold n in Hv.
  apply (restrict_finish c st st3 tree var b r WFst WF3 E Ht Hr3).
  - intros a. rewrite D3. unfold cofactor.
    rewrite (den_node st tree _ W H2 Ht). fold n.
    rewrite (upd_neq a var b (nv n)) by lia.
    destruct (a (nv n)).
    + rewrite D2. unfold cofactor. apply (den_extends st st1 W E1 (nhi n) _ Hhis).
    + rewrite (den_extends st1 st2 W1 E2 lo' _ Hr1). rewrite D1. reflexivity.
  - unfold topv at 1. fold n. exact T3.
  - intros _ Hle. unfold topv in Hle. fold n in Hle. lia.
  - congruence.
Qed.

(** * main theorem *)
Theorem restrict_f_ok c : forall fuel st tree var b st' r, WF c st -> tree < size st ->
  restrict_f c fuel st tree var b = Some (st', r) -> WF c st' /\ restrict_spec st st' tree var b r.
Proof.
  induction fuel as [|f IH]; intros st tree var b st' r WFst Ht X; [discriminate X|].
  pose proof (wf_n c st WFst) as W.
  cbn [restrict_f] in X.
  destruct (TM.find (k3 tree var (b2n b)) (resc st)) as [r0|] eqn:Fc.
  { inversion X; subst st' r0. apply restrict_case_cache; assumption. }
  destruct (varlist c && negb (nset_mem var (get_vd st tree))) eqn:Evd.
  { inversion X; subst st' r. split; [exact WFst|].
    apply andb_true_iff in Evd. destruct Evd as [Hc Hm]. apply negb_true_iff in Hm.
    apply (restrict_case_vd c); assumption. }
  destruct ((var <? nv (get_node st tree)) || (VBOT <=? nv (get_node st tree))) eqn:Eord.
  { inversion X; subst st' r. split; [exact WFst|].
    apply (restrict_case_order c); try assumption.
    apply orb_true_iff in Eord. unfold topv. destruct Eord as [Hl|Hl]; [left; apply N.ltb_lt|right; apply N.leb_le]; exact Hl. }
  apply orb_false_iff in Eord. destruct Eord as [Eo1 Eo2].
  apply N.ltb_ge in Eo1. apply N.leb_gt in Eo2.
  assert (H2 : 2 <= tree).
  { destruct (N.le_gt_cases tree 1) as [Hterm|Hnt]; [|lia].
    pose proof (nv_terminal st tree W Hterm). lia. }
  destruct (wf_node' st tree W H2 Ht) as (_ & _ & Hlo & Hhi & _).
  destruct (nv (get_node st tree) <? var) eqn:Elt.
  - apply N.ltb_lt in Elt.
    apply obind_inv in X. destruct X as ([st1 lo'] & X1 & X).
    apply obind_inv in X. destruct X as ([st2 hi'] & X2 & X).
    destruct (mk_node c st2 (nv (get_node st tree)) lo' hi') as [st3 r3] eqn:M.
    inversion X; subst st' r3.
    assert (Hlos : nlo (get_node st tree) < size st) by lia.
    destruct (IH st _ var b st1 lo' WFst Hlos X1) as (WF1 & S1).
    assert (Hhis : nhi (get_node st tree) < size st1).
    { destruct S1 as (E1 & _). apply (extends_lt st st1 _ E1). lia. }
    destruct (IH st1 _ var b st2 hi' WF1 Hhis X2) as (WF2 & S2).
    apply (restrict_case_rebuild c st st1 st2 st3 tree var b lo' hi' r); auto.
  - apply N.ltb_ge in Elt.
    apply obind_inv in X. destruct X as ([st1 r1] & X1 & X).
    inversion X; subst st' r1.
    assert (Hch : (if b then nhi (get_node st tree) else nlo (get_node st tree)) < size st)
      by (destruct b; lia).
    destruct (IH st _ var b st1 r WFst Hch X1) as (WF1 & S1).
    apply (restrict_case_descend c st st1 tree var b r); auto.
    unfold topv. lia.
Qed.

(** * totality with the canonical fuel *)
Lemma restrict_f_total c : forall fuel st tree var b, WF c st -> tree < size st ->
  (N.to_nat tree < fuel)%nat -> exists st' r, restrict_f c fuel st tree var b = Some (st', r).
Proof.
  induction fuel as [|f IH]; intros st tree var b WFst Ht Hf; [lia|].
  pose proof (wf_n c st WFst) as W.
  cbn [restrict_f].
  destruct (TM.find (k3 tree var (b2n b)) (resc st)) as [r0|] eqn:Fc; [eauto|].
  destruct (varlist c && negb (nset_mem var (get_vd st tree))); [eauto|].
  destruct ((var <? nv (get_node st tree)) || (VBOT <=? nv (get_node st tree))) eqn:Eord; [eauto|].
  apply orb_false_iff in Eord. destruct Eord as [Eo1 Eo2].
  apply N.ltb_ge in Eo1. apply N.leb_gt in Eo2.
  assert (H2 : 2 <= tree).
  { destruct (N.le_gt_cases tree 1) as [Hterm|Hnt]; [|lia].
    pose proof (nv_terminal st tree W Hterm). lia. }
  destruct (wf_node' st tree W H2 Ht) as (_ & _ & Hlo & Hhi & _).
  destruct (nv (get_node st tree) <? var).
  - assert (Hlos : nlo (get_node st tree) < size st) by lia.
    destruct (IH st (nlo (get_node st tree)) var b WFst Hlos) as (st1 & lo' & X1); [lia|].
    rewrite X1. cbn [obind].
    destruct (restrict_f_ok c f st _ var b st1 lo' WFst Hlos X1) as (WF1 & E1 & _).
    assert (Hhis : nhi (get_node st tree) < size st1) by (apply (extends_lt st st1 _ E1); lia).
    destruct (IH st1 (nhi (get_node st tree)) var b WF1 Hhis) as (st2 & hi' & X2); [lia|].
    rewrite X2. cbn [obind].
    destruct (mk_node c st2 (nv (get_node st tree)) lo' hi') as [st3 r3]. eauto.
  - assert (Hch : (if b then nhi (get_node st tree) else nlo (get_node st tree)) < size st)
      by (destruct b; lia).
    destruct (IH st _ var b WFst Hch) as (st1 & r1 & X1); [destruct b; lia|].
    rewrite X1. cbn [obind]. eauto.
Qed.

Theorem restrict_total c st tree var b : WF c st -> tree < size st ->
  exists st' r, restrict c st tree var b = Some (st', r).
Proof. intros WFst Ht. unfold restrict. apply restrict_f_total; auto. Qed.
