(** The count table (Bdd.count_cache): its invariant, and exactness of path counts, depth and
    model counts (Bdd::paths, Bdd::max_depth, Bdd::models, modelcount_naive,
    modelcount_memoization). *)
From Coq Require Import NArith List Bool Lia ListSet PeanoNat.
From ADF Require Import Base.Maps Spec.Spec Bdd.Store Bdd.WF Bdd.Node Bdd.Restrict Bdd.Ite
  Bdd.IteTotal Bdd.Ops Bdd.Canon Gen.GenFlags Gen.TieFlagDepth.
Import ListNotations.
Local Open Scope N_scope.

(** * induction over the handles of a well-formed store *)
Lemma handle_ind st (P : N -> Prop) : WFN st ->
  P 0 -> P 1 ->
  (forall h, 2 <= h -> h < size st ->
     P (nlo (get_node st h)) -> P (nhi (get_node st h)) -> P h) ->
  forall h, h < size st -> P h.
Proof.
  intros W P0 P1 Pn h. induction h as [h IH] using N_strong_ind. intros Hs.
  destruct (N.eq_dec h 0) as [->|Hh0]; [exact P0|].
  destruct (N.eq_dec h 1) as [->|Hh1]; [exact P1|].
  assert (H2 : 2 <= h) by lia.
  destruct (wf_node' st h W H2 Hs) as (_ & _ & Hlo & Hhi & _).
  apply Pn; auto; apply IH; lia.
Qed.

Lemma child_lt st h : WFN st -> 2 <= h -> h < size st ->
  nlo (get_node st h) < h /\ nhi (get_node st h) < h /\
  nlo (get_node st h) < size st /\ nhi (get_node st h) < size st.
Proof.
  intros W H2 Hs. destruct (wf_node' st h W H2 Hs) as (_ & _ & Hlo & Hhi & _).
  repeat split; lia.
Qed.

(** * a generic bottom-up recursion over handles, with fuel *)
Section HRec.
  Context {A : Type} (b0 b1 : A) (comb : node -> A -> A -> A).

  Fixpoint hrec (fuel : nat) (st : store) (h : N) : A :=
    match fuel with
    | O => b1
    | S f =>
      if h =? 1 then b1 else if h =? 0 then b0 else
      let n := get_node st h in comb n (hrec f st (nlo n)) (hrec f st (nhi n))
    end.

  Definition hval (st : store) (h : N) : A := hrec (S (N.to_nat h)) st h.

  Lemma hrec_indep st : WFN st -> forall f1 f2 h, h < size st ->
    (N.to_nat h < f1)%nat -> (N.to_nat h < f2)%nat -> hrec f1 st h = hrec f2 st h.
  Proof.
    intros W f1. induction f1 as [|f1 IH]; intros f2 h Hs H1 H2; [lia|].
    destruct f2 as [|f2]; [lia|]. cbn [hrec].
    destruct (N.eqb_spec h 1) as [?Hq|?Hq]; [reflexivity|].
    destruct (N.eqb_spec h 0) as [?Hq|?Hq]; [reflexivity|].
    assert (H2h : 2 <= h) by lia.
    destruct (child_lt st h W H2h Hs) as (Hlo & Hhi & Hlos & Hhis).
    cbv zeta. f_equal; apply IH; lia.
  Qed.

  Lemma hval_0 st : hval st 0 = b0. Proof. reflexivity. Qed.
  Lemma hval_1 st : hval st 1 = b1. Proof. reflexivity. Qed.

  Lemma hval_node st h : WFN st -> 2 <= h -> h < size st ->
    hval st h = comb (get_node st h) (hval st (nlo (get_node st h))) (hval st (nhi (get_node st h))).
  Proof.
    intros W H2 Hs. unfold hval at 1. cbn [hrec].
    destruct (N.eqb_spec h 1) as [?Hq|?Hq]; [lia|]. destruct (N.eqb_spec h 0) as [?Hq|?Hq]; [lia|].
    destruct (child_lt st h W H2 Hs) as (Hlo & Hhi & Hlos & Hhis).
    cbv zeta. unfold hval. f_equal; apply hrec_indep; auto; lia.
  Qed.

  Lemma hrec_nodes_eq st st' : nodes st' = nodes st -> forall f h, hrec f st' h = hrec f st h.
  Proof.
    intros En f. induction f as [|f IH]; intros h; [reflexivity|]. cbn [hrec].
    unfold get_node. rewrite En. fold (get_node st h). rewrite !IH. reflexivity.
  Qed.

  Lemma hval_nodes_eq st st' : nodes st' = nodes st -> forall h, hval st' h = hval st h.
  Proof. intros En h. unfold hval. apply hrec_nodes_eq. exact En. Qed.

  Lemma hrec_extends st st' : WFN st -> extends st st' -> forall f h, h < size st ->
    hrec f st' h = hrec f st h.
  Proof.
    intros W E f. induction f as [|f IH]; intros h Hs; [reflexivity|]. cbn [hrec].
    destruct (N.eqb_spec h 1) as [?Hq|?Hq]; [reflexivity|].
    destruct (N.eqb_spec h 0) as [?Hq|?Hq]; [reflexivity|].
    assert (H2 : 2 <= h) by lia.
    destruct (child_lt st h W H2 Hs) as (Hlo & Hhi & Hlos & Hhis).
    rewrite (extends_get_node st st' h E Hs). cbv zeta. f_equal; apply IH; assumption.
  Qed.

  Lemma hval_extends st st' : WFN st -> extends st st' -> forall h, h < size st ->
    hval st' h = hval st h.
  Proof. intros W E h Hs. unfold hval. apply hrec_extends; assumption. Qed.
End HRec.

(** * root-to-terminal paths *)
Inductive IsPath (st : store) : N -> list (N * bool) -> bool -> Prop :=
| PathBot : IsPath st 0 [] false
| PathTop : IsPath st 1 [] true
| PathLo h p b : 2 <= h -> h < size st -> IsPath st (nlo (get_node st h)) p b ->
    IsPath st h ((nv (get_node st h), false) :: p) b
| PathHi h p b : 2 <= h -> h < size st -> IsPath st (nhi (get_node st h)) p b ->
    IsPath st h ((nv (get_node st h), true) :: p) b.

Lemma IsPath_0 st p b : IsPath st 0 p b -> p = [] /\ b = false.
Proof. intros H. inversion H; subst; auto; lia. Qed.
Lemma IsPath_1 st p b : IsPath st 1 p b -> p = [] /\ b = true.
Proof. intros H. inversion H; subst; auto; lia. Qed.
Lemma IsPath_node st h p b : 2 <= h -> IsPath st h p b ->
  exists p', (p = (nv (get_node st h), false) :: p' /\ IsPath st (nlo (get_node st h)) p' b) \/
             (p = (nv (get_node st h), true) :: p' /\ IsPath st (nhi (get_node st h)) p' b).
Proof. intros H2 H. inversion H; subst; try lia; eauto. Qed.

Definition paths_comb (n : node) (l r : list (list (N * bool))) : list (list (N * bool)) :=
  map (cons (nv n, false)) l ++ map (cons (nv n, true)) r.

Definition all_paths (st : store) (h : N) (b : bool) : list (list (N * bool)) :=
  hval (if b then [] else [[]]) (if b then [[]] else []) paths_comb st h.

Lemma all_paths_0 st b : all_paths st 0 b = if b then [] else [[]].
Proof. reflexivity. Qed.
Lemma all_paths_1 st b : all_paths st 1 b = if b then [[]] else [].
Proof. reflexivity. Qed.
Lemma all_paths_node st h b : WFN st -> 2 <= h -> h < size st ->
  all_paths st h b =
  map (cons (nv (get_node st h), false)) (all_paths st (nlo (get_node st h)) b) ++
  map (cons (nv (get_node st h), true)) (all_paths st (nhi (get_node st h)) b).
Proof. intros W H2 Hs. unfold all_paths. rewrite hval_node by assumption. reflexivity. Qed.

Lemma NoDup_map_cons {X} (x : X) l : NoDup l -> NoDup (map (cons x) l).
Proof.
  intros H. induction H as [|y l Hn Hd IH]; cbn [map]; constructor; auto.
  intros Hin. apply in_map_iff in Hin. destruct Hin as (z & Ez & Hz). inversion Ez; subst. contradiction.
Qed.

Lemma NoDup_app_disj {X} (l1 l2 : list X) :
  NoDup l1 -> NoDup l2 -> (forall x, In x l1 -> In x l2 -> False) -> NoDup (l1 ++ l2).
Proof.
  intros H1 H2 Hd. induction H1 as [|y l Hn Hd1 IH]; cbn [app]; [exact H2|].
  constructor.
  - intros Hin. apply in_app_or in Hin. destruct Hin as [Hin|Hin]; [contradiction|].
    apply (Hd y); [left; reflexivity|exact Hin].
  - apply IH. intros x Hx1 Hx2. apply (Hd x); [right; exact Hx1|exact Hx2].
Qed.

Theorem all_paths_spec st h b : WFN st -> h < size st ->
  NoDup (all_paths st h b) /\ forall p, In p (all_paths st h b) <-> IsPath st h p b.
Proof.
  intros W. revert h. apply (handle_ind st _ W).
  - rewrite all_paths_0. split.
    + destruct b; repeat constructor. intros [].
    + intros p. split.
      * destruct b; cbn [In]; [intros []|]. intros [<-|[]]. constructor.
      * intros H. apply IsPath_0 in H. destruct H as [-> ->]. left. reflexivity.
  - rewrite all_paths_1. split.
    + destruct b; repeat constructor. intros [].
    + intros p. split.
      * destruct b; cbn [In]; [|intros []]. intros [<-|[]]. constructor.
      * intros H. apply IsPath_1 in H. destruct H as [-> ->]. left. reflexivity.
  - intros h H2 Hs (NDl & Il) (NDh & Ih). rewrite all_paths_node by assumption. split.
    + apply NoDup_app_disj.
      * apply NoDup_map_cons, NDl.
      * apply NoDup_map_cons, NDh.
      * intros x H1 H3. apply in_map_iff in H1, H3.
        destruct H1 as (y & <- & _). destruct H3 as (z & Ez & _). discriminate Ez.
    + intros p. rewrite in_app_iff, !in_map_iff. split.
      * intros [(q & <- & Hq)|(q & <- & Hq)].
        -- apply PathLo; auto. apply Il, Hq.
        -- apply PathHi; auto. apply Ih, Hq.
      * intros H. apply IsPath_node in H; [|exact H2].
        destruct H as (q & [(-> & Hq)|(-> & Hq)]).
        -- left. exists q. split; [reflexivity|apply Il, Hq].
        -- right. exists q. split; [reflexivity|apply Ih, Hq].
Qed.

Definition npaths (st : store) (h : N) (b : bool) : N := N.of_nat (length (all_paths st h b)).

Lemma npaths_0 st b : npaths st 0 b = if b then 0 else 1.
Proof. unfold npaths. rewrite all_paths_0. destruct b; reflexivity. Qed.
Lemma npaths_1 st b : npaths st 1 b = if b then 1 else 0.
Proof. unfold npaths. rewrite all_paths_1. destruct b; reflexivity. Qed.
Lemma npaths_node st h b : WFN st -> 2 <= h -> h < size st ->
  npaths st h b = npaths st (nlo (get_node st h)) b + npaths st (nhi (get_node st h)) b.
Proof.
  intros W H2 Hs. unfold npaths. rewrite all_paths_node by assumption.
  rewrite app_length, !map_length. lia.
Qed.

(** every handle has a path *)
Lemma path_exists st h : WFN st -> h < size st -> exists p b, IsPath st h p b.
Proof.
  intros W. revert h. apply (handle_ind st (fun h => exists p b, IsPath st h p b) W).
  - exists [], false. constructor.
  - exists [], true. constructor.
  - intros h H2 Hs (p & b & Hp) _. eexists. exists b. apply PathLo; eauto.
Qed.

(** * depth = length of a longest path *)
Definition depth_of (st : store) (h : N) : N := hval 0 0 (fun _ l r => N.max l r + 1) st h.

Lemma depth_of_0 st : depth_of st 0 = 0. Proof. reflexivity. Qed.
Lemma depth_of_1 st : depth_of st 1 = 0. Proof. reflexivity. Qed.
Lemma depth_of_node st h : WFN st -> 2 <= h -> h < size st ->
  depth_of st h = N.max (depth_of st (nlo (get_node st h))) (depth_of st (nhi (get_node st h))) + 1.
Proof. intros W H2 Hs. unfold depth_of. rewrite hval_node by assumption. reflexivity. Qed.

Theorem depth_of_upper st h : WFN st -> h < size st ->
  forall p b, IsPath st h p b -> N.of_nat (length p) <= depth_of st h.
Proof.
  intros W. revert h.
  apply (handle_ind st (fun h => forall p b, IsPath st h p b -> N.of_nat (length p) <= depth_of st h) W).
  - intros p b H. apply IsPath_0 in H. destruct H as [-> _]. cbn. lia.
  - intros p b H. apply IsPath_1 in H. destruct H as [-> _]. cbn. lia.
  - intros h H2 Hs IHl IHh p b H. rewrite depth_of_node by assumption.
    apply IsPath_node in H; [|exact H2].
    destruct H as (q & [(-> & Hq)|(-> & Hq)]); cbn [length]; rewrite Nat2N.inj_succ.
    + specialize (IHl q b Hq). lia.
    + specialize (IHh q b Hq). lia.
Qed.

Theorem depth_of_attained st h : WFN st -> h < size st ->
  exists p b, IsPath st h p b /\ N.of_nat (length p) = depth_of st h.
Proof.
  intros W. revert h.
  apply (handle_ind st (fun h => exists p b, IsPath st h p b /\ N.of_nat (length p) = depth_of st h) W).
  - exists [], false. split; [constructor|reflexivity].
  - exists [], true. split; [constructor|reflexivity].
  - intros h H2 Hs (pl & bl & Hpl & El) (ph & bh & Hph & Eh). rewrite depth_of_node by assumption.
    destruct (N.le_ge_cases (depth_of st (nhi (get_node st h))) (depth_of st (nlo (get_node st h)))) as [Hle|Hle].
    + eexists. exists bl. split; [apply PathLo; eauto|]. cbn [length]. rewrite Nat2N.inj_succ. lia.
    + eexists. exists bh. split; [apply PathHi; eauto|]. cbn [length]. rewrite Nat2N.inj_succ. lia.
Qed.

(** * [count_naive] is an instance of the generic recursion *)
Definition cn_comb (_ : node) (cl ch : cnt) : cnt := combine_cnt cl ch.

Lemma count_naive_f_hrec f st t : count_naive_f f st t = hrec cnt_bot cnt_top cn_comb f st t.
Proof.
  revert t. induction f as [|f IH]; intros t; [reflexivity|].
  cbn [count_naive_f hrec]. rewrite !IH. reflexivity.
Qed.

Lemma count_naive_hval st t : count_naive st t = hval cnt_bot cnt_top cn_comb st t.
Proof. unfold count_naive, hval. apply count_naive_f_hrec. Qed.

Lemma count_naive_0 st : count_naive st 0 = cnt_bot. Proof. reflexivity. Qed.
Lemma count_naive_1 st : count_naive st 1 = cnt_top. Proof. reflexivity. Qed.
Lemma count_naive_node st h : WFN st -> 2 <= h -> h < size st ->
  count_naive st h =
  combine_cnt (count_naive st (nlo (get_node st h))) (count_naive st (nhi (get_node st h))).
Proof. intros W H2 Hs. rewrite !count_naive_hval. rewrite hval_node by assumption. reflexivity. Qed.

Lemma count_naive_nodes_eq st st' : nodes st' = nodes st -> forall h, count_naive st' h = count_naive st h.
Proof. intros En h. rewrite !count_naive_hval. apply hval_nodes_eq. exact En. Qed.
Lemma count_naive_extends st st' : WFN st -> extends st st' -> forall h, h < size st ->
  count_naive st' h = count_naive st h.
Proof. intros W E h Hs. rewrite !count_naive_hval. apply hval_extends; assumption. Qed.

(** the fields of [combine_cnt] *)
Lemma combine_pcm cl ch : c_pcm (combine_cnt cl ch) = c_pcm cl + c_pcm ch.
Proof. unfold combine_cnt. destruct (c_dp ch <? c_dp cl); reflexivity. Qed.
Lemma combine_pm cl ch : c_pm (combine_cnt cl ch) = c_pm cl + c_pm ch.
Proof. unfold combine_cnt. destruct (c_dp ch <? c_dp cl); reflexivity. Qed.
Lemma combine_dp cl ch : c_dp (combine_cnt cl ch) = N.max (c_dp cl) (c_dp ch) + 1.
Proof. unfold combine_cnt. destruct (c_dp ch <? c_dp cl); reflexivity. Qed.
Lemma combine_m cl ch :
  c_m (combine_cnt cl ch) =
  c_m cl * 2 ^ (N.max (c_dp cl) (c_dp ch) - c_dp cl) + c_m ch * 2 ^ (N.max (c_dp cl) (c_dp ch) - c_dp ch).
Proof.
  unfold combine_cnt. destruct (N.ltb_spec (c_dp ch) (c_dp cl)) as [Hlt|Hge]; cbn [c_m].
  - replace (N.max (c_dp cl) (c_dp ch)) with (c_dp cl) by lia. rewrite N.sub_diag. reflexivity.
  - replace (N.max (c_dp cl) (c_dp ch)) with (c_dp ch) by lia. rewrite N.sub_diag. reflexivity.
Qed.
Lemma combine_cm cl ch :
  c_cm (combine_cnt cl ch) =
  c_cm cl * 2 ^ (N.max (c_dp cl) (c_dp ch) - c_dp cl) + c_cm ch * 2 ^ (N.max (c_dp cl) (c_dp ch) - c_dp ch).
Proof.
  unfold combine_cnt. destruct (N.ltb_spec (c_dp ch) (c_dp cl)) as [Hlt|Hge]; cbn [c_cm].
  - replace (N.max (c_dp cl) (c_dp ch)) with (c_dp cl) by lia. rewrite N.sub_diag. reflexivity.
  - replace (N.max (c_dp cl) (c_dp ch)) with (c_dp ch) by lia. rewrite N.sub_diag. reflexivity.
Qed.

(** ** paths and depth computed by [count_naive] are exact *)
Lemma count_naive_paths_depth st h : WFN st -> h < size st ->
  c_pcm (count_naive st h) = npaths st h false /\ c_pm (count_naive st h) = npaths st h true /\
  c_dp (count_naive st h) = depth_of st h.
Proof.
  intros W. revert h. apply (handle_ind st _ W).
  - rewrite count_naive_0, !npaths_0, depth_of_0. repeat split.
  - rewrite count_naive_1, !npaths_1, depth_of_1. repeat split.
  - intros h H2 Hs (A1 & A2 & A3) (B1 & B2 & B3).
    rewrite count_naive_node, (npaths_node st h false), (npaths_node st h true), depth_of_node by assumption.
    rewrite combine_pcm, combine_pm, combine_dp. rewrite A1, A2, A3, B1, B2, B3. repeat split.
Qed.

Lemma pow2_split a b : b <= a -> 2 ^ a = 2 ^ b * 2 ^ (a - b).
Proof. intros H. rewrite <- N.pow_add_r. f_equal. lia. Qed.

Lemma pow2_pos a : 0 < 2 ^ a.
Proof. assert (2 ^ a <> 0) by (apply N.pow_nonzero; lia). lia. Qed.

(** models + counter-models = 2 ^ depth *)
Lemma count_naive_sum st h : WFN st -> h < size st ->
  c_m (count_naive st h) + c_cm (count_naive st h) = 2 ^ depth_of st h.
Proof.
  intros W. revert h. apply (handle_ind st _ W).
  - reflexivity.
  - reflexivity.
  - intros h H2 Hs IHl IHh.
    pose proof (count_naive_paths_depth st _ W (proj1 (proj2 (proj2 (child_lt st h W H2 Hs))))) as (_ & _ & Dl).
    pose proof (count_naive_paths_depth st _ W (proj2 (proj2 (proj2 (child_lt st h W H2 Hs))))) as (_ & _ & Dh).
    rewrite count_naive_node, depth_of_node by assumption.
    rewrite combine_m, combine_cm, Dl, Dh.
    set (dl := depth_of st (nlo (get_node st h))) in *.
    set (dh := depth_of st (nhi (get_node st h))) in *.
    set (D := N.max dl dh).
    rewrite N.add_1_r, N.pow_succ_r'.
    assert (El : 2 ^ D = 2 ^ dl * 2 ^ (D - dl)) by (apply pow2_split; lia).
    assert (Eh : 2 ^ D = 2 ^ dh * 2 ^ (D - dh)) by (apply pow2_split; lia).
    rewrite <- IHl in El. rewrite <- IHh in Eh. lia.
Qed.

(** * assignments and satisfaction counts *)
Fixpoint asgs (from : N) (n : nat) : list asg :=
  match n with
  | O => [fun _ => false]
  | S n' => map (fun a => upd a from false) (asgs (from + 1) n') ++
            map (fun a => upd a from true) (asgs (from + 1) n')
  end.

(** all assignments of the variables 0..k-1 (every other variable is false) *)
Definition assignments (k : N) : list asg := asgs 0 (N.to_nat k).

Definition cnt_sat (f : bfun) (from : N) (n : nat) : N := N.of_nat (length (filter f (asgs from n))).

Definition nsat (st : store) (h : N) (k : N) : N :=
  N.of_nat (length (filter (den st h) (assignments k))).

Lemma nsat_cnt_sat st h k : nsat st h k = cnt_sat (den st h) 0 (N.to_nat k).
Proof. reflexivity. Qed.

Lemma asgs_length from n : N.of_nat (length (asgs from n)) = 2 ^ N.of_nat n.
Proof.
  revert from. induction n as [|n IH]; intros from; [reflexivity|].
  cbn [asgs]. rewrite app_length, !map_length, Nat2N.inj_add, IH, Nat2N.inj_succ, N.pow_succ_r'. lia.
Qed.

Lemma assignments_length k : N.of_nat (length (assignments k)) = 2 ^ k.
Proof. unfold assignments. rewrite asgs_length, N2Nat.id. reflexivity. Qed.

Lemma filter_map_length {X Y} (f : Y -> bool) (g : X -> Y) l :
  length (filter f (map g l)) = length (filter (fun x => f (g x)) l).
Proof.
  induction l as [|x l IH]; [reflexivity|]. cbn [map filter].
  destruct (f (g x)); cbn [length]; rewrite IH; reflexivity.
Qed.

Lemma cnt_sat_S f from n :
  cnt_sat f from (S n) = cnt_sat (cofactor f from false) (from + 1) n + cnt_sat (cofactor f from true) (from + 1) n.
Proof.
  unfold cnt_sat. cbn [asgs]. rewrite filter_app, app_length, !filter_map_length, Nat2N.inj_add.
  reflexivity.
Qed.

Lemma cnt_sat_ext f g from n : (forall a, f a = g a) -> cnt_sat f from n = cnt_sat g from n.
Proof. intros E. unfold cnt_sat. rewrite (filter_ext f g E). reflexivity. Qed.

Lemma cnt_sat_true f from n : (forall a, f a = true) -> cnt_sat f from n = 2 ^ N.of_nat n.
Proof.
  intros E. rewrite <- (asgs_length from n). unfold cnt_sat. f_equal. f_equal.
  induction (asgs from n) as [|x l IH]; [reflexivity|]. cbn [filter]. rewrite E, IH. reflexivity.
Qed.

Lemma cnt_sat_false f from n : (forall a, f a = false) -> cnt_sat f from n = 0.
Proof.
  intros E. unfold cnt_sat.
  induction (asgs from n) as [|x l IH]; [reflexivity|]. cbn [filter]. rewrite E, IH. reflexivity.
Qed.

Lemma cnt_sat_le f from n : cnt_sat f from n <= 2 ^ N.of_nat n.
Proof.
  rewrite <- (asgs_length from n). unfold cnt_sat.
  assert (H : (length (filter f (asgs from n)) <= length (asgs from n))%nat).
  { induction (asgs from n) as [|x l IH]; [apply le_n|]. cbn [filter].
    destruct (f x); cbn [length]; lia. }
  lia.
Qed.

(** every variable on a path from [h] is below [k] *)
Definition vars_below (st : store) (h : N) (k : N) : Prop :=
  forall p b, IsPath st h p b -> forall v x, In (v, x) p -> v < k.

Lemma vars_below_node st h k : WFN st -> 2 <= h -> h < size st -> vars_below st h k ->
  nv (get_node st h) < k /\ vars_below st (nlo (get_node st h)) k /\ vars_below st (nhi (get_node st h)) k.
Proof.
  intros W H2 Hs V. destruct (child_lt st h W H2 Hs) as (_ & _ & Hlos & Hhis).
  split; [|split].
  - destruct (path_exists st _ W Hlos) as (p & b & Hp).
    apply (V _ b (PathLo st h p b H2 Hs Hp) _ false). left. reflexivity.
  - intros p b Hp v x Hin. apply (V _ b (PathLo st h p b H2 Hs Hp) v x). right. exact Hin.
  - intros p b Hp v x Hin. apply (V _ b (PathHi st h p b H2 Hs Hp) v x). right. exact Hin.
Qed.

Lemma vars_below_terminal st h k : h <= 1 -> vars_below st h k.
Proof.
  intros Hh p b Hp v x Hin. assert (h = 0 \/ h = 1) as [-> | ->] by lia.
  - apply IsPath_0 in Hp. destruct Hp as [-> _]. destruct Hin.
  - apply IsPath_1 in Hp. destruct Hp as [-> _]. destruct Hin.
Qed.

Lemma vars_below_mono st h k k' : k <= k' -> vars_below st h k -> vars_below st h k'.
Proof. intros Hk V p b Hp v x Hin. specialize (V p b Hp v x Hin). lia. Qed.

(** the fraction of satisfying assignments is c_m / 2 ^ depth *)
Lemma sat_ratio st : WFN st -> forall h, h < size st -> forall n from,
  (2 <= h -> from <= topv st h) -> vars_below st h (from + N.of_nat n) ->
  cnt_sat (den st h) from n * 2 ^ depth_of st h = c_m (count_naive st h) * 2 ^ N.of_nat n.
Proof.
  intros W. apply (handle_ind st (fun h => forall n from,
    (2 <= h -> from <= topv st h) -> vars_below st h (from + N.of_nat n) ->
    cnt_sat (den st h) from n * 2 ^ depth_of st h = c_m (count_naive st h) * 2 ^ N.of_nat n) W).
  - intros n from _ _. rewrite cnt_sat_false by (intros a; apply den_0). reflexivity.
  - intros n from _ _. rewrite cnt_sat_true by (intros a; apply den_1).
    rewrite depth_of_1, count_naive_1. unfold cnt_top. cbn [c_m]. rewrite N.pow_0_r. lia.
  - intros h H2 Hs IHl IHh.
    destruct (child_lt st h W H2 Hs) as (Hlo & Hhi & Hlos & Hhis).
    destruct (wf_node' st h W H2 Hs) as (_ & _ & _ & _ & Hvl & Hvh).
    induction n as [|n IHn]; intros from Hfrom V.
    + exfalso. destruct (vars_below_node st h _ W H2 Hs V) as (Hv & _).
      specialize (Hfrom H2). unfold topv in Hfrom. lia.
    + destruct (vars_below_node st h _ W H2 Hs V) as (Hv & Vl & Vh).
      specialize (Hfrom H2). unfold topv in Hfrom.
      rewrite cnt_sat_S. rewrite Nat2N.inj_succ, N.pow_succ_r'.
      destruct (N.eq_dec from (nv (get_node st h))) as [Efrom|Nfrom].
      * (* the window starts at the node's variable: split into the two children *)
        rewrite (cnt_sat_ext (cofactor (den st h) from false) (den st (nlo (get_node st h))))
          by (intros a; unfold cofactor; rewrite Efrom; apply (den_cofactor_lo st W h a H2 Hs)).
        rewrite (cnt_sat_ext (cofactor (den st h) from true) (den st (nhi (get_node st h))))
          by (intros a; unfold cofactor; rewrite Efrom; apply (den_cofactor_hi st W h a H2 Hs)).
        assert (Vl' : vars_below st (nlo (get_node st h)) (from + 1 + N.of_nat n)).
        { apply (vars_below_mono st _ (from + N.of_nat (S n))); [lia|exact Vl]. }
        assert (Vh' : vars_below st (nhi (get_node st h)) (from + 1 + N.of_nat n)).
        { apply (vars_below_mono st _ (from + N.of_nat (S n))); [lia|exact Vh]. }
        assert (Fl : 2 <= nlo (get_node st h) -> from + 1 <= topv st (nlo (get_node st h))) by (unfold topv; lia).
        assert (Fh : 2 <= nhi (get_node st h) -> from + 1 <= topv st (nhi (get_node st h))) by (unfold topv; lia).
        pose proof (IHl n (from + 1) Fl Vl') as El.
        pose proof (IHh n (from + 1) Fh Vh') as Eh.
        pose proof (count_naive_paths_depth st _ W Hlos) as (_ & _ & Dl).
        pose proof (count_naive_paths_depth st _ W Hhis) as (_ & _ & Dh).
        rewrite count_naive_node, depth_of_node by assumption.
        rewrite combine_m, Dl, Dh.
        set (dl := depth_of st (nlo (get_node st h))) in *.
        set (dh := depth_of st (nhi (get_node st h))) in *.
        set (D := N.max dl dh).
        replace (D + 1) with (N.succ D) by lia. rewrite N.pow_succ_r'.
        assert (Pl : 2 ^ D = 2 ^ dl * 2 ^ (D - dl)) by (apply pow2_split; lia).
        assert (Ph : 2 ^ D = 2 ^ dh * 2 ^ (D - dh)) by (apply pow2_split; lia).
        set (Sl := cnt_sat (den st (nlo (get_node st h))) (from + 1) n) in *.
        set (Sh := cnt_sat (den st (nhi (get_node st h))) (from + 1) n) in *.
        set (ml := c_m (count_naive st (nlo (get_node st h)))) in *.
        set (mh := c_m (count_naive st (nhi (get_node st h)))) in *.
        set (T := 2 ^ N.of_nat n) in *.
        set (Bl := 2 ^ (D - dl)) in *. set (Bh := 2 ^ (D - dh)) in *.
        transitivity (2 * (Sl * 2 ^ D + Sh * 2 ^ D)); [lia|].
        rewrite Pl at 1. rewrite Ph.
        replace (Sl * (2 ^ dl * Bl)) with (Sl * 2 ^ dl * Bl) by lia.
        replace (Sh * (2 ^ dh * Bh)) with (Sh * 2 ^ dh * Bh) by lia.
        rewrite El, Eh. lia.
      * (* the window starts above the node's variable: the function ignores [from] *)
        assert (Hlt : from < nv (get_node st h)) by lia.
        rewrite (cnt_sat_ext (cofactor (den st h) from false) (den st h))
          by (intros a; unfold cofactor; apply (den_indep_below st W h a from false Hs Hlt)).
        rewrite (cnt_sat_ext (cofactor (den st h) from true) (den st h))
          by (intros a; unfold cofactor; apply (den_indep_below st W h a from true Hs Hlt)).
        assert (V' : vars_below st h (from + 1 + N.of_nat n)).
        { apply (vars_below_mono st _ (from + N.of_nat (S n))); [lia|exact V]. }
        assert (F' : 2 <= h -> from + 1 <= topv st h) by (unfold topv; lia).
        pose proof (IHn (from + 1) F' V') as E.
        lia.
Qed.

Theorem count_naive_exact st h : WFN st -> h < size st ->
  let r := count_naive st h in
  c_pcm r = npaths st h false /\ c_pm r = npaths st h true /\ c_dp r = depth_of st h /\
  forall k, vars_below st h k -> depth_of st h <= k ->
    c_m r * 2 ^ (k - depth_of st h) = nsat st h k /\
    c_cm r * 2 ^ (k - depth_of st h) = 2 ^ k - nsat st h k.
Proof.
  intros W Hs r. destruct (count_naive_paths_depth st h W Hs) as (A1 & A2 & A3).
  split; [exact A1|]. split; [exact A2|]. split; [exact A3|].
  intros k V Hd.
  assert (V' : vars_below st h (0 + N.of_nat (N.to_nat k))) by (rewrite N2Nat.id; exact V).
  assert (F : 2 <= h -> 0 <= topv st h) by lia.
  pose proof (sat_ratio st W h Hs (N.to_nat k) 0 F V') as E.
  rewrite N2Nat.id in E. rewrite <- nsat_cnt_sat in E.
  pose proof (count_naive_sum st h W Hs) as S.
  pose proof (pow2_split k (depth_of st h) Hd) as P.
  pose proof (pow2_pos (depth_of st h)) as Pp.
  fold r in E, S.
  assert (M : c_m r * 2 ^ (k - depth_of st h) = nsat st h k).
  { apply (N.mul_cancel_r _ _ (2 ^ depth_of st h)); [lia|]. rewrite E, P. lia. }
  split; [exact M|].
  assert (T : (c_m r + c_cm r) * 2 ^ (k - depth_of st h) = 2 ^ k) by (rewrite S, P; reflexivity).
  lia.
Qed.

(** * the invariant of the counts table *)
Definition cnt_exact (c : cfg) (st : store) (h : N) (r : cnt) : Prop :=
  c_pcm r = npaths st h false /\ c_pm r = npaths st h true /\ c_dp r = depth_of st h /\
  (adhoc c <> 1 -> c_cm r = c_cm (count_naive st h) /\ c_m r = c_m (count_naive st h)).

Definition CntOK (c : cfg) (st : store) : Prop :=
  (1 <= adhoc c -> forall h, h < size st -> NM.find h (counts st) <> None) /\
  forall h r, h < size st -> NM.find h (counts st) = Some r ->
     c_pcm r = npaths st h false /\ c_pm r = npaths st h true /\ c_dp r = depth_of st h /\
     (adhoc c <> 1 -> c_cm r = c_cm (count_naive st h) /\ c_m r = c_m (count_naive st h)).

(** no entries for handles that do not exist yet (needed for the inductiveness of [CntOK]
    in the build without ad-hoc counting, where [mk_node] does not overwrite the entry) *)
Definition CntDom (st : store) : Prop := forall h, NM.find h (counts st) <> None -> h < size st.

Definition CntInv (c : cfg) (st : store) : Prop := CntOK c st /\ CntDom st.

Lemma npaths_extends st st' : WFN st -> extends st st' -> forall h b, h < size st ->
  npaths st' h b = npaths st h b.
Proof. intros W E h b Hs. unfold npaths, all_paths. rewrite (hval_extends _ _ _ st st' W E h Hs). reflexivity. Qed.
Lemma depth_of_extends st st' : WFN st -> extends st st' -> forall h, h < size st ->
  depth_of st' h = depth_of st h.
Proof. intros W E h Hs. unfold depth_of. apply hval_extends; assumption. Qed.
Lemma npaths_nodes_eq st st' : nodes st' = nodes st -> forall h b, npaths st' h b = npaths st h b.
Proof. intros En h b. unfold npaths, all_paths. rewrite (hval_nodes_eq _ _ _ st st' En h). reflexivity. Qed.
Lemma depth_of_nodes_eq st st' : nodes st' = nodes st -> forall h, depth_of st' h = depth_of st h.
Proof. intros En h. unfold depth_of. apply hval_nodes_eq. exact En. Qed.

Lemma cnt_exact_extends c st st' h r : WFN st -> extends st st' -> h < size st ->
  cnt_exact c st h r -> cnt_exact c st' h r.
Proof.
  intros W E Hs (A1 & A2 & A3 & A4). unfold cnt_exact.
  rewrite !(npaths_extends st st' W E h _ Hs), (depth_of_extends st st' W E h Hs),
    (count_naive_extends st st' W E h Hs). repeat split; try assumption; apply A4; assumption.
Qed.

Lemma cnt_exact_nodes_eq c st st' h r : nodes st' = nodes st ->
  cnt_exact c st h r -> cnt_exact c st' h r.
Proof.
  intros En (A1 & A2 & A3 & A4). unfold cnt_exact.
  rewrite !(npaths_nodes_eq st st' En), (depth_of_nodes_eq st st' En), (count_naive_nodes_eq st st' En).
  repeat split; try assumption; apply A4; assumption.
Qed.

Lemma cnt_exact_bot c st : cnt_exact c st 0 cnt_bot.
Proof. repeat split. Qed.
Lemma cnt_exact_top c st : cnt_exact c st 1 cnt_top.
Proof. repeat split. Qed.

Lemma CntOK_nodes_eq c st st' : nodes st' = nodes st -> size st' = size st -> counts st' = counts st ->
  CntOK c st -> CntOK c st'.
Proof.
  intros En Es Ec (C1 & C2). split.
  - intros Ha h Hh. rewrite Ec. apply C1; [exact Ha|]. rewrite <- Es. exact Hh.
  - intros h r Hh F. rewrite Ec in F. rewrite Es in Hh.
    apply (cnt_exact_nodes_eq c st st' h r En). apply (C2 h r Hh F).
Qed.

Lemma CntInv_nodes_eq c st st' : nodes st' = nodes st -> size st' = size st -> counts st' = counts st ->
  CntInv c st -> CntInv c st'.
Proof.
  intros En Es Ec (C & D). split; [apply (CntOK_nodes_eq c st st'); assumption|].
  intros h F. rewrite Ec in F. rewrite Es. apply D, F.
Qed.

Lemma init_cntok c : CntOK c (init c).
Proof.
  split.
  - intros Ha h Hh. unfold init in *. cbn [counts size] in *.
    destruct (N.leb_spec 1 (adhoc c)) as [_|Hlt]; [|lia].
    rewrite !nm_find_add. destruct (N.eqb_spec 0 h); [discriminate|].
    destruct (N.eqb_spec 1 h); [discriminate|]. lia.
  - intros h r Hh F. unfold init in Hh, F. cbn [counts size] in Hh, F.
    assert (h = 0 \/ h = 1) as [-> | ->] by lia.
    + destruct (1 <=? adhoc c); [|rewrite nm_find_empty in F; discriminate F].
      rewrite !nm_find_add in F. cbn in F. inversion F; subst r. apply (cnt_exact_bot c).
    + destruct (1 <=? adhoc c); [|rewrite nm_find_empty in F; discriminate F].
      rewrite !nm_find_add in F. cbn in F. inversion F; subst r. apply (cnt_exact_top c).
Qed.

Lemma init_cntdom c : CntDom (init c).
Proof.
  intros h F. unfold init in *. cbn [counts size] in *.
  destruct (1 <=? adhoc c); [|rewrite nm_find_empty in F; congruence].
  rewrite !nm_find_add, nm_find_empty in F.
  destruct (N.eqb_spec 0 h); [lia|]. destruct (N.eqb_spec 1 h); [lia|]. congruence.
Qed.

Lemma init_cntinv c : CntInv c (init c).
Proof. split; [apply init_cntok|apply init_cntdom]. Qed.

(** ** the entry of a node from the entries of its children *)
Lemma combine_exact c st h cl ch : WFN st -> 2 <= h -> h < size st ->
  cnt_exact c st (nlo (get_node st h)) cl -> cnt_exact c st (nhi (get_node st h)) ch ->
  cnt_exact c st h (combine_cnt cl ch).
Proof.
  intros W H2 Hs (A1 & A2 & A3 & A4) (B1 & B2 & B3 & B4).
  destruct (child_lt st h W H2 Hs) as (_ & _ & Hlos & Hhis).
  pose proof (count_naive_paths_depth st _ W Hlos) as (_ & _ & Dl).
  pose proof (count_naive_paths_depth st _ W Hhis) as (_ & _ & Dh).
  unfold cnt_exact.
  rewrite (npaths_node st h false), (npaths_node st h true), depth_of_node, count_naive_node by assumption.
  rewrite combine_pcm, combine_pm, combine_dp, A1, A2, A3, B1, B2, B3.
  split; [reflexivity|]. split; [reflexivity|]. split; [reflexivity|].
  intros Ha. destruct (A4 Ha) as (A5 & A6). destruct (B4 Ha) as (B5 & B6).
  rewrite !combine_cm, !combine_m, A3, B3, Dl, Dh, A5, A6, B5, B6. split; reflexivity.
Qed.

Lemma node_cnt_combine c cl ch : adhoc c = 2 -> node_cnt c cl ch = combine_cnt cl ch.
Proof.
  intros Ha. unfold node_cnt, combine_cnt. rewrite Ha, N.eqb_refl.
  destruct (c_dp ch <? c_dp cl); rewrite ?N.pow_0_r; reflexivity.
Qed.

Lemma node_cnt_exact c st h cl ch : WFN st -> 2 <= h -> h < size st -> 1 <= adhoc c -> adhoc c <= 2 ->
  cnt_exact c st (nlo (get_node st h)) cl -> cnt_exact c st (nhi (get_node st h)) ch ->
  cnt_exact c st h (node_cnt c cl ch).
Proof.
  intros W H2 Hs Ha1 Ha2 El Eh.
  destruct (N.eq_dec (adhoc c) 2) as [E2|N2].
  - rewrite (node_cnt_combine c cl ch E2). apply combine_exact; assumption.
  - assert (E1 : adhoc c = 1) by lia.
    destruct El as (A1 & A2 & A3 & _). destruct Eh as (B1 & B2 & B3 & _).
    unfold cnt_exact, node_cnt.
    destruct (N.eqb_spec (adhoc c) 2) as [|_]; [contradiction|]. cbn [c_pcm c_pm c_dp].
    rewrite (npaths_node st h false), (npaths_node st h true), depth_of_node by assumption.
    rewrite A1, A2, A3, B1, B2, B3.
    split; [reflexivity|]. split; [reflexivity|]. split; [reflexivity|].
    intros Hn. contradiction.
Qed.

(** ** [mk_node] *)
Lemma mk_node_counts c st v lo hi st' r :
  mk_node c st v lo hi = (st', r) -> lo <> hi -> TM.find (k3 v lo hi) (uniq st) = None ->
  counts st' = if 1 <=? adhoc c
               then NM.add (size st) (node_cnt c (get_cnt st lo) (get_cnt st hi)) (counts st)
               else counts st.
Proof.
  unfold mk_node. intros X Hne F.
  destruct (N.eqb_spec lo hi) as [|_]; [contradiction|]. rewrite F in X.
  destruct (varlist c); destruct (1 <=? adhoc c); inversion X; reflexivity.
Qed.

Lemma get_cnt_find c st h : CntOK c st -> 1 <= adhoc c -> h < size st ->
  NM.find h (counts st) = Some (get_cnt st h) /\ cnt_exact c st h (get_cnt st h).
Proof.
  intros (C1 & C2) Ha Hh. unfold get_cnt. specialize (C1 Ha h Hh).
  destruct (NM.find h (counts st)) as [r|] eqn:F; [|congruence].
  split; [reflexivity|]. apply (C2 h r Hh F).
Qed.

Lemma mk_node_cntok c st v lo hi st' r :
  WF c st -> adhoc c <= 2 -> CntInv c st ->
  v < VBOT -> lo < size st -> hi < size st -> v < topv st lo -> v < topv st hi ->
  mk_node c st v lo hi = (st', r) -> CntInv c st'.
Proof.
  intros WFst Ha2 (C & D) Hv Hlo Hhi Hvl Hvh X. pose proof (wf_n c st WFst) as W.
  destruct (mk_node_cases c st v lo hi st' r X)
    as [(Heq & -> & ->) | [(Hne & F & ->) | (Hne & F & -> & HF)]]; [split; assumption|split; assumption|].
  pose proof (mk_node_counts c st v lo hi st' _ X Hne F) as Ec.
  destruct (mk_node_ok c st v lo hi st' _ WFst Hv Hlo Hhi Hvl Hvh X) as (WF' & E & _).
  pose proof (wf_n c st' WF') as W'.
  pose proof (fresh_size c st st' v lo hi HF) as Es.
  pose proof (fresh_get_t c st st' v lo hi HF) as Gt.
  pose proof (wf_size st W) as Hs2.
  destruct C as (C1 & C2).
  destruct (N.leb_spec 1 (adhoc c)) as [Ha1|Ha0].
  - (* the ad-hoc entry *)
    destruct (get_cnt_find c st lo (conj C1 C2) Ha1 Hlo) as (_ & Xl).
    destruct (get_cnt_find c st hi (conj C1 C2) Ha1 Hhi) as (_ & Xh).
    assert (Xt : cnt_exact c st' (size st) (node_cnt c (get_cnt st lo) (get_cnt st hi))).
    { apply node_cnt_exact; try assumption; try lia; rewrite Gt; cbn [nlo nhi].
      - apply (cnt_exact_extends c st st' lo _ W E Hlo Xl).
      - apply (cnt_exact_extends c st st' hi _ W E Hhi Xh). }
    split; [split|].
    + intros _ h Hh. rewrite Ec, nm_find_add. destruct (N.eqb_spec (size st) h) as [|Hn]; [discriminate|].
      apply C1; [exact Ha1|lia].
    + intros h r0 Hh Fh. rewrite Ec, nm_find_add in Fh.
      destruct (N.eqb_spec (size st) h) as [<-|Hn].
      * inversion Fh; subst r0. exact Xt.
      * assert (Hlt : h < size st) by lia.
        apply (cnt_exact_extends c st st' h r0 W E Hlt). apply (C2 h r0 Hlt Fh).
    + intros h Fh. rewrite Ec, nm_find_add in Fh. rewrite Es.
      destruct (N.eqb_spec (size st) h) as [He|Hn]; [lia|]. specialize (D h Fh). lia.
  - (* no ad-hoc counting: the table is untouched *)
    split; [split|].
    + intros Ha1. lia.
    + intros h r0 Hh Fh. rewrite Ec in Fh.
      assert (Hlt : h < size st) by (apply D; congruence).
      apply (cnt_exact_extends c st st' h r0 W E Hlt). apply (C2 h r0 Hlt Fh).
    + intros h Fh. rewrite Ec in Fh. rewrite Es. specialize (D h Fh). lia.
Qed.

(** * a frame principle: what [mk_node] preserves (under the preconditions of [mk_node_ok]) and
      the memo-table updates do not touch is preserved by [restrict_f], [ite_f] and programs *)
Section Frame.
  Variable c : cfg.
  Variable P : store -> Prop.
  Hypothesis P_mk : forall st v lo hi st' r, WF c st -> P st ->
    v < VBOT -> lo < size st -> hi < size st -> v < topv st lo -> v < topv st hi ->
    mk_node c st v lo hi = (st', r) -> P st'.
  Hypothesis P_resc : forall st k r, P st -> P (set_resc st k r).
  Hypothesis P_itec : forall st k r, P st -> P (set_itec st k r).

  Theorem restrict_f_frame : forall fuel st tree var b st' r, WF c st -> P st -> tree < size st ->
    restrict_f c fuel st tree var b = Some (st', r) -> P st'.
  Proof.
    induction fuel as [|f IH]; intros st tree var b st' r WFst Pst Ht X; [discriminate X|].
    pose proof (wf_n c st WFst) as W.
    cbn [restrict_f] in X.
    destruct (TM.find (k3 tree var (b2n b)) (resc st)) as [r0|] eqn:Fc.
    { inversion X; subst st' r0. exact Pst. }
    destruct (varlist c && negb (nset_mem var (get_vd st tree))).
    { inversion X; subst st' r. exact Pst. }
    destruct ((var <? nv (get_node st tree)) || (VBOT <=? nv (get_node st tree))) eqn:Eord.
    { inversion X; subst st' r. exact Pst. }
    apply orb_false_iff in Eord. destruct Eord as [Eo1 Eo2].
    apply N.ltb_ge in Eo1. apply N.leb_gt in Eo2.
    assert (H2 : 2 <= tree).
    { destruct (N.le_gt_cases tree 1) as [Hterm|Hnt]; [|lia].
      pose proof (nv_terminal st tree W Hterm). lia. }
    destruct (wf_node' st tree W H2 Ht) as (Hvb & _ & Hlo & Hhi & Hvl & Hvh).
    destruct (nv (get_node st tree) <? var).
    - apply obind_inv in X. destruct X as ([st1 lo'] & X1 & X).
      apply obind_inv in X. destruct X as ([st2 hi'] & X2 & X).
      destruct (mk_node c st2 (nv (get_node st tree)) lo' hi') as [st3 r3] eqn:M.
      inversion X; subst st' r3.
      assert (Hlos : nlo (get_node st tree) < size st) by lia.
      destruct (restrict_f_ok c f st _ var b st1 lo' WFst Hlos X1) as (WF1 & E1 & Hr1 & _ & T1 & _).
      assert (Hhis0 : nhi (get_node st tree) < size st) by lia.
      assert (Hhis : nhi (get_node st tree) < size st1) by (apply (extends_lt st st1 _ E1); lia).
      destruct (restrict_f_ok c f st1 _ var b st2 hi' WF1 Hhis X2) as (WF2 & E2 & Hr2 & _ & T2 & _).
      pose proof (IH st _ var b st1 lo' WFst Pst Hlos X1) as P1.
      pose proof (IH st1 _ var b st2 hi' WF1 P1 Hhis X2) as P2.
      assert (Hlo2 : lo' < size st2) by (apply (extends_lt st1 st2 lo' E2 Hr1)).
      assert (Tlo : nv (get_node st tree) < topv st2 lo').
      { rewrite (topv_extends st1 st2 lo' E2 Hr1). unfold topv in T1 at 1. lia. }
      assert (Thi : nv (get_node st tree) < topv st2 hi').
      { rewrite (topv_extends st st1 _ E1 Hhis0) in T2. unfold topv in T2 at 1. lia. }
      apply P_resc.
      apply (P_mk st2 _ lo' hi' st3 r WF2 P2 Hvb Hlo2 Hr2 Tlo Thi M).
    - apply obind_inv in X. destruct X as ([st1 r1] & X1 & X).
      inversion X; subst st' r1.
      assert (Hch : (if b then nhi (get_node st tree) else nlo (get_node st tree)) < size st)
        by (destruct b; lia).
      apply P_resc. apply (IH st _ var b st1 r WFst Pst Hch X1).
  Qed.

  Corollary restrict_frame st tree var b st' r : WF c st -> P st -> tree < size st ->
    restrict c st tree var b = Some (st', r) -> P st'.
  Proof. unfold restrict. apply restrict_f_frame. Qed.

  Lemma restrict_old_frame st0 st st' h m b r :
    extends st0 st -> WF c st -> P st -> h < size st0 ->
    restrict c st h m b = Some (st', r) -> P st'.
  Proof.
    intros E0 WFst Pst Hh X. apply (restrict_frame st h m b st' r WFst Pst); [|exact X].
    apply (extends_lt st0 st h E0 Hh).
  Qed.

  Theorem ite_f_frame : forall fuel st i t e st' r, WF c st -> P st ->
    i < size st -> t < size st -> e < size st ->
    ite_f c fuel st i t e = Some (st', r) -> P st'.
  Proof.
    induction fuel as [|f IH]; intros st i t e st' r WFst Pst Hi Ht He X; rewrite ite_f_unfold in X.
    { destruct (ite_early st i t e) as [r0|] eqn:EE; [|discriminate X].
      inversion X; subst st' r0. exact Pst. }
    destruct (ite_early st i t e) as [r0|] eqn:EE.
    { inversion X; subst st' r0. exact Pst. }
    pose proof (ite_early_none_nonterminal st i t e EE) as H2.
    pose proof (wf_n c st WFst) as W.
    unfold ite_step in X.
    fold (topv st i) in X. fold (topv st t) in X. fold (topv st e) in X.
    fold (min3 (topv st i) (topv st t) (topv st e)) in X.
    set (m := min3 (topv st i) (topv st t) (topv st e)) in *.
    assert (Hmi : m <= topv st i) by apply min3_le_1.
    assert (Hmt : m <= topv st t) by apply min3_le_2.
    assert (Hme : m <= topv st e) by apply min3_le_3.
    assert (Hm : m < VBOT) by (pose proof (topv_nonterminal st i W H2 Hi); lia).
    apply obind_inv in X. destruct X as ([s1 itop] & X1 & X).
    apply obind_inv in X. destruct X as ([s2 ttop] & X2 & X).
    apply obind_inv in X. destruct X as ([s3 etop] & X3 & X).
    apply obind_inv in X. destruct X as ([s4 ibot] & X4 & X).
    apply obind_inv in X. destruct X as ([s5 tbot] & X5 & X).
    apply obind_inv in X. destruct X as ([s6 ebot] & X6 & X).
    apply obind_inv in X. destruct X as ([s7 top_ite] & X7 & X).
    apply obind_inv in X. destruct X as ([s8 bot_ite] & X8 & X).
    destruct (mk_node c s8 m bot_ite top_ite) as [s9 r9] eqn:M.
    inversion X; subst st' r9. clear X.
    destruct (restrict_old c st st s1 i m true itop W (extends_refl st) WFst Hi Hm Hmi X1)
      as (WF1 & _ & E1 & _ & C1).
    pose proof (restrict_old_frame st st s1 i m true itop (extends_refl st) WFst Pst Hi X1) as P1.
    destruct (restrict_old c st s1 s2 t m true ttop W E1 WF1 Ht Hm Hmt X2)
      as (WF2 & E12 & E2 & _ & C2).
    pose proof (restrict_old_frame st s1 s2 t m true ttop E1 WF1 P1 Ht X2) as P2.
    destruct (restrict_old c st s2 s3 e m true etop W E2 WF2 He Hm Hme X3)
      as (WF3 & E23 & E3 & _ & C3).
    pose proof (restrict_old_frame st s2 s3 e m true etop E2 WF2 P2 He X3) as P3.
    destruct (restrict_old c st s3 s4 i m false ibot W E3 WF3 Hi Hm Hmi X4)
      as (WF4 & E34 & E4 & _ & C4).
    pose proof (restrict_old_frame st s3 s4 i m false ibot E3 WF3 P3 Hi X4) as P4.
    destruct (restrict_old c st s4 s5 t m false tbot W E4 WF4 Ht Hm Hmt X5)
      as (WF5 & E45 & E5 & _ & C5).
    pose proof (restrict_old_frame st s4 s5 t m false tbot E4 WF4 P4 Ht X5) as P5.
    destruct (restrict_old c st s5 s6 e m false ebot W E5 WF5 He Hm Hme X6)
      as (WF6 & E56 & E6 & _ & C6).
    pose proof (restrict_old_frame st s5 s6 e m false ebot E5 WF5 P5 He X6) as P6.
    pose proof (wf_n c s1 WF1) as W1. pose proof (wf_n c s2 WF2) as W2.
    pose proof (wf_n c s3 WF3) as W3. pose proof (wf_n c s4 WF4) as W4.
    pose proof (wf_n c s5 WF5) as W5. pose proof (wf_n c s6 WF6) as W6.
    assert (E16 : extends s1 s6).
    { apply (extends_trans s1 s2 s6 E12), (extends_trans s2 s3 s6 E23), (extends_trans s3 s4 s6 E34),
        (extends_trans s4 s5 s6 E45), E56. }
    assert (E26 : extends s2 s6).
    { apply (extends_trans s2 s3 s6 E23), (extends_trans s3 s4 s6 E34), (extends_trans s4 s5 s6 E45), E56. }
    assert (E36 : extends s3 s6).
    { apply (extends_trans s3 s4 s6 E34), (extends_trans s4 s5 s6 E45), E56. }
    assert (E46 : extends s4 s6) by (apply (extends_trans s4 s5 s6 E45), E56).
    pose proof (cof_handle_extends st s1 s6 i m true itop W1 E16 C1) as D1.
    pose proof (cof_handle_extends st s2 s6 t m true ttop W2 E26 C2) as D2.
    pose proof (cof_handle_extends st s3 s6 e m true etop W3 E36 C3) as D3.
    pose proof (cof_handle_extends st s4 s6 i m false ibot W4 E46 C4) as D4.
    pose proof (cof_handle_extends st s5 s6 t m false tbot W5 E56 C5) as D5.
    pose proof C6 as D6.
    destruct (ite_f_ok c f s6 itop ttop etop s7 top_ite WF6 (proj1 D1) (proj1 D2) (proj1 D3) X7) as (WF7 & S7).
    pose proof (IH s6 itop ttop etop s7 top_ite WF6 P6 (proj1 D1) (proj1 D2) (proj1 D3) X7) as P7.
    pose proof (ite_handle_of_spec st s6 s7 i t e m true itop ttop etop top_ite D1 D2 D3 S7) as HT.
    assert (E67 : extends s6 s7) by apply S7.
    pose proof (wf_n c s7 WF7) as W7.
    pose proof (cof_handle_extends st s6 s7 i m false ibot W6 E67 D4) as F4.
    pose proof (cof_handle_extends st s6 s7 t m false tbot W6 E67 D5) as F5.
    pose proof (cof_handle_extends st s6 s7 e m false ebot W6 E67 D6) as F6.
    destruct (ite_f_ok c f s7 ibot tbot ebot s8 bot_ite WF7 (proj1 F4) (proj1 F5) (proj1 F6) X8) as (WF8 & S8).
    pose proof (IH s7 ibot tbot ebot s8 bot_ite WF7 P7 (proj1 F4) (proj1 F5) (proj1 F6) X8) as P8.
    pose proof (ite_handle_of_spec st s7 s8 i t e m false ibot tbot ebot bot_ite F4 F5 F6 S8) as HB.
    assert (E78 : extends s7 s8) by apply S8.
    pose proof (ite_handle_extends st s7 s8 i t e m true top_ite W7 E78 HT) as HT8.
    destruct HT8 as (Hrt & Dt & Tt). destruct HB as (Hrb & Db & Tb).
    apply P_itec.
    apply (P_mk s8 m bot_ite top_ite s9 r WF8 P8 Hm Hrb Hrt Tb Tt M).
  Qed.

  Corollary ite_frame st i t e st' r : WF c st -> P st -> i < size st -> t < size st -> e < size st ->
    ite c st i t e = Some (st', r) -> P st'.
  Proof. unfold ite. apply ite_f_frame. Qed.

  Lemma run_op_frame st regs fs o st' regs' :
    State c st regs fs -> P st -> run_op c (st, regs) o = Some (st', regs') -> P st'.
  Proof.
    intros S Pst X. pose proof S as (WFst & _). pose proof (wf_n c st WFst) as W.
    pose proof (size_gt_0 c st WFst) as H0. pose proof (size_gt_1 c st WFst) as H1.
    destruct o as [v|b|a|a b|a b|a b|a b|a b|a v b]; cbn [run_op] in X.
    - destruct (N.leb_spec VBOT v) as [|Hv]; [discriminate X|].
      apply push_inv in X. destruct X as (r & X & ->). inversion X as [X']. unfold variable in X'.
      assert (T0 : v < topv st 0) by (rewrite (topv_0 st W); exact Hv).
      assert (T1 : v < topv st 1) by (rewrite (topv_1 st W); pose proof VBOT_lt_VTOP; lia).
      apply (P_mk st v 0 1 st' r WFst Pst Hv H0 H1 T0 T1 X').
    - apply push_inv in X. destruct X as (r & X & ->). inversion X; subst st' r. exact Pst.
    - apply push_inv in X. destruct X as (r & X & ->).
      destruct (reg_lookup c st regs fs a S) as (Ha & _).
      apply (ite_frame st _ 0 1 st' r WFst Pst Ha H0 H1 X).
    - apply push_inv in X. destruct X as (r & X & ->).
      destruct (reg_lookup c st regs fs a S) as (Ha & _). destruct (reg_lookup c st regs fs b S) as (Hb & _).
      apply (ite_frame st _ _ 0 st' r WFst Pst Ha Hb H0 X).
    - apply push_inv in X. destruct X as (r & X & ->).
      destruct (reg_lookup c st regs fs a S) as (Ha & _). destruct (reg_lookup c st regs fs b S) as (Hb & _).
      apply (ite_frame st _ 1 _ st' r WFst Pst Ha H1 Hb X).
    - apply push_inv in X. destruct X as (r & X & ->).
      destruct (reg_lookup c st regs fs a S) as (Ha & _). destruct (reg_lookup c st regs fs b S) as (Hb & _).
      apply (ite_frame st _ _ 1 st' r WFst Pst Ha Hb H1 X).
    - apply push_inv in X. destruct X as (r & X & ->).
      destruct (reg_lookup c st regs fs a S) as (Ha & _). destruct (reg_lookup c st regs fs b S) as (Hb & _).
      unfold biff in X. apply obind_inv in X. destruct X as ([s1 nb] & X1 & X).
      destruct (bnot_ok c st _ s1 nb WFst Hb X1) as (WF1 & E1 & Hnb & _).
      pose proof (ite_frame st _ 0 1 s1 nb WFst Pst Hb H0 H1 X1) as P1.
      apply (ite_frame s1 _ _ nb st' r WF1 P1 (extends_lt st s1 _ E1 Ha) (extends_lt st s1 _ E1 Hb) Hnb X).
    - apply push_inv in X. destruct X as (r & X & ->).
      destruct (reg_lookup c st regs fs a S) as (Ha & _). destruct (reg_lookup c st regs fs b S) as (Hb & _).
      unfold bxor in X. apply obind_inv in X. destruct X as ([s1 nb] & X1 & X).
      destruct (bnot_ok c st _ s1 nb WFst Hb X1) as (WF1 & E1 & Hnb & _).
      pose proof (ite_frame st _ 0 1 s1 nb WFst Pst Hb H0 H1 X1) as P1.
      apply (ite_frame s1 _ nb _ st' r WF1 P1 (extends_lt st s1 _ E1 Ha) Hnb (extends_lt st s1 _ E1 Hb) X).
    - apply push_inv in X. destruct X as (r & X & ->).
      destruct (reg_lookup c st regs fs a S) as (Ha & _).
      apply (restrict_frame st _ v b st' r WFst Pst Ha X).
  Qed.

  Lemma run_frame : forall p st regs fs st' regs',
    State c st regs fs -> P st -> run c (st, regs) p = Some (st', regs') -> P st'.
  Proof.
    induction p as [|o p IH]; intros st regs fs st' regs' S Pst X.
    - cbn in X. inversion X; subst. exact Pst.
    - cbn [run] in X. destruct (run_op c (st, regs) o) as [[st1 regs1]|] eqn:X1; [|discriminate X].
      apply (IH st1 regs1 (sem_op fs o) st' regs'); [|apply (run_op_frame st regs fs o st1 regs1 S Pst X1)|exact X].
      apply (run_op_ok c st regs fs o st1 regs1 S X1).
  Qed.

  Theorem reachable_frame p st regs : P (init c) -> run c (init c, []) p = Some (st, regs) -> P st.
  Proof. intros P0 X. apply (run_frame p (init c) [] [] st regs (init_state c) P0 X). Qed.
End Frame.

(** ** the counts invariant along the operations *)
Lemma set_resc_cntinv c st k r : CntInv c st -> CntInv c (set_resc st k r).
Proof. apply CntInv_nodes_eq; reflexivity. Qed.
Lemma set_itec_cntinv c st k r : CntInv c st -> CntInv c (set_itec st k r).
Proof. apply CntInv_nodes_eq; reflexivity. Qed.

Theorem restrict_f_cntok c fuel st tree var b st' r :
  adhoc c <= 2 -> WF c st -> CntInv c st -> tree < size st ->
  restrict_f c fuel st tree var b = Some (st', r) -> CntInv c st'.
Proof.
  intros Ha. apply (restrict_f_frame c (CntInv c)).
  - intros s v lo hi s' r0 WFs Ps. apply (mk_node_cntok c s v lo hi s' r0 WFs Ha Ps).
  - apply set_resc_cntinv.
Qed.

Theorem ite_f_cntok c fuel st i t e st' r :
  adhoc c <= 2 -> WF c st -> CntInv c st -> i < size st -> t < size st -> e < size st ->
  ite_f c fuel st i t e = Some (st', r) -> CntInv c st'.
Proof.
  intros Ha. apply (ite_f_frame c (CntInv c)).
  - intros s v lo hi s' r0 WFs Ps. apply (mk_node_cntok c s v lo hi s' r0 WFs Ha Ps).
  - apply set_resc_cntinv.
  - apply set_itec_cntinv.
Qed.

Theorem reachable_cntinv c p st regs : adhoc c <= 2 ->
  run c (init c, []) p = Some (st, regs) -> CntInv c st.
Proof.
  intros Ha. apply (reachable_frame c (CntInv c)).
  - intros s v lo hi s' r0 WFs Ps. apply (mk_node_cntok c s v lo hi s' r0 WFs Ha Ps).
  - apply set_resc_cntinv.
  - apply set_itec_cntinv.
  - apply init_cntinv.
Qed.

Theorem reachable_cntok c p st regs : adhoc c <= 2 ->
  run c (init c, []) p = Some (st, regs) -> CntOK c st.
Proof. intros Ha X. apply (reachable_cntinv c p st regs Ha X). Qed.

(** * [count_memo] (modelcount_memoization) *)
Definition same_but_counts (st st' : store) : Prop :=
  nodes st' = nodes st /\ size st' = size st /\ uniq st' = uniq st /\ vdeps st' = vdeps st /\
  vsize st' = vsize st /\ itec st' = itec st /\ resc st' = resc st /\ outq st' = outq st.

Lemma sbc_refl st : same_but_counts st st.
Proof. repeat split. Qed.
Lemma sbc_trans a b c : same_but_counts a b -> same_but_counts b c -> same_but_counts a c.
Proof.
  intros (A1 & A2 & A3 & A4 & A5 & A6 & A7 & A8) (B1 & B2 & B3 & B4 & B5 & B6 & B7 & B8).
  repeat split; congruence.
Qed.
Lemma sbc_set_counts st cs : same_but_counts st (set_counts st cs).
Proof. repeat split. Qed.

Lemma sbc_WFN st st' : same_but_counts st st' -> WFN st -> WFN st'.
Proof. intros (A1 & A2 & A3 & _). apply WFN_nodes_eq; assumption. Qed.

Lemma sbc_WF c st st' : same_but_counts st st' -> WF c st -> WF c st'.
Proof.
  intros (A1 & A2 & A3 & A4 & A5 & A6 & A7 & A8) [W R I V]. constructor.
  - apply (WFN_nodes_eq st st'); assumption.
  - apply (RescOK_nodes_eq st st'); assumption.
  - apply (ItecOK_nodes_eq st st'); assumption.
  - apply (VdOK_nodes_eq c st st'); assumption.
Qed.

Lemma count_memo_f_ok c : forall fuel st t st' r,
  WFN st -> CntOK c st -> t < size st -> (N.to_nat t < fuel)%nat ->
  count_memo_f fuel st t = (st', r) ->
  same_but_counts st st' /\ CntOK c st' /\ (CntDom st -> CntDom st') /\ cnt_exact c st t r.
Proof.
  induction fuel as [|f IH]; intros st t st' r W C Ht Hf X; [lia|].
  cbn [count_memo_f] in X.
  destruct (N.eqb_spec t 1) as [->|N1].
  { inversion X; subst st' r. split; [apply sbc_refl|]. split; [exact C|]. split; [auto|apply cnt_exact_top]. }
  destruct (N.eqb_spec t 0) as [->|N0].
  { inversion X; subst st' r. split; [apply sbc_refl|]. split; [exact C|]. split; [auto|apply cnt_exact_bot]. }
  destruct (NM.find t (counts st)) as [r0|] eqn:F.
  { inversion X; subst st' r0. split; [apply sbc_refl|]. split; [exact C|]. split; [auto|].
    apply (proj2 C t r Ht F). }
  assert (H2 : 2 <= t) by lia.
  destruct (child_lt st t W H2 Ht) as (Hlo & Hhi & Hlos & Hhis).
  destruct (count_memo_f f st (nlo (get_node st t))) as [s1 cl] eqn:X1.
  destruct (count_memo_f f s1 (nhi (get_node st t))) as [s2 ch] eqn:X2.
  inversion X; subst st' r. clear X.
  assert (Hf1 : (N.to_nat (nlo (get_node st t)) < f)%nat) by lia.
  destruct (IH st _ s1 cl W C Hlos Hf1 X1) as (S1 & C1 & D1 & E1).
  pose proof (sbc_WFN st s1 S1 W) as W1.
  assert (Hhis1 : nhi (get_node st t) < size s1) by (rewrite (proj1 (proj2 S1)); exact Hhis).
  assert (Hf2 : (N.to_nat (nhi (get_node st t)) < f)%nat) by lia.
  destruct (IH s1 _ s2 ch W1 C1 Hhis1 Hf2 X2) as (S2 & C2 & D2 & E2).
  pose proof (sbc_trans st s1 s2 S1 S2) as S12.
  assert (En1 : nodes st = nodes s1) by (symmetry; apply S1).
  assert (En2 : nodes s2 = nodes st) by apply S12.
  assert (Es2 : size s2 = size st) by apply S12.
  assert (Et : cnt_exact c st t (combine_cnt cl ch)).
  { apply combine_exact; try assumption. apply (cnt_exact_nodes_eq c s1 st _ ch En1 E2). }
  split; [apply (sbc_trans st s2 _ S12), sbc_set_counts|].
  split; [|split; [|exact Et]].
  - destruct C2 as (C2a & C2b). split.
    + intros Ha h Hh. cbn [set_counts counts size] in *. rewrite nm_find_add.
      destruct (N.eqb_spec t h); [discriminate|]. apply C2a; assumption.
    + intros h r Hh Fh. cbn [set_counts counts size] in *. rewrite nm_find_add in Fh.
      apply (cnt_exact_nodes_eq c s2 _ h r); [reflexivity|].
      destruct (N.eqb_spec t h) as [He|Hn].
      * subst h. inversion Fh; subst r. apply (cnt_exact_nodes_eq c st s2 _ _ En2 Et).
      * apply (C2b h r Hh Fh).
  - intros D h Fh. cbn [set_counts counts size] in *. rewrite nm_find_add in Fh.
    destruct (N.eqb_spec t h) as [He|Hn]; [lia|]. apply (D2 (D1 D) h Fh).
Qed.

Lemma count_memo_ok c st t st' r :
  WF c st -> CntOK c st -> t < size st -> count_memo st t = (st', r) ->
  WF c st' /\ same_but_counts st st' /\ CntOK c st' /\ (CntDom st -> CntDom st') /\
  c_pcm r = npaths st t false /\ c_pm r = npaths st t true /\ c_dp r = depth_of st t /\
  (adhoc c <> 1 -> c_cm r = c_cm (count_naive st t) /\ c_m r = c_m (count_naive st t)).
Proof.
  intros WFst C Ht X. unfold count_memo in X.
  assert (Hf : (N.to_nat t < S (N.to_nat t))%nat) by lia.
  destruct (count_memo_f_ok c _ st t st' r (wf_n c st WFst) C Ht Hf X) as (S & C' & D' & E).
  split; [apply (sbc_WF c st st' S WFst)|]. split; [exact S|]. split; [exact C'|]. split; [exact D'|exact E].
Qed.

(** * exactness of the public queries *)
Theorem paths_exact c st h memo : WF c st -> CntOK c st -> h < size st ->
  snd (paths c st h memo) = (npaths st h false, npaths st h true).
Proof.
  intros WFst C Hh. pose proof (wf_n c st WFst) as W. unfold paths.
  destruct (N.leb_spec 1 (adhoc c)) as [Ha|Ha].
  - destruct (get_cnt_find c st h C Ha Hh) as (_ & (A1 & A2 & _)). cbn [snd]. rewrite A1, A2. reflexivity.
  - destruct memo.
    + destruct (count_memo st h) as [s r] eqn:X.
      destruct (count_memo_ok c st h s r WFst C Hh X) as (_ & _ & _ & _ & A1 & A2 & _).
      cbn [snd]. rewrite A1, A2. reflexivity.
    + destruct (count_naive_paths_depth st h W Hh) as (A1 & A2 & _). cbn [snd]. rewrite A1, A2. reflexivity.
Qed.

Lemma depth_fallback_exact c st : WFN st -> CntOK c st -> forall h, h < size st ->
  forall fuel, (N.to_nat h < fuel)%nat -> depth_fallback_f 1 fuel st h = depth_of st h.
Proof.
  intros W C.
  apply (handle_ind st (fun h => forall fuel, (N.to_nat h < fuel)%nat ->
           depth_fallback_f 1 fuel st h = depth_of st h) W).
  - intros [|f] Hf; [lia|]. cbn [depth_fallback_f].
    destruct (NM.find 0 (counts st)) as [r|] eqn:F; [|reflexivity].
    apply (proj2 C 0 r); [pose proof (wf_size st W); lia|exact F].
  - intros [|f] Hf; [lia|]. cbn [depth_fallback_f].
    destruct (NM.find 1 (counts st)) as [r|] eqn:F; [|reflexivity].
    apply (proj2 C 1 r); [pose proof (wf_size st W); lia|exact F].
  - intros h H2 Hs IHl IHh [|f] Hf; [lia|]. cbn [depth_fallback_f].
    destruct (NM.find h (counts st)) as [r|] eqn:F.
    + apply (proj2 C h r Hs F).
    + unfold is_tv. destruct (N.leb_spec h 1) as [|_]; [lia|].
      destruct (child_lt st h W H2 Hs) as (Hlo & Hhi & _).
      rewrite IHl, IHh by lia. rewrite (depth_of_node st h) by assumption. lia.
Qed.

Theorem depth_exact c st h : WF c st -> CntOK c st -> h < size st -> max_depth c st h = depth_of st h.
Proof.
  intros WFst C Hh. pose proof (wf_n c st WFst) as W. unfold max_depth.
  destruct (N.leb_spec 1 (adhoc c)) as [Ha|Ha].
  - destruct (get_cnt_find c st h C Ha Hh) as (_ & (_ & _ & A3 & _)). exact A3.
  - unfold DEPTH_PLUS. rewrite depth_fallback_counts_levels.
    apply (depth_fallback_exact c st W C h Hh). lia.
Qed.

Theorem models_exact c st h memo : WF c st -> CntOK c st -> h < size st -> (adhoc c = 1 -> memo = false) ->
  snd (models c st h memo) = (c_cm (count_naive st h), c_m (count_naive st h)).
Proof.
  intros WFst C Hh Hm. unfold models.
  destruct (N.eqb_spec (adhoc c) 2) as [Ha|Ha].
  - assert (Ha1 : 1 <= adhoc c) by lia. assert (Hn1 : adhoc c <> 1) by lia.
    destruct (get_cnt_find c st h C Ha1 Hh) as (_ & (_ & _ & _ & A4)).
    destruct (A4 Hn1) as (A5 & A6). cbn [snd]. rewrite A5, A6. reflexivity.
  - destruct memo; [|reflexivity].
    assert (Hn1 : adhoc c <> 1) by (intros E; specialize (Hm E); discriminate).
    destruct (count_memo st h) as [s r] eqn:X.
    destruct (count_memo_ok c st h s r WFst C Hh X) as (_ & _ & _ & _ & _ & _ & _ & A4).
    destruct (A4 Hn1) as (A5 & A6). cbn [snd]. rewrite A5, A6. reflexivity.
Qed.

(** the queries keep the invariants of the store they return *)
Lemma paths_keeps c st h memo : WF c st -> CntOK c st -> h < size st ->
  WF c (fst (paths c st h memo)) /\ CntOK c (fst (paths c st h memo)) /\
  same_but_counts st (fst (paths c st h memo)) /\ (CntDom st -> CntDom (fst (paths c st h memo))).
Proof.
  intros WFst C Hh. unfold paths.
  destruct (1 <=? adhoc c); [cbn [fst]; split; [|split; [|split]]; auto using sbc_refl|].
  destruct memo; [|cbn [fst]; split; [|split; [|split]]; auto using sbc_refl].
  destruct (count_memo st h) as [s r] eqn:X.
  destruct (count_memo_ok c st h s r WFst C Hh X) as (A1 & A2 & A3 & A4 & _). cbn [fst]. auto.
Qed.

Lemma models_keeps c st h memo : WF c st -> CntOK c st -> h < size st ->
  WF c (fst (models c st h memo)) /\ CntOK c (fst (models c st h memo)) /\
  same_but_counts st (fst (models c st h memo)) /\ (CntDom st -> CntDom (fst (models c st h memo))).
Proof.
  intros WFst C Hh. unfold models.
  destruct (adhoc c =? 2); [cbn [fst]; split; [|split; [|split]]; auto using sbc_refl|].
  destruct memo; [|cbn [fst]; split; [|split; [|split]]; auto using sbc_refl].
  destruct (count_memo st h) as [s r] eqn:X.
  destruct (count_memo_ok c st h s r WFst C Hh X) as (A1 & A2 & A3 & A4 & _). cbn [fst]. auto.
Qed.

(** * bounds: with depth at most 63 every field fits a 64-bit word *)
Lemma paths_le_pow st h : WFN st -> h < size st ->
  npaths st h false + npaths st h true <= 2 ^ depth_of st h.
Proof.
  intros W. revert h. apply (handle_ind st _ W).
  - rewrite !npaths_0, depth_of_0. cbn. lia.
  - rewrite !npaths_1, depth_of_1. cbn. lia.
  - intros h H2 Hs IHl IHh.
    rewrite (npaths_node st h false), (npaths_node st h true), depth_of_node by assumption.
    set (dl := depth_of st (nlo (get_node st h))) in *.
    set (dh := depth_of st (nhi (get_node st h))) in *.
    replace (N.max dl dh + 1) with (N.succ (N.max dl dh)) by lia. rewrite N.pow_succ_r'.
    assert (2 ^ dl <= 2 ^ N.max dl dh) by (apply N.pow_le_mono_r; lia).
    assert (2 ^ dh <= 2 ^ N.max dl dh) by (apply N.pow_le_mono_r; lia).
    lia.
Qed.

Lemma counts_bounded st h : WFN st -> h < size st -> depth_of st h <= 63 ->
  let r := count_naive st h in
  c_cm r < 2 ^ 64 /\ c_m r < 2 ^ 64 /\ c_pcm r < 2 ^ 64 /\ c_pm r < 2 ^ 64 /\ c_dp r < 2 ^ 64.
Proof.
  intros W Hs Hd r.
  destruct (count_naive_paths_depth st h W Hs) as (A1 & A2 & A3). fold r in A1, A2, A3.
  pose proof (count_naive_sum st h W Hs) as S. fold r in S.
  pose proof (paths_le_pow st h W Hs) as Pp.
  assert (Hp : 2 ^ depth_of st h <= 2 ^ 63) by (apply N.pow_le_mono_r; lia).
  assert (H64 : 2 ^ 63 < 2 ^ 64) by (apply N.pow_lt_mono_r; lia).
  rewrite A1, A2, A3. repeat split; lia.
Qed.

(** * [assignments k] enumerates the assignments of the variables 0..k-1 exactly once *)
Lemma nth_error_map_inv {X Y} (f : X -> Y) l i y :
  nth_error (map f l) i = Some y -> exists x, nth_error l i = Some x /\ y = f x.
Proof.
  rewrite nth_error_map. destruct (nth_error l i) as [x|]; cbn; [|discriminate].
  intros E. inversion E. eauto.
Qed.

Lemma asgs_complete from n (a : asg) :
  exists a', In a' (asgs from n) /\ forall v, from <= v < from + N.of_nat n -> a' v = a v.
Proof.
  revert from. induction n as [|n IH]; intros from.
  - exists (fun _ => false). split; [left; reflexivity|]. intros v Hv. lia.
  - destruct (IH (from + 1)) as (a' & Hin & Ha'). exists (upd a' from (a from)). split.
    + cbn [asgs]. apply in_or_app.
      destruct (a from); [right|left]; apply in_map_iff; exists a'; split; auto.
    + intros v Hv. unfold upd. destruct (N.eqb_spec v from) as [->|Hne]; [reflexivity|].
      apply Ha'. lia.
Qed.

Lemma asgs_distinct from n : forall i j a a', i <> j ->
  nth_error (asgs from n) i = Some a -> nth_error (asgs from n) j = Some a' ->
  exists v, from <= v < from + N.of_nat n /\ a v <> a' v.
Proof.
  revert from. induction n as [|n IH]; intros from i j a a' Hij Hi Hj.
  - exfalso. cbn [asgs] in Hi, Hj.
    destruct i as [|i]; [|destruct i; discriminate Hi].
    destruct j as [|j]; [|destruct j; discriminate Hj]. congruence.
  - cbn [asgs] in Hi, Hj.
    set (A := asgs (from + 1) n) in *.
    assert (Lm : forall b, length (map (fun a0 : asg => upd a0 from b) A) = length A)
      by (intros b; apply map_length).
    assert (Old : forall i j a0 a0' b b', i <> j -> nth_error A i = Some a0 -> nth_error A j = Some a0' ->
              exists v, from <= v < from + N.of_nat (S n) /\ upd a0 from b v <> upd a0' from b' v).
    { intros i0 j0 a0 a0' b b' Hne H1 H2. destruct (IH (from + 1) i0 j0 a0 a0' Hne H1 H2) as (v & Hv & Hd).
      exists v. split; [lia|]. rewrite !upd_neq by lia. exact Hd. }
    destruct (Nat.lt_ge_cases i (length A)) as [Hil|Hil];
      destruct (Nat.lt_ge_cases j (length A)) as [Hjl|Hjl].
    + rewrite nth_error_app1 in Hi, Hj by (rewrite Lm; assumption).
      apply nth_error_map_inv in Hi, Hj. destruct Hi as (a0 & Hi & ->). destruct Hj as (a0' & Hj & ->).
      apply (Old i j); assumption.
    + rewrite nth_error_app1 in Hi by (rewrite Lm; assumption).
      rewrite nth_error_app2 in Hj by (rewrite Lm; assumption).
      apply nth_error_map_inv in Hi, Hj. destruct Hi as (a0 & Hi & ->). destruct Hj as (a0' & Hj & ->).
      exists from. split; [lia|]. rewrite !upd_eq. discriminate.
    + rewrite nth_error_app2 in Hi by (rewrite Lm; assumption).
      rewrite nth_error_app1 in Hj by (rewrite Lm; assumption).
      apply nth_error_map_inv in Hi, Hj. destruct Hi as (a0 & Hi & ->). destruct Hj as (a0' & Hj & ->).
      exists from. split; [lia|]. rewrite !upd_eq. discriminate.
    + rewrite nth_error_app2 in Hi, Hj by (rewrite Lm; assumption). rewrite Lm in Hi, Hj.
      apply nth_error_map_inv in Hi, Hj. destruct Hi as (a0 & Hi & ->). destruct Hj as (a0' & Hj & ->).
      apply (Old (i - length A)%nat (j - length A)%nat); [lia|assumption|assumption].
Qed.

Theorem assignments_distinct k i j a a' : i <> j ->
  nth_error (assignments k) i = Some a -> nth_error (assignments k) j = Some a' ->
  exists v, v < k /\ a v <> a' v.
Proof.
  intros Hij Hi Hj. destruct (asgs_distinct 0 (N.to_nat k) i j a a' Hij Hi Hj) as (v & Hv & Hd).
  exists v. split; [lia|exact Hd].
Qed.

Theorem assignments_complete k (a : asg) :
  exists a', In a' (assignments k) /\ forall v, v < k -> a' v = a v.
Proof.
  destruct (asgs_complete 0 (N.to_nat k) a) as (a' & Hin & Ha'). exists a'. split; [exact Hin|].
  intros v Hv. apply Ha'. lia.
Qed.

Lemma nsat_le st h k : nsat st h k <= 2 ^ k.
Proof. rewrite nsat_cnt_sat. pose proof (cnt_sat_le (den st h) 0 (N.to_nat k)) as H. rewrite N2Nat.id in H. exact H. Qed.

(** * [fix_import]: the counts table of a re-imported store
      (Bdd::fix_import: with ad-hoc counting, the terminal entries are written and
      modelcount_memoization is run on every handle) *)
(** every existing entry is exact in all five fields *)
Definition CntFull (st : store) : Prop :=
  forall h r, h < size st -> NM.find h (counts st) = Some r -> cnt_exact (mkCfg 0 false) st h r.

Lemma CntFull_CntOK0 st : CntFull st <-> CntOK (mkCfg 0 false) st.
Proof.
  split.
  - intros F. split; [cbn [adhoc]; intros Ha; lia|exact F].
  - intros (_ & F). exact F.
Qed.

Lemma cnt_exact_any c st h r : cnt_exact (mkCfg 0 false) st h r -> cnt_exact c st h r.
Proof.
  intros (A1 & A2 & A3 & A4). repeat split; try assumption; apply A4; cbn [adhoc]; discriminate.
Qed.

Lemma count_memo_f_mono : forall fuel st t st' r, count_memo_f fuel st t = (st', r) ->
  forall h, NM.find h (counts st) <> None -> NM.find h (counts st') <> None.
Proof.
  induction fuel as [|f IH]; intros st t st' r X h Hh; cbn [count_memo_f] in X.
  { inversion X; subst; exact Hh. }
  destruct (t =? 1); [inversion X; subst; exact Hh|].
  destruct (t =? 0); [inversion X; subst; exact Hh|].
  destruct (NM.find t (counts st)); [inversion X; subst; exact Hh|].
  destruct (count_memo_f f st (nlo (get_node st t))) as [s1 cl] eqn:X1.
  destruct (count_memo_f f s1 (nhi (get_node st t))) as [s2 ch] eqn:X2.
  inversion X; subst st' r. cbn [set_counts counts]. rewrite nm_find_add.
  destruct (t =? h); [discriminate|]. apply (IH _ _ _ _ X2), (IH _ _ _ _ X1), Hh.
Qed.

Lemma count_memo_present st t : 2 <= t -> NM.find t (counts (fst (count_memo st t))) <> None.
Proof.
  intros H2. unfold count_memo. cbn [count_memo_f].
  destruct (N.eqb_spec t 1) as [|_]; [lia|]. destruct (N.eqb_spec t 0) as [|_]; [lia|].
  destruct (NM.find t (counts st)) eqn:F; [cbn [fst]; congruence|].
  destruct (count_memo_f (N.to_nat t) st (nlo (get_node st t))) as [s1 cl].
  destruct (count_memo_f (N.to_nat t) s1 (nhi (get_node st t))) as [s2 ch].
  cbn [fst set_counts counts]. rewrite nm_find_add, N.eqb_refl. discriminate.
Qed.

Lemma fold_memo_ok : forall (l : list nat) s, WFN s -> CntFull s -> CntDom s ->
  Forall (fun k => N.of_nat k < size s) l ->
  let s' := fold_left (fun s k => fst (count_memo s (N.of_nat k))) l s in
  same_but_counts s s' /\ CntFull s' /\ CntDom s' /\
  (forall h, NM.find h (counts s) <> None -> NM.find h (counts s') <> None) /\
  (forall k, In k l -> 2 <= N.of_nat k -> NM.find (N.of_nat k) (counts s') <> None).
Proof.
  induction l as [|k l IH]; intros s W F D Hl; cbn [fold_left].
  - split; [apply sbc_refl|]. split; [exact F|]. split; [exact D|]. split; [auto|intros k []].
  - inversion Hl as [|k' l' Hk Hl']; subst k' l'.
    destruct (count_memo s (N.of_nat k)) as [s1 r] eqn:X.
    unfold count_memo in X.
    assert (Hf : (N.to_nat (N.of_nat k) < S (N.to_nat (N.of_nat k)))%nat) by lia.
    destruct (count_memo_f_ok (mkCfg 0 false) _ s _ s1 r W (proj1 (CntFull_CntOK0 s) F) Hk Hf X)
      as (S1 & C1 & D1 & _).
    pose proof (count_memo_f_mono _ _ _ _ _ X) as M1.
    assert (P1 : 2 <= N.of_nat k -> NM.find (N.of_nat k) (counts s1) <> None).
    { intros H2. pose proof (count_memo_present s (N.of_nat k) H2) as Pk.
      unfold count_memo in Pk. rewrite X in Pk. exact Pk. }
    cbn [fst].
    assert (Hl1 : Forall (fun k0 => N.of_nat k0 < size s1) l).
    { rewrite (proj1 (proj2 S1)). exact Hl'. }
    destruct (IH s1 (sbc_WFN s s1 S1 W) (proj2 (CntFull_CntOK0 s1) C1) (D1 D) Hl1)
      as (S2 & F2 & D2 & M2 & P2).
    split; [apply (sbc_trans s s1 _ S1 S2)|]. split; [exact F2|]. split; [exact D2|].
    split; [intros h Hh; apply M2, M1, Hh|].
    intros k0 [<-|Hin] H2; [apply M2, P1, H2|apply (P2 k0 Hin H2)].
Qed.

Lemma gen_vardeps_frame c st :
  nodes (gen_vardeps c st) = nodes st /\ size (gen_vardeps c st) = size st /\
  uniq (gen_vardeps c st) = uniq st /\ counts (gen_vardeps c st) = counts st.
Proof.
  unfold gen_vardeps. destruct (varlist c); [|repeat split].
  match goal with |- context [fold_left ?f ?l ?a] => destruct (fold_left f l a) as [vd vs] end.
  repeat split.
Qed.

Theorem fix_import_cntok c st : WFN st -> CntFull st -> CntDom st ->
  let st' := fix_import c st in
  nodes st' = nodes st /\ size st' = size st /\ uniq st' = uniq st /\ WFN st' /\
  CntOK c st' /\ CntDom st'.
Proof.
  intros W F D st'. destruct (gen_vardeps_frame c st) as (Gn & Gs & Gu & Gc).
  pose proof (WFN_nodes_eq st (gen_vardeps c st) Gn Gs Gu W) as W1.
  assert (F1 : CntFull (gen_vardeps c st)).
  { intros h r Hh Fh. rewrite Gc in Fh. rewrite Gs in Hh.
    apply (cnt_exact_nodes_eq _ st _ h r Gn). apply (F h r Hh Fh). }
  assert (D1 : CntDom (gen_vardeps c st)).
  { intros h Fh. rewrite Gc in Fh. rewrite Gs. apply D, Fh. }
  unfold st', fix_import. destruct (N.leb_spec 1 (adhoc c)) as [Ha|Ha].
  - set (s1 := gen_vardeps c st) in *.
    set (s2 := set_counts s1 (NM.add 0 cnt_bot (NM.add 1 cnt_top (counts s1)))).
    pose proof (wf_size s1 W1) as Hs2.
    assert (W2 : WFN s2) by (apply (sbc_WFN s1 s2 (sbc_set_counts _ _) W1)).
    assert (F2 : CntFull s2).
    { intros h r Hh Fh. unfold s2 in Fh. cbn [set_counts counts] in Fh. rewrite !nm_find_add in Fh.
      apply (cnt_exact_nodes_eq _ s1 s2 h r eq_refl).
      destruct (N.eqb_spec 0 h) as [E0|N0]; [subst h; inversion Fh; apply cnt_exact_bot|].
      destruct (N.eqb_spec 1 h) as [E1|N1]; [subst h; inversion Fh; apply cnt_exact_top|].
      apply (F1 h r Hh Fh). }
    assert (D2 : CntDom s2).
    { intros h Fh. unfold s2 in Fh. cbn [set_counts counts] in Fh. rewrite !nm_find_add in Fh.
      change (size s2) with (size s1).
      destruct (N.eqb_spec 0 h) as [E0|N0]; [lia|]. destruct (N.eqb_spec 1 h) as [E1|N1]; [lia|].
      apply D1, Fh. }
    assert (Hl : Forall (fun k => N.of_nat k < size s2) (seq 0 (N.to_nat (size s2)))).
    { apply Forall_forall. intros k Hk. apply in_seq in Hk. lia. }
    destruct (fold_memo_ok _ s2 W2 F2 D2 Hl) as (S3 & F3 & D3 & M3 & P3).
    set (s3 := fold_left (fun s k => fst (count_memo s (N.of_nat k))) (seq 0 (N.to_nat (size s2))) s2) in *.
    destruct S3 as (Sn & Ss & Su & _).
    split; [rewrite Sn; exact Gn|]. split; [rewrite Ss; exact Gs|]. split; [rewrite Su; exact Gu|].
    split; [apply (WFN_nodes_eq s2 s3 Sn Ss Su W2)|]. split; [|exact D3].
    split.
    + intros _ h Hh. rewrite Ss in Hh.
      destruct (N.le_gt_cases 2 h) as [H2|H2].
      * rewrite <- (N2Nat.id h). apply P3; [|rewrite N2Nat.id; exact H2].
        apply in_seq. lia.
      * apply M3. unfold s2. cbn [set_counts counts]. rewrite !nm_find_add.
        destruct (N.eqb_spec 0 h); [discriminate|]. destruct (N.eqb_spec 1 h); [discriminate|]. lia.
    + intros h r Hh Fh. apply cnt_exact_any. apply (F3 h r Hh Fh).
  - split; [exact Gn|]. split; [exact Gs|]. split; [exact Gu|]. split; [exact W1|]. split; [|exact D1].
    split; [intros Ha1; lia|]. intros h r Hh Fh. apply cnt_exact_any. apply (F1 h r Hh Fh).
Qed.

(** a raw import has an empty counts table *)
Lemma import_raw_cntfull l : CntFull (import_raw l) /\ CntDom (import_raw l).
Proof.
  unfold import_raw.
  match goal with |- context [fold_left ?f ?l ?a] => destruct (fold_left f l a) as [[nm um] k] end.
  split.
  - intros h r _ F. cbn [counts] in F. rewrite nm_find_empty in F. discriminate F.
  - intros h F. cbn [counts] in F. rewrite nm_find_empty in F. congruence.
Qed.

(** * the hypotheses are inhabited: concrete stores *)
Definition ex_prog : list op := [OVar 0; OVar 1; OAnd 0 1; OVar 2; OOr 2 3; OXor 0 3].
(* registers: x0 = 2, x1 = 3, x0&x1 = 4, x2 = 5, (x0&x1)|x2 = 7, x0^x2 = 9; x1|x2 = 6, ~x2 = 8 *)
Definition ex_st (c : cfg) : store :=
  match run c (init c, []) ex_prog with Some (st, _) => st | None => init c end.

Lemma ex_run c : exists regs, run c (init c, []) ex_prog = Some (ex_st c, regs).
Proof.
  assert (V : Forall op_valid ex_prog) by (repeat constructor).
  destruct (run_total c ex_prog V) as (st & regs & X). exists regs. unfold ex_st. rewrite X. reflexivity.
Qed.

Lemma ex_wf c : WF c (ex_st c).
Proof. destruct (ex_run c) as (regs & X). apply (reachable_wf c ex_prog _ regs X). Qed.
Lemma ex_cntok c : adhoc c <= 2 -> CntOK c (ex_st c).
Proof. intros Ha. destruct (ex_run c) as (regs & X). apply (reachable_cntok c ex_prog _ regs Ha X). Qed.

Definition cfg_none : cfg := mkCfg 0 false.
Definition cfg_models : cfg := mkCfg 2 true.

Example ex_sizes : size (ex_st cfg_default) = 10 /\ size (ex_st cfg_none) = 10 /\ size (ex_st cfg_models) = 10.
Proof. vm_compute. repeat split. Qed.

(** x0 & x1 is handle 4: two paths to bottom, one to top; depth 2; 3 counter-models, 1 model *)
Example ex_all_paths :
  all_paths (ex_st cfg_default) 4 true = [[(0, true); (1, true)]] /\
  all_paths (ex_st cfg_default) 4 false = [[(0, false)]; [(0, true); (1, false)]] /\
  npaths (ex_st cfg_default) 4 false = 2 /\ npaths (ex_st cfg_default) 4 true = 1 /\
  depth_of (ex_st cfg_default) 4 = 2.
Proof. vm_compute. repeat split. Qed.

Example ex_count_naive :
  count_naive (ex_st cfg_default) 4 = mkC 3 1 2 1 2 /\
  nsat (ex_st cfg_default) 4 2 = 1 /\ nsat (ex_st cfg_default) 4 3 = 2 /\
  (* x0 ^ x2 skips x1: depth 2, counted over 3 variables *)
  count_naive (ex_st cfg_default) 9 = mkC 2 2 2 2 2 /\ nsat (ex_st cfg_default) 9 3 = 4 /\
  (* (x0&x1)|x2 *)
  count_naive (ex_st cfg_default) 7 = mkC 3 5 2 3 3 /\ nsat (ex_st cfg_default) 7 3 = 5.
Proof. vm_compute. repeat split. Qed.

Example ex_count_naive_exact :
  WFN (ex_st cfg_default) /\ 7 < size (ex_st cfg_default) /\
  vars_below (ex_st cfg_default) 7 3 /\ depth_of (ex_st cfg_default) 7 <= 3 /\
  c_m (count_naive (ex_st cfg_default) 7) * 2 ^ (3 - depth_of (ex_st cfg_default) 7) = nsat (ex_st cfg_default) 7 3.
Proof.
  pose proof (wf_n _ _ (ex_wf cfg_default)) as W.
  assert (Hs : 7 < size (ex_st cfg_default)) by (vm_compute; reflexivity).
  assert (V : vars_below (ex_st cfg_default) 7 3).
  { intros p b Hp v x Hin. apply (all_paths_spec _ _ _ W Hs) in Hp.
    assert (Et : all_paths (ex_st cfg_default) 7 true =
                 [[(0, false); (2, true)]; [(0, true); (1, false); (2, true)]; [(0, true); (1, true)]])
      by (vm_compute; reflexivity).
    assert (Ef : all_paths (ex_st cfg_default) 7 false =
                 [[(0, false); (2, false)]; [(0, true); (1, false); (2, false)]])
      by (vm_compute; reflexivity).
    destruct b; [rewrite Et in Hp|rewrite Ef in Hp]; cbn [In] in Hp;
      repeat (destruct Hp as [Hp|Hp];
              [subst p; cbn [In] in Hin;
               repeat (destruct Hin as [Hin|Hin]; [inversion Hin; subst; reflexivity|]); destruct Hin|]);
      destruct Hp. }
  assert (D : depth_of (ex_st cfg_default) 7 <= 3) by (vm_compute; discriminate).
  split; [exact W|]. split; [exact Hs|]. split; [exact V|]. split; [exact D|].
  destruct (count_naive_exact _ _ W Hs) as (_ & _ & _ & Hk). destruct (Hk 3 V D) as (M & _). exact M.
Qed.

Example ex_paths_depth_models :
  snd (paths cfg_default (ex_st cfg_default) 4 false) = (2, 1) /\
  snd (paths cfg_none (ex_st cfg_none) 4 true) = (2, 1) /\
  snd (paths cfg_none (ex_st cfg_none) 4 false) = (2, 1) /\
  max_depth cfg_default (ex_st cfg_default) 4 = 2 /\
  max_depth cfg_none (ex_st cfg_none) 7 = 3 /\
  max_depth cfg_none (fst (paths cfg_none (ex_st cfg_none) 6 true)) 7 = 3 /\
  snd (models cfg_default (ex_st cfg_default) 4 false) = (3, 1) /\
  snd (models cfg_models (ex_st cfg_models) 4 true) = (3, 1) /\
  snd (models cfg_none (ex_st cfg_none) 4 true) = (3, 1) /\
  snd (models cfg_none (ex_st cfg_none) 7 false) = (3, 5).
Proof. vm_compute. repeat split. Qed.

Example ex_exact_hyps c : adhoc c <= 2 ->
  WF c (ex_st c) /\ CntOK c (ex_st c) /\ (4 < size (ex_st c) -> forall memo,
    snd (paths c (ex_st c) 4 memo) = (npaths (ex_st c) 4 false, npaths (ex_st c) 4 true) /\
    max_depth c (ex_st c) 4 = depth_of (ex_st c) 4).
Proof.
  intros Ha. split; [apply ex_wf|]. split; [apply ex_cntok, Ha|]. intros Hs memo. split.
  - apply paths_exact; [apply ex_wf|apply ex_cntok, Ha|exact Hs].
  - apply depth_exact; [apply ex_wf|apply ex_cntok, Ha|exact Hs].
Qed.

(** the documented exception: with ad-hoc path counting only (adhoc = 1, the default build) the
    memoised model count reads the entries written by [mk_node], whose model fields are 0 *)
Example models_memo_adhoc1_refuted :
  ~ (forall c st h memo, WF c st -> CntOK c st -> h < size st ->
       snd (models c st h memo) = (c_cm (count_naive st h), c_m (count_naive st h))).
Proof.
  intros H.
  assert (Hs : 4 < size (ex_st cfg_default)) by (vm_compute; reflexivity).
  assert (Ha : adhoc cfg_default <= 2) by (vm_compute; discriminate).
  specialize (H cfg_default (ex_st cfg_default) 4 true (ex_wf _) (ex_cntok _ Ha) Hs).
  assert (E1 : snd (models cfg_default (ex_st cfg_default) 4 true) = (0, 0)) by (vm_compute; reflexivity).
  assert (E2 : count_naive (ex_st cfg_default) 4 = mkC 3 1 2 1 2) by (vm_compute; reflexivity).
  rewrite E1, E2 in H. discriminate H.
Qed.

(** [adhoc c <= 2] is needed for the invariant: a (meaningless) configuration value 3 behaves like
    1 in [mk_node] but is not excepted in [CntOK] *)
Example cntok_adhoc3_refuted : ~ CntOK (mkCfg 3 true) (ex_st (mkCfg 3 true)).
Proof.
  intros (_ & C).
  assert (Hs : 4 < size (ex_st (mkCfg 3 true))) by (vm_compute; reflexivity).
  assert (F : NM.find 4 (counts (ex_st (mkCfg 3 true))) = Some (mkC 0 0 2 1 2)) by (vm_compute; reflexivity).
  destruct (C 4 _ Hs F) as (_ & _ & _ & A). cbn [adhoc] in A.
  assert (N1 : 3 <> 1) by discriminate. destruct (A N1) as (A1 & _).
  assert (E2 : count_naive (ex_st (mkCfg 3 true)) 4 = mkC 3 1 2 1 2) by (vm_compute; reflexivity).
  rewrite E2 in A1. discriminate A1.
Qed.

Example ex_counts_bounded :
  depth_of (ex_st cfg_default) 7 <= 63 /\ c_m (count_naive (ex_st cfg_default) 7) < 2 ^ 64.
Proof. split; vm_compute; [discriminate|reflexivity]. Qed.

Example ex_count_memo :
  snd (count_memo (ex_st cfg_none) 7) = mkC 3 5 2 3 3 /\
  NM.find 7 (counts (ex_st cfg_none)) = None /\
  NM.find 7 (counts (fst (count_memo (ex_st cfg_none) 7))) = Some (mkC 3 5 2 3 3) /\
  NM.find 6 (counts (fst (count_memo (ex_st cfg_none) 7))) = Some (mkC 1 3 1 2 2).
Proof. vm_compute. repeat split. Qed.

(** all hypotheses of the exactness theorems hold in the example store, under the three builds *)
Example ex_exact_three c : In c [cfg_default; cfg_none; cfg_models] ->
  WF c (ex_st c) /\ CntOK c (ex_st c) /\ 7 < size (ex_st c) /\
  forall memo,
    snd (paths c (ex_st c) 7 memo) = (npaths (ex_st c) 7 false, npaths (ex_st c) 7 true) /\
    max_depth c (ex_st c) 7 = depth_of (ex_st c) 7 /\
    ((adhoc c = 1 -> memo = false) ->
     snd (models c (ex_st c) 7 memo) = (c_cm (count_naive (ex_st c) 7), c_m (count_naive (ex_st c) 7))).
Proof.
  intros Hc.
  assert (H : adhoc c <= 2 /\ 7 < size (ex_st c)).
  { cbn [In] in Hc. destruct Hc as [<-|[<-|[<-|[]]]]; split; vm_compute; (discriminate || reflexivity). }
  destruct H as (Ha & Hs). pose proof (ex_wf c) as WFc. pose proof (ex_cntok c Ha) as C.
  split; [exact WFc|]. split; [exact C|]. split; [exact Hs|]. intros memo.
  split; [apply paths_exact; assumption|]. split; [apply depth_exact; assumption|].
  intros Hm. apply models_exact; assumption.
Qed.

(** [CntDom] is needed for the inductiveness of [CntOK] without ad-hoc counting: a stale entry
    beyond the node table is allowed by [CntOK] and becomes wrong when the next node is created *)
Definition stale_st : store :=
  set_counts (init cfg_none) (NM.add 2 (mkC 7 7 7 7 7) (NM.empty cnt)).

Example cntok_needs_dom :
  WF cfg_none stale_st /\ CntOK cfg_none stale_st /\
  ~ CntOK cfg_none (fst (mk_node cfg_none stale_st 0 0 1)).
Proof.
  split; [|split].
  - apply (sbc_WF cfg_none (init cfg_none) stale_st); [apply sbc_set_counts|apply init_wf].
  - split.
    + cbn [adhoc cfg_none]. intros Ha. lia.
    + intros h r Hh F. exfalso. unfold stale_st in Hh, F. cbn [set_counts counts size init] in Hh, F.
      rewrite nm_find_add, nm_find_empty in F. destruct (N.eqb_spec 2 h) as [He|_]; [lia|discriminate F].
  - intros (_ & C).
    assert (Hs : 2 < size (fst (mk_node cfg_none stale_st 0 0 1))) by (vm_compute; reflexivity).
    assert (F : NM.find 2 (counts (fst (mk_node cfg_none stale_st 0 0 1))) = Some (mkC 7 7 7 7 7))
      by (vm_compute; reflexivity).
    destruct (C 2 _ Hs F) as (A1 & _).
    assert (E : npaths (fst (mk_node cfg_none stale_st 0 0 1)) 2 false = 1) by (vm_compute; reflexivity).
    rewrite E in A1. discriminate A1.
Qed.

(** a store exported as a node table, re-imported and repaired by [fix_import] *)
Example ex_fix_import :
  let st := fix_import cfg_default (import_raw (table_of (ex_st cfg_none))) in
  size st = 10 /\ NM.find 7 (counts st) = Some (mkC 3 5 2 3 3) /\
  snd (paths cfg_default st 7 false) = (2, 3) /\ max_depth cfg_default st 7 = 3.
Proof. vm_compute. repeat split. Qed.

Print Assumptions all_paths_spec.
Print Assumptions fix_import_cntok.
Print Assumptions ex_exact_three.
Print Assumptions cntok_needs_dom.
Print Assumptions depth_of_upper.
Print Assumptions depth_of_attained.
Print Assumptions count_naive_exact.
Print Assumptions assignments_distinct.
Print Assumptions assignments_complete.
Print Assumptions mk_node_cntok.
Print Assumptions restrict_f_cntok.
Print Assumptions ite_f_cntok.
Print Assumptions reachable_cntok.
Print Assumptions count_memo_ok.
Print Assumptions paths_exact.
Print Assumptions depth_exact.
Print Assumptions models_exact.
Print Assumptions paths_keeps.
Print Assumptions models_keeps.
Print Assumptions counts_bounded.
Print Assumptions models_memo_adhoc1_refuted.
Print Assumptions cntok_adhoc3_refuted.
