(** Independence of the cargo features (property C12).

    The function bodies of lib/src/obdd.rs are split by the cargo features [adhoccounting],
    [adhoccountmodels] and [variablelist]; the model takes them as a [cfg].  This file shows
    that the configuration is invisible:

    - Part A (semantic): the registers of a program denote the same functions in every
      configuration, two canonical diagrams of the same function are isomorphic, hence all
      diagram queries ([paths], [max_depth], [models], [var_dependencies]) agree;
    - Part B (simulation): node table, unique table and every returned handle are IDENTICAL
      in all configurations ([mk_node_sim], [restrict_sim], [ite_sim], [run_sim]);
    - Part C (the feature table, generated from Cargo.toml): the feature sets of the library
      map exactly onto the six configurations {0,1,2} x {false,true}. *)
From Coq Require Import NArith List Bool Lia ListSet.
From ADF Require Import Base.Maps Spec.Spec Bdd.Store Bdd.WF Bdd.Node Bdd.Restrict Bdd.Ite
  Bdd.IteTotal Bdd.Ops Bdd.Canon Bdd.Counts Bdd.Support Gen.GenFeatures.
Import ListNotations.
Local Open Scope N_scope.

(* ================================================================== *)
(** * Part A: the semantic version *)

(** ** registers denote the same functions in all configurations *)
Theorem run_cfg_den c1 c2 p s1 regs1 s2 regs2 :
  run c1 (init c1, []) p = Some (s1, regs1) -> run c2 (init c2, []) p = Some (s2, regs2) ->
  Forall2 (fun h1 h2 => feq (den s1 h1) (den s2 h2)) regs1 regs2.
Proof.
  intros X1 X2.
  pose proof (run_den c1 p s1 regs1 X1) as D1. pose proof (run_den c2 p s2 regs2 X2) as D2.
  clear X1 X2. revert regs2 D2. revert D1. generalize (sem p) as fs.
  intros fs D1. induction D1 as [|h1 f l1 fs' Hf _ IH]; intros regs2 D2.
  - inversion D2; subst. constructor.
  - inversion D2 as [|h2 f' l2 fs'' Hf2 D2']; subst. constructor.
    + intros a. rewrite Hf, Hf2. reflexivity.
    + apply IH. exact D2'.
Qed.

Corollary run_cfg_den_nth c1 c2 p s1 regs1 s2 regs2 k :
  run c1 (init c1, []) p = Some (s1, regs1) -> run c2 (init c2, []) p = Some (s2, regs2) ->
  reg regs1 k < size s1 /\ reg regs2 k < size s2 /\
  feq (den s1 (reg regs1 k)) (den s2 (reg regs2 k)).
Proof.
  intros X1 X2.
  destruct (run_den_nth c1 p s1 regs1 k X1) as (H1 & D1).
  destruct (run_den_nth c2 p s2 regs2 k X2) as (H2 & D2).
  split; [exact H1|]. split; [exact H2|]. intros a. rewrite D1, D2. reflexivity.
Qed.

Corollary run_cfg_length c1 c2 p s1 regs1 s2 regs2 :
  run c1 (init c1, []) p = Some (s1, regs1) -> run c2 (init c2, []) p = Some (s2, regs2) ->
  length regs1 = length regs2.
Proof.
  intros X1 X2. pose proof (run_cfg_den c1 c2 p s1 regs1 s2 regs2 X1 X2) as H.
  clear X1 X2. induction H as [|x y l l' _ _ IH]; cbn [length]; [reflexivity|rewrite IH; reflexivity].
Qed.

(** ** two canonical diagrams of the same function are isomorphic *)

(** the children of a node denote different functions *)
Lemma children_differ st h : WFN st -> 2 <= h -> h < size st ->
  ~ feq (den st (nlo (get_node st h))) (den st (nhi (get_node st h))).
Proof.
  intros W H2 Hs E. destruct (wf_node' st h W H2 Hs) as (_ & Hne & Hlo & Hhi & _).
  apply Hne. apply (canonicity st W); try lia. exact E.
Qed.

(** a node depends on its top variable *)
Lemma top_dependent st h : WFN st -> 2 <= h -> h < size st ->
  ~ (forall a b, den st h (upd a (nv (get_node st h)) b) = den st h a).
Proof.
  intros W H2 Hs I. apply (children_differ st h W H2 Hs). intros a.
  rewrite <- (den_cofactor_lo st W h a H2 Hs), <- (den_cofactor_hi st W h a H2 Hs).
  rewrite !I. reflexivity.
Qed.

Theorem iso_of_feq s1 s2 h1 h2 : WFN s1 -> WFN s2 -> h1 < size s1 -> h2 < size s2 ->
  feq (den s1 h1) (den s2 h2) ->
  (h1 <= 1 /\ h2 = h1) \/
  (2 <= h1 /\ 2 <= h2 /\ nv (get_node s1 h1) = nv (get_node s2 h2) /\
   feq (den s1 (nlo (get_node s1 h1))) (den s2 (nlo (get_node s2 h2))) /\
   feq (den s1 (nhi (get_node s1 h1))) (den s2 (nhi (get_node s2 h2)))).
Proof.
  intros W1 W2 Hs1 Hs2 E.
  destruct (N.eq_dec h1 0) as [->|N10].
  { left. split; [lia|]. apply (const_false_iff s2 h2 W2 Hs2). intros a. rewrite <- E. reflexivity. }
  destruct (N.eq_dec h1 1) as [->|N11].
  { left. split; [lia|]. apply (const_true_iff s2 h2 W2 Hs2). intros a. rewrite <- E. reflexivity. }
  destruct (N.eq_dec h2 0) as [->|N20].
  { exfalso. apply N10. apply (const_false_iff s1 h1 W1 Hs1). intros a. rewrite E. reflexivity. }
  destruct (N.eq_dec h2 1) as [->|N21].
  { exfalso. apply N11. apply (const_true_iff s1 h1 W1 Hs1). intros a. rewrite E. reflexivity. }
  right. assert (H21 : 2 <= h1) by lia. assert (H22 : 2 <= h2) by lia.
  split; [exact H21|]. split; [exact H22|].
  assert (Ev : nv (get_node s1 h1) = nv (get_node s2 h2)).
  { destruct (N.lt_trichotomy (nv (get_node s1 h1)) (nv (get_node s2 h2))) as [Hlt|[Heq|Hgt]]; [|exact Heq|].
    - exfalso. apply (top_dependent s1 h1 W1 H21 Hs1). intros a b.
      rewrite !E. apply (den_indep_below s2 W2 h2 a _ b Hs2 Hlt).
    - exfalso. apply (top_dependent s2 h2 W2 H22 Hs2). intros a b.
      rewrite <- !E. apply (den_indep_below s1 W1 h1 a _ b Hs1 Hgt). }
  split; [exact Ev|]. split; intros a.
  - rewrite <- (den_cofactor_lo s1 W1 h1 a H21 Hs1), <- (den_cofactor_lo s2 W2 h2 a H22 Hs2).
    rewrite Ev. apply E.
  - rewrite <- (den_cofactor_hi s1 W1 h1 a H21 Hs1), <- (den_cofactor_hi s2 W2 h2 a H22 Hs2).
    rewrite Ev. apply E.
Qed.

(** hence every quantity computed bottom-up from the shape agrees *)
Theorem iso_measures s1 s2 : WFN s1 -> WFN s2 ->
  forall h1, h1 < size s1 -> forall h2, h2 < size s2 -> feq (den s1 h1) (den s2 h2) ->
  (forall b, npaths s1 h1 b = npaths s2 h2 b) /\
  depth_of s1 h1 = depth_of s2 h2 /\
  count_naive s1 h1 = count_naive s2 h2.
Proof.
  intros W1 W2 h1. induction h1 as [h1 IH] using N_strong_ind. intros Hs1 h2 Hs2 E.
  destruct (iso_of_feq s1 s2 h1 h2 W1 W2 Hs1 Hs2 E) as [(Ht & ->)|(H21 & H22 & Ev & El & Eh)].
  - assert (h1 = 0 \/ h1 = 1) as [-> | ->] by lia.
    + split; [intros b; rewrite !npaths_0; reflexivity|]. split; reflexivity.
    + split; [intros b; rewrite !npaths_1; reflexivity|]. split; reflexivity.
  - destruct (child_lt s1 h1 W1 H21 Hs1) as (L1 & L2 & L3 & L4).
    destruct (child_lt s2 h2 W2 H22 Hs2) as (K1 & K2 & K3 & K4).
    destruct (IH _ L1 L3 _ K3 El) as (Pl & Dl & Cl).
    destruct (IH _ L2 L4 _ K4 Eh) as (Ph & Dh & Ch).
    split; [|split].
    + intros b. rewrite (npaths_node s1 h1 b W1 H21 Hs1), (npaths_node s2 h2 b W2 H22 Hs2).
      rewrite Pl, Ph. reflexivity.
    + rewrite (depth_of_node s1 h1 W1 H21 Hs1), (depth_of_node s2 h2 W2 H22 Hs2).
      rewrite Dl, Dh. reflexivity.
    + rewrite (count_naive_node s1 h1 W1 H21 Hs1), (count_naive_node s2 h2 W2 H22 Hs2).
      rewrite Cl, Ch. reflexivity.
Qed.

Lemma depends_feq f g v : feq f g -> (depends f v <-> depends g v).
Proof.
  intros E. unfold depends. split; intros (a & Ha); exists a.
  - rewrite <- !E. exact Ha.
  - rewrite !E. exact Ha.
Qed.

(** ** all diagram queries agree on handles that denote the same function,
       whatever the two configurations, stores and memoisation flags are.
       The only exception: memoised model counting in a configuration with ad-hoc path
       counting but without ad-hoc model counting ([adhoc = 1], e.g. the default build);
       see [models_memo_adhoc1_differs] below. *)
Theorem queries_cfg_independent c1 c2 s1 s2 h1 h2 m1 m2 :
  WF c1 s1 -> CntOK c1 s1 -> WF c2 s2 -> CntOK c2 s2 -> h1 < size s1 -> h2 < size s2 ->
  feq (den s1 h1) (den s2 h2) ->
  snd (paths c1 s1 h1 m1) = snd (paths c2 s2 h2 m2) /\
  max_depth c1 s1 h1 = max_depth c2 s2 h2 /\
  ((adhoc c1 = 1 -> m1 = false) -> (adhoc c2 = 1 -> m2 = false) ->
     snd (models c1 s1 h1 m1) = snd (models c2 s2 h2 m2)) /\
  (forall v, In v (var_dependencies c1 s1 h1) <-> In v (var_dependencies c2 s2 h2)).
Proof.
  intros WF1 C1 WF2 C2 Hs1 Hs2 E.
  pose proof (wf_n c1 s1 WF1) as W1. pose proof (wf_n c2 s2 WF2) as W2.
  destruct (iso_measures s1 s2 W1 W2 h1 Hs1 h2 Hs2 E) as (P & D & C).
  split; [|split; [|split]].
  - rewrite (paths_exact c1 s1 h1 m1 WF1 C1 Hs1), (paths_exact c2 s2 h2 m2 WF2 C2 Hs2).
    rewrite !P. reflexivity.
  - rewrite (depth_exact c1 s1 h1 WF1 C1 Hs1), (depth_exact c2 s2 h2 WF2 C2 Hs2). exact D.
  - intros M1 M2.
    rewrite (models_exact c1 s1 h1 m1 WF1 C1 Hs1 M1), (models_exact c2 s2 h2 m2 WF2 C2 Hs2 M2).
    rewrite C. reflexivity.
  - intros v. rewrite (deps_exact c1 s1 h1 v WF1 Hs1), (deps_exact c2 s2 h2 v WF2 Hs2).
    apply depends_feq. exact E.
Qed.

(** the same, for the registers of a program run under two configurations *)
Theorem run_queries_cfg_independent c1 c2 p s1 regs1 s2 regs2 k m1 m2 :
  adhoc c1 <= 2 -> adhoc c2 <= 2 ->
  run c1 (init c1, []) p = Some (s1, regs1) -> run c2 (init c2, []) p = Some (s2, regs2) ->
  snd (paths c1 s1 (reg regs1 k) m1) = snd (paths c2 s2 (reg regs2 k) m2) /\
  max_depth c1 s1 (reg regs1 k) = max_depth c2 s2 (reg regs2 k) /\
  ((adhoc c1 = 1 -> m1 = false) -> (adhoc c2 = 1 -> m2 = false) ->
     snd (models c1 s1 (reg regs1 k) m1) = snd (models c2 s2 (reg regs2 k) m2)) /\
  (forall v, In v (var_dependencies c1 s1 (reg regs1 k)) <-> In v (var_dependencies c2 s2 (reg regs2 k))).
Proof.
  intros A1 A2 X1 X2.
  destruct (run_cfg_den_nth c1 c2 p s1 regs1 s2 regs2 k X1 X2) as (H1 & H2 & E).
  apply queries_cfg_independent; try assumption.
  - apply (reachable_wf c1 p s1 regs1 X1).
  - apply (reachable_cntok c1 p s1 regs1 A1 X1).
  - apply (reachable_wf c2 p s2 regs2 X2).
  - apply (reachable_cntok c2 p s2 regs2 A2 X2).
Qed.

(** the documented exception is real: the same program, the same register, memoised model
    counting: the default build ([adhoc = 1]) answers (0,0), every other build (3,1) *)
Example models_memo_adhoc1_differs :
  exists p k, forall c, In c [mkCfg 0 false; mkCfg 0 true; mkCfg 2 false; mkCfg 2 true] ->
    match run cfg_default (init cfg_default, []) p, run c (init c, []) p with
    | Some (s1, regs1), Some (s2, regs2) =>
        snd (models cfg_default s1 (reg regs1 k) true) = (0, 0) /\
        snd (models c s2 (reg regs2 k) true) = (3, 1) /\
        snd (models cfg_default s1 (reg regs1 k) false) = (3, 1) /\
        snd (models c s2 (reg regs2 k) false) = (3, 1)
    | _, _ => False
    end.
Proof.
  exists ex_prog, 2%nat. intros c Hc.
  repeat (destruct Hc as [<-|Hc]; [vm_compute; repeat split|]). destruct Hc.
Qed.

(** ** the impact measures used by the search heuristics *)
Lemma bool_eq_of_iff (b1 b2 : bool) (P : Prop) : (b1 = true <-> P) -> (b2 = true <-> P) -> b1 = b2.
Proof.
  destruct b1, b2; intros H1 H2; try reflexivity; exfalso.
  - assert (E : false = true) by (apply H2, H1; reflexivity). discriminate E.
  - assert (E : false = true) by (apply H1, H2; reflexivity). discriminate E.
Qed.

Lemma deps_mem_cfg_independent c1 c2 s1 s2 h1 h2 v :
  WF c1 s1 -> WF c2 s2 -> h1 < size s1 -> h2 < size s2 -> feq (den s1 h1) (den s2 h2) ->
  nset_mem v (var_dependencies c1 s1 h1) = nset_mem v (var_dependencies c2 s2 h2).
Proof.
  intros WF1 WF2 H1 H2 E. apply (bool_eq_of_iff _ _ (depends (den s2 h2) v)).
  - rewrite (deps_mem_exact c1 s1 h1 v WF1 H1). apply depends_feq. exact E.
  - apply (deps_mem_exact c2 s2 h2 v WF2 H2).
Qed.

Lemma filter_length_Forall2 {X Y} (R : X -> Y -> Prop) (p : X -> bool) (q : Y -> bool) l1 l2 :
  Forall2 R l1 l2 -> (forall x y, R x y -> p x = q y) ->
  length (filter p l1) = length (filter q l2).
Proof.
  intros H Hpq. induction H as [|x y l1 l2 Rxy _ IH]; [reflexivity|]. cbn [filter].
  rewrite (Hpq x y Rxy). destruct (q y); cbn [length]; rewrite IH; reflexivity.
Qed.

Lemma Forall2_nth {X Y} (R : X -> Y -> Prop) l1 l2 d1 d2 n :
  Forall2 R l1 l2 -> R d1 d2 -> R (nth n l1 d1) (nth n l2 d2).
Proof.
  intros H Hd. revert n. induction H as [|x y l1 l2 Rxy _ IH]; intros [|n]; cbn [nth]; auto.
Qed.

Lemma Forall2_len {X Y} (R : X -> Y -> Prop) l1 l2 : Forall2 R l1 l2 -> length l1 = length l2.
Proof. intros H. induction H as [|x y l1 l2 _ _ IH]; cbn [length]; [reflexivity|rewrite IH; reflexivity]. Qed.

Definition same_fun (s1 s2 : store) (h1 h2 : N) : Prop :=
  h1 < size s1 /\ h2 < size s2 /\ feq (den s1 h1) (den s2 h2).

Theorem impact_cfg_independent c1 c2 s1 s2 tl1 tl2 v :
  WF c1 s1 -> WF c2 s2 -> Forall2 (same_fun s1 s2) tl1 tl2 ->
  passive_var_impact c1 s1 v tl1 = passive_var_impact c2 s2 v tl2 /\
  active_var_impact c1 s1 v tl1 = active_var_impact c2 s2 v tl2.
Proof.
  intros WF1 WF2 H. split.
  - unfold passive_var_impact. rewrite !fold_count. f_equal. f_equal.
    apply (filter_length_Forall2 (same_fun s1 s2)); [exact H|].
    intros h1 h2 (B1 & B2 & E). apply deps_mem_cfg_independent; assumption.
  - unfold active_var_impact. cbv zeta. rewrite !fold_count. f_equal. f_equal.
    rewrite <- (Forall2_len _ _ _ H).
    assert (T : same_fun s1 s2 (nth (N.to_nat v) tl1 0) (nth (N.to_nat v) tl2 0)).
    { apply Forall2_nth; [exact H|]. split; [apply (size_gt_0 c1 s1 WF1)|].
      split; [apply (size_gt_0 c2 s2 WF2)|intros a; reflexivity]. }
    destruct T as (B1 & B2 & E). f_equal. apply filter_ext. intros idx.
    apply deps_mem_cfg_independent; assumption.
Qed.

(* ================================================================== *)
(** * Part B: the simulation: identical node tables and handles *)

Definition same_nodes (s1 s2 : store) : Prop :=
  size s1 = size s2 /\ (forall h, NM.find h (nodes s1) = NM.find h (nodes s2)) /\
  (forall k, TM.find k (uniq s1) = TM.find k (uniq s2)).

Lemma same_nodes_refl s : same_nodes s s.
Proof. split; [reflexivity|]. split; intros; reflexivity. Qed.
Lemma same_nodes_sym s1 s2 : same_nodes s1 s2 -> same_nodes s2 s1.
Proof. intros (A & B & C). split; [auto|]. split; intros; symmetry; auto. Qed.
Lemma same_nodes_trans a b c : same_nodes a b -> same_nodes b c -> same_nodes a c.
Proof.
  intros (A1 & B1 & C1) (A2 & B2 & C2). split; [congruence|].
  split; intros x; [rewrite B1; apply B2|rewrite C1; apply C2].
Qed.

Lemma sn_size s1 s2 : same_nodes s1 s2 -> size s1 = size s2.
Proof. intros S. apply S. Qed.
Lemma sn_uniq s1 s2 k : same_nodes s1 s2 -> TM.find k (uniq s1) = TM.find k (uniq s2).
Proof. intros S. apply S. Qed.
Lemma sn_get_node s1 s2 h : same_nodes s1 s2 -> get_node s1 h = get_node s2 h.
Proof. intros (_ & H & _). unfold get_node. rewrite H. reflexivity. Qed.
Lemma sn_topv s1 s2 h : same_nodes s1 s2 -> topv s1 h = topv s2 h.
Proof. intros S. unfold topv. rewrite (sn_get_node s1 s2 h S). reflexivity. Qed.

Lemma sn_den_f s1 s2 : same_nodes s1 s2 -> forall f h a, den_f f s1 h a = den_f f s2 h a.
Proof.
  intros S f. induction f as [|f IH]; intros h a; [reflexivity|]. cbn [den_f].
  rewrite (sn_get_node s1 s2 h S). rewrite IH. reflexivity.
Qed.
Lemma sn_den s1 s2 h a : same_nodes s1 s2 -> den s1 h a = den s2 h a.
Proof. intros S. unfold den. apply sn_den_f. exact S. Qed.

Lemma sn_table_of s1 s2 : same_nodes s1 s2 -> table_of s1 = table_of s2.
Proof.
  intros S. unfold table_of. rewrite (sn_size s1 s2 S). apply map_ext. intros h. apply sn_get_node. exact S.
Qed.

Lemma sn_set_resc st k r : same_nodes st (set_resc st k r).
Proof. split; [reflexivity|]. split; intros; reflexivity. Qed.
Lemma sn_set_itec st k r : same_nodes st (set_itec st k r).
Proof. split; [reflexivity|]. split; intros; reflexivity. Qed.
Lemma sn_set_resc_both s1 s2 k1 r1 k2 r2 :
  same_nodes s1 s2 -> same_nodes (set_resc s1 k1 r1) (set_resc s2 k2 r2).
Proof.
  intros S. apply (same_nodes_trans _ s1); [apply same_nodes_sym, sn_set_resc|].
  apply (same_nodes_trans _ s2); [exact S|apply sn_set_resc].
Qed.

(** ** [mk_node] *)
Lemma mk_node_sim_eq c1 c2 s1 s2 v lo hi s1' r1 s2' r2 :
  same_nodes s1 s2 -> mk_node c1 s1 v lo hi = (s1', r1) -> mk_node c2 s2 v lo hi = (s2', r2) ->
  r1 = r2 /\ same_nodes s1' s2'.
Proof.
  intros S M1 M2. pose proof S as (Ss & Sn & Su).
  destruct (mk_node_cases c1 s1 v lo hi s1' r1 M1)
    as [(E1 & -> & ->) | [(N1 & F1 & ->) | (N1 & F1 & -> & HF1)]];
  destruct (mk_node_cases c2 s2 v lo hi s2' r2 M2)
    as [(E2 & -> & ->) | [(N2 & F2 & ->) | (N2 & F2 & -> & HF2)]]; try contradiction.
  - split; [reflexivity|exact S].
  - rewrite Su in F1. split; [congruence|exact S].
  - rewrite Su in F1. congruence.
  - rewrite Su in F1. congruence.
  - split; [exact Ss|].
    destruct HF1 as (Hn1 & Hs1 & Hu1 & _). destruct HF2 as (Hn2 & Hs2 & Hu2 & _).
    split; [rewrite Hs1, Hs2, Ss; reflexivity|]. split.
    + intros h. rewrite Hn1, Hn2, !nm_find_add, Ss, Sn. reflexivity.
    + intros k. rewrite Hu1, Hu2, !tm_find_add, Ss, Su. reflexivity.
Qed.

Lemma mk_node_sim c1 c2 s1 s2 v lo hi : same_nodes s1 s2 ->
  let '(s1', r1) := mk_node c1 s1 v lo hi in
  let '(s2', r2) := mk_node c2 s2 v lo hi in
  r1 = r2 /\ same_nodes s1' s2'.
Proof.
  intros S. destruct (mk_node c1 s1 v lo hi) as [s1' r1] eqn:M1.
  destruct (mk_node c2 s2 v lo hi) as [s2' r2] eqn:M2.
  apply (mk_node_sim_eq c1 c2 s1 s2 v lo hi s1' r1 s2' r2 S M1 M2).
Qed.

(** no node is appended when the node is redundant or already in the unique table *)
Lemma mk_node_noop c st v lo hi st' r :
  (lo = hi \/ TM.find (k3 v lo hi) (uniq st) <> None) -> mk_node c st v lo hi = (st', r) -> st' = st.
Proof.
  intros H M.
  destruct (mk_node_cases c st v lo hi st' r M) as [(_ & -> & _) | [(_ & _ & ->) | (N & F & _)]];
    try reflexivity.
  destruct H as [H|H]; contradiction.
Qed.

Lemma mk_node_itec c st v lo hi st' r : mk_node c st v lo hi = (st', r) -> itec st' = itec st.
Proof.
  intros M.
  destruct (mk_node_cases c st v lo hi st' r M) as [(_ & -> & _) | [(_ & _ & ->) | (_ & _ & _ & HF)]];
    try reflexivity.
  apply HF.
Qed.

(** ** [restrict]: one level of the recursion, read off the function body *)
Lemma restrict_f_inv c f st tree var b st' r : WF c st -> tree < size st ->
  restrict_f c (S f) st tree var b = Some (st', r) ->
  (st' = st /\ r < size st /\ feq (den st r) (cofactor (den st tree) var b)) \/
  (2 <= tree /\ nv (get_node st tree) < var /\ exists st1 lo' st2 hi' st3,
     restrict_f c f st (nlo (get_node st tree)) var b = Some (st1, lo') /\
     restrict_f c f st1 (nhi (get_node st tree)) var b = Some (st2, hi') /\
     mk_node c st2 (nv (get_node st tree)) lo' hi' = (st3, r) /\
     st' = set_resc st3 (k3 tree var (b2n b)) r) \/
  (2 <= tree /\ nv (get_node st tree) = var /\ exists st1,
     restrict_f c f st (if b then nhi (get_node st tree) else nlo (get_node st tree)) var b = Some (st1, r) /\
     st' = set_resc st1 (k3 tree var (b2n b)) r).
Proof.
  intros WFst Ht X. pose proof (wf_n c st WFst) as W. cbn [restrict_f] in X.
  destruct (TM.find (k3 tree var (b2n b)) (resc st)) as [r0|] eqn:Fc.
  { inversion X; subst st' r0. left.
    destruct (restrict_case_cache c st tree var b r WFst Fc) as (_ & _ & Hr & Hd & _). auto. }
  destruct (varlist c && negb (nset_mem var (get_vd st tree))) eqn:Evd.
  { inversion X; subst st' r. left.
    apply andb_true_iff in Evd. destruct Evd as [Hc Hm]. apply negb_true_iff in Hm.
    destruct (restrict_case_vd c st tree var b WFst Ht Hc Hm) as (_ & Hr & Hd & _). auto. }
  destruct ((var <? nv (get_node st tree)) || (VBOT <=? nv (get_node st tree))) eqn:Eord.
  { inversion X; subst st' r. left.
    assert (Ho : var < topv st tree \/ VBOT <= topv st tree).
    { apply orb_true_iff in Eord. unfold topv.
      destruct Eord as [Hl|Hl]; [left; apply N.ltb_lt|right; apply N.leb_le]; exact Hl. }
    destruct (restrict_case_order c st tree var b WFst Ht Ho) as (_ & Hr & Hd & _). auto. }
  apply orb_false_iff in Eord. destruct Eord as [Eo1 Eo2].
  apply N.ltb_ge in Eo1. apply N.leb_gt in Eo2.
  assert (H2 : 2 <= tree).
  { destruct (N.le_gt_cases tree 1) as [Hterm|Hnt]; [|lia].
    pose proof (nv_terminal st tree W Hterm). lia. }
  right. destruct (nv (get_node st tree) <? var) eqn:Elt.
  - apply N.ltb_lt in Elt. left. split; [exact H2|]. split; [exact Elt|].
    apply obind_inv in X. destruct X as ([st1 lo'] & X1 & X).
    apply obind_inv in X. destruct X as ([st2 hi'] & X2 & X).
    destruct (mk_node c st2 (nv (get_node st tree)) lo' hi') as [st3 r3] eqn:M.
    inversion X; subst st' r3. exists st1, lo', st2, hi', st3. auto.
  - apply N.ltb_ge in Elt. right. split; [exact H2|]. split; [lia|].
    apply obind_inv in X. destruct X as ([st1 r1] & X1 & X).
    inversion X; subst st' r1. exists st1. auto.
Qed.

(** if the table already holds a handle for the cofactor, that handle is the result *)
Lemma restrict_result_is c fuel st tree var b st' r h :
  WF c st -> tree < size st -> h < size st -> feq (den st h) (cofactor (den st tree) var b) ->
  restrict_f c fuel st tree var b = Some (st', r) -> r = h /\ topv st tree <= topv st h.
Proof.
  intros WFst Ht Hh Eh X.
  destruct (restrict_f_ok c fuel st tree var b st' r WFst Ht X) as (WF' & E & Hr & Hd & T1 & _).
  pose proof (wf_n c st WFst) as W. pose proof (wf_n c st' WF') as W'.
  assert (Erh : r = h).
  { apply (canonicity st' W' r h Hr (extends_lt st st' h E Hh)). intros a.
    rewrite Hd, (den_extends st st' W E h a Hh). symmetry. apply Eh. }
  subst r. split; [reflexivity|]. rewrite <- (topv_extends st st' h E Hh). exact T1.
Qed.

(** the handles of the two cofactors of an existing result exist as well, and the node that
    joins them is in the unique table *)
Lemma cof_handles st tree h var b : WFN st -> 2 <= tree -> tree < size st ->
  nv (get_node st tree) < var -> h < size st ->
  feq (den st h) (cofactor (den st tree) var b) -> topv st tree <= topv st h ->
  exists hl hh, hl < size st /\ hh < size st /\
    feq (den st hl) (cofactor (den st (nlo (get_node st tree))) var b) /\
    feq (den st hh) (cofactor (den st (nhi (get_node st tree))) var b) /\
    (hl = hh \/ TM.find (k3 (nv (get_node st tree)) hl hh) (uniq st) <> None).
Proof.
  intros W H2 Ht Hv Hh Eh Tle. unfold topv in Tle at 1.
  pose proof (nv_nonterminal st tree W H2 Ht) as Hm.
  set (n := get_node st tree) in *. set (m := nv n) in *.
  assert (K : forall c0 a, den st h (upd a m c0) =
                           cofactor (den st (if c0 then nhi n else nlo n)) var b a).
  { intros c0 a. rewrite Eh. unfold cofactor.
    rewrite (den_ext st tree _ (upd (upd a var b) m c0)) by (intros x; apply upd_comm; lia).
    apply (den_cofactor_top st W tree (upd a var b) c0 H2 Ht). }
  destruct (N.eq_dec (topv st h) m) as [Et|Nt].
  - assert (H2h : 2 <= h).
    { destruct (N.le_gt_cases h 1) as [Hterm|Hnt]; [|lia].
      pose proof (topv_terminal st h W Hterm). lia. }
    destruct (wf_node' st h W H2h Hh) as (_ & Hne & Hlo & Hhi & _).
    unfold topv in Et.
    exists (nlo (get_node st h)), (nhi (get_node st h)).
    split; [lia|]. split; [lia|]. split; [|split].
    + intros a. rewrite <- (K false a). rewrite <- Et. symmetry. apply (den_cofactor_lo st W h a H2h Hh).
    + intros a. rewrite <- (K true a). rewrite <- Et. symmetry. apply (den_cofactor_hi st W h a H2h Hh).
    + right.
      assert (F : NM.find h (nodes st) = Some (get_node st h)) by (apply find_get_node; auto).
      destruct (get_node st h) as [v0 lo0 hi0]. cbn [nv nlo nhi] in *. subst v0.
      assert (U : TM.find (k3 m lo0 hi0) (uniq st) = Some h) by (apply (wf_uniq st W); split; auto).
      rewrite U. discriminate.
  - assert (Hlt : m < topv st h) by lia.
    exists h, h. split; [exact Hh|]. split; [exact Hh|]. split; [|split].
    + intros a. rewrite <- (K false a). symmetry. apply (den_indep_below st W h a m false Hh Hlt).
    + intros a. rewrite <- (K true a). symmetry. apply (den_indep_below st W h a m true Hh Hlt).
    + left. reflexivity.
Qed.

(** the heart: restricting to a function whose diagram is already in the table appends nothing.
    (This covers: a memo-table hit in one run against a recomputation in the other, and the
    early exit of [variablelist] against the full recursion without it.) *)
Lemma restrict_existing c : forall fuel st tree var b st' r h,
  WF c st -> tree < size st -> h < size st -> feq (den st h) (cofactor (den st tree) var b) ->
  restrict_f c fuel st tree var b = Some (st', r) -> r = h /\ same_nodes st st'.
Proof.
  induction fuel as [|f IH]; intros st tree var b st' r h WFst Ht Hh Eh X; [discriminate X|].
  destruct (restrict_result_is c (S f) st tree var b st' r h WFst Ht Hh Eh X) as (-> & Tle).
  split; [reflexivity|]. pose proof (wf_n c st WFst) as W.
  destruct (restrict_f_inv c f st tree var b st' h WFst Ht X)
    as [(-> & _) | [(H2 & Hv & st1 & lo' & st2 & hi' & st3 & X1 & X2 & M & ->) | (H2 & Hv & st1 & X1 & ->)]].
  - apply same_nodes_refl.
  - destruct (child_lt st tree W H2 Ht) as (_ & _ & Hlo & Hhi).
    destruct (cof_handles st tree h var b W H2 Ht Hv Hh Eh Tle) as (hl & hh & Hhl & Hhh & El & Ehh & Hu).
    destruct (IH st _ var b st1 lo' hl WFst Hlo Hhl El X1) as (-> & S1).
    destruct (restrict_f_ok c f st _ var b st1 hl WFst Hlo X1) as (WF1 & _).
    assert (E2 : feq (den st1 hh) (cofactor (den st1 (nhi (get_node st tree))) var b)).
    { intros a. unfold cofactor. rewrite <- !(sn_den st st1 _ _ S1). apply Ehh. }
    rewrite (sn_size st st1 S1) in Hhi, Hhh.
    destruct (IH st1 _ var b st2 hi' hh WF1 Hhi Hhh E2 X2) as (-> & S2).
    assert (E3 : st3 = st2).
    { apply (mk_node_noop c st2 (nv (get_node st tree)) hl hh st3 h); [|exact M].
      destruct Hu as [->|Hu]; [left; reflexivity|right].
      rewrite <- (sn_uniq st1 st2 _ S2), <- (sn_uniq st st1 _ S1). exact Hu. }
    subst st3.
    apply (same_nodes_trans st st1 _ S1), (same_nodes_trans st1 st2 _ S2), sn_set_resc.
  - destruct (child_lt st tree W H2 Ht) as (_ & _ & Hlo & Hhi).
    set (ch := if b then nhi (get_node st tree) else nlo (get_node st tree)) in *.
    assert (Hch : ch < size st) by (unfold ch; destruct b; assumption).
    assert (Ec : feq (den st h) (cofactor (den st ch) var b)).
    { intros a. rewrite Eh. unfold cofactor. rewrite (den_node st tree _ W H2 Ht).
      rewrite Hv, upd_eq. reflexivity. }
    destruct (IH st ch var b st1 h h WFst Hch Hh Ec X1) as (_ & S1).
    apply (same_nodes_trans st st1 _ S1), sn_set_resc.
Qed.

(** lock-step where both runs recurse; [restrict_existing] where one of them does not *)
Lemma restrict_f_sim c1 c2 : forall fuel s1 s2 tree var b s1' r1 s2' r2,
  WF c1 s1 -> WF c2 s2 -> same_nodes s1 s2 -> tree < size s1 ->
  restrict_f c1 fuel s1 tree var b = Some (s1', r1) ->
  restrict_f c2 fuel s2 tree var b = Some (s2', r2) ->
  r1 = r2 /\ same_nodes s1' s2'.
Proof.
  induction fuel as [|f IH]; intros s1 s2 tree var b s1' r1 s2' r2 WF1 WF2 SN Ht X1 X2; [discriminate X1|].
  assert (Ht2 : tree < size s2) by (rewrite <- (sn_size s1 s2 SN); exact Ht).
  destruct (restrict_f_inv c1 f s1 tree var b s1' r1 WF1 Ht X1) as [(-> & Hr1 & D1) | R1].
  { destruct (restrict_existing c2 (S f) s2 tree var b s2' r2 r1 WF2 Ht2) as (-> & S2).
    - rewrite <- (sn_size s1 s2 SN). exact Hr1.
    - intros a. unfold cofactor. rewrite <- !(sn_den s1 s2 _ _ SN). apply D1.
    - exact X2.
    - split; [reflexivity|]. apply (same_nodes_trans s1 s2 s2' SN S2). }
  destruct (restrict_f_inv c2 f s2 tree var b s2' r2 WF2 Ht2 X2) as [(-> & Hr2 & D2) | R2].
  { destruct (restrict_existing c1 (S f) s1 tree var b s1' r1 r2 WF1 Ht) as (-> & S1).
    - rewrite (sn_size s1 s2 SN). exact Hr2.
    - intros a. unfold cofactor. rewrite !(sn_den s1 s2 _ _ SN). apply D2.
    - exact X1.
    - split; [reflexivity|]. apply (same_nodes_trans s1' s1 s2); [apply same_nodes_sym; exact S1|exact SN]. }
  rewrite <- (sn_get_node s1 s2 tree SN) in R2.
  pose proof (wf_n c1 s1 WF1) as W1.
  destruct R1 as [(H2 & Hv1 & a1 & lo1 & a2 & hi1 & a3 & A1 & A2 & M1 & ->) | (H2 & Hv1 & a1 & A1 & ->)];
  destruct R2 as [(_ & Hv2 & b1 & lo2 & b2 & hi2 & b3 & B1 & B2 & M2 & ->) | (_ & Hv2 & b1 & B1 & ->)];
    try lia.
  - destruct (child_lt s1 tree W1 H2 Ht) as (_ & _ & Hlo & Hhi).
    destruct (IH s1 s2 _ var b a1 lo1 b1 lo2 WF1 WF2 SN Hlo A1 B1) as (-> & S1).
    destruct (restrict_f_ok c1 f s1 _ var b a1 lo2 WF1 Hlo A1) as (WFa1 & Ea1 & _).
    assert (Hlo2 : nlo (get_node s1 tree) < size s2) by (rewrite <- (sn_size s1 s2 SN); exact Hlo).
    destruct (restrict_f_ok c2 f s2 _ var b b1 lo2 WF2 Hlo2 B1) as (WFb1 & _).
    assert (Hhi1 : nhi (get_node s1 tree) < size a1) by (apply (extends_lt s1 a1 _ Ea1 Hhi)).
    destruct (IH a1 b1 _ var b a2 hi1 b2 hi2 WFa1 WFb1 S1 Hhi1 A2 B2) as (-> & S2).
    destruct (mk_node_sim_eq c1 c2 a2 b2 _ lo2 hi2 a3 r1 b3 r2 S2 M1 M2) as (-> & S3).
    split; [reflexivity|]. apply sn_set_resc_both. exact S3.
  - destruct (child_lt s1 tree W1 H2 Ht) as (_ & _ & Hlo & Hhi).
    assert (Hch : (if b then nhi (get_node s1 tree) else nlo (get_node s1 tree)) < size s1)
      by (destruct b; assumption).
    destruct (IH s1 s2 _ var b a1 r1 b1 r2 WF1 WF2 SN Hch A1 B1) as (-> & S1).
    split; [reflexivity|]. apply sn_set_resc_both. exact S1.
Qed.

Theorem restrict_sim c1 c2 s1 s2 t v b s1' r1 s2' r2 :
  WF c1 s1 -> WF c2 s2 -> same_nodes s1 s2 -> t < size s1 ->
  restrict c1 s1 t v b = Some (s1', r1) -> restrict c2 s2 t v b = Some (s2', r2) ->
  r1 = r2 /\ same_nodes s1' s2'.
Proof. unfold restrict. apply restrict_f_sim. Qed.

(** ** [ite]: the if-then-else memo table is the same in all configurations *)
Definition same_tables (s1 s2 : store) : Prop :=
  same_nodes s1 s2 /\ forall k, TM.find k (itec s1) = TM.find k (itec s2).

Lemma same_tables_refl s : same_tables s s.
Proof. split; [apply same_nodes_refl|reflexivity]. Qed.

Lemma init_same_tables c1 c2 : same_tables (init c1) (init c2).
Proof. split; [split; [reflexivity|split; intros; reflexivity]|intros; reflexivity]. Qed.

Lemma mk_node_sim_t c1 c2 s1 s2 v lo hi s1' r1 s2' r2 :
  same_tables s1 s2 -> mk_node c1 s1 v lo hi = (s1', r1) -> mk_node c2 s2 v lo hi = (s2', r2) ->
  r1 = r2 /\ same_tables s1' s2'.
Proof.
  intros (SN & SI) M1 M2.
  destruct (mk_node_sim_eq c1 c2 s1 s2 v lo hi s1' r1 s2' r2 SN M1 M2) as (E & SN').
  split; [exact E|]. split; [exact SN'|].
  intros k. rewrite (mk_node_itec c1 s1 v lo hi s1' r1 M1), (mk_node_itec c2 s2 v lo hi s2' r2 M2). apply SI.
Qed.

Lemma restrict_sim_t c1 c2 s1 s2 t v b s1' r1 s2' r2 :
  WF c1 s1 -> WF c2 s2 -> same_tables s1 s2 -> t < size s1 ->
  restrict c1 s1 t v b = Some (s1', r1) -> restrict c2 s2 t v b = Some (s2', r2) ->
  r1 = r2 /\ same_tables s1' s2' /\ WF c1 s1' /\ WF c2 s2' /\ extends s1 s1' /\ r1 < size s1'.
Proof.
  intros WF1 WF2 (SN & SI) Ht X1 X2.
  destruct (restrict_sim c1 c2 s1 s2 t v b s1' r1 s2' r2 WF1 WF2 SN Ht X1 X2) as (E & SN').
  assert (Ht2 : t < size s2) by (rewrite <- (sn_size s1 s2 SN); exact Ht).
  unfold restrict in X1, X2.
  destruct (restrict_f_ok c1 _ s1 t v b s1' r1 WF1 Ht X1) as (WF1' & E1 & Hr1 & _ & _ & _ & I1).
  destruct (restrict_f_ok c2 _ s2 t v b s2' r2 WF2 Ht2 X2) as (WF2' & _ & _ & _ & _ & _ & I2).
  split; [exact E|]. split; [|auto]. split; [exact SN'|]. intros k. rewrite I1, I2. apply SI.
Qed.

Lemma ite_early_same s1 s2 i t e : same_tables s1 s2 -> ite_early s1 i t e = ite_early s2 i t e.
Proof. intros (_ & SI). unfold ite_early. rewrite SI. reflexivity. Qed.

Definition rec_sim_t (c1 c2 : cfg) (rec1 rec2 : store -> N -> N -> N -> option (store * N)) : Prop :=
  forall s1 s2 i t e s1' r1 s2' r2, WF c1 s1 -> WF c2 s2 -> same_tables s1 s2 ->
    i < size s1 -> t < size s1 -> e < size s1 ->
    rec1 s1 i t e = Some (s1', r1) -> rec2 s2 i t e = Some (s2', r2) ->
    r1 = r2 /\ same_tables s1' s2'.

Lemma ite_step_sim_t c1 c2 rec1 rec2 : rec_sim_t c1 c2 rec1 rec2 -> rec_ok c1 rec1 -> rec_ok c2 rec2 ->
  rec_sim_t c1 c2 (ite_step c1 rec1) (ite_step c2 rec2).
Proof.
  intros RS R1 R2 s1 s2 i t e s1' r1 s2' r2 WF1 WF2 ST Hi Ht He X1 X2.
  pose proof ST as (SN & _).
  unfold ite_step in X1, X2.
  rewrite <- !(sn_get_node s1 s2 _ SN) in X2.
  set (m := N.min (nv (get_node s1 i)) (N.min (nv (get_node s1 t)) (nv (get_node s1 e)))) in *.
  apply obind_inv in X1. destruct X1 as ([a1 itop] & A1 & X1).
  apply obind_inv in X1. destruct X1 as ([a2 ttop] & A2 & X1).
  apply obind_inv in X1. destruct X1 as ([a3 etop] & A3 & X1).
  apply obind_inv in X1. destruct X1 as ([a4 ibot] & A4 & X1).
  apply obind_inv in X1. destruct X1 as ([a5 tbot] & A5 & X1).
  apply obind_inv in X1. destruct X1 as ([a6 ebot] & A6 & X1).
  apply obind_inv in X1. destruct X1 as ([a7 top1] & A7 & X1).
  apply obind_inv in X1. destruct X1 as ([a8 bot1] & A8 & X1).
  destruct (mk_node c1 a8 m bot1 top1) as [a9 q1] eqn:M1. inversion X1; subst s1' q1. clear X1.
  apply obind_inv in X2. destruct X2 as ([b1 itop2] & B1 & X2).
  apply obind_inv in X2. destruct X2 as ([b2 ttop2] & B2 & X2).
  apply obind_inv in X2. destruct X2 as ([b3 etop2] & B3 & X2).
  apply obind_inv in X2. destruct X2 as ([b4 ibot2] & B4 & X2).
  apply obind_inv in X2. destruct X2 as ([b5 tbot2] & B5 & X2).
  apply obind_inv in X2. destruct X2 as ([b6 ebot2] & B6 & X2).
  apply obind_inv in X2. destruct X2 as ([b7 top2] & B7 & X2).
  apply obind_inv in X2. destruct X2 as ([b8 bot2] & B8 & X2).
  destruct (mk_node c2 b8 m bot2 top2) as [b9 q2] eqn:M2. inversion X2; subst s2' q2. clear X2.
  destruct (restrict_sim_t c1 c2 s1 s2 i m true a1 itop b1 itop2 WF1 WF2 ST Hi A1 B1)
    as (<- & T1 & WFa1 & WFb1 & E01 & Hitop).
  assert (Ht1 : t < size a1) by (apply (extends_lt s1 a1 t E01 Ht)).
  destruct (restrict_sim_t c1 c2 a1 b1 t m true a2 ttop b2 ttop2 WFa1 WFb1 T1 Ht1 A2 B2)
    as (<- & T2 & WFa2 & WFb2 & E12 & Httop).
  assert (E02 : extends s1 a2) by (apply (extends_trans s1 a1 a2 E01 E12)).
  assert (He2 : e < size a2) by (apply (extends_lt s1 a2 e E02 He)).
  destruct (restrict_sim_t c1 c2 a2 b2 e m true a3 etop b3 etop2 WFa2 WFb2 T2 He2 A3 B3)
    as (<- & T3 & WFa3 & WFb3 & E23 & Hetop).
  assert (E03 : extends s1 a3) by (apply (extends_trans s1 a2 a3 E02 E23)).
  assert (Hi3 : i < size a3) by (apply (extends_lt s1 a3 i E03 Hi)).
  destruct (restrict_sim_t c1 c2 a3 b3 i m false a4 ibot b4 ibot2 WFa3 WFb3 T3 Hi3 A4 B4)
    as (<- & T4 & WFa4 & WFb4 & E34 & Hibot).
  assert (E04 : extends s1 a4) by (apply (extends_trans s1 a3 a4 E03 E34)).
  assert (Ht4 : t < size a4) by (apply (extends_lt s1 a4 t E04 Ht)).
  destruct (restrict_sim_t c1 c2 a4 b4 t m false a5 tbot b5 tbot2 WFa4 WFb4 T4 Ht4 A5 B5)
    as (<- & T5 & WFa5 & WFb5 & E45 & Htbot).
  assert (E05 : extends s1 a5) by (apply (extends_trans s1 a4 a5 E04 E45)).
  assert (He5 : e < size a5) by (apply (extends_lt s1 a5 e E05 He)).
  destruct (restrict_sim_t c1 c2 a5 b5 e m false a6 ebot b6 ebot2 WFa5 WFb5 T5 He5 A6 B6)
    as (<- & T6 & WFa6 & WFb6 & E56 & Hebot).
  (* all six handles live in a6 *)
  assert (E46 : extends a4 a6) by (apply (extends_trans a4 a5 a6 E45 E56)).
  assert (E36 : extends a3 a6) by (apply (extends_trans a3 a4 a6 E34 E46)).
  assert (E26 : extends a2 a6) by (apply (extends_trans a2 a3 a6 E23 E36)).
  assert (E16 : extends a1 a6) by (apply (extends_trans a1 a2 a6 E12 E26)).
  assert (K1 : itop < size a6) by (apply (extends_lt a1 a6 _ E16 Hitop)).
  assert (K2 : ttop < size a6) by (apply (extends_lt a2 a6 _ E26 Httop)).
  assert (K3 : etop < size a6) by (apply (extends_lt a3 a6 _ E36 Hetop)).
  assert (K4 : ibot < size a6) by (apply (extends_lt a4 a6 _ E46 Hibot)).
  assert (K5 : tbot < size a6) by (apply (extends_lt a5 a6 _ E56 Htbot)).
  destruct (RS a6 b6 itop ttop etop a7 top1 b7 top2 WFa6 WFb6 T6 K1 K2 K3 A7 B7) as (<- & T7).
  destruct (R1 a6 itop ttop etop a7 top1 WFa6 K1 K2 K3 A7) as (WFa7 & E67 & _).
  assert (K1b : itop < size b6) by (rewrite <- (sn_size a6 b6 (proj1 T6)); exact K1).
  assert (K2b : ttop < size b6) by (rewrite <- (sn_size a6 b6 (proj1 T6)); exact K2).
  assert (K3b : etop < size b6) by (rewrite <- (sn_size a6 b6 (proj1 T6)); exact K3).
  destruct (R2 b6 itop ttop etop b7 top1 WFb6 K1b K2b K3b B7) as (WFb7 & _).
  assert (L4 : ibot < size a7) by (apply (extends_lt a6 a7 _ E67 K4)).
  assert (L5 : tbot < size a7) by (apply (extends_lt a6 a7 _ E67 K5)).
  assert (L6 : ebot < size a7) by (apply (extends_lt a6 a7 _ E67 Hebot)).
  destruct (RS a7 b7 ibot tbot ebot a8 bot1 b8 bot2 WFa7 WFb7 T7 L4 L5 L6 A8 B8) as (<- & T8).
  destruct (mk_node_sim_t c1 c2 a8 b8 m bot1 top1 a9 r1 b9 r2 T8 M1 M2) as (<- & (SN9 & SI9)).
  split; [reflexivity|]. split.
  - apply (same_nodes_trans _ a9); [apply same_nodes_sym, sn_set_itec|].
    apply (same_nodes_trans _ b9); [exact SN9|apply sn_set_itec].
  - intros k. unfold set_itec. cbn [itec]. rewrite !tm_find_add, SI9. reflexivity.
Qed.

Lemma ite_f_sim_t c1 c2 : forall fuel, rec_sim_t c1 c2 (ite_f c1 fuel) (ite_f c2 fuel).
Proof.
  induction fuel as [|f IH]; intros s1 s2 i t e s1' r1 s2' r2 WF1 WF2 ST Hi Ht He X1 X2;
    rewrite ite_f_unfold in X1, X2; rewrite <- (ite_early_same s1 s2 i t e ST) in X2.
  - destruct (ite_early s1 i t e) as [r0|]; [|discriminate X1].
    inversion X1; inversion X2; subst. split; [reflexivity|exact ST].
  - destruct (ite_early s1 i t e) as [r0|].
    + inversion X1; inversion X2; subst. split; [reflexivity|exact ST].
    + apply (ite_step_sim_t c1 c2 (ite_f c1 f) (ite_f c2 f) IH) with (s1 := s1) (s2 := s2) (i := i) (t := t) (e := e);
        try assumption.
      * intros st i0 t0 e0 st' r. apply ite_f_ok.
      * intros st i0 t0 e0 st' r. apply ite_f_ok.
Qed.

Theorem ite_sim_tables c1 c2 s1 s2 i t e s1' r1 s2' r2 :
  WF c1 s1 -> WF c2 s2 -> same_tables s1 s2 -> i < size s1 -> t < size s1 -> e < size s1 ->
  ite c1 s1 i t e = Some (s1', r1) -> ite c2 s2 i t e = Some (s2', r2) ->
  r1 = r2 /\ same_tables s1' s2'.
Proof.
  intros WF1 WF2 ST Hi Ht He X1 X2. unfold ite in X1, X2.
  rewrite <- (sn_size s1 s2 (proj1 ST)) in X2.
  apply (ite_f_sim_t c1 c2 _ s1 s2 i t e s1' r1 s2' r2 WF1 WF2 ST Hi Ht He X1 X2).
Qed.

(** ** the public operations *)
Definition op2_sim (op : cfg -> store -> N -> N -> option (store * N)) : Prop :=
  forall c1 c2 s1 s2 a b s1' r1 s2' r2, WF c1 s1 -> WF c2 s2 -> same_tables s1 s2 ->
    a < size s1 -> b < size s1 ->
    op c1 s1 a b = Some (s1', r1) -> op c2 s2 a b = Some (s2', r2) -> r1 = r2 /\ same_tables s1' s2'.

Lemma variable_sim c1 c2 s1 s2 v s1' r1 s2' r2 : same_tables s1 s2 ->
  variable c1 s1 v = (s1', r1) -> variable c2 s2 v = (s2', r2) -> r1 = r2 /\ same_tables s1' s2'.
Proof. unfold variable. apply mk_node_sim_t. Qed.

Lemma bnot_sim c1 c2 s1 s2 a s1' r1 s2' r2 : WF c1 s1 -> WF c2 s2 -> same_tables s1 s2 -> a < size s1 ->
  bnot c1 s1 a = Some (s1', r1) -> bnot c2 s2 a = Some (s2', r2) -> r1 = r2 /\ same_tables s1' s2'.
Proof.
  intros WF1 WF2 ST Ha. unfold bnot.
  apply (ite_sim_tables c1 c2 s1 s2 a 0 1 s1' r1 s2' r2 WF1 WF2 ST Ha (size_gt_0 c1 s1 WF1) (size_gt_1 c1 s1 WF1)).
Qed.

Lemma band_sim : op2_sim band.
Proof.
  intros c1 c2 s1 s2 a b s1' r1 s2' r2 WF1 WF2 ST Ha Hb. unfold band.
  apply (ite_sim_tables c1 c2 s1 s2 a b 0 s1' r1 s2' r2 WF1 WF2 ST Ha Hb (size_gt_0 c1 s1 WF1)).
Qed.
Lemma bor_sim : op2_sim bor.
Proof.
  intros c1 c2 s1 s2 a b s1' r1 s2' r2 WF1 WF2 ST Ha Hb. unfold bor.
  apply (ite_sim_tables c1 c2 s1 s2 a 1 b s1' r1 s2' r2 WF1 WF2 ST Ha (size_gt_1 c1 s1 WF1) Hb).
Qed.
Lemma bimp_sim : op2_sim bimp.
Proof.
  intros c1 c2 s1 s2 a b s1' r1 s2' r2 WF1 WF2 ST Ha Hb. unfold bimp.
  apply (ite_sim_tables c1 c2 s1 s2 a b 1 s1' r1 s2' r2 WF1 WF2 ST Ha Hb (size_gt_1 c1 s1 WF1)).
Qed.
Lemma biff_sim : op2_sim biff.
Proof.
  intros c1 c2 s1 s2 a b s1' r1 s2' r2 WF1 WF2 ST Ha Hb X1 X2. unfold biff in X1, X2.
  apply obind_inv in X1. destruct X1 as ([a1 nb1] & N1 & X1).
  apply obind_inv in X2. destruct X2 as ([b1 nb2] & N2 & X2).
  destruct (bnot_ok c1 s1 _ a1 nb1 WF1 Hb N1) as (WFa1 & Ea1 & Hnb1 & _).
  assert (Hb2 : b < size s2) by (rewrite <- (sn_size s1 s2 (proj1 ST)); exact Hb).
  destruct (bnot_ok c2 s2 _ b1 nb2 WF2 Hb2 N2) as (WFb1 & _).
  destruct (bnot_sim c1 c2 s1 s2 b a1 nb1 b1 nb2 WF1 WF2 ST Hb N1 N2) as (<- & ST1).
  apply (ite_sim_tables c1 c2 a1 b1 a b nb1 s1' r1 s2' r2 WFa1 WFb1 ST1
           (extends_lt s1 a1 _ Ea1 Ha) (extends_lt s1 a1 _ Ea1 Hb) Hnb1 X1 X2).
Qed.
Lemma bxor_sim : op2_sim bxor.
Proof.
  intros c1 c2 s1 s2 a b s1' r1 s2' r2 WF1 WF2 ST Ha Hb X1 X2. unfold bxor in X1, X2.
  apply obind_inv in X1. destruct X1 as ([a1 nb1] & N1 & X1).
  apply obind_inv in X2. destruct X2 as ([b1 nb2] & N2 & X2).
  destruct (bnot_ok c1 s1 _ a1 nb1 WF1 Hb N1) as (WFa1 & Ea1 & Hnb1 & _).
  assert (Hb2 : b < size s2) by (rewrite <- (sn_size s1 s2 (proj1 ST)); exact Hb).
  destruct (bnot_ok c2 s2 _ b1 nb2 WF2 Hb2 N2) as (WFb1 & _).
  destruct (bnot_sim c1 c2 s1 s2 b a1 nb1 b1 nb2 WF1 WF2 ST Hb N1 N2) as (<- & ST1).
  apply (ite_sim_tables c1 c2 a1 b1 a nb1 b s1' r1 s2' r2 WFa1 WFb1 ST1
           (extends_lt s1 a1 _ Ea1 Ha) Hnb1 (extends_lt s1 a1 _ Ea1 Hb) X1 X2).
Qed.

(** ** programs *)
Lemma run_op_sim c1 c2 s1 s2 regs fs1 fs2 o s1' regs1 s2' regs2 :
  State c1 s1 regs fs1 -> State c2 s2 regs fs2 -> same_tables s1 s2 ->
  run_op c1 (s1, regs) o = Some (s1', regs1) -> run_op c2 (s2, regs) o = Some (s2', regs2) ->
  regs1 = regs2 /\ same_tables s1' s2'.
Proof.
  intros St1 St2 ST X1 X2. pose proof St1 as (WF1 & _). pose proof St2 as (WF2 & _).
  assert (RB : forall k, reg regs k < size s1) by (intros k; apply (reg_lookup c1 s1 regs fs1 k St1)).
  destruct o as [v|b|a|a b|a b|a b|a b|a b|a v b]; cbn [run_op] in X1, X2;
    try (destruct (VBOT <=? v); [discriminate X1|]);
    apply push_inv in X1; destruct X1 as (r1 & X1 & ->);
    apply push_inv in X2; destruct X2 as (r2 & X2 & ->).
  - inversion X1 as [M1]. inversion X2 as [M2].
    destruct (variable_sim c1 c2 s1 s2 v s1' r1 s2' r2 ST M1 M2) as (-> & ST'). auto.
  - inversion X1; inversion X2; subst. auto.
  - destruct (bnot_sim c1 c2 s1 s2 _ s1' r1 s2' r2 WF1 WF2 ST (RB a) X1 X2) as (-> & ST'). auto.
  - destruct (band_sim c1 c2 s1 s2 _ _ s1' r1 s2' r2 WF1 WF2 ST (RB a) (RB b) X1 X2) as (-> & ST'). auto.
  - destruct (bor_sim c1 c2 s1 s2 _ _ s1' r1 s2' r2 WF1 WF2 ST (RB a) (RB b) X1 X2) as (-> & ST'). auto.
  - destruct (bimp_sim c1 c2 s1 s2 _ _ s1' r1 s2' r2 WF1 WF2 ST (RB a) (RB b) X1 X2) as (-> & ST'). auto.
  - destruct (biff_sim c1 c2 s1 s2 _ _ s1' r1 s2' r2 WF1 WF2 ST (RB a) (RB b) X1 X2) as (-> & ST'). auto.
  - destruct (bxor_sim c1 c2 s1 s2 _ _ s1' r1 s2' r2 WF1 WF2 ST (RB a) (RB b) X1 X2) as (-> & ST'). auto.
  - destruct (restrict_sim_t c1 c2 s1 s2 _ v b s1' r1 s2' r2 WF1 WF2 ST (RB a) X1 X2) as (-> & ST' & _). auto.
Qed.

Lemma run_sim_from c1 c2 : forall p s1 s2 regs fs1 fs2 s1' regs1 s2' regs2,
  State c1 s1 regs fs1 -> State c2 s2 regs fs2 -> same_tables s1 s2 ->
  run c1 (s1, regs) p = Some (s1', regs1) -> run c2 (s2, regs) p = Some (s2', regs2) ->
  regs1 = regs2 /\ same_tables s1' s2'.
Proof.
  induction p as [|o p IH]; intros s1 s2 regs fs1 fs2 s1' regs1 s2' regs2 St1 St2 ST X1 X2.
  - cbn [run] in X1, X2. inversion X1; inversion X2; subst. auto.
  - cbn [run] in X1, X2.
    destruct (run_op c1 (s1, regs) o) as [[a1 ra]|] eqn:O1; [|discriminate X1].
    destruct (run_op c2 (s2, regs) o) as [[b1 rb]|] eqn:O2; [|discriminate X2].
    destruct (run_op_sim c1 c2 s1 s2 regs fs1 fs2 o a1 ra b1 rb St1 St2 ST O1 O2) as (<- & ST1).
    apply (IH a1 b1 ra (sem_op fs1 o) (sem_op fs2 o) s1' regs1 s2' regs2); try assumption.
    + apply (run_op_ok c1 s1 regs fs1 o a1 ra St1 O1).
    + apply (run_op_ok c2 s2 regs fs2 o b1 ra St2 O2).
Qed.

(** the main simulation theorem: the same program, any two configurations: the same registers,
    the same node table (what is exported, sent to the front end, stored by the web service),
    the same unique table and if-then-else memo table *)
Theorem run_sim c1 c2 p s1 regs1 s2 regs2 :
  run c1 (init c1, []) p = Some (s1, regs1) -> run c2 (init c2, []) p = Some (s2, regs2) ->
  regs1 = regs2 /\ table_of s1 = table_of s2 /\ same_tables s1 s2.
Proof.
  intros X1 X2.
  destruct (run_sim_from c1 c2 p (init c1) (init c2) [] [] [] s1 regs1 s2 regs2
              (init_state c1) (init_state c2) (init_same_tables c1 c2) X1 X2) as (E & ST).
  split; [exact E|]. split; [apply sn_table_of, ST|exact ST].
Qed.

(** ** [ite] again, from the node table alone: the two if-then-else memo tables may be
       arbitrary (well formed) and different.  As for [restrict]: computing a function whose
       diagram is already in the table appends nothing. *)

(** the handles of the two cofactors of [h] at a variable not above its top variable *)
Lemma top_handles st h m : WFN st -> h < size st -> m < VBOT -> m <= topv st h ->
  exists hb ht, hb < size st /\ ht < size st /\
    (forall a, den st hb a = den st h (upd a m false)) /\
    (forall a, den st ht a = den st h (upd a m true)) /\
    (hb = ht \/ TM.find (k3 m hb ht) (uniq st) <> None).
Proof.
  intros W Hh Hm Hle. destruct (N.eq_dec (topv st h) m) as [Et|Nt].
  - assert (H2h : 2 <= h).
    { destruct (N.le_gt_cases h 1) as [Hterm|Hnt]; [|lia].
      pose proof (topv_terminal st h W Hterm). lia. }
    destruct (wf_node' st h W H2h Hh) as (_ & Hne & Hlo & Hhi & _).
    unfold topv in Et.
    exists (nlo (get_node st h)), (nhi (get_node st h)).
    split; [lia|]. split; [lia|]. split; [|split].
    + intros a. rewrite <- Et. symmetry. apply (den_cofactor_lo st W h a H2h Hh).
    + intros a. rewrite <- Et. symmetry. apply (den_cofactor_hi st W h a H2h Hh).
    + right.
      assert (F : NM.find h (nodes st) = Some (get_node st h)) by (apply find_get_node; auto).
      destruct (get_node st h) as [v0 lo0 hi0]. cbn [nv nlo nhi] in *. subst v0.
      assert (U : TM.find (k3 m lo0 hi0) (uniq st) = Some h) by (apply (wf_uniq st W); split; auto).
      rewrite U. discriminate.
  - assert (Hlt : m < topv st h) by lia.
    exists h, h. split; [exact Hh|]. split; [exact Hh|]. split; [|split].
    + intros a. symmetry. apply (den_indep_below st W h a m false Hh Hlt).
    + intros a. symmetry. apply (den_indep_below st W h a m true Hh Hlt).
    + left. reflexivity.
Qed.

(** the six restrictions at the start of an if-then-else step never append a node *)
Lemma restrict_top_noop c st0 st x m b st' r :
  WFN st0 -> same_nodes st0 st -> WF c st -> x < size st0 -> m < VBOT -> m <= topv st0 x ->
  restrict c st x m b = Some (st', r) ->
  WF c st' /\ same_nodes st0 st' /\ r < size st0 /\ feq (den st0 r) (cofactor (den st0 x) m b).
Proof.
  intros W0 SN WFst Hx Hm Hle X.
  destruct (top_handles st0 x m W0 Hx Hm Hle) as (hb & ht & Hhb & Hht & Db & Dt & _).
  set (h := if b then ht else hb).
  assert (Hh0 : h < size st0) by (unfold h; destruct b; assumption).
  assert (Dh : feq (den st0 h) (cofactor (den st0 x) m b)).
  { intros a. unfold cofactor, h. destruct b; [apply Dt|apply Db]. }
  assert (Hxs : x < size st) by (rewrite <- (sn_size st0 st SN); exact Hx).
  assert (Hhs : h < size st) by (rewrite <- (sn_size st0 st SN); exact Hh0).
  assert (Dhs : feq (den st h) (cofactor (den st x) m b)).
  { intros a. unfold cofactor. rewrite <- !(sn_den st0 st _ _ SN). apply Dh. }
  unfold restrict in X.
  destruct (restrict_existing c _ st x m b st' r h WFst Hxs Hhs Dhs X) as (-> & SN').
  destruct (restrict_f_ok c _ st x m b st' h WFst Hxs X) as (WF' & _).
  split; [exact WF'|]. split; [apply (same_nodes_trans st0 st st' SN SN')|]. split; assumption.
Qed.

Lemma ite_result_is c fuel st i t e st' r h :
  WF c st -> i < size st -> t < size st -> e < size st -> h < size st ->
  feq (den st h) (fun a => if den st i a then den st t a else den st e a) ->
  ite_f c fuel st i t e = Some (st', r) ->
  r = h /\ min3 (topv st i) (topv st t) (topv st e) <= topv st h.
Proof.
  intros WFst Hi Ht He Hh Eh X.
  destruct (ite_f_ok c fuel st i t e st' r WFst Hi Ht He X) as (WF' & E & Hr & Hd & Hm).
  pose proof (wf_n c st WFst) as W. pose proof (wf_n c st' WF') as W'.
  assert (Erh : r = h).
  { apply (canonicity st' W' r h Hr (extends_lt st st' h E Hh)). intros a.
    rewrite Hd, (den_extends st st' W E h a Hh). symmetry. apply Eh. }
  subst r. split; [reflexivity|]. rewrite <- (topv_extends st st' h E Hh). exact Hm.
Qed.

Lemma ite_existing c : forall fuel st i t e st' r h,
  WF c st -> i < size st -> t < size st -> e < size st -> h < size st ->
  feq (den st h) (fun a => if den st i a then den st t a else den st e a) ->
  ite_f c fuel st i t e = Some (st', r) -> r = h /\ same_nodes st st'.
Proof.
  induction fuel as [|f IH]; intros st i t e st' r h WFst Hi Ht He Hh Eh X;
    destruct (ite_result_is c _ st i t e st' r h WFst Hi Ht He Hh Eh X) as (-> & Tle);
    (split; [reflexivity|]); rewrite ite_f_unfold in X.
  { destruct (ite_early st i t e) as [r0|]; [|discriminate X]. inversion X; subst. apply same_nodes_refl. }
  destruct (ite_early st i t e) as [r0|] eqn:EE.
  { inversion X; subst. apply same_nodes_refl. }
  pose proof (ite_early_none_nonterminal st i t e EE) as H2.
  pose proof (wf_n c st WFst) as W.
  unfold ite_step in X.
  fold (topv st i) in X. fold (topv st t) in X. fold (topv st e) in X.
  fold (min3 (topv st i) (topv st t) (topv st e)) in X.
  set (m := min3 (topv st i) (topv st t) (topv st e)) in *.
  assert (Hmi : m <= topv st i) by apply min3_le_1.
  assert (Hmt : m <= topv st t) by apply min3_le_2.
  assert (Hme : m <= topv st e) by apply min3_le_3.
  assert (Hm : m < VBOT) by (pose proof (topv_nonterminal st i W H2 Hi); lia).
  apply obind_inv in X. destruct X as ([s1 itop] & X1 & X).
  apply obind_inv in X. destruct X as ([s2 ttop] & X2 & X).
  apply obind_inv in X. destruct X as ([s3 etop] & X3 & X).
  apply obind_inv in X. destruct X as ([s4 ibot] & X4 & X).
  apply obind_inv in X. destruct X as ([s5 tbot] & X5 & X).
  apply obind_inv in X. destruct X as ([s6 ebot] & X6 & X).
  apply obind_inv in X. destruct X as ([s7 top_ite] & X7 & X).
  apply obind_inv in X. destruct X as ([s8 bot_ite] & X8 & X).
  destruct (mk_node c s8 m bot_ite top_ite) as [s9 r9] eqn:M.
  inversion X; subst st' r9. clear X.
  destruct (restrict_top_noop c st st i m true s1 itop W (same_nodes_refl st) WFst Hi Hm Hmi X1)
    as (WF1 & N1 & K1 & D1).
  destruct (restrict_top_noop c st s1 t m true s2 ttop W N1 WF1 Ht Hm Hmt X2) as (WF2 & N2 & K2 & D2).
  destruct (restrict_top_noop c st s2 e m true s3 etop W N2 WF2 He Hm Hme X3) as (WF3 & N3 & K3 & D3).
  destruct (restrict_top_noop c st s3 i m false s4 ibot W N3 WF3 Hi Hm Hmi X4) as (WF4 & N4 & K4 & D4).
  destruct (restrict_top_noop c st s4 t m false s5 tbot W N4 WF4 Ht Hm Hmt X5) as (WF5 & N5 & K5 & D5).
  destruct (restrict_top_noop c st s5 e m false s6 ebot W N5 WF5 He Hm Hme X6) as (WF6 & N6 & K6 & D6).
  destruct (top_handles st h m W Hh Hm Tle) as (hb & ht & Hhb & Hht & Db & Dt & Hu).
  (* first recursive call *)
  pose proof (sn_size st s6 N6) as Z6.
  assert (Et : feq (den s6 ht) (fun a => if den s6 itop a then den s6 ttop a else den s6 etop a)).
  { intros a. rewrite <- !(sn_den st s6 _ _ N6). rewrite Dt, Eh, D1, D2, D3. reflexivity. }
  rewrite Z6 in K1, K2, K3, K4, K5, K6.
  assert (Hht6 : ht < size s6) by (rewrite <- Z6; exact Hht).
  destruct (IH s6 itop ttop etop s7 top_ite ht WF6 K1 K2 K3 Hht6 Et X7) as (-> & N67).
  destruct (ite_f_ok c f s6 itop ttop etop s7 ht WF6 K1 K2 K3 X7) as (WF7 & _).
  (* second recursive call *)
  assert (N7 : same_nodes st s7) by (apply (same_nodes_trans st s6 s7 N6 N67)).
  pose proof (sn_size st s7 N7) as Z7.
  assert (Eb : feq (den s7 hb) (fun a => if den s7 ibot a then den s7 tbot a else den s7 ebot a)).
  { intros a. rewrite <- !(sn_den st s7 _ _ N7). rewrite Db, Eh, D4, D5, D6. reflexivity. }
  rewrite (sn_size s6 s7 N67) in K4, K5, K6.
  assert (Hhb7 : hb < size s7) by (rewrite <- Z7; exact Hhb).
  destruct (IH s7 ibot tbot ebot s8 bot_ite hb WF7 K4 K5 K6 Hhb7 Eb X8) as (-> & N78).
  assert (N8 : same_nodes st s8) by (apply (same_nodes_trans st s7 s8 N7 N78)).
  (* the joining node exists *)
  assert (E9 : s9 = s8).
  { apply (mk_node_noop c s8 m hb ht s9 h); [|exact M].
    destruct Hu as [->|Hu]; [left; reflexivity|right]. rewrite <- (sn_uniq st s8 _ N8). exact Hu. }
  subst s9. apply (same_nodes_trans st s8 _ N8), sn_set_itec.
Qed.

Definition rec_sim_n (c1 c2 : cfg) (rec1 rec2 : store -> N -> N -> N -> option (store * N)) : Prop :=
  forall s1 s2 i t e s1' r1 s2' r2, WF c1 s1 -> WF c2 s2 -> same_nodes s1 s2 ->
    i < size s1 -> t < size s1 -> e < size s1 ->
    rec1 s1 i t e = Some (s1', r1) -> rec2 s2 i t e = Some (s2', r2) ->
    r1 = r2 /\ same_nodes s1' s2'.

Lemma restrict_sim_n c1 c2 s1 s2 t v b s1' r1 s2' r2 :
  WF c1 s1 -> WF c2 s2 -> same_nodes s1 s2 -> t < size s1 ->
  restrict c1 s1 t v b = Some (s1', r1) -> restrict c2 s2 t v b = Some (s2', r2) ->
  r1 = r2 /\ same_nodes s1' s2' /\ WF c1 s1' /\ WF c2 s2' /\ extends s1 s1' /\ r1 < size s1'.
Proof.
  intros WF1 WF2 SN Ht X1 X2.
  destruct (restrict_sim c1 c2 s1 s2 t v b s1' r1 s2' r2 WF1 WF2 SN Ht X1 X2) as (E & SN').
  assert (Ht2 : t < size s2) by (rewrite <- (sn_size s1 s2 SN); exact Ht).
  unfold restrict in X1, X2.
  destruct (restrict_f_ok c1 _ s1 t v b s1' r1 WF1 Ht X1) as (WF1' & E1 & Hr1 & _).
  destruct (restrict_f_ok c2 _ s2 t v b s2' r2 WF2 Ht2 X2) as (WF2' & _).
  auto 10.
Qed.

Lemma ite_step_sim_n c1 c2 rec1 rec2 : rec_sim_n c1 c2 rec1 rec2 -> rec_ok c1 rec1 -> rec_ok c2 rec2 ->
  rec_sim_n c1 c2 (ite_step c1 rec1) (ite_step c2 rec2).
Proof.
  intros RS R1 R2 s1 s2 i t e s1' r1 s2' r2 WF1 WF2 SN Hi Ht He X1 X2.
  unfold ite_step in X1, X2.
  rewrite <- !(sn_get_node s1 s2 _ SN) in X2.
  set (m := N.min (nv (get_node s1 i)) (N.min (nv (get_node s1 t)) (nv (get_node s1 e)))) in *.
  apply obind_inv in X1. destruct X1 as ([a1 itop] & A1 & X1).
  apply obind_inv in X1. destruct X1 as ([a2 ttop] & A2 & X1).
  apply obind_inv in X1. destruct X1 as ([a3 etop] & A3 & X1).
  apply obind_inv in X1. destruct X1 as ([a4 ibot] & A4 & X1).
  apply obind_inv in X1. destruct X1 as ([a5 tbot] & A5 & X1).
  apply obind_inv in X1. destruct X1 as ([a6 ebot] & A6 & X1).
  apply obind_inv in X1. destruct X1 as ([a7 top1] & A7 & X1).
  apply obind_inv in X1. destruct X1 as ([a8 bot1] & A8 & X1).
  destruct (mk_node c1 a8 m bot1 top1) as [a9 q1] eqn:M1. inversion X1; subst s1' q1. clear X1.
  apply obind_inv in X2. destruct X2 as ([b1 itop2] & B1 & X2).
  apply obind_inv in X2. destruct X2 as ([b2 ttop2] & B2 & X2).
  apply obind_inv in X2. destruct X2 as ([b3 etop2] & B3 & X2).
  apply obind_inv in X2. destruct X2 as ([b4 ibot2] & B4 & X2).
  apply obind_inv in X2. destruct X2 as ([b5 tbot2] & B5 & X2).
  apply obind_inv in X2. destruct X2 as ([b6 ebot2] & B6 & X2).
  apply obind_inv in X2. destruct X2 as ([b7 top2] & B7 & X2).
  apply obind_inv in X2. destruct X2 as ([b8 bot2] & B8 & X2).
  destruct (mk_node c2 b8 m bot2 top2) as [b9 q2] eqn:M2. inversion X2; subst s2' q2. clear X2.
  destruct (restrict_sim_n c1 c2 s1 s2 i m true a1 itop b1 itop2 WF1 WF2 SN Hi A1 B1)
    as (<- & T1 & WFa1 & WFb1 & E01 & Hitop).
  assert (Ht1 : t < size a1) by (apply (extends_lt s1 a1 t E01 Ht)).
  destruct (restrict_sim_n c1 c2 a1 b1 t m true a2 ttop b2 ttop2 WFa1 WFb1 T1 Ht1 A2 B2)
    as (<- & T2 & WFa2 & WFb2 & E12 & Httop).
  assert (E02 : extends s1 a2) by (apply (extends_trans s1 a1 a2 E01 E12)).
  assert (He2 : e < size a2) by (apply (extends_lt s1 a2 e E02 He)).
  destruct (restrict_sim_n c1 c2 a2 b2 e m true a3 etop b3 etop2 WFa2 WFb2 T2 He2 A3 B3)
    as (<- & T3 & WFa3 & WFb3 & E23 & Hetop).
  assert (E03 : extends s1 a3) by (apply (extends_trans s1 a2 a3 E02 E23)).
  assert (Hi3 : i < size a3) by (apply (extends_lt s1 a3 i E03 Hi)).
  destruct (restrict_sim_n c1 c2 a3 b3 i m false a4 ibot b4 ibot2 WFa3 WFb3 T3 Hi3 A4 B4)
    as (<- & T4 & WFa4 & WFb4 & E34 & Hibot).
  assert (E04 : extends s1 a4) by (apply (extends_trans s1 a3 a4 E03 E34)).
  assert (Ht4 : t < size a4) by (apply (extends_lt s1 a4 t E04 Ht)).
  destruct (restrict_sim_n c1 c2 a4 b4 t m false a5 tbot b5 tbot2 WFa4 WFb4 T4 Ht4 A5 B5)
    as (<- & T5 & WFa5 & WFb5 & E45 & Htbot).
  assert (E05 : extends s1 a5) by (apply (extends_trans s1 a4 a5 E04 E45)).
  assert (He5 : e < size a5) by (apply (extends_lt s1 a5 e E05 He)).
  destruct (restrict_sim_n c1 c2 a5 b5 e m false a6 ebot b6 ebot2 WFa5 WFb5 T5 He5 A6 B6)
    as (<- & T6 & WFa6 & WFb6 & E56 & Hebot).
  assert (E46 : extends a4 a6) by (apply (extends_trans a4 a5 a6 E45 E56)).
  assert (E36 : extends a3 a6) by (apply (extends_trans a3 a4 a6 E34 E46)).
  assert (E26 : extends a2 a6) by (apply (extends_trans a2 a3 a6 E23 E36)).
  assert (E16 : extends a1 a6) by (apply (extends_trans a1 a2 a6 E12 E26)).
  assert (K1 : itop < size a6) by (apply (extends_lt a1 a6 _ E16 Hitop)).
  assert (K2 : ttop < size a6) by (apply (extends_lt a2 a6 _ E26 Httop)).
  assert (K3 : etop < size a6) by (apply (extends_lt a3 a6 _ E36 Hetop)).
  assert (K4 : ibot < size a6) by (apply (extends_lt a4 a6 _ E46 Hibot)).
  assert (K5 : tbot < size a6) by (apply (extends_lt a5 a6 _ E56 Htbot)).
  destruct (RS a6 b6 itop ttop etop a7 top1 b7 top2 WFa6 WFb6 T6 K1 K2 K3 A7 B7) as (<- & T7).
  destruct (R1 a6 itop ttop etop a7 top1 WFa6 K1 K2 K3 A7) as (WFa7 & E67 & _).
  assert (K1b : itop < size b6) by (rewrite <- (sn_size a6 b6 T6); exact K1).
  assert (K2b : ttop < size b6) by (rewrite <- (sn_size a6 b6 T6); exact K2).
  assert (K3b : etop < size b6) by (rewrite <- (sn_size a6 b6 T6); exact K3).
  destruct (R2 b6 itop ttop etop b7 top1 WFb6 K1b K2b K3b B7) as (WFb7 & _).
  assert (L4 : ibot < size a7) by (apply (extends_lt a6 a7 _ E67 K4)).
  assert (L5 : tbot < size a7) by (apply (extends_lt a6 a7 _ E67 K5)).
  assert (L6 : ebot < size a7) by (apply (extends_lt a6 a7 _ E67 Hebot)).
  destruct (RS a7 b7 ibot tbot ebot a8 bot1 b8 bot2 WFa7 WFb7 T7 L4 L5 L6 A8 B8) as (<- & T8).
  destruct (mk_node_sim_eq c1 c2 a8 b8 m bot1 top1 a9 r1 b9 r2 T8 M1 M2) as (<- & SN9).
  split; [reflexivity|].
  apply (same_nodes_trans _ a9); [apply same_nodes_sym, sn_set_itec|].
  apply (same_nodes_trans _ b9); [exact SN9|apply sn_set_itec].
Qed.

Lemma ite_f_sim_n c1 c2 : forall fuel, rec_sim_n c1 c2 (ite_f c1 fuel) (ite_f c2 fuel).
Proof.
  induction fuel as [|f IH]; intros s1 s2 i t e s1' r1 s2' r2 WF1 WF2 SN Hi Ht He X1 X2.
  - (* no fuel: both runs answer from the early exits; both results exist *)
    pose proof X1 as Y1. rewrite ite_f_unfold in Y1.
    destruct (ite_early s1 i t e) as [r0|] eqn:EE; [|discriminate Y1].
    inversion Y1; subst s1' r0.
    destruct (ite_early_ok c1 s1 i t e r1 WF1 Hi Ht He EE) as (_ & Hr1 & D1 & _).
    destruct (ite_existing c2 0 s2 i t e s2' r2 r1 WF2) as (-> & S2); try (rewrite <- (sn_size s1 s2 SN); assumption).
    + intros a. rewrite <- !(sn_den s1 s2 _ _ SN). apply D1.
    + exact X2.
    + split; [reflexivity|]. apply (same_nodes_trans s1 s2 s2' SN S2).
  - pose proof X1 as Y1. pose proof X2 as Y2. rewrite ite_f_unfold in Y1, Y2.
    destruct (ite_early s1 i t e) as [r0|] eqn:EE1.
    { inversion Y1; subst s1' r0.
      destruct (ite_early_ok c1 s1 i t e r1 WF1 Hi Ht He EE1) as (_ & Hr1 & D1 & _).
      destruct (ite_existing c2 (S f) s2 i t e s2' r2 r1 WF2) as (-> & S2); try (rewrite <- (sn_size s1 s2 SN); assumption).
      + intros a. rewrite <- !(sn_den s1 s2 _ _ SN). apply D1.
      + exact X2.
      + split; [reflexivity|]. apply (same_nodes_trans s1 s2 s2' SN S2). }
    assert (Hi2 : i < size s2) by (rewrite <- (sn_size s1 s2 SN); exact Hi).
    assert (Ht2 : t < size s2) by (rewrite <- (sn_size s1 s2 SN); exact Ht).
    assert (He2 : e < size s2) by (rewrite <- (sn_size s1 s2 SN); exact He).
    destruct (ite_early s2 i t e) as [r0|] eqn:EE2.
    { inversion Y2; subst s2' r0.
      destruct (ite_early_ok c2 s2 i t e r2 WF2 Hi2 Ht2 He2 EE2) as (_ & Hr2 & D2 & _).
      destruct (ite_existing c1 (S f) s1 i t e s1' r1 r2 WF1 Hi Ht He) as (-> & S1).
      + rewrite (sn_size s1 s2 SN). exact Hr2.
      + intros a. rewrite !(sn_den s1 s2 _ _ SN). apply D2.
      + exact X1.
      + split; [reflexivity|]. apply (same_nodes_trans s1' s1 s2); [apply same_nodes_sym; exact S1|exact SN]. }
    apply (ite_step_sim_n c1 c2 (ite_f c1 f) (ite_f c2 f) IH) with (s1 := s1) (s2 := s2) (i := i) (t := t) (e := e);
      try assumption.
    + intros st i0 t0 e0 st' r. apply ite_f_ok.
    + intros st i0 t0 e0 st' r. apply ite_f_ok.
Qed.

(** the simulation theorem for [ite], from the node table alone *)
Theorem ite_sim c1 c2 s1 s2 i t e s1' r1 s2' r2 :
  WF c1 s1 -> WF c2 s2 -> same_nodes s1 s2 -> i < size s1 -> t < size s1 -> e < size s1 ->
  ite c1 s1 i t e = Some (s1', r1) -> ite c2 s2 i t e = Some (s2', r2) ->
  r1 = r2 /\ same_nodes s1' s2'.
Proof.
  intros WF1 WF2 SN Hi Ht He X1 X2. unfold ite in X1, X2.
  rewrite <- (sn_size s1 s2 SN) in X2.
  apply (ite_f_sim_n c1 c2 _ s1 s2 i t e s1' r1 s2' r2 WF1 WF2 SN Hi Ht He X1 X2).
Qed.

(* ================================================================== *)
(** * Part C: the feature table of lib/Cargo.toml ([g_features_lib], generated) *)
Module Features.
  Import String.
  Local Open Scope string_scope.
  Local Open Scope list_scope.

  Definition enabled (en : list string) (f : string) : bool := existsb (String.eqb f) en.

  (** one pass over the [features] table: every enabled feature enables what it lists *)
  Definition closure_step (tbl : list (string * list string)) (en : list string) : list string :=
    fold_left (fun acc kv =>
                 if enabled acc (fst kv)
                 then fold_left (fun a d => if enabled a d then a else a ++ [d]) (snd kv) acc
                 else acc) tbl en.

  (** cargo's feature unification: the transitive closure; [length tbl] passes suffice
      (checked below: the result is closed) *)
  Definition closure (tbl : list (string * list string)) (en : list string) : list string :=
    Nat.iter (List.length tbl) (closure_step tbl) en.

  (** the configuration a feature set selects (the [#[cfg(feature = ...)]] attributes of obdd.rs) *)
  Definition cfg_of (en : list string) : cfg :=
    mkCfg (if enabled en "adhoccountmodels" then 2%N else if enabled en "adhoccounting" then 1%N else 0%N)
          (enabled en "variablelist").

  Fixpoint powerset {A} (l : list A) : list (list A) :=
    match l with
    | [] => [[]]
    | x :: r => let ps := powerset r in ps ++ map (cons x) ps
    end.

  Definition feature_names : list string := map fst g_features_lib.
  Definition all_feature_sets : list (list string) := powerset feature_names.
  Definition all_cfgs : list cfg :=
    [mkCfg 0 false; mkCfg 0 true; mkCfg 1 false; mkCfg 1 true; mkCfg 2 false; mkCfg 2 true].

  Definition cfg_eqb (c d : cfg) : bool := N.eqb (adhoc c) (adhoc d) && Bool.eqb (varlist c) (varlist d).
  Lemma cfg_eqb_eq c d : cfg_eqb c d = true -> c = d.
  Proof.
    destruct c as [a v], d as [a' v']. unfold cfg_eqb. cbn [adhoc varlist]. intros H.
    apply andb_true_iff in H. destruct H as [H1 H2]. apply N.eqb_eq in H1. apply Bool.eqb_prop in H2.
    subst. reflexivity.
  Qed.

  (** closed under the table, and contains the requested features *)
  Definition closed_b (tbl : list (string * list string)) (req en : list string) : bool :=
    forallb (enabled en) req &&
    forallb (fun kv => implb (enabled en (fst kv)) (forallb (enabled en) (snd kv))) tbl.
  (** nothing is enabled that is not requested or listed by the table *)
  Definition sound_b (tbl : list (string * list string)) (req en : list string) : bool :=
    forallb (fun f => enabled req f || existsb (fun kv => enabled en (fst kv) && enabled (snd kv) f) tbl) en.

  Definition check_set (s : list string) : bool :=
    let e := closure g_features_lib s in
    implb (enabled e "adhoccountmodels") (enabled e "adhoccounting") &&
    closed_b g_features_lib s e && sound_b g_features_lib s e &&
    existsb (cfg_eqb (cfg_of e)) all_cfgs.

  Definition check_cover : bool :=
    forallb (fun c => forallb (fun fe =>
      existsb (fun s => cfg_eqb (cfg_of (closure g_features_lib s)) c &&
                        Bool.eqb (enabled (closure g_features_lib s) "frontend") fe) all_feature_sets)
      [true; false]) all_cfgs.

  Lemma number_of_feature_sets : List.length all_feature_sets = 256%nat.
  Proof. vm_compute. reflexivity. Qed.

  Lemma all_cfgs_adhoc c : In c all_cfgs -> (adhoc c <= 2)%N.
  Proof. intros H. repeat (destruct H as [<-|H]; [cbn; lia|]). destruct H. Qed.

  Lemma all_cfgs_complete c : (adhoc c <= 2)%N -> In c all_cfgs.
  Proof.
    destruct c as [a v]. cbn [adhoc]. intros H.
    assert (a = 0 \/ a = 1 \/ a = 2)%N as [-> | [-> | ->]] by lia; destruct v; cbn; tauto.
  Qed.

  Lemma check_set_elim s : check_set s = true ->
    let e := closure g_features_lib s in
    (enabled e "adhoccountmodels" = true -> enabled e "adhoccounting" = true) /\
    closed_b g_features_lib s e = true /\ sound_b g_features_lib s e = true /\
    In (cfg_of e) all_cfgs.
  Proof.
    unfold check_set. cbv zeta. generalize (closure g_features_lib s). intros e A.
    apply andb_true_iff in A. destruct A as [A A4].
    apply andb_true_iff in A. destruct A as [A A3].
    apply andb_true_iff in A. destruct A as [A1 A2].
    split; [|split; [exact A2|split; [exact A3|]]].
    + intros H. rewrite H in A1. cbn [implb] in A1. exact A1.
    + apply existsb_exists in A4. destruct A4 as (c & Hc & Ec). apply cfg_eqb_eq in Ec.
      rewrite Ec. exact Hc.
  Qed.

  (** (a) [adhoccountmodels] never occurs without [adhoccounting], so [adhoc] is well defined;
      (b) the feature sets reach exactly the six configurations, each with and without [frontend];
      (c) the default feature set selects [cfg_default] (and no feature selects [mkCfg 0 false]) *)
  Theorem features_cover_cfg_space :
    (forall s, In s all_feature_sets ->
       let e := closure g_features_lib s in
       (enabled e "adhoccountmodels" = true -> enabled e "adhoccounting" = true) /\
       closed_b g_features_lib s e = true /\ sound_b g_features_lib s e = true /\
       In (cfg_of e) all_cfgs) /\
    (forall c fe, In c all_cfgs -> exists s, In s all_feature_sets /\
       cfg_of (closure g_features_lib s) = c /\ enabled (closure g_features_lib s) "frontend" = fe) /\
    cfg_of (closure g_features_lib ["default"]) = cfg_default /\
    enabled (closure g_features_lib ["default"]) "frontend" = true /\
    cfg_of (closure g_features_lib []) = mkCfg 0 false.
  Proof.
    assert (A : forallb check_set all_feature_sets = true) by (vm_compute; reflexivity).
    assert (B : check_cover = true) by (vm_compute; reflexivity).
    split; [|split; [|split; [|split]]].
    - intros s Hs. rewrite forallb_forall in A. apply check_set_elim. apply A. exact Hs.
    - intros c fe Hc. unfold check_cover in B. rewrite forallb_forall in B. specialize (B c Hc).
      rewrite forallb_forall in B. specialize (B fe ltac:(destruct fe; cbn; tauto)).
      apply existsb_exists in B. destruct B as (s & Hs & E).
      apply andb_true_iff in E. destruct E as [E1 E2]. apply cfg_eqb_eq in E1. apply Bool.eqb_prop in E2.
      exists s. auto.
    - vm_compute. reflexivity.
    - vm_compute. reflexivity.
    - vm_compute. reflexivity.
  Qed.

  (** how the 256 feature sets distribute over the values of [adhoc]; the 112 sets with
      [adhoc = 1] (among them the default set) are those of the documented exception *)
  Lemma adhoc_distribution :
    map (fun a => List.length (filter (fun s => N.eqb (adhoc (cfg_of (closure g_features_lib s))) a)
                                      all_feature_sets)) [0%N; 1%N; 2%N] = [16%nat; 112%nat; 128%nat].
  Proof. vm_compute. reflexivity. Qed.

  (** the whole property for the diagram package: under EVERY feature set of the library a program
      issues the same handles and builds the same node table as under the default feature set, and all queries on
      them return the same answers (model counts: unless the memoised variant is asked in a build
      with ad-hoc path counting but without ad-hoc model counting, as the default build is) *)
  Theorem feature_sets_agree_with_default s p s1 regs1 s2 regs2 k m1 m2 :
    In s all_feature_sets ->
    let c := cfg_of (closure g_features_lib s) in
    let d := cfg_of (closure g_features_lib ["default"]) in
    run c (init c, []) p = Some (s1, regs1) -> run d (init d, []) p = Some (s2, regs2) ->
    regs1 = regs2 /\ table_of s1 = table_of s2 /\
    feq (den s1 (reg regs1 k)) (den s2 (reg regs2 k)) /\
    snd (paths c s1 (reg regs1 k) m1) = snd (paths d s2 (reg regs2 k) m2) /\
    max_depth c s1 (reg regs1 k) = max_depth d s2 (reg regs2 k) /\
    ((adhoc c = 1%N -> m1 = false) -> m2 = false ->
       snd (models c s1 (reg regs1 k) m1) = snd (models d s2 (reg regs2 k) m2)) /\
    (forall v, In v (var_dependencies c s1 (reg regs1 k)) <-> In v (var_dependencies d s2 (reg regs2 k))).
  Proof.
    intros Hs c d X1 X2.
    destruct features_cover_cfg_space as (F1 & _ & F3 & _).
    destruct (F1 s Hs) as (_ & _ & _ & Hc). fold c in Hc.
    assert (Ed : d = cfg_default) by exact F3.
    assert (A1 : (adhoc c <= 2)%N) by (apply all_cfgs_adhoc; exact Hc).
    assert (A2 : (adhoc d <= 2)%N) by (rewrite Ed; cbn; lia).
    destruct (run_queries_cfg_independent c d p s1 regs1 s2 regs2 k m1 m2 A1 A2 X1 X2) as (Q1 & Q2 & Q3 & Q4).
    destruct (run_sim c d p s1 regs1 s2 regs2 X1 X2) as (R1 & R2 & _).
    split; [exact R1|]. split; [exact R2|].
    split; [apply (run_cfg_den_nth c d p s1 regs1 s2 regs2 k X1 X2)|].
    split; [exact Q1|]. split; [exact Q2|]. split; [|exact Q4].
    intros M1 M2. apply Q3; [exact M1|intros _; exact M2].
  Qed.
End Features.

Print Assumptions run_cfg_den.
Print Assumptions iso_of_feq.
Print Assumptions queries_cfg_independent.
Print Assumptions run_queries_cfg_independent.
Print Assumptions mk_node_sim.
Print Assumptions restrict_existing.
Print Assumptions restrict_sim.
Print Assumptions ite_sim_tables.
Print Assumptions ite_existing.
Print Assumptions ite_sim.
Print Assumptions run_sim.
Print Assumptions impact_cfg_independent.
Print Assumptions Features.features_cover_cfg_space.
Print Assumptions Features.feature_sets_agree_with_default.
