(** The node stream of the diagram package (obdd/frontend.rs: sender, Bdd::recv) and the
    three-party mirror system producer -> relay -> receiver driven by the test harness.

    1. every public operation only appends to the node table and sends exactly the appended
       nodes, in order ([appends]);
    2. [recv] consumes a prefix of the pending messages, appends it verbatim and forwards it;
    3. the mirror invariant of the three-party system for every interleaving of operations,
       channel pumps and polls at node granularity. *)
From Coq Require Import NArith List Bool Lia ListSet Arith.
From ADF Require Import Base.Maps Spec.Spec Bdd.Store Bdd.WF Bdd.Node Bdd.Restrict Bdd.Ite
  Bdd.IteTotal Bdd.Ops Bdd.Canon.
Import ListNotations.
Local Open Scope N_scope.

(** * 1. operations and the stream *)

(** the nodes sent so far, oldest first *)
Definition sent (st : store) : list node :=
  match outq st with Some q => rev q | None => [] end.

Definition appends (st st' : store) : Prop :=
  exists new, table_of st' = table_of st ++ new /\
    (forall q, outq st = Some q -> outq st' = Some (rev new ++ q)) /\
    (outq st = None -> outq st' = None).

(** ** list facts *)
Lemma skipn_app_exact {A} (a b : list A) : skipn (length a) (a ++ b) = b.
Proof. induction a as [|x a IH]; [reflexivity|exact IH]. Qed.

Lemma firstn_app_exact {A} (a b : list A) : firstn (length a) (a ++ b) = a.
Proof. induction a as [|x a IH]; [reflexivity|cbn [length app firstn]; rewrite IH; reflexivity]. Qed.

(** ** the table as a list: adding at index [size] appends *)
Lemma table_of_snoc st st' n :
  nodes st' = NM.add (size st) n (nodes st) -> size st' = size st + 1 ->
  table_of st' = table_of st ++ [n].
Proof.
  intros En Es. unfold table_of. rewrite Es.
  replace (N.to_nat (size st + 1)) with (S (N.to_nat (size st))) by lia.
  rewrite seq_S, map_app. cbn [map Nat.add]. f_equal.
  - apply map_ext_in. intros h Hh. apply in_seq in Hh. unfold get_node.
    rewrite En, nm_find_add.
    destruct (N.eqb_spec (size st) (N.of_nat h)) as [He|_]; [lia|reflexivity].
  - unfold get_node. rewrite En, nm_find_add, N2Nat.id, N.eqb_refl. reflexivity.
Qed.

Lemma table_of_same st st' : nodes st' = nodes st -> size st' = size st -> table_of st' = table_of st.
Proof. intros En Es. unfold table_of, get_node. rewrite En, Es. reflexivity. Qed.

Lemma size_table st : size st = N.of_nat (length (table_of st)).
Proof. symmetry. apply table_len. Qed.

(** ** [appends] is a preorder containing the elementary steps *)
Lemma appends_refl st : appends st st.
Proof.
  exists []. rewrite app_nil_r. split; [reflexivity|]. split; [intros q Hq; exact Hq|auto].
Qed.

Lemma appends_trans a b c : appends a b -> appends b c -> appends a c.
Proof.
  intros (n1 & T1 & Q1 & N1) (n2 & T2 & Q2 & N2). exists (n1 ++ n2).
  split; [rewrite T2, T1, app_assoc; reflexivity|]. split.
  - intros q Hq. rewrite (Q2 _ (Q1 _ Hq)), rev_app_distr, app_assoc. reflexivity.
  - intros Hq. apply N2, N1, Hq.
Qed.

Lemma appends_same st st' :
  nodes st' = nodes st -> size st' = size st -> outq st' = outq st -> appends st st'.
Proof.
  intros En Es Eo. exists []. rewrite app_nil_r.
  split; [apply table_of_same; assumption|]. rewrite Eo. split; [intros q Hq; exact Hq|auto].
Qed.

Lemma appends_snoc st st' n :
  nodes st' = NM.add (size st) n (nodes st) -> size st' = size st + 1 ->
  outq st' = (match outq st with Some q => Some (n :: q) | None => None end) ->
  appends st st'.
Proof.
  intros En Es Eo. exists [n]. split; [apply table_of_snoc; assumption|].
  rewrite Eo. split; [intros q Hq; rewrite Hq; reflexivity|intros Hq; rewrite Hq; reflexivity].
Qed.

Lemma set_resc_appends st k r : appends st (set_resc st k r).
Proof. apply appends_same; reflexivity. Qed.
Lemma set_itec_appends st k r : appends st (set_itec st k r).
Proof. apply appends_same; reflexivity. Qed.

(** ** [mk_node]: no hypothesis on the store is needed *)
Lemma mk_node_appends_gen c st v lo hi st' r : mk_node c st v lo hi = (st', r) -> appends st st'.
Proof.
  unfold mk_node. destruct (lo =? hi).
  { intros X; inversion X; subst. apply appends_refl. }
  destruct (TM.find (k3 v lo hi) (uniq st)) as [t|].
  { intros X; inversion X; subst. apply appends_refl. }
  destruct (varlist c); destruct (1 <=? adhoc c); intros X; inversion X; subst st' r;
    apply (appends_snoc _ _ (mkN v lo hi)); reflexivity.
Qed.

Lemma mk_node_appends c st v lo hi st' r :
  WF c st -> v < VBOT -> lo < size st -> hi < size st -> v < topv st lo -> v < topv st hi ->
  mk_node c st v lo hi = (st', r) -> appends st st'.
Proof. intros _ _ _ _ _ _. apply mk_node_appends_gen. Qed.

(** ** a generic frame principle over the fuel inductions: every relation on stores that is a
       preorder and contains the three elementary updates contains all operations *)
Section Frame.
  Variable P : store -> store -> Prop.
  Hypothesis P_refl : forall st, P st st.
  Hypothesis P_trans : forall a b c, P a b -> P b c -> P a c.
  Hypothesis P_mk : forall c st v lo hi st' r, mk_node c st v lo hi = (st', r) -> P st st'.
  Hypothesis P_resc : forall st k r, P st (set_resc st k r).
  Hypothesis P_itec : forall st k r, P st (set_itec st k r).

  Lemma restrict_f_frame c : forall fuel st tree var b st' r,
    restrict_f c fuel st tree var b = Some (st', r) -> P st st'.
  Proof.
    induction fuel as [|f IH]; intros st tree var b st' r X; [discriminate X|].
    cbn [restrict_f] in X.
    destruct (TM.find (k3 tree var (b2n b)) (resc st)) as [r0|].
    { inversion X; subst. apply P_refl. }
    destruct (varlist c && negb (nset_mem var (get_vd st tree))).
    { inversion X; subst. apply P_refl. }
    destruct ((var <? nv (get_node st tree)) || (VBOT <=? nv (get_node st tree))).
    { inversion X; subst. apply P_refl. }
    destruct (nv (get_node st tree) <? var).
    - apply obind_inv in X. destruct X as ([st1 lo'] & X1 & X).
      apply obind_inv in X. destruct X as ([st2 hi'] & X2 & X).
      destruct (mk_node c st2 (nv (get_node st tree)) lo' hi') as [st3 r3] eqn:M.
      inversion X; subst st' r3.
      apply (P_trans _ st1); [apply (IH _ _ _ _ _ _ X1)|].
      apply (P_trans _ st2); [apply (IH _ _ _ _ _ _ X2)|].
      apply (P_trans _ st3); [apply (P_mk _ _ _ _ _ _ _ M)|apply P_resc].
    - apply obind_inv in X. destruct X as ([st1 r1] & X1 & X).
      inversion X; subst st' r1.
      apply (P_trans _ st1); [apply (IH _ _ _ _ _ _ X1)|apply P_resc].
  Qed.

  Lemma restrict_frame c st tree var b st' r : restrict c st tree var b = Some (st', r) -> P st st'.
  Proof. unfold restrict. apply restrict_f_frame. Qed.

  Lemma ite_step_frame c rec st i t e st' r :
    (forall st i t e st' r, rec st i t e = Some (st', r) -> P st st') ->
    ite_step c rec st i t e = Some (st', r) -> P st st'.
  Proof.
    intros IH X. unfold ite_step in X.
    apply obind_inv in X. destruct X as ([s1 itop] & X1 & X).
    apply obind_inv in X. destruct X as ([s2 ttop] & X2 & X).
    apply obind_inv in X. destruct X as ([s3 etop] & X3 & X).
    apply obind_inv in X. destruct X as ([s4 ibot] & X4 & X).
    apply obind_inv in X. destruct X as ([s5 tbot] & X5 & X).
    apply obind_inv in X. destruct X as ([s6 ebot] & X6 & X).
    apply obind_inv in X. destruct X as ([s7 top_ite] & X7 & X).
    apply obind_inv in X. destruct X as ([s8 bot_ite] & X8 & X).
    match type of X with context [mk_node ?cc ?ss ?vv ?ll ?hh] =>
      destruct (mk_node cc ss vv ll hh) as [s9 r9] eqn:M end.
    inversion X; subst st' r9. clear X.
    apply (P_trans _ s1); [apply (restrict_frame _ _ _ _ _ _ _ X1)|].
    apply (P_trans _ s2); [apply (restrict_frame _ _ _ _ _ _ _ X2)|].
    apply (P_trans _ s3); [apply (restrict_frame _ _ _ _ _ _ _ X3)|].
    apply (P_trans _ s4); [apply (restrict_frame _ _ _ _ _ _ _ X4)|].
    apply (P_trans _ s5); [apply (restrict_frame _ _ _ _ _ _ _ X5)|].
    apply (P_trans _ s6); [apply (restrict_frame _ _ _ _ _ _ _ X6)|].
    apply (P_trans _ s7); [apply (IH _ _ _ _ _ _ X7)|].
    apply (P_trans _ s8); [apply (IH _ _ _ _ _ _ X8)|].
    apply (P_trans _ s9); [apply (P_mk _ _ _ _ _ _ _ M)|apply P_itec].
  Qed.

  Lemma ite_f_frame c : forall fuel st i t e st' r,
    ite_f c fuel st i t e = Some (st', r) -> P st st'.
  Proof.
    induction fuel as [|f IH]; intros st i t e st' r X; rewrite ite_f_unfold in X.
    - destruct (ite_early st i t e) as [r0|]; [|discriminate X]. inversion X; subst. apply P_refl.
    - destruct (ite_early st i t e) as [r0|].
      + inversion X; subst. apply P_refl.
      + apply (ite_step_frame c (ite_f c f) st i t e st' r IH X).
  Qed.

  Lemma ite_frame c st i t e st' r : ite c st i t e = Some (st', r) -> P st st'.
  Proof. unfold ite. apply ite_f_frame. Qed.

  Lemma run_op_frame c st regs o st' regs' :
    run_op c (st, regs) o = Some (st', regs') -> P st st'.
  Proof.
    intros X.
    destruct o as [v|b|a|a b|a b|a b|a b|a b|a v b]; cbn [run_op] in X.
    - destruct (VBOT <=? v); [discriminate X|].
      apply push_inv in X. destruct X as (r & X & _). inversion X as [X'].
      unfold variable in X'. apply (P_mk _ _ _ _ _ _ _ X').
    - apply push_inv in X. destruct X as (r & X & _). inversion X; subst. apply P_refl.
    - apply push_inv in X. destruct X as (r & X & _). apply (ite_frame _ _ _ _ _ _ _ X).
    - apply push_inv in X. destruct X as (r & X & _). apply (ite_frame _ _ _ _ _ _ _ X).
    - apply push_inv in X. destruct X as (r & X & _). apply (ite_frame _ _ _ _ _ _ _ X).
    - apply push_inv in X. destruct X as (r & X & _). apply (ite_frame _ _ _ _ _ _ _ X).
    - apply push_inv in X. destruct X as (r & X & _). unfold biff in X.
      apply obind_inv in X. destruct X as ([s1 nb] & X1 & X).
      apply (P_trans _ s1); [apply (ite_frame _ _ _ _ _ _ _ X1)|apply (ite_frame _ _ _ _ _ _ _ X)].
    - apply push_inv in X. destruct X as (r & X & _). unfold bxor in X.
      apply obind_inv in X. destruct X as ([s1 nb] & X1 & X).
      apply (P_trans _ s1); [apply (ite_frame _ _ _ _ _ _ _ X1)|apply (ite_frame _ _ _ _ _ _ _ X)].
    - apply push_inv in X. destruct X as (r & X & _). apply (restrict_frame _ _ _ _ _ _ _ X).
  Qed.

  Lemma run_frame c : forall p st regs st' regs',
    run c (st, regs) p = Some (st', regs') -> P st st'.
  Proof.
    induction p as [|o p IH]; intros st regs st' regs' X.
    - cbn [run] in X. inversion X; subst. apply P_refl.
    - cbn [run] in X. destruct (run_op c (st, regs) o) as [[st1 regs1]|] eqn:X1; [|discriminate X].
      apply (P_trans _ st1); [apply (run_op_frame _ _ _ _ _ _ X1)|apply (IH _ _ _ _ X)].
  Qed.
End Frame.

(** ** the operations append and send exactly what they append (for arbitrary stores) *)
Theorem restrict_f_appends_gen c fuel st tree var b st' r :
  restrict_f c fuel st tree var b = Some (st', r) -> appends st st'.
Proof.
  apply (restrict_f_frame appends appends_refl appends_trans mk_node_appends_gen set_resc_appends).
Qed.

Theorem ite_f_appends_gen c fuel st i t e st' r :
  ite_f c fuel st i t e = Some (st', r) -> appends st st'.
Proof.
  apply (ite_f_frame appends appends_refl appends_trans mk_node_appends_gen
           set_resc_appends set_itec_appends).
Qed.

Theorem run_op_appends_gen c st regs o st' regs' :
  run_op c (st, regs) o = Some (st', regs') -> appends st st'.
Proof.
  apply (run_op_frame appends appends_refl appends_trans mk_node_appends_gen
           set_resc_appends set_itec_appends).
Qed.

Theorem run_appends_gen c p st regs st' regs' :
  run c (st, regs) p = Some (st', regs') -> appends st st'.
Proof.
  apply (run_frame appends appends_refl appends_trans mk_node_appends_gen
           set_resc_appends set_itec_appends).
Qed.

(** the statements with the hypotheses under which the operations are specified *)
Theorem restrict_f_appends c fuel st tree var b st' r :
  WF c st -> tree < size st -> restrict_f c fuel st tree var b = Some (st', r) -> appends st st'.
Proof. intros _ _. apply restrict_f_appends_gen. Qed.

Theorem ite_f_appends c fuel st i t e st' r :
  WF c st -> i < size st -> t < size st -> e < size st ->
  ite_f c fuel st i t e = Some (st', r) -> appends st st'.
Proof. intros _ _ _ _. apply ite_f_appends_gen. Qed.

Theorem run_op_appends c st regs fs o st' regs' :
  State c st regs fs -> run_op c (st, regs) o = Some (st', regs') -> appends st st'.
Proof. intros _. apply run_op_appends_gen. Qed.

Theorem run_appends c p st regs fs st' regs' :
  State c st regs fs -> run c (st, regs) p = Some (st', regs') -> appends st st'.
Proof. intros _. apply run_appends_gen. Qed.

(** attaching a sender does not disturb well-formedness: the hypotheses above hold for a producer *)
Lemma set_outq_WF c st q : WF c st -> WF c (set_outq st q).
Proof.
  intros [W R I V]. constructor.
  - apply (WFN_nodes_eq st); auto.
  - apply (RescOK_nodes_eq st); auto.
  - apply (ItecOK_nodes_eq st); auto.
  - apply (VdOK_nodes_eq c st); auto.
Qed.

Lemma producer_init_state c : State c (set_outq (init c) (Some [])) [] [].
Proof. split; [apply set_outq_WF, init_wf|constructor]. Qed.

(** ** consequences for [sent] *)
Lemma appends_sent st st' : appends st st' -> outq st <> None ->
  exists new, table_of st' = table_of st ++ new /\ sent st' = sent st ++ new /\ outq st' <> None.
Proof.
  intros (new & T & Q & _) Ho. exists new. split; [exact T|].
  unfold sent. destruct (outq st) as [q|] eqn:Eq; [|congruence].
  rewrite (Q q eq_refl). split; [|discriminate].
  rewrite rev_app_distr, rev_involutive. reflexivity.
Qed.

Lemma appends_nosender st st' : appends st st' -> outq st = None ->
  outq st' = None /\ exists new, table_of st' = table_of st ++ new.
Proof. intros (new & T & _ & N) Ho. split; [apply N, Ho|exists new; exact T]. Qed.

(** the key invariant of a store that had its sender attached when it was created *)
Definition Streams (st : store) : Prop :=
  outq st <> None /\ table_of st = [node_bot; node_top] ++ sent st.

Lemma table_of_init c : table_of (init c) = [node_bot; node_top].
Proof. reflexivity. Qed.

Lemma Streams_init c : Streams (set_outq (init c) (Some [])).
Proof. split; [discriminate|reflexivity]. Qed.

Lemma Streams_appends st st' : Streams st -> appends st st' -> Streams st'.
Proof.
  intros (Ho & T) A. destruct (appends_sent st st' A Ho) as (new & T' & S' & Ho').
  split; [exact Ho'|]. rewrite T', S', T, app_assoc. reflexivity.
Qed.

Corollary producer_stream c p st regs :
  run c (set_outq (init c) (Some []), []) p = Some (st, regs) ->
  table_of st = [node_bot; node_top] ++ sent st.
Proof.
  intros X. apply (Streams_appends _ st (Streams_init c)). apply (run_appends_gen c p _ _ _ _ X).
Qed.

(** * 2. [recv] *)

(** the store after one received node *)
Definition recv_push (st : store) (n : node) : store :=
  mkS (NM.add (size st) n (nodes st)) (size st + 1)
      (TM.add (k3 (nv n) (nlo n) (nhi n)) (size st) (uniq st))
      (vdeps st) (vsize st) (counts st) (itec st) (resc st)
      (match outq st with Some q => Some (n :: q) | None => None end).

Lemma recv_loop_cons st n rest t :
  recv_loop st (n :: rest) t =
  if size st =? t then (recv_push st n, rest, true) else recv_loop (recv_push st n) rest t.
Proof. reflexivity. Qed.

Lemma recv_push_appends st n : appends st (recv_push st n).
Proof. apply (appends_snoc _ _ n); reflexivity. Qed.

Lemma recv_loop_spec : forall inq st t st' inq' b, size st <= t ->
  recv_loop st inq t = (st', inq', b) ->
  exists k, (k <= length inq)%nat /\ inq' = skipn k inq /\
    table_of st' = table_of st ++ firstn k inq /\
    size st' = size st + N.of_nat k /\
    (b = true -> size st' = t + 1) /\
    (b = false -> size st' <= t /\ k = length inq) /\
    (forall q, outq st = Some q -> outq st' = Some (rev (firstn k inq) ++ q)) /\
    (outq st = None -> outq st' = None).
Proof.
  induction inq as [|n rest IH]; intros st t st' inq' b Hle X.
  - cbn [recv_loop] in X. inversion X; subst st' inq' b. exists 0%nat.
    cbn [length skipn firstn rev app]. rewrite app_nil_r.
    split; [lia|]. split; [reflexivity|]. split; [reflexivity|]. split; [lia|].
    split; [discriminate|]. split; [intros _; split; [exact Hle|reflexivity]|]. split; auto.
  - rewrite recv_loop_cons in X.
    destruct (recv_push_appends st n) as (new & _).
    pose proof (table_of_snoc st (recv_push st n) n eq_refl eq_refl) as T1.
    destruct (N.eqb_spec (size st) t) as [He|Hne].
    + inversion X; subst st' inq' b. exists 1%nat.
      cbn [length skipn firstn rev app].
      split; [lia|]. split; [reflexivity|]. split; [exact T1|].
      split; [reflexivity|]. split; [intros _; cbn [recv_push size]; lia|].
      split; [discriminate|].
      split; [intros q Hq; cbn [recv_push outq]; rewrite Hq; reflexivity|].
      intros Hq; cbn [recv_push outq]; rewrite Hq; reflexivity.
    + assert (Hle1 : size (recv_push st n) <= t) by (cbn [recv_push size]; lia).
      destruct (IH (recv_push st n) t st' inq' b Hle1 X)
        as (k & Hk & Ei & T & Sz & Bt & Bf & Q & Nn).
      exists (S k). cbn [length skipn firstn].
      split; [lia|]. split; [exact Ei|].
      split; [rewrite T, T1, <- app_assoc; reflexivity|].
      split; [rewrite Sz; cbn [recv_push size]; lia|].
      split; [exact Bt|].
      split; [intros Hb; destruct (Bf Hb) as [B1 B2]; split; [exact B1|lia]|].
      split.
      * intros q Hq. rewrite (Q (n :: q)) by (cbn [recv_push outq]; rewrite Hq; reflexivity).
        cbn [rev]. rewrite <- app_assoc. reflexivity.
      * intros Hq. apply Nn. cbn [recv_push outq]. rewrite Hq. reflexivity.
Qed.

(** the full description of a poll with a receiver attached *)
Theorem recv_spec_strong st inq t st' inq' b : recv st true inq t = (st', inq', b) ->
  exists k, (k <= length inq)%nat /\ inq' = skipn k inq /\
    table_of st' = table_of st ++ firstn k inq /\
    size st' = size st + N.of_nat k /\
    (b = true <-> t < size st') /\
    (t < size st -> k = 0%nat) /\
    (b = true -> size st <= t -> size st' = t + 1) /\
    (b = false -> k = length inq /\ inq' = []) /\
    (forall q, outq st = Some q -> outq st' = Some (rev (firstn k inq) ++ q)) /\
    (outq st = None -> outq st' = None).
Proof.
  unfold recv. destruct (N.ltb_spec t (size st)) as [Hlt|Hge]; intros X.
  - inversion X; subst st' inq' b. exists 0%nat. cbn [skipn firstn rev app]. rewrite app_nil_r.
    split; [lia|]. split; [reflexivity|]. split; [reflexivity|]. split; [lia|].
    split; [split; auto|]. split; [auto|]. split; [intros _ H; lia|].
    split; [discriminate|]. split; auto.
  - destruct (recv_loop_spec inq st t st' inq' b Hge X) as (k & Hk & Ei & T & Sz & Bt & Bf & Q & Nn).
    exists k. split; [exact Hk|]. split; [exact Ei|]. split; [exact T|]. split; [exact Sz|].
    split.
    { split.
      - intros Hb. rewrite (Bt Hb). lia.
      - intros Hlt. destruct b; [reflexivity|]. destruct (Bf eq_refl) as [B1 _]. lia. }
    split; [intros H; lia|]. split; [intros Hb _; apply Bt, Hb|].
    split.
    { intros Hb. destruct (Bf Hb) as [_ B2]. split; [exact B2|].
      rewrite Ei, B2. apply skipn_all. }
    split; assumption.
Qed.

Theorem recv_spec st inq t st' inq' b : recv st true inq t = (st', inq', b) ->
  exists k, (k <= length inq)%nat /\ inq' = skipn k inq /\
    table_of st' = table_of st ++ firstn k inq /\
    (b = true <-> t < size st') /\
    (forall q, outq st = Some q -> outq st' = Some (rev (firstn k inq) ++ q)) /\
    (outq st = None -> outq st' = None).
Proof.
  intros X. destruct (recv_spec_strong st inq t st' inq' b X)
    as (k & Hk & Ei & T & _ & B & _ & _ & _ & Q & Nn).
  exists k. repeat (split; [assumption|]). assumption.
Qed.

Theorem recv_no_receiver st inq t : recv st false inq t = (st, inq, t <? size st).
Proof. unfold recv. destruct (t <? size st); reflexivity. Qed.

(** a poll is an [appends] step *)
Lemma recv_appends st inq t st' inq' b : recv st true inq t = (st', inq', b) -> appends st st'.
Proof.
  intros X. destruct (recv_spec st inq t st' inq' b X) as (k & _ & _ & T & _ & Q & Nn).
  exists (firstn k inq). auto.
Qed.

(** polling for a handle beyond everything pending consumes the whole channel *)
Lemma recv_all st inq t : size st + N.of_nat (length inq) <= t ->
  exists st', recv st true inq t = (st', [], false) /\
    table_of st' = table_of st ++ inq /\
    (forall q, outq st = Some q -> outq st' = Some (rev inq ++ q)) /\
    (outq st = None -> outq st' = None).
Proof.
  intros Hle. destruct (recv st true inq t) as [[st' inq'] b] eqn:X. exists st'.
  destruct (recv_spec_strong st inq t st' inq' b X)
    as (k & Hk & Ei & T & Sz & B & _ & _ & Bf & Q & Nn).
  assert (Hb : b = false).
  { destruct b; [|reflexivity]. assert (t < size st') by (apply B; reflexivity). lia. }
  destruct (Bf Hb) as [-> ->]. subst b. rewrite firstn_all in T, Q.
  split; [reflexivity|]. split; [exact T|]. split; assumption.
Qed.

(** * 3. the three-party system: producer -> relay -> receiver *)

Record sys := mkSys {
  producer : store; pend1 : list node; inq1 : list node;
  relay : store;    pend2 : list node; inq2 : list node;
  receiver : store;
  taken_p : nat;    (* how many of [sent producer] have already been moved into [pend1] *)
  taken_r : nat     (* how many of [sent relay] have already been moved into [pend2] *)
}.

Inductive ev :=
| EOp (o : op)        (* one public operation on the producer *)
| EPump1 (j : nat)    (* the first channel delivers up to j nodes *)
| EPump2 (j : nat)    (* the second channel delivers up to j nodes *)
| EPoll1 (t : N)      (* the relay polls for handle t *)
| EPoll2 (t : N).     (* the receiver polls for handle t *)

Definition step (c : cfg) (s : sys) (regs : list N) (e : ev) : option (sys * list N) :=
  match e with
  | EOp o =>
    match run_op c (producer s, regs) o with
    | None => None
    | Some (p', regs') =>
      Some (mkSys p' (pend1 s ++ skipn (taken_p s) (sent p')) (inq1 s)
                  (relay s) (pend2 s) (inq2 s) (receiver s)
                  (length (sent p')) (taken_r s), regs')
    end
  | EPump1 j =>
    let k := Nat.min j (length (pend1 s)) in
    Some (mkSys (producer s) (skipn k (pend1 s)) (inq1 s ++ firstn k (pend1 s))
                (relay s) (pend2 s) (inq2 s) (receiver s) (taken_p s) (taken_r s), regs)
  | EPump2 j =>
    let k := Nat.min j (length (pend2 s)) in
    Some (mkSys (producer s) (pend1 s) (inq1 s)
                (relay s) (skipn k (pend2 s)) (inq2 s ++ firstn k (pend2 s)) (receiver s)
                (taken_p s) (taken_r s), regs)
  | EPoll1 t =>
    let '(r', q', _) := recv (relay s) true (inq1 s) t in
    Some (mkSys (producer s) (pend1 s) q'
                r' (pend2 s ++ skipn (taken_r s) (sent r')) (inq2 s) (receiver s)
                (taken_p s) (length (sent r')), regs)
  | EPoll2 t =>
    let '(r', q', _) := recv (receiver s) true (inq2 s) t in
    Some (mkSys (producer s) (pend1 s) (inq1 s)
                (relay s) (pend2 s) q' r' (taken_p s) (taken_r s), regs)
  end.

(** what a poll answers (the [found] flag of [Bdd::recv]) *)
Definition answer (s : sys) (e : ev) : option bool :=
  match e with
  | EPoll1 t => Some (snd (recv (relay s) true (inq1 s) t))
  | EPoll2 t => Some (snd (recv (receiver s) true (inq2 s) t))
  | _ => None
  end.

Fixpoint run_ev (c : cfg) (s : sys) (regs : list N) (es : list ev) : option (sys * list N) :=
  match es with
  | [] => Some (s, regs)
  | e :: es' =>
    match step c s regs e with
    | Some (s', regs') => run_ev c s' regs' es'
    | None => None
    end
  end.

Definition sys0 (c : cfg) : sys :=
  mkSys (set_outq (init c) (Some [])) [] [] (set_outq (init c) (Some [])) [] [] (init c) 0 0.

Definition Reach (c : cfg) (s : sys) (regs : list N) : Prop :=
  exists es, run_ev c (sys0 c) [] es = Some (s, regs).

Definition drained (s : sys) : Prop :=
  pend1 s = [] /\ inq1 s = [] /\ pend2 s = [] /\ inq2 s = [].

(** ** the invariant *)
Record Inv (s : sys) : Prop := mkInv {
  inv_p : Streams (producer s);
  inv_tp : taken_p s = length (sent (producer s));
  inv_r : Streams (relay s);
  inv_tr : taken_r s = length (sent (relay s));
  inv_m1 : table_of (producer s) = table_of (relay s) ++ inq1 s ++ pend1 s;
  inv_m2 : table_of (relay s) = table_of (receiver s) ++ inq2 s ++ pend2 s;
  inv_rc : outq (receiver s) = None /\ exists l, table_of (receiver s) = [node_bot; node_top] ++ l
}.

Lemma Inv_init c : Inv (sys0 c).
Proof.
  constructor; cbn [sys0 producer relay receiver pend1 pend2 inq1 inq2 taken_p taken_r].
  - apply Streams_init.
  - reflexivity.
  - apply Streams_init.
  - reflexivity.
  - reflexivity.
  - reflexivity.
  - split; [reflexivity|]. exists []. reflexivity.
Qed.

Lemma Inv_step c s regs e s' regs' : Inv s -> step c s regs e = Some (s', regs') -> Inv s'.
Proof.
  intros [Ip Itp Ir Itr M1 M2 (Ro & l & Rl)] X.
  destruct e as [o|j|j|t|t]; unfold step in X.
  - (* EOp *)
    destruct (run_op c (producer s, regs) o) as [[p' regs1]|] eqn:R; [|discriminate X].
    inversion X; subst s' regs'. clear X.
    pose proof (run_op_appends_gen c _ _ _ _ _ R) as A.
    destruct (appends_sent _ _ A (proj1 Ip)) as (new & T' & S' & Ho').
    constructor; cbn [producer relay receiver pend1 pend2 inq1 inq2 taken_p taken_r].
    + apply (Streams_appends _ _ Ip A).
    + reflexivity.
    + exact Ir.
    + exact Itr.
    + rewrite S', Itp, skipn_app_exact, T', M1, <- !app_assoc. reflexivity.
    + exact M2.
    + split; [exact Ro|exists l; exact Rl].
  - (* EPump1 *)
    inversion X; subst s' regs'. clear X.
    constructor; cbn [producer relay receiver pend1 pend2 inq1 inq2 taken_p taken_r]; try assumption.
    + rewrite M1, <- app_assoc, firstn_skipn. reflexivity.
    + split; [exact Ro|exists l; exact Rl].
  - (* EPump2 *)
    inversion X; subst s' regs'. clear X.
    constructor; cbn [producer relay receiver pend1 pend2 inq1 inq2 taken_p taken_r]; try assumption.
    + rewrite M2, <- app_assoc, firstn_skipn. reflexivity.
    + split; [exact Ro|exists l; exact Rl].
  - (* EPoll1 *)
    destruct (recv (relay s) true (inq1 s) t) as [[r' q'] b] eqn:R.
    inversion X; subst s' regs'. clear X.
    pose proof (recv_appends _ _ _ _ _ _ R) as A.
    destruct (recv_spec _ _ _ _ _ _ R) as (k1 & Hk1 & Eq1 & T1 & _ & Q1 & _).
    assert (S1 : sent r' = sent (relay s) ++ firstn k1 (inq1 s)).
    { unfold sent. destruct (outq (relay s)) as [q|] eqn:Eo; [|exfalso; apply (proj1 Ir); exact Eo].
      rewrite (Q1 q eq_refl), rev_app_distr, rev_involutive. reflexivity. }
    constructor; cbn [producer relay receiver pend1 pend2 inq1 inq2 taken_p taken_r].
    + exact Ip.
    + exact Itp.
    + apply (Streams_appends _ _ Ir A).
    + reflexivity.
    + rewrite M1, T1, Eq1, <- !app_assoc.
      rewrite (app_assoc (firstn k1 (inq1 s))), firstn_skipn. reflexivity.
    + rewrite S1, Itr, skipn_app_exact, T1, M2, <- !app_assoc. reflexivity.
    + split; [exact Ro|exists l; exact Rl].
  - (* EPoll2 *)
    destruct (recv (receiver s) true (inq2 s) t) as [[r' q'] b] eqn:R.
    inversion X; subst s' regs'. clear X.
    destruct (recv_spec _ _ _ _ _ _ R) as (k1 & Hk1 & Eq1 & T1 & _ & _ & N1).
    constructor; cbn [producer relay receiver pend1 pend2 inq1 inq2 taken_p taken_r]; try assumption.
    + rewrite M2, T1, Eq1, <- !app_assoc.
      rewrite (app_assoc (firstn k1 (inq2 s))), firstn_skipn. reflexivity.
    + split; [apply N1, Ro|]. exists (l ++ firstn k1 (inq2 s)).
      rewrite T1, Rl, <- app_assoc. reflexivity.
Qed.

Lemma Inv_run c : forall es s regs s' regs', Inv s -> run_ev c s regs es = Some (s', regs') -> Inv s'.
Proof.
  induction es as [|e es IH]; intros s regs s' regs' I X; cbn [run_ev] in X.
  - inversion X; subst. exact I.
  - destruct (step c s regs e) as [[s1 regs1]|] eqn:St; [|discriminate X].
    apply (IH s1 regs1 s' regs'); [|exact X]. apply (Inv_step c s regs e s1 regs1 I St).
Qed.

Lemma Reach_Inv c s regs : Reach c s regs -> Inv s.
Proof. intros (es & X). apply (Inv_run c es _ _ _ _ (Inv_init c) X). Qed.

Lemma Reach_step c s regs e s' regs' : Reach c s regs -> step c s regs e = Some (s', regs') -> Reach c s' regs'.
Proof.
  intros (es & X) St. exists (es ++ [e]).
  assert (G : forall es s0 regs0, run_ev c s0 regs0 es = Some (s, regs) ->
              run_ev c s0 regs0 (es ++ [e]) = Some (s', regs')).
  { clear es X. induction es as [|e0 es IH]; intros s0 regs0 X0; cbn [run_ev app] in *.
    - inversion X0; subst. rewrite St. reflexivity.
    - destruct (step c s0 regs0 e0) as [[s1 regs1]|]; [|discriminate X0]. apply IH, X0. }
  apply G, X.
Qed.

Lemma run_ev_app c : forall es1 es2 s regs,
  run_ev c s regs (es1 ++ es2) =
  match run_ev c s regs es1 with Some (s1, regs1) => run_ev c s1 regs1 es2 | None => None end.
Proof.
  induction es1 as [|e es1 IH]; intros es2 s regs; cbn [run_ev app]; [reflexivity|].
  destruct (step c s regs e) as [[s1 regs1]|]; [apply IH|reflexivity].
Qed.

(** ** the mirror invariant, for every event list *)
Theorem mirror_invariant c es s regs : run_ev c (sys0 c) [] es = Some (s, regs) ->
  table_of (producer s) = table_of (relay s) ++ inq1 s ++ pend1 s /\
  table_of (relay s) = table_of (receiver s) ++ inq2 s ++ pend2 s.
Proof.
  intros X. destruct (Inv_run c es _ _ _ _ (Inv_init c) X). split; assumption.
Qed.

(** the producer (and the relay) always satisfy the stream invariant of part 1, and the
    counters are the lengths of the streams *)
Theorem stream_invariant c es s regs : run_ev c (sys0 c) [] es = Some (s, regs) ->
  table_of (producer s) = [node_bot; node_top] ++ sent (producer s) /\
  table_of (relay s) = [node_bot; node_top] ++ sent (relay s) /\
  taken_p s = length (sent (producer s)) /\ taken_r s = length (sent (relay s)) /\
  sent (receiver s) = [].
Proof.
  intros X. destruct (Inv_run c es _ _ _ _ (Inv_init c) X) as [Ip Itp Ir Itr _ _ (Ro & _)].
  split; [apply Ip|]. split; [apply Ir|]. split; [exact Itp|]. split; [exact Itr|].
  unfold sent. rewrite Ro. reflexivity.
Qed.

Lemma mirror_prefix_inv s : Inv s ->
  let k1 := length (table_of (relay s)) in
  let k2 := length (table_of (receiver s)) in
  table_of (relay s) = firstn k1 (table_of (producer s)) /\
  table_of (receiver s) = firstn k2 (table_of (producer s)) /\
  (2 <= k2)%nat /\ (k2 <= k1)%nat /\ (k1 <= length (table_of (producer s)))%nat /\
  table_of (relay s) = [node_bot; node_top] ++ firstn (k1 - 2) (sent (producer s)) /\
  table_of (receiver s) = [node_bot; node_top] ++ firstn (k2 - 2) (sent (producer s)).
Proof.
  intros [Ip Itp Ir Itr M1 M2 (Ro & l & Rl)] k1 k2.
  assert (P1 : table_of (relay s) = firstn k1 (table_of (producer s))).
  { unfold k1. rewrite M1, firstn_app_exact. reflexivity. }
  assert (P2 : table_of (receiver s) = firstn k2 (table_of (producer s))).
  { unfold k2. rewrite M1, M2, <- app_assoc, firstn_app_exact. reflexivity. }
  assert (L2 : (2 <= k2)%nat) by (unfold k2; rewrite Rl, app_length; cbn [length]; lia).
  assert (L21 : (k2 <= k1)%nat) by (unfold k1, k2; rewrite M2, app_length; lia).
  assert (L1 : (k1 <= length (table_of (producer s)))%nat) by (unfold k1; rewrite M1, app_length; lia).
  assert (F : forall k, (2 <= k)%nat ->
     firstn k (table_of (producer s)) = [node_bot; node_top] ++ firstn (k - 2) (sent (producer s))).
  { intros k Hk. rewrite (proj2 Ip), firstn_app. cbn [length].
    rewrite (firstn_all2 (n := k) [node_bot; node_top]) by (cbn [length]; lia). reflexivity. }
  split; [exact P1|]. split; [exact P2|]. split; [exact L2|]. split; [exact L21|]. split; [exact L1|].
  split; [rewrite P1 at 1; apply F; lia|rewrite P2 at 1; apply F; lia].
Qed.

(** the relay and the receiver hold prefixes of the producer's table: a store that has consumed
    k messages (k = length of its table - 2) holds exactly the producer's first k+2 nodes, i.e.
    the two terminals followed by the first k nodes the producer has sent *)
Corollary mirror_prefix c es s regs : run_ev c (sys0 c) [] es = Some (s, regs) ->
  exists k1 k2,
    table_of (relay s) = firstn k1 (table_of (producer s)) /\
    table_of (receiver s) = firstn k2 (table_of (producer s)) /\ (k2 <= k1)%nat /\
    k1 = length (table_of (relay s)) /\ k2 = length (table_of (receiver s)) /\
    (2 <= k2)%nat /\ (k1 <= length (table_of (producer s)))%nat /\
    table_of (relay s) = [node_bot; node_top] ++ firstn (k1 - 2) (sent (producer s)) /\
    table_of (receiver s) = [node_bot; node_top] ++ firstn (k2 - 2) (sent (producer s)).
Proof.
  intros X. pose proof (mirror_prefix_inv s (Inv_run c es _ _ _ _ (Inv_init c) X)) as H.
  cbv zeta in H. destruct H as (P1 & P2 & L2 & L21 & L1 & F1 & F2).
  exists (length (table_of (relay s))), (length (table_of (receiver s))).
  repeat (split; [assumption || reflexivity|]). assumption.
Qed.

Lemma drained_equal_inv s : Inv s -> drained s ->
  table_of (receiver s) = table_of (relay s) /\ table_of (relay s) = table_of (producer s).
Proof.
  intros [_ _ _ _ M1 M2 _] (E1 & E2 & E3 & E4).
  rewrite E1, E2 in M1. rewrite E3, E4 in M2. cbn [app] in M1, M2. rewrite app_nil_r in M1, M2.
  split; congruence.
Qed.

Theorem drained_equal c es s regs : run_ev c (sys0 c) [] es = Some (s, regs) ->
  pend1 s = [] /\ inq1 s = [] /\ pend2 s = [] /\ inq2 s = [] ->
  table_of (receiver s) = table_of (relay s) /\ table_of (relay s) = table_of (producer s).
Proof. intros X D. apply drained_equal_inv; [apply (Inv_run c es _ _ _ _ (Inv_init c) X)|exact D]. Qed.

(** ** draining is always possible *)
Lemma step_pump1_all c s regs :
  step c s regs (EPump1 (length (pend1 s))) =
  Some (mkSys (producer s) [] (inq1 s ++ pend1 s) (relay s) (pend2 s) (inq2 s) (receiver s)
              (taken_p s) (taken_r s), regs).
Proof. unfold step. rewrite Nat.min_id, skipn_all, firstn_all. reflexivity. Qed.

Lemma step_pump2_big c s regs j : (length (pend2 s) <= j)%nat ->
  step c s regs (EPump2 j) =
  Some (mkSys (producer s) (pend1 s) (inq1 s) (relay s) [] (inq2 s ++ pend2 s) (receiver s)
              (taken_p s) (taken_r s), regs).
Proof. intros H. unfold step. rewrite Nat.min_r by exact H. rewrite skipn_all, firstn_all. reflexivity. Qed.

Lemma step_poll1 c s regs t r' q' b : recv (relay s) true (inq1 s) t = (r', q', b) ->
  step c s regs (EPoll1 t) =
  Some (mkSys (producer s) (pend1 s) q' r' (pend2 s ++ skipn (taken_r s) (sent r')) (inq2 s)
              (receiver s) (taken_p s) (length (sent r')), regs).
Proof. intros X. unfold step. rewrite X. reflexivity. Qed.

Lemma step_poll2 c s regs t r' q' b : recv (receiver s) true (inq2 s) t = (r', q', b) ->
  step c s regs (EPoll2 t) =
  Some (mkSys (producer s) (pend1 s) (inq1 s) (relay s) (pend2 s) q' r' (taken_p s) (taken_r s), regs).
Proof. intros X. unfold step. rewrite X. reflexivity. Qed.

Lemma drain_reaches_inv c s regs BIG big : Inv s ->
  size (producer s) <= BIG ->
  (length (pend1 s) + length (inq1 s) + length (pend2 s) <= big)%nat ->
  exists s', run_ev c s regs [EPump1 (length (pend1 s)); EPoll1 BIG; EPump2 big; EPoll2 BIG]
             = Some (s', regs) /\
    producer s' = producer s /\ drained s' /\
    table_of (receiver s') = table_of (producer s) /\ table_of (relay s') = table_of (producer s).
Proof.
  intros [Ip Itp Ir Itr M1 M2 (Ro & l & Rl)] HB Hb.
  assert (Sp : size (producer s) =
               size (relay s) + N.of_nat (length (inq1 s ++ pend1 s))).
  { rewrite !size_table, M1, !app_length. lia. }
  assert (Sr : size (relay s) =
               size (receiver s) + N.of_nat (length (inq2 s ++ pend2 s))).
  { rewrite !size_table, M2, !app_length. lia. }
  (* the relay consumes everything *)
  destruct (recv_all (relay s) (inq1 s ++ pend1 s) BIG) as (r1 & X1 & T1 & Q1 & _); [lia|].
  assert (S1 : sent r1 = sent (relay s) ++ inq1 s ++ pend1 s).
  { unfold sent. destruct (outq (relay s)) as [q|] eqn:Eo; [|exfalso; apply (proj1 Ir); exact Eo].
    rewrite (Q1 q eq_refl), rev_app_distr, rev_involutive. reflexivity. }
  (* the receiver consumes everything *)
  destruct (recv_all (receiver s) (inq2 s ++ pend2 s ++ inq1 s ++ pend1 s) BIG)
    as (r2 & X2 & T2 & _ & _).
  { rewrite !app_length in *. lia. }
  cbn [run_ev]. rewrite step_pump1_all.
  rewrite (step_poll1 c _ regs BIG r1 [] false) by exact X1.
  cbn [producer relay receiver pend1 pend2 inq1 inq2 taken_p taken_r].
  rewrite S1, Itr, skipn_app_exact.
  rewrite step_pump2_big
    by (cbn [producer relay receiver pend1 pend2 inq1 inq2 taken_p taken_r]; rewrite !app_length; lia).
  cbn [producer relay receiver pend1 pend2 inq1 inq2 taken_p taken_r].
  rewrite (step_poll2 c _ regs BIG r2 [] false) by exact X2.
  cbn [producer relay receiver pend1 pend2 inq1 inq2 taken_p taken_r].
  eexists. split; [reflexivity|].
  cbn [producer relay receiver pend1 pend2 inq1 inq2 taken_p taken_r].
  split; [reflexivity|]. split; [repeat split|]. split.
  - rewrite T2, M1, M2, <- !app_assoc. reflexivity.
  - rewrite T1, M1. reflexivity.
Qed.

Theorem drain_reaches c es s regs BIG big : run_ev c (sys0 c) [] es = Some (s, regs) ->
  size (producer s) <= BIG ->
  (length (pend1 s) + length (inq1 s) + length (pend2 s) <= big)%nat ->
  exists s', run_ev c s regs [EPump1 (length (pend1 s)); EPoll1 BIG; EPump2 big; EPoll2 BIG]
             = Some (s', regs) /\
    producer s' = producer s /\
    (pend1 s' = [] /\ inq1 s' = [] /\ pend2 s' = [] /\ inq2 s' = []) /\
    table_of (receiver s') = table_of (producer s) /\ table_of (relay s') = table_of (producer s).
Proof. intros X. apply drain_reaches_inv. apply (Inv_run c es _ _ _ _ (Inv_init c) X). Qed.

(** one bound is enough: the size of the producer also bounds the channel contents *)
Corollary drain_reaches_size c es s regs BIG : run_ev c (sys0 c) [] es = Some (s, regs) ->
  size (producer s) <= BIG ->
  exists s', run_ev c s regs
               [EPump1 (length (pend1 s)); EPoll1 BIG; EPump2 (N.to_nat BIG); EPoll2 BIG]
             = Some (s', regs) /\
    producer s' = producer s /\
    (pend1 s' = [] /\ inq1 s' = [] /\ pend2 s' = [] /\ inq2 s' = []) /\
    table_of (receiver s') = table_of (producer s) /\ table_of (relay s') = table_of (producer s).
Proof.
  intros X HB. apply (drain_reaches c es s regs BIG (N.to_nat BIG) X HB).
  destruct (Inv_run c es _ _ _ _ (Inv_init c) X) as [_ _ _ _ M1 M2 _].
  rewrite size_table, M1, M2, !app_length in HB. lia.
Qed.

(** ** what a poll answers *)
Theorem poll_answer c s regs t s' regs' :
  (step c s regs (EPoll1 t) = Some (s', regs') ->
     answer s (EPoll1 t) = Some (t <? size (relay s'))) /\
  (step c s regs (EPoll2 t) = Some (s', regs') ->
     answer s (EPoll2 t) = Some (t <? size (receiver s'))).
Proof.
  split; intros X; unfold step, answer in *.
  - destruct (recv (relay s) true (inq1 s) t) as [[r' q'] b] eqn:R.
    inversion X; subst s' regs'. cbn [relay snd]. f_equal.
    destruct (recv_spec _ _ _ _ _ _ R) as (k & _ & _ & _ & B & _).
    destruct (N.ltb_spec t (size r')) as [Hlt|Hge].
    + apply B, Hlt.
    + destruct b; [|reflexivity]. assert (t < size r') by (apply B; reflexivity). lia.
  - destruct (recv (receiver s) true (inq2 s) t) as [[r' q'] b] eqn:R.
    inversion X; subst s' regs'. cbn [receiver snd]. f_equal.
    destruct (recv_spec _ _ _ _ _ _ R) as (k & _ & _ & _ & B & _).
    destruct (N.ltb_spec t (size r')) as [Hlt|Hge].
    + apply B, Hlt.
    + destruct b; [|reflexivity]. assert (t < size r') by (apply B; reflexivity). lia.
Qed.

(** polls never fail, pumps never fail; only a producer operation can be rejected *)
Lemma step_total_nonop c s regs e : (forall o, e <> EOp o) -> exists s', step c s regs e = Some (s', regs).
Proof.
  intros H. destruct e as [o|j|j|t|t]; [exfalso; apply (H o); reflexivity| | | |]; unfold step.
  - eauto.
  - eauto.
  - destruct (recv (relay s) true (inq1 s) t) as [[r' q'] b]. eauto.
  - destruct (recv (receiver s) true (inq2 s) t) as [[r' q'] b]. eauto.
Qed.

(** ** the producer stays a well-formed program state (so the hypotheses under which the
       operations are specified hold at every [EOp]) *)
Lemma step_producer_state c s regs fs e s' regs' :
  State c (producer s) regs fs -> step c s regs e = Some (s', regs') ->
  exists fs', State c (producer s') regs' fs'.
Proof.
  intros S X. destruct e as [o|j|j|t|t]; unfold step in X.
  - destruct (run_op c (producer s, regs) o) as [[p' regs1]|] eqn:R; [|discriminate X].
    inversion X; subst s' regs'. exists (sem_op fs o). cbn [producer].
    apply (run_op_ok c _ _ _ _ _ _ S R).
  - inversion X; subst s' regs'. exists fs. exact S.
  - inversion X; subst s' regs'. exists fs. exact S.
  - destruct (recv (relay s) true (inq1 s) t) as [[r' q'] b].
    inversion X; subst s' regs'. exists fs. exact S.
  - destruct (recv (receiver s) true (inq2 s) t) as [[r' q'] b].
    inversion X; subst s' regs'. exists fs. exact S.
Qed.

Theorem producer_state c : forall es s regs, run_ev c (sys0 c) [] es = Some (s, regs) ->
  exists fs, State c (producer s) regs fs.
Proof.
  assert (G : forall es s0 regs0 fs0 s regs, State c (producer s0) regs0 fs0 ->
              run_ev c s0 regs0 es = Some (s, regs) -> exists fs, State c (producer s) regs fs).
  { induction es as [|e es IH]; intros s0 regs0 fs0 s regs S X; cbn [run_ev] in X.
    - inversion X; subst. eauto.
    - destruct (step c s0 regs0 e) as [[s1 regs1]|] eqn:St; [|discriminate X].
      destruct (step_producer_state c s0 regs0 fs0 e s1 regs1 S St) as (fs1 & S1).
      apply (IH s1 regs1 fs1 s regs S1 X). }
  intros es s regs X. apply (G es (sys0 c) [] [] s regs (producer_init_state c) X).
Qed.

(** * a concrete run: operations, partial pumps, polls *)
Definition obs (s : sys) : list nat :=
  [length (table_of (producer s)); length (pend1 s); length (inq1 s);
   length (table_of (relay s)); length (pend2 s); length (inq2 s);
   length (table_of (receiver s))].

Fixpoint trace (c : cfg) (s : sys) (regs : list N) (es : list ev) : list (list nat * option bool) :=
  match es with
  | [] => []
  | e :: es' =>
    match step c s regs e with
    | Some (s', regs') => (obs s', answer s e) :: trace c s' regs' es'
    | None => []
    end
  end.

Definition demo_events : list ev :=
  [ EOp (OVar 0); EOp (OVar 1); EOp (OAnd 0 1); EPump1 2; EPoll1 3; EPoll1 2; EPump2 1;
    EPoll2 3; EPoll2 2; EOp (OXor 0 1); EPump1 1; EPoll1 100; EPump1 100; EPump2 100;
    EPoll2 5; EPoll1 7; EPoll1 100; EPump2 100; EPoll2 100 ].

(** columns: |producer|, |pend1|, |inq1|, |relay|, |pend2|, |inq2|, |receiver|; answer of the poll.
    After the 5th event the relay holds 4 of the producer's 5 nodes, the receiver 2; after the
    12th event the relay holds 5 of 7 and the receiver 3 of 7: strict prefixes. *)
Example demo_trace :
  trace cfg_default (sys0 cfg_default) [] demo_events =
  [ ([3; 1; 0; 2; 0; 0; 2]%nat, None);
    ([4; 2; 0; 2; 0; 0; 2]%nat, None);
    ([5; 3; 0; 2; 0; 0; 2]%nat, None);
    ([5; 1; 2; 2; 0; 0; 2]%nat, None);
    ([5; 1; 0; 4; 2; 0; 2]%nat, Some true);
    ([5; 1; 0; 4; 2; 0; 2]%nat, Some true);
    ([5; 1; 0; 4; 1; 1; 2]%nat, None);
    ([5; 1; 0; 4; 1; 0; 3]%nat, Some false);
    ([5; 1; 0; 4; 1; 0; 3]%nat, Some true);
    ([7; 3; 0; 4; 1; 0; 3]%nat, None);
    ([7; 2; 1; 4; 1; 0; 3]%nat, None);
    ([7; 2; 0; 5; 2; 0; 3]%nat, Some false);
    ([7; 0; 2; 5; 2; 0; 3]%nat, None);
    ([7; 0; 2; 5; 0; 2; 3]%nat, None);
    ([7; 0; 2; 5; 0; 0; 5]%nat, Some false);
    ([7; 0; 0; 7; 2; 0; 5]%nat, Some false);
    ([7; 0; 0; 7; 2; 0; 5]%nat, Some false);
    ([7; 0; 0; 7; 0; 2; 5]%nat, None);
    ([7; 0; 0; 7; 0; 0; 7]%nat, Some false) ].
Proof. vm_compute. reflexivity. Qed.

(** the state after the 12th event, in full: the relay and the receiver hold strict prefixes *)
Example demo_strict_prefix :
  match run_ev cfg_default (sys0 cfg_default) [] (firstn 12 demo_events) with
  | Some (s, regs) =>
      table_of (producer s) =
        [node_bot; node_top; mkN 0 0 1; mkN 1 0 1; mkN 0 0 3; mkN 1 1 0; mkN 0 3 5] /\
      table_of (relay s) = [node_bot; node_top; mkN 0 0 1; mkN 1 0 1; mkN 0 0 3] /\
      table_of (receiver s) = [node_bot; node_top; mkN 0 0 1] /\
      regs = [2; 3; 4; 6]
  | None => False
  end.
Proof. vm_compute. repeat split. Qed.

(** the same run under the other feature sets of the package *)
Example demo_trace_features :
  trace (mkCfg 0 false) (sys0 (mkCfg 0 false)) [] demo_events =
    trace cfg_default (sys0 cfg_default) [] demo_events /\
  trace (mkCfg 2 true) (sys0 (mkCfg 2 true)) [] demo_events =
    trace cfg_default (sys0 cfg_default) [] demo_events.
Proof. vm_compute. split; reflexivity. Qed.

Print Assumptions mk_node_appends.
Print Assumptions restrict_f_appends.
Print Assumptions ite_f_appends.
Print Assumptions run_op_appends.
Print Assumptions run_op_appends_gen.
Print Assumptions producer_stream.
Print Assumptions recv_spec.
Print Assumptions recv_spec_strong.
Print Assumptions recv_no_receiver.
Print Assumptions mirror_invariant.
Print Assumptions stream_invariant.
Print Assumptions mirror_prefix.
Print Assumptions drained_equal.
Print Assumptions drain_reaches.
Print Assumptions drain_reaches_size.
Print Assumptions poll_answer.
Print Assumptions producer_state.
