(** Finite maps used by the model: FMapAVL over N and over triples of N.
    Only [find]/[add]/[empty] are used by the model; the two rewriting lemmas
    below are the whole interface the proofs depend on. *)
From Coq Require Import NArith List Bool Lia FMapAVL FMapFacts OrderedTypeEx.
Import ListNotations.
Local Open Scope N_scope.

Module NM := FMapAVL.Make(N_as_OT).
Module NN := PairOrderedType N_as_OT N_as_OT.
Module NNN := PairOrderedType N_as_OT NN.
Module TM := FMapAVL.Make(NNN).          (* keys (a,(b,c)) *)
Module NMF := FMapFacts.WFacts_fun N_as_OT NM.
Module TMF := FMapFacts.WFacts_fun NNN TM.

Definition key3 := (N * (N * N))%type.
Definition k3 (a b c : N) : key3 := (a, (b, c)).

Lemma key3_eq : forall a b c a' b' c',
  NNN.eq (a,(b,c)) (a',(b',c')) <-> a = a' /\ b = b' /\ c = c'.
Proof.
  intros. unfold NNN.eq, NN.eq. cbn. tauto.
Qed.

Definition key3_eqb (x y : key3) : bool :=
  let '(a,(b,c)) := x in let '(a',(b',c')) := y in
  (a =? a') && (b =? b') && (c =? c').

Lemma key3_eqb_spec x y : key3_eqb x y = true <-> x = y.
Proof.
  destruct x as [a [b c]], y as [a' [b' c']]. cbn.
  rewrite !andb_true_iff, !N.eqb_eq. split.
  - intros [[-> ->] ->]. reflexivity.
  - intros E. inversion E. auto.
Qed.

Lemma nm_find_add {A} (k k' : N) (v : A) m :
  NM.find k' (NM.add k v m) = if k =? k' then Some v else NM.find k' m.
Proof.
  rewrite NMF.add_o. destruct (N_as_OT.eq_dec k k') as [e|e]; destruct (N.eqb_spec k k'); congruence.
Qed.

Lemma nm_find_empty {A} (k : N) : NM.find k (NM.empty A) = None.
Proof. apply NMF.empty_o. Qed.

Lemma tm_find_add {A} (k k' : key3) (v : A) m :
  TM.find k' (TM.add k v m) = if key3_eqb k k' then Some v else TM.find k' m.
Proof.
  rewrite TMF.add_o. destruct (NNN.eq_dec k k') as [e|e].
  - destruct k as [a [b c]], k' as [a' [b' c']].
    assert (e' := proj1 (key3_eq a b c a' b' c') e). destruct e' as [-> [-> ->]].
    cbn. rewrite !N.eqb_refl. reflexivity.
  - destruct (key3_eqb k k') eqn:E; [|reflexivity].
    apply key3_eqb_spec in E. subst. exfalso. apply e.
    destruct k' as [a [b c]]. apply key3_eq. auto.
Qed.

Lemma tm_find_empty {A} (k : key3) : TM.find k (TM.empty A) = None.
Proof. apply TMF.empty_o. Qed.

Definition b2n (b : bool) : N := if b then 1 else 0.
Lemma b2n_inj b b' : b2n b = b2n b' -> b = b'.
Proof. destruct b, b'; cbn; congruence. Qed.
