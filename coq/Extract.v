(** Extraction of the executable model and the oracles to OCaml (ExtrOcamlBasic only). *)
From Coq Require Import Extraction ExtrOcamlBasic NArith List.
From ADF Require Import Gen.GenLeaf Gen.GenFlags Base.Maps Spec.Spec Bdd.Store Adf.Iter Adf.Native Adf.NoGood Adf.Search Adf.Bio Front.Parser Front.Cli Server.Model Server.Instance.
Extraction Language OCaml.
Extraction "extracted/model.ml"
  Store.init Store.mk_node Store.restrict Store.ite Store.variable Store.constant
  Store.bnot Store.band Store.bor Store.bimp Store.biff Store.bxor
  Store.cubes Store.count_naive Store.count_memo Store.models Store.paths Store.max_depth
  Store.var_dependencies Store.passive_var_impact Store.active_var_impact
  Store.fix_import Store.fix_import_cur Store.table_of Store.from_nodes Store.import_raw Store.recv
  Store.set_outq Store.cfg_default Store.get_node Store.get_vd Store.get_cnt
  Iter.it2_collect Iter.it3_collect
  Native.term Native.from_parser Native.grounded Native.complete Native.stable
  Native.stable_with_prefilter Native.stable_from_candidates Native.stability_check
  NoGood.ngs_new NoGood.add_ng NoGood.conclusions NoGood.conclusion_closure NoGood.conclude NoGood.is_violating
  NoGood.ng_of_terms NoGood.update_term_vec NoGood.ng_single NoGood.disjunction NoGood.is_contradicting NoGood.try_from_pair_iter
  Search.stable_count_cur Search.heu_a Search.heu_b Search.nogood_search_cur
  GenLeaf.g_more_models GenLeaf.g_minimum GenLeaf.g_is_truth_value GenLeaf.g_compare_inf GenLeaf.g_no_inf_inconsistency GenLeaf.g_is_constant
  Bio.bio_grounded Bio.bio_complete Bio.bio_stable Bio.bio_stable_rew Bio.stable_candidates
  Bio.from_biodivine_vector Bio.bridge_all Bio.wf_dump
  Cli.cli_run Cli.wired
  Instance.run_events_cur Instance.handle_cur Instance.complete_cur Model.s0
  Parser.parse Parser.parse_from Parser.varsort_lexi Parser.resolve_acs Parser.formula_p
  N.add N.mul N.div_eucl N.of_nat N.to_nat N.eqb N.ltb N.leb.
