(** Permutations of statements at the specification level (property C10, part A).
    Renumbering the statements of an ADF by a permutation [p] and permuting an
    interpretation in the same way changes none of the semantics of Spec.v.
    Constructive, no axioms, no functional extensionality. *)
From Coq Require Import NArith List Bool Lia Arith Permutation.
From ADF Require Import Spec.Spec Spec.Theory.
Import ListNotations.

(* ------------------------------------------------------------------ *)
(** * Position of an element in a list (first occurrence; [length l] if absent) *)

Section Idx.
  Context {A : Type} (eq_dec : forall x y : A, {x = y} + {x <> y}).

  Fixpoint idx (x : A) (l : list A) : nat :=
    match l with
    | [] => 0
    | y :: r => if eq_dec y x then 0 else S (idx x r)
    end.

  Lemma idx_le x l : idx x l <= length l.
  Proof. induction l as [|y l IH]; cbn [idx length]; [lia|]. destruct (eq_dec y x); lia. Qed.

  Lemma idx_lt_In x l : idx x l < length l <-> In x l.
  Proof.
    induction l as [|y l IH]; cbn [idx length In].
    - split; [lia|tauto].
    - destruct (eq_dec y x) as [E|NE].
      + split; [auto|lia].
      + split.
        * intros H. right. apply IH. lia.
        * intros [H|H]; [contradiction|]. apply IH in H. lia.
  Qed.

  Lemma idx_notin x l : ~ In x l -> idx x l = length l.
  Proof.
    intros H. pose proof (idx_le x l) as L.
    destruct (Nat.eq_dec (idx x l) (length l)) as [E|NE]; [exact E|].
    exfalso. apply H. apply idx_lt_In. lia.
  Qed.

  Lemma nth_idx x l d : In x l -> nth (idx x l) l d = x.
  Proof.
    induction l as [|y l IH]; cbn [idx In]; [tauto|].
    intros H. destruct (eq_dec y x) as [E|NE]; [exact E|].
    cbn [nth]. apply IH. destruct H as [H|H]; [contradiction|exact H].
  Qed.

  Lemma idx_nth l : NoDup l -> forall i d, i < length l -> idx (nth i l d) l = i.
  Proof.
    induction 1 as [|y l Hy ND IH]; intros i d Hi; cbn [length] in Hi; [lia|].
    destruct i as [|i]; cbn [nth idx].
    - destruct (eq_dec y y) as [_|NE]; [reflexivity|contradiction].
    - destruct (eq_dec y (nth i l d)) as [E|NE].
      + exfalso. apply Hy. rewrite E. apply nth_In. lia.
      + f_equal. apply IH. lia.
  Qed.

  (** the position is the unique index holding [x] in a duplicate-free list *)
  Lemma idx_unique l x i d : NoDup l -> i < length l -> nth i l d = x -> idx x l = i.
  Proof. intros ND Hi <-. apply idx_nth; assumption. Qed.
End Idx.

(* ------------------------------------------------------------------ *)
(** * Permutations as lists *)

(** [p] is a permutation of [seq 0 n]; position [i] of the permuted ADF holds old
    statement [nth i p]; old statement [j] becomes new number [inv_of p j]. *)
Definition perm_ok (n : nat) (p : list nat) : Prop := Permutation p (seq 0 n).
Definition inv_of (p : list nat) (j : nat) : nat := idx Nat.eq_dec j p.
Definition fwd (p : list nat) (i : nat) : nat := nth i p (length p).
Definition permute_list {A} (p : list nat) (l : list A) (d : A) : list A :=
  map (fun i => nth i l d) p.
Definition inv_perm (p : list nat) : list nat := map (inv_of p) (seq 0 (length p)).

(** renaming the variables of a function: new variable [i] stands for old variable [nth i p] *)
Definition rename_fun (p : list nat) (f : bfun) : bfun :=
  fun a => f (fun old => a (N.of_nat (inv_of p (N.to_nat old)))).
Definition permute_adf (p : list nat) (D : adf) : adf :=
  map (rename_fun p) (permute_list p D (fun _ => false)).
Definition permute_interp (p : list nat) (v : interp) : interp := permute_list p v U.

Lemma perm_length n p : perm_ok n p -> length p = n.
Proof. intros H. rewrite (Permutation_length H). apply seq_length. Qed.

Lemma perm_NoDup n p : perm_ok n p -> NoDup p.
Proof. intros H. eapply Permutation_NoDup; [apply Permutation_sym; exact H|apply seq_NoDup]. Qed.

Lemma perm_In n p j : perm_ok n p -> (In j p <-> j < n).
Proof.
  intros H. split; intros Hj.
  - apply (Permutation_in _ H) in Hj. apply in_seq in Hj. lia.
  - apply (Permutation_in _ (Permutation_sym H)). apply in_seq. lia.
Qed.

Lemma perm_id n : perm_ok n (seq 0 n).
Proof. apply Permutation_refl. Qed.

Lemma fwd_lt n p i : perm_ok n p -> i < n -> fwd p i < n.
Proof.
  intros H Hi. apply (perm_In n p _ H). unfold fwd. apply nth_In.
  rewrite (perm_length _ _ H). exact Hi.
Qed.

Lemma fwd_ge p i : length p <= i -> fwd p i = length p.
Proof. intros H. unfold fwd. apply nth_overflow. exact H. Qed.

Lemma inv_fwd n p i : perm_ok n p -> i < n -> inv_of p (fwd p i) = i.
Proof.
  intros H Hi. unfold inv_of, fwd. apply idx_nth.
  - eapply perm_NoDup; eauto.
  - rewrite (perm_length _ _ H). exact Hi.
Qed.

Lemma inv_lt n p j : perm_ok n p -> j < n -> inv_of p j < n.
Proof.
  intros H Hj. unfold inv_of. rewrite <- (perm_length _ _ H). apply idx_lt_In.
  apply (perm_In n p j H). exact Hj.
Qed.

Lemma fwd_inv n p j : perm_ok n p -> j < n -> fwd p (inv_of p j) = j.
Proof.
  intros H Hj. unfold fwd, inv_of. apply nth_idx. apply (perm_In n p j H). exact Hj.
Qed.

Lemma inv_ge n p j : perm_ok n p -> n <= j -> inv_of p j = n.
Proof.
  intros H Hj. unfold inv_of. rewrite <- (perm_length _ _ H). apply idx_notin.
  intros Hin. apply (perm_In n p j H) in Hin. lia.
Qed.

Lemma inv_unique n p i j : perm_ok n p -> i < n -> fwd p i = j -> inv_of p j = i.
Proof. intros H Hi <-. eapply inv_fwd; eauto. Qed.

(* ------------------------------------------------------------------ *)
(** * Permuted lists *)

Lemma permute_list_length {A} p (l : list A) d : length (permute_list p l d) = length p.
Proof. unfold permute_list. apply map_length. Qed.

Lemma permute_adf_length p D : length (permute_adf p D) = length p.
Proof. unfold permute_adf. rewrite map_length. apply permute_list_length. Qed.

Lemma permute_interp_length p v : length (permute_interp p v) = length p.
Proof. apply permute_list_length. Qed.

Lemma nth_permute_list {A} p (l : list A) d i :
  length l = length p -> nth i (permute_list p l d) d = nth (fwd p i) l d.
Proof.
  intros HL. unfold permute_list, fwd.
  destruct (le_lt_dec (length p) i) as [Hge|Hlt].
  - rewrite nth_overflow by (rewrite map_length; exact Hge).
    rewrite (nth_overflow p) by exact Hge.
    rewrite nth_overflow by lia. reflexivity.
  - rewrite (nth_indep _ d (nth (length p) l d)) by (rewrite map_length; exact Hlt).
    apply (map_nth (fun i => nth i l d)).
Qed.

Lemma map_nth_seq {A} (l : list A) d : map (fun i => nth i l d) (seq 0 (length l)) = l.
Proof.
  apply (list_eq_of_nth d).
  - rewrite map_length, seq_length. reflexivity.
  - intros i Hi. rewrite map_length, seq_length in Hi.
    rewrite (nth_indep _ d (nth 0 l d)) by (rewrite map_length, seq_length; exact Hi).
    rewrite (map_nth (fun i => nth i l d)). rewrite seq_nth by exact Hi. reflexivity.
Qed.

(** a permuted list is a permutation of the list *)
Lemma permute_list_Permutation {A} p (l : list A) d :
  perm_ok (length l) p -> Permutation (permute_list p l d) l.
Proof.
  intros H. unfold permute_list.
  eapply Permutation_trans; [apply Permutation_map; exact H|].
  rewrite map_nth_seq. apply Permutation_refl.
Qed.

Lemma permute_list_id {A} (l : list A) d : permute_list (seq 0 (length l)) l d = l.
Proof. apply map_nth_seq. Qed.

Lemma permute_list_combine {A B} p (l : list A) (l' : list B) d d' :
  length l = length l' ->
  Forall (fun i => i < length l) p ->
  combine (permute_list p l d) (permute_list p l' d') = permute_list p (combine l l') (d, d').
Proof.
  intros HL HP. unfold permute_list. induction HP as [|i p Hi HP IH]; cbn [map combine]; [reflexivity|].
  rewrite IH. f_equal. rewrite combine_nth by exact HL. reflexivity.
Qed.

Lemma perm_Forall_lt n p : perm_ok n p -> Forall (fun i => i < n) p.
Proof. intros H. apply Forall_forall. intros i Hi. apply (perm_In n p i H). exact Hi. Qed.

Lemma Forall2_permute {A B} (R : A -> B -> Prop) n p l l' dA dB :
  perm_ok n p -> length l = n -> length l' = n ->
  (Forall2 R (permute_list p l dA) (permute_list p l' dB) <-> Forall2 R l l').
Proof.
  intros H HL HL'. pose proof (perm_length _ _ H) as HP. split; intros HF.
  - apply (Forall2_of_nth R dA dB); [lia|]. intros j Hj. rewrite HL in Hj.
    pose proof (Forall2_nth _ _ _ HF (inv_of p j) dA dB) as X.
    rewrite permute_list_length in X. specialize (X ltac:(rewrite HP; eapply inv_lt; eauto)).
    rewrite !nth_permute_list in X by lia.
    rewrite (fwd_inv n p j H Hj) in X. exact X.
  - apply (Forall2_of_nth R dA dB); [rewrite !permute_list_length; reflexivity|].
    intros i Hi. rewrite permute_list_length, HP in Hi.
    rewrite !nth_permute_list by lia.
    apply Forall2_nth. exact HF. rewrite HL. eapply fwd_lt; eauto.
Qed.

Lemma Forall_permute {A} (P : A -> Prop) n p l d :
  perm_ok n p -> length l = n -> (Forall P (permute_list p l d) <-> Forall P l).
Proof.
  intros H HL. pose proof (perm_length _ _ H) as HP. rewrite !Forall_forall. split; intros HF x Hx.
  - destruct (In_nth _ _ d Hx) as (j & Hj & <-). rewrite HL in Hj.
    apply HF. rewrite <- (fwd_inv n p j H Hj).
    rewrite <- nth_permute_list by lia. apply nth_In.
    rewrite permute_list_length, HP. eapply inv_lt; eauto.
  - unfold permute_list in Hx. apply in_map_iff in Hx. destruct Hx as (i & <- & Hi).
    apply HF. apply nth_In. rewrite HL. apply (perm_In n p i H). exact Hi.
Qed.

(* ------------------------------------------------------------------ *)
(** * The inverse permutation and surjectivity of [permute_interp] *)

Lemma map_inv_perm n p : perm_ok n p -> map (inv_of p) p = seq 0 n.
Proof.
  intros H. pose proof (perm_length _ _ H) as HP. apply (list_eq_of_nth 0).
  - rewrite map_length, seq_length. exact HP.
  - intros i Hi. rewrite map_length, HP in Hi.
    rewrite (nth_indep _ 0 (inv_of p (length p))) by (rewrite map_length; lia).
    rewrite (map_nth (inv_of p)). rewrite seq_nth by exact Hi. cbn [plus].
    apply (inv_fwd n p i H Hi).
Qed.

Lemma inv_perm_ok n p : perm_ok n p -> perm_ok n (inv_perm p).
Proof.
  intros H. unfold perm_ok, inv_perm. rewrite (perm_length _ _ H).
  rewrite <- (map_inv_perm n p H) at 2.
  apply Permutation_map. apply Permutation_sym. exact H.
Qed.

Lemma inv_perm_length p : length (inv_perm p) = length p.
Proof. unfold inv_perm. rewrite map_length. apply seq_length. Qed.

Lemma fwd_inv_perm n p j : perm_ok n p -> j < n -> fwd (inv_perm p) j = inv_of p j.
Proof.
  intros H Hj. pose proof (perm_length _ _ H) as HP. unfold fwd, inv_perm.
  rewrite (nth_indep _ _ (inv_of p 0)) by (rewrite map_length, seq_length; lia).
  rewrite (map_nth (inv_of p)). rewrite seq_nth by lia. reflexivity.
Qed.

(** permuting by the inverse and then by [p] is the identity *)
Lemma permute_inv_permute {A} n p (l : list A) d :
  perm_ok n p -> length l = n -> permute_list p (permute_list (inv_perm p) l d) d = l.
Proof.
  intros H HL. pose proof (perm_length _ _ H) as HP. apply (list_eq_of_nth d).
  - rewrite permute_list_length. lia.
  - intros i Hi. rewrite permute_list_length, HP in Hi.
    rewrite nth_permute_list by (rewrite permute_list_length, inv_perm_length; reflexivity).
    rewrite nth_permute_list by (rewrite inv_perm_length; lia).
    rewrite (fwd_inv_perm n p _ H (fwd_lt n p i H Hi)).
    rewrite (inv_fwd n p i H Hi). reflexivity.
Qed.

Lemma permute_permute_inv {A} n p (l : list A) d :
  perm_ok n p -> length l = n -> permute_list (inv_perm p) (permute_list p l d) d = l.
Proof.
  intros H HL. pose proof (perm_length _ _ H) as HP. apply (list_eq_of_nth d).
  - rewrite permute_list_length, inv_perm_length. lia.
  - intros j Hj. rewrite permute_list_length, inv_perm_length, HP in Hj.
    rewrite nth_permute_list by (rewrite permute_list_length, inv_perm_length; reflexivity).
    rewrite nth_permute_list by lia.
    rewrite (fwd_inv_perm n p j H Hj).
    rewrite (fwd_inv n p j H Hj). reflexivity.
Qed.

(** every interpretation of length [n] is the permutation of one *)
Theorem permute_interp_surj n p w :
  perm_ok n p -> length w = n ->
  permute_interp p (permute_interp (inv_perm p) w) = w /\
  length (permute_interp (inv_perm p) w) = n.
Proof.
  intros H HL. split.
  - apply (permute_inv_permute n p w U H HL).
  - rewrite permute_interp_length, inv_perm_length. eapply perm_length; eauto.
Qed.

(* ------------------------------------------------------------------ *)
(** * Values and completions under a permutation *)

Lemma val_permute n p v i :
  perm_ok n p -> length v = n ->
  val (permute_interp p v) i = val v (N.of_nat (fwd p (N.to_nat i))).
Proof.
  intros H HL. unfold val, permute_interp. rewrite Nat2N.id.
  apply nth_permute_list. rewrite (perm_length _ _ H). exact HL.
Qed.

(** pulling an assignment of the new variables back to the old ones, and conversely *)
Definition pull (p : list nat) (a : asg) : asg :=
  fun old => a (N.of_nat (inv_of p (N.to_nat old))).
Definition push (p : list nat) (b : asg) : asg :=
  fun i => b (N.of_nat (fwd p (N.to_nat i))).

Lemma rename_fun_pull p f a : rename_fun p f a = f (pull p a).
Proof. reflexivity. Qed.

Lemma completes_pull n p v a :
  perm_ok n p -> length v = n -> completes (permute_interp p v) a -> completes v (pull p a).
Proof.
  intros H HL C old. unfold pull.
  destruct (le_lt_dec n (N.to_nat old)) as [Hge|Hlt].
  - rewrite val_overflow by lia. split; discriminate.
  - specialize (C (N.of_nat (inv_of p (N.to_nat old)))).
    rewrite (val_permute n p v _ H HL) in C. rewrite Nat2N.id in C.
    rewrite (fwd_inv n p _ H Hlt) in C. rewrite N2Nat.id in C. exact C.
Qed.

Lemma completes_push n p v b :
  perm_ok n p -> length v = n -> completes v b -> completes (permute_interp p v) (push p b).
Proof.
  intros H HL C i. unfold push. rewrite (val_permute n p v i H HL). apply C.
Qed.

Lemma pull_push n p b old : perm_ok n p -> N.to_nat old < n -> pull p (push p b) old = b old.
Proof.
  intros H Hlt. unfold pull, push. rewrite Nat2N.id.
  rewrite (fwd_inv n p _ H Hlt). rewrite N2Nat.id. reflexivity.
Qed.

Lemma rename_fun_supported n p f : perm_ok n p -> supported n f -> supported n (rename_fun p f).
Proof.
  intros H S a b E. unfold rename_fun. apply S. intros old Hold.
  apply E. rewrite Nat2N.id. eapply inv_lt; eauto.
Qed.

Lemma permute_adf_supported n p D :
  perm_ok n p -> length D = n -> Forall (supported n) D -> Forall (supported n) (permute_adf p D).
Proof.
  intros H HL S. unfold permute_adf. apply Forall_map.
  apply (proj2 (Forall_permute (fun f => supported n (rename_fun p f)) n p D (fun _ => false) H HL)).
  eapply Forall_impl; [|exact S]. intros f. apply rename_fun_supported. exact H.
Qed.

(** quantification over the completions is invariant *)
Lemma all_completions_permute n p f v (c : bool) :
  perm_ok n p -> length v = n -> supported n f ->
  ((forall a, completes (permute_interp p v) a -> rename_fun p f a = c) <->
   (forall b, completes v b -> f b = c)).
Proof.
  intros H HL S. split; intros HA.
  - intros b Cb. rewrite <- (HA (push p b) (completes_push n p v b H HL Cb)).
    rewrite rename_fun_pull. apply S. intros old Hold. symmetry. apply (pull_push n p b old H Hold).
  - intros a Ca. rewrite rename_fun_pull. apply HA. apply (completes_pull n p v a H HL Ca).
Qed.

Theorem Cons3_permute n p f v r :
  perm_ok n p -> length v = n -> supported n f ->
  (Cons3 (rename_fun p f) (permute_interp p v) r <-> Cons3 f v r).
Proof.
  intros H HL S.
  pose proof (all_completions_permute n p f v true H HL S) as HT.
  pose proof (all_completions_permute n p f v false H HL S) as HF.
  destruct r; cbn.
  - exact HT.
  - exact HF.
  - rewrite HT, HF. reflexivity.
Qed.

Theorem Gamma_permute n p D v w :
  perm_ok n p -> length D = n -> length v = n -> length w = n -> Forall (supported n) D ->
  (Gamma (permute_adf p D) (permute_interp p v) (permute_interp p w) <-> Gamma D v w).
Proof.
  intros H HD HV HW S. unfold Gamma, permute_adf, permute_interp.
  rewrite Forall2_map_l.
  rewrite (Forall2_permute _ n p D w (fun _ => false) U H HD HW).
  split; intros HF.
  - eapply Forall2_impl_Forall; [exact S| |exact HF].
    intros f r Sf C. cbv beta in C. apply (Cons3_permute n p f v r H HV Sf). exact C.
  - eapply Forall2_impl_Forall; [exact S| |exact HF].
    intros f r Sf C. cbv beta. apply (Cons3_permute n p f v r H HV Sf). exact C.
Qed.

Theorem Complete_permute n p D v :
  perm_ok n p -> length D = n -> length v = n -> Forall (supported n) D ->
  (Complete (permute_adf p D) (permute_interp p v) <-> Complete D v).
Proof. intros H HD HV S. unfold Complete. apply (Gamma_permute n); auto. Qed.

Lemma info_le_permute n p v w :
  perm_ok n p -> length v = n -> length w = n ->
  (info_le (permute_interp p v) (permute_interp p w) <-> info_le v w).
Proof. intros H HV HW. unfold info_le, permute_interp. apply (Forall2_permute _ n); auto. Qed.

Lemma TwoValued_permute n p v :
  perm_ok n p -> length v = n -> (TwoValued (permute_interp p v) <-> TwoValued v).
Proof. intros H HV. unfold TwoValued, permute_interp. apply (Forall_permute _ n); auto. Qed.

Theorem Grounded_permute n p D g :
  perm_ok n p -> length D = n -> length g = n -> Forall (supported n) D ->
  (Grounded (permute_adf p D) (permute_interp p g) <-> Grounded D g).
Proof.
  intros H HD HG S. pose proof (perm_length _ _ H) as HP. split; intros [C M]; split.
  - apply (Complete_permute n p D g H HD HG S). exact C.
  - intros w Cw. assert (HW : length w = n) by (rewrite <- (Gamma_length _ _ _ Cw); exact HD).
    apply (info_le_permute n p g w H HG HW). apply M.
    apply (Complete_permute n p D w H HD HW S). exact Cw.
  - apply (Complete_permute n p D g H HD HG S). exact C.
  - intros w' Cw'.
    assert (HW' : length w' = n).
    { rewrite <- (Gamma_length _ _ _ Cw'), permute_adf_length. exact HP. }
    destruct (permute_interp_surj n p w' H HW') as [E L].
    rewrite <- E in Cw' |- *.
    apply (info_le_permute n p g _ H HG L). apply M.
    apply (Complete_permute n p D _ H HD L S). exact Cw'.
Qed.

Theorem Model2_permute n p D v :
  perm_ok n p -> length D = n -> length v = n -> Forall (supported n) D ->
  (Model2 (permute_adf p D) (permute_interp p v) <-> Model2 D v).
Proof.
  intros H HD HV S. unfold Model2.
  rewrite (Complete_permute n p D v H HD HV S), (TwoValued_permute n p v H HV). reflexivity.
Qed.

(* ------------------------------------------------------------------ *)
(** * Pointwise equal ADFs (local copies; Adf/NativeBase.v has the same facts) *)

Definition adf_ext (D D' : adf) : Prop := Forall2 feq D D'.

Lemma adf_ext_sym D D' : adf_ext D D' -> adf_ext D' D.
Proof. unfold adf_ext. induction 1; constructor; auto. intros a. symmetry. auto. Qed.

Lemma Cons3_ext f g v r : feq f g -> Cons3 f v r -> Cons3 g v r.
Proof.
  intros E. destruct r; cbn.
  - intros HA a Ha. rewrite <- E. auto.
  - intros HA a Ha. rewrite <- E. auto.
  - intros [H1 H2]. split; intros HA.
    + apply H1. intros a Ha. rewrite E. auto.
    + apply H2. intros a Ha. rewrite E. auto.
Qed.

Lemma Gamma_ext D D' v w : adf_ext D D' -> Gamma D v w -> Gamma D' v w.
Proof.
  unfold adf_ext, Gamma. intros E. revert w.
  induction E as [|f g D D' Hfg _ IH]; intros w HG; inversion HG; subst; constructor; auto.
  eapply Cons3_ext; eauto.
Qed.

Lemma Grounded_ext D D' g : adf_ext D D' -> Grounded D g -> Grounded D' g.
Proof.
  intros E [C M]. split.
  - eapply Gamma_ext; eauto.
  - intros w Cw. apply M. eapply Gamma_ext; [apply adf_ext_sym|]; eauto.
Qed.

Lemma Forall2_map_same {A B C} (R : B -> C -> Prop) (f : A -> B) (g : A -> C) l :
  Forall (fun x => R (f x) (g x)) l -> Forall2 R (map f l) (map g l).
Proof. induction 1; cbn [map]; constructor; auto. Qed.

Lemma nth_map_lt {A B} (f : A -> B) l i d d' :
  i < length l -> nth i (map f l) d = f (nth i l d').
Proof.
  intros Hi. rewrite (nth_indep _ d (f d')) by (rewrite map_length; exact Hi). apply map_nth.
Qed.

(** the reduct commutes with the permutation, pointwise *)
Lemma reduct_permute n p D v :
  perm_ok n p -> length D = n -> length v = n -> Forall (supported n) D ->
  adf_ext (reduct (permute_adf p D) (permute_interp p v)) (permute_adf p (reduct D v)).
Proof.
  intros H HD HV S. pose proof (perm_length _ _ H) as HP.
  unfold adf_ext, reduct, permute_adf, permute_list. rewrite !map_map.
  assert (HI : Forall (fun i => i < n) p) by (apply perm_Forall_lt; exact H).
  set (ff := fun _ : asg => false).
  apply Forall2_map_same. eapply Forall_impl; [|exact HI]. intros i Hi a. cbv beta in Hi |- *.
  rewrite (nth_map_lt _ D i ff ff) by lia.
  unfold rename_fun.
  assert (Sf : supported n (nth i D ff)).
  { rewrite Forall_forall in S. apply S. apply nth_In. lia. }
  apply Sf. intros old Hold.
  rewrite (val_permute n p v _ H HV). rewrite Nat2N.id.
  rewrite (fwd_inv n p _ H Hold). rewrite N2Nat.id. reflexivity.
Qed.

Lemma reduct_supported n D v : Forall (supported n) D -> Forall (supported n) (reduct D v).
Proof.
  intros S. unfold reduct. apply Forall_map. eapply Forall_impl; [|exact S].
  intros f Sf. apply (supported_mask n f v Sf).
Qed.

Theorem Stable_permute n p D v :
  perm_ok n p -> length D = n -> length v = n -> Forall (supported n) D ->
  (Stable (permute_adf p D) (permute_interp p v) <-> Stable D v).
Proof.
  intros H HD HV S. pose proof (perm_length _ _ H) as HP.
  pose proof (reduct_permute n p D v H HD HV S) as ER.
  pose proof (reduct_supported n D v S) as SR.
  assert (HRL : length (reduct D v) = n) by (rewrite reduct_length; exact HD).
  split; intros [M2 St]; split.
  - apply (Model2_permute n p D v H HD HV S). exact M2.
  - intros g G j Hj.
    assert (HG : length g = n).
    { destruct G as [C _]. rewrite <- (Gamma_length _ _ _ C). exact HRL. }
    assert (Hlt : N.to_nat j < n).
    { rewrite <- HV. apply val_decided_lt. rewrite Hj. discriminate. }
    assert (G' : Grounded (reduct (permute_adf p D) (permute_interp p v)) (permute_interp p g)).
    { apply (Grounded_ext _ _ _ (adf_ext_sym _ _ ER)).
      apply (Grounded_permute n p (reduct D v) g H HRL HG SR). exact G. }
    specialize (St _ G' (N.of_nat (inv_of p (N.to_nat j)))).
    rewrite (val_permute n p v _ H HV), (val_permute n p g _ H HG) in St.
    rewrite Nat2N.id, (fwd_inv n p _ H Hlt), N2Nat.id in St. exact (St Hj).
  - apply (Model2_permute n p D v H HD HV S). exact M2.
  - intros g' G' i Hi.
    assert (HG' : length g' = n).
    { destruct G' as [C _]. rewrite <- (Gamma_length _ _ _ C).
      rewrite reduct_length, permute_adf_length. exact HP. }
    destruct (permute_interp_surj n p g' H HG') as [E L].
    rewrite <- E in G' |- *.
    apply (Grounded_ext _ _ _ ER) in G'.
    apply (Grounded_permute n p (reduct D v) _ H HRL L SR) in G'.
    rewrite (val_permute n p v _ H HV) in Hi.
    rewrite (val_permute n p _ _ H L). apply (St _ G'). exact Hi.
Qed.

(** transfer of SETS of models: the models of the permuted ADF are exactly the
    permuted models *)
Corollary models_permute (sem : adf -> interp -> Prop) n p D :
  (forall v, length v = n -> (sem (permute_adf p D) (permute_interp p v) <-> sem D v)) ->
  perm_ok n p ->
  forall w, length w = n ->
    (sem (permute_adf p D) w <-> exists v, length v = n /\ sem D v /\ w = permute_interp p v).
Proof.
  intros Hsem H w HW. destruct (permute_interp_surj n p w H HW) as [E L]. split.
  - intros Sw. exists (permute_interp (inv_perm p) w). split; [exact L|]. split; [|symmetry; exact E].
    apply (Hsem _ L). rewrite E. exact Sw.
  - intros (v & HV & Sv & ->). apply (Hsem v HV). exact Sv.
Qed.

Print Assumptions Cons3_permute.
Print Assumptions Gamma_permute.
Print Assumptions Complete_permute.
Print Assumptions Grounded_permute.
Print Assumptions Model2_permute.
Print Assumptions Stable_permute.
Print Assumptions permute_interp_surj.
Print Assumptions models_permute.
