(** Order-theoretic facts about the specification in Spec.v.
    Everything here is constructive: no axioms, no classical reasoning,
    no functional extensionality. *)
From Coq Require Import NArith List Bool Lia Arith.
From ADF Require Import Spec.Spec.
Import ListNotations.

(* ------------------------------------------------------------------ *)
(** * Generic list helpers *)

Lemma Forall2_nth {A B} (R : A -> B -> Prop) l l' :
  Forall2 R l l' -> forall i d d', i < length l -> R (nth i l d) (nth i l' d').
Proof.
  induction 1; simpl; intros i d d' Hi.
  - lia.
  - destruct i; auto. apply IHForall2. lia.
Qed.

Lemma Forall2_len {A B} (R : A -> B -> Prop) l l' :
  Forall2 R l l' -> length l = length l'.
Proof. induction 1; simpl; auto. Qed.

Lemma Forall2_of_nth {A B} (R : A -> B -> Prop) d d' l l' :
  length l = length l' ->
  (forall i, i < length l -> R (nth i l d) (nth i l' d')) -> Forall2 R l l'.
Proof.
  revert l'. induction l; destruct l'; simpl; intros HL H; try discriminate.
  - constructor.
  - constructor.
    + apply (H 0). lia.
    + apply IHl. lia. intros i Hi. apply (H (S i)). lia.
Qed.

Lemma Forall2_map_l {A B C} (R : B -> C -> Prop) (g : A -> B) l l' :
  Forall2 R (map g l) l' <-> Forall2 (fun x y => R (g x) y) l l'.
Proof.
  revert l'. induction l; intros l'; simpl; split; intros H; inversion H; subst;
    constructor; auto; apply IHl; auto.
Qed.

Lemma Forall2_impl_Forall {A B} (P : A -> Prop) (R R' : A -> B -> Prop) l l' :
  Forall P l -> (forall x y, P x -> R x y -> R' x y) ->
  Forall2 R l l' -> Forall2 R' l l'.
Proof.
  intros HP HI H. induction H; constructor; inversion HP; subst; auto.
Qed.

Lemma list_eq_of_nth {A} (d : A) l l' :
  length l = length l' ->
  (forall i, i < length l -> nth i l d = nth i l' d) -> l = l'.
Proof.
  revert l'. induction l; destruct l'; simpl; intros HL H; try discriminate; auto.
  f_equal.
  - apply (H 0). lia.
  - apply IHl. lia. intros i Hi. apply (H (S i)). lia.
Qed.

(* ------------------------------------------------------------------ *)
(** * [val] *)

Lemma val_overflow v i : length v <= N.to_nat i -> val v i = U.
Proof. intros. unfold val. apply nth_overflow. auto. Qed.

Lemma val_decided_lt v i : val v i <> U -> N.to_nat i < length v.
Proof.
  intros H. destruct (le_lt_dec (length v) (N.to_nat i)); auto.
  elim H. apply val_overflow; auto.
Qed.

Lemma val_of_nat v k : val v (N.of_nat k) = nth k v U.
Proof. unfold val. rewrite Nat2N.id. reflexivity. Qed.

Lemma info_le_val v w i : info_le v w -> val v i = U \/ val v i = val w i.
Proof.
  intros H. destruct (le_lt_dec (length v) (N.to_nat i)).
  - left. apply val_overflow. auto.
  - unfold val. exact (Forall2_nth _ _ _ H _ U U l).
Qed.

Lemma info_le_length v w : info_le v w -> length v = length w.
Proof. apply Forall2_len. Qed.

Lemma two_valued_val v i : TwoValued v -> N.to_nat i < length v -> val v i <> U.
Proof.
  intros TV Hi. unfold TwoValued in TV. rewrite Forall_forall in TV.
  apply TV. unfold val. apply nth_In. auto.
Qed.

(* ------------------------------------------------------------------ *)
(** * Completions *)

Definition override (v : interp) (a : asg) : asg :=
  fun i => match val v i with T => true | F => false | U => a i end.

Lemma override_completes v a : completes v (override v a).
Proof. intros i. unfold override. split; intros ->; reflexivity. Qed.

Lemma completes_override v a : completes v a -> forall i, override v a i = a i.
Proof.
  intros H i. unfold override. destruct (H i) as [H1 H2].
  destruct (val v i) eqn:E; auto; symmetry; auto.
Qed.

Lemma completes_exists v : exists a, completes v a.
Proof. exists (override v (fun _ => false)). apply override_completes. Qed.

(* ------------------------------------------------------------------ *)
(** * The information order *)

Lemma info_le_refl v : info_le v v.
Proof. unfold info_le. induction v; constructor; auto. Qed.

Lemma info_le_trans u v w : info_le u v -> info_le v w -> info_le u w.
Proof.
  unfold info_le. intros H; revert w.
  induction H; intros w Hw; inversion Hw; subst; constructor.
  - destruct H as [-> | ->]; auto.
  - auto.
Qed.

Lemma info_le_antisym v w : info_le v w -> info_le w v -> v = w.
Proof.
  unfold info_le. intros H. induction H; intros H'; inversion H'; subst; auto.
  f_equal; auto.
  destruct H as [-> | ->]; auto. destruct H4 as [-> | ->]; auto.
Qed.

Lemma info_le_completes v w a : info_le v w -> completes w a -> completes v a.
Proof.
  intros H C i. destruct (C i) as [C1 C2].
  destruct (info_le_val v w i H) as [E | E]; split; intros E'.
  - congruence.
  - congruence.
  - apply C1. congruence.
  - apply C2. congruence.
Qed.

Lemma info_le_bot w : info_le (repeat U (length w)) w.
Proof. unfold info_le. induction w; simpl; constructor; auto. Qed.

(* ------------------------------------------------------------------ *)
(** * Cons3 and Gamma: functional and monotone *)

Lemma Cons3_det f v r r' : Cons3 f v r -> Cons3 f v r' -> r = r'.
Proof.
  destruct (completes_exists v) as [a Ha].
  unfold Cons3. destruct r, r'; cbn; intros H H'; auto;
    try (pose proof (H a Ha); pose proof (H' a Ha); congruence);
    try (destruct H as [H1 H2]; exfalso; (apply H1; exact H') || (apply H2; exact H'));
    try (destruct H' as [H1 H2]; exfalso; (apply H1; exact H) || (apply H2; exact H)).
Qed.

Lemma Gamma_det D v w w' : Gamma D v w -> Gamma D v w' -> w = w'.
Proof.
  unfold Gamma. intros H; revert w'.
  induction H; intros w' H'; inversion H'; subst; auto.
  f_equal; eauto using Cons3_det.
Qed.

Lemma Cons3_mono f v w r r' :
  info_le v w -> Cons3 f v r -> Cons3 f w r' -> (r = U \/ r = r').
Proof.
  intros L Hr Hr'. destruct r; auto; right.
  - apply (Cons3_det f w); auto. cbn. intros a Ha. apply Hr.
    eapply info_le_completes; eauto.
  - apply (Cons3_det f w); auto. cbn. intros a Ha. apply Hr.
    eapply info_le_completes; eauto.
Qed.

Lemma Gamma_mono D v w gv gw :
  info_le v w -> Gamma D v gv -> Gamma D w gw -> info_le gv gw.
Proof.
  unfold Gamma, info_le. intros L Hv; revert gw.
  induction Hv; intros gw Hw; inversion Hw; subst; constructor; auto.
  eapply Cons3_mono; eauto.
Qed.

Lemma Gamma_length D v w : Gamma D v w -> length D = length w.
Proof. apply Forall2_len. Qed.

Lemma Grounded_unique D g g' : Grounded D g -> Grounded D g' -> g = g'.
Proof. intros [C1 M1] [C2 M2]. apply info_le_antisym; auto. Qed.

(* ------------------------------------------------------------------ *)
(** * Kleene iteration, relationally *)

Inductive chain (D : adf) : nat -> interp -> Prop :=
| chain0 : chain D 0 (repeat U (length D))
| chainS n v w : chain D n v -> Gamma D v w -> chain D (S n) w.

Lemma chain_below_complete D n v w : chain D n v -> Complete D w -> info_le v w.
Proof.
  intros H C. induction H.
  - rewrite (Gamma_length _ _ _ C). apply info_le_bot.
  - eapply Gamma_mono; eauto.
Qed.

Lemma chain_increasing D n v w : chain D n v -> Gamma D v w -> info_le v w.
Proof.
  intros H; revert w. induction H; intros w' G.
  - rewrite (Gamma_length _ _ _ G). apply info_le_bot.
  - eapply Gamma_mono; eauto.
Qed.

Theorem chain_fixpoint_grounded D n v : chain D n v -> Gamma D v v -> Grounded D v.
Proof.
  intros H G. split; auto. intros w C. eapply chain_below_complete; eauto.
Qed.

Lemma chain_length D n v : chain D n v -> length v = length D.
Proof.
  destruct 1.
  - apply repeat_length.
  - symmetry. eapply Gamma_length; eauto.
Qed.

(* ------------------------------------------------------------------ *)
(** * Counting decided positions *)

Definition ndecided (v : interp) : nat :=
  length (filter (fun x => negb (tv_eqb x U)) v).

Lemma ndecided_cons x v :
  ndecided (x :: v) = (if tv_eqb x U then 0 else 1) + ndecided v.
Proof. unfold ndecided. simpl. destruct (tv_eqb x U); reflexivity. Qed.

Lemma ndecided_le_length v : ndecided v <= length v.
Proof. induction v; auto. rewrite ndecided_cons. simpl. destruct (tv_eqb a U); lia. Qed.

Lemma info_le_ndecided v w : info_le v w -> ndecided v <= ndecided w.
Proof.
  unfold info_le. induction 1.
  - auto.
  - rewrite !ndecided_cons. destruct H as [-> | ->].
    + simpl. lia.
    + lia.
Qed.

Lemma info_le_ndecided_eq v w : info_le v w -> ndecided v = ndecided w -> v = w.
Proof.
  unfold info_le. induction 1; intros E; auto.
  pose proof (info_le_ndecided _ _ H0) as LE.
  rewrite !ndecided_cons in E. destruct H as [-> | ->].
  - destruct y; simpl in E; try lia. f_equal. apply IHForall2. lia.
  - f_equal. apply IHForall2. lia.
Qed.

(** Bonus: the iteration is deterministic and stationary after [length D] steps. *)

Lemma chain_det D n v v' : chain D n v -> chain D n v' -> v = v'.
Proof.
  intros H; revert v'. induction H; intros v' H'; inversion H'; subst; auto.
  rewrite <- (IHchain _ H2) in H3. eapply Gamma_det; eauto.
Qed.

Lemma tv_eq_dec (x y : tv) : {x = y} + {x <> y}.
Proof. decide equality. Qed.

Lemma interp_eq_dec (v w : interp) : {v = w} + {v <> w}.
Proof. apply list_eq_dec, tv_eq_dec. Qed.

Lemma chain_step_strict D n v w :
  chain D n v -> Gamma D v w -> v <> w -> ndecided v < ndecided w.
Proof.
  intros H G NE. pose proof (chain_increasing _ _ _ _ H G) as L.
  pose proof (info_le_ndecided _ _ L) as LE.
  destruct (Nat.eq_dec (ndecided v) (ndecided w)) as [E | E]; [| lia].
  elim NE. apply info_le_ndecided_eq; auto.
Qed.

Lemma chain_fix_or_progress D n v :
  chain D n v -> Gamma D v v \/ n <= ndecided v.
Proof.
  induction 1.
  - right. lia.
  - destruct IHchain as [Fx | P].
    + left. rewrite <- (Gamma_det _ _ _ _ Fx H0) at 1. exact H0.
    + destruct (interp_eq_dec v w) as [-> | NE].
      * left. exact H0.
      * right. pose proof (chain_step_strict _ _ _ _ H H0 NE). lia.
Qed.

Lemma chain_stationary D v w :
  chain D (length D) v -> Gamma D v w -> w = v.
Proof.
  intros H G. destruct (chain_fix_or_progress _ _ _ H) as [Fx | P].
  - eapply Gamma_det; eauto.
  - symmetry. apply info_le_ndecided_eq.
    + eapply chain_increasing; eauto.
    + pose proof (info_le_ndecided _ _ (chain_increasing _ _ _ _ H G)).
      pose proof (ndecided_le_length w).
      rewrite <- (Gamma_length _ _ _ G) in H1. lia.
Qed.

Theorem chain_length_grounded D v :
  chain D (length D) v -> forall w, Gamma D v w -> Grounded D v.
Proof.
  intros H w G. eapply chain_fixpoint_grounded; eauto.
  rewrite (chain_stationary _ _ _ H G) in G. exact G.
Qed.

(* ------------------------------------------------------------------ *)
(** * Supported functions and two-valued interpretations *)

Definition supported (n : nat) (f : bfun) : Prop :=
  forall a b, (forall i, (N.to_nat i < n)%nat -> a i = b i) -> f a = f b.

Definition asg_of (v : interp) : asg :=
  fun i => match val v i with T => true | _ => false end.

Lemma asg_of_completes v : completes v (asg_of v).
Proof. intros i. unfold asg_of. split; intros ->; reflexivity. Qed.

Lemma two_valued_completion v a :
  TwoValued v -> completes v a ->
  forall i, (N.to_nat i < length v)%nat -> a i = asg_of v i.
Proof.
  intros TV C i Hi. unfold asg_of.
  pose proof (two_valued_val v i TV Hi) as NU.
  destruct (C i) as [C1 C2].
  destruct (val v i) eqn:E; auto. congruence.
Qed.

Lemma Cons3_two_valued f v :
  TwoValued v -> supported (length v) f ->
  Cons3 f v (if f (asg_of v) then T else F).
Proof.
  intros TV S.
  assert (H : forall a, completes v a -> f a = f (asg_of v)).
  { intros a Ha. apply S. intros i Hi. eapply two_valued_completion; eauto. }
  destruct (f (asg_of v)) eqn:E; cbn; intros a Ha; exact (H a Ha).
Qed.

(* ------------------------------------------------------------------ *)
(** * The reduct *)

Definition mask (v : interp) (a : asg) : asg :=
  fun i => match val v i with F => false | _ => a i end.

Lemma reduct_mask D v : reduct D v = map (fun f => fun a => f (mask v a)) D.
Proof. reflexivity. Qed.

Lemma mask_asg_of v i : mask v (asg_of v) i = asg_of v i.
Proof. unfold mask, asg_of. destruct (val v i); reflexivity. Qed.

Lemma supported_mask n f v :
  supported n f -> supported n (fun a => f (mask v a)).
Proof.
  intros S a b H. apply S. intros i Hi. unfold mask.
  destruct (val v i); auto.
Qed.

Lemma reduct_length D v : length (reduct D v) = length D.
Proof. unfold reduct. apply map_length. Qed.

Lemma Gamma_reduct D v u w :
  Gamma (reduct D v) u w <->
  Forall2 (fun f r => Cons3 (fun a => f (mask v a)) u r) D w.
Proof. unfold Gamma. rewrite reduct_mask. apply Forall2_map_l. Qed.

Lemma Cons3_reduct_two_valued f v r :
  TwoValued v -> supported (length v) f ->
  (Cons3 f v r <-> Cons3 (fun a => f (mask v a)) v r).
Proof.
  intros TV S.
  pose proof (Cons3_two_valued f v TV S) as H1.
  pose proof (Cons3_two_valued _ v TV (supported_mask _ _ v S)) as H2.
  cbv beta in H2.
  assert (E : f (mask v (asg_of v)) = f (asg_of v)).
  { apply S. intros i _. apply mask_asg_of. }
  rewrite E in H2.
  split; intros H.
  - rewrite (Cons3_det _ _ _ _ H H1). exact H2.
  - rewrite (Cons3_det _ _ _ _ H H2). exact H1.
Qed.

Lemma Gamma_reduct_two_valued D v w :
  TwoValued v -> Forall (supported (length v)) D ->
  (Gamma D v w <-> Gamma (reduct D v) v w).
Proof.
  intros TV S. rewrite Gamma_reduct. unfold Gamma. split; intros H.
  - eapply Forall2_impl_Forall; [exact S | | exact H].
    intros f r Sf Hf. cbv beta in *.
    exact (proj1 (Cons3_reduct_two_valued f v r TV Sf) Hf).
  - eapply Forall2_impl_Forall; [exact S | | exact H].
    intros f r Sf Hf. cbv beta in *.
    exact (proj2 (Cons3_reduct_two_valued f v r TV Sf) Hf).
Qed.

(* ------------------------------------------------------------------ *)
(** * Two-valued models by evaluation *)

Lemma model2_iff_eval D v :
  length v = length D -> TwoValued v -> Forall (supported (length D)) D ->
  (Model2 D v <-> Forall2 (fun (f : bfun) (r : tv) => r = if f (asg_of v) then T else F) D v).
Proof.
  intros HL TV S. rewrite <- HL in S. split.
  - intros [C _]. unfold Complete, Gamma in C.
    eapply Forall2_impl_Forall; [exact S | | exact C].
    intros f r Sf Hf. cbv beta in *.
    eapply Cons3_det; eauto. apply Cons3_two_valued; auto.
  - intros H. split; auto. unfold Complete, Gamma.
    eapply Forall2_impl_Forall; [exact S | | exact H].
    intros f r Sf Hf. cbv beta in *. subst r. apply Cons3_two_valued; auto.
Qed.

(* ------------------------------------------------------------------ *)
(** * Stability = being the grounded interpretation of the reduct *)

Theorem stable_iff_reduct_grounded D v :
  length v = length D -> TwoValued v -> Forall (supported (length D)) D ->
  forall g, Grounded (reduct D v) g -> (Stable D v <-> g = v).
Proof.
  intros HL TV S g HG. split.
  - (* Stable -> g = v *)
    intros [[CV _] Hst]. specialize (Hst g HG).
    destruct HG as [Cg Mg].
    assert (S' : Forall (supported (length v)) D) by (rewrite HL; exact S).
    assert (CRv : Complete (reduct D v) v).
    { exact (proj1 (Gamma_reduct_two_valued D v v TV S') CV). }
    pose proof (Mg v CRv) as Lgv.
    pose proof (info_le_length _ _ Lgv) as Lg.
    apply (list_eq_of_nth U); auto.
    intros k Hk. rewrite Lg in Hk.
    assert (Hki : N.to_nat (N.of_nat k) < length v) by (rewrite Nat2N.id; auto).
    pose proof (two_valued_val v (N.of_nat k) TV Hki) as NU.
    rewrite <- !val_of_nat.
    destruct (val v (N.of_nat k)) eqn:E.
    + apply Hst; auto.
    + (* v_k = F : the reduct's condition is constantly false on completions of g *)
      unfold Complete in Cg. rewrite Gamma_reduct in Cg.
      assert (HkD : k < length D) by lia.
      pose proof (Forall2_nth _ _ _ Cg k (fun _ => false) U HkD) as Ck.
      cbv beta in Ck.
      pose proof (Forall2_nth _ _ _ CV k (fun _ => false) U HkD) as Ckv.
      cbv beta in Ckv.
      rewrite <- !val_of_nat in Ck, Ckv. rewrite E in Ckv.
      set (fk := nth k D (fun _ => false)) in *.
      assert (Sk : supported (length v) fk).
      { rewrite Forall_forall in S'. apply S'. apply nth_In. auto. }
      eapply Cons3_det; [exact Ck |].
      cbn. intros a Ha.
      assert (Efalse : fk (asg_of v) = false).
      { apply Ckv. apply asg_of_completes. }
      change (fk (mask v a) = false).
      transitivity (fk (asg_of v)); [| exact Efalse].
      apply Sk. intros i Hi.
      unfold mask, asg_of.
      pose proof (two_valued_val v i TV Hi) as NUi.
      destruct (val v i) eqn:Ei; auto.
      * apply (Ha i). apply Hst. auto.
      * congruence.
    + congruence.
  - (* g = v -> Stable *)
    intros ->.
    assert (S' : Forall (supported (length v)) D) by (rewrite HL; exact S).
    split.
    + split; auto. destruct HG as [Cg _].
      exact (proj2 (Gamma_reduct_two_valued D v v TV S') Cg).
    + intros g' HG' i Hi.
      rewrite (Grounded_unique _ _ _ HG' HG). auto.
Qed.

Theorem stable_of_reduct_grounded D v :
  length v = length D -> TwoValued v -> Forall (supported (length D)) D ->
  Grounded (reduct D v) v -> Stable D v.
Proof.
  intros HL TV S HG.
  apply (stable_iff_reduct_grounded D v HL TV S v HG). reflexivity.
Qed.

(* ------------------------------------------------------------------ *)
(** * Examples: the hypotheses are satisfiable *)

Local Open Scope N_scope.

Definition exD1 : adf := [ (fun a => a 1) ; (fun a => negb (a 0)) ].
Definition exD2 : adf := [ (fun a => negb (a 1)) ; (fun a => negb (a 0)) ].

Lemma completes_UU a : completes [U; U] a.
Proof.
  intros i. unfold val.
  destruct (N.to_nat i) as [|[|[|n]]]; simpl; split; discriminate.
Qed.

Example exD1_supported : Forall (supported (length exD1)) exD1.
Proof.
  repeat constructor; intros a b H; simpl in *.
  - apply H. simpl. lia.
  - f_equal. apply H. simpl. lia.
Qed.

Example exD1_grounded : Grounded exD1 [U; U].
Proof.
  split.
  - unfold Complete, Gamma, exD1. repeat constructor.
    + intros H. specialize (H (fun _ => false) (completes_UU _)). discriminate.
    + intros H. specialize (H (fun _ => true) (completes_UU _)). discriminate.
    + intros H. specialize (H (fun _ => true) (completes_UU _)). discriminate.
    + intros H. specialize (H (fun _ => false) (completes_UU _)). discriminate.
  - intros w C. pose proof (Gamma_length _ _ _ C) as L.
    change [U; U] with (repeat U (length exD1)). rewrite L. apply info_le_bot.
Qed.

Example exD1_chain_grounded : chain exD1 0 [U; U].
Proof. exact (chain0 exD1). Qed.

Example exD2_supported : Forall (supported (length exD2)) exD2.
Proof.
  repeat constructor; intros a b H; simpl in *.
  - f_equal. apply H. simpl. lia.
  - f_equal. apply H. simpl. lia.
Qed.

Example exD2_stable : Stable exD2 [T; F].
Proof.
  split.
  - split.
    + unfold Complete, Gamma, exD2.
      constructor; [| constructor; [| constructor]].
      * cbn. intros a Ha. destruct (Ha 1) as [_ H]. rewrite H; auto.
      * cbn. intros a Ha. destruct (Ha 0) as [H _]. rewrite H; auto.
    + repeat constructor; discriminate.
  - intros g [Cg _] i Hi.
    assert (i = 0).
    { unfold val in Hi. destruct (N.to_nat i) as [|[|[|n]]] eqn:E; simpl in Hi;
        try discriminate. lia. }
    subst i.
    unfold Complete, Gamma, reduct, exD2 in Cg. simpl in Cg.
    inversion Cg as [| f0 g0 l0 l0' H0 Hrest]; subst.
    unfold val. simpl.
    eapply Cons3_det; [exact H0 |].
    cbn. intros a Ha. reflexivity.
Qed.

(* the same stable model, obtained through the reduct characterisation *)
Example exD2_reduct_grounded : Grounded (reduct exD2 [T; F]) [T; F].
Proof.
  split.
  - unfold Complete, Gamma, reduct, exD2. simpl.
    constructor; [| constructor; [| constructor]].
    + cbn. intros a Ha. reflexivity.
    + cbn. intros a Ha. destruct (Ha 0) as [H _]. rewrite H; auto.
  - intros w C. unfold Complete, Gamma, reduct, exD2 in C. simpl in C.
    inversion C as [| f0 g0 l0 l0' H0 Hrest]; subst.
    inversion Hrest as [| f1 g1 l1 l1' H1 Hnil]; subst.
    inversion Hnil; subst.
    assert (g0 = T).
    { eapply Cons3_det; [exact H0 |]. cbn. intros a Ha. reflexivity. }
    subst g0.
    assert (g1 = F).
    { eapply Cons3_det; [exact H1 |]. cbn. intros a Ha.
      destruct (Ha 0) as [H _]. rewrite H; auto. }
    subst g1. apply info_le_refl.
Qed.

Example exD2_stable_via_reduct : Stable exD2 [T; F].
Proof.
  apply stable_of_reduct_grounded.
  - reflexivity.
  - repeat constructor; discriminate.
  - exact exD2_supported.
  - exact exD2_reduct_grounded.
Qed.

Print Assumptions chain_fixpoint_grounded.
Print Assumptions Grounded_unique.
Print Assumptions stable_iff_reduct_grounded.
Print Assumptions stable_of_reduct_grounded.
Print Assumptions model2_iff_eval.
