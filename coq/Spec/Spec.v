(** The mathematical specification the theorems refer to (DESIGN.md, Appendix A).
    Nothing here mentions restriction, caches, iterators or search. *)
From Coq Require Import NArith List Bool.
Import ListNotations.
Local Open Scope N_scope.

(* ---------- Boolean functions ---------- *)
Definition asg  := N -> bool.
Definition bfun := asg -> bool.
Definition upd (a:asg) (v:N) (b:bool) : asg := fun x => if x =? v then b else a x.
Definition cofactor (f:bfun) (v:N) (b:bool) : bfun := fun a => f (upd a v b).
Definition depends (f:bfun) (v:N) : Prop := exists a, f (upd a v true) <> f (upd a v false).
Definition feq (f g:bfun) : Prop := forall a, f a = g a.

(* ---------- three-valued interpretations ---------- *)
Inductive tv := T | F | U.
Definition tv_eqb (x y : tv) : bool :=
  match x, y with T,T | F,F | U,U => true | _,_ => false end.
Definition interp := list tv.
Definition val (v:interp) (i:N) : tv := nth (N.to_nat i) v U.
Definition completes (v:interp) (a:asg) : Prop :=
  forall i, (val v i = T -> a i = true) /\ (val v i = F -> a i = false).
Definition info_le (v w:interp) : Prop := Forall2 (fun x y => x = U \/ x = y) v w.
Definition TwoValued (v:interp) : Prop := Forall (fun x => x <> U) v.

(* ---------- ADF semantics ---------- *)
Definition adf := list bfun.
Definition Cons3 (f:bfun) (v:interp) (r:tv) : Prop :=
  let allT := forall a, completes v a -> f a = true in
  let allF := forall a, completes v a -> f a = false in
  match r with T => allT | F => allF | U => ~ allT /\ ~ allF end.
Definition Gamma (D:adf) (v w:interp) : Prop := Forall2 (fun f r => Cons3 f v r) D w.
Definition Complete (D:adf) (v:interp) : Prop := Gamma D v v.
Definition Grounded (D:adf) (g:interp) : Prop :=
  Complete D g /\ forall w, Complete D w -> info_le g w.
Definition Model2 (D:adf) (v:interp) : Prop := Complete D v /\ TwoValued v.
Definition reduct (D:adf) (v:interp) : adf :=
  map (fun f => fun a => f (fun i => match val v i with F => false | _ => a i end)) D.
Definition Stable (D:adf) (v:interp) : Prop :=
  Model2 D v /\ forall g, Grounded (reduct D v) g -> forall i, val v i = T -> val g i = T.

(* ---------- formulas of the input language ---------- *)
Inductive formula :=
| FBot | FTop | FAtom (x:N) | FNot (f:formula)
| FAnd (f g:formula) | FOr (f g:formula) | FImp (f g:formula) | FXor (f g:formula) | FIff (f g:formula).
Fixpoint feval (f:formula) : bfun := fun a =>
  match f with
  | FBot => false | FTop => true | FAtom x => a x | FNot g => negb (feval g a)
  | FAnd g h => feval g a && feval h a | FOr g h => feval g a || feval h a
  | FImp g h => implb (feval g a) (feval h a) | FXor g h => xorb (feval g a) (feval h a)
  | FIff g h => eqb (feval g a) (feval h a)
  end.

(* ---------- diagrams ---------- *)
Record node := mkN { nv : N; nlo : N; nhi : N }.
Definition VTOP : N := 18446744073709551615.
Definition VBOT : N := 18446744073709551614.
Definition table := list node.
Definition getn (t:table) (h:N) : node := nth (N.to_nat h) t (mkN VTOP 1 1).
Inductive Den (t:table) : N -> asg -> bool -> Prop :=
| DenBot (a:asg) : Den t 0 a false
| DenTop (a:asg) : Den t 1 a true
| DenNode (h:N) (a:asg) (b:bool) : 2 <= h -> h < N.of_nat (length t) ->
    Den t (if a (nv (getn t h)) then nhi (getn t h) else nlo (getn t h)) a b -> Den t h a b.
Definition Canonical (t:table) : Prop :=
  nth_error t 0 = Some (mkN VBOT 0 0) /\ nth_error t 1 = Some (mkN VTOP 1 1) /\
  (forall h, 2 <= h -> h < N.of_nat (length t) ->
     let n := getn t h in
     nv n < VBOT /\ nlo n <> nhi n /\ nlo n < h /\ nhi n < h /\
     nv n < nv (getn t (nlo n)) /\ nv n < nv (getn t (nhi n))) /\
  (forall h k, 2 <= h -> h < k -> k < N.of_nat (length t) -> getn t h <> getn t k).
Definition SameHandleIffSameFunction (t:table) : Prop :=
  forall h k, h < N.of_nat (length t) -> k < N.of_nat (length t) ->
    (h = k <-> forall a b, Den t h a b <-> Den t k a b).
