(** C04: the cube loop of the counting-guided search does not stop at an inconsistent cube. *)
From ADF Require Import Gen.GenFlags.
Lemma count_loop_skips_inconsistent_cubes : g_count_stop_on_err = false.
Proof. reflexivity. Qed.
