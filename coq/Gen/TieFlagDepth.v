(** C12: the depth fallback of the build without ad-hoc counting adds one per level. *)
From Coq Require Import NArith.
From ADF Require Import Gen.GenFlags.
Lemma depth_fallback_counts_levels : g_depth_plus = 1%N.
Proof. reflexivity. Qed.
