(** C16 / C17: every database filter of the web service carries the keys it needs (the table is
    regenerated from the doc! literals of server/src/adf.rs and server/src/user.rs). *)
From ADF Require Import Server.Model Gen.GenFilters.
Lemma filters_complete : filters_ok g_ftable = true.
Proof. vm_compute. reflexivity. Qed.
