(** C13: 'more models than counter-models' is true iff models >= counter-models
    (statement about the definition regenerated from lib/src/datatypes/bdd.rs). *)
From Coq Require Import NArith Bool Lia.
From ADF Require Import Gen.GenLeaf.
Local Open Scope N_scope.
Lemma more_models_spec : forall cm m, g_more_models (cm, m) = (cm <=? m).
Proof.
  intros cm m. unfold g_more_models, g_minimum. cbn [fst snd].
  destruct (N.leb_spec cm m); destruct (N.leb_spec (N.min m cm) m); lia.
Qed.
