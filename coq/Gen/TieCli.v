(** C15: what the model of App::run (Front/Cli.v) assumes about bin/src/main.rs, stated on the tables
    REGENERATED from that file (Gen/GenCli.v):
    - in every library mode the input is parsed, then sorted, then the ADF is built (and, in hybrid
      mode, converted) before the first semantics block;
    - the semantics blocks of a mode are, in order and with these guards, exactly the sections of
      [mode_flags] (the statement of C15_sections), each named by the long option of its first guard;
    - each block calls the library method the model calls for that section, passes --heu on exactly to
      the two nogood searches, and prints through the name list of the built ADF. *)
From Coq Require Import NArith List Bool String Ascii.
From ADF Require Import Gen.GenCli Front.Parser Front.Cli Front.CliProofs.
Import ListNotations.
Local Open Scope string_scope.

Definition str_of_string (s : string) : str := map (fun a => N.of_nat (nat_of_ascii a)) (list_ascii_of_string s).

Fixpoint assoc (k : string) (l : list (string * string)) : string :=
  match l with [] => "" | (a, b) :: r => if String.eqb a k then b else assoc k r end.

(** the flag of the model that the clap field of that long name stands for *)
Definition flag_of_long (fl : flags) (long : string) : bool :=
  if String.eqb long "grd" then f_grd fl else if String.eqb long "com" then f_com fl
  else if String.eqb long "stm" then f_stm fl else if String.eqb long "stmca" then f_stmca fl
  else if String.eqb long "stmcb" then f_stmcb fl else if String.eqb long "stmpre" then f_stmpre fl
  else if String.eqb long "stmrew" then f_stmrew fl else if String.eqb long "stmrew2" then f_stmrew2 fl
  else if String.eqb long "stmng" then f_stmng fl else if String.eqb long "twoval" then f_twoval fl
  else false.

Definition row := (list string * string * string * string)%type.
Definition row_fields (r : row) : list string := fst (fst (fst r)).
Definition row_method (r : row) : string := snd (fst (fst r)).
Definition row_printer (r : row) : string := snd (fst r).
Definition row_heu (r : row) : string := snd r.
Fixpoint ors (l : list bool) : bool := match l with [] => false | [b] => b | b :: r => b || ors r end.
Definition row_guard (fl : flags) (r : row) : bool := ors (map (fun f => flag_of_long fl (assoc f g_cli_flags)) (row_fields r)).
Definition row_section (r : row) : str := str_of_string (assoc (hd "" (row_fields r)) g_cli_flags).

Definition arm (m : mode) : list row :=
  match m with MHybrid => g_cli_hybrid | MBio => g_cli_biodivine | MNaive => g_cli_naive end.

(** the library method the model runs for a section, whether it takes the heuristic *)
Definition expected_method (long : string) : string * string :=
  if String.eqb long "grd" then ("grounded", "-") else if String.eqb long "com" then ("complete", "-")
  else if String.eqb long "stm" then ("stable", "-")
  else if String.eqb long "stmca" then ("stable_count_optimisation_heu_a", "-")
  else if String.eqb long "stmcb" then ("stable_count_optimisation_heu_b", "-")
  else if String.eqb long "stmpre" then ("stable_with_prefilter", "-")
  else if String.eqb long "stmrew" then ("stable_bdd_representation", "-")
  else if String.eqb long "stmng" then ("stable_nogood", "heu")
  else if String.eqb long "twoval" then ("two_val_nogood_channel", "heu") else ("", "").

Lemma cli_sections_match_source : forall m fl,
  mode_flags m fl = map (fun r => (row_guard fl r, row_section r)) (arm m).
Proof. intros m fl. destruct m; reflexivity. Qed.

Lemma cli_methods_match_source : forall m,
  forallb (fun r => let e := expected_method (assoc (hd "" (row_fields r)) g_cli_flags) in
                    String.eqb (row_method r) (fst e) && String.eqb (row_heu r) (snd e)) (arm m) = true.
Proof. intros m. destruct m; reflexivity. Qed.

(** printing: the grounded line through the ADF that was built, the others through its dictionary
    (the same name list: Front/Cli.v prints every section with the names of the sorted parser state) *)
Lemma cli_printers_match_source :
  map row_printer g_cli_hybrid = ["naive_adf"; "printer"; "printer"; "printer"; "printer"; "printer"; "printer"; "printer"; "printer"] /\
  map row_printer g_cli_biodivine = ["adf"; "adf"; "adf"; "adf"] /\
  map row_printer g_cli_naive = ["adf"; "printer"; "printer"; "printer"].
Proof. repeat split; reflexivity. Qed.

(** set-up: parse, sort, build, (convert); nothing of it after the first semantics block *)
Lemma cli_setup_matches_source :
  g_cli_setup_hybrid = ["parse"; "sort_lex"; "sort_alphan"; "build"; "build_rew"; "counter"; "hybrid_step"] /\
  g_cli_setup_biodivine = ["parse"; "sort_lex"; "sort_alphan"; "build"; "build_rew"] /\
  g_cli_setup_naive = ["import"; "import"; "parse"; "sort_lex"; "sort_alphan"; "build"; "export"; "counter"].
Proof. repeat split; reflexivity. Qed.
