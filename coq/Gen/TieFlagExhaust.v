(** C05: the nogood-learning loop ends when a backtrack finds no choice entry on the stack (all choice
    points are exhausted); without this the framework without statements is searched for ever. *)
From ADF Require Import Gen.GenFlags.
Lemma ng_loop_stops_when_exhausted : g_ng_stop_exhausted = true.
Proof. reflexivity. Qed.
