(** C11 / C14: generate_var_dependencies (the first half of fix_import) rebuilds the variable sets from an
    empty table, so that the repair step may be applied to any store - a live one, or twice after an import. *)
From ADF Require Import Gen.GenFlags.
Lemma fix_import_rebuilds_from_scratch : g_fix_import_clears = true.
Proof. reflexivity. Qed.
