(** C11: the model hands the list of acceptance conditions to every semantics as an argument and gets back
    the store and the answer only - the list is not part of the state a call can change.  That shape is
    justified as long as no method of lib/src/adf.rs writes [self.ac] (table REGENERATED from the source,
    Gen/GenAc.v): the semantics copy the list ([self.ac.clone()]) and work on the copy. *)
From Coq Require Import String List.
From ADF Require Import Gen.GenAc.
Import ListNotations.
Lemma semantics_never_write_the_conditions : g_ac_writers = [].
Proof. reflexivity. Qed.
