(** Tie T-A: the leaf predicates regenerated from lib/src/datatypes/bdd.rs are the hand model's. *)
From Coq Require Import NArith Bool Lia.
From ADF Require Import Spec.Spec Gen.GenLeaf Bdd.Store Adf.Native Adf.Search.
Local Open Scope N_scope.

Lemma tie_constants : g_Term_BOT = 0 /\ g_Term_TOP = 1 /\ g_Term_UND = 2 /\ g_Var_TOP = VTOP /\ g_Var_BOT = VBOT.
Proof. repeat split; reflexivity. Qed.
Lemma tie_is_truth_value : forall h, g_is_truth_value h = is_tv h.
Proof. reflexivity. Qed.
Lemma tie_is_true : forall h, g_is_true h = is_true h.
Proof. reflexivity. Qed.
Lemma tie_compare_inf : forall a b, g_compare_inf a b = compare_inf a b.
Proof. reflexivity. Qed.
Lemma tie_no_inf_inconsistency : forall a b, g_no_inf_inconsistency a b = no_inf_inconsistency a b.
Proof. reflexivity. Qed.
Lemma tie_is_constant : forall v, g_is_constant v = (VBOT <=? v).
Proof. reflexivity. Qed.
Lemma tie_counts : g_top = (c_cm cnt_top, c_m cnt_top) /\ g_bot = (c_cm cnt_bot, c_m cnt_bot).
Proof. split; reflexivity. Qed.
Lemma tie_minimum : forall p, g_minimum p = mc_minimum p.
Proof. reflexivity. Qed.
