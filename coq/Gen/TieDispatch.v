(** C05 / C16: the name -> implementation tables of the source that the model mirrors by a match, on the
    definitions REGENERATED from lib/src/adf/heuristics.rs and server/src/adf.rs (Gen/GenDispatch.v):
    - Heuristic::get_heuristic sends every variant to the function of that name (Adf/Search.v:
      run_heuristic), and the default heuristic is Simple (Server/Instance.v: lib_solve uses HSimple);
    - solve_adf_problem tests, runs and stores one and the same strategy: the field tested for an existing
      answer, the library method and the field written agree for each of the six strategies
      (Server/Model.v keeps the answers in a map keyed by the strategy; Server/Instance.v: lib_solve);
    - add_adf_problem builds natively for Naive and through biodivine + hybrid_step_opt(false) for Hybrid. *)
From Coq Require Import List String.
From ADF Require Import Gen.GenDispatch.
Import ListNotations.
Local Open Scope string_scope.

Lemma heuristics_dispatch_matches_source :
  g_heuristics = [("Custom", "f"); ("MinModMaxVarImpMinPaths", "heu_mc_maxvarimp_minpaths");
                  ("MinModMinPathsMaxVarImp", "heu_mc_minpaths_maxvarimp"); ("Rand", "heu_rand"); ("Simple", "heu_simple")]
  /\ g_heuristic_default = "Simple".
Proof. split; reflexivity. Qed.

Lemma strategy_dispatch_matches_source :
  g_strategies =
  [("Complete", "complete", "complete", "complete");
   ("Ground", "ground", "grounded", "ground");
   ("Stable", "stable", "stable", "stable");
   ("StableCountingA", "stable_counting_a", "stable_count_optimisation_heu_a", "stable_counting_a");
   ("StableCountingB", "stable_counting_b", "stable_count_optimisation_heu_b", "stable_counting_b");
   ("StableNogood", "stable_nogood", "stable_nogood(default)", "stable_nogood")].
Proof. reflexivity. Qed.

Lemma parsing_dispatch_matches_source :
  g_parsings = [("Hybrid", "biodivine+hybrid_step_opt(false)"); ("Naive", "native")].
Proof. reflexivity. Qed.
