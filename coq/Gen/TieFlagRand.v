(** C05: the random heuristic proposes the drawn element of the list of undecided statements. *)
From ADF Require Import Gen.GenFlags.
Lemma rand_proposes_undecided : g_rand_filtered = true.
Proof. reflexivity. Qed.
