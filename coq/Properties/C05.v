(** C05 - Nogood-learning search is exact and terminates for every heuristic.
    Statements only; proofs in Adf/NgSearchProofs.v, about the model (Adf/Search.v, Section NgSearch)
    of Adf::nogood_internal: the step machine choose / backtrack-and-learn / nogood closure /
    acceptance-condition consistency / one propagation step / stability test.
    A heuristic is any function of the search state; [admissible] is the property's condition
    "always proposes an undecided statement with a truth value".  The random heuristic reads an explicit
    draw stream (one RNG output per entry), so "every seed" is "every stream"; [g_rand_filtered] is what
    the source does with a draw (Gen/TieFlagRand.v, regenerated from lib/src/adf/heuristics.rs);
    [sx] tells whether the loop ends as soon as a backtrack finds no choice entry on the stack
    ([g_ng_stop_exhausted], Gen/TieFlagExhaust.v, regenerated from lib/src/adf.rs).
    The channel variants run the same loop and hand over the same list (their sender is dropped when
    the function returns: checked on the implementation by the correspondence harness). *)
From Coq Require Import NArith List Bool.
From ADF Require Import Spec.Spec Gen.GenFlags Gen.TieFlagRand Gen.TieFlagExhaust Gen.GenDispatch Gen.TieDispatch Bdd.Store Bdd.WF Bdd.Node Adf.Native Adf.NativeBase Adf.NoGood Adf.Search Adf.NgSearchProofs.
Import ListNotations.
Local Open Scope N_scope.

(** which heuristics meet the condition of the property *)
Theorem C05_simple_admissible : forall c rf, admissible c HSimple rf.
Proof. exact simple_admissible. Qed.
Print Assumptions C05_simple_admissible.
Theorem C05_counting_heuristics_admissible : forall c rf, admissible c HMinPathsMaxImp rf /\ admissible c HMaxImpMinPaths rf.
Proof. intros c rf; split; [exact (minpaths_admissible c rf) | exact (maximp_admissible c rf)]. Qed.
Print Assumptions C05_counting_heuristics_admissible.
Theorem C05_custom_static_admissible : forall c rf order vals, admissible c (HStatic order vals) rf.
Proof. exact static_admissible. Qed.
Print Assumptions C05_custom_static_admissible.
Theorem C05_rand_admissible_when_it_draws_among_the_undecided : forall c, admissible c HRand true.
Proof. exact rand_filtered_admissible. Qed.
Print Assumptions C05_rand_admissible_when_it_draws_among_the_undecided.
Theorem C05_source_rand_draws_among_the_undecided : g_rand_filtered = true.
Proof. exact rand_proposes_undecided. Qed.
Print Assumptions C05_source_rand_draws_among_the_undecided.
(** the defect repaired in /repo was real: indexing all statements by the draw proposes decided ones *)
Theorem C05_rand_over_all_statements_not_admissible : forall c, ~ admissible c HRand false.
Proof. exact rand_unfiltered_not_admissible. Qed.
Print Assumptions C05_rand_over_all_statements_not_admissible.

(** soundness, for every heuristic whatsoever *)
Theorem C05_sound : forall c ac h rf two sx budget st draws st' l rest,
  WF c st -> ac_ok st ac -> nogood_search c ac h rf two sx budget st draws = Some (st', l, rest) ->
  WF c st' /\ extends st st' /\
  forall v, In v l ->
    length v = length ac /\ Forall (fun x => is_tv x = true) v /\
    (if two then Model2 (abs st ac) (interp_of v) else Stable (abs st ac) (interp_of v)).
Proof. exact ng_sound. Qed.
Print Assumptions C05_sound.

(** the two stacks stay in lock-step: no reachable state makes a step panic *)
Theorem C05_stacks_synchronous : forall c ac h rf two sx st draws s1 g st' s',
  WF c st -> ac_ok st ac -> grounded c st ac = Some (s1, g) ->
  ng_reach c ac h rf two sx s1 (ng_init ac g draws) st' s' ->
  ng_step c ac h rf two sx st' s' <> Some Panic /\
  length (filter fst (g_stack s')) = length (g_hist s') /\
  Forall (fun f => (ng_len (snd f) <= length (buckets (g_store s')))%nat) (g_stack s').
Proof. exact ng_no_panic. Qed.
Print Assumptions C05_stacks_synchronous.

(** exactly the models, each once, for every admissible heuristic and every search history *)
Theorem C05_exact : forall c ac h rf two sx budget st draws st' l rest,
  admissible c h rf -> WF c st -> ac_ok st ac ->
  nogood_search c ac h rf two sx budget st draws = Some (st', l, rest) ->
  NoDup (map interp_of l) /\
  forall v, In v (map interp_of l) <-> (if two then Model2 (abs st ac) v else Stable (abs st ac) v).
Proof. exact ng_exact. Qed.
Print Assumptions C05_exact.

(** termination within an explicit number of loop rounds: for every framework with the loop as the source
    has it, for every framework with a statement in either variant *)
Theorem C05_terminates : forall c ac h rf two budget st draws,
  admissible c h rf -> WF c st -> ac_ok st ac ->
  (ng_bound (length ac) <= budget)%nat ->
  (h = HRand -> (2 * ng_bound (length ac) <= length draws)%nat) ->
  nogood_search c ac h rf two true budget st draws <> None.
Proof. exact ng_terminates_repaired. Qed.
Print Assumptions C05_terminates.
Theorem C05_terminates_with_a_statement : forall c ac h rf two sx budget st draws,
  admissible c h rf -> ac <> [] -> WF c st -> ac_ok st ac ->
  (ng_bound (length ac) <= budget)%nat ->
  (h = HRand -> (2 * ng_bound (length ac) <= length draws)%nat) ->
  nogood_search c ac h rf two sx budget st draws <> None.
Proof. exact ng_terminates. Qed.
Print Assumptions C05_terminates_with_a_statement.

(** ... for the search as the source has it, with every built-in heuristic *)
Theorem C05_source_stops_when_choices_are_exhausted : g_ng_stop_exhausted = true.
Proof. exact ng_loop_stops_when_exhausted. Qed.
Print Assumptions C05_source_stops_when_choices_are_exhausted.
Theorem C05_source_terminates_and_is_exact : forall c ac h two budget st draws,
  WF c st -> ac_ok st ac ->
  (ng_bound (length ac) <= budget)%nat ->
  (h = HRand -> (2 * ng_bound (length ac) <= length draws)%nat) ->
  exists st' l rest, nogood_search_cur c ac h two budget st draws = Some (st', l, rest) /\
    WF c st' /\ extends st st' /\ NoDup (map interp_of l) /\
    forall v, In v (map interp_of l) <-> (if two then Model2 (abs st ac) v else Stable (abs st ac) v).
Proof.
  intros c ac h two budget st draws W A B D. unfold nogood_search_cur.
  rewrite rand_proposes_undecided, ng_loop_stops_when_exhausted.
  apply ng_correct_repaired; try assumption. apply builtin_admissible; reflexivity.
Qed.
Print Assumptions C05_source_terminates_and_is_exact.

(** the defect repaired in /repo was real: without that exit the framework without statements is searched
    for ever (the empty interpretation is sent in every round), so the side condition of
    C05_terminates_with_a_statement cannot be dropped for the old loop; with it the answer is the one model *)
Theorem C05_empty_framework_diverged : forall c h rf two budget st draws,
  nogood_search c [] h rf two false budget st draws = None.
Proof. exact ng_empty_adf_diverges. Qed.
Print Assumptions C05_empty_framework_diverged.
Theorem C05_empty_framework : forall c h rf two budget st draws,
  (2 <= budget)%nat -> nogood_search c [] h rf two true budget st draws = Some (st, [[]], draws).
Proof. exact ng_empty_adf_repaired. Qed.
Print Assumptions C05_empty_framework.
(** the repair changes nothing else: both loops find the same models *)
Theorem C05_repair_same_models : forall c ac two h1 rf1 b1 d1 h2 rf2 b2 d2 st s1 l1 r1 s2 l2 r2,
  admissible c h1 rf1 -> admissible c h2 rf2 -> WF c st -> ac_ok st ac ->
  nogood_search c ac h1 rf1 two false b1 st d1 = Some (s1, l1, r1) ->
  nogood_search c ac h2 rf2 two true b2 st d2 = Some (s2, l2, r2) ->
  forall v, In v (map interp_of l1) <-> In v (map interp_of l2).
Proof. exact ng_repair_same_models. Qed.
Print Assumptions C05_repair_same_models.

From Coq Require String.
Import String.
(** every variant of the Heuristic enum is sent to the function of that name, the default is Simple
    (table REGENERATED from lib/src/adf/heuristics.rs, Gen/GenDispatch.v) *)
Theorem C05_source_heuristics_dispatch :
  g_heuristics = [("Custom", "f"); ("MinModMaxVarImpMinPaths", "heu_mc_maxvarimp_minpaths");
                  ("MinModMinPathsMaxVarImp", "heu_mc_minpaths_maxvarimp"); ("Rand", "heu_rand"); ("Simple", "heu_simple")]%string
  /\ g_heuristic_default = "Simple"%string.
Proof. exact heuristics_dispatch_matches_source. Qed.
Print Assumptions C05_source_heuristics_dispatch.
