(** C13 - Counts, depth, supports and path cubes of a diagram are exact.
    Statements only; proofs in Bdd/Counts.v, Bdd/Support.v, Bdd/Cubes.v, Gen/TieMoreModels.v.
    [IsPath st h p b]: p is a root-to-terminal-b path from h (list of (variable, branch));
    [npaths st h b] = number of such paths ([all_paths] enumerates them, NoDup); [depth_of] the
    length of the longest one; [nsat st h k] = number of assignments of the variables 0..k-1
    satisfying the diagram; [CntOK c st] is the invariant of the count cache, which holds in every
    reachable store (C13_reachable_counts). *)
From Coq Require Import NArith List Bool.
From ADF Require Import Spec.Spec Gen.GenLeaf Gen.TieLeaf Gen.TieMoreModels Bdd.Store Bdd.WF Bdd.Node Bdd.Canon Bdd.Counts Bdd.Cubes Bdd.Support.
Import ListNotations.
Local Open Scope N_scope.

Theorem C13_paths_enumeration : forall st h b, WFN st -> h < size st ->
  NoDup (all_paths st h b) /\ (forall p, In p (all_paths st h b) <-> IsPath st h p b).
Proof. exact all_paths_spec. Qed.
Print Assumptions C13_paths_enumeration.

(** path counts = number of root-to-bottom / root-to-top paths, on all three code paths (count cache,
    memoised, naive) and every feature configuration *)
Theorem C13_paths_exact : forall c st h memo, WF c st -> CntOK c st -> h < size st ->
  snd (paths c st h memo) = (npaths st h false, npaths st h true).
Proof. exact paths_exact. Qed.
Print Assumptions C13_paths_exact.

(** depth = the longest root-to-leaf path (also for the fallback recursion of the build without
    ad-hoc counting: uses the regenerated flag, C12) *)
Theorem C13_depth_exact : forall c st h, WF c st -> CntOK c st -> h < size st -> max_depth c st h = depth_of st h.
Proof. exact depth_exact. Qed.
Print Assumptions C13_depth_exact.
Theorem C13_depth_is_longest_path : forall st h, WFN st -> h < size st ->
  (forall p b, IsPath st h p b -> N.of_nat (length p) <= depth_of st h) /\
  (exists p b, IsPath st h p b /\ N.of_nat (length p) = depth_of st h).
Proof. intros st h W H. split; [apply depth_of_upper | apply depth_of_attained]; assumption. Qed.
Print Assumptions C13_depth_is_longest_path.

(** model and counter-model counts stand in the exact ratio of satisfying to falsifying assignments *)
Theorem C13_model_counts_exact_ratio : forall st h, WFN st -> h < size st ->
  let r := count_naive st h in
  c_pcm r = npaths st h false /\ c_pm r = npaths st h true /\ c_dp r = depth_of st h /\
  forall k, vars_below st h k -> depth_of st h <= k ->
    c_m r * 2 ^ (k - depth_of st h) = nsat st h k /\ c_cm r * 2 ^ (k - depth_of st h) = 2 ^ k - nsat st h k.
Proof. exact count_naive_exact. Qed.
Print Assumptions C13_model_counts_exact_ratio.

(** naive and memoised procedures agree wherever memoisation is documented to work; the excluded
    case (ad-hoc path counting without ad-hoc model counting, memoised) really differs *)
Theorem C13_models_agree : forall c st h memo, WF c st -> CntOK c st -> h < size st -> (adhoc c = 1 -> memo = false) ->
  snd (models c st h memo) = (c_cm (count_naive st h), c_m (count_naive st h)).
Proof. exact models_exact. Qed.
Print Assumptions C13_models_agree.
Theorem C13_documented_exception_is_real :
  ~ (forall c st h memo, WF c st -> CntOK c st -> h < size st ->
       snd (models c st h memo) = (c_cm (count_naive st h), c_m (count_naive st h))).
Proof. exact models_memo_adhoc1_refuted. Qed.
Print Assumptions C13_documented_exception_is_real.

(** the count-cache invariant holds in every reachable store *)
Theorem C13_reachable_counts : forall c p st regs, adhoc c <= 2 -> run c (init c, []) p = Some (st, regs) -> CntOK c st.
Proof. exact reachable_cntok. Qed.
Print Assumptions C13_reachable_counts.

(** the guard under which the code's usize arithmetic is this N arithmetic (beyond it: known finding) *)
Theorem C13_no_overflow_below_depth_64 : forall st h, WFN st -> h < size st -> depth_of st h <= 63 ->
  let r := count_naive st h in
  c_cm r < 2 ^ 64 /\ c_m r < 2 ^ 64 /\ c_pcm r < 2 ^ 64 /\ c_pm r < 2 ^ 64 /\ c_dp r < 2 ^ 64.
Proof. exact counts_bounded. Qed.
Print Assumptions C13_no_overflow_below_depth_64.

(** the dependency set is exactly the set of variables the function depends on (both code paths) *)
Theorem C13_dependencies_exact : forall c st h v, WF c st -> h < size st ->
  (In v (var_dependencies c st h) <-> depends (den st h) v).
Proof. exact deps_exact. Qed.
Print Assumptions C13_dependencies_exact.
Theorem C13_passive_impact : forall c st v tl, WF c st -> Forall (fun h => h < size st) tl ->
  passive_var_impact c st v tl = N.of_nat (length (filter (fun h => nset_mem v (var_dependencies c st h)) tl)) /\
  (forall h, In h tl -> (nset_mem v (var_dependencies c st h) = true <-> depends (den st h) v)).
Proof. exact passive_impact_exact. Qed.
Print Assumptions C13_passive_impact.
Theorem C13_active_impact : forall c st v tl, WF c st -> Forall (fun h => h < size st) tl ->
  let t := nth (N.to_nat v) tl 0 in
  t < size st /\
  active_var_impact c st v tl = N.of_nat (length (filter (fun idx => nset_mem (N.of_nat idx) (var_dependencies c st t)) (seq 0 (length tl)))) /\
  (forall idx, nset_mem (N.of_nat idx) (var_dependencies c st t) = true <-> depends (den st t) (N.of_nat idx)).
Proof. exact active_impact_exact. Qed.
Print Assumptions C13_active_impact.

(** path cubes: pairwise disjoint; for a non-terminal root they cover, where the goal variable has
    the goal value, exactly the (counter-)models.  For a terminal root the code returns no cube even
    when the terminal equals the goal (known finding, pinned by the repository's own unit test) *)
Theorem C13_cubes_disjoint : forall st h goal gv, WFN st -> h < size st ->
  forall i j c1 c2, i <> j -> nth_error (cubes st h goal gv) i = Some c1 -> nth_error (cubes st h goal gv) j = Some c2 ->
  forall a, ~ (in_cube a c1 /\ in_cube a c2).
Proof. exact cubes_disjoint. Qed.
Print Assumptions C13_cubes_disjoint.
Theorem C13_cubes_cover : forall st h goal gv, WFN st -> 2 <= h -> h < size st ->
  forall a, a gv = goal -> (den st h a = goal <-> exists cube, In cube (cubes st h goal gv) /\ in_cube a cube).
Proof. exact cubes_cover. Qed.
Print Assumptions C13_cubes_cover.
Theorem C13_cubes_terminal_root_finding :
  ~ (forall st h goal gv, WFN st -> h < size st -> forall a, a gv = goal ->
       (den st h a = goal <-> exists cube, In cube (cubes st h goal gv) /\ in_cube a cube)).
Proof. exact cubes_terminal_refuted. Qed.
Print Assumptions C13_cubes_terminal_root_finding.

(** 'more models than counter-models' is true iff models >= counter-models (definition regenerated
    from the source) *)
Theorem C13_more_models : forall cm m, g_more_models (cm, m) = (cm <=? m).
Proof. exact more_models_spec. Qed.
Print Assumptions C13_more_models.
