(** C13 (part): 'more models than counter-models' - the rest of C13 is added when Bdd/Counts.v lands *)
From Coq Require Import NArith.
From ADF Require Import Gen.GenLeaf Gen.TieLeaf Gen.TieMoreModels.
Local Open Scope N_scope.
Theorem C13_more_models : forall cm m, g_more_models (cm, m) = (cm <=? m).
Proof. exact more_models_spec. Qed.
Print Assumptions C13_more_models.
