(** C20 - Interpretation iterators enumerate every completion exactly once.
    Statements only; proofs are in Adf/IterProofs.v. *)
From Coq Require Import NArith List.
From ADF Require Import Bdd.Store Adf.Iter Adf.IterProofs.
Import ListNotations.
Local Open Scope N_scope.

(** the two-valued iterator yields exactly the 2^k total completions, each once, never altering a
    decided position *)
Theorem C20_two_valued : forall v,
  let l := it2_collect v in
  length l = Nat.pow 2 (nundec v) /\ NoDup l /\ (forall w, In w l <-> completion2 v w) /\
  hd_error l = Some (map (fun x => if is_tv x then x else 0) v).
Proof. exact two_val_iter_exact. Qed.
Print Assumptions C20_two_valued.

(** the three-valued iterator yields exactly the 3^k refinements, starting with the interpretation
    itself, each once, never altering a decided position *)
Theorem C20_three_valued : forall v,
  let l := it3_collect v in
  length l = Nat.pow 3 (nundec v) /\ NoDup l /\ (forall w, In w l <-> refinement3 v w) /\
  hd_error l = Some v.
Proof. exact three_val_iter_exact. Qed.
Print Assumptions C20_three_valued.

(** [it*_collect] is the iterator: successive calls of next() return exactly the collected
    interpretations and then None for ever (the collection fuel is sufficient, the iterator ends) *)
Theorem C20_two_valued_stream : forall v n, (n >= Nat.pow 2 (nundec v))%nat ->
  snd (it2_run n (it2_new v)) = map Some (it2_collect v) ++ repeat None (n - Nat.pow 2 (nundec v)).
Proof. exact it2_stream. Qed.
Print Assumptions C20_two_valued_stream.

Theorem C20_three_valued_stream : forall v n, (n >= Nat.pow 3 (nundec v))%nat ->
  snd (it3_run n (it3_new v)) = map Some (it3_collect v) ++ repeat None (n - Nat.pow 3 (nundec v)).
Proof. exact it3_stream. Qed.
Print Assumptions C20_three_valued_stream.

(** non-vacuity: k = 0 gives exactly one element; undecided positions at both ends *)
Example C20_all_decided : it3_collect [1;0;0;1] = [[1;0;0;1]] /\ it2_collect [1;0;0;1] = [[1;0;0;1]].
Proof. split; vm_compute; reflexivity. Qed.
Example C20_both_ends : it2_collect [5;1;0;7] = [[0;1;0;0];[0;1;0;1];[1;1;0;0];[1;1;0;1]].
Proof. vm_compute; reflexivity. Qed.
