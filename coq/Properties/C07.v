(** C07 - Diagram operations compute the Boolean function they name.
    Statements only; proofs in Bdd/Restrict.v, Bdd/Ite.v, Bdd/Ops.v, Bdd/Canon.v.
    [WF c st] is the invariant of every reachable store (C06_reachable_invariant) and allows
    arbitrary contents of the memo tables (warm or cold), as long as they are correct. *)
From Coq Require Import NArith List Bool.
From ADF Require Import Base.Maps Spec.Spec Bdd.Store Bdd.WF Bdd.Node Bdd.Restrict Bdd.Ite Bdd.IteTotal Bdd.Ops Bdd.Canon.
Import ListNotations.
Local Open Scope N_scope.

Theorem C07_variable : forall c st v st' r, WF c st -> v < VBOT -> variable c st v = (st', r) ->
  WF c st' /\ extends st st' /\ r < size st' /\ feq (den st' r) (fun x => x v).
Proof. exact variable_ok. Qed.
Print Assumptions C07_variable.

Theorem C07_not : forall c st a st' r, WF c st -> a < size st -> bnot c st a = Some (st', r) ->
  WF c st' /\ extends st st' /\ r < size st' /\ feq (den st' r) (fun x => negb (den st a x)).
Proof. exact bnot_ok. Qed.
Print Assumptions C07_not.

Theorem C07_and : forall c st a b st' r, WF c st -> a < size st -> b < size st -> band c st a b = Some (st', r) ->
  WF c st' /\ extends st st' /\ r < size st' /\ feq (den st' r) (fun x => den st a x && den st b x).
Proof. exact band_ok. Qed.
Print Assumptions C07_and.

Theorem C07_or : forall c st a b st' r, WF c st -> a < size st -> b < size st -> bor c st a b = Some (st', r) ->
  WF c st' /\ extends st st' /\ r < size st' /\ feq (den st' r) (fun x => den st a x || den st b x).
Proof. exact bor_ok. Qed.
Print Assumptions C07_or.

Theorem C07_imp : forall c st a b st' r, WF c st -> a < size st -> b < size st -> bimp c st a b = Some (st', r) ->
  WF c st' /\ extends st st' /\ r < size st' /\ feq (den st' r) (fun x => implb (den st a x) (den st b x)).
Proof. exact bimp_ok. Qed.
Print Assumptions C07_imp.

Theorem C07_iff : forall c st a b st' r, WF c st -> a < size st -> b < size st -> biff c st a b = Some (st', r) ->
  WF c st' /\ extends st st' /\ r < size st' /\ feq (den st' r) (fun x => Bool.eqb (den st a x) (den st b x)).
Proof. exact biff_ok. Qed.
Print Assumptions C07_iff.

Theorem C07_xor : forall c st a b st' r, WF c st -> a < size st -> b < size st -> bxor c st a b = Some (st', r) ->
  WF c st' /\ extends st st' /\ r < size st' /\ feq (den st' r) (fun x => xorb (den st a x) (den st b x)).
Proof. exact bxor_ok. Qed.
Print Assumptions C07_xor.

(** restriction of a variable to a value is the cofactor *)
Theorem C07_restrict : forall c st t v b st' r, WF c st -> t < size st -> restrict c st t v b = Some (st', r) ->
  WF c st' /\ extends st st' /\ r < size st' /\ feq (den st' r) (cofactor (den st t) v b).
Proof. exact restrict_ok. Qed.
Print Assumptions C07_restrict.

(** no operation changes the function denoted by a previously issued handle: every operation
    extends the store (previous theorems), and extension preserves denotations *)
Theorem C07_old_handles_unchanged : forall c st st' h, WF c st -> extends st st' -> h < size st ->
  feq (den st' h) (den st h).
Proof. exact extends_den_stable. Qed.
Print Assumptions C07_old_handles_unchanged.

(** the operations always return (the model's recursion bounds are sufficient) *)
Theorem C07_restrict_total : forall c st tree var b, WF c st -> tree < size st ->
  exists st' r, restrict c st tree var b = Some (st', r).
Proof. exact restrict_total. Qed.
Print Assumptions C07_restrict_total.
Theorem C07_ite_total : forall c st i t e, WF c st -> i < size st -> t < size st -> e < size st ->
  exists st' r, ite c st i t e = Some (st', r).
Proof. exact ite_total. Qed.
Print Assumptions C07_ite_total.

(** whole histories: after any program, register k denotes the k-th function the program names,
    and running more operations never changes it *)
Theorem C07_programs : forall c p st regs, run c (init c, []) p = Some (st, regs) ->
  Forall2 (fun h f => feq (den st h) f) regs (sem p).
Proof. exact run_den. Qed.
Print Assumptions C07_programs.
Theorem C07_later_operations_do_not_change_earlier_results : forall p q k,
  (k < length p)%nat -> freg (sem (p ++ q)) k = freg (sem p) k.
Proof. exact sem_stable. Qed.
Print Assumptions C07_later_operations_do_not_change_earlier_results.
