(** C04 - Counting-guided stable search returns exactly the stable models.
    Statements only; proofs in Adf/CountSearchProofs.v, about the model (Adf/Search.v, Section
    CountSearch) of two_val_model_counts_logic for an ARBITRARY comparator [heu] (so: heuristics a
    and b and any other), every feature configuration and every store satisfying the invariant.
    [stop] is the behaviour of the cube loop at an inconsistent cube: the source currently has
    [g_count_stop_on_err = false] (Gen/TieFlagCount.v, regenerated from lib/src/adf.rs). *)
From Coq Require Import NArith List Bool.
From ADF Require Import Spec.Spec Gen.GenFlags Gen.TieFlagCount Bdd.Store Bdd.WF Bdd.Node Adf.Native Adf.NativeBase Adf.NativeExamples Adf.Search Adf.CountSearchProofs.
Import ListNotations.
Local Open Scope N_scope.

(** the code that exists skips an inconsistent cube and continues *)
Theorem C04_source_skips_inconsistent_cubes : g_count_stop_on_err = false.
Proof. exact count_loop_skips_inconsistent_cubes. Qed.
Print Assumptions C04_source_skips_inconsistent_cubes.

(** nothing is invented (both variants of the loop) *)
Theorem C04_sound : forall c heu ac stop st st' l, WF c st -> ac_ok st ac -> stable_count c heu ac stop st = Some (st', l) ->
  WF c st' /\ extends st st' /\ forall v, In v l -> Stable (abs st ac) (interp_of v).
Proof. exact count_search_sound. Qed.
Print Assumptions C04_sound.

(** no model is lost to pruning, each is reported once: exactly the stable models *)
Theorem C04_exact : forall c heu ac st st' l, WF c st -> ac_ok st ac -> stable_count c heu ac false st = Some (st', l) ->
  WF c st' /\ extends st st' /\ NoDup (map interp_of l) /\ (forall v, In v (map interp_of l) <-> Stable (abs st ac) v).
Proof. exact count_search_exact. Qed.
Print Assumptions C04_exact.
Theorem C04_exact_for_the_source : forall c heu ac st st' l, WF c st -> ac_ok st ac -> stable_count_cur c heu ac st = Some (st', l) ->
  NoDup (map interp_of l) /\ (forall v, In v (map interp_of l) <-> Stable (abs st ac) v).
Proof.
  intros c heu ac st st' l W A X. unfold stable_count_cur in X. rewrite count_loop_skips_inconsistent_cubes in X.
  destruct (count_search_exact c heu ac st st' l W A X) as (_ & _ & H1 & H2). split; assumption.
Qed.
Print Assumptions C04_exact_for_the_source.

(** the search terminates (the model's recursion bound is sufficient) *)
Theorem C04_total : forall c heu ac stop st, WF c st -> ac_ok st ac -> exists st' l, stable_count c heu ac stop st = Some (st', l).
Proof. exact count_search_total. Qed.
Print Assumptions C04_total.

(** the defect repaired in /repo was real: with the early stop a stable model is lost (the witness of
    corpus/adf_C04.json) *)
Theorem C04_early_stop_loses_a_model :
  exists st ac, from_parser cfg_default 6 wit6 = Some (st, ac) /\ WF cfg_default st /\ ac_ok st ac /\
    (exists s', stable_count cfg_default heu_b ac true st = Some (s', [])) /\
    (exists s', stable_count cfg_default heu_b ac false st = Some (s', [[0;0;0;0;0;0]])) /\
    Stable (abs st ac) [F;F;F;F;F;F].
Proof. exact count_search_incomplete_with_early_stop. Qed.
Print Assumptions C04_early_stop_loses_a_model.
