(** C09 - Compilation to diagrams preserves every acceptance condition (native + bridge).
    Statements only; proofs in Adf/NativeExamples.v (native compilation) and Adf/BridgeProofs.v. *)
From Coq Require Import NArith List Bool.
From ADF Require Import Spec.Spec Spec.Theory Bdd.Store Bdd.WF Bdd.Node Adf.Native Adf.NativeBase Adf.NativeExamples
     Adf.Bio Adf.BioProofs Adf.BridgeProofs.
Import ListNotations.
Local Open Scope N_scope.

(** native: the handle stored for each statement denotes its formula (a later ac fact for the same
    statement wins, a statement without ac fact is constantly false - as the code does), for formulas
    of any size *)
Theorem C09_native_compilation : forall c n fs st ac,
  N.of_nat n <= VBOT -> Forall (fun pf => atoms_lt (N.of_nat n) (snd pf)) fs ->
  from_parser c n fs = Some (st, ac) ->
  WF c st /\ ac_ok st ac /\ length ac = n /\ adf_eq (abs st ac) (sem_from_parser n fs).
Proof. exact from_parser_ok. Qed.
Print Assumptions C09_native_compilation.

(** bridge: replaying well-formed dumps through [node] yields handles denoting the dumped functions,
    in a store satisfying the invariant (hence canonical, C06) *)
Theorem C09_bridge : forall c l st st' ts, WF c st -> Forall (fun a => wf_dump a = true) l -> bridge_all c st l = (st', ts) ->
  WF c st' /\ extends st st' /\ Forall (fun t => t < size st') ts /\ Forall2 (fun t a => feq (den st' t) (bio_ac_den a)) ts l.
Proof. exact bridge_all_ok. Qed.
Print Assumptions C09_bridge.
Theorem C09_from_biodivine_vector : forall c l st' ts, Forall (fun a => wf_dump a = true) l -> from_biodivine_vector c l = (st', ts) ->
  WF c st' /\ Forall (fun t => t < size st') ts /\ Forall2 (fun t a => feq (den st' t) (bio_ac_den a)) ts l.
Proof. exact from_biodivine_vector_ok. Qed.
Print Assumptions C09_from_biodivine_vector.

(** the validator run on every imported ADF (translation validation, any size): the dump is replayed
    into the store holding the natively compiled condition [h]; equal handles iff the dump denotes
    the condition *)
Theorem C09_validator_sound : forall c st h a st' t, WF c st -> h < size st -> wf_dump a = true ->
  bridge_one c st a = (st', t) -> t = h -> feq (bio_ac_den a) (den st h).
Proof. exact validator_sound. Qed.
Print Assumptions C09_validator_sound.
Theorem C09_validator_complete : forall c st h a st' t, WF c st -> h < size st -> wf_dump a = true ->
  bridge_one c st a = (st', t) -> feq (bio_ac_den a) (den st h) -> t = h.
Proof. exact validator_complete. Qed.
Print Assumptions C09_validator_complete.

(** import after pre-grounding: the vector handed to the bridge denotes the conditions with the
    grounded truth values substituted *)
Theorem C09_pregrounded_import : forall c st ac s1 g, WF c st -> ac_ok st ac -> bio_grounded_internal c st ac = Some (s1, g) ->
  WF c s1 /\ extends st s1 /\ ac_ok s1 g /\ Grounded (abs st ac) (interp_of g) /\
  adf_eq (abs s1 g) (pregrounded (abs st ac) (interp_of g)).
Proof. exact bio_grounded_internal_pregrounded. Qed.
Print Assumptions C09_pregrounded_import.
