(** C06 - Diagram store stays canonical: same handle iff same Boolean function.
    Statements only; proofs in Bdd/WF.v (canonicity), Bdd/Node.v .. Bdd/Canon.v.
    [run c (init c, []) p = Some (st, regs)] : [st] is the store reached by the program [p] of
    diagram-building operations (variable, constant, not, and, or, imp, iff, xor, restrict, in any
    order, operands = earlier results), under any feature configuration [c]. *)
From Coq Require Import NArith List Bool.
From ADF Require Import Base.Maps Spec.Spec Bdd.Store Bdd.WF Bdd.Node Bdd.Ops Bdd.Canon.
Import ListNotations.
Local Open Scope N_scope.

(** the exported node table of every reachable store is reduced, ordered, duplicate-free, with
    earlier children and the terminals in place *)
Theorem C06_reachable_canonical : forall c p st regs,
  run c (init c, []) p = Some (st, regs) -> Canonical (table_of st).
Proof. exact reachable_canonical. Qed.
Print Assumptions C06_reachable_canonical.

(** ... hence two handles are equal exactly when they denote the same function (the statement of
    the specification, in terms of the inductive evaluation relation [Den]) *)
Theorem C06_same_handle_iff_same_function : forall c p st regs,
  run c (init c, []) p = Some (st, regs) -> SameHandleIffSameFunction (table_of st).
Proof. exact reachable_same_handle_iff_same_function. Qed.
Print Assumptions C06_same_handle_iff_same_function.

(** the same for every store that satisfies the node-table invariant, however it was reached
    (used for re-imported and bridged stores, C14 / C09) *)
Theorem C06_invariant_gives_canonicity : forall st, WFN st ->
  Canonical (table_of st) /\ SameHandleIffSameFunction (table_of st).
Proof. intros st W. split; [apply wf_canonical | apply wf_same_handle_iff_same_function]; exact W. Qed.
Print Assumptions C06_invariant_gives_canonicity.

(** two formulas built by a program receive the same handle iff the program gives them the same
    Boolean function *)
Theorem C06_registers_equal_iff : forall c p st regs j k,
  run c (init c, []) p = Some (st, regs) ->
  (reg regs j = reg regs k <-> feq (freg (sem p) j) (freg (sem p) k)).
Proof. exact reachable_regs_equal_iff. Qed.
Print Assumptions C06_registers_equal_iff.

(** a formula collapses to the top (bottom) handle iff it is valid (unsatisfiable) *)
Theorem C06_valid_iff_top : forall c p st regs k,
  run c (init c, []) p = Some (st, regs) -> (reg regs k = 1 <-> forall a, freg (sem p) k a = true).
Proof. exact reg_valid_iff. Qed.
Print Assumptions C06_valid_iff_top.
Theorem C06_unsat_iff_bot : forall c p st regs k,
  run c (init c, []) p = Some (st, regs) -> (reg regs k = 0 <-> forall a, freg (sem p) k a = false).
Proof. exact reg_unsat_iff. Qed.
Print Assumptions C06_unsat_iff_bot.

(** every program of valid operations runs to completion (the recursion bounds of the model are
    sufficient: the statements above are not vacuous for any program), and the full invariant
    - node table and memo tables - holds in the state it reaches *)
Theorem C06_programs_run : forall c p, Forall op_valid p -> exists st regs, run c (init c, []) p = Some (st, regs).
Proof. exact run_total. Qed.
Print Assumptions C06_programs_run.
Theorem C06_reachable_invariant : forall c p st regs,
  run c (init c, []) p = Some (st, regs) -> WF c st /\ Forall (fun h => h < size st) regs.
Proof. exact reachable_wf. Qed.
Print Assumptions C06_reachable_invariant.

(** non-vacuity: a 15-operation program; x1 & x0 receives the handle of x0 & x1, (x0 & x1) | ~(x0 & x1)
    collapses to top *)
Example C06_demo : demo_regs cfg_default = Some [2; 3; 4; 6; 1; 7; 8; 1; 3; 9; 0; 10; 12; 0; 4].
Proof. exact (proj1 demo_runs). Qed.
