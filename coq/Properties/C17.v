(** C17 - Web service isolates users and protects credentials.
    Statements only; proofs in Server/Isolation.v, about the model Server/Model.v of the handlers
    (server/src/adf.rs, server/src/user.rs) for an ARBITRARY library and digest function, and for the
    filter table [tbl] (in the running system: regenerated from the doc! literals, Gen/GenFilters.v,
    and proved [filters_ok] by Gen/TieFilters.v).  [frame U s s']: the problems owned by the username
    U, U's account record, U's running and pending tasks are unchanged and U's browsers stay logged
    in.  Principals are usernames; [takes_name]: the request creates or takes the account name U. *)
From Coq Require Import NArith List Bool.
From ADF Require Import Front.Parser Server.Model Server.Isolation Gen.GenFilters Gen.TieFilters.
Import ListNotations.
Local Open Scope N_scope.

(** the table the code currently has is complete *)
Theorem C17_filters_of_the_source_are_complete : filters_ok g_ftable = true.
Proof. exact filters_complete. Qed.
Print Assumptions C17_filters_of_the_source_are_complete.

(** a request by somebody who is not U never modifies or deletes a problem owned by U, nor U's
    account, nor logs U out - unless it creates / takes the name U (account names are unique) *)
Theorem C17_requests_do_not_touch_others : forall adfdata answers digest tbl (s : sstate adfdata answers) c r U,
  filters_ok tbl = true -> identity adfdata answers s c <> Some U -> ~ takes_name adfdata answers s c r U ->
  frame adfdata answers U s (fst (handle adfdata answers digest tbl s c r)).
Proof. exact handle_frame. Qed.
Print Assumptions C17_requests_do_not_touch_others.

(** completion of a background task captured under another username does not touch U's data *)
Theorem C17_task_completion_does_not_touch_others : forall adfdata answers lib_parse lib_solve tbl rp (s : sstate adfdata answers) i t U,
  filters_ok tbl = true ->
  (forall tk, nth_error (pending adfdata answers s) i = Some tk -> t_owner adfdata tk <> U) ->
  frame adfdata answers U s (complete adfdata answers lib_parse lib_solve tbl rp s i t).
Proof. exact complete_frame. Qed.
Print Assumptions C17_task_completion_does_not_touch_others.

(** a response to U contains only problems owned by U, and only depends on U's own data *)
Theorem C17_responses_contain_only_own_problems : forall adfdata answers digest tbl (s : sstate adfdata answers) c r U,
  filters_ok tbl = true -> identity adfdata answers s c = Some U ->
  forall i, In i (payload_infos answers (body (handle adfdata answers digest tbl s c r))) ->
  exists p, In p (owned adfdata answers U s) /\ i = info_of adfdata answers s p.
Proof. exact response_contains_only_own. Qed.
Print Assumptions C17_responses_contain_only_own_problems.
Theorem C17_responses_depend_only_on_own_data : forall adfdata answers digest tbl (s1 s2 : sstate adfdata answers) c r U,
  filters_ok tbl = true -> identity adfdata answers s1 c = Some U -> identity adfdata answers s2 c = Some U ->
  agree adfdata answers U s1 s2 ->
  snd (handle adfdata answers digest tbl s1 c r) = snd (handle adfdata answers digest tbl s2 c r).
Proof. exact response_local. Qed.
Print Assumptions C17_responses_depend_only_on_own_data.

(** unauthenticated requests obtain no problem data and change nothing *)
Theorem C17_unauthenticated_no_data : forall adfdata answers digest tbl (s : sstate adfdata answers) c r,
  identity adfdata answers s c = None ->
  match r with
  | RUpdate u p => u <> [] /\ p <> []
  | RRegister _ _ | RLogin _ _ | RAdd _ _ _ _ => False
  | _ => True
  end ->
  handle adfdata answers digest tbl s c r = (s, (401, PNone answers)).
Proof. exact unauthenticated_no_data. Qed.
Print Assumptions C17_unauthenticated_no_data.

(** credentials: a login succeeds iff the account is permanent and the password is the one stored;
    the stored credential is always a digest; after a successful update only the new password works *)
Theorem C17_login_iff : forall adfdata answers digest tbl (s : sstate adfdata answers) c u p, u <> [] -> p <> [] ->
  (status (handle adfdata answers digest tbl s c (RLogin u p)) = 200 <->
   exists x, find_user adfdata answers s u = Some x /\ u_pw x = Some (digest p)).
Proof. exact login_iff. Qed.
Print Assumptions C17_login_iff.
Theorem C17_temporary_accounts_cannot_log_in : forall adfdata answers digest tbl (s : sstate adfdata answers) c u p x,
  find_user adfdata answers s u = Some x -> u_pw x = None ->
  status (handle adfdata answers digest tbl s c (RLogin u p)) <> 200.
Proof. exact temp_cannot_login. Qed.
Print Assumptions C17_temporary_accounts_cannot_log_in.
Theorem C17_stored_credential_is_a_digest : forall adfdata answers lib_parse lib_solve digest tbl rp es,
  Forall (pw_ok digest) (users adfdata answers (fst (run_events adfdata answers lib_parse lib_solve digest tbl rp (s0 adfdata answers) es))).
Proof. exact stored_is_digest. Qed.
Print Assumptions C17_stored_credential_is_a_digest.
Theorem C17_latest_password : forall adfdata answers digest tbl, (forall p q, digest p = digest q -> p = q) ->
  forall (s : sstate adfdata answers) c u p c' p',
  status (handle adfdata answers digest tbl s c (RUpdate u p)) = 200 -> p' <> [] ->
  (status (handle adfdata answers digest tbl (fst (handle adfdata answers digest tbl s c (RUpdate u p))) c' (RLogin u p')) = 200 <-> p' = p).
Proof. exact latest_password_update. Qed.
Print Assumptions C17_latest_password.
Theorem C17_usernames_unique : forall adfdata answers lib_parse lib_solve digest tbl rp es,
  NoDup (map u_name (users adfdata answers (fst (run_events adfdata answers lib_parse lib_solve digest tbl rp (s0 adfdata answers) es)))).
Proof. exact usernames_unique. Qed.
Print Assumptions C17_usernames_unique.

(** history level: for a set B of browsers acting for the account U, along histories in which no
    browser outside B carries the identity U or takes the name U, every foreign request and every
    completion of a task not started by B leaves U's data unchanged *)
Theorem C17_isolation : forall adfdata answers lib_parse lib_solve digest tbl rp (B : nat -> bool) U es1 e,
  filters_ok tbl = true ->
  history_ok adfdata answers lib_parse lib_solve digest tbl rp B U (s0 adfdata answers) (es1 ++ [e]) ->
  let s1 := fst (run_events adfdata answers lib_parse lib_solve digest tbl rp (s0 adfdata answers) es1) in
  match e with
  | EReq c _ => B c = false -> frame adfdata answers U s1 (fst (step adfdata answers lib_parse lib_solve digest tbl rp s1 e))
  | EComplete i _ =>
      (forall tk, nth_error (pending adfdata answers s1) i = Some tk -> t_owner adfdata tk = U ->
                  ~ In tk (started_by adfdata answers lib_parse lib_solve digest tbl rp B (s0 adfdata answers) es1)) ->
      frame adfdata answers U s1 (fst (step adfdata answers lib_parse lib_solve digest tbl rp s1 e))
  end.
Proof. exact isolation_from_s0. Qed.
Print Assumptions C17_isolation.

(** what the side conditions exclude is real (concrete histories on the model with the complete
    table; KNOWN_FINDINGS.txt): a task completes under the username captured at its start after a
    rename + re-registration; a second browser's cookie survives the deletion of its account *)
Theorem C17_rename_race_on_the_model :
  let s := Concrete.state_after table_full Concrete.hazard_prefix in
  let s' := Concrete.state_after table_full (Concrete.hazard_prefix ++ [EComplete 0 false]) in
  owned unit str Concrete.A s = [Concrete.mkP Concrete.pn Concrete.A Concrete.Y ONone ONone] /\
  owned unit str Concrete.A s' = [Concrete.mkP Concrete.pn Concrete.A Concrete.Y (OSome tt) (OSome Concrete.X)].
Proof. destruct Concrete.isolation_rename_refuted as (_ & _ & _ & _ & H1 & H2 & _). split; assumption. Qed.
Print Assumptions C17_rename_race_on_the_model.
Theorem C17_stale_session_on_the_model :
  owned unit str Concrete.A (Concrete.state_after table_full (Concrete.stale_prefix ++ [EReq 2 (RDelete Concrete.pn)])) = [].
Proof. destruct Concrete.isolation_stale_session_refuted as (_ & _ & _ & _ & _ & _ & H). exact H. Qed.
Print Assumptions C17_stale_session_on_the_model.

(** and what happens when a call site loses its "username" key: the tie is meaningful *)
Theorem C17_leak_without_username_key : filters_ok Concrete.table_get_without_user = false /\
  Concrete.last_response table_full Concrete.leak_history = Some (404, PNone str).
Proof. destruct Concrete.leak_without_username_key as (H1 & _ & _ & _ & H4). split; assumption. Qed.
Print Assumptions C17_leak_without_username_key.
