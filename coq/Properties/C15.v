(** C15 - CLI output is faithful in every library mode.
    Statements only; proofs in Front/CliProofs.v, about the model of App::run (Front/Cli.v: which flag
    calls which library function, in which order, through which name list) composed with the verified
    library model.  [cli_run c m sm fl h text] returns the exit status and the printed sections; it
    is [None] only when a nogood-learning search exceeds the model's fixed step budget.  [D] is the ADF
    the text denotes (its conditions read as formulas over the declared names, in the order the sort
    flag produces), [nm] the name list; [print_tv nm v] is the line T(a) F(b) u(c) of interpretation v.
    --an and --counter are not modelled. *)
From Coq Require Import NArith List Bool.
From Coq Require String.
From ADF Require Import Spec.Spec Bdd.Store Adf.NativeBase Adf.NativeExamples Adf.Search Front.Parser Front.Cli Front.CliProofs Gen.GenCli Gen.TieCli.
Import ListNotations.
Local Open Scope N_scope.

(** malformed input (syntax, or a condition / atom naming an undeclared statement): status 101, nothing printed *)
Theorem C15_malformed_input : forall c m sm fl h text,
  snd (parse text) = false -> cli_run c m sm fl h text = Some (101, []).
Proof. exact cli_malformed. Qed.
Print Assumptions C15_malformed_input.
Theorem C15_undeclared_statement : forall c m sm fl h text ps0,
  parse text = (ps0, true) ->
  resolve_acs (names (sorted_state sm ps0)) (acs (sorted_state sm ps0)) = None ->
  cli_run c m sm fl h text = Some (101, []).
Proof. exact cli_undeclared. Qed.
Print Assumptions C15_undeclared_statement.

(** well-formed input, every mode, sort flag, flag set and heuristic: exit status 0, the sections in the
    documented order (the wired flags of the mode, filtered by the flags given), each section present
    once, and every section holds exactly what the definitions prescribe (next theorems) *)
Theorem C15_sections : forall c sm text ps0 fs,
  parse text = (ps0, true) ->
  resolve_acs (names (sorted_state sm ps0)) (acs (sorted_state sm ps0)) = Some fs ->
  N.of_nat (length (names (sorted_state sm ps0))) <= VBOT ->
  forall m fl h e secs, cli_run c m sm fl h text = Some (e, secs) ->
  e = 0 /\ map sec_flag secs = flag_list (mode_flags m fl) /\
  secs_ok (sem_from_parser (length (names (sorted_state sm ps0))) fs) (names (sorted_state sm ps0)) secs.
Proof. exact cli_sections. Qed.
Print Assumptions C15_sections.

(** what [secs_ok] says about each kind of section *)
Theorem C15_grounded_section : forall D nm secs, secs_ok D nm secs -> In S_GRD (map sec_flag secs) ->
  exists g, Grounded D g /\ length g = length nm /\ lines_of S_GRD secs = [print_tv nm g].
Proof. exact secs_ok_grd. Qed.
Print Assumptions C15_grounded_section.
Theorem C15_complete_section : forall D nm secs, secs_ok D nm secs -> In S_COM (map sec_flag secs) ->
  forall line, In line (lines_of S_COM secs) <-> exists v, Complete D v /\ line = print_tv nm v.
Proof. exact secs_ok_com. Qed.
Print Assumptions C15_complete_section.
Theorem C15_stable_sections : forall D nm secs, secs_ok D nm secs ->
  forall flag, In flag stable_flags -> In flag (map sec_flag secs) ->
  forall line, In line (lines_of flag secs) <-> exists v, Stable D v /\ line = print_tv nm v.
Proof. exact secs_ok_stm. Qed.
Print Assumptions C15_stable_sections.
Theorem C15_twoval_section : forall D nm secs, secs_ok D nm secs -> In S_TWOVAL (map sec_flag secs) ->
  forall line, In line (lines_of S_TWOVAL secs) <-> exists v, Model2 D v /\ line = print_tv nm v.
Proof. exact secs_ok_two. Qed.
Print Assumptions C15_twoval_section.

(** a line determines the interpretation it prints (labels are the statements' own names, in order) *)
Theorem C15_lines_are_injective : forall names v w, length v = length names -> length w = length names ->
  print_interp names v = print_interp names w -> interp_of v = interp_of w.
Proof. exact print_interp_inj. Qed.
Print Assumptions C15_lines_are_injective.

(** the model answers except when a nogood search runs out of its step budget *)
Theorem C15_no_answer_only_from_nogood_budget : forall c sm text ps0 fs,
  parse text = (ps0, true) ->
  resolve_acs (names (sorted_state sm ps0)) (acs (sorted_state sm ps0)) = Some fs ->
  N.of_nat (length (names (sorted_state sm ps0))) <= VBOT ->
  forall m fl h, cli_run c m sm fl h text = None ->
  m = MNaive /\ f_stmng fl = true \/ m = MHybrid /\ (f_twoval fl = true \/ f_stmng fl = true).
Proof. exact cli_none. Qed.
Print Assumptions C15_no_answer_only_from_nogood_budget.

(** the three library modes print the same sets (same flags), and more generally any two runs agree on
    every section they share, all six stable-type sections being interchangeable *)
Theorem C15_modes_agree : forall c sm text ps0 fs,
  parse text = (ps0, true) ->
  resolve_acs (names (sorted_state sm ps0)) (acs (sorted_state sm ps0)) = Some fs ->
  N.of_nat (length (names (sorted_state sm ps0))) <= VBOT ->
  forall m1 m2 fl h1 h2 e1 secs1 e2 secs2,
  cli_run c m1 sm fl h1 text = Some (e1, secs1) -> cli_run c m2 sm fl h2 text = Some (e2, secs2) ->
  e1 = e2 /\ lines_of S_GRD secs1 = lines_of S_GRD secs2 /\
  (forall line, In line (lines_of S_COM secs1) <-> In line (lines_of S_COM secs2)) /\
  (forall line, In line (lines_of S_STM secs1) <-> In line (lines_of S_STM secs2)) /\
  (forall f1 f2, In f1 stable_flags -> In f2 stable_flags ->
     In f1 (map sec_flag secs1) -> In f2 (map sec_flag secs2) ->
     forall line, In line (lines_of f1 secs1) <-> In line (lines_of f2 secs2)).
Proof. exact cli_modes_agree. Qed.
Print Assumptions C15_modes_agree.

(** recorded finding: flags a mode does not wire are silently ignored *)
Theorem C15_unwired_flags_are_ignored : forall c m sm fl h text flag b,
  wired m flag = false -> cli_run c m sm (set_flag flag b fl) h text = cli_run c m sm fl h text.
Proof. exact cli_ignored. Qed.
Print Assumptions C15_unwired_flags_are_ignored.
Theorem C15_naive_ignores : forall c sm fl h text flag b,
  In flag [S_STMCA; S_STMCB; S_STMPRE; S_STMREW; S_TWOVAL] ->
  cli_run c MNaive sm (set_flag flag b fl) h text = cli_run c MNaive sm fl h text.
Proof. exact cli_naive_ignores. Qed.
Print Assumptions C15_naive_ignores.
Theorem C15_biodivine_ignores : forall c sm fl h text flag b,
  In flag [S_STMCA; S_STMCB; S_STMPRE; S_STMNG; S_TWOVAL] ->
  cli_run c MBio sm (set_flag flag b fl) h text = cli_run c MBio sm fl h text.
Proof. exact cli_bio_ignores. Qed.
Print Assumptions C15_biodivine_ignores.

Import String.
(** the source wires what the model wires: on the tables REGENERATED from bin/src/main.rs (Gen/GenCli.v) the
    guarded semantics blocks of each mode are, in order, exactly the sections of [mode_flags] above; each
    calls the library method the model runs for that section (and hands --heu to the two nogood searches
    only); parsing, sorting and building precede all of them *)
Theorem C15_source_sections : forall m fl,
  mode_flags m fl = map (fun r => (row_guard fl r, row_section r)) (arm m).
Proof. exact cli_sections_match_source. Qed.
Print Assumptions C15_source_sections.
Theorem C15_source_methods : forall m,
  forallb (fun r => let e := expected_method (assoc (hd ""%string (row_fields r)) g_cli_flags) in
                    String.eqb (row_method r) (fst e) && String.eqb (row_heu r) (snd e)) (arm m) = true.
Proof. exact cli_methods_match_source. Qed.
Print Assumptions C15_source_methods.
Theorem C15_source_setup :
  g_cli_setup_hybrid = ["parse"; "sort_lex"; "sort_alphan"; "build"; "build_rew"; "counter"; "hybrid_step"]%string /\
  g_cli_setup_biodivine = ["parse"; "sort_lex"; "sort_alphan"; "build"; "build_rew"]%string /\
  g_cli_setup_naive = ["import"; "import"; "parse"; "sort_lex"; "sort_alphan"; "build"; "export"; "counter"]%string.
Proof. exact cli_setup_matches_source. Qed.
Print Assumptions C15_source_setup.
