(** C02 - Complete-model enumeration is sound, complete and duplicate-free (native back-end here;
    biodivine / hybrid in Adf/BioProofs.v).  Statements only; proofs in Adf/CompleteProofs.v. *)
From Coq Require Import NArith List Bool.
From ADF Require Import Spec.Spec Spec.Theory Bdd.Store Bdd.WF Bdd.Node Adf.Native Adf.NativeBase Adf.CompleteProofs.
Import ListNotations.
Local Open Scope N_scope.

Theorem C02_complete_native : forall c st ac st' l, WF c st -> ac_ok st ac -> complete c st ac = Some (st', l) ->
  WF c st' /\ extends st st' /\
  NoDup (map interp_of l) /\ (forall v, In v (map interp_of l) <-> Complete (abs st ac) v) /\
  (exists g, Grounded (abs st ac) g /\ hd_error (map interp_of l) = Some g).
Proof. exact complete_exact. Qed.
Print Assumptions C02_complete_native.

Theorem C02_complete_total : forall c st ac, WF c st -> ac_ok st ac -> exists st' l, complete c st ac = Some (st', l).
Proof. exact complete_total. Qed.
Print Assumptions C02_complete_total.
