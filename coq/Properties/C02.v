(** C02 - Complete-model enumeration is sound, complete and duplicate-free (native back-end here;
    biodivine / hybrid in Adf/BioProofs.v).  Statements only; proofs in Adf/CompleteProofs.v. *)
From Coq Require Import NArith List Bool.
From ADF Require Import Spec.Spec Spec.Theory Bdd.Store Bdd.WF Bdd.Node Adf.Native Adf.NativeBase Adf.CompleteProofs Adf.Bio Adf.BioProofs Adf.BridgeProofs.
Import ListNotations.
Local Open Scope N_scope.

Theorem C02_complete_native : forall c st ac st' l, WF c st -> ac_ok st ac -> complete c st ac = Some (st', l) ->
  WF c st' /\ extends st st' /\
  NoDup (map interp_of l) /\ (forall v, In v (map interp_of l) <-> Complete (abs st ac) v) /\
  (exists g, Grounded (abs st ac) g /\ hd_error (map interp_of l) = Some g).
Proof. exact complete_exact. Qed.
Print Assumptions C02_complete_native.

Theorem C02_complete_total : forall c st ac, WF c st -> ac_ok st ac -> exists st' l, complete c st ac = Some (st', l).
Proof. exact complete_total. Qed.
Print Assumptions C02_complete_total.

Theorem C02_complete_biodivine : forall c st ac st' l, WF c st -> ac_ok st ac -> bio_complete c st ac = Some (st', l) ->
  WF c st' /\ extends st st' /\
  NoDup (map interp_of l) /\ (forall v, In v (map interp_of l) <-> Complete (abs st ac) v) /\
  (exists g, Grounded (abs st ac) g /\ hd_error (map interp_of l) = Some g).
Proof. exact bio_complete_exact. Qed.
Print Assumptions C02_complete_biodivine.

(** hybrid (bridged) ADFs: the answer set and its head only depend on the denoted ADF *)
Theorem C02_complete_depends_on_adf_only : forall c1 c2 st1 ac1 st2 ac2 s1' l1 s2' l2,
  WF c1 st1 -> WF c2 st2 -> ac_ok st1 ac1 -> ac_ok st2 ac2 -> adf_eq (abs st1 ac1) (abs st2 ac2) ->
  complete c1 st1 ac1 = Some (s1', l1) -> complete c2 st2 ac2 = Some (s2', l2) ->
  (forall v, In v (map interp_of l1) <-> In v (map interp_of l2)) /\
  hd_error (map interp_of l1) = hd_error (map interp_of l2).
Proof. exact answers_determined_complete. Qed.
Print Assumptions C02_complete_depends_on_adf_only.

(** hybrid with pre-grounding *)
Theorem C02_complete_hybrid_pregrounded : forall D g c st ts, Forall (supported (length D)) D -> Grounded D g -> WF c st ->
  Forall (fun h => h < size st) ts -> adf_eq (abs st ts) (pregrounded D g) ->
  forall st' l, complete c st ts = Some (st', l) ->
  NoDup (map interp_of l) /\ (forall v, In v (map interp_of l) <-> Complete D v) /\ hd_error (map interp_of l) = Some g.
Proof. exact hybrid_opt_complete. Qed.
Print Assumptions C02_complete_hybrid_pregrounded.
