(** C03 - Enumerate-and-check stable semantics returns exactly the stable models (native back-end:
    plain, pre-filter, and the filter applied to externally supplied candidates; biodivine / hybrid
    variants in Adf/BioProofs.v).  Statements only; proofs in Adf/StableProofs.v.
    [Stable D v] (Spec/Spec.v): v is a two-valued model whose true statements are all re-derived by
    the grounded interpretation of the reduct. *)
From Coq Require Import NArith List Bool.
From ADF Require Import Spec.Spec Spec.Theory Bdd.Store Bdd.WF Bdd.Node Adf.Native Adf.NativeBase Adf.StableProofs Adf.Bio Adf.BioProofs Adf.BridgeProofs.
Import ListNotations.
Local Open Scope N_scope.

(** the stability test: comparing the grounded interpretation of the reduct with v on ALL positions
    (as the code does) is equivalent to the definition *)
Theorem C03_stability_check : forall c st ac v st' b, WF c st -> ac_ok st ac -> length v = length ac ->
  Forall (fun h => is_tv h = true) v -> stability_check c st ac v = Some (st', b) ->
  WF c st' /\ extends st st' /\ (b = true <-> Stable (abs st ac) (interp_of v)).
Proof. exact stability_check_iff. Qed.
Print Assumptions C03_stability_check.

Theorem C03_stable_native : forall c st ac st' l, WF c st -> ac_ok st ac -> stable c st ac = Some (st', l) ->
  WF c st' /\ extends st st' /\ NoDup (map interp_of l) /\ (forall v, In v (map interp_of l) <-> Stable (abs st ac) v).
Proof. exact stable_exact. Qed.
Print Assumptions C03_stable_native.

Theorem C03_stable_with_prefilter : forall c st ac st' l, WF c st -> ac_ok st ac -> stable_with_prefilter c st ac = Some (st', l) ->
  WF c st' /\ extends st st' /\ NoDup (map interp_of l) /\ (forall v, In v (map interp_of l) <-> Stable (abs st ac) v).
Proof. exact stable_with_prefilter_exact. Qed.
Print Assumptions C03_stable_with_prefilter.

(** the filter of the rewriting variants: exactly the stable ones among the candidates, in order *)
Theorem C03_stable_from_candidates : forall c st ac cands st' l, WF c st -> ac_ok st ac ->
  Forall (fun v => length v = length ac /\ Forall (fun h => is_tv h = true) v) cands ->
  stable_from_candidates c st ac cands = Some (st', l) ->
  WF c st' /\ extends st st' /\ filtered (fun v => Stable (abs st ac) (interp_of v)) cands l.
Proof. exact stable_from_candidates_filtered. Qed.
Print Assumptions C03_stable_from_candidates.

(** an ADF without stable models yields the empty list, not an error: the functions are total *)
Theorem C03_stable_total : forall c st ac, WF c st -> ac_ok st ac -> exists st' l, stable c st ac = Some (st', l).
Proof. exact stable_total. Qed.
Print Assumptions C03_stable_total.
Theorem C03_stable_with_prefilter_total : forall c st ac, WF c st -> ac_ok st ac -> exists st' l, stable_with_prefilter c st ac = Some (st', l).
Proof. exact stable_with_prefilter_total. Qed.
Print Assumptions C03_stable_with_prefilter_total.

Theorem C03_stable_biodivine : forall c st ac st' l, WF c st -> ac_ok st ac -> bio_stable c st ac = Some (st', l) ->
  WF c st' /\ extends st st' /\ NoDup (map interp_of l) /\ (forall v, In v (map interp_of l) <-> Stable (abs st ac) v).
Proof. exact bio_stable_exact. Qed.
Print Assumptions C03_stable_biodivine.

(** single-formula rewriting: the satisfying valuations of AND_s (ac_s <-> s) are exactly the
    two-valued models, each once ... *)
Theorem C03_rewriting_candidates : forall c st ac st' cands, WF c st -> ac_ok st ac -> N.of_nat (length ac) <= VBOT ->
  stable_candidates c st ac = Some (st', cands) ->
  WF c st' /\ extends st st' /\ NoDup cands /\
  Forall (fun v => length v = length ac /\ Forall (fun h => is_tv h = true) v) cands /\
  (forall v, In v (map interp_of cands) <-> Model2 (abs st ac) v).
Proof. exact stable_candidates_exact. Qed.
Print Assumptions C03_rewriting_candidates.
(** ... and filtering them yields exactly the stable models, on biodivine itself ... *)
Theorem C03_stable_rewriting_biodivine : forall c st ac st' l, WF c st -> ac_ok st ac -> N.of_nat (length ac) <= VBOT ->
  bio_stable_rew c st ac = Some (st', l) ->
  WF c st' /\ extends st st' /\ NoDup l /\ NoDup (map interp_of l) /\ (forall v, In v (map interp_of l) <-> Stable (abs st ac) v).
Proof. exact bio_stable_rew_exact. Qed.
Print Assumptions C03_stable_rewriting_biodivine.
(** ... and on the internal representation of the hybrid mode (candidates from one store, filter on
    another store denoting the same ADF) *)
Theorem C03_stable_rewriting_hybrid : forall c1 c2 st1 ac1 st2 ac2 s1' cands s2' l,
  WF c1 st1 -> WF c2 st2 -> ac_ok st1 ac1 -> ac_ok st2 ac2 -> adf_eq (abs st1 ac1) (abs st2 ac2) ->
  N.of_nat (length ac1) <= VBOT -> stable_candidates c1 st1 ac1 = Some (s1', cands) ->
  stable_from_candidates c2 st2 ac2 cands = Some (s2', l) ->
  NoDup (map interp_of l) /\ (forall v, In v (map interp_of l) <-> Stable (abs st1 ac1) v).
Proof. exact hybrid_stable_from_candidates. Qed.
Print Assumptions C03_stable_rewriting_hybrid.

Theorem C03_stable_depends_on_adf_only : forall c1 c2 st1 ac1 st2 ac2 s1' l1 s2' l2,
  WF c1 st1 -> WF c2 st2 -> ac_ok st1 ac1 -> ac_ok st2 ac2 -> adf_eq (abs st1 ac1) (abs st2 ac2) ->
  stable c1 st1 ac1 = Some (s1', l1) -> stable c2 st2 ac2 = Some (s2', l2) ->
  forall v, In v (map interp_of l1) <-> In v (map interp_of l2).
Proof. exact answers_determined_stable. Qed.
Print Assumptions C03_stable_depends_on_adf_only.
Theorem C03_stable_hybrid_pregrounded : forall D g c st ts, Forall (supported (length D)) D -> Grounded D g -> WF c st ->
  Forall (fun h => h < size st) ts -> adf_eq (abs st ts) (pregrounded D g) ->
  forall st' l, stable c st ts = Some (st', l) -> NoDup (map interp_of l) /\ (forall v, In v (map interp_of l) <-> Stable D v).
Proof. exact hybrid_opt_stable. Qed.
Print Assumptions C03_stable_hybrid_pregrounded.
