(** C03 - Enumerate-and-check stable semantics returns exactly the stable models (native back-end:
    plain, pre-filter, and the filter applied to externally supplied candidates; biodivine / hybrid
    variants in Adf/BioProofs.v).  Statements only; proofs in Adf/StableProofs.v.
    [Stable D v] (Spec/Spec.v): v is a two-valued model whose true statements are all re-derived by
    the grounded interpretation of the reduct. *)
From Coq Require Import NArith List Bool.
From ADF Require Import Spec.Spec Spec.Theory Bdd.Store Bdd.WF Bdd.Node Adf.Native Adf.NativeBase Adf.StableProofs.
Import ListNotations.
Local Open Scope N_scope.

(** the stability test: comparing the grounded interpretation of the reduct with v on ALL positions
    (as the code does) is equivalent to the definition *)
Theorem C03_stability_check : forall c st ac v st' b, WF c st -> ac_ok st ac -> length v = length ac ->
  Forall (fun h => is_tv h = true) v -> stability_check c st ac v = Some (st', b) ->
  WF c st' /\ extends st st' /\ (b = true <-> Stable (abs st ac) (interp_of v)).
Proof. exact stability_check_iff. Qed.
Print Assumptions C03_stability_check.

Theorem C03_stable_native : forall c st ac st' l, WF c st -> ac_ok st ac -> stable c st ac = Some (st', l) ->
  WF c st' /\ extends st st' /\ NoDup (map interp_of l) /\ (forall v, In v (map interp_of l) <-> Stable (abs st ac) v).
Proof. exact stable_exact. Qed.
Print Assumptions C03_stable_native.

Theorem C03_stable_with_prefilter : forall c st ac st' l, WF c st -> ac_ok st ac -> stable_with_prefilter c st ac = Some (st', l) ->
  WF c st' /\ extends st st' /\ NoDup (map interp_of l) /\ (forall v, In v (map interp_of l) <-> Stable (abs st ac) v).
Proof. exact stable_with_prefilter_exact. Qed.
Print Assumptions C03_stable_with_prefilter.

(** the filter of the rewriting variants: exactly the stable ones among the candidates, in order *)
Theorem C03_stable_from_candidates : forall c st ac cands st' l, WF c st -> ac_ok st ac ->
  Forall (fun v => length v = length ac /\ Forall (fun h => is_tv h = true) v) cands ->
  stable_from_candidates c st ac cands = Some (st', l) ->
  WF c st' /\ extends st st' /\ filtered (fun v => Stable (abs st ac) (interp_of v)) cands l.
Proof. exact stable_from_candidates_filtered. Qed.
Print Assumptions C03_stable_from_candidates.

(** an ADF without stable models yields the empty list, not an error: the functions are total *)
Theorem C03_stable_total : forall c st ac, WF c st -> ac_ok st ac -> exists st' l, stable c st ac = Some (st', l).
Proof. exact stable_total. Qed.
Print Assumptions C03_stable_total.
Theorem C03_stable_with_prefilter_total : forall c st ac, WF c st -> ac_ok st ac -> exists st' l, stable_with_prefilter c st ac = Some (st', l).
Proof. exact stable_with_prefilter_total. Qed.
Print Assumptions C03_stable_with_prefilter_total.
