(** C19 - Streaming mirror reproduces the producer's node table under every schedule.
    Statements only; proofs in Bdd/Stream.v.  [run_ev c (sys0 c) [] es = Some (s, regs)]: the system
    producer -> relay -> receiver after the event list [es]: producer operations ([EOp]), transfers
    of single pending nodes into the relay's / receiver's channel ([EPump1/2 j]), and polls
    ([EPoll1/2 t] = recv(t)) in ANY interleaving - cuts fall between individual node creations. *)
From Coq Require Import NArith List Bool.
From ADF Require Import Spec.Spec Gen.GenFlags Bdd.Store Bdd.WF Bdd.Node Bdd.Canon Bdd.Stream Bdd.Rebuild Bdd.Repair.
Import ListNotations.
Local Open Scope N_scope.

(** FIFO invariant: what a mirror holds, plus what is in flight towards it, is the upstream table *)
Theorem C19_mirror_invariant : forall c es s regs, run_ev c (sys0 c) [] es = Some (s, regs) ->
  table_of (producer s) = table_of (relay s) ++ inq1 s ++ pend1 s /\
  table_of (relay s) = table_of (receiver s) ++ inq2 s ++ pend2 s.
Proof. exact mirror_invariant. Qed.
Print Assumptions C19_mirror_invariant.

(** a store that has consumed k messages holds exactly the producer's first k+2 nodes, in order *)
Theorem C19_mirror_prefix : forall c es s regs, run_ev c (sys0 c) [] es = Some (s, regs) ->
  exists k1 k2,
    table_of (relay s) = firstn k1 (table_of (producer s)) /\
    table_of (receiver s) = firstn k2 (table_of (producer s)) /\ (k2 <= k1)%nat /\
    k1 = length (table_of (relay s)) /\ k2 = length (table_of (receiver s)) /\
    (2 <= k2)%nat /\ (k1 <= length (table_of (producer s)))%nat /\
    table_of (relay s) = [node_bot; node_top] ++ firstn (k1 - 2) (sent (producer s)) /\
    table_of (receiver s) = [node_bot; node_top] ++ firstn (k2 - 2) (sent (producer s)).
Proof. exact mirror_prefix. Qed.
Print Assumptions C19_mirror_prefix.

(** once the channels are drained all three tables are identical (also through the relay) *)
Theorem C19_drained_equal : forall c es s regs, run_ev c (sys0 c) [] es = Some (s, regs) ->
  pend1 s = [] /\ inq1 s = [] /\ pend2 s = [] /\ inq2 s = [] ->
  table_of (receiver s) = table_of (relay s) /\ table_of (relay s) = table_of (producer s).
Proof. exact drained_equal. Qed.
Print Assumptions C19_drained_equal.

(** ... and draining is always possible *)
Theorem C19_drain_reaches : forall c es s regs BIG, run_ev c (sys0 c) [] es = Some (s, regs) ->
  size (producer s) <= BIG ->
  exists s', run_ev c s regs [EPump1 (length (pend1 s)); EPoll1 BIG; EPump2 (N.to_nat BIG); EPoll2 BIG] = Some (s', regs) /\
    producer s' = producer s /\
    (pend1 s' = [] /\ inq1 s' = [] /\ pend2 s' = [] /\ inq2 s' = []) /\
    table_of (receiver s') = table_of (producer s) /\ table_of (relay s') = table_of (producer s).
Proof. exact drain_reaches_size. Qed.
Print Assumptions C19_drain_reaches.

(** a poll answers 'found' iff the requested handle is present after polling *)
Theorem C19_poll_answer : forall c s regs t s' regs',
  (step c s regs (EPoll1 t) = Some (s', regs') -> answer s (EPoll1 t) = Some (t <? size (relay s'))) /\
  (step c s regs (EPoll2 t) = Some (s', regs') -> answer s (EPoll2 t) = Some (t <? size (receiver s'))).
Proof. exact poll_answer. Qed.
Print Assumptions C19_poll_answer.

(** the single-store facts behind it: recv consumes a prefix of its channel and appends it verbatim;
    a producer's table is the terminals followed by everything it has sent *)
Theorem C19_recv : forall st inq t st' inq' b, recv st true inq t = (st', inq', b) ->
  exists k, (k <= length inq)%nat /\ inq' = skipn k inq /\ table_of st' = table_of st ++ firstn k inq /\
    (b = true <-> t < size st') /\
    (forall q, outq st = Some q -> outq st' = Some (rev (firstn k inq) ++ q)) /\ (outq st = None -> outq st' = None).
Proof. exact recv_spec. Qed.
Print Assumptions C19_recv.
Theorem C19_producer_stream : forall c p st regs, run c (set_outq (init c) (Some []), []) p = Some (st, regs) ->
  table_of st = [node_bot; node_top] ++ sent st.
Proof. exact producer_stream. Qed.
Print Assumptions C19_producer_stream.

(** the repair step fix_import is a public call like any other: applied to a store that is part of a stream (a producer in
    the middle of its work, a relay, a mirror) it sends nothing, loses nothing that is queued and keeps the node table, so the
    table of every store is still the terminals followed by what it has sent, whichever variant of the step the source has *)
Theorem C19_repair_keeps_the_stream : forall b c st,
  outq (fix_import_x b c st) = outq st /\ same_tab st (fix_import_x b c st) /\ table_of (fix_import_x b c st) = table_of st.
Proof.
  intros b c st. split; [exact (fix_import_x_outq b c st)|]. split; [exact (fix_import_x_same_tab b c st)|].
  exact (same_tab_table st _ (fix_import_x_same_tab b c st)).
Qed.
Print Assumptions C19_repair_keeps_the_stream.
