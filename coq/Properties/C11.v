(** C11 - Cache transparency, handle stability and determinism across call histories.
    Statements only; proofs in Adf/BridgeProofs.v, Bdd/Ops.v, Bdd/Canon.v.
    Any two (store, roots) pairs that denote the same ADF - e.g. the same Adf object before and after
    arbitrary other computations (every operation only [extends] the store and keeps the invariant,
    C06/C07), or a freshly built object - give the same answers. Determinism: every model function is
    a function; for Rand it is a function of the draw stream. *)
From Coq Require Import NArith List Bool.
From ADF Require Import Spec.Spec Spec.Theory Bdd.Store Bdd.WF Bdd.Node Bdd.Ops Adf.Native Adf.NativeBase
     Adf.GroundedProofs Adf.CompleteProofs Adf.StableProofs Adf.BridgeProofs Gen.GenFlags Gen.TieFlagRepair Gen.GenAc Gen.TieAc Bdd.Rebuild Bdd.Repair Adf.PersistProofs.
Import ListNotations.
Local Open Scope N_scope.

Theorem C11_grounded_history_independent : forall c1 c2 st1 ac1 st2 ac2 s1' g1 s2' g2,
  WF c1 st1 -> WF c2 st2 -> ac_ok st1 ac1 -> ac_ok st2 ac2 -> adf_eq (abs st1 ac1) (abs st2 ac2) ->
  grounded c1 st1 ac1 = Some (s1', g1) -> grounded c2 st2 ac2 = Some (s2', g2) -> interp_of g1 = interp_of g2.
Proof. exact answers_determined_grounded. Qed.
Print Assumptions C11_grounded_history_independent.
Theorem C11_complete_history_independent : forall c1 c2 st1 ac1 st2 ac2 s1' l1 s2' l2,
  WF c1 st1 -> WF c2 st2 -> ac_ok st1 ac1 -> ac_ok st2 ac2 -> adf_eq (abs st1 ac1) (abs st2 ac2) ->
  complete c1 st1 ac1 = Some (s1', l1) -> complete c2 st2 ac2 = Some (s2', l2) ->
  (forall v, In v (map interp_of l1) <-> In v (map interp_of l2)) /\
  hd_error (map interp_of l1) = hd_error (map interp_of l2).
Proof. exact answers_determined_complete. Qed.
Print Assumptions C11_complete_history_independent.
Theorem C11_stable_history_independent : forall c1 c2 st1 ac1 st2 ac2 s1' l1 s2' l2,
  WF c1 st1 -> WF c2 st2 -> ac_ok st1 ac1 -> ac_ok st2 ac2 -> adf_eq (abs st1 ac1) (abs st2 ac2) ->
  stable c1 st1 ac1 = Some (s1', l1) -> stable c2 st2 ac2 = Some (s2', l2) ->
  forall v, In v (map interp_of l1) <-> In v (map interp_of l2).
Proof. exact answers_determined_stable. Qed.
Print Assumptions C11_stable_history_independent.
Theorem C11_stable_prefilter_history_independent : forall c1 c2 st1 ac1 st2 ac2 s1' l1 s2' l2,
  WF c1 st1 -> WF c2 st2 -> ac_ok st1 ac1 -> ac_ok st2 ac2 -> adf_eq (abs st1 ac1) (abs st2 ac2) ->
  stable_with_prefilter c1 st1 ac1 = Some (s1', l1) -> stable_with_prefilter c2 st2 ac2 = Some (s2', l2) ->
  forall v, In v (map interp_of l1) <-> In v (map interp_of l2).
Proof. exact answers_determined_stable_with_prefilter. Qed.
Print Assumptions C11_stable_prefilter_history_independent.

(** handle stability: a later store [extends] the earlier one, and extension preserves the function
    of every issued handle; hence the same roots denote the same ADF after any history *)
Theorem C11_handles_stable : forall c st st' h, WF c st -> extends st st' -> h < size st -> feq (den st' h) (den st h).
Proof. exact extends_den_stable. Qed.
Print Assumptions C11_handles_stable.
(** every semantics call leaves a store that extends the old one and satisfies the invariant *)
Theorem C11_calls_extend : forall c st ac st' g, WF c st -> ac_ok st ac -> grounded c st ac = Some (st', g) -> WF c st' /\ extends st st'.
Proof. intros c st ac st' g W A X. destruct (grounded_exact c st ac st' g W A X) as (H1 & H2 & _). split; assumption. Qed.
Print Assumptions C11_calls_extend.

(** the repair step fix_import is a public call like any other: applied to a live object (or twice) it
    leaves a store satisfying the invariant whose roots denote the same ADF, so every later answer is that of
    a fresh object by the theorems above (the source rebuilds the variable sets from an empty table:
    Gen/TieFlagRepair.v; the appending variant of the pinned tree broke this - C14_repair_on_live_store_breaks_it,
    repaired in /repo) *)
Theorem C11_source_repair_rebuilds_from_scratch : g_fix_import_clears = true.
Proof. exact fix_import_rebuilds_from_scratch. Qed.
Print Assumptions C11_source_repair_rebuilds_from_scratch.
Theorem C11_redundant_repair_keeps_the_adf : forall c st ac, WF c st -> ac_ok st ac ->
  WF c (fix_import_x true c st) /\ ac_ok (fix_import_x true c st) ac /\
  adf_eq (abs (fix_import_x true c st) ac) (abs st ac).
Proof.
  intros c st ac W A. destruct (fix_import_repaired_wf c st W) as [W' S].
  split; [exact W'|]. split; [exact (same_tab_ac_ok st _ ac S A)|exact (same_tab_abs st _ ac S)].
Qed.
Print Assumptions C11_redundant_repair_keeps_the_adf.

(** a call that panics (and is caught by the caller) is part of a history too.  The list of acceptance
    conditions is no part of the state a call can change: no method of lib/src/adf.rs writes self.ac
    (table REGENERATED from the source, Gen/GenAc.v), which is why the model passes it as an argument.
    The diagram store may be left with incomplete variable-set / count tables (they are written last);
    the node table, the unique table and the two operation memo tables are in order at every point where a
    panic can be raised.  The repair step then restores the full invariant with the same roots denoting the
    same ADF, so every later answer is that of a fresh object by the theorems above. *)
Theorem C11_source_semantics_never_write_the_conditions : g_ac_writers = [].
Proof. exact semantics_never_write_the_conditions. Qed.
Print Assumptions C11_source_semantics_never_write_the_conditions.
Theorem C11_repair_after_an_interrupted_call : forall c st ac, WFN st -> RescOK st -> ItecOK st -> ac_ok st ac ->
  WF c (fix_import_x true c st) /\ ac_ok (fix_import_x true c st) ac /\
  adf_eq (abs (fix_import_x true c st) ac) (abs st ac).
Proof.
  intros c st ac W R I A. destruct (fix_import_repairs_interrupted c st W R I) as [W' S].
  split; [exact W'|]. split; [exact (same_tab_ac_ok st _ ac S A)|exact (same_tab_abs st _ ac S)].
Qed.
Print Assumptions C11_repair_after_an_interrupted_call.
Theorem C11_interrupted_states_exist : forall c st, WF c st -> varlist c = true ->
  let s := import_raw (table_of st) in WFN s /\ RescOK s /\ ItecOK s /\ ~ WF c s.
Proof. exact interrupted_premises_satisfiable. Qed.
Print Assumptions C11_interrupted_states_exist.
