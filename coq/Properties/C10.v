(** C10 - Answers do not depend on presentation: fact order, sorting, naming.
    Statements only; proofs in Spec/Equivariance.v and Front/Presentation.v.
    [adf_of nm acs] is the ADF denoted by the name list [nm] (= variable order) and the ac facts [acs];
    [label_map nm v] reads an answer as a map from statement label to truth value (compared up to
    [Permutation], i.e. as a finite map); [sem] ranges over the four semantics. *)
From Coq Require Import NArith List Bool Permutation Sorted.
From ADF Require Import Spec.Spec Spec.Theory Spec.Equivariance Front.Parser Front.ParserProofs Front.Presentation Adf.NativeBase Adf.NativeExamples.
Import ListNotations.

(** the four semantics are equivariant under permutations of the statements and extensional *)
Theorem C10_semantics_equivariant : sem_ok Grounded /\ sem_ok Complete /\ sem_ok Model2 /\ sem_ok Stable.
Proof. exact (conj Grounded_sem_ok (conj Complete_sem_ok (conj Model2_sem_ok Stable_sem_ok))). Qed.
Print Assumptions C10_semantics_equivariant.

(** everything together: an injective renaming of the labels, ANY permutation of the name list (no
    sorting, lexicographic, alphanumeric - whatever the sort step produces) and any permutation of
    the facts leave the set of answers, read as label maps, unchanged *)
Theorem C10_presentation_invariant : forall sem rho nm nm' acs acs' D,
  sem_ok sem -> NoDup nm -> NoDup (map fst acs) -> inj_on (nm ++ labels_of acs) rho ->
  Permutation (map rho nm) nm' -> Permutation (rename_acs rho acs) acs' ->
  adf_of nm acs = Some D ->
  exists D', adf_of nm' acs' = Some D' /\
    forall m : list (str * tv),
      (exists v, sem D v /\ length v = length nm /\ Permutation m (map (rename_entry rho) (label_map nm v))) <->
      (exists v', sem D' v' /\ length v' = length nm' /\ Permutation m (label_map nm' v')).
Proof. exact presentation_invariant. Qed.
Print Assumptions C10_presentation_invariant.

(** with lexicographic sorting the statements are reported in byte-wise label order, and the
    answers (as label maps) are those of the unsorted run *)
Theorem C10_lexicographic_sorting : forall sem ps D,
  sem_ok sem -> NoDup (names ps) -> adf_of_state ps = Some D ->
  exists D', adf_of_state (varsort_lexi ps) = Some D' /\
    StronglySorted (fun a b => str_leb a b = true) (names (varsort_lexi ps)) /\
    NoDup (names (varsort_lexi ps)) /\
    forall m : list (str * tv),
      (exists v, sem D v /\ length v = length (names ps) /\ Permutation m (label_map (names ps) v)) <->
      (exists v', sem D' v' /\ length v' = length (names (varsort_lexi ps)) /\
                  Permutation m (label_map (names (varsort_lexi ps)) v')).
Proof. exact label_maps_invariant_sort_lexi. Qed.
Print Assumptions C10_lexicographic_sorting.

(** at the level of documents: reordering the s/ac facts of a text (no statement with two ac facts) *)
Theorem C10_fact_order : forall sem d d' D,
  sem_ok sem -> Permutation d d' -> NoDup (map fst (ac_list d)) ->
  adf_of_state (state_of d) = Some D ->
  (exists D', adf_of_state (state_of d') = Some D' /\
     forall m : list (str * tv),
       (exists v, sem D v /\ length v = length (names (state_of d)) /\ Permutation m (label_map (names (state_of d)) v)) <->
       (exists v', sem D' v' /\ length v' = length (names (state_of d')) /\ Permutation m (label_map (names (state_of d')) v'))) /\
  (exists D', adf_of_state (varsort_lexi (state_of d')) = Some D' /\
     names (varsort_lexi (state_of d')) = names (varsort_lexi (state_of d)) /\
     StronglySorted (fun a b => str_leb a b = true) (names (varsort_lexi (state_of d'))) /\
     forall m : list (str * tv),
       (exists v, sem D v /\ length v = length (names (state_of d)) /\ Permutation m (label_map (names (state_of d)) v)) <->
       (exists v', sem D' v' /\ length v' = length (names (varsort_lexi (state_of d'))) /\
                   Permutation m (label_map (names (varsort_lexi (state_of d'))) v'))).
Proof. exact doc_fact_order. Qed.
Print Assumptions C10_fact_order.

(** the name list produced by the parser never contains a label twice (hypothesis NoDup above) *)
Theorem C10_parser_names_distinct : forall s ps b, parse s = (ps, b) -> NoDup (names ps).
Proof. exact parse_names_NoDup. Qed.
Print Assumptions C10_parser_names_distinct.
