(** C16 - Web service returns the library's answers through its storage round trip.
    Statements only; proofs in Server/Isolation.v (section AddSolve), about the model of the
    handlers for an ARBITRARY library ([lib_parse], [lib_solve]); the executable instance
    (Server/Instance.v) plugs in the verified library model, for which the stored answers are the
    definitional ones by C01-C05, C09 and the rebuild theorem C14_from_nodes_same_numbering.
    The graph theorems are about the model of DoubleLabeledGraph::from_adf_and_ac (Server/Graph.v), proved
    in Server/GraphProofs.v for every store satisfying the node-table invariant and every root list. *)
From Coq Require Import NArith List Bool.
From Coq Require Import Sorted.
From ADF Require Import Spec.Spec Bdd.Store Bdd.WF Front.Parser Server.Model Server.Isolation Server.Graph Server.GraphProofs Server.Overlap Gen.GenDispatch Gen.TieDispatch.
Import ListNotations.
Local Open Scope N_scope.

(** add, wait, solve, wait, get: the problem holds exactly what the library returned, nothing is
    reported as running, and GET returns exactly these answers *)
Theorem C16_stored_answers : forall adfdata answers lib_parse lib_solve digest tbl rp (s : sstate adfdata answers) c U n code pg fresh,
  filters_ok tbl = true -> identity adfdata answers s c = Some U -> n <> [] -> code <> [] ->
  no_problem adfdata answers U n (probs adfdata answers s) -> no_running U n (running adfdata answers s) ->
  forall st a g, lib_parse code pg = Done (a, g) ->
  let s1 := fst (handle adfdata answers digest tbl s c (RAdd n code pg fresh)) in
  let s2 := complete adfdata answers lib_parse lib_solve tbl rp s1 (length (pending adfdata answers s)) false in
  let s3 := fst (handle adfdata answers digest tbl s2 c (RSolve n st)) in
  let s4 := complete adfdata answers lib_parse lib_solve tbl rp s3 (length (pending adfdata answers s)) false in
  snd (handle adfdata answers digest tbl s c (RAdd n code pg fresh)) = (200, PNone answers) /\
  probs adfdata answers s2 = probs adfdata answers s ++ [mkPr adfdata answers n U code pg (OSome a) (OSome g) []] /\
  no_running U n (running adfdata answers s2) /\
  pending adfdata answers s2 = pending adfdata answers s /\
  snd (handle adfdata answers digest tbl s2 c (RSolve n st)) = (200, PNone answers) /\
  In (U, n, TSolve st) (running adfdata answers s3) /\
  probs adfdata answers s4 = probs adfdata answers s ++ [mkPr adfdata answers n U code pg (OSome a) (OSome g) [(st, res_of_outcome answers (lib_solve a st))]] /\
  pending adfdata answers s4 = pending adfdata answers s /\
  (forall r, lib_solve a st = Done r ->
     no_running U n (running adfdata answers s4) /\
     (forall q, find (pmatch adfdata answers (ft_get_find tbl) U n) (probs adfdata answers s4) = Some q -> res_of adfdata answers q st = OSome r) /\
     handle adfdata answers digest tbl s4 c (RGet n) =
       (s4, (200, PProblem answers (mkInfo answers n code pg (OSome g) [(st, OSome r)] [])))).
Proof. exact stored_after_add_solve. Qed.
Print Assumptions C16_stored_answers.

(** unparseable code (parse error, panic during construction, timeout) is stored as an error, never
    as an empty answer, and cannot be solved *)
Theorem C16_unparseable_is_an_error : forall adfdata answers lib_parse lib_solve digest tbl rp (s : sstate adfdata answers) c U n code pg fresh,
  filters_ok tbl = true -> identity adfdata answers s c = Some U -> n <> [] -> code <> [] ->
  no_problem adfdata answers U n (probs adfdata answers s) -> no_running U n (running adfdata answers s) ->
  forall t st, t = true \/ lib_parse code pg = Failed \/ lib_parse code pg = Panicked \/ lib_parse code pg = TimedOut ->
  let s2 := complete adfdata answers lib_parse lib_solve tbl rp (fst (handle adfdata answers digest tbl s c (RAdd n code pg fresh))) (length (pending adfdata answers s)) t in
  probs adfdata answers s2 = probs adfdata answers s ++ [mkPr adfdata answers n U code pg OError OError []] /\
  pending adfdata answers s2 = pending adfdata answers s /\
  handle adfdata answers digest tbl s2 c (RSolve n st) = (s2, (400, PNone answers)).
Proof. exact stored_after_failed_parse. Qed.
Print Assumptions C16_unparseable_is_an_error.

(** a task that has ended by a panic is not reported as running - with the drop guard of the
    repaired code ([remove_on_panic = true], regenerated from the source as g_remove_on_panic);
    without it the entry stays; after a timeout it stays in both cases (known finding) *)
Theorem C16_not_running_after_panic : forall adfdata answers lib_parse lib_solve digest tbl rp (s : sstate adfdata answers) c U n code pg fresh,
  filters_ok tbl = true -> identity adfdata answers s c = Some U -> n <> [] -> code <> [] ->
  no_problem adfdata answers U n (probs adfdata answers s) -> no_running U n (running adfdata answers s) ->
  lib_parse code pg = Panicked ->
  let s2 := complete adfdata answers lib_parse lib_solve tbl rp (fst (handle adfdata answers digest tbl s c (RAdd n code pg fresh))) (length (pending adfdata answers s)) false in
  (rp = true -> no_running U n (running adfdata answers s2)) /\ (rp = false -> In (U, n, TParse) (running adfdata answers s2)).
Proof. exact running_after_panic. Qed.
Print Assumptions C16_not_running_after_panic.
Theorem C16_running_stale_after_timeout : forall adfdata answers lib_parse lib_solve digest tbl rp (s : sstate adfdata answers) c U n code pg fresh,
  filters_ok tbl = true -> identity adfdata answers s c = Some U -> n <> [] -> code <> [] ->
  no_problem adfdata answers U n (probs adfdata answers s) -> no_running U n (running adfdata answers s) ->
  let s2 := complete adfdata answers lib_parse lib_solve tbl rp (fst (handle adfdata answers digest tbl s c (RAdd n code pg fresh))) (length (pending adfdata answers s)) true in
  In (U, n, TParse) (running adfdata answers s2) /\
  handle adfdata answers digest tbl s2 c (RGet n) = (s2, (200, PProblem answers (mkInfo answers n code pg OError [] [TParse]))).
Proof. exact running_stale_after_timeout. Qed.
Print Assumptions C16_running_stale_after_timeout.

(** hazard found while proving: delete + re-add of a problem name while the first parse task is
    still pending lets the old task write its result into the new problem (model, complete table) *)
Theorem C16_stale_parse_after_readd_on_the_model :
  owned unit str Concrete.A (Concrete.state_after table_full Concrete.readd_history) =
  [Concrete.mkP Concrete.pn Concrete.A Concrete.Y (OSome tt) (OSome Concrete.X)] /\
  Concrete.cparse Concrete.Y PNaive = Done (tt, Concrete.Y).
Proof. exact Concrete.stale_parse_after_readd. Qed.
Print Assumptions C16_stale_parse_after_readd_on_the_model.

(** the graph contains exactly the nodes reachable from the roots (lo/hi steps from inner nodes), each once *)
Theorem C16_graph_nodes_exactly_the_reachable : forall st ac, WFN st -> Forall (fun h => h < size st) ac ->
  let g := from_adf_and_ac (table_of st) ac in
  (forall h, In h (g_nodes g) <-> reach (table_of st) ac h) /\ NoDup (g_nodes g) /\ StronglySorted N.lt (g_nodes g).
Proof. exact graph_nodes_exact. Qed.
Print Assumptions C16_graph_nodes_exactly_the_reachable.

(** its edges are exactly the lo / hi successors of the reachable inner nodes *)
Theorem C16_graph_edges_exact : forall st ac, WFN st -> Forall (fun h => h < size st) ac ->
  let g := from_adf_and_ac (table_of st) ac in
  (forall h x, In (h, x) (g_lo g) <-> reach (table_of st) ac h /\ nv (get_node st h) < VBOT /\ x = nlo (get_node st h)) /\
  (forall h x, In (h, x) (g_hi g) <-> reach (table_of st) ac h /\ nv (get_node st h) < VBOT /\ x = nhi (get_node st h)) /\
  NoDup (map fst (g_lo g)) /\ NoDup (map fst (g_hi g)) /\
  (forall h x, In (h, x) (g_lo g) \/ In (h, x) (g_hi g) -> In h (g_nodes g) /\ In x (g_nodes g) /\ 2 <= h /\ x < h).
Proof. exact graph_edges_exact. Qed.
Print Assumptions C16_graph_edges_exact.

(** every node carries the label of its table entry, every statement is listed at its root and nowhere else *)
Theorem C16_graph_labels_exact : forall st ac, WFN st -> Forall (fun h => h < size st) ac ->
  let g := from_adf_and_ac (table_of st) ac in
  map fst (g_labels g) = g_nodes g /\
  (forall h l, In (h, l) (g_labels g) <-> reach (table_of st) ac h /\ l = label_of st h) /\
  (forall h, reach (table_of st) ac h -> lookup h (g_labels g) = Some (label_of st h)) /\
  (forall h, ~ reach (table_of st) ac h -> lookup h (g_labels g) = None) /\
  (forall h, 2 <= h -> h < size st -> label_of st h = LVar (nv (get_node st h)) /\ nv (get_node st h) < VBOT).
Proof. exact graph_labels_exact. Qed.
Print Assumptions C16_graph_labels_exact.
Theorem C16_graph_roots_exact : forall st ac, WFN st -> Forall (fun h => h < size st) ac ->
  let g := from_adf_and_ac (table_of st) ac in
  map fst (g_roots g) = g_nodes g /\
  (forall h l, In (h, l) (g_roots g) ->
     (forall i, In i l <-> (i < length ac)%nat /\ nth i ac 0 = h) /\ StronglySorted lt l) /\
  (forall i, (i < length ac)%nat ->
     In (nth i ac 0) (g_nodes g) /\
     forall h l, In (h, l) (g_roots g) -> (In i l <-> h = nth i ac 0)) /\
  (forall i, (i < length ac)%nat -> root_of g i = Some (nth i ac 0)) /\
  (forall i, (length ac <= i)%nat -> root_of g i = None).
Proof. exact graph_roots_exact. Qed.
Print Assumptions C16_graph_roots_exact.

(** following lo / hi edges from the node labelled as root of statement i under an assignment ends in the
    terminal labelled with the value of the diagram of i (for a solved problem the roots are the
    conditions restricted by the shown model, C01-C05) *)
Theorem C16_graph_evaluates : forall st ac, WFN st -> Forall (fun h => h < size st) ac ->
  let g := from_adf_and_ac (table_of st) ac in
  forall i a fuel, (i < length ac)%nat -> (length (g_nodes g) <= fuel)%nat ->
  exists r t, root_of g i = Some r /\ r = nth i ac 0 /\ walk g fuel r a = Some t /\
    (lookup t (g_labels g) = Some LTop <-> den st (nth i ac 0) a = true) /\
    (lookup t (g_labels g) = Some LBot <-> den st (nth i ac 0) a = false).
Proof. exact graph_evaluates. Qed.
Print Assumptions C16_graph_evaluates.

From Coq Require String.
Import String.
(** the source tests, runs and stores one and the same strategy, and builds natively / through biodivine as
    the parsing strategy says (tables REGENERATED from server/src/adf.rs, Gen/GenDispatch.v) *)
Theorem C16_source_strategy_dispatch :
  g_strategies =
  [("Complete", "complete", "complete", "complete");
   ("Ground", "ground", "grounded", "ground");
   ("Stable", "stable", "stable", "stable");
   ("StableCountingA", "stable_counting_a", "stable_count_optimisation_heu_a", "stable_counting_a");
   ("StableCountingB", "stable_counting_b", "stable_count_optimisation_heu_b", "stable_counting_b");
   ("StableNogood", "stable_nogood", "stable_nogood(default)", "stable_nogood")]%string.
Proof. exact strategy_dispatch_matches_source. Qed.
Print Assumptions C16_source_strategy_dispatch.
Theorem C16_source_parsing_dispatch :
  g_parsings = [("Hybrid", "biodivine+hybrid_step_opt(false)"); ("Naive", "native")]%string.
Proof. exact parsing_dispatch_matches_source. Qed.
Print Assumptions C16_source_parsing_dispatch.

(** requests in any order: tasks that overlap (Server/Overlap.v).  Two pending tasks that do not write the same
    field of the same problem can end in either order with the same outcome (same users, running set, pending
    list and sessions; the same documents up to the order in which a problem lists its results - the model
    keeps them in an association list, the service in one field per strategy); reads change nothing and can be
    inserted anywhere in a history *)
Theorem C16_task_completions_commute : forall adfdata answers lib_parse lib_solve tbl rp (s : sstate adfdata answers) i j bi bj ti tj,
  filters_ok tbl = true -> (i < j)%nat ->
  nth_error (pending adfdata answers s) i = Some ti -> nth_error (pending adfdata answers s) j = Some tj ->
  independent adfdata ti tj ->
  state_equiv adfdata answers
    (Model.complete adfdata answers lib_parse lib_solve tbl rp (Model.complete adfdata answers lib_parse lib_solve tbl rp s i bi) (j - 1) bj)
    (Model.complete adfdata answers lib_parse lib_solve tbl rp (Model.complete adfdata answers lib_parse lib_solve tbl rp s j bj) i bi).
Proof. exact complete_commute. Qed.
Print Assumptions C16_task_completions_commute.

Theorem C16_gets_change_nothing : forall adfdata answers digest tbl (s : sstate adfdata answers) c n,
  fst (handle adfdata answers digest tbl s c (RGet n)) = s /\ fst (handle adfdata answers digest tbl s c RList) = s.
Proof. exact repeated_get_pure. Qed.
Print Assumptions C16_gets_change_nothing.

(** a second strategy requested while the first one is still running: whichever task ends first, both answers
    are stored (exactly what the library returns for the stored diagram), nothing runs any more, and GET shows both *)
Theorem C16_overlapping_solves : forall adfdata answers lib_parse lib_solve digest tbl rp (s : sstate adfdata answers) c U n l1 l2 P d st1 st2 a1 a2,
  filters_ok tbl = true ->
  identity adfdata answers s c = Some U ->
  probs adfdata answers s = (l1 ++ P :: l2)%list ->
  no_problem adfdata answers U n l1 ->
  p_owner adfdata answers P = U -> p_name adfdata answers P = n -> p_adf adfdata answers P = OSome d ->
  no_running U n (running adfdata answers s) ->
  st1 <> st2 ->
  (forall a, res_of adfdata answers P st1 <> OSome a) -> (forall a, res_of adfdata answers P st2 <> OSome a) ->
  lib_solve d st1 = Done a1 -> lib_solve d st2 = Done a2 ->
  let k := List.length (pending adfdata answers s) in
  let get_of Pf := Some (200%N, PProblem answers (mkInfo answers n (p_code adfdata answers P) (p_parsing adfdata answers P) (p_parse adfdata answers P) (p_res adfdata answers Pf) [])) in
  let PA := set_res adfdata answers (set_res adfdata answers P st1 (OSome a1)) st2 (OSome a2) in
  let PB := set_res adfdata answers (set_res adfdata answers P st2 (OSome a2)) st1 (OSome a1) in
  run_events adfdata answers lib_parse lib_solve digest tbl rp s
    [EReq c (RSolve n st1); EReq c (RSolve n st2); EComplete k false; EComplete k false; EReq c (RGet n)] =
    (with_probs adfdata answers s (l1 ++ PA :: l2), [Some (200%N, PNone answers); Some (200%N, PNone answers); None; None; get_of PA]) /\
  run_events adfdata answers lib_parse lib_solve digest tbl rp s
    [EReq c (RSolve n st1); EReq c (RSolve n st2); EComplete (S k) false; EComplete k false; EReq c (RGet n)] =
    (with_probs adfdata answers s (l1 ++ PB :: l2), [Some (200%N, PNone answers); Some (200%N, PNone answers); None; None; get_of PB]).
Proof. exact overlapping_solves_history. Qed.
Print Assumptions C16_overlapping_solves.
