(** C16 - Web service returns the library's answers through its storage round trip.
    Statements only; proofs in Server/Isolation.v (section AddSolve), about the model of the
    handlers for an ARBITRARY library ([lib_parse], [lib_solve]); the executable instance
    (Server/Instance.v) plugs in the verified library model, for which the stored answers are the
    definitional ones by C01-C05, C09 and the rebuild theorem C14_from_nodes_same_numbering.
    The graph theorems (Server/Graph.v) are added when their proofs are merged. *)
From Coq Require Import NArith List Bool.
From ADF Require Import Front.Parser Server.Model Server.Isolation.
Import ListNotations.
Local Open Scope N_scope.

(** add, wait, solve, wait, get: the problem holds exactly what the library returned, nothing is
    reported as running, and GET returns exactly these answers *)
Theorem C16_stored_answers : forall adfdata answers lib_parse lib_solve digest tbl rp (s : sstate adfdata answers) c U n code pg fresh,
  filters_ok tbl = true -> identity adfdata answers s c = Some U -> n <> [] -> code <> [] ->
  no_problem adfdata answers U n (probs adfdata answers s) -> no_running U n (running adfdata answers s) ->
  forall st a g, lib_parse code pg = Done (a, g) ->
  let s1 := fst (handle adfdata answers digest tbl s c (RAdd n code pg fresh)) in
  let s2 := complete adfdata answers lib_parse lib_solve tbl rp s1 (length (pending adfdata answers s)) false in
  let s3 := fst (handle adfdata answers digest tbl s2 c (RSolve n st)) in
  let s4 := complete adfdata answers lib_parse lib_solve tbl rp s3 (length (pending adfdata answers s)) false in
  snd (handle adfdata answers digest tbl s c (RAdd n code pg fresh)) = (200, PNone answers) /\
  probs adfdata answers s2 = probs adfdata answers s ++ [mkPr adfdata answers n U code pg (OSome a) (OSome g) []] /\
  no_running U n (running adfdata answers s2) /\
  pending adfdata answers s2 = pending adfdata answers s /\
  snd (handle adfdata answers digest tbl s2 c (RSolve n st)) = (200, PNone answers) /\
  In (U, n, TSolve st) (running adfdata answers s3) /\
  probs adfdata answers s4 = probs adfdata answers s ++ [mkPr adfdata answers n U code pg (OSome a) (OSome g) [(st, res_of_outcome answers (lib_solve a st))]] /\
  pending adfdata answers s4 = pending adfdata answers s /\
  (forall r, lib_solve a st = Done r ->
     no_running U n (running adfdata answers s4) /\
     (forall q, find (pmatch adfdata answers (ft_get_find tbl) U n) (probs adfdata answers s4) = Some q -> res_of adfdata answers q st = OSome r) /\
     handle adfdata answers digest tbl s4 c (RGet n) =
       (s4, (200, PProblem answers (mkInfo answers n code pg (OSome g) [(st, OSome r)] [])))).
Proof. exact stored_after_add_solve. Qed.
Print Assumptions C16_stored_answers.

(** unparseable code (parse error, panic during construction, timeout) is stored as an error, never
    as an empty answer, and cannot be solved *)
Theorem C16_unparseable_is_an_error : forall adfdata answers lib_parse lib_solve digest tbl rp (s : sstate adfdata answers) c U n code pg fresh,
  filters_ok tbl = true -> identity adfdata answers s c = Some U -> n <> [] -> code <> [] ->
  no_problem adfdata answers U n (probs adfdata answers s) -> no_running U n (running adfdata answers s) ->
  forall t st, t = true \/ lib_parse code pg = Failed \/ lib_parse code pg = Panicked \/ lib_parse code pg = TimedOut ->
  let s2 := complete adfdata answers lib_parse lib_solve tbl rp (fst (handle adfdata answers digest tbl s c (RAdd n code pg fresh))) (length (pending adfdata answers s)) t in
  probs adfdata answers s2 = probs adfdata answers s ++ [mkPr adfdata answers n U code pg OError OError []] /\
  pending adfdata answers s2 = pending adfdata answers s /\
  handle adfdata answers digest tbl s2 c (RSolve n st) = (s2, (400, PNone answers)).
Proof. exact stored_after_failed_parse. Qed.
Print Assumptions C16_unparseable_is_an_error.

(** a task that has ended by a panic is not reported as running - with the drop guard of the
    repaired code ([remove_on_panic = true], regenerated from the source as g_remove_on_panic);
    without it the entry stays; after a timeout it stays in both cases (known finding) *)
Theorem C16_not_running_after_panic : forall adfdata answers lib_parse lib_solve digest tbl rp (s : sstate adfdata answers) c U n code pg fresh,
  filters_ok tbl = true -> identity adfdata answers s c = Some U -> n <> [] -> code <> [] ->
  no_problem adfdata answers U n (probs adfdata answers s) -> no_running U n (running adfdata answers s) ->
  lib_parse code pg = Panicked ->
  let s2 := complete adfdata answers lib_parse lib_solve tbl rp (fst (handle adfdata answers digest tbl s c (RAdd n code pg fresh))) (length (pending adfdata answers s)) false in
  (rp = true -> no_running U n (running adfdata answers s2)) /\ (rp = false -> In (U, n, TParse) (running adfdata answers s2)).
Proof. exact running_after_panic. Qed.
Print Assumptions C16_not_running_after_panic.
Theorem C16_running_stale_after_timeout : forall adfdata answers lib_parse lib_solve digest tbl rp (s : sstate adfdata answers) c U n code pg fresh,
  filters_ok tbl = true -> identity adfdata answers s c = Some U -> n <> [] -> code <> [] ->
  no_problem adfdata answers U n (probs adfdata answers s) -> no_running U n (running adfdata answers s) ->
  let s2 := complete adfdata answers lib_parse lib_solve tbl rp (fst (handle adfdata answers digest tbl s c (RAdd n code pg fresh))) (length (pending adfdata answers s)) true in
  In (U, n, TParse) (running adfdata answers s2) /\
  handle adfdata answers digest tbl s2 c (RGet n) = (s2, (200, PProblem answers (mkInfo answers n code pg OError [] [TParse]))).
Proof. exact running_stale_after_timeout. Qed.
Print Assumptions C16_running_stale_after_timeout.

(** hazard found while proving: delete + re-add of a problem name while the first parse task is
    still pending lets the old task write its result into the new problem (model, complete table) *)
Theorem C16_stale_parse_after_readd_on_the_model :
  owned unit str Concrete.A (Concrete.state_after table_full Concrete.readd_history) =
  [Concrete.mkP Concrete.pn Concrete.A Concrete.Y (OSome tt) (OSome Concrete.X)] /\
  Concrete.cparse Concrete.Y PNaive = Done (tt, Concrete.Y).
Proof. exact Concrete.stale_parse_after_readd. Qed.
Print Assumptions C16_stale_parse_after_readd_on_the_model.
