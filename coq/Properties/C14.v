(** C14 - Persistence round trips preserve handles and answers.
    Statements only; proofs in Bdd/Rebuild.v and Adf/PersistProofs.v.
    [table_of st] is the exported node list; [from_nodes c l] = Bdd::from(Vec<BddNode>) (the web
    service's path); [import_raw l] = the serde import (nodes and unique table only), [fix_import] the
    documented repair step; [Reimported c' st s]: s is either of the two rebuilds of st, under an
    importing build c' that may differ from the exporting one.  All theorems hold for EVERY store
    satisfying the node-table invariant, i.e. exported at any point of its life. *)
From Coq Require Import NArith List Bool.
From ADF Require Import Base.Maps Spec.Spec Gen.GenFlags Gen.TieFlagRepair Bdd.Store Bdd.WF Bdd.Node Bdd.Rebuild Bdd.Repair Adf.Native Adf.NativeBase Adf.PersistProofs.
Import ListNotations.
Local Open Scope N_scope.

(** identical node numbering *)
Theorem C14_from_nodes_same_numbering : forall c st, WFN st -> table_of (from_nodes c (table_of st)) = table_of st.
Proof. exact from_nodes_table. Qed.
Print Assumptions C14_from_nodes_same_numbering.
Theorem C14_from_nodes_invariant : forall c st, WFN st -> WF c (from_nodes c (table_of st)).
Proof. exact from_nodes_wf. Qed.
Print Assumptions C14_from_nodes_invariant.
Theorem C14_import_and_repair : forall c st, WFN st ->
  let s := fix_import c (import_raw (table_of st)) in
  WF c s /\ table_of s = table_of st /\ size s = size st /\
  (forall k, TM.find k (uniq s) = TM.find k (uniq st)) /\
  (varlist c = true -> forall h, h < size st -> forall v, In v (get_vd s h) <-> In v (vardeps_rec_f (S (N.to_nat h)) st h)) /\
  (1 <= adhoc c -> forall h, h < size st -> NM.find h (counts s) <> None).
Proof. exact fix_import_wf. Qed.
Print Assumptions C14_import_and_repair.

(** the repair step is necessary: without it the variable sets are missing and every restriction is
    the identity *)
Theorem C14_import_needs_repair : forall c st, WFN st -> varlist c = true -> ~ VdOK c (import_raw (table_of st)).
Proof. exact import_needs_fix. Qed.
Print Assumptions C14_import_needs_repair.
Theorem C14_unrepaired_restrict_is_identity : forall c l t v b, varlist c = true ->
  restrict c (import_raw l) t v b = Some (import_raw l, t).
Proof. exact import_unfixed_restrict_identity. Qed.
Print Assumptions C14_unrepaired_restrict_is_identity.

(** the re-imported ADF denotes the same ADF under the same roots ... *)
Theorem C14_same_adf : forall c' st s ac, WFN st -> ac_ok st ac -> Reimported c' st s ->
  WF c' s /\ table_of s = table_of st /\ ac_ok s ac /\ adf_eq (abs s ac) (abs st ac).
Proof. exact roundtrip_same_adf_gen. Qed.
Print Assumptions C14_same_adf.
(** ... hence every semantics answer equals the original's (and terminates) *)
Theorem C14_answers_grounded : forall c c' st s ac, WF c st -> ac_ok st ac -> Reimported c' st s ->
  forall s1 g1, grounded c st ac = Some (s1, g1) ->
  exists s2 g2, grounded c' s ac = Some (s2, g2) /\ interp_of g2 = interp_of g1.
Proof. exact roundtrip_answers_grounded. Qed.
Print Assumptions C14_answers_grounded.
Theorem C14_answers_complete : forall c c' st s ac, WF c st -> ac_ok st ac -> Reimported c' st s ->
  forall s1 l1, complete c st ac = Some (s1, l1) ->
  exists s2 l2, complete c' s ac = Some (s2, l2) /\
    (forall v, In v (map interp_of l2) <-> In v (map interp_of l1)) /\
    hd_error (map interp_of l2) = hd_error (map interp_of l1).
Proof. exact roundtrip_answers_complete. Qed.
Print Assumptions C14_answers_complete.
Theorem C14_answers_stable : forall c c' st s ac, WF c st -> ac_ok st ac -> Reimported c' st s ->
  forall s1 l1, stable c st ac = Some (s1, l1) ->
  exists s2 l2, stable c' s ac = Some (s2, l2) /\ (forall v, In v (map interp_of l2) <-> In v (map interp_of l1)).
Proof. exact roundtrip_answers_stable. Qed.
Print Assumptions C14_answers_stable.

(** the CLI's export on an abstract file system: an existing file is never overwritten *)
Theorem C14_export_no_overwrite : forall (K V : Type) (keq : K -> K -> bool) (fs : list (K * V)) p content old,
  fs_find keq p fs = Some old -> fs_find keq p (fst (cli_export keq fs p content)) = Some old.
Proof. intros K V. exact (@export_no_overwrite K V). Qed.
Print Assumptions C14_export_no_overwrite.

(** the defect repaired in /repo: the appending repair step of the pinned tree may only be applied to a freshly
    imported store - on a live store it appends a second copy of every variable set and the invariant is lost *)
Theorem C14_repair_on_live_store_breaks_it :
  WF cfg_default (init cfg_default) /\ ~ VdOK cfg_default (fix_import cfg_default (init cfg_default)).
Proof. exact fix_import_on_live_store_refuted. Qed.
Print Assumptions C14_repair_on_live_store_breaks_it.

(** the repair step as the source has it now (Gen/TieFlagRepair.v, flag regenerated from obdd.rs) rebuilds the
    variable sets from an empty table: applied to ANY store satisfying the invariant - live, or a second time
    after an import - it returns a store satisfying the invariant with the same node table; fresh from an
    import it is the step the theorems above are about *)
Theorem C14_source_repair_rebuilds_from_scratch : g_fix_import_clears = true.
Proof. exact fix_import_rebuilds_from_scratch. Qed.
Print Assumptions C14_source_repair_rebuilds_from_scratch.
Theorem C14_repair_of_any_store : forall c st, WF c st ->
  WF c (fix_import_x true c st) /\ same_tab st (fix_import_x true c st).
Proof. exact fix_import_repaired_wf. Qed.
Print Assumptions C14_repair_of_any_store.
Theorem C14_repair_after_import_is_the_same_step : forall b c l,
  fix_import_x b c (import_raw l) = fix_import c (import_raw l).
Proof. exact fix_import_x_import. Qed.
Print Assumptions C14_repair_after_import_is_the_same_step.
