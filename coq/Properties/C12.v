(** C12 - Answers are independent of the cargo feature configuration.
    Statements only; proofs in Bdd/Cfg.v, Adf/CfgProofs.v, Adf/CfgSearch.v.  A configuration [cfg] is
    what the cfg attributes of lib/src/obdd.rs select: ad-hoc counting off / paths only / paths and models
    ([adhoc] = 0, 1, 2) and variable lists on / off; the model's functions take it as a parameter and
    branch on it exactly where the source has a cfg-split body.  The feature tables [g_features_lib]
    are REGENERATED from lib/Cargo.toml on every run (Gen/GenFeatures.v); the frontend feature selects
    no alternative implementation of a modelled function. *)
From Coq Require Import NArith List Bool String.
From ADF Require Import Spec.Spec Gen.GenFlags Gen.GenFeatures Gen.TieFlagDepth Bdd.Store Bdd.WF Bdd.Node Bdd.Ops Bdd.Canon Bdd.Counts Bdd.Cfg
  Adf.Native Adf.NativeBase Adf.NativeExamples Adf.Search Adf.Bio Adf.CfgProofs Adf.CfgSearch Adf.NgSearchProofs.
Import ListNotations.
Local Open Scope N_scope.

(** the fallback of max_depth counts the level of the node itself (the defect repaired in /repo) *)
Theorem C12_depth_fallback_counts_levels : g_depth_plus = 1%N.
Proof. exact depth_fallback_counts_levels. Qed.
Print Assumptions C12_depth_fallback_counts_levels.

(** the feature tables of the source: every one of the 2^8 feature selections yields one of the six
    configurations, each of the six is reached with and without "frontend" (12 combinations), and
    "default" is (paths only, variable lists on) *)
Theorem C12_feature_table_covers_the_configurations :
  (forall s, In s Features.all_feature_sets ->
     let e := Features.closure g_features_lib s in
     (Features.enabled e "adhoccountmodels" = true -> Features.enabled e "adhoccounting" = true) /\
     Features.closed_b g_features_lib s e = true /\ Features.sound_b g_features_lib s e = true /\
     In (Features.cfg_of e) Features.all_cfgs) /\
  (forall c fe, In c Features.all_cfgs -> exists s, In s Features.all_feature_sets /\
     Features.cfg_of (Features.closure g_features_lib s) = c /\
     Features.enabled (Features.closure g_features_lib s) "frontend" = fe) /\
  Features.cfg_of (Features.closure g_features_lib ["default"%string]) = cfg_default /\
  Features.enabled (Features.closure g_features_lib ["default"%string]) "frontend" = true /\
  Features.cfg_of (Features.closure g_features_lib []) = mkCfg 0 false.
Proof. exact Features.features_cover_cfg_space. Qed.
Print Assumptions C12_feature_table_covers_the_configurations.

(** diagrams: any program of operations yields THE SAME handles and THE SAME node table under any two
    configurations (the differently written restrict of the variable-list build included) *)
Theorem C12_same_handles_and_tables : forall c1 c2 p s1 regs1 s2 regs2,
  run c1 (init c1, []) p = Some (s1, regs1) -> run c2 (init c2, []) p = Some (s2, regs2) ->
  regs1 = regs2 /\ table_of s1 = table_of s2 /\ same_tables s1 s2.
Proof. exact run_sim. Qed.
Print Assumptions C12_same_handles_and_tables.

(** queries: path counts, depth, model counts and dependency sets of every register agree; memoised
    model counting is excluded exactly for the documented build (paths without models) *)
Theorem C12_queries_agree : forall c1 c2 p s1 regs1 s2 regs2 k m1 m2,
  adhoc c1 <= 2 -> adhoc c2 <= 2 ->
  run c1 (init c1, []) p = Some (s1, regs1) -> run c2 (init c2, []) p = Some (s2, regs2) ->
  snd (paths c1 s1 (reg regs1 k) m1) = snd (paths c2 s2 (reg regs2 k) m2) /\
  max_depth c1 s1 (reg regs1 k) = max_depth c2 s2 (reg regs2 k) /\
  ((adhoc c1 = 1 -> m1 = false) -> (adhoc c2 = 1 -> m2 = false) ->
     snd (models c1 s1 (reg regs1 k) m1) = snd (models c2 s2 (reg regs2 k) m2)) /\
  (forall v, In v (var_dependencies c1 s1 (reg regs1 k)) <-> In v (var_dependencies c2 s2 (reg regs2 k))).
Proof. exact run_queries_cfg_independent. Qed.
Print Assumptions C12_queries_agree.

(** ... stated for the feature selections of Cargo.toml against the default build *)
Theorem C12_every_feature_set_agrees_with_default : forall s p s1 regs1 s2 regs2 k m1 m2,
  In s Features.all_feature_sets ->
  let c := Features.cfg_of (Features.closure g_features_lib s) in
  let d := Features.cfg_of (Features.closure g_features_lib ["default"%string]) in
  run c (init c, []) p = Some (s1, regs1) -> run d (init d, []) p = Some (s2, regs2) ->
  regs1 = regs2 /\ table_of s1 = table_of s2 /\
  feq (den s1 (reg regs1 k)) (den s2 (reg regs2 k)) /\
  snd (paths c s1 (reg regs1 k) m1) = snd (paths d s2 (reg regs2 k) m2) /\
  max_depth c s1 (reg regs1 k) = max_depth d s2 (reg regs2 k) /\
  ((adhoc c = 1%N -> m1 = false) -> m2 = false ->
     snd (models c s1 (reg regs1 k) m1) = snd (models d s2 (reg regs2 k) m2)) /\
  (forall v, In v (var_dependencies c s1 (reg regs1 k)) <-> In v (var_dependencies d s2 (reg regs2 k))).
Proof. exact Features.feature_sets_agree_with_default. Qed.
Print Assumptions C12_every_feature_set_agrees_with_default.

(** the variable-impact measures the heuristics read *)
Theorem C12_impacts_agree : forall c1 c2 s1 s2 tl1 tl2 v,
  WF c1 s1 -> WF c2 s2 -> Forall2 (same_fun s1 s2) tl1 tl2 ->
  passive_var_impact c1 s1 v tl1 = passive_var_impact c2 s2 v tl2 /\
  active_var_impact c1 s1 v tl1 = active_var_impact c2 s2 v tl2.
Proof. exact impact_cfg_independent. Qed.
Print Assumptions C12_impacts_agree.

(** ADFs: compilation yields the same conditions and table ... *)
Theorem C12_compilation_agrees : forall c1 c2 n fs st1 ac1 st2 ac2,
  N.of_nat n <= VBOT -> Forall (fun pf => atoms_lt (N.of_nat n) (snd pf)) fs ->
  from_parser c1 n fs = Some (st1, ac1) -> from_parser c2 n fs = Some (st2, ac2) ->
  ac1 = ac2 /\ table_of st1 = table_of st2 /\ same_tables st1 st2.
Proof. exact from_parser_sim. Qed.
Print Assumptions C12_compilation_agrees.

(** ... and every semantics the same answers (as interpretations; complete: also the same first one) *)
Theorem C12_grounded_agrees : forall c1 c2 n fs, N.of_nat n <= VBOT -> Forall (fun pf => atoms_lt (N.of_nat n) (snd pf)) fs ->
  forall st1 ac1 st2 ac2, from_parser c1 n fs = Some (st1, ac1) -> from_parser c2 n fs = Some (st2, ac2) ->
  forall s1' g1 s2' g2, grounded c1 st1 ac1 = Some (s1', g1) -> grounded c2 st2 ac2 = Some (s2', g2) ->
  interp_of g1 = interp_of g2.
Proof. exact grounded_cfg_independent. Qed.
Print Assumptions C12_grounded_agrees.
Theorem C12_complete_agrees : forall c1 c2 n fs, N.of_nat n <= VBOT -> Forall (fun pf => atoms_lt (N.of_nat n) (snd pf)) fs ->
  forall st1 ac1 st2 ac2, from_parser c1 n fs = Some (st1, ac1) -> from_parser c2 n fs = Some (st2, ac2) ->
  forall s1' l1 s2' l2, complete c1 st1 ac1 = Some (s1', l1) -> complete c2 st2 ac2 = Some (s2', l2) ->
  (forall v, In v (map interp_of l1) <-> In v (map interp_of l2)) /\
  hd_error (map interp_of l1) = hd_error (map interp_of l2).
Proof. exact complete_cfg_independent. Qed.
Print Assumptions C12_complete_agrees.
Theorem C12_stable_agrees : forall c1 c2 n fs, N.of_nat n <= VBOT -> Forall (fun pf => atoms_lt (N.of_nat n) (snd pf)) fs ->
  forall st1 ac1 st2 ac2, from_parser c1 n fs = Some (st1, ac1) -> from_parser c2 n fs = Some (st2, ac2) ->
  forall s1' l1 s2' l2, stable c1 st1 ac1 = Some (s1', l1) -> stable c2 st2 ac2 = Some (s2', l2) ->
  forall v, In v (map interp_of l1) <-> In v (map interp_of l2).
Proof. exact stable_cfg_independent. Qed.
Print Assumptions C12_stable_agrees.
Theorem C12_stable_with_prefilter_agrees : forall c1 c2 n fs, N.of_nat n <= VBOT -> Forall (fun pf => atoms_lt (N.of_nat n) (snd pf)) fs ->
  forall st1 ac1 st2 ac2, from_parser c1 n fs = Some (st1, ac1) -> from_parser c2 n fs = Some (st2, ac2) ->
  forall s1' l1 s2' l2, stable_with_prefilter c1 st1 ac1 = Some (s1', l1) -> stable_with_prefilter c2 st2 ac2 = Some (s2', l2) ->
  forall v, In v (map interp_of l1) <-> In v (map interp_of l2).
Proof. exact stable_with_prefilter_cfg_independent. Qed.
Print Assumptions C12_stable_with_prefilter_agrees.
Theorem C12_biodivine_backend_agrees : forall c1 c2 n fs, N.of_nat n <= VBOT -> Forall (fun pf => atoms_lt (N.of_nat n) (snd pf)) fs ->
  forall st1 ac1 st2 ac2, from_parser c1 n fs = Some (st1, ac1) -> from_parser c2 n fs = Some (st2, ac2) ->
  (forall s1' g1 s2' g2, bio_grounded c1 st1 ac1 = Some (s1', g1) -> bio_grounded c2 st2 ac2 = Some (s2', g2) -> interp_of g1 = interp_of g2) /\
  (forall s1' l1 s2' l2, bio_complete c1 st1 ac1 = Some (s1', l1) -> bio_complete c2 st2 ac2 = Some (s2', l2) ->
     (forall v, In v (map interp_of l1) <-> In v (map interp_of l2)) /\ hd_error (map interp_of l1) = hd_error (map interp_of l2)) /\
  (forall s1' l1 s2' l2, bio_stable c1 st1 ac1 = Some (s1', l1) -> bio_stable c2 st2 ac2 = Some (s2', l2) ->
     forall v, In v (map interp_of l1) <-> In v (map interp_of l2)).
Proof.
  intros c1 c2 n fs B HA st1 ac1 st2 ac2 X1 X2. split; [|split].
  - exact (bio_grounded_cfg_independent c1 c2 n fs B HA st1 ac1 st2 ac2 X1 X2).
  - exact (bio_complete_cfg_independent c1 c2 n fs B HA st1 ac1 st2 ac2 X1 X2).
  - exact (bio_stable_cfg_independent c1 c2 n fs B HA st1 ac1 st2 ac2 X1 X2).
Qed.
Print Assumptions C12_biodivine_backend_agrees.

(** the two searches: the same models, whatever comparator / admissible heuristic, budget and draws on
    either side; and the counting heuristics make the same choices (they read memoised PATH counts) *)
Theorem C12_counting_search_agrees : forall c1 c2 n fs, N.of_nat n <= VBOT -> Forall (fun pf => atoms_lt (N.of_nat n) (snd pf)) fs ->
  forall st1 ac1 st2 ac2, from_parser c1 n fs = Some (st1, ac1) -> from_parser c2 n fs = Some (st2, ac2) ->
  forall heu1 heu2 s1' l1 s2' l2,
  stable_count c1 heu1 ac1 false st1 = Some (s1', l1) -> stable_count c2 heu2 ac2 false st2 = Some (s2', l2) ->
  NoDup (map interp_of l1) /\ NoDup (map interp_of l2) /\ forall v, In v (map interp_of l1) <-> In v (map interp_of l2).
Proof. exact stable_count_cfg_independent. Qed.
Print Assumptions C12_counting_search_agrees.
Theorem C12_nogood_search_agrees : forall c1 c2 n fs, N.of_nat n <= VBOT -> Forall (fun pf => atoms_lt (N.of_nat n) (snd pf)) fs ->
  forall st1 ac1 st2 ac2, from_parser c1 n fs = Some (st1, ac1) -> from_parser c2 n fs = Some (st2, ac2) ->
  forall h1 rf1 h2 rf2 two sx1 sx2 b1 b2 d1 d2 s1' l1 r1 s2' l2 r2,
  admissible c1 h1 rf1 -> admissible c2 h2 rf2 ->
  nogood_search c1 ac1 h1 rf1 two sx1 b1 st1 d1 = Some (s1', l1, r1) ->
  nogood_search c2 ac2 h2 rf2 two sx2 b2 st2 d2 = Some (s2', l2, r2) ->
  NoDup (map interp_of l1) /\ NoDup (map interp_of l2) /\ forall v, In v (map interp_of l1) <-> In v (map interp_of l2).
Proof. exact nogood_search_cfg_independent. Qed.
Print Assumptions C12_nogood_search_agrees.
Theorem C12_heuristics_choose_alike : forall c1 c2 n fs st1 ac1 st2 ac2,
  adhoc c1 <= 2 -> adhoc c2 <= 2 ->
  N.of_nat n <= VBOT -> Forall (fun pf => atoms_lt (N.of_nat n) (snd pf)) fs ->
  from_parser c1 n fs = Some (st1, ac1) -> from_parser c2 n fs = Some (st2, ac2) ->
  ac1 = ac2 /\
  heu_mc_minpaths_maxvarimp c1 st1 ac1 = heu_mc_minpaths_maxvarimp c2 st2 ac2 /\
  heu_mc_maxvarimp_minpaths c1 st1 ac1 = heu_mc_maxvarimp_minpaths c2 st2 ac2.
Proof. exact heuristics_after_from_parser. Qed.
Print Assumptions C12_heuristics_choose_alike.
