From Coq Require Import NArith.
From ADF Require Import Gen.GenFlags Gen.TieFlagDepth.
Theorem C12_depth_fallback_counts_levels : g_depth_plus = 1%N.
Proof. exact depth_fallback_counts_levels. Qed.
Print Assumptions C12_depth_fallback_counts_levels.
