From ADF Require Import Adf.NoGood.
Theorem placeholder : True. Proof. exact I. Qed.
Print Assumptions placeholder.
