(** C18 - Nogood store: sound deductions, no spurious conflicts, nothing forgotten.
    Statements only; proofs in Adf/NoGoodProofs.v.  A total assignment [a] MATCHES a nogood when it
    agrees with all its assigned positions; [stored s] are the nogoods currently in the store. *)
From Coq Require Import NArith List Bool.
From ADF Require Import Spec.Spec Bdd.Store Adf.NoGood Adf.NoGoodProofs.
Import ListNotations.

(** the conclusions contain only assignments forced by the stored nogoods (and keep what is given) *)
Theorem C18_conclusions_sound : forall s I R, buckets_ok s -> conclusions s I = Some R ->
  ng_sub I R /\ forall a, matches I a -> avoids (stored s) a -> matches R a.
Proof. exact conclusions_sound. Qed.
Print Assumptions C18_conclusions_sound.

(** a conflict is reported only if no total extension of the interpretation avoids all stored nogoods *)
Theorem C18_no_spurious_conflict : forall s I, buckets_ok s -> conclusions s I = None ->
  forall a, matches I a -> excluded (stored s) a.
Proof. exact conflict_sound. Qed.
Print Assumptions C18_no_spurious_conflict.

(** ... and always when the interpretation itself matches a stored nogood *)
Theorem C18_conflict_on_match : forall s I g, buckets_ok s -> In g (stored s) -> is_violating g I = true ->
  conclusions s I = None.
Proof. exact conflict_on_match. Qed.
Print Assumptions C18_conflict_on_match.

(** nothing forgotten, in all three duplicate-elimination modes: after any sequence of additions
    the store excludes exactly the assignments excluded by the added nogoods.  The side condition
    excludes the EMPTY nogood, which the code silently ignores (C18_empty_nogood_ignored; known
    finding, see KNOWN_FINDINGS.txt) *)
Theorem C18_nothing_forgotten : forall n m l s',
  Forall (fun g => ng_len g <> O) l ->
  add_all (mkNS (buckets (ngs_new n)) m) l = Some s' ->
  forall a, excluded (stored s') a <-> excluded l a.
Proof. exact add_seq_excluded. Qed.
Print Assumptions C18_nothing_forgotten.
Theorem C18_one_addition : forall s g s', buckets_ok s -> add_ng s g = Some s' -> ng_len g <> O ->
  forall a, excluded (stored s') a <-> (excluded (stored s) a \/ matches g a).
Proof. exact add_ng_excluded. Qed.
Print Assumptions C18_one_addition.
Theorem C18_empty_nogood_ignored : forall s g, ng_len g = O -> add_ng s g = Some s.
Proof. exact add_ng_empty_ignored. Qed.
Print Assumptions C18_empty_nogood_ignored.
Theorem C18_store_invariant : forall s g s', buckets_ok s -> add_ng s g = Some s' ->
  buckets_ok s' /\ dup s' = dup s /\ length (buckets s') = length (buckets s).
Proof. exact add_ng_ok. Qed.
Print Assumptions C18_store_invariant.

(** the closure of the conclusions used by the search *)
Theorem C18_closure_sound : forall s v, buckets_ok s -> forall r, conclusion_closure s v = Some r ->
  match r with
  | CInconsistent => forall a, matches (ng_of_terms v) a -> excluded (stored s) a
  | CNoUpdate => True
  | CUpdate w => length w = length v /\ ng_sub (ng_of_terms v) (ng_of_terms w) /\
                 (forall i, is_tv (nth i v 2%N) = false -> is_tv (nth i w 2%N) = false -> nth i w 2%N = nth i v 2%N) /\
                 forall a, matches (ng_of_terms v) a -> avoids (stored s) a -> matches (ng_of_terms w) a
  end.
Proof. exact closure_sound. Qed.
Print Assumptions C18_closure_sound.
Theorem C18_closure_total : forall s v, exists r, conclusion_closure s v = Some r.
Proof. exact closure_total. Qed.
Print Assumptions C18_closure_total.

(** non-vacuity: the same literal derived by two buckets is not a conflict (the defect repaired in
    /repo by "fix: NoGoodStore::conclusions ..."); Subsume keeps the stronger nogood *)
Example C18_two_buckets_same_literal :
  exists s, add_all (ngs_new 3) [[T;T]; [T;T;T]] = Some s /\ conclusions s [T;U;T] = Some [T;F;T].
Proof. eexists. split; vm_compute; reflexivity. Qed.
Example C18_subsume_keeps_stronger :
  exists s, add_all (mkNS (buckets (ngs_new 2)) DSubsume) [[T]; [T;T]] = Some s /\ stored s = [[T]].
Proof. eexists. split; vm_compute; reflexivity. Qed.

(** the small public operations on single nogoods / interpretations (used by the store, public on their own) *)
Theorem C18_pairs_constructor : forall l r, try_from_pair_iter l = Some r ->
  l <> [] /\ (forall i b, In (i, b) l -> ngat r i = lit b) /\
  (forall i, ngat r i <> U -> exists b, In (i, b) l /\ ngat r i = lit b).
Proof. exact try_from_pair_iter_spec. Qed.
Print Assumptions C18_pairs_constructor.
Theorem C18_contradicting : forall x y, is_contradicting x y = true <->
  exists i, ngat x i <> U /\ ngat y i <> U /\ ngat x i <> ngat y i.
Proof. exact is_contradicting_spec. Qed.
Print Assumptions C18_contradicting.
Theorem C18_disjunction : forall x y,
  (forall a, matches x a -> matches y a -> matches (disjunction x y) a) /\
  (is_contradicting y x = false -> ng_sub x (disjunction x y)).
Proof. intros x y; split; [exact (disjunction_matches x y) | exact (disjunction_sub x y)]. Qed.
Print Assumptions C18_disjunction.
Example C18_pairs_reject_two_values : try_from_pair_iter [(1, true); (0, false); (1, false)]%nat = None
  /\ try_from_pair_iter [] = None /\ try_from_pair_iter [(1, true); (1, true)]%nat = Some [U; T].
Proof. repeat split. Qed.
