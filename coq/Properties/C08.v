(** C08 - Parser accepts the documented syntax faithfully, rejects malformed text whole.
    Statements only; proofs are in Front/ParserProofs.v.  The documented grammar is the renderer
    [render_doc] over documents [doc] (facts in any order, all formula forms at any nesting,
    alphanumeric or quoted labels - keyword-like ones included -, layout after facts and around
    commas); [state_of d] is what the file says: statement names in order of first declaration and
    (name, formula) of every ac fact, labels verbatim. *)
From Coq Require Import NArith List String.
Local Open Scope string_scope.
From ADF Require Import Front.Parser Front.ParserProofs.
Import ListNotations.
Local Open Scope N_scope.
Local Open Scope list_scope.

(** every text of the grammar is accepted and yields exactly what is written *)
Theorem C08_accepts_grammar : forall d, d <> [] -> wf_doc d -> parse (render_doc d) = (state_of d, true).
Proof. exact parse_render. Qed.
Print Assumptions C08_accepts_grammar.

(** nothing outside the grammar is accepted *)
Theorem C08_accepts_only_grammar : forall s ps, parse s = (ps, true) ->
  exists d, d <> [] /\ wf_doc d /\ s = render_doc d /\ ps = state_of d.
Proof. exact parse_sound. Qed.
Print Assumptions C08_accepts_only_grammar.

Theorem C08_accepts_iff : forall s, snd (parse s) = true <-> exists d, d <> [] /\ wf_doc d /\ s = render_doc d.
Proof. exact parse_accepts_iff. Qed.
Print Assumptions C08_accepts_iff.

(** missing terminator: the last non-blank byte is not a dot *)
Theorem C08_reject_missing_dot : forall pre c w,
  is_ws w -> is_space c = false -> c <> 46 -> snd (parse (pre ++ c :: w)) = false.
Proof. exact reject_missing_dot. Qed.
Print Assumptions C08_reject_missing_dot.

(** trailing garbage after a well-formed document *)
Theorem C08_reject_trailing : forall d junk,
  d <> [] -> wf_doc d -> junk <> [] -> hd_not is_space junk ->
  statement_fact junk = None -> ac_fact junk = None ->
  parse (render_doc d ++ junk) = (state_of d, false).
Proof. exact reject_trailing. Qed.
Print Assumptions C08_reject_trailing.

Theorem C08_reject_blank : forall s, is_ws s -> snd (parse s) = false.
Proof. exact reject_blank. Qed.
Print Assumptions C08_reject_blank.

(** the formula parser is independent of its fuel once it exceeds the input length (the model's
    recursion bound never changes an answer) *)
Theorem C08_formula_fuel : forall fuel fuel' inp,
  (List.length inp < fuel)%nat -> (List.length inp < fuel')%nat -> formula_f fuel inp = formula_f fuel' inp.
Proof. exact formula_f_fuel. Qed.
Print Assumptions C08_formula_fuel.

(** non-vacuity: keyword-like labels, and unbalanced / wrong-arity texts *)
Example C08_keyword_labels :
  parse (bytes "s(and).s(c).ac(and,c).ac(c,neg(and)).") =
  (mkP [bytes "and"; bytes "c"] [(bytes "and", PAtom (bytes "c")); (bytes "c", PNot (PAtom (bytes "and")))], true).
Proof. vm_compute. reflexivity. Qed.
Example C08_unbalanced : snd (parse (bytes "s(a).ac(a,and(a,b).")) = false /\
                         snd (parse (bytes "s(a).ac(a,and(a)).")) = false /\
                         snd (parse (bytes "s(a).ac(a,neg(a,a)).")) = false /\
                         snd (parse (bytes "s(a)")) = false.
Proof. repeat split; vm_compute; reflexivity. Qed.
