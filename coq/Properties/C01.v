(** C01 - Grounded interpretation is the least fixpoint, on every back-end.
    Statements only; proofs in Adf/GroundedProofs.v (native), Adf/BioProofs.v (biodivine, hybrid).
    [abs st ac] is the ADF (list of Boolean functions) denoted by the handles [ac] in store [st];
    [interp_of g] reads a vector of handles as a three-valued interpretation (0 = F, 1 = T, else U);
    [Grounded D g] (Spec/Spec.v) : g is a fixpoint of the three-valued consequence operator that is
    below every fixpoint. *)
From Coq Require Import NArith List Bool.
From ADF Require Import Spec.Spec Spec.Theory Bdd.Store Bdd.WF Bdd.Node Adf.Native Adf.NativeBase Adf.GroundedProofs Adf.NativeExamples.
Import ListNotations.
Local Open Scope N_scope.

(** native back-end: the returned vector is THE grounded interpretation, and each returned handle is
    the acceptance condition with the decided statements substituted *)
Theorem C01_grounded_native : forall c st ac st' g, WF c st -> ac_ok st ac -> grounded c st ac = Some (st', g) ->
  WF c st' /\ extends st st' /\ length g = length ac /\ Forall (fun h => h < size st') g /\
  Grounded (abs st ac) (interp_of g) /\
  Forall2 (fun h a => feq (den st' h) (fun x => den st a (override (interp_of g) x))) g ac.
Proof. exact grounded_exact. Qed.
Print Assumptions C01_grounded_native.

(** exactly one grounded interpretation exists, so "the same on all back-ends" is a corollary of
    each back-end being exact *)
Theorem C01_grounded_unique : forall D g g', Grounded D g -> Grounded D g' -> g = g'.
Proof. exact Grounded_unique. Qed.
Print Assumptions C01_grounded_unique.

(** the loop always terminates (the model's fuel is sufficient) *)
Theorem C01_grounded_total : forall c st ac, WF c st -> ac_ok st ac -> exists st' g, grounded c st ac = Some (st', g).
Proof. exact grounded_total. Qed.
Print Assumptions C01_grounded_total.

(** the hypotheses hold for every ADF built from parsed formulas, which then denotes the formulas *)
Theorem C01_parsed_adfs_are_well_formed : forall c n fs st ac,
  N.of_nat n <= VBOT -> Forall (fun pf => atoms_lt (N.of_nat n) (snd pf)) fs ->
  from_parser c n fs = Some (st, ac) ->
  WF c st /\ ac_ok st ac /\ length ac = n /\ adf_eq (abs st ac) (sem_from_parser n fs).
Proof. exact from_parser_ok. Qed.
Print Assumptions C01_parsed_adfs_are_well_formed.
