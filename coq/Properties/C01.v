(** C01 - Grounded interpretation is the least fixpoint, on every back-end.
    Statements only; proofs in Adf/GroundedProofs.v (native), Adf/BioProofs.v (biodivine, hybrid).
    [abs st ac] is the ADF (list of Boolean functions) denoted by the handles [ac] in store [st];
    [interp_of g] reads a vector of handles as a three-valued interpretation (0 = F, 1 = T, else U);
    [Grounded D g] (Spec/Spec.v) : g is a fixpoint of the three-valued consequence operator that is
    below every fixpoint. *)
From Coq Require Import NArith List Bool.
From ADF Require Import Spec.Spec Spec.Theory Bdd.Store Bdd.WF Bdd.Node Adf.Native Adf.NativeBase Adf.GroundedProofs Adf.NativeExamples Adf.Bio Adf.BioProofs Adf.BridgeProofs.
Import ListNotations.
Local Open Scope N_scope.

(** native back-end: the returned vector is THE grounded interpretation, and each returned handle is
    the acceptance condition with the decided statements substituted *)
Theorem C01_grounded_native : forall c st ac st' g, WF c st -> ac_ok st ac -> grounded c st ac = Some (st', g) ->
  WF c st' /\ extends st st' /\ length g = length ac /\ Forall (fun h => h < size st') g /\
  Grounded (abs st ac) (interp_of g) /\
  Forall2 (fun h a => feq (den st' h) (fun x => den st a (override (interp_of g) x))) g ac.
Proof. exact grounded_exact. Qed.
Print Assumptions C01_grounded_native.

(** exactly one grounded interpretation exists, so "the same on all back-ends" is a corollary of
    each back-end being exact *)
Theorem C01_grounded_unique : forall D g g', Grounded D g -> Grounded D g' -> g = g'.
Proof. exact Grounded_unique. Qed.
Print Assumptions C01_grounded_unique.

(** the loop always terminates (the model's fuel is sufficient) *)
Theorem C01_grounded_total : forall c st ac, WF c st -> ac_ok st ac -> exists st' g, grounded c st ac = Some (st', g).
Proof. exact grounded_total. Qed.
Print Assumptions C01_grounded_total.

(** the hypotheses hold for every ADF built from parsed formulas, which then denotes the formulas *)
Theorem C01_parsed_adfs_are_well_formed : forall c n fs st ac,
  N.of_nat n <= VBOT -> Forall (fun pf => atoms_lt (N.of_nat n) (snd pf)) fs ->
  from_parser c n fs = Some (st, ac) ->
  WF c st /\ ac_ok st ac /\ length ac = n /\ adf_eq (abs st ac) (sem_from_parser n fs).
Proof. exact from_parser_ok. Qed.
Print Assumptions C01_parsed_adfs_are_well_formed.

(** biodivine back-end (its values are canonical Boolean functions, represented by handles of a verified store) *)
Theorem C01_grounded_biodivine : forall c st ac st' g, WF c st -> ac_ok st ac -> bio_grounded c st ac = Some (st', g) ->
  WF c st' /\ extends st st' /\ length g = length ac /\ Grounded (abs st ac) (interp_of g).
Proof. exact bio_grounded_exact. Qed.
Print Assumptions C01_grounded_biodivine.

(** hybrid back-end without pre-grounding: the bridge imports diagrams denoting the dumped functions
    (C09), and the grounded interpretation only depends on the denoted ADF *)
Theorem C01_grounded_depends_on_adf_only : forall c1 c2 st1 ac1 st2 ac2 s1' g1 s2' g2,
  WF c1 st1 -> WF c2 st2 -> ac_ok st1 ac1 -> ac_ok st2 ac2 -> adf_eq (abs st1 ac1) (abs st2 ac2) ->
  grounded c1 st1 ac1 = Some (s1', g1) -> grounded c2 st2 ac2 = Some (s2', g2) -> interp_of g1 = interp_of g2.
Proof. exact answers_determined_grounded. Qed.
Print Assumptions C01_grounded_depends_on_adf_only.

(** hybrid back-end with biodivine pre-grounding: the vector handed to the bridge denotes the ADF with
    the grounded truth values substituted, and any store denoting THAT ADF reports the original's
    grounded interpretation *)
Theorem C01_pregrounding : forall c st ac s1 g, WF c st -> ac_ok st ac -> bio_grounded_internal c st ac = Some (s1, g) ->
  WF c s1 /\ extends st s1 /\ ac_ok s1 g /\ Grounded (abs st ac) (interp_of g) /\
  adf_eq (abs s1 g) (pregrounded (abs st ac) (interp_of g)).
Proof. exact bio_grounded_internal_pregrounded. Qed.
Print Assumptions C01_pregrounding.
Theorem C01_grounded_hybrid_pregrounded : forall D g c st ts, Forall (supported (length D)) D -> Grounded D g -> WF c st ->
  Forall (fun h => h < size st) ts -> adf_eq (abs st ts) (pregrounded D g) ->
  forall st' g', grounded c st ts = Some (st', g') -> interp_of g' = g.
Proof. exact hybrid_opt_grounded. Qed.
Print Assumptions C01_grounded_hybrid_pregrounded.
