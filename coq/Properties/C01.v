From ADF Require Import Adf.Native.
Theorem placeholder : True. Proof. exact I. Qed.
Print Assumptions placeholder.
