(** Overlapping background tasks of the server model (Server/Model.v): "in any request order
    (solve before/after other solves, repeated gets)".

    1. [complete_commute]: two pending tasks at positions i < j that are independent (different owner
       or different problem name, or a parse and a solve of the same problem, or two solves of the same
       problem for DIFFERENT strategies) can complete in either order: completing i and then j-1 (the
       position of the second task after the first one has left the list) gives a state equivalent
       ([state_equiv]) to completing j and then i.  Users, running entries, pending tasks and sessions
       are EQUAL; the problem documents are equal except that the association list [p_res] of the one
       problem two solves write to holds the same results in a different order ([prob_equiv]: all the
       other fields equal, [res_of] equal for every strategy, [p_res] a permutation).
       [complete_commute_eq]: plain equality of the states, when the two tasks are not two solves of
       the same problem.  [complete_commute_events]: the same, on [run_events].
       [pending_after_complete]: the index arithmetic.
       Refutations: [overlapping_order_observable] (two solves of one problem: the two final states are
       never equal, the order of [p_res] records the order of completion; the server keeps a record with
       one field per strategy, so this is an artefact of the association list of the model),
       [OverlapConcrete.plain_equality_refuted]; [OverlapConcrete.two_parses_refuted] and
       [OverlapConcrete.same_strategy_refuted] (the side condition is needed: the last writer wins).
    2. [overlapping_solves_both_stored]: a problem with a parsed diagram, RSolve st1 and RSolve st2
       (st1 <> st2) both answered 200, the two completions in either order: both results stored exactly
       as the library returned them, nothing else changed in the state, and GET returns them.
       [overlapping_solves_history]: the same on [run_events], with every answer.
    3. [repeated_get_pure], [read_only_pure], [read_only_insert], [read_only_repeat]: GET and LIST
       never change the state; they can be inserted anywhere in a history.
       ([OverlapConcrete.info_not_pure_refuted]: RInfo is not of this kind, it can drop a session.)
    4. [OverlapConcrete]: computed examples on a toy library.
    No axioms. *)
From Coq Require Import NArith List Bool Lia Arith Permutation.
From ADF Require Import Front.Parser Server.Model Server.Isolation.
Import ListNotations.
Local Open Scope N_scope.

Local Arguments users {adfdata answers} s.
Local Arguments probs {adfdata answers} s.
Local Arguments running {adfdata answers} s.
Local Arguments pending {adfdata answers} s.
Local Arguments sessions {adfdata answers} s.
Local Arguments mkSt {adfdata answers}.
Local Arguments mkPr {adfdata answers}.
Local Arguments mkT {adfdata}.
Local Arguments mkInfo {answers}.
Local Arguments p_name {adfdata answers} p.
Local Arguments p_owner {adfdata answers} p.
Local Arguments p_code {adfdata answers} p.
Local Arguments p_parsing {adfdata answers} p.
Local Arguments p_adf {adfdata answers} p.
Local Arguments p_parse {adfdata answers} p.
Local Arguments p_res {adfdata answers} p.
Local Arguments t_owner {adfdata} p.
Local Arguments t_pname {adfdata} p.
Local Arguments t_task {adfdata} p.
Local Arguments t_code {adfdata} p.
Local Arguments t_parsing {adfdata} p.
Local Arguments t_adf {adfdata} p.
Local Arguments i_name {answers} p.
Local Arguments i_code {answers} p.
Local Arguments i_parse {answers} p.
Local Arguments i_res {answers} p.
Local Arguments i_running {answers} p.
Local Arguments identity {adfdata answers} s c.
Local Arguments set_identity {adfdata answers} s c u.
Local Arguments find_user {adfdata answers} s u.
Local Arguments pmatch {adfdata answers} keys owner name p.
Local Arguments info_of {adfdata answers} s p.
Local Arguments res_of {adfdata answers} p st.
Local Arguments set_res {adfdata answers} p st r.
Local Arguments update_first {adfdata answers} f g l.
Local Arguments delete_first {adfdata answers} f l.
Local Arguments remove_running {adfdata} l t.
Local Arguments with_users {adfdata answers} s us.
Local Arguments with_probs {adfdata answers} s ps.
Local Arguments PNone {answers}.
Local Arguments PUser {answers}.
Local Arguments PProblem {answers}.
Local Arguments PProblems {answers}.
Local Arguments s0 {adfdata answers}.
Local Arguments adf_of {adfdata answers} o.
Local Arguments parse_of {adfdata answers} o.
Local Arguments res_of_outcome {answers} o.
Local Arguments no_problem {adfdata answers} U n l.

(** * lists: removing two positions *)
Section ListFacts2.
  Context {A : Type}.
  (** the list without its [i]-th element (what a completion leaves of [pending]) *)
  Definition drop_nth (i : nat) (l : list A) : list A := firstn i l ++ skipn (S i) l.

  Lemma drop_nth_nil i : drop_nth i [] = [].
  Proof. unfold drop_nth. now destruct i. Qed.
  Lemma drop_nth_cons a l i : drop_nth (S i) (a :: l) = a :: drop_nth i l.
  Proof. reflexivity. Qed.
  Lemma drop_nth_0 a l : drop_nth 0 (a :: l) = l.
  Proof. reflexivity. Qed.

  (** a position before the removed one keeps its index *)
  Lemma nth_error_drop_lt l : forall i j, (i < j)%nat -> nth_error (drop_nth j l) i = nth_error l i.
  Proof.
    induction l as [|a l IH]; intros i j Hij.
    - rewrite drop_nth_nil. reflexivity.
    - destruct j as [|j]; [lia|]. rewrite drop_nth_cons. destruct i as [|i]; [reflexivity|].
      cbn [nth_error]. apply IH. lia.
  Qed.
  (** a position behind the removed one moves down by one *)
  Lemma nth_error_drop_ge l : forall i j, (i <= j)%nat -> nth_error (drop_nth i l) j = nth_error l (S j).
  Proof.
    induction l as [|a l IH]; intros i j Hij.
    - rewrite drop_nth_nil. now destruct j.
    - destruct i as [|i]; [reflexivity|]. destruct j as [|j]; [lia|]. rewrite drop_nth_cons.
      cbn [nth_error]. apply IH. lia.
  Qed.
  Lemma drop_nth_comm l : forall i j, (i <= j)%nat -> drop_nth j (drop_nth i l) = drop_nth i (drop_nth (S j) l).
  Proof.
    induction l as [|a l IH]; intros i j Hij.
    - now rewrite !drop_nth_nil.
    - destruct i as [|i].
      + now rewrite drop_nth_cons, !drop_nth_0.
      + destruct j as [|j]; [lia|]. rewrite !drop_nth_cons. f_equal. apply IH. lia.
  Qed.
  Lemma nth_error_mid (l : list A) x r : nth_error (l ++ x :: r) (length l) = Some x.
  Proof. rewrite nth_error_app2 by lia. now rewrite Nat.sub_diag. Qed.
  Lemma drop_nth_mid (l : list A) x r : drop_nth (length l) (l ++ x :: r) = l ++ r.
  Proof.
    induction l as [|a l IH]; [reflexivity|]. cbn [length app]. rewrite drop_nth_cons. now rewrite IH.
  Qed.
  Lemma filter_comm (f g : A -> bool) l : filter f (filter g l) = filter g (filter f l).
  Proof.
    induction l as [|a l IH]; [reflexivity|]. cbn [filter].
    destruct (g a) eqn:Eg; destruct (f a) eqn:Ef; cbn [filter]; rewrite ?Eg, ?Ef, IH; reflexivity.
  Qed.
  Lemma Forall2_eq_eq (l1 l2 : list A) : Forall2 eq l1 l2 -> l1 = l2.
  Proof. induction 1 as [|x y l1 l2 Hxy _ IH]; [reflexivity|]. now rewrite Hxy, IH. Qed.
  Lemma Forall2_refl_of (R : A -> A -> Prop) : (forall x, R x x) -> forall l, Forall2 R l l.
  Proof. intros H l. induction l as [|a l IH]; constructor; [apply H|exact IH]. Qed.
  Lemma Forall2_sym_of (R : A -> A -> Prop) : (forall x y, R x y -> R y x) -> forall l1 l2, Forall2 R l1 l2 -> Forall2 R l2 l1.
  Proof. intros H l1 l2 H12. induction H12 as [|x y l1 l2 Hxy _ IH]; constructor; [now apply H|exact IH]. Qed.
  Lemma Forall2_trans_of (R : A -> A -> Prop) : (forall x y z, R x y -> R y z -> R x z) ->
    forall l1 l2 l3, Forall2 R l1 l2 -> Forall2 R l2 l3 -> Forall2 R l1 l3.
  Proof.
    intros H l1 l2 l3 H12. revert l3. induction H12 as [|x y l1 l2 Hxy _ IH]; intros l3 H23; inversion H23; subst; constructor.
    - eapply H; eassumption.
    - now apply IH.
  Qed.
End ListFacts2.

Lemma strategy_eqb_eq a b : strategy_eqb a b = true <-> a = b.
Proof. destruct a, b; cbn; split; intros H; try reflexivity; try discriminate. Qed.
Lemma strategy_eqb_neq a b : a <> b -> strategy_eqb a b = false.
Proof. intros H. destruct (strategy_eqb a b) eqn:E; [apply strategy_eqb_eq in E; contradiction|reflexivity]. Qed.
Lemma task_eqb_eq a b : task_eqb a b = true <-> a = b.
Proof.
  destruct a as [|x], b as [|y]; cbn; split; intros H; try reflexivity; try discriminate.
  - apply strategy_eqb_eq in H. now subst.
  - injection H as ->. apply strategy_eqb_refl.
Qed.

Section Overlap.
  Variable adfdata answers : Type.
  Variable lib_parse : str -> parsing -> outcome (adfdata * answers).
  Variable lib_solve : adfdata -> strategy -> outcome answers.
  Variable digest : str -> str.
  Variable tbl : ftable.
  Variable remove_on_panic : bool.
  Set Default Proof Using "Type".

  Notation state := (sstate adfdata answers).
  Notation prob := (problem adfdata answers).
  Notation handle := (Model.handle adfdata answers digest tbl).
  Notation complete := (Model.complete adfdata answers lib_parse lib_solve tbl remove_on_panic).
  Notation step := (Model.step adfdata answers lib_parse lib_solve digest tbl remove_on_panic).
  Notation run_events := (Model.run_events adfdata answers lib_parse lib_solve digest tbl remove_on_panic).
  Notation keep_of := (Isolation.keep_of remove_on_panic).

  (** ** the equivalence: the order of the entries of [p_res] is not significant *)
  Definition prob_equiv (p q : prob) : Prop :=
    p_name p = p_name q /\ p_owner p = p_owner q /\ p_code p = p_code q /\ p_parsing p = p_parsing q /\
    p_adf p = p_adf q /\ p_parse p = p_parse q /\
    (forall st, res_of p st = res_of q st) /\ Permutation (p_res p) (p_res q).
  Definition state_equiv (s1 s2 : state) : Prop :=
    users s1 = users s2 /\ Forall2 prob_equiv (probs s1) (probs s2) /\ running s1 = running s2 /\
    pending s1 = pending s2 /\ sessions s1 = sessions s2.

  Lemma prob_equiv_refl p : prob_equiv p p.
  Proof. unfold prob_equiv. repeat split; trivial. Qed.
  Lemma prob_equiv_sym p q : prob_equiv p q -> prob_equiv q p.
  Proof.
    intros (H1 & H2 & H3 & H4 & H5 & H6 & H7 & H8). unfold prob_equiv.
    repeat split; try (symmetry; assumption). intros st. symmetry. apply H7.
  Qed.
  Lemma prob_equiv_trans p q r : prob_equiv p q -> prob_equiv q r -> prob_equiv p r.
  Proof.
    intros (H1 & H2 & H3 & H4 & H5 & H6 & H7 & H8) (K1 & K2 & K3 & K4 & K5 & K6 & K7 & K8). unfold prob_equiv.
    repeat split; try (etransitivity; eassumption). intros st. now rewrite H7.
  Qed.
  Lemma state_equiv_refl s : state_equiv s s.
  Proof. unfold state_equiv. repeat split; trivial. apply Forall2_refl_of. apply prob_equiv_refl. Qed.
  Lemma state_equiv_sym s1 s2 : state_equiv s1 s2 -> state_equiv s2 s1.
  Proof.
    intros (H1 & H2 & H3 & H4 & H5). unfold state_equiv. repeat split; try (symmetry; assumption).
    revert H2. apply Forall2_sym_of. apply prob_equiv_sym.
  Qed.
  Lemma state_equiv_trans s1 s2 s3 : state_equiv s1 s2 -> state_equiv s2 s3 -> state_equiv s1 s3.
  Proof.
    intros (H1 & H2 & H3 & H4 & H5) (K1 & K2 & K3 & K4 & K5). unfold state_equiv.
    repeat split; try (etransitivity; eassumption).
    revert H2 K2. apply Forall2_trans_of. apply prob_equiv_trans.
  Qed.
  Lemma state_eq_fields (s1 s2 : state) : users s1 = users s2 -> probs s1 = probs s2 -> running s1 = running s2 ->
    pending s1 = pending s2 -> sessions s1 = sessions s2 -> s1 = s2.
  Proof. destruct s1, s2. cbn. intros -> -> -> -> ->. reflexivity. Qed.

  (** ** results of a problem *)
  Lemma res_of_set_res (p : prob) st r st' : res_of (set_res p st r) st' = if strategy_eqb st st' then r else res_of p st'.
  Proof.
    unfold res_of, set_res. cbn [p_res find fst]. destruct (strategy_eqb st st') eqn:E; [reflexivity|].
    rewrite find_filter_frame; [reflexivity|]. intros x _ Hx. apply strategy_eqb_eq in Hx. rewrite Hx.
    apply negb_true_iff. destruct (strategy_eqb st' st) eqn:E2; [|reflexivity].
    apply strategy_eqb_eq in E2. rewrite E2, strategy_eqb_refl in E. discriminate.
  Qed.

  (** two solves of one document, for different strategies *)
  Lemma set_res_swap (p : prob) st1 r1 st2 r2 : st1 <> st2 ->
    prob_equiv (set_res (set_res p st1 r1) st2 r2) (set_res (set_res p st2 r2) st1 r1).
  Proof.
    intros Hne. unfold prob_equiv. repeat split.
    - intros st. rewrite !res_of_set_res. destruct (strategy_eqb st2 st) eqn:E2; destruct (strategy_eqb st1 st) eqn:E1; try reflexivity.
      apply strategy_eqb_eq in E1, E2. congruence.
    - unfold set_res. cbn [p_res filter fst].
      rewrite (strategy_eqb_neq st1 st2 Hne), (strategy_eqb_neq st2 st1) by congruence. cbn [negb].
      rewrite (filter_comm (fun x : strategy * opt3 answers => negb (strategy_eqb (fst x) st2))). apply perm_swap.
  Qed.
  Lemma set_res_swap_neq (p : prob) st1 r1 st2 r2 : st1 <> st2 ->
    set_res (set_res p st1 r1) st2 r2 <> set_res (set_res p st2 r2) st1 r1.
  Proof. intros Hne H. unfold set_res in H. cbn [p_res] in H. injection H as H _. congruence. Qed.

  (** ** the completion of a task, as a function of the task alone *)
  Definition tk_outcome_parse (tk : ptask adfdata) (b : bool) : outcome (adfdata * answers) :=
    if b then TimedOut else lib_parse (t_code tk) (t_parsing tk).
  Definition tk_outcome_solve (tk : ptask adfdata) (st : strategy) (b : bool) : outcome answers :=
    if b then TimedOut else match t_adf tk with Some a => lib_solve a st | None => Panicked end.
  Definition tk_keys (tk : ptask adfdata) : list fld :=
    match t_task tk with TParse => ft_add_complete tbl | TSolve _ => ft_solve_complete tbl end.
  Definition tk_upd (tk : ptask adfdata) (b : bool) : prob -> prob :=
    match t_task tk with
    | TParse => fun q => mkPr (p_name q) (p_owner q) (p_code q) (p_parsing q)
                              (adf_of (tk_outcome_parse tk b)) (parse_of (tk_outcome_parse tk b)) (p_res q)
    | TSolve st => fun q => set_res q st (res_of_outcome (tk_outcome_solve tk st b))
    end.
  Definition tk_keep (tk : ptask adfdata) (b : bool) : bool :=
    match t_task tk with TParse => keep_of (tk_outcome_parse tk b) | TSolve st => keep_of (tk_outcome_solve tk st b) end.

  Lemma complete_eq (s : state) i b tk : nth_error (pending s) i = Some tk ->
    complete s i b = mkSt (users s) (update_first (pmatch (tk_keys tk) (t_owner tk) (t_pname tk)) (tk_upd tk b) (probs s))
                          (if tk_keep tk b then running s else remove_running (running s) tk)
                          (drop_nth i (pending s)) (sessions s).
  Proof.
    intros H. unfold Model.complete, tk_keys, tk_upd, tk_keep, tk_outcome_parse, tk_outcome_solve, drop_nth. rewrite H.
    destruct (t_task tk) as [|st].
    - destruct (if b then TimedOut else lib_parse (t_code tk) (t_parsing tk)) as [[a g]| | |]; reflexivity.
    - reflexivity.
  Qed.

  Lemma tk_upd_frame tk b (q : prob) : p_owner (tk_upd tk b q) = p_owner q /\ p_name (tk_upd tk b q) = p_name q.
  Proof. unfold tk_upd. destruct (t_task tk); split; reflexivity. Qed.
  Lemma pmatch_tk_upd keys o n tk b (q : prob) : pmatch keys o n (tk_upd tk b q) = pmatch keys o n q.
  Proof. unfold pmatch. destruct (tk_upd_frame tk b q) as [-> ->]. reflexivity. Qed.
  Lemma tk_keys_full tk : filters_ok tbl = true -> has FUser (tk_keys tk) = true /\ has FName (tk_keys tk) = true.
  Proof.
    intros Hok. destruct (filters_ok_inv tbl Hok) as (_ & Hac & _ & Hsc & _). unfold tk_keys. now destruct (t_task tk).
  Qed.

  (** ** 1. independent completions commute *)
  Definition same_target (t1 t2 : ptask adfdata) : Prop := t_owner t1 = t_owner t2 /\ t_pname t1 = t_pname t2.
  (** writes to one document that do not conflict: a parse and a solve, two solves for different strategies *)
  Definition kinds_commute (k1 k2 : task) : Prop :=
    match k1, k2 with TSolve a, TSolve b => a <> b | TParse, TParse => False | _, _ => True end.
  Definition kinds_disjoint (k1 k2 : task) : Prop :=
    match k1, k2 with TParse, TSolve _ | TSolve _, TParse => True | _, _ => False end.
  Definition independent (t1 t2 : ptask adfdata) : Prop := ~ same_target t1 t2 \/ kinds_commute (t_task t1) (t_task t2).
  Definition strictly_independent (t1 t2 : ptask adfdata) : Prop := ~ same_target t1 t2 \/ kinds_disjoint (t_task t1) (t_task t2).

  Lemma strictly_independent_independent t1 t2 : strictly_independent t1 t2 -> independent t1 t2.
  Proof.
    intros [H|H]; [now left|right]. unfold kinds_disjoint, kinds_commute in *.
    destruct (t_task t1), (t_task t2); try contradiction; trivial.
  Qed.

  Lemma update_first_commute (R : prob -> prob -> Prop) (f f' : prob -> bool) (g g' : prob -> prob) l :
    (forall q, R q q) -> (forall q, f (g' q) = f q) -> (forall q, f' (g q) = f' q) ->
    (forall q, f q = true -> f' q = true -> R (g (g' q)) (g' (g q))) ->
    Forall2 R (update_first f g (update_first f' g' l)) (update_first f' g' (update_first f g l)).
  Proof.
    intros Hrefl Hf Hf' Hboth. induction l as [|a l IH]; [constructor|].
    cbn [update_first]. destruct (f a) eqn:Ea; destruct (f' a) eqn:Ea'; cbn [update_first].
    - rewrite Hf, Hf', Ea, Ea'. constructor; [now apply Hboth|now apply Forall2_refl_of].
    - rewrite Hf', Ea, Ea'. constructor; [apply Hrefl|now apply Forall2_refl_of].
    - rewrite Hf, Ea, Ea'. constructor; [apply Hrefl|now apply Forall2_refl_of].
    - rewrite Ea, Ea'. constructor; [apply Hrefl|exact IH].
  Qed.

  Lemma both_match_same_target t1 t2 (q : prob) : filters_ok tbl = true ->
    pmatch (tk_keys t1) (t_owner t1) (t_pname t1) q = true -> pmatch (tk_keys t2) (t_owner t2) (t_pname t2) q = true ->
    same_target t1 t2.
  Proof.
    intros Hok H1 H2. destruct (tk_keys_full t1 Hok) as [A1 B1]. destruct (tk_keys_full t2 Hok) as [A2 B2].
    rewrite pmatch_full in H1, H2 by assumption. apply andb_true_iff in H1, H2.
    destruct H1 as [O1 N1]. destruct H2 as [O2 N2]. apply str_eqb_eq in O1, N1, O2, N2. split; congruence.
  Qed.

  Lemma probs_commute (R : prob -> prob -> Prop) t1 t2 b1 b2 (l : list prob) : filters_ok tbl = true ->
    (forall q, R q q) ->
    (forall q, same_target t1 t2 -> R (tk_upd t1 b1 (tk_upd t2 b2 q)) (tk_upd t2 b2 (tk_upd t1 b1 q))) ->
    Forall2 R
      (update_first (pmatch (tk_keys t1) (t_owner t1) (t_pname t1)) (tk_upd t1 b1)
         (update_first (pmatch (tk_keys t2) (t_owner t2) (t_pname t2)) (tk_upd t2 b2) l))
      (update_first (pmatch (tk_keys t2) (t_owner t2) (t_pname t2)) (tk_upd t2 b2)
         (update_first (pmatch (tk_keys t1) (t_owner t1) (t_pname t1)) (tk_upd t1 b1) l)).
  Proof.
    intros Hok Hrefl HR. apply update_first_commute; [assumption| | |].
    - intros q. apply pmatch_tk_upd.
    - intros q. apply pmatch_tk_upd.
    - intros q H1 H2. apply HR. exact (both_match_same_target t1 t2 q Hok H1 H2).
  Qed.

  Lemma upd_commute_equiv t1 t2 b1 b2 (q : prob) : independent t1 t2 -> same_target t1 t2 ->
    prob_equiv (tk_upd t1 b1 (tk_upd t2 b2 q)) (tk_upd t2 b2 (tk_upd t1 b1 q)).
  Proof.
    intros [H|H] Hs; [contradiction|]. unfold tk_upd, kinds_commute in *.
    destruct (t_task t1) as [|x]; destruct (t_task t2) as [|y]; try contradiction; try apply prob_equiv_refl.
    apply set_res_swap. congruence.
  Qed.
  Lemma upd_commute_eq t1 t2 b1 b2 (q : prob) : strictly_independent t1 t2 -> same_target t1 t2 ->
    tk_upd t1 b1 (tk_upd t2 b2 q) = tk_upd t2 b2 (tk_upd t1 b1 q).
  Proof.
    intros [H|H] Hs; [contradiction|]. unfold tk_upd, kinds_disjoint in *.
    destruct (t_task t1) as [|x]; destruct (t_task t2) as [|y]; try contradiction; reflexivity.
  Qed.

  Lemma running_commute (R : list (str * str * task)) (t1 t2 : ptask adfdata) (k1 k2 : bool) :
    (if k2 then (if k1 then R else remove_running R t1) else remove_running (if k1 then R else remove_running R t1) t2) =
    (if k1 then (if k2 then R else remove_running R t2) else remove_running (if k2 then R else remove_running R t2) t1).
  Proof. destruct k1, k2; try reflexivity. unfold remove_running. apply filter_comm. Qed.

  (** the two orders, computed: [i] then [j] (found at [j - 1]) against [j] then [i] *)
  Lemma complete_twice (s : state) i j bi bj ti tj : (i < j)%nat ->
    nth_error (pending s) i = Some ti -> nth_error (pending s) j = Some tj ->
    complete (complete s i bi) (j - 1) bj =
      mkSt (users s)
           (update_first (pmatch (tk_keys tj) (t_owner tj) (t_pname tj)) (tk_upd tj bj)
              (update_first (pmatch (tk_keys ti) (t_owner ti) (t_pname ti)) (tk_upd ti bi) (probs s)))
           (if tk_keep tj bj then (if tk_keep ti bi then running s else remove_running (running s) ti)
            else remove_running (if tk_keep ti bi then running s else remove_running (running s) ti) tj)
           (drop_nth (j - 1) (drop_nth i (pending s))) (sessions s) /\
    complete (complete s j bj) i bi =
      mkSt (users s)
           (update_first (pmatch (tk_keys ti) (t_owner ti) (t_pname ti)) (tk_upd ti bi)
              (update_first (pmatch (tk_keys tj) (t_owner tj) (t_pname tj)) (tk_upd tj bj) (probs s)))
           (if tk_keep ti bi then (if tk_keep tj bj then running s else remove_running (running s) tj)
            else remove_running (if tk_keep tj bj then running s else remove_running (running s) tj) ti)
           (drop_nth i (drop_nth j (pending s))) (sessions s).
  Proof.
    intros Hij Hi Hj. split.
    - rewrite (complete_eq s i bi ti Hi).
      rewrite (complete_eq _ (j - 1) bj tj); [reflexivity|]. cbn [pending].
      rewrite nth_error_drop_ge by lia. replace (S (j - 1)) with j by lia. exact Hj.
    - rewrite (complete_eq s j bj tj Hj).
      rewrite (complete_eq _ i bi ti); [reflexivity|]. cbn [pending].
      rewrite nth_error_drop_lt by lia. exact Hi.
  Qed.

  (** the index arithmetic the model needs: once the task at [i] has left the list, the task that was
      at [j > i] is found at [j - 1]; the task at [i < j] keeps its position when [j] leaves *)
  Lemma pending_after_complete (s : state) i b ti : nth_error (pending s) i = Some ti ->
    pending (complete s i b) = drop_nth i (pending s) /\
    (forall j, (i < j)%nat -> nth_error (pending (complete s i b)) (j - 1) = nth_error (pending s) j) /\
    (forall j, (j < i)%nat -> nth_error (pending (complete s i b)) j = nth_error (pending s) j).
  Proof.
    intros Hi. rewrite (complete_eq s i b ti Hi). cbn [pending]. split; [reflexivity|]. split; intros j Hj.
    - rewrite nth_error_drop_ge by lia. f_equal. lia.
    - now apply nth_error_drop_lt.
  Qed.

  Theorem complete_commute (s : state) i j bi bj ti tj :
    filters_ok tbl = true -> (i < j)%nat ->
    nth_error (pending s) i = Some ti -> nth_error (pending s) j = Some tj -> independent ti tj ->
    state_equiv (complete (complete s i bi) (j - 1) bj) (complete (complete s j bj) i bi).
  Proof.
    intros Hok Hij Hi Hj Hind. destruct (complete_twice s i j bi bj ti tj Hij Hi Hj) as [-> ->].
    unfold state_equiv. cbn [users probs running pending sessions]. repeat split.
    - apply probs_commute; [assumption|apply prob_equiv_refl|]. intros q Hs. apply upd_commute_equiv; [|assumption].
      destruct Hind as [H|H]; [left; intros [A B]; apply H; split; congruence|right].
      unfold kinds_commute in *. destruct (t_task ti), (t_task tj); trivial. congruence.
    - symmetry. apply running_commute.
    - destruct j as [|j]; [lia|]. replace (S j - 1)%nat with j by lia. apply drop_nth_comm. lia.
  Qed.

  (** plain equality, unless the two tasks are two solves of one problem *)
  Theorem complete_commute_eq (s : state) i j bi bj ti tj :
    filters_ok tbl = true -> (i < j)%nat ->
    nth_error (pending s) i = Some ti -> nth_error (pending s) j = Some tj -> strictly_independent ti tj ->
    complete (complete s i bi) (j - 1) bj = complete (complete s j bj) i bi.
  Proof.
    intros Hok Hij Hi Hj Hind. destruct (complete_twice s i j bi bj ti tj Hij Hi Hj) as [-> ->].
    f_equal.
    - apply Forall2_eq_eq. apply probs_commute; [assumption|reflexivity|]. intros q Hs. apply upd_commute_eq; [|assumption].
      destruct Hind as [H|H]; [left; intros [A B]; apply H; split; congruence|right].
      unfold kinds_disjoint in *. destruct (t_task ti), (t_task tj); trivial.
    - symmetry. apply running_commute.
    - destruct j as [|j]; [lia|]. replace (S j - 1)%nat with j by lia. apply drop_nth_comm. lia.
  Qed.

  (** on histories: the two orders of the two completion events, nothing in between *)
  Corollary complete_commute_events (s : state) i j bi bj ti tj :
    filters_ok tbl = true -> (i < j)%nat ->
    nth_error (pending s) i = Some ti -> nth_error (pending s) j = Some tj -> independent ti tj ->
    state_equiv (fst (run_events s [EComplete i bi; EComplete (j - 1) bj])) (fst (run_events s [EComplete j bj; EComplete i bi])) /\
    snd (run_events s [EComplete i bi; EComplete (j - 1) bj]) = [None; None] /\
    snd (run_events s [EComplete j bj; EComplete i bi]) = [None; None].
  Proof.
    intros Hok Hij Hi Hj Hind. cbn [Model.run_events Model.step fst snd]. split; [|split; reflexivity].
    now apply (complete_commute s i j bi bj ti tj).
  Qed.

  (** ** 3. GET and LIST are pure *)
  Definition read_only (r : request) : Prop := match r with RGet _ | RList => True | _ => False end.

  Theorem read_only_pure (s : state) c r : read_only r -> fst (handle s c r) = s.
  Proof.
    destruct r; try contradiction; intros _; cbn [Model.handle].
    - destruct (identity s c) as [u|]; [|reflexivity]. destruct (find _ _); reflexivity.
    - destruct (identity s c); reflexivity.
  Qed.

  Theorem repeated_get_pure (s : state) c n : fst (handle s c (RGet n)) = s /\ fst (handle s c RList) = s.
  Proof. split; now apply read_only_pure. Qed.

  (** a read in front of any request (by any client) changes nothing of what that request does or answers;
      in particular a repeated GET answers the same *)
  Corollary read_only_repeat (s : state) c r c' r' : read_only r -> handle (fst (handle s c r)) c' r' = handle s c' r'.
  Proof. intros H. now rewrite read_only_pure. Qed.

  Lemma run_events_app_full (s : state) es1 es2 :
    run_events s (es1 ++ es2) =
    (fst (run_events (fst (run_events s es1)) es2), snd (run_events s es1) ++ snd (run_events (fst (run_events s es1)) es2)).
  Proof.
    revert s. induction es1 as [|e es1 IH]; intros s.
    - cbn [app Model.run_events fst snd]. now destruct (run_events s es2).
    - rewrite <- app_comm_cons. cbn [Model.run_events]. destruct (step s e) as [s1 x]. rewrite IH.
      destruct (run_events s1 es1) as [s2 xs]. reflexivity.
  Qed.

  (** a read can be inserted anywhere in a history: the final state and all the other answers are unchanged *)
  Theorem read_only_insert (s : state) es1 c r es2 : read_only r ->
    let s1 := fst (run_events s es1) in
    fst (run_events s (es1 ++ EReq c r :: es2)) = fst (run_events s (es1 ++ es2)) /\
    snd (run_events s (es1 ++ es2)) = snd (run_events s es1) ++ snd (run_events s1 es2) /\
    snd (run_events s (es1 ++ EReq c r :: es2)) = snd (run_events s es1) ++ Some (snd (handle s1 c r)) :: snd (run_events s1 es2).
  Proof.
    intros Hr s1. rewrite !run_events_app_full. cbn [fst snd]. fold s1.
    assert (E : run_events s1 (EReq c r :: es2) = (fst (run_events s1 es2), Some (snd (handle s1 c r)) :: snd (run_events s1 es2))).
    { cbn [Model.run_events Model.step]. assert (Hp := read_only_pure s1 c r Hr).
      destruct (handle s1 c r) as [s' x]. cbn [fst snd] in *. subst s'. now destruct (run_events s1 es2). }
    rewrite E. cbn [fst snd]. repeat split.
  Qed.

  (** ** 2. two overlapping solves of one problem *)
  Lemma update_first_mid (f : prob -> bool) g l1 p l2 : (forall q, In q l1 -> f q = false) -> f p = true ->
    update_first f g (l1 ++ p :: l2) = l1 ++ g p :: l2.
  Proof.
    induction l1 as [|a l IH]; intros Hl Hp; cbn [app update_first].
    - now rewrite Hp.
    - rewrite (Hl a (or_introl eq_refl)). f_equal. apply IH; [|assumption]. intros q Hq. apply Hl. now right.
  Qed.
  Lemma find_mid (f : prob -> bool) l1 p l2 : (forall q, In q l1 -> f q = false) -> f p = true -> find f (l1 ++ p :: l2) = Some p.
  Proof. intros Hl Hp. rewrite find_app. rewrite (proj2 (find_none_iff f l1) Hl). cbn [find]. now rewrite Hp. Qed.

  Lemma remove_running_none U n R (tk : ptask adfdata) : no_running U n R -> t_owner tk = U -> t_pname tk = n ->
    remove_running R tk = R.
  Proof.
    intros Hr Ho Hn. unfold remove_running. induction R as [|x R IH]; [reflexivity|]. cbn [filter].
    rewrite IH by (intros y Hy; apply Hr; now right).
    destruct x as [[u m] t]. cbn [fst snd]. rewrite Ho, Hn.
    destruct (str_eqb u U) eqn:E1; [|reflexivity]. destruct (str_eqb m n) eqn:E2; [|reflexivity].
    apply str_eqb_eq in E1, E2. subst u m. exfalso. apply (Hr (U, n, t)); [now left|reflexivity].
  Qed.
  Lemma remove_running_solve_cons U n st st' R code pg (a : option adfdata) :
    remove_running ((U, n, TSolve st') :: R) (mkT U n (TSolve st) code pg a) =
    if strategy_eqb st' st then remove_running R (mkT U n (TSolve st) code pg a)
    else (U, n, TSolve st') :: remove_running R (mkT U n (TSolve st) code pg a).
  Proof.
    unfold remove_running. cbn [filter fst snd t_owner t_pname t_task task_eqb]. rewrite !str_eqb_refl. cbn [andb].
    destruct (strategy_eqb st' st); reflexivity.
  Qed.

  (** the task a solve request starts *)
  Definition solve_task (U n : str) (st : strategy) (P : prob) (d : adfdata) : ptask adfdata :=
    mkT U n (TSolve st) (p_code P) (p_parsing P) (Some d).

  Lemma solve_started (s' : state) c U n l1 l2 (P : prob) d st :
    filters_ok tbl = true -> identity s' c = Some U -> probs s' = l1 ++ P :: l2 -> no_problem U n l1 ->
    p_owner P = U -> p_name P = n -> p_adf P = OSome d -> (forall a, res_of P st <> OSome a) ->
    (forall x, In x (running s') -> fst x = (U, n) -> snd x <> TSolve st) ->
    handle s' c (RSolve n st) =
      (mkSt (users s') (probs s') ((U, n, TSolve st) :: running s') (pending s' ++ [solve_task U n st P d]) (sessions s'), (200, PNone)).
  Proof.
    intros Hok Hid Hp Hl Ho Hn Hadf Hnew Hr.
    destruct (filters_ok_inv tbl Hok) as (_ & _ & (Hsf1 & Hsf2) & _).
    assert (Ef : find (pmatch (ft_solve_find tbl) U n) (probs s') = Some P).
    { rewrite Hp. apply find_mid; [now apply no_problem_pmatch|now apply pmatch_self]. }
    assert (Ex : existsb (fun t : str * str * task => str_eqb (fst (fst t)) U && str_eqb (snd (fst t)) n && task_eqb (snd t) (TSolve st)) (running s') = false).
    { apply existsb_false_iff. intros [[u m] t] Hx. cbn [fst snd].
      destruct (str_eqb u U) eqn:E1; [|reflexivity]. destruct (str_eqb m n) eqn:E2; [|reflexivity]. cbn [andb].
      destruct (task_eqb t (TSolve st)) eqn:E3; [|reflexivity].
      apply str_eqb_eq in E1, E2. apply task_eqb_eq in E3. exfalso. apply (Hr _ Hx); cbn [fst snd]; congruence. }
    cbn [Model.handle]. rewrite Hid, Ef, Hadf, Ex.
    destruct (res_of P st) as [| |a] eqn:Er; [reflexivity|reflexivity|now elim (Hnew a)].
  Qed.

  Lemma get_mid (s' : state) c U n l1 l2 (Pf : prob) : filters_ok tbl = true -> identity s' c = Some U ->
    probs s' = l1 ++ Pf :: l2 -> no_problem U n l1 -> p_owner Pf = U -> p_name Pf = n -> no_running U n (running s') ->
    find (pmatch (ft_get_find tbl) U n) (probs s') = Some Pf /\
    handle s' c (RGet n) = (s', (200, PProblem (mkInfo n (p_code Pf) (p_parsing Pf) (p_parse Pf) (p_res Pf) []))).
  Proof.
    intros Hok Hid Hp Hl Ho Hn Hr. destruct (filters_ok_inv tbl Hok) as (_ & _ & _ & _ & (Hg1 & Hg2) & _).
    assert (Ef : find (pmatch (ft_get_find tbl) U n) (probs s') = Some Pf).
    { rewrite Hp. apply find_mid; [now apply no_problem_pmatch|now apply pmatch_self]. }
    split; [exact Ef|]. cbn [Model.handle]. rewrite Hid, Ef. unfold info_of. rewrite Ho, Hn.
    now rewrite (no_running_info U n _ Hr).
  Qed.

  (** the completion (no timeout, the library answers) of a solve task whose problem is the first one named (U, n) *)
  Lemma complete_solve_at (s' : state) i U n st code pg d a pre post l1 (P : prob) l2 :
    filters_ok tbl = true -> i = length pre -> pending s' = pre ++ mkT U n (TSolve st) code pg (Some d) :: post ->
    probs s' = l1 ++ P :: l2 -> no_problem U n l1 -> p_owner P = U -> p_name P = n -> lib_solve d st = Done a ->
    complete s' i false =
      mkSt (users s') (l1 ++ set_res P st (OSome a) :: l2)
           (remove_running (running s') (mkT U n (TSolve st) code pg (Some d))) (pre ++ post) (sessions s').
  Proof.
    intros Hok -> Hpend Hprobs Hl Ho Hn Hsol. destruct (filters_ok_inv tbl Hok) as (_ & _ & _ & (Hsc1 & Hsc2) & _).
    rewrite (complete_eq s' (length pre) false (mkT U n (TSolve st) code pg (Some d))) by (rewrite Hpend; apply nth_error_mid).
    unfold tk_keys, tk_upd, tk_keep, tk_outcome_solve. cbn [t_task t_adf t_owner t_pname]. rewrite Hsol.
    cbn [res_of_outcome Isolation.keep_of]. rewrite Hpend, drop_nth_mid, Hprobs.
    rewrite update_first_mid; [reflexivity|now apply no_problem_pmatch|now apply pmatch_self].
  Qed.

  Section OverlappingSolves.
    Variables (s : state) (c : nat) (U n : str) (l1 l2 : list prob) (P : prob) (d : adfdata).
    Variables (st1 st2 : strategy) (a1 a2 : answers).
    Hypothesis Hok : filters_ok tbl = true.
    Hypothesis Hid : identity s c = Some U.
    (** [P] is the document the filters (owner U, name n) select: the first one of that owner and name *)
    Hypothesis Hprobs : probs s = l1 ++ P :: l2.
    Hypothesis Hfirst : no_problem U n l1.
    Hypothesis HPo : p_owner P = U.
    Hypothesis HPn : p_name P = n.
    (** it has been parsed *)
    Hypothesis HPadf : p_adf P = OSome d.
    (** nothing is running for it *)
    Hypothesis Hrun : no_running U n (running s).
    Hypothesis Hst : st1 <> st2.
    (** neither strategy has a stored answer yet (a stored error does not block a new solve) *)
    Hypothesis Hnew1 : forall a, res_of P st1 <> OSome a.
    Hypothesis Hnew2 : forall a, res_of P st2 <> OSome a.
    Hypothesis Hsol1 : lib_solve d st1 = Done a1.
    Hypothesis Hsol2 : lib_solve d st2 = Done a2.

    Let k := length (pending s).
    Let tk1 := solve_task U n st1 P d.
    Let tk2 := solve_task U n st2 P d.
    Let e1 : str * str * task := (U, n, TSolve st1).
    Let e2 : str * str * task := (U, n, TSolve st2).
    Let s1 : state := mkSt (users s) (probs s) (e1 :: running s) (pending s ++ [tk1]) (sessions s).
    Let s2 : state := mkSt (users s) (probs s) (e2 :: e1 :: running s) ((pending s ++ [tk1]) ++ [tk2]) (sessions s).
    Let PA : prob := set_res (set_res P st1 (OSome a1)) st2 (OSome a2).
    Let PB : prob := set_res (set_res P st2 (OSome a2)) st1 (OSome a1).
    Set Default Proof Using "All".

    Lemma solve1_ok : handle s c (RSolve n st1) = (s1, (200, PNone)).
    Proof.
      apply (solve_started s c U n l1 l2 P d st1); try assumption.
      intros x Hx Hfx. exfalso. exact (Hrun x Hx Hfx).
    Qed.
    Lemma solve2_ok : handle s1 c (RSolve n st2) = (s2, (200, PNone)).
    Proof.
      apply (solve_started s1 c U n l1 l2 P d st2); try assumption.
      intros x [<-|Hx] Hfx; [cbn [snd e1]; congruence|]. exfalso. exact (Hrun x Hx Hfx).
    Qed.

    Lemma strat12 : strategy_eqb st1 st2 = false /\ strategy_eqb st2 st1 = false.
    Proof. split; apply strategy_eqb_neq; congruence. Qed.

    (** order A: the task of [st1] ends first *)
    Lemma completeA1 : complete s2 k false =
      mkSt (users s) (l1 ++ set_res P st1 (OSome a1) :: l2) (e2 :: running s) (pending s ++ [tk2]) (sessions s).
    Proof.
      destruct strat12 as [E12 E21].
      rewrite (complete_solve_at s2 k U n st1 (p_code P) (p_parsing P) d a1 (pending s) [tk2] l1 P l2); try assumption; try reflexivity.
      - cbn [users running sessions s2]. unfold e2, e1. rewrite !remove_running_solve_cons, E21, strategy_eqb_refl.
        now rewrite (remove_running_none U n (running s)).
      - cbn [pending s2]. now rewrite <- app_assoc.
    Qed.
    Lemma completeA2 : complete (complete s2 k false) k false = with_probs s (l1 ++ PA :: l2).
    Proof.
      rewrite completeA1.
      rewrite (complete_solve_at _ k U n st2 (p_code P) (p_parsing P) d a2 (pending s) [] l1 (set_res P st1 (OSome a1)) l2);
        try assumption; try reflexivity.
      cbn [users running sessions]. unfold e2. rewrite remove_running_solve_cons, strategy_eqb_refl.
      rewrite (remove_running_none U n (running s)) by (assumption || reflexivity). now rewrite app_nil_r.
    Qed.
    (** order B: the task of [st2] ends first *)
    Lemma completeB1 : complete s2 (S k) false =
      mkSt (users s) (l1 ++ set_res P st2 (OSome a2) :: l2) (e1 :: running s) (pending s ++ [tk1]) (sessions s).
    Proof.
      destruct strat12 as [E12 E21].
      rewrite (complete_solve_at s2 (S k) U n st2 (p_code P) (p_parsing P) d a2 (pending s ++ [tk1]) [] l1 P l2); try assumption; try reflexivity.
      - cbn [users running sessions s2]. unfold e2, e1. rewrite !remove_running_solve_cons, E12, strategy_eqb_refl.
        rewrite (remove_running_none U n (running s)) by (assumption || reflexivity). now rewrite app_nil_r.
      - rewrite app_length. cbn [length]. unfold k. lia.
    Qed.
    Lemma completeB2 : complete (complete s2 (S k) false) k false = with_probs s (l1 ++ PB :: l2).
    Proof.
      rewrite completeB1.
      rewrite (complete_solve_at _ k U n st1 (p_code P) (p_parsing P) d a1 (pending s) [] l1 (set_res P st2 (OSome a2)) l2);
        try assumption; try reflexivity.
      cbn [users running sessions]. unfold e1. rewrite remove_running_solve_cons, strategy_eqb_refl.
      rewrite (remove_running_none U n (running s)) by (assumption || reflexivity). now rewrite app_nil_r.
    Qed.

    Lemma stored_in (Pf : prob) : Pf = PA \/ Pf = PB ->
      res_of Pf st1 = OSome a1 /\ res_of Pf st2 = OSome a2 /\
      (forall st, st <> st1 -> st <> st2 -> res_of Pf st = res_of P st) /\
      p_name Pf = n /\ p_owner Pf = U /\ p_code Pf = p_code P /\ p_parsing Pf = p_parsing P /\
      p_adf Pf = OSome d /\ p_parse Pf = p_parse P.
    Proof.
      destruct strat12 as [E12 E21].
      intros [-> | ->]; unfold PA, PB; rewrite !res_of_set_res, ?E12, ?E21, !strategy_eqb_refl;
        (repeat split; try assumption);
        intros st H1 H2; rewrite !res_of_set_res, (strategy_eqb_neq st1 st), (strategy_eqb_neq st2 st) by congruence; reflexivity.
    Qed.

    Lemma final_get (Pf : prob) : Pf = PA \/ Pf = PB ->
      let sf := with_probs s (l1 ++ Pf :: l2) in
      no_running U n (running sf) /\ pending sf = pending s /\
      find (pmatch (ft_get_find tbl) U n) (probs sf) = Some Pf /\
      handle sf c (RGet n) = (sf, (200, PProblem (mkInfo n (p_code P) (p_parsing P) (p_parse P) (p_res Pf) []))).
    Proof.
      intros HPf sf. destruct (stored_in Pf HPf) as (_ & _ & _ & Hn' & Ho' & Hc' & Hpg' & _ & Hpa').
      split; [exact Hrun|]. split; [reflexivity|].
      destruct (get_mid sf c U n l1 l2 Pf Hok Hid eq_refl Hfirst Ho' Hn' Hrun) as [Ef Eg].
      split; [exact Ef|]. rewrite Eg, Hc', Hpg', Hpa'. reflexivity.
    Qed.

    (** Both results are stored, exactly as the library returned them for the stored diagram, whichever
        task ends first; the rest of the state is what it was before the two requests; GET returns them. *)
    Theorem overlapping_solves_both_stored :
      let r1 := handle s c (RSolve n st1) in
      let r2 := handle (fst r1) c (RSolve n st2) in
      let sA := complete (complete (fst r2) k false) k false in          (* the task of st1 ends first *)
      let sB := complete (complete (fst r2) (S k) false) k false in      (* the task of st2 ends first *)
      snd r1 = (200, PNone) /\ snd r2 = (200, PNone) /\
      nth_error (pending (fst r2)) k = Some (solve_task U n st1 P d) /\
      nth_error (pending (fst r2)) (S k) = Some (solve_task U n st2 P d) /\
      In (U, n, TSolve st1) (running (fst r2)) /\ In (U, n, TSolve st2) (running (fst r2)) /\
      sA = with_probs s (l1 ++ set_res (set_res P st1 (OSome a1)) st2 (OSome a2) :: l2) /\
      sB = with_probs s (l1 ++ set_res (set_res P st2 (OSome a2)) st1 (OSome a1) :: l2) /\
      state_equiv sA sB /\
      forall sf, sf = sA \/ sf = sB ->
        no_running U n (running sf) /\ pending sf = pending s /\ users sf = users s /\ sessions sf = sessions s /\
        exists Pf, probs sf = l1 ++ Pf :: l2 /\
          find (pmatch (ft_get_find tbl) U n) (probs sf) = Some Pf /\
          res_of Pf st1 = OSome a1 /\ res_of Pf st2 = OSome a2 /\
          (forall st, st <> st1 -> st <> st2 -> res_of Pf st = res_of P st) /\
          p_adf Pf = OSome d /\
          handle sf c (RGet n) = (sf, (200, PProblem (mkInfo n (p_code P) (p_parsing P) (p_parse P) (p_res Pf) []))).
    Proof.
      intros r1 r2 sA sB.
      assert (E1 : r1 = (s1, (200, PNone))) by apply solve1_ok.
      assert (E2 : r2 = (s2, (200, PNone))) by (unfold r2; rewrite E1; apply solve2_ok).
      assert (EA : sA = with_probs s (l1 ++ PA :: l2)) by (unfold sA; rewrite E2; apply completeA2).
      assert (EB : sB = with_probs s (l1 ++ PB :: l2)) by (unfold sB; rewrite E2; apply completeB2).
      clearbody sA sB r2. clearbody r1. subst r1 r2. cbn [fst snd].
      split; [reflexivity|]. split; [reflexivity|].
      split; [cbn [pending s2]; rewrite <- app_assoc; apply nth_error_mid|].
      split; [cbn [pending s2]; replace (S k) with (length (pending s ++ [tk1])) by (rewrite app_length; cbn [length]; unfold k; lia);
              apply nth_error_app_last|].
      split; [cbn [running s2]; right; now left|]. split; [cbn [running s2]; now left|].
      split; [exact EA|]. split; [exact EB|]. split.
      - rewrite EA, EB. unfold state_equiv, with_probs. cbn [users probs running pending sessions]. repeat split.
        apply Forall2_app; [apply Forall2_refl_of; apply prob_equiv_refl|].
        constructor; [now apply set_res_swap|apply Forall2_refl_of; apply prob_equiv_refl].
      - intros sf Hsf.
        assert (H : exists Pf, (Pf = PA \/ Pf = PB) /\ sf = with_probs s (l1 ++ Pf :: l2)).
        { destruct Hsf as [-> | ->]; [exists PA|exists PB]; split; auto. }
        destruct H as (Pf & HPf & ->). destruct (final_get Pf HPf) as (F1 & F2 & F3 & F4).
        destruct (stored_in Pf HPf) as (R1 & R2 & R3 & _ & _ & _ & _ & Hadf & _).
        split; [exact F1|]. split; [exact F2|]. split; [reflexivity|]. split; [reflexivity|].
        exists Pf. repeat split; assumption.
    Qed.

    (** Finding: the two final states are never EQUAL.  The model keeps the results in an association
        list in the order of completion, and GET returns that list; the server keeps them in a record
        with one field per strategy (acs_per_strategy), so only [res_of] is meaningful. *)
    Theorem overlapping_order_observable :
      let s2' := fst (handle (fst (handle s c (RSolve n st1))) c (RSolve n st2)) in
      let sA := complete (complete s2' k false) k false in
      let sB := complete (complete s2' (S k) false) k false in
      sA <> sB /\ probs sA <> probs sB /\ snd (handle sA c (RGet n)) <> snd (handle sB c (RGet n)).
    Proof.
      intros s2' sA sB.
      assert (E2 : s2' = s2) by (unfold s2'; rewrite solve1_ok; cbn [fst]; now rewrite solve2_ok).
      assert (EA : sA = with_probs s (l1 ++ PA :: l2)) by (unfold sA; rewrite E2; apply completeA2).
      assert (EB : sB = with_probs s (l1 ++ PB :: l2)) by (unfold sB; rewrite E2; apply completeB2).
      clearbody sA sB s2'.
      assert (Hne : PA <> PB) by (apply set_res_swap_neq; exact Hst).
      assert (Hp : probs sA <> probs sB).
      { rewrite EA, EB. cbn [with_probs probs]. intros H. apply app_inv_head in H. apply Hne. congruence. }
      split; [intros H; apply Hp; now rewrite H|]. split; [exact Hp|].
      destruct (final_get PA (or_introl eq_refl)) as (_ & _ & _ & GA). destruct (final_get PB (or_intror eq_refl)) as (_ & _ & _ & GB).
      rewrite EA, EB. cbv zeta in GA, GB. rewrite GA, GB. cbn [snd]. intros H.
      assert (H' : p_res PA = p_res PB) by congruence.
      unfold PA, PB, set_res in H'. cbn [p_res] in H'. congruence.
    Qed.

    (** the problem had no result yet (as after add): the stored lists, in full *)
    Corollary overlapping_solves_fresh : p_res P = [] ->
      p_res PA = [(st2, OSome a2); (st1, OSome a1)] /\ p_res PB = [(st1, OSome a1); (st2, OSome a2)].
    Proof.
      destruct strat12 as [E12 E21].
      intros H. unfold PA, PB, set_res. cbn [p_res filter fst]. rewrite H, E12, E21. split; reflexivity.
    Qed.

    (** the same on histories, with every answer *)
    Corollary overlapping_solves_history :
      let hA := [EReq c (RSolve n st1); EReq c (RSolve n st2); EComplete k false; EComplete k false; EReq c (RGet n)] in
      let hB := [EReq c (RSolve n st1); EReq c (RSolve n st2); EComplete (S k) false; EComplete k false; EReq c (RGet n)] in
      run_events s hA =
        (with_probs s (l1 ++ PA :: l2),
         [Some (200, PNone); Some (200, PNone); None; None;
          Some (200, PProblem (mkInfo n (p_code P) (p_parsing P) (p_parse P) (p_res PA) []))]) /\
      run_events s hB =
        (with_probs s (l1 ++ PB :: l2),
         [Some (200, PNone); Some (200, PNone); None; None;
          Some (200, PProblem (mkInfo n (p_code P) (p_parsing P) (p_parse P) (p_res PB) []))]).
    Proof.
      destruct (final_get PA (or_introl eq_refl)) as (_ & _ & _ & GA). destruct (final_get PB (or_intror eq_refl)) as (_ & _ & _ & GB).
      cbv zeta in GA, GB.
      split; cbn [Model.run_events Model.step]; rewrite solve1_ok, solve2_ok.
      - rewrite completeA2, GA. reflexivity.
      - rewrite completeB2, GB. reflexivity.
    Qed.
  End OverlappingSolves.
End Overlap.

(** * 4. Computed examples on a toy library *)
Module OverlapConcrete.
  Import Concrete.
  (** the answer names the strategy (so that the two results can be told apart) *)
  Definition scode (st : strategy) : N :=
    match st with SGround => 1 | SComplete => 2 | SStable => 3 | SStableCountingA => 4 | SStableCountingB => 5 | SStableNogood => 6 end.
  Definition osolve (_ : unit) (st : strategy) : outcome str := Done [scode st].
  Definition orun (es : list event) := run_events unit str cparse osolve cdigest table_full true s0 es.
  Definition ostate es := fst (orun es).
  Definition oresp es := snd (orun es).
  Definition ocomplete := Model.complete unit str cparse osolve table_full true.
  Definition ohandle := Model.handle unit str cdigest table_full.

  (** register, log in, add p (code X), the parse ends, solve p ground, solve p stable: both started *)
  Definition prefix : list event :=
    [EReq 0 (RRegister A pw); EReq 0 (RLogin A pw); EReq 0 (RAdd pn X PNaive F); EComplete 0 false;
     EReq 0 (RSolve pn SGround); EReq 0 (RSolve pn SStable)].
  Definition order_A : list event := prefix ++ [EComplete 0 false; EComplete 0 false].   (* ground ends first *)
  Definition order_B : list event := prefix ++ [EComplete 1 false; EComplete 0 false].   (* stable ends first *)
  Definition doc (rs : list (strategy * opt3 str)) : problem unit str := mkPr pn A X PNaive (OSome tt) (OSome X) rs.

  Example both_started :
    oresp prefix = [Some (200, PNone); Some (200, PNone); Some (200, PNone); None; Some (200, PNone); Some (200, PNone)] /\
    pending (ostate prefix) = [mkT A pn (TSolve SGround) X PNaive (Some tt); mkT A pn (TSolve SStable) X PNaive (Some tt)] /\
    running (ostate prefix) = [(A, pn, TSolve SStable); (A, pn, TSolve SGround)] /\
    probs (ostate prefix) = [doc []] /\
    (* a second solve for a strategy that is running is refused, and so is one for a stored result *)
    last (oresp (prefix ++ [EReq 0 (RSolve pn SGround)])) None = Some (409, PNone) /\
    last (oresp (order_A ++ [EReq 0 (RSolve pn SGround)])) None = Some (409, PNone).
  Proof. repeat split; vm_compute; reflexivity. Qed.

  Example probs_order_A : probs (ostate order_A) = [doc [(SStable, OSome [3]); (SGround, OSome [1])]].
  Proof. vm_compute. reflexivity. Qed.
  Example probs_order_B : probs (ostate order_B) = [doc [(SGround, OSome [1]); (SStable, OSome [3])]].
  Proof. vm_compute. reflexivity. Qed.

  (** "identical final probs" as worded is false: the lists hold the same results in the order of completion *)
  Example plain_equality_refuted : probs (ostate order_A) <> probs (ostate order_B) /\ ostate order_A <> ostate order_B.
  Proof.
    assert (H : probs (ostate order_A) <> probs (ostate order_B)) by (rewrite probs_order_A, probs_order_B; discriminate).
    split; [exact H|]. intros E. apply H. now rewrite E.
  Qed.

  (** ... the corrected statement: everything else is identical, and every strategy has the same result *)
  Example overlapping_orders_equivalent :
    state_equiv unit str (ostate order_A) (ostate order_B) /\
    users (ostate order_A) = users (ostate order_B) /\ running (ostate order_A) = [] /\ running (ostate order_B) = [] /\
    pending (ostate order_A) = [] /\ pending (ostate order_B) = [] /\
    (forall st, map (fun p => res_of p st) (probs (ostate order_A)) = map (fun p => res_of p st) (probs (ostate order_B))) /\
    map (fun p => (res_of p SGround, res_of p SStable, res_of p SComplete)) (probs (ostate order_A)) = [(OSome [1], OSome [3], ONone)] /\
    osolve tt SGround = Done [1] /\ osolve tt SStable = Done [3].
  Proof.
    split; [|repeat split; try (vm_compute; reflexivity); intros st; destruct st; vm_compute; reflexivity].
    unfold state_equiv. rewrite probs_order_A, probs_order_B. repeat split; try (vm_compute; reflexivity).
    constructor; [|constructor]. unfold prob_equiv, doc. cbn [p_name p_owner p_code p_parsing p_adf p_parse p_res].
    repeat split; [intros st; destruct st; reflexivity|apply perm_swap].
  Qed.

  (** GET after either order, and the same with reads inserted all over the history *)
  Example get_after_both_orders :
    last (oresp (order_A ++ [EReq 0 (RGet pn)])) None
      = Some (200, PProblem (mkInfo pn X PNaive (OSome X) [(SStable, OSome [3]); (SGround, OSome [1])] [])) /\
    last (oresp (order_B ++ [EReq 0 (RGet pn)])) None
      = Some (200, PProblem (mkInfo pn X PNaive (OSome X) [(SGround, OSome [1]); (SStable, OSome [3])] [])).
  Proof. split; vm_compute; reflexivity. Qed.

  Definition order_A_with_reads : list event :=
    [EReq 0 (RRegister A pw); EReq 0 (RLogin A pw); EReq 0 RList; EReq 0 (RAdd pn X PNaive F); EReq 0 (RGet pn); EReq 0 (RGet pn);
     EComplete 0 false; EReq 0 (RGet pn); EReq 0 (RSolve pn SGround); EReq 0 (RGet pn); EReq 1 (RGet pn); EReq 0 (RSolve pn SStable);
     EReq 0 (RGet pn); EReq 0 RList; EComplete 0 false; EReq 0 (RGet pn); EReq 0 (RGet pn); EComplete 0 false; EReq 0 (RGet pn)].
  Example repeated_gets_on_the_model :
    ostate order_A_with_reads = ostate order_A /\
    (* the answers of the requests that are not reads are those of the history without reads *)
    map (fun i => nth i (oresp order_A_with_reads) None) [0; 1; 3; 6; 8; 11; 14; 17]%nat = oresp order_A /\
    (* the reads while both solves are running, after the first ended, after both ended *)
    nth 12 (oresp order_A_with_reads) None
      = Some (200, PProblem (mkInfo pn X PNaive (OSome X) [] [TSolve SStable; TSolve SGround])) /\
    nth 15 (oresp order_A_with_reads) None
      = Some (200, PProblem (mkInfo pn X PNaive (OSome X) [(SGround, OSome [1])] [TSolve SStable])) /\
    nth 16 (oresp order_A_with_reads) None = nth 15 (oresp order_A_with_reads) None /\
    nth 18 (oresp order_A_with_reads) None
      = Some (200, PProblem (mkInfo pn X PNaive (OSome X) [(SStable, OSome [3]); (SGround, OSome [1])] [])).
  Proof. repeat split; vm_compute; reflexivity. Qed.

  (** the general theorem applies to the computed state (its hypotheses are satisfiable) *)
  Example commute_instance :
    state_equiv unit str (ocomplete (ocomplete (ostate prefix) 0 false) (1 - 1) false) (ocomplete (ocomplete (ostate prefix) 1 false) 0 false).
  Proof.
    apply (complete_commute unit str cparse osolve table_full true (ostate prefix) 0 1 false false
             (mkT A pn (TSolve SGround) X PNaive (Some tt)) (mkT A pn (TSolve SStable) X PNaive (Some tt))); try reflexivity.
    - lia.
    - right. cbn. discriminate.
  Qed.

  (** The side condition of [complete_commute] is needed.  Two parse tasks of one problem name (delete
      and add again while the first parse is pending): the last writer wins, the two orders differ in the
      stored parse result (the toy parser answers the code itself). *)
  Definition two_parses : list event :=
    [EReq 0 (RRegister A pw); EReq 0 (RLogin A pw); EReq 0 (RAdd pn X PNaive F); EReq 0 (RDelete pn); EReq 0 (RAdd pn Y PNaive F)].
  Example two_parses_refuted :
    let s := ostate two_parses in
    pending s = [mkT A pn TParse X PNaive None; mkT A pn TParse Y PNaive None] /\
    ~ independent unit (mkT A pn TParse X PNaive None) (mkT A pn TParse Y PNaive None) /\
    probs (ocomplete (ocomplete s 0 false) (1 - 1) false) = [mkPr pn A Y PNaive (OSome tt) (OSome Y) []] /\
    probs (ocomplete (ocomplete s 1 false) 0 false) = [mkPr pn A Y PNaive (OSome tt) (OSome X) []] /\
    ~ state_equiv unit str (ocomplete (ocomplete s 0 false) (1 - 1) false) (ocomplete (ocomplete s 1 false) 0 false).
  Proof.
    cbv zeta. split; [vm_compute; reflexivity|]. split.
    - intros [H|H]; [apply H; split; reflexivity|exact H].
    - assert (E1 : probs (ocomplete (ocomplete (ostate two_parses) 0 false) (1 - 1) false) = [mkPr pn A Y PNaive (OSome tt) (OSome Y) []])
        by (vm_compute; reflexivity).
      assert (E2 : probs (ocomplete (ocomplete (ostate two_parses) 1 false) 0 false) = [mkPr pn A Y PNaive (OSome tt) (OSome X) []])
        by (vm_compute; reflexivity).
      split; [exact E1|]. split; [exact E2|].
      intros (_ & H & _). rewrite E1, E2 in H. inversion H as [|? ? ? ? Hp _]; subst.
      destruct Hp as (_ & _ & _ & _ & _ & Hparse & _). cbn in Hparse. discriminate.
  Qed.

  (** Two solve tasks for the SAME strategy of one problem: again the last writer wins.  The state is
      built by hand (diagrams are numbers, the answer is the diagram): requests cannot start the second
      task, the running entry of the first one makes RSolve answer 409 ([both_started]). *)
  Definition nsolve (d : N) (_ : strategy) : outcome str := Done [d].
  Definition ncomplete := Model.complete N str (fun _ _ => Failed) nsolve table_full true.
  Definition twice : sstate N str :=
    mkSt [] [mkPr pn A X PNaive (OSome 1) ONone []] [(A, pn, TSolve SGround)]
         [mkT A pn (TSolve SGround) X PNaive (Some 1); mkT A pn (TSolve SGround) X PNaive (Some 2)] [].
  Example same_strategy_refuted :
    ~ independent N (mkT A pn (TSolve SGround) X PNaive (Some 1)) (mkT A pn (TSolve SGround) X PNaive (Some 2)) /\
    map (fun p => res_of p SGround) (probs (ncomplete (ncomplete twice 0 false) (1 - 1) false)) = [OSome [2]] /\
    map (fun p => res_of p SGround) (probs (ncomplete (ncomplete twice 1 false) 0 false)) = [OSome [1]].
  Proof.
    split; [|split; vm_compute; reflexivity].
    intros [H|H]; [apply H; split; reflexivity|]. cbn in H. now apply H.
  Qed.

  (** RInfo is not a read of this kind: with a session that outlived its account it answers 404 and drops the session *)
  Definition stale : list event := [EReq 0 (RRegister A pw); EReq 0 (RLogin A pw); EReq 2 (RLogin A pw); EReq 0 RDelAcc].
  Example info_not_pure_refuted :
    sessions (ostate stale) = [(2%nat, A)] /\
    ohandle (ostate stale) 2 RInfo = (set_identity (ostate stale) 2 None, (404, PNone)) /\
    sessions (fst (ohandle (ostate stale) 2 RInfo)) = [] /\
    fst (ohandle (ostate stale) 2 RInfo) <> ostate stale.
  Proof.
    repeat split; try (vm_compute; reflexivity). intros H.
    assert (H' : sessions (fst (ohandle (ostate stale) 2 RInfo)) = sessions (ostate stale)) by now rewrite H.
    vm_compute in H'. discriminate.
  Qed.
End OverlapConcrete.

Print Assumptions complete_commute.
Print Assumptions complete_commute_eq.
Print Assumptions complete_commute_events.
Print Assumptions pending_after_complete.
Print Assumptions overlapping_solves_both_stored.
Print Assumptions overlapping_order_observable.
Print Assumptions overlapping_solves_fresh.
Print Assumptions overlapping_solves_history.
Print Assumptions repeated_get_pure.
Print Assumptions read_only_pure.
Print Assumptions read_only_repeat.
Print Assumptions read_only_insert.
Print Assumptions OverlapConcrete.both_started.
Print Assumptions OverlapConcrete.plain_equality_refuted.
Print Assumptions OverlapConcrete.overlapping_orders_equivalent.
Print Assumptions OverlapConcrete.get_after_both_orders.
Print Assumptions OverlapConcrete.repeated_gets_on_the_model.
Print Assumptions OverlapConcrete.commute_instance.
Print Assumptions OverlapConcrete.two_parses_refuted.
Print Assumptions OverlapConcrete.same_strategy_refuted.
Print Assumptions OverlapConcrete.info_not_pure_refuted.
