(** Credentials, isolation and web-service answers of the server model (Server/Model.v).

    A. credentials: [login_iff], [login_sets_identity], [temp_cannot_login], [stored_is_digest],
       [login_password_unique], [latest_password_update], [latest_password_register],
       [unauthenticated_no_data], [usernames_unique].
    B. isolation, for a filter table with [filters_ok tbl = true]; principals are user names:
       [handle_frame], [handle_frame_existing], [complete_frame], [step_frame], [frame_history],
       [response_contains_only_own], [response_anonymous_no_problem], [response_local],
       [response_local_anonymous], [tasks_started_by_own], [isolation], [isolation_from_s0];
       refutations on concrete histories (module [Concrete]): [isolation_rename_refuted],
       [isolation_stale_session_refuted], [orphan_problem_refuted], [isolation_subhistory_refuted],
       [stale_parse_after_readd].
    C. [Concrete.leak_without_username_key]: without the "username" key of GET the isolation fails.
    D. [stored_after_add_solve], [stored_after_failed_parse], [running_after_panic],
       [running_stale_after_panic], [running_stale_after_timeout].
    No axioms. *)
From Coq Require Import NArith List Bool Lia Arith.
From ADF Require Import Front.Parser Server.Model.
Import ListNotations.
Local Open Scope N_scope.

Local Arguments users {adfdata answers} s.
Local Arguments probs {adfdata answers} s.
Local Arguments running {adfdata answers} s.
Local Arguments pending {adfdata answers} s.
Local Arguments sessions {adfdata answers} s.
Local Arguments mkSt {adfdata answers}.
Local Arguments mkPr {adfdata answers}.
Local Arguments mkT {adfdata}.
Local Arguments mkInfo {answers}.
Local Arguments p_name {adfdata answers} p.
Local Arguments p_owner {adfdata answers} p.
Local Arguments p_code {adfdata answers} p.
Local Arguments p_parsing {adfdata answers} p.
Local Arguments p_adf {adfdata answers} p.
Local Arguments p_parse {adfdata answers} p.
Local Arguments p_res {adfdata answers} p.
Local Arguments t_owner {adfdata} p.
Local Arguments t_pname {adfdata} p.
Local Arguments t_task {adfdata} p.
Local Arguments t_code {adfdata} p.
Local Arguments t_parsing {adfdata} p.
Local Arguments t_adf {adfdata} p.
Local Arguments i_name {answers} p.
Local Arguments i_code {answers} p.
Local Arguments i_parse {answers} p.
Local Arguments i_res {answers} p.
Local Arguments i_running {answers} p.
Local Arguments identity {adfdata answers} s c.
Local Arguments set_identity {adfdata answers} s c u.
Local Arguments find_user {adfdata answers} s u.
Local Arguments pmatch {adfdata answers} keys owner name p.
Local Arguments info_of {adfdata answers} s p.
Local Arguments res_of {adfdata answers} p st.
Local Arguments set_res {adfdata answers} p st r.
Local Arguments update_first {adfdata answers} f g l.
Local Arguments delete_first {adfdata answers} f l.
Local Arguments remove_running {adfdata} l t.
Local Arguments with_users {adfdata answers} s us.
Local Arguments with_probs {adfdata answers} s ps.
Local Arguments PNone {answers}.
Local Arguments PUser {answers}.
Local Arguments PProblem {answers}.
Local Arguments PProblems {answers}.
Local Arguments s0 {adfdata answers}.

(** * strings *)
Lemma str_eqb_eq (a : str) : forall b, str_eqb a b = true <-> a = b.
Proof.
  induction a as [|x a IH]; intros [|y b]; simpl; split; intros H; try reflexivity; try discriminate.
  - apply andb_true_iff in H. destruct H as [H1 H2]. apply N.eqb_eq in H1. apply IH in H2. now subst.
  - injection H as -> ->. rewrite N.eqb_refl. simpl. now apply IH.
Qed.
Lemma str_eqb_refl a : str_eqb a a = true.
Proof. now apply str_eqb_eq. Qed.
Lemma str_eqb_neq a b : a <> b -> str_eqb a b = false.
Proof. intros H. destruct (str_eqb a b) eqn:E; [apply str_eqb_eq in E; contradiction|reflexivity]. Qed.
Lemma str_eqb_false a b : str_eqb a b = false -> a <> b.
Proof. intros H ->. rewrite str_eqb_refl in H. discriminate. Qed.
Lemma str_eqb_sym a b : str_eqb a b = str_eqb b a.
Proof.
  destruct (str_eqb a b) eqn:E.
  - apply str_eqb_eq in E. subst. now rewrite str_eqb_refl.
  - symmetry. apply str_eqb_neq. intros ->. now rewrite str_eqb_refl in E.
Qed.
Lemma str_dec (a b : str) : {a = b} + {a <> b}.
Proof. destruct (str_eqb a b) eqn:E; [left; now apply str_eqb_eq|right; now apply str_eqb_false]. Qed.

(** * lists *)
Section ListFacts.
  Context {A : Type}.
  Lemma filter_nil_all (f : A -> bool) l : (forall x, In x l -> f x = false) -> filter f l = [].
  Proof.
    induction l as [|a l IH]; simpl; intros H; [reflexivity|].
    rewrite (H a (or_introl eq_refl)). apply IH. intros x Hx. apply H. now right.
  Qed.
  Lemma filter_map_frame (P : A -> bool) (g : A -> A) l :
    (forall x, In x l -> g x = x \/ (P x = false /\ P (g x) = false)) -> filter P (map g l) = filter P l.
  Proof.
    induction l as [|a l IH]; simpl; intros H; [reflexivity|].
    rewrite IH by (intros x Hx; apply H; now right).
    destruct (H a (or_introl eq_refl)) as [E|[E1 E2]]; [now rewrite E|now rewrite E1, E2].
  Qed.
  Lemma filter_filter_frame (P Q : A -> bool) l :
    (forall x, In x l -> P x = true -> Q x = true) -> filter P (filter Q l) = filter P l.
  Proof.
    induction l as [|a l IH]; simpl; intros H; [reflexivity|].
    assert (IH' := IH (fun x Hx => H x (or_intror Hx))).
    destruct (Q a) eqn:EQ; simpl; rewrite IH'; [reflexivity|].
    destruct (P a) eqn:EP; [|reflexivity]. rewrite (H a (or_introl eq_refl) EP) in EQ. discriminate.
  Qed.
  Lemma find_filter_frame (P Q : A -> bool) l :
    (forall x, In x l -> P x = true -> Q x = true) -> find P (filter Q l) = find P l.
  Proof.
    induction l as [|a l IH]; simpl; intros H; [reflexivity|].
    assert (IH' := IH (fun x Hx => H x (or_intror Hx))).
    destruct (Q a) eqn:EQ; simpl; rewrite IH'; [reflexivity|].
    destruct (P a) eqn:EP; [|reflexivity]. rewrite (H a (or_introl eq_refl) EP) in EQ. discriminate.
  Qed.
  Lemma existsb_filter_frame (P Q : A -> bool) l :
    (forall x, In x l -> P x = true -> Q x = true) -> existsb P (filter Q l) = existsb P l.
  Proof.
    induction l as [|a l IH]; simpl; intros H; [reflexivity|].
    assert (IH' := IH (fun x Hx => H x (or_intror Hx))).
    destruct (Q a) eqn:EQ; simpl; rewrite IH'; [reflexivity|].
    destruct (P a) eqn:EP; [|reflexivity]. rewrite (H a (or_introl eq_refl) EP) in EQ. discriminate.
  Qed.
  Lemma filter_app_single (P : A -> bool) l x : P x = false -> filter P (l ++ [x]) = filter P l.
  Proof. intros H. rewrite filter_app. simpl. rewrite H. apply app_nil_r. Qed.
  Lemma find_app (P : A -> bool) l1 l2 :
    find P (l1 ++ l2) = match find P l1 with Some x => Some x | None => find P l2 end.
  Proof. induction l1 as [|a l IH]; simpl; [reflexivity|]. destruct (P a); [reflexivity|apply IH]. Qed.
  Lemma find_none_iff (P : A -> bool) l : find P l = None <-> forall x, In x l -> P x = false.
  Proof.
    split; [apply find_none|]. induction l as [|a l IH]; simpl; intros H; [reflexivity|].
    rewrite (H a (or_introl eq_refl)). apply IH. intros x Hx. apply H. now right.
  Qed.
  Lemma existsb_false_iff (P : A -> bool) l : existsb P l = false <-> forall x, In x l -> P x = false.
  Proof.
    induction l as [|a l IH]; simpl; [split; [intros _ x []|reflexivity]|].
    rewrite orb_false_iff, IH. split.
    - intros [H1 H2] x [<-|Hx]; [assumption|now apply H2].
    - intros H. split; [apply H; now left|intros x Hx; apply H; now right].
  Qed.
  Lemma find_ext_in (P Q : A -> bool) l : (forall x, In x l -> P x = Q x) -> find P l = find Q l.
  Proof.
    induction l as [|a l IH]; simpl; intros H; [reflexivity|].
    rewrite (H a (or_introl eq_refl)). destruct (Q a); [reflexivity|]. apply IH. intros x Hx. apply H. now right.
  Qed.
  Lemma filter_skip_nth (P : A -> bool) l i t :
    nth_error l i = Some t -> P t = false -> filter P (firstn i l ++ skipn (S i) l) = filter P l.
  Proof.
    revert i. induction l as [|a l IH]; intros [|i] H Ht; try discriminate.
    - simpl in *. injection H as ->. now rewrite Ht.
    - change (filter P (a :: (firstn i l ++ skipn (S i) l)) = filter P (a :: l)).
      cbn [filter]. now rewrite (IH i H Ht).
  Qed.
  Lemma in_skip_nth l i (x : A) : In x (firstn i l ++ skipn (S i) l) -> In x l.
  Proof.
    intros H. apply in_app_or in H. destruct H as [H|H].
    - rewrite <- (firstn_skipn i l). apply in_or_app. now left.
    - rewrite <- (firstn_skipn (S i) l). apply in_or_app. now right.
  Qed.
  Lemma nth_error_app_last l (t : A) : nth_error (l ++ [t]) (length l) = Some t.
  Proof. rewrite nth_error_app2 by lia. now rewrite Nat.sub_diag. Qed.
  Lemma skip_nth_app_last l (t : A) : firstn (length l) (l ++ [t]) ++ skipn (S (length l)) (l ++ [t]) = l.
  Proof.
    induction l as [|a l IH]; [reflexivity|].
    change (a :: (firstn (length l) (l ++ [t]) ++ skipn (S (length l)) (l ++ [t])) = a :: l). now rewrite IH.
  Qed.
End ListFacts.

Lemma NoDup_map_filter {A B} (f : A -> B) (g : A -> bool) l : NoDup (map f l) -> NoDup (map f (filter g l)).
Proof.
  induction l as [|a l IH]; simpl; intros H; [constructor|].
  inversion H as [|? ? Hn Hd]; subst. destruct (g a); simpl; [|now apply IH].
  constructor; [|now apply IH]. intros Hin. apply Hn. apply in_map_iff in Hin. destruct Hin as [x [E Hx]].
  apply in_map_iff. exists x. split; [assumption|]. apply filter_In in Hx. tauto.
Qed.

Lemma NoDup_snoc {A} (l : list A) a : NoDup l -> ~ In a l -> NoDup (l ++ [a]).
Proof.
  induction l as [|b l IH]; cbn [app]; intros Hnd Hn; [constructor; [intros []|constructor]|].
  inversion Hnd as [|? ? Hb Hd]; subst. constructor.
  - intros Hin. apply in_app_or in Hin. destruct Hin as [H|[H|[]]]; [contradiction|]. subst. apply Hn. now left.
  - apply IH; [assumption|]. intros H. apply Hn. now right.
Qed.

Definition status {S A : Type} (x : S * (N * A)) : N := fst (snd x).
Definition body {S A : Type} (x : S * (N * A)) : A := snd (snd x).

Section Isolation.
  Variable adfdata answers : Type.
  Variable lib_parse : str -> parsing -> outcome (adfdata * answers).
  Variable lib_solve : adfdata -> strategy -> outcome answers.
  Variable digest : str -> str.
  Variable tbl : ftable.
  Variable remove_on_panic : bool.
  Set Default Proof Using "Type".
  Ltac stauto := try clear lib_parse; try clear lib_solve; try clear digest; try clear remove_on_panic; try clear tbl; tauto.

  Notation state := (sstate adfdata answers).
  Notation prob := (problem adfdata answers).
  Notation handle := (Model.handle adfdata answers digest tbl).
  Notation complete := (Model.complete adfdata answers lib_parse lib_solve tbl remove_on_panic).
  Notation step := (Model.step adfdata answers lib_parse lib_solve digest tbl remove_on_panic).
  Notation run_events := (Model.run_events adfdata answers lib_parse lib_solve digest tbl remove_on_panic).

  (** ** sessions *)
  Lemma identity_set_same (s : state) c v : identity (set_identity s c v) c = v.
  Proof.
    unfold identity, set_identity. cbn [sessions]. destruct v as [x|].
    - cbn [find fst]. now rewrite Nat.eqb_refl.
    - rewrite (proj2 (find_none_iff _ _)); [reflexivity|].
      intros x Hx. apply filter_In in Hx. destruct Hx as [_ Hx]. now apply negb_true_iff in Hx.
  Qed.
  Lemma identity_set_other (s : state) c c' v : c' <> c -> identity (set_identity s c v) c' = identity s c'.
  Proof.
    intros Hc. unfold identity, set_identity. cbn [sessions].
    assert (E : find (fun p : nat * str => Nat.eqb (fst p) c') (filter (fun p => negb (Nat.eqb (fst p) c)) (sessions s))
                = find (fun p : nat * str => Nat.eqb (fst p) c') (sessions s)).
    { apply find_filter_frame. intros x _ Hx. apply Nat.eqb_eq in Hx. apply negb_true_iff. apply Nat.eqb_neq. congruence. }
    destruct v as [x|]; [|now rewrite E].
    cbn [find fst]. destruct (Nat.eqb c c') eqn:E2; [apply Nat.eqb_eq in E2; congruence|]. now rewrite E.
  Qed.

  (** ** A. credentials *)
  Theorem login_iff (s : state) c u p : u <> [] -> p <> [] ->
    (status (handle s c (RLogin u p)) = 200 <-> exists x, find_user s u = Some x /\ u_pw x = Some (digest p)).
  Proof.
    intros Hu Hp. unfold status. destruct u as [|u0 u]; [contradiction|]. destruct p as [|p0 p]; [contradiction|].
    cbn [Model.handle orb]. 
    destruct (find_user s (u0 :: u)) as [x|] eqn:Ef.
    - destruct (u_pw x) as [d|] eqn:Ed.
      + destruct (str_eqb d (digest (p0 :: p))) eqn:E; cbn [fst snd].
        * apply str_eqb_eq in E. subst d. split; [intros _; now exists x|reflexivity].
        * split; [discriminate|]. intros [y [Hy1 Hy2]]. injection Hy1 as <-. rewrite Hy2 in Ed. injection Ed as <-.
          now rewrite str_eqb_refl in E.
      + cbn [fst snd]. split; [discriminate|]. intros [y [Hy1 Hy2]]. injection Hy1 as <-. congruence.
    - cbn [fst snd]. split; [discriminate|]. intros [y [Hy1 _]]. discriminate.
  Qed.

  Lemma login_cases (s : state) c u p :
    handle s c (RLogin u p) = (set_identity s c (Some u), (200, PNone)) \/
    exists n, n <> 200 /\ handle s c (RLogin u p) = (s, (n, PNone)).
  Proof.
    cbn [Model.handle].
    destruct ((match u with [] => true | _ => false end) || (match p with [] => true | _ => false end));
      [right; exists 400; split; [discriminate|reflexivity]|].
    destruct (find_user s u) as [x|]; [|right; exists 404; split; [discriminate|reflexivity]].
    destruct (u_pw x) as [d|]; [|right; exists 400; split; [discriminate|reflexivity]].
    destruct (str_eqb d (digest p)); [now left|right; exists 400; split; [discriminate|reflexivity]].
  Qed.

  (** a successful login gives the browser the identity [u] and changes nothing else; a failed one changes nothing *)
  Theorem login_sets_identity (s : state) c u p :
    let s' := fst (handle s c (RLogin u p)) in
    (status (handle s c (RLogin u p)) = 200 ->
       identity s' c = Some u /\ (forall c', c' <> c -> identity s' c' = identity s c') /\
       users s' = users s /\ probs s' = probs s /\ running s' = running s /\ pending s' = pending s) /\
    (status (handle s c (RLogin u p)) <> 200 -> s' = s).
  Proof.
    intros s'. subst s'. unfold status. destruct (login_cases s c u p) as [E|[n [Hn E]]]; rewrite E; cbn [fst snd].
    - split; [intros _|intros H; now elim H].
      split; [apply identity_set_same|]. split; [intros c' Hc; now apply identity_set_other|]. now repeat split.
    - split; [intros H; contradiction|reflexivity].
  Qed.

  Theorem temp_cannot_login (s : state) c u p x :
    find_user s u = Some x -> u_pw x = None -> status (handle s c (RLogin u p)) <> 200.
  Proof.
    intros Hf Hx. unfold status. cbn [Model.handle].
    destruct ((match u with [] => true | _ => false end) || (match p with [] => true | _ => false end)); [discriminate|].
    rewrite Hf, Hx. discriminate.
  Qed.

  Theorem unauthenticated_no_data (s : state) c r : identity s c = None ->
    match r with
    | RSolve _ _ | RGet _ | RList | RDelete _ | RLogout | RInfo | RDelAcc => True
    | RUpdate u p => u <> [] /\ p <> []
    | _ => False
    end -> handle s c r = (s, (401, PNone)).
  Proof.
    intros Hid Hr. destruct r; try contradiction; cbn [Model.handle]; try (now rewrite Hid).
    destruct Hr as [Hu Hp]. destruct u; [contradiction|]. destruct p; [contradiction|]. cbn [orb]. now rewrite Hid.
  Qed.

  (** ** histories *)
  Lemma step_req (s : state) c r : fst (step s (EReq c r)) = fst (handle s c r).
  Proof. cbn [Model.step]. now destruct (handle s c r). Qed.
  Lemma step_complete (s : state) i t : fst (step s (EComplete i t)) = complete s i t.
  Proof. reflexivity. Qed.
  Lemma run_events_cons (s : state) e es : fst (run_events s (e :: es)) = fst (run_events (fst (step s e)) es).
  Proof. cbn [Model.run_events]. destruct (step s e) as [s1 x]. cbn [fst]. now destruct (run_events s1 es). Qed.
  Lemma run_events_app (s : state) es1 es2 : fst (run_events s (es1 ++ es2)) = fst (run_events (fst (run_events s es1)) es2).
  Proof.
    revert s. induction es1 as [|e es IH]; intros s; [reflexivity|].
    rewrite <- app_comm_cons, !run_events_cons. apply IH.
  Qed.
  Lemma run_events_inv (P : state -> Prop) :
    (forall s e, P s -> P (fst (step s e))) -> forall es s, P s -> P (fst (run_events s es)).
  Proof.
    intros Hstep. induction es as [|e es IH]; intros s Hs; [exact Hs|].
    rewrite run_events_cons. apply IH. now apply Hstep.
  Qed.

  (** what a completion leaves alone *)
  Ltac destruct_complete s i t :=
    unfold Model.complete;
    let tk := fresh "tk" in let Etk := fresh "Etk" in
    destruct (nth_error (pending s) i) as [tk|] eqn:Etk; [|try reflexivity];
    [destruct (t_task tk) as [|st] eqn:Etask;
     [destruct (if t then TimedOut else lib_parse (t_code tk) (t_parsing tk)) as [[a g]| | |]
     |destruct (if t then TimedOut else match t_adf tk with Some a => lib_solve a st | None => Panicked end) as [g| | |]]|..].

  Lemma users_complete (s : state) i t : users (complete s i t) = users s.
  Proof. destruct_complete s i t; reflexivity. Qed.
  Lemma sessions_complete (s : state) i t : sessions (complete s i t) = sessions s.
  Proof. destruct_complete s i t; reflexivity. Qed.

  (** how a request can change the users collection *)
  Definition rename_user (old u d : str) (x : user) : user := if str_eqb (u_name x) old then mkU u (Some d) else x.
  Inductive users_step (s : state) : list user -> Prop :=
  | us_same : users_step s (users s)
  | us_reg u p : find_user s u = None -> users_step s (users s ++ [mkU u (Some (digest p))])
  | us_tmp u : find_user s u = None -> users_step s (users s ++ [mkU u None])
  | us_ren old u p : (u = old \/ find_user s u = None) -> find_user s old <> None ->
                     users_step s (map (rename_user old u (digest p)) (users s))
  | us_del u : users_step s (filter (fun x => negb (str_eqb (u_name x) u)) (users s)).

  Lemma handle_users (s : state) c r : users_step s (users (fst (handle s c r))).
  Proof.
    Local Ltac same := (cbn [fst]; first [apply us_same | cbn; apply us_same]).
    destruct r; cbn [Model.handle].
    - destruct (_ || _); [same|]. destruct (find_user s u) eqn:E; [same|]. cbn. now constructor.
    - destruct (login_cases s c u p) as [E|[n [_ E]]]; cbn [Model.handle] in E; rewrite E; same.
    - destruct (identity s c) as [u|]; [|same]. destruct (find_user s u) as [x|]; [|same]. destruct (u_pw x); same.
    - destruct (identity s c) as [u|]; [|same]. destruct (find_user s u); same.
    - destruct (_ || _); [same|]. destruct (identity s c) as [old|]; [|same].
      destruct (str_eqb u old) eqn:E1; cbn [negb andb].
      + apply str_eqb_eq in E1. subst old. destruct (find_user s u) eqn:E2; [|same].
        cbn. apply (us_ren s u u p); [now left|congruence].
      + destruct (find_user s u) eqn:E2; [same|]. destruct (find_user s old) eqn:E3; [|same].
        cbn. apply (us_ren s old u p); [now right|congruence].
    - destruct (identity s c) as [u|]; [|same]. destruct (find_user s u); [cbn; apply us_del|same].
    - destruct code as [|c0 code]; [same|].
      destruct (identity s c) as [u|].
      + destruct name; [same|]. destruct (existsb _ _); same.
      + destruct (find_user s fresh) eqn:E; [same|].
        destruct name; [cbn; now constructor|]. destruct (existsb _ _); cbn; now constructor.
    - destruct (identity s c) as [u|]; [|same]. destruct (find _ _) as [q|]; [|same].
      destruct (p_adf q); try same. destruct (_ || _); same.
    - destruct (identity s c) as [u|]; [|same]. destruct (find _ _); same.
    - destruct (identity s c) as [u|]; same.
    - destruct (identity s c) as [u|]; [|same]. destruct (delete_first _ _) as [ps b]. destruct b; same.
  Qed.

  Lemma step_users_inv (P : list user -> Prop) :
    (forall s us, P (users s) -> users_step s us -> P us) ->
    forall s e, P (users s) -> P (users (fst (step s e))).
  Proof.
    intros H s [c r|i t] Hs.
    - rewrite step_req. apply (H s); [assumption|apply handle_users].
    - rewrite step_complete, users_complete. assumption.
  Qed.

  Lemma find_user_none (s : state) u : find_user s u = None <-> ~ In u (map u_name (users s)).
  Proof.
    unfold find_user. rewrite find_none_iff. split.
    - intros H Hin. apply in_map_iff in Hin. destruct Hin as [x [<- Hx]]. apply H in Hx. now rewrite str_eqb_refl in Hx.
    - intros H x Hx. apply str_eqb_neq. intros <-. apply H. now apply in_map.
  Qed.

  (** every stored password is a digest (or the account is temporary) *)
  Definition pw_ok (x : user) : Prop := u_pw x = None \/ exists p, u_pw x = Some (digest p).
  Theorem stored_is_digest es : Forall pw_ok (users (fst (run_events s0 es))).
  Proof.
    apply (run_events_inv (fun s => Forall pw_ok (users s))); [|constructor].
    apply (step_users_inv (Forall pw_ok)). intros s us Hs Hst. destruct Hst.
    - assumption.
    - apply Forall_app. split; [assumption|]. constructor; [right; now exists p|constructor].
    - apply Forall_app. split; [assumption|]. constructor; [now left|constructor].
    - apply Forall_forall. intros x Hx. apply in_map_iff in Hx. destruct Hx as [y [<- Hy]].
      unfold rename_user. destruct (str_eqb (u_name y) old); [right; now exists p|].
      eapply Forall_forall in Hs; eassumption.
    - apply Forall_forall. intros x Hx. apply filter_In in Hx. eapply Forall_forall in Hs; [eassumption|stauto].
  Qed.

  Lemma NoDup_rename (l : list user) old u d :
    NoDup (map u_name l) -> (u = old \/ ~ In u (map u_name l)) -> NoDup (map u_name (map (rename_user old u d) l)).
  Proof.
    intros Hnd [->|Hu].
    - replace (map u_name (map (rename_user old old d) l)) with (map u_name l); [assumption|].
      rewrite map_map. apply map_ext. intros x. unfold rename_user. destruct (str_eqb (u_name x) old) eqn:E; [|reflexivity].
      apply str_eqb_eq in E. now rewrite E.
    - induction l as [|a l IH]; [constructor|]. cbn [map] in *. inversion Hnd as [|? ? Hn Hd]; subst.
      assert (Hu' : ~ In u (map u_name l)) by (intros H; apply Hu; now right).
      constructor; [|now apply IH].
      intros Hin. apply in_map_iff in Hin. destruct Hin as [y [Ey Hy]]. apply in_map_iff in Hy. destruct Hy as [z [<- Hz]].
      unfold rename_user in Ey. destruct (str_eqb (u_name a) old) eqn:Ea; destruct (str_eqb (u_name z) old) eqn:Ez; cbn [u_name] in Ey.
      + apply str_eqb_eq in Ea, Ez. apply Hn. rewrite Ea, <- Ez. now apply in_map.
      + apply Hu'. rewrite <- Ey. now apply in_map.
      + apply Hu. left. now symmetry.
      + apply Hn. rewrite <- Ey. now apply in_map.
  Qed.

  Theorem usernames_unique es : NoDup (map u_name (users (fst (run_events s0 es)))).
  Proof.
    apply (run_events_inv (fun s => NoDup (map u_name (users s)))); [|constructor].
    apply (step_users_inv (fun us => NoDup (map u_name us))). intros s us Hs Hst. destruct Hst as [|u p Hf|u Hf|old u p Hu Ho|u].
    - assumption.
    - rewrite map_app. cbn [map u_name]. apply find_user_none in Hf.
      now apply NoDup_snoc.
    - rewrite map_app. cbn [map u_name]. apply find_user_none in Hf.
      now apply NoDup_snoc.
    - apply NoDup_rename; [assumption|]. destruct Hu as [Hu|Hu]; [now left|right; now apply find_user_none].
    - now apply NoDup_map_filter.
  Qed.

  (** ** the password most recently set *)
  Lemma find_rename (l : list user) old u d :
    (u = old \/ find (fun x => str_eqb (u_name x) u) l = None) -> find (fun x => str_eqb (u_name x) old) l <> None ->
    find (fun x => str_eqb (u_name x) u) (map (rename_user old u d) l) = Some (mkU u (Some d)).
  Proof.
    induction l as [|a l IH]; cbn [map find]; intros Hu Ho; [congruence|].
    destruct (str_eqb (u_name a) old) eqn:Ea.
    - replace (rename_user old u d a) with (mkU u (Some d)) by (unfold rename_user; now rewrite Ea).
      cbn [u_name]. now rewrite str_eqb_refl.
    - replace (rename_user old u d a) with a by (unfold rename_user; now rewrite Ea).
      assert (Hau : str_eqb (u_name a) u = false).
      { destruct Hu as [->|Hu]; [assumption|]. destruct (str_eqb (u_name a) u); [discriminate|reflexivity]. }
      rewrite Hau. apply IH; [|assumption]. destruct Hu as [->|Hu]; [now left|right]. now rewrite Hau in Hu.
  Qed.

  Lemma update_ok_inv (s : state) c u p : status (handle s c (RUpdate u p)) = 200 ->
    exists old, identity s c = Some old /\ (u = old \/ find_user s u = None) /\ find_user s old <> None /\ u <> [] /\ p <> [] /\
      handle s c (RUpdate u p) =
      (set_identity (mkSt (map (rename_user old u (digest p)) (users s))
                          (map (fun q => if pmatch (ft_update_many tbl) old [] q
                                         then mkPr (p_name q) u (p_code q) (p_parsing q) (p_adf q) (p_parse q) (p_res q) else q) (probs s))
                          (running s) (pending s) (sessions s)) c (Some u), (200, PUser u false)).
  Proof.
    unfold status. cbn [Model.handle].
    destruct u as [|u0 u]; [discriminate|]. destruct p as [|p0 p]; [discriminate|]. cbn [orb].
    destruct (identity s c) as [old|]; [|discriminate]. intros H. exists old.
    destruct (str_eqb (u0 :: u) old) eqn:E1; cbn [negb andb] in *.
    - apply str_eqb_eq in E1. subst old. destruct (find_user s (u0 :: u)) eqn:E2; [|discriminate].
      repeat split; try discriminate. now left.
    - destruct (find_user s (u0 :: u)) eqn:E2; [discriminate|]. destruct (find_user s old) eqn:E3; [|discriminate].
      repeat split; try discriminate. now right.
  Qed.

  Theorem update_sets_password (s : state) c u p : status (handle s c (RUpdate u p)) = 200 ->
    let s' := fst (handle s c (RUpdate u p)) in
    find_user s' u = Some (mkU u (Some (digest p))) /\ identity s' c = Some u.
  Proof.
    intros H. destruct (update_ok_inv s c u p H) as [old [Hid [Hu [Ho [_ [_ E]]]]]]. rewrite E. cbn [fst]. split.
    - unfold find_user. cbn [set_identity users]. apply find_rename; assumption.
    - apply identity_set_same.
  Qed.

  Lemma register_ok_inv (s : state) c u p : status (handle s c (RRegister u p)) = 200 ->
    find_user s u = None /\ u <> [] /\ p <> [] /\
    handle s c (RRegister u p) = (with_users s (users s ++ [mkU u (Some (digest p))]), (200, PNone)).
  Proof.
    unfold status. cbn [Model.handle].
    destruct u as [|u0 u]; [discriminate|]. destruct p as [|p0 p]; [discriminate|]. cbn [orb].
    destruct (find_user s (u0 :: u)) eqn:E; [discriminate|]. intros _. repeat split; discriminate.
  Qed.

  Theorem register_sets_password (s : state) c u p : status (handle s c (RRegister u p)) = 200 ->
    find_user (fst (handle s c (RRegister u p))) u = Some (mkU u (Some (digest p))).
  Proof.
    intros H. destruct (register_ok_inv s c u p H) as [Hf [_ [_ E]]]. rewrite E. cbn [fst].
    unfold find_user in *. cbn [with_users users]. rewrite find_app, Hf. cbn [find u_name]. now rewrite str_eqb_refl.
  Qed.

  Section Injective.
  Hypothesis Hinj : forall p q, digest p = digest q -> p = q.

  (** at most one password opens an account *)
  Theorem login_password_unique (s : state) c c' u p p' :
    status (handle s c (RLogin u p)) = 200 -> status (handle s c' (RLogin u p')) = 200 -> p = p'.
  Proof using Hinj.
    intros H1 H2.
    assert (Hne : forall c p, status (handle s c (RLogin u p)) = 200 -> u <> [] /\ p <> []).
    { clear. intros c p. unfold status. cbn [Model.handle]. destruct u; [discriminate|]. destruct p; [discriminate|]. split; discriminate. }
    destruct (Hne _ _ H1) as [Hu Hp]. destruct (Hne _ _ H2) as [_ Hp'].
    apply login_iff in H1; try assumption. apply login_iff in H2; try assumption.
    destruct H1 as [x [Hx1 Hx2]]. destruct H2 as [y [Hy1 Hy2]]. rewrite Hx1 in Hy1. injection Hy1 as <-.
    rewrite Hx2 in Hy2. injection Hy2 as Hd. now apply Hinj.
  Qed.

  (** after a successful update (rename and/or new password) exactly the new password opens the account *)
  Theorem latest_password_update (s : state) c u p c' p' : status (handle s c (RUpdate u p)) = 200 -> p' <> [] ->
    (status (handle (fst (handle s c (RUpdate u p))) c' (RLogin u p')) = 200 <-> p' = p).
  Proof using Hinj.
    intros H Hp'. destruct (update_sets_password s c u p H) as [Hf _].
    destruct (update_ok_inv s c u p H) as [_ [_ [_ [_ [Hu _]]]]].
    rewrite login_iff by assumption. rewrite Hf. split.
    - intros [x [Hx1 Hx2]]. injection Hx1 as <-. cbn [u_pw] in Hx2. injection Hx2 as Hd. symmetry. now apply Hinj.
    - intros ->. eexists. split; reflexivity.
  Qed.
  Theorem latest_password_register (s : state) c u p c' p' : status (handle s c (RRegister u p)) = 200 -> p' <> [] ->
    (status (handle (fst (handle s c (RRegister u p))) c' (RLogin u p')) = 200 <-> p' = p).
  Proof using Hinj.
    intros H Hp'. assert (Hf := register_sets_password s c u p H).
    destruct (register_ok_inv s c u p H) as [_ [Hu _]].
    rewrite login_iff by assumption. rewrite Hf. split.
    - intros [x [Hx1 Hx2]]. injection Hx1 as <-. cbn [u_pw] in Hx2. injection Hx2 as Hd. symmetry. now apply Hinj.
    - intros ->. eexists. split; reflexivity.
  Qed.
  End Injective.

  (** ** B. isolation: frame theorems *)
  Definition owned (U : str) (s : state) : list prob := filter (fun p => str_eqb (p_owner p) U) (probs s).
  Definition running_of (U : str) (s : state) := filter (fun t : str * str * task => str_eqb (fst (fst t)) U) (running s).
  Definition pending_of (U : str) (s : state) := filter (fun t : ptask adfdata => str_eqb (t_owner t) U) (pending s).

  (** the request, if it succeeds, creates an account named [U] (or renames one to [U]) *)
  Definition takes_name (s : state) (c : nat) (r : request) (U : str) : Prop :=
    match r with
    | RRegister u _ => u = U
    | RUpdate u _ => u = U
    | RAdd _ _ _ fresh => identity s c = None /\ fresh = U
    | _ => False
    end.

  (** what a step that is not [U]'s leaves alone: [U]'s problems, account record, running entries,
      pending tasks, and the sessions of [U]'s browsers *)
  Definition frame (U : str) (s s' : state) : Prop :=
    owned U s' = owned U s /\ find_user s' U = find_user s U /\ running_of U s' = running_of U s /\
    pending_of U s' = pending_of U s /\ (forall c', identity s c' = Some U -> identity s' c' = Some U).

  Lemma frame_refl U s : frame U s s.
  Proof. unfold frame. repeat split; trivial. Qed.
  Lemma frame_trans U s1 s2 s3 : frame U s1 s2 -> frame U s2 s3 -> frame U s1 s3.
  Proof.
    intros (A1 & A2 & A3 & A4 & A5) (B1 & B2 & B3 & B4 & B5). unfold frame.
    rewrite B1, B2, B3, B4, A1, A2, A3, A4. repeat split. intros c' H. apply B5, A5, H.
  Qed.

  Lemma filters_ok_inv : filters_ok tbl = true ->
    (has FUser (ft_add_exists tbl) = true /\ has FName (ft_add_exists tbl) = true) /\
    (has FUser (ft_add_complete tbl) = true /\ has FName (ft_add_complete tbl) = true) /\
    (has FUser (ft_solve_find tbl) = true /\ has FName (ft_solve_find tbl) = true) /\
    (has FUser (ft_solve_complete tbl) = true /\ has FName (ft_solve_complete tbl) = true) /\
    (has FUser (ft_get_find tbl) = true /\ has FName (ft_get_find tbl) = true) /\
    (has FUser (ft_delete_one tbl) = true /\ has FName (ft_delete_one tbl) = true) /\
    has FUser (ft_list_find tbl) = true /\ has FUser (ft_delacc_many tbl) = true /\ has FUser (ft_update_many tbl) = true.
  Proof. unfold filters_ok. rewrite !andb_true_iff. stauto. Qed.

  Lemma pmatch_owner keys o n (q : prob) : has FUser keys = true -> pmatch keys o n q = true -> p_owner q = o.
  Proof.
    intros Hk H. unfold pmatch in H. rewrite Hk in H. cbn [negb orb] in H.
    apply andb_true_iff in H. destruct H as [H _]. now apply str_eqb_eq.
  Qed.
  Lemma pmatch_full keys o n (q : prob) : has FUser keys = true -> has FName keys = true ->
    pmatch keys o n q = str_eqb (p_owner q) o && str_eqb (p_name q) n.
  Proof. intros H1 H2. unfold pmatch. now rewrite H1, H2. Qed.
  Lemma pmatch_other keys o n (q : prob) U : has FUser keys = true -> o <> U -> pmatch keys o n q = true -> str_eqb (p_owner q) U = false.
  Proof. intros Hk Ho H. apply pmatch_owner in H; [|assumption]. apply str_eqb_neq. congruence. Qed.

  Lemma update_first_frame (P f : prob -> bool) g l :
    (forall x, f x = true -> P x = false /\ P (g x) = false) -> filter P (update_first f g l) = filter P l.
  Proof.
    intros H. induction l as [|a l IH]; [reflexivity|]. cbn [update_first]. destruct (f a) eqn:E.
    - cbn [filter]. destruct (H a E) as [H1 H2]. now rewrite H1, H2.
    - cbn [filter]. now rewrite IH.
  Qed.
  Lemma delete_first_frame (P f : prob -> bool) l :
    (forall x, f x = true -> P x = false) -> filter P (fst (delete_first f l)) = filter P l.
  Proof.
    intros H. induction l as [|a l IH]; [reflexivity|]. cbn [delete_first]. destruct (f a) eqn:E.
    - cbn [fst filter]. now rewrite (H a E).
    - destruct (delete_first f l) as [r b]. cbn [fst filter] in *. now rewrite IH.
  Qed.

  Lemma find_name_app_other (l : list user) x U : u_name x <> U ->
    find (fun y => str_eqb (u_name y) U) (l ++ [x]) = find (fun y => str_eqb (u_name y) U) l.
  Proof.
    intros H. rewrite find_app. destruct (find _ l); [reflexivity|]. cbn [find]. now rewrite (str_eqb_neq _ _ H).
  Qed.
  Lemma find_rename_other (l : list user) old u d U : old <> U -> u <> U ->
    find (fun y => str_eqb (u_name y) U) (map (rename_user old u d) l) = find (fun y => str_eqb (u_name y) U) l.
  Proof.
    intros Ho Hu. induction l as [|a l IH]; [reflexivity|]. cbn [map find]. unfold rename_user at 1 2.
    destruct (str_eqb (u_name a) old) eqn:Ea.
    - apply str_eqb_eq in Ea. cbn [u_name]. rewrite (str_eqb_neq _ _ Hu). rewrite Ea, (str_eqb_neq _ _ Ho). apply IH.
    - now rewrite IH.
  Qed.

  Lemma ident_frame_set (s s1 : state) c v U : sessions s1 = sessions s -> identity s c <> Some U ->
    forall c', identity s c' = Some U -> identity (set_identity s1 c v) c' = Some U.
  Proof.
    intros Hs Hid c' Hc'. assert (c' <> c) by (intros ->; contradiction).
    rewrite identity_set_other by assumption. unfold identity in *. now rewrite Hs.
  Qed.

  Lemma frame_parts U (s s' : state) :
    filter (fun p => str_eqb (p_owner p) U) (probs s') = filter (fun p => str_eqb (p_owner p) U) (probs s) ->
    find (fun x => str_eqb (u_name x) U) (users s') = find (fun x => str_eqb (u_name x) U) (users s) ->
    filter (fun t : str * str * task => str_eqb (fst (fst t)) U) (running s') = filter (fun t : str * str * task => str_eqb (fst (fst t)) U) (running s) ->
    filter (fun t : ptask adfdata => str_eqb (t_owner t) U) (pending s') = filter (fun t : ptask adfdata => str_eqb (t_owner t) U) (pending s) ->
    (forall c', identity s c' = Some U -> identity s' c' = Some U) -> frame U s s'.
  Proof. intros. unfold frame, owned, find_user, running_of, pending_of. stauto. Qed.

  (** starting a task for somebody else *)
  Lemma frame_start U (s : state) u (p : prob) tk t : u <> U -> p_owner p = u -> t_owner tk = u ->
    frame U s (mkSt (users s) (probs s) ((u, t_pname tk, t) :: running s) (pending s ++ [tk]) (sessions s)) /\
    frame U s (mkSt (users s) (probs s ++ [p]) ((u, t_pname tk, t) :: running s) (pending s ++ [tk]) (sessions s)).
  Proof.
    intros Hu Hp Ht. assert (E := str_eqb_neq _ _ Hu).
    split; apply frame_parts; cbn [users probs running pending sessions]; try reflexivity; try (intros c' H; exact H).
    - cbn [filter fst]. now rewrite E.
    - apply filter_app_single. now rewrite Ht.
    - apply filter_app_single. now rewrite Hp.
    - cbn [filter fst]. now rewrite E.
    - apply filter_app_single. now rewrite Ht.
  Qed.

  Lemma update_cases (s : state) c u p :
    (exists n, handle s c (RUpdate u p) = (s, (n, PNone))) \/
    exists old, identity s c = Some old /\ (u = old \/ find_user s u = None) /\ find_user s old <> None /\
      handle s c (RUpdate u p) =
      (set_identity (mkSt (map (rename_user old u (digest p)) (users s))
                          (map (fun q => if pmatch (ft_update_many tbl) old [] q
                                         then mkPr (p_name q) u (p_code q) (p_parsing q) (p_adf q) (p_parse q) (p_res q) else q) (probs s))
                          (running s) (pending s) (sessions s)) c (Some u), (200, PUser u false)).
  Proof.
    cbn [Model.handle]. destruct (_ || _); [left; now eexists|].
    destruct (identity s c) as [old|]; [|left; now eexists].
    destruct (str_eqb u old) eqn:E1; cbn [negb andb] in *.
    - apply str_eqb_eq in E1. subst old. destruct (find_user s u) eqn:E2; [|left; now eexists].
      right. exists u. repeat split; [now left|congruence].
    - destruct (find_user s u) eqn:E2; [left; now eexists|]. destruct (find_user s old) eqn:E3; [|left; now eexists].
      right. exists old. repeat split; [now right|congruence].
  Qed.

  (** a request by somebody who is not [U] (and that does not create the name [U]) never modifies or
      deletes a problem owned by [U], nor [U]'s account, running entries or tasks, nor logs [U]'s browsers out *)
  Theorem handle_frame (s : state) c r U : filters_ok tbl = true -> identity s c <> Some U -> ~ takes_name s c r U ->
    frame U s (fst (handle s c r)).
  Proof.
    intros Hok Hid Htn.
    destruct (filters_ok_inv Hok) as ((Hae1 & Hae2) & (Hac1 & Hac2) & (Hsf1 & Hsf2) & (Hsc1 & Hsc2) & (Hg1 & Hg2) & (Hd1 & Hd2) & Hl & Hda & Hup).
    destruct r.
    - (* register *)
      cbn [Model.handle]. destruct (_ || _); [apply frame_refl|]. destruct (find_user s u); [apply frame_refl|]. cbn [fst].
      apply frame_parts; cbn [with_users users probs running pending sessions]; try reflexivity; [|intros c' H; exact H].
      apply find_name_app_other. exact Htn.
    - (* login *)
      destruct (login_cases s c u p) as [E|[n [_ E]]]; rewrite E; [|apply frame_refl]. cbn [fst].
      apply frame_parts; try reflexivity. now apply ident_frame_set.
    - (* logout *)
      cbn [Model.handle]. destruct (identity s c) as [u|] eqn:Ei; [|apply frame_refl]. destruct (find_user s u) as [x|]; [|apply frame_refl].
      destruct (u_pw x); [|apply frame_refl]. cbn [fst]. apply frame_parts; try reflexivity.
      apply (ident_frame_set s); [reflexivity|now rewrite Ei].
    - (* info *)
      cbn [Model.handle]. destruct (identity s c) as [u|] eqn:Ei; [|apply frame_refl]. destruct (find_user s u) as [x|]; [apply frame_refl|].
      cbn [fst]. apply frame_parts; try reflexivity. apply (ident_frame_set s); [reflexivity|now rewrite Ei].
    - (* update *)
      destruct (update_cases s c u p) as [[n E]|[old [Hold [Hu [Ho E]]]]]; rewrite E; [apply frame_refl|]. cbn [fst].
      assert (HoU : old <> U) by (intros ->; contradiction).
      apply frame_parts; cbn [set_identity users probs running pending sessions]; try reflexivity.
      + apply filter_map_frame. intros q _. destruct (pmatch (ft_update_many tbl) old [] q) eqn:Eq; [right|now left].
        split; [exact (pmatch_other _ _ _ _ U Hup HoU Eq)|]. cbn [p_owner]. apply str_eqb_neq. exact Htn.
      + apply find_rename_other; [assumption|exact Htn].
      + now apply (ident_frame_set s).
    - (* delete account *)
      cbn [Model.handle]. destruct (identity s c) as [u|] eqn:Ei; [|apply frame_refl].
      assert (HuU : u <> U) by (intros ->; contradiction).
      assert (Hps : filter (fun p : prob => str_eqb (p_owner p) U) (filter (fun q => negb (pmatch (ft_delacc_many tbl) u [] q)) (probs s))
                    = filter (fun p : prob => str_eqb (p_owner p) U) (probs s)).
      { apply filter_filter_frame. intros q _ Hq. apply negb_true_iff. destruct (pmatch (ft_delacc_many tbl) u [] q) eqn:Eq; [|reflexivity].
        rewrite (pmatch_other _ _ _ _ U Hda HuU Eq) in Hq. discriminate. }
      destruct (find_user s u); cbn [fst].
      + apply frame_parts; cbn [set_identity users probs running pending sessions]; try reflexivity; try assumption.
        * apply find_filter_frame. intros x _ Hx. apply str_eqb_eq in Hx. apply negb_true_iff. apply str_eqb_neq. congruence.
        * apply (ident_frame_set s); [reflexivity|]. now rewrite Ei.
      + apply frame_parts; cbn [with_probs users probs running pending sessions]; try reflexivity; try assumption. intros c' H; exact H.
    - (* add *)
      cbn [Model.handle]. destruct code as [|c0 code]; [apply frame_refl|].
      destruct (identity s c) as [u|] eqn:Ei.
      + assert (HuU : u <> U) by (intros ->; contradiction).
        destruct name as [|n0 name]; [apply frame_refl|]. destruct (existsb _ _); [apply frame_refl|]. cbn [fst].
        apply (frame_start U s u (mkPr (n0 :: name) u (c0 :: code) pg ONone ONone []) (mkT u (n0 :: name) TParse (c0 :: code) pg None) TParse); auto.
      + destruct (find_user s fresh) eqn:Ef; [apply frame_refl|].
        assert (HfU : fresh <> U) by (intros ->; apply Htn; now split).
        set (s1 := set_identity (with_users s (users s ++ [mkU fresh None])) c (Some fresh)).
        assert (F1 : frame U s s1).
        { apply frame_parts; cbn [s1 set_identity with_users users probs running pending sessions]; try reflexivity.
          - now apply find_name_app_other.
          - apply (ident_frame_set s); [reflexivity|]. now rewrite Ei. }
        destruct name as [|n0 name]; [exact F1|]. destruct (existsb _ _); [exact F1|]. cbn [fst].
        eapply frame_trans; [exact F1|].
        apply (frame_start U s1 fresh (mkPr (n0 :: name) fresh (c0 :: code) pg ONone ONone []) (mkT fresh (n0 :: name) TParse (c0 :: code) pg None) TParse); auto.
    - (* solve *)
      cbn [Model.handle]. destruct (identity s c) as [u|] eqn:Ei; [|apply frame_refl].
      assert (HuU : u <> U) by (intros ->; contradiction).
      destruct (find _ _) as [q|]; [|apply frame_refl]. destruct (p_adf q) as [| |a]; try apply frame_refl.
      destruct (_ || _); [apply frame_refl|]. cbn [fst].
      apply (frame_start U s u (mkPr [] u [] PNaive ONone ONone []) (mkT u name (TSolve st) (p_code q) (p_parsing q) (Some a)) (TSolve st)); auto.
    - (* get *)
      cbn [Model.handle]. destruct (identity s c) as [u|]; [|apply frame_refl]. destruct (find _ _); apply frame_refl.
    - (* list *)
      cbn [Model.handle]. destruct (identity s c) as [u|]; apply frame_refl.
    - (* delete *)
      cbn [Model.handle]. destruct (identity s c) as [u|] eqn:Ei; [|apply frame_refl].
      assert (HuU : u <> U) by (intros ->; contradiction).
      destruct (delete_first (pmatch (ft_delete_one tbl) u name) (probs s)) as [ps b] eqn:Ed. destruct b; [|apply frame_refl]. cbn [fst].
      apply frame_parts; cbn [with_probs users probs running pending sessions]; try reflexivity; [|intros c' H; exact H].
      replace ps with (fst (delete_first (pmatch (ft_delete_one tbl) u name) (probs s))) by now rewrite Ed.
      apply delete_first_frame. intros q Hq. exact (pmatch_other _ _ _ _ U Hd1 HuU Hq).
  Qed.

  (** while the account [U] exists nobody else can take its name: no side condition is needed *)
  Theorem handle_frame_existing (s : state) c r U : filters_ok tbl = true -> identity s c <> Some U -> find_user s U <> None ->
    frame U s (fst (handle s c r)).
  Proof.
    intros Hok Hid Hex.
    destruct r; try (apply handle_frame; [assumption|assumption|exact (fun x : False => x)]).
    - destruct (str_dec u U) as [->|Hne]; [|now apply handle_frame].
      cbn [Model.handle]. destruct (_ || _); [apply frame_refl|]. destruct (find_user s U); [apply frame_refl|congruence].
    - destruct (str_dec u U) as [->|Hne]; [|now apply handle_frame].
      destruct (update_cases s c U p) as [[n E]|[old [Hold [Hu [Ho E]]]]]; rewrite E; [apply frame_refl|].
      destruct Hu as [->|Hu]; [|contradiction]. rewrite Hold in Hid. now elim Hid.
    - destruct (str_dec fresh U) as [->|Hne]; [|apply handle_frame; try assumption; intros [_ H]; contradiction].
      destruct (identity s c) as [u|] eqn:Ei; [apply handle_frame; try assumption; [now rewrite Ei|intros [H _]; congruence]|].
      cbn [Model.handle]. destruct code; [apply frame_refl|]. rewrite Ei.
      destruct (find_user s U); [apply frame_refl|congruence].
  Qed.

  (** the shape of a completion *)
  Lemma complete_none (s : state) i t : nth_error (pending s) i = None -> complete s i t = s.
  Proof. intros H. unfold Model.complete. now rewrite H. Qed.

  Lemma complete_shape (s : state) i t tk : nth_error (pending s) i = Some tk ->
    exists keys (g : prob -> prob) (keep : bool),
      complete s i t = mkSt (users s) (update_first (pmatch keys (t_owner tk) (t_pname tk)) g (probs s))
                            (if keep then running s else remove_running (running s) tk)
                            (firstn i (pending s) ++ skipn (S i) (pending s)) (sessions s) /\
      (keys = ft_add_complete tbl \/ keys = ft_solve_complete tbl) /\
      (forall q, p_owner (g q) = p_owner q /\ p_name (g q) = p_name q /\ p_code (g q) = p_code q /\ p_parsing (g q) = p_parsing q).
  Proof.
    intros H. unfold Model.complete. rewrite H.
    destruct (t_task tk) as [|st].
    - set (o := if t then TimedOut else lib_parse (t_code tk) (t_parsing tk)).
      set (X := match o with Done (a, g) => (OSome a, OSome g) | _ => (OError, OError) end).
      exists (ft_add_complete tbl), (fun q => mkPr (p_name q) (p_owner q) (p_code q) (p_parsing q) (fst X) (snd X) (p_res q)),
        (match o with Done _ | Failed => false | Panicked => negb remove_on_panic | TimedOut => true end).
      split; [destruct X; reflexivity|]. split; [now left|]. intros q. now repeat split.
    - set (o := if t then TimedOut else match t_adf tk with Some a => lib_solve a st | None => Panicked end).
      exists (ft_solve_complete tbl), (fun q => set_res q st (match o with Done g => OSome g | _ => OError end)),
        (match o with Done _ | Failed => false | Panicked => negb remove_on_panic | TimedOut => true end).
      split; [reflexivity|]. split; [now right|]. intros q. now repeat split.
  Qed.

  (** the completion of a task captured under another username does not touch [U]'s problems, account,
      running entries, pending tasks or sessions *)
  Theorem complete_frame (s : state) i t U : filters_ok tbl = true ->
    (forall tk, nth_error (pending s) i = Some tk -> t_owner tk <> U) -> frame U s (complete s i t).
  Proof.
    intros Hok Hown.
    destruct (filters_ok_inv Hok) as (_ & (Hac1 & _) & _ & (Hsc1 & _) & _).
    destruct (nth_error (pending s) i) as [tk|] eqn:Etk; [|rewrite complete_none by assumption; apply frame_refl].
    specialize (Hown tk eq_refl).
    destruct (complete_shape s i t tk Etk) as (keys & g & keep & E & Hkeys & Hg). rewrite E.
    assert (Hk : has FUser keys = true) by (destruct Hkeys as [->| ->]; assumption).
    apply frame_parts; cbn [users probs running pending sessions]; try reflexivity; [| | |intros c' H; exact H].
    - apply update_first_frame. intros q Hq. assert (Hq' := pmatch_other _ _ _ _ U Hk Hown Hq).
      split; [assumption|]. destruct (Hg q) as [-> _]. assumption.
    - destruct keep; [reflexivity|]. unfold remove_running. apply filter_filter_frame. intros x _ Hx.
      apply str_eqb_eq in Hx. apply negb_true_iff. rewrite Hx. rewrite (str_eqb_neq U (t_owner tk)) by congruence. reflexivity.
    - apply (filter_skip_nth _ _ _ tk); [assumption|]. now apply str_eqb_neq.
  Qed.

  (** lifting to events and histories: an event is [U]'s own if it is a request by a browser whose
      identity is [U], a request that creates the name [U], or the completion of a task captured under [U] *)
  Definition own_event (U : str) (s : state) (e : event) : Prop :=
    match e with
    | EReq c r => identity s c = Some U \/ takes_name s c r U
    | EComplete i _ => exists tk, nth_error (pending s) i = Some tk /\ t_owner tk = U
    end.

  Theorem step_frame (s : state) e U : filters_ok tbl = true -> ~ own_event U s e -> frame U s (fst (step s e)).
  Proof.
    intros Hok Hn. destruct e as [c r|i t].
    - rewrite step_req. apply handle_frame; [assumption| |]; intros H; apply Hn; [now left|now right].
    - rewrite step_complete. apply complete_frame; [assumption|]. intros tk Htk Ho. apply Hn. now exists tk.
  Qed.

  Fixpoint foreign_history (U : str) (s : state) (es : list event) : Prop :=
    match es with
    | [] => True
    | e :: r => ~ own_event U s e /\ foreign_history U (fst (step s e)) r
    end.

  Theorem frame_history U es : filters_ok tbl = true -> forall s, foreign_history U s es -> frame U s (fst (run_events s es)).
  Proof.
    intros Hok. induction es as [|e es IH]; intros s H; [apply frame_refl|].
    destruct H as [H1 H2]. rewrite run_events_cons. eapply frame_trans; [apply step_frame; eassumption|now apply IH].
  Qed.

  (** ** B. isolation: responses *)
  Definition payload_infos (x : payload answers) : list (pinfo answers) :=
    match x with PProblem i => [i] | PProblems l => l | _ => [] end.

  Lemma in_owned U (s : state) p : In p (owned U s) <-> In p (probs s) /\ p_owner p = U.
  Proof. unfold owned. rewrite filter_In. now rewrite str_eqb_eq. Qed.

  (** every problem description in a response describes a problem owned by the requester's identity *)
  Theorem response_contains_only_own_gen (s : state) c r i : filters_ok tbl = true ->
    In i (payload_infos (body (handle s c r))) ->
    exists U p, identity s c = Some U /\ In p (owned U s) /\ i = info_of s p.
  Proof.
    intros Hok.
    destruct (filters_ok_inv Hok) as (_ & _ & _ & _ & (Hg1 & Hg2) & _ & Hl & _).
    unfold body. destruct r.
    - cbn [Model.handle]. destruct (_ || _); [intros []|]. destruct (find_user s u); intros [].
    - destruct (login_cases s c u p) as [E|[n [_ E]]]; rewrite E; intros [].
    - cbn [Model.handle]. destruct (identity s c) as [u|]; [|intros []]. destruct (find_user s u) as [x|]; [|intros []].
      destruct (u_pw x); intros [].
    - cbn [Model.handle]. destruct (identity s c) as [u|]; [|intros []]. destruct (find_user s u) as [x|]; intros [].
    - destruct (update_cases s c u p) as [[n E]|[old [_ [_ [_ E]]]]]; rewrite E; intros [].
    - cbn [Model.handle]. destruct (identity s c) as [u|]; [|intros []]. destruct (find_user s u) as [x|]; intros [].
    - cbn [Model.handle]. destruct code; [intros []|].
      destruct (identity s c) as [u|].
      + destruct name; [intros []|]. destruct (existsb _ _); intros [].
      + destruct (find_user s fresh); [intros []|]. destruct name; [intros []|]. destruct (existsb _ _); intros [].
    - cbn [Model.handle]. destruct (identity s c) as [u|]; [|intros []]. destruct (find _ _) as [q|]; [|intros []].
      destruct (p_adf q); try (intros []). destruct (_ || _); intros [].
    - cbn [Model.handle]. destruct (identity s c) as [u|]; [|intros []].
      destruct (find (pmatch (ft_get_find tbl) u name) (probs s)) as [q|] eqn:Ef; [|intros []].
      cbn [snd payload_infos]. intros [<-|[]]. exists u, q. split; [reflexivity|]. split; [|reflexivity].
      apply find_some in Ef. destruct Ef as [Hin Hm]. apply in_owned. split; [assumption|]. now apply (pmatch_owner _ _ _ _ Hg1 Hm).
    - cbn [Model.handle]. destruct (identity s c) as [u|]; [|intros []].
      cbn [snd payload_infos]. intros Hi. apply in_map_iff in Hi. destruct Hi as [q [<- Hq]]. apply filter_In in Hq. destruct Hq as [Hin Hm].
      exists u, q. split; [reflexivity|]. split; [|reflexivity]. apply in_owned. split; [assumption|]. now apply (pmatch_owner _ _ _ _ Hl Hm).
    - cbn [Model.handle]. destruct (identity s c) as [u|]; [|intros []]. destruct (delete_first _ _) as [ps b]. destruct b; intros [].
  Qed.

  Theorem response_contains_only_own (s : state) c r U : filters_ok tbl = true -> identity s c = Some U ->
    forall i, In i (payload_infos (body (handle s c r))) -> exists p, In p (owned U s) /\ i = info_of s p.
  Proof.
    intros Hok Hid i Hi. destruct (response_contains_only_own_gen s c r i Hok Hi) as [U' [p [H1 [H2 H3]]]].
    rewrite Hid in H1. injection H1 as <-. now exists p.
  Qed.
  Theorem response_anonymous_no_problem (s : state) c r : filters_ok tbl = true -> identity s c = None ->
    payload_infos (body (handle s c r)) = [].
  Proof.
    intros Hok Hid. destruct (payload_infos (body (handle s c r))) as [|i l] eqn:E; [reflexivity|].
    destruct (response_contains_only_own_gen s c r i Hok) as [U [p [H1 _]]]; [rewrite E; now left|congruence].
  Qed.

  (** the response only depends on the users collection and on the requester's own data *)
  Definition agree (U : str) (s1 s2 : state) : Prop :=
    users s1 = users s2 /\ owned U s1 = owned U s2 /\ running_of U s1 = running_of U s2.

  Lemma find_owned keys U n (s : state) : has FUser keys = true ->
    find (pmatch keys U n) (probs s) = find (pmatch keys U n) (owned U s).
  Proof.
    intros Hk. symmetry. apply find_filter_frame. intros q _ Hq. apply (pmatch_owner _ _ _ _ Hk) in Hq. now apply str_eqb_eq.
  Qed.
  Lemma existsb_owned keys U n (s : state) : has FUser keys = true ->
    existsb (pmatch keys U n) (probs s) = existsb (pmatch keys U n) (owned U s).
  Proof.
    intros Hk. symmetry. apply existsb_filter_frame. intros q _ Hq. apply (pmatch_owner _ _ _ _ Hk) in Hq. now apply str_eqb_eq.
  Qed.
  Lemma filter_owned keys U n (s : state) : has FUser keys = true ->
    filter (pmatch keys U n) (probs s) = filter (pmatch keys U n) (owned U s).
  Proof.
    intros Hk. symmetry. apply filter_filter_frame. intros q _ Hq. apply (pmatch_owner _ _ _ _ Hk) in Hq. now apply str_eqb_eq.
  Qed.
  Lemma delete_first_snd (f : prob -> bool) l : snd (delete_first f l) = existsb f l.
  Proof.
    induction l as [|a l IH]; [reflexivity|]. cbn [delete_first existsb]. destruct (f a); [reflexivity|].
    destruct (delete_first f l) as [r b]. exact IH.
  Qed.
  Lemma info_of_local (s1 s2 : state) (p : prob) : running_of (p_owner p) s1 = running_of (p_owner p) s2 -> info_of s1 p = info_of s2 p.
  Proof.
    intros H. unfold info_of. f_equal. f_equal.
    set (f := fun t : str * str * task => str_eqb (snd (fst t)) (p_name p) && str_eqb (fst (fst t)) (p_owner p)).
    assert (E : forall s : state, filter f (running s) = filter f (running_of (p_owner p) s)).
    { intros s. symmetry. apply filter_filter_frame. intros x _ Hx. unfold f in Hx. apply andb_true_iff in Hx. stauto. }
    now rewrite (E s1), (E s2), H.
  Qed.

  Theorem response_local (s1 s2 : state) c r U : filters_ok tbl = true ->
    identity s1 c = Some U -> identity s2 c = Some U -> agree U s1 s2 -> snd (handle s1 c r) = snd (handle s2 c r).
  Proof.
    intros Hok Hi1 Hi2 (Hu & Ho & Hr).
    destruct (filters_ok_inv Hok) as ((Hae1 & Hae2) & _ & (Hsf1 & Hsf2) & _ & (Hg1 & Hg2) & (Hd1 & Hd2) & Hl & _).
    assert (Hfu : forall u, find_user s1 u = find_user s2 u) by (intros u; unfold find_user; now rewrite Hu).
    destruct r; cbn [Model.handle]; rewrite ?Hi1, ?Hi2, ?Hfu.
    - destruct (_ || _); [reflexivity|]. destruct (find_user s2 u); reflexivity.
    - destruct (_ || _); [reflexivity|]. destruct (find_user s2 u) as [x|]; [|reflexivity]. destruct (u_pw x) as [d|]; [|reflexivity].
      destruct (str_eqb d (digest p)); reflexivity.
    - destruct (find_user s2 U) as [x|]; [|reflexivity]. destruct (u_pw x); reflexivity.
    - destruct (find_user s2 U) as [x|]; reflexivity.
    - destruct (_ || _); [reflexivity|]. destruct (negb (str_eqb u U) && _); [reflexivity|]. destruct (find_user s2 U); reflexivity.
    - destruct (find_user s2 U); reflexivity.
    - destruct code; [reflexivity|]. destruct name as [|n0 name]; [reflexivity|].
      rewrite !(existsb_owned _ _ _ _ Hae1), Ho. destruct (existsb _ _); reflexivity.
    - rewrite !(find_owned _ _ _ _ Hsf1), Ho. destruct (find _ _) as [q|]; [|reflexivity].
      destruct (p_adf q); try reflexivity.
      assert (E : forall s : state,
                 existsb (fun t : str * str * task => str_eqb (fst (fst t)) U && str_eqb (snd (fst t)) name && task_eqb (snd t) (TSolve st)) (running s)
                 = existsb (fun t : str * str * task => str_eqb (fst (fst t)) U && str_eqb (snd (fst t)) name && task_eqb (snd t) (TSolve st)) (running_of U s)).
      { intros s. symmetry. apply existsb_filter_frame. intros x _ Hx. apply andb_true_iff in Hx. destruct Hx as [Hx _].
        apply andb_true_iff in Hx. stauto. }
      rewrite (E s1), (E s2), Hr. destruct (_ || _); reflexivity.
    - rewrite !(find_owned _ _ _ _ Hg1), Ho. destruct (find _ (owned U s2)) as [q|] eqn:Ef; [|reflexivity].
      cbn [snd]. do 2 f_equal. apply info_of_local. apply find_some in Ef. destruct Ef as [Hin _]. apply in_owned in Hin.
      destruct Hin as [_ ->]. assumption.
    - cbn [snd]. do 2 f_equal. rewrite !(filter_owned _ _ _ _ Hl), Ho. apply map_ext_in. intros q Hq.
      apply info_of_local. apply filter_In in Hq. destruct Hq as [Hin _]. apply in_owned in Hin. destruct Hin as [_ ->]. assumption.
    - assert (E1 := delete_first_snd (pmatch (ft_delete_one tbl) U name) (probs s1)).
      assert (E2 := delete_first_snd (pmatch (ft_delete_one tbl) U name) (probs s2)).
      rewrite (existsb_owned _ _ _ _ Hd1) in E1. rewrite (existsb_owned _ _ _ _ Hd1) in E2. rewrite Ho in E1.
      destruct (delete_first _ (probs s1)) as [ps1 b1]. destruct (delete_first _ (probs s2)) as [ps2 b2].
      cbn [snd] in E1, E2. rewrite <- E2 in E1. subst b2. destruct b1; reflexivity.
  Qed.

  (** a browser that is not logged in: the response only depends on the users collection (and, for an
      add that creates a temporary user, on the problems already stored under the proposed name) *)
  Theorem response_local_anonymous (s1 s2 : state) c r : filters_ok tbl = true ->
    identity s1 c = None -> identity s2 c = None -> users s1 = users s2 ->
    (forall n cd pg fresh, r = RAdd n cd pg fresh -> owned fresh s1 = owned fresh s2) ->
    snd (handle s1 c r) = snd (handle s2 c r).
  Proof.
    intros Hok Hi1 Hi2 Hu Hadd.
    destruct (filters_ok_inv Hok) as ((Hae1 & Hae2) & _).
    assert (Hfu : forall u, find_user s1 u = find_user s2 u) by (intros u; unfold find_user; now rewrite Hu).
    destruct r; cbn [Model.handle]; rewrite ?Hi1, ?Hi2, ?Hfu; try reflexivity.
    - destruct (_ || _); [reflexivity|]. destruct (find_user s2 u); reflexivity.
    - destruct (_ || _); [reflexivity|]. destruct (find_user s2 u) as [x|]; [|reflexivity]. destruct (u_pw x) as [d|]; [|reflexivity].
      destruct (str_eqb d (digest p)); reflexivity.
    - destruct (_ || _); reflexivity.
    - destruct code; [reflexivity|]. destruct (find_user s2 fresh); [reflexivity|]. destruct name as [|n0 name]; [reflexivity|].
      specialize (Hadd _ _ _ _ eq_refl).
      cbn [set_identity with_users probs]. rewrite !(existsb_owned _ _ _ _ Hae1), Hadd. destruct (existsb _ _); reflexivity.
  Qed.

  (** ** B. isolation: histories.  Principals as sets of browsers. *)
  Lemma own_event_dec U (s : state) e : own_event U s e \/ ~ own_event U s e.
  Proof.
    destruct e as [c r|i t]; cbn [own_event].
    - assert (D1 : identity s c = Some U \/ identity s c <> Some U).
      { destruct (identity s c) as [u|]; [|right; discriminate]. destruct (str_dec u U) as [->|H]; [now left|right; congruence]. }
      assert (D2 : takes_name s c r U \/ ~ takes_name s c r U).
      { destruct r; cbn [takes_name]; try (right; stauto); try (destruct (str_dec u U); stauto).
        destruct (str_dec fresh U); destruct (identity s c); try stauto; right; intros [H _]; discriminate. }
      stauto.
    - destruct (nth_error (pending s) i) as [tk|]; [|right; intros [tk [H _]]; discriminate].
      destruct (str_dec (t_owner tk) U) as [H|H]; [left; now exists tk|right; intros [tk' [H1 H2]]; congruence].
  Qed.

  Lemma handle_pending (s : state) c r : exists l, pending (fst (handle s c r)) = pending s ++ l.
  Proof.
    assert (Z : exists l, pending s = pending s ++ l) by (exists []; now rewrite app_nil_r).
    destruct r.
    - cbn [Model.handle]. destruct (_ || _); [exact Z|]. destruct (find_user s u); exact Z.
    - destruct (login_cases s c u p) as [E|[n [_ E]]]; rewrite E; exact Z.
    - cbn [Model.handle]. destruct (identity s c) as [u|]; [|exact Z]. destruct (find_user s u) as [x|]; [|exact Z]. destruct (u_pw x); exact Z.
    - cbn [Model.handle]. destruct (identity s c) as [u|]; [|exact Z]. destruct (find_user s u) as [x|]; exact Z.
    - destruct (update_cases s c u p) as [[n E]|[old [_ [_ [_ E]]]]]; rewrite E; exact Z.
    - cbn [Model.handle]. destruct (identity s c) as [u|]; [|exact Z]. destruct (find_user s u) as [x|]; exact Z.
    - cbn [Model.handle]. destruct code; [exact Z|].
      destruct (identity s c) as [u|].
      + destruct name; [exact Z|]. destruct (existsb _ _); [exact Z|]. cbn [fst pending]. now eexists.
      + destruct (find_user s fresh); [exact Z|]. destruct name; [exact Z|]. destruct (existsb _ _); [exact Z|]. cbn [fst pending]. now eexists.
    - cbn [Model.handle]. destruct (identity s c) as [u|]; [|exact Z]. destruct (find _ _) as [q|]; [|exact Z].
      destruct (p_adf q); try exact Z. destruct (_ || _); [exact Z|]. cbn [fst pending]. now eexists.
    - cbn [Model.handle]. destruct (identity s c) as [u|]; [|exact Z]. destruct (find _ _); exact Z.
    - cbn [Model.handle]. destruct (identity s c) as [u|]; exact Z.
    - cbn [Model.handle]. destruct (identity s c) as [u|]; [|exact Z]. destruct (delete_first _ _) as [ps b]. destruct b; exact Z.
  Qed.

  Lemma pending_complete_incl (s : state) i t tk : In tk (pending (complete s i t)) -> In tk (pending s).
  Proof.
    destruct (nth_error (pending s) i) as [tk0|] eqn:E; [|now rewrite complete_none].
    destruct (complete_shape s i t tk0 E) as (keys & g & keep & Ec & _). rewrite Ec. cbn [pending]. apply in_skip_nth.
  Qed.

  (** a pending task captured under [U] was already pending, or the event that put it there is [U]'s own *)
  Lemma pending_step (s : state) e U tk : filters_ok tbl = true ->
    In tk (pending (fst (step s e))) -> t_owner tk = U -> In tk (pending s) \/ own_event U s e.
  Proof.
    intros Hok Hin Ho. destruct (own_event_dec U s e) as [H|H]; [now right|left].
    destruct (step_frame s e U Hok H) as (_ & _ & _ & Hp & _). unfold pending_of in Hp.
    assert (Hin' : In tk (filter (fun t : ptask adfdata => str_eqb (t_owner t) U) (pending (fst (step s e))))).
    { apply filter_In. split; [assumption|]. now apply str_eqb_eq. }
    rewrite Hp in Hin'. apply filter_In in Hin'. stauto.
  Qed.

  (** [B] is the set of browsers of the principal that holds the name [U]: a request from a browser
      outside [B] never carries the identity [U] and never creates the name [U] *)
  Definition outsider_ok (B : nat -> bool) (U : str) (s : state) (e : event) : Prop :=
    match e with
    | EReq c r => B c = false -> identity s c <> Some U /\ ~ takes_name s c r U
    | EComplete _ _ => True
    end.
  Fixpoint history_ok (B : nat -> bool) (U : str) (s : state) (es : list event) : Prop :=
    match es with
    | [] => True
    | e :: r => outsider_ok B U s e /\ history_ok B U (fst (step s e)) r
    end.
  (** the tasks started by requests from [B] *)
  Fixpoint started_by (B : nat -> bool) (s : state) (es : list event) : list (ptask adfdata) :=
    match es with
    | [] => []
    | e :: r => (match e with
                 | EReq c rq => if B c then skipn (length (pending s)) (pending (fst (handle s c rq))) else []
                 | EComplete _ _ => []
                 end) ++ started_by B (fst (step s e)) r
    end.

  Lemma history_ok_app B U es1 es2 : forall s, history_ok B U s (es1 ++ es2) <->
    history_ok B U s es1 /\ history_ok B U (fst (run_events s es1)) es2.
  Proof.
    induction es1 as [|e es1 IH]; intros s; [cbn; stauto|].
    rewrite <- app_comm_cons. cbn [history_ok]. rewrite run_events_cons, IH. stauto.
  Qed.

  Theorem tasks_started_by_own B U es : filters_ok tbl = true -> forall s, history_ok B U s es ->
    forall tk, In tk (pending (fst (run_events s es))) -> t_owner tk = U -> In tk (pending s) \/ In tk (started_by B s es).
  Proof.
    intros Hok. induction es as [|e es IH]; intros s Hh tk Hin Ho; [now left|].
    destruct Hh as [H1 H2]. rewrite run_events_cons in Hin. cbn [started_by].
    destruct (IH _ H2 tk Hin Ho) as [Hp|Hs]; [|right; apply in_or_app; now right].
    destruct e as [c r|i t].
    - rewrite step_req in Hp. destruct (B c) eqn:EB.
      + destruct (handle_pending s c r) as [l El]. rewrite El in Hp |- *.
        rewrite skipn_app, skipn_all, Nat.sub_diag. cbn [app skipn].
        apply in_app_or in Hp. destruct Hp as [Hp|Hp]; [now left|right; apply in_or_app; now left].
      + left. destruct (H1 EB) as [Ha Hb].
        destruct (pending_step s (EReq c r) U tk Hok) as [H|[H|H]]; try assumption; try contradiction. now rewrite step_req.
    - left. rewrite step_complete in Hp. eapply pending_complete_incl; eassumption.
  Qed.

  (** History-level isolation.  From a state with no task captured under [U], along a history in which
      only the browsers in [B] ever carry the identity [U] or create the name [U]:
      a request from a browser outside [B] leaves [U]'s data alone, and so does every completion except
      that of a task started by a request from [B]. *)
  Theorem isolation B U (s : state) es1 e : filters_ok tbl = true ->
    (forall tk, In tk (pending s) -> t_owner tk <> U) -> history_ok B U s (es1 ++ [e]) ->
    let s1 := fst (run_events s es1) in
    match e with
    | EReq c r => B c = false -> frame U s1 (fst (step s1 e))
    | EComplete i t =>
        (forall tk, nth_error (pending s1) i = Some tk -> t_owner tk = U -> ~ In tk (started_by B s es1)) ->
        frame U s1 (fst (step s1 e))
    end.
  Proof.
    intros Hok Hst Hh s1. apply history_ok_app in Hh. destruct Hh as [Hh1 [Hh2 _]]. fold s1 in Hh2.
    destruct e as [c r|i t].
    - intros HB. destruct (Hh2 HB) as [Ha Hb]. apply step_frame; [assumption|]. intros [H|H]; contradiction.
    - intros Hns. apply step_frame; [assumption|]. intros [tk [Htk Ho]].
      destruct (tasks_started_by_own B U es1 Hok s Hh1 tk (nth_error_In _ _ Htk) Ho) as [H|H].
      + now apply (Hst tk).
      + now apply (Hns tk).
  Qed.

  Corollary isolation_from_s0 B U es1 e : filters_ok tbl = true -> history_ok B U s0 (es1 ++ [e]) ->
    let s1 := fst (run_events s0 es1) in
    match e with
    | EReq c r => B c = false -> frame U s1 (fst (step s1 e))
    | EComplete i t =>
        (forall tk, nth_error (pending s1) i = Some tk -> t_owner tk = U -> ~ In tk (started_by B s0 es1)) ->
        frame U s1 (fst (step s1 e))
    end.
  Proof. intros Hok Hh. apply isolation; [assumption| |assumption]. intros tk []. Qed.

  (** ** D. what is stored and answered after add / solve *)
  Lemma strategy_eqb_refl st : strategy_eqb st st = true.
  Proof. now destruct st. Qed.

  Lemma update_first_app_last (f : prob -> bool) g l p :
    (forall q, In q l -> f q = false) -> f p = true -> update_first f g (l ++ [p]) = l ++ [g p].
  Proof.
    induction l as [|a l IH]; intros Hl Hp; cbn [app update_first].
    - now rewrite Hp.
    - rewrite (Hl a (or_introl eq_refl)). f_equal. apply IH; [|assumption]. intros q Hq. apply Hl. now right.
  Qed.
  Lemma find_app_last (f : prob -> bool) l p : (forall q, In q l -> f q = false) -> f p = true -> find f (l ++ [p]) = Some p.
  Proof. intros Hl Hp. rewrite find_app. rewrite (proj2 (find_none_iff f l) Hl). cbn [find]. now rewrite Hp. Qed.

  (** no problem named [n] of user [U] *)
  Definition no_problem (U n : str) (l : list prob) : Prop := forall q, In q l -> p_owner q = U -> p_name q <> n.
  (** no running entry for (U, n) *)
  Definition no_running (U n : str) (l : list (str * str * task)) : Prop := forall x, In x l -> fst x <> (U, n).

  Lemma no_problem_pmatch keys U n l : has FUser keys = true -> has FName keys = true -> no_problem U n l ->
    forall q, In q l -> pmatch keys U n q = false.
  Proof.
    intros H1 H2 Hn q Hq. rewrite pmatch_full by assumption.
    destruct (str_eqb (p_owner q) U) eqn:E; [|reflexivity]. apply str_eqb_eq in E. cbn [andb]. apply str_eqb_neq. now apply Hn.
  Qed.
  Lemma pmatch_self keys U n (p : prob) : p_owner p = U -> p_name p = n -> pmatch keys U n p = true.
  Proof. intros <- <-. unfold pmatch. rewrite !str_eqb_refl. now rewrite !orb_true_r. Qed.

  Lemma no_running_remove U n l (tk : ptask adfdata) : no_running U n l -> no_running U n (remove_running l tk).
  Proof. intros H x Hx. apply filter_In in Hx. apply H. stauto. Qed.
  Lemma no_running_info U n l : no_running U n l ->
    filter (fun t : str * str * task => str_eqb (snd (fst t)) n && str_eqb (fst (fst t)) U) l = [].
  Proof.
    intros H. apply filter_nil_all. intros [[u m] t] Hx. cbn [fst snd].
    destruct (str_eqb m n) eqn:E1; [|reflexivity]. destruct (str_eqb u U) eqn:E2; [|reflexivity].
    apply str_eqb_eq in E1, E2. subst. exfalso. now apply (H _ Hx).
  Qed.
  Lemma remove_running_head U n t l code pg (a : option adfdata) :
    remove_running ((U, n, t) :: l) (mkT U n t code pg a) = remove_running l (mkT U n t code pg a).
  Proof.
    unfold remove_running. cbn [filter fst snd t_owner t_pname t_task]. rewrite !str_eqb_refl.
    replace (task_eqb t t) with true; [reflexivity|]. destruct t as [|st]; [reflexivity|]. cbn. now rewrite strategy_eqb_refl.
  Qed.

  Definition adf_of (o : outcome (adfdata * answers)) : opt3 adfdata := match o with Done (a, _) => OSome a | _ => OError end.
  Definition parse_of (o : outcome (adfdata * answers)) : opt3 answers := match o with Done (_, g) => OSome g | _ => OError end.
  Definition keep_of {A} (o : outcome A) : bool :=
    match o with Done _ | Failed => false | Panicked => negb remove_on_panic | TimedOut => true end.
  Definition res_of_outcome (o : outcome answers) : opt3 answers := match o with Done g => OSome g | _ => OError end.

  Lemma get_last (s' : state) c U n l (P : prob) : filters_ok tbl = true -> identity s' c = Some U ->
    probs s' = l ++ [P] -> no_problem U n l -> p_owner P = U -> p_name P = n ->
    handle s' c (RGet n) = (s', (200, PProblem (info_of s' P))).
  Proof.
    intros Hok Hid Hp Hl Ho Hn. destruct (filters_ok_inv Hok) as (_ & _ & _ & _ & (Hg1 & Hg2) & _).
    cbn [Model.handle]. rewrite Hid, Hp.
    now rewrite (find_app_last _ _ P (no_problem_pmatch _ _ _ _ Hg1 Hg2 Hl) (pmatch_self _ _ _ P Ho Hn)).
  Qed.

  Section AddSolve.
    Variables (s : state) (c : nat) (U n code : str) (pg : parsing) (fresh : str).
    Hypothesis Hok : filters_ok tbl = true.
    Hypothesis Hid : identity s c = Some U.
    Hypothesis Hn : n <> [].
    Hypothesis Hcode : code <> [].
    Hypothesis Hnew : no_problem U n (probs s).
    Hypothesis Hrun : no_running U n (running s).

    Let tk : ptask adfdata := mkT U n TParse code pg None.
    Let k := length (pending s).
    Set Default Proof Using "All".

    Lemma add_ok : handle s c (RAdd n code pg fresh) =
      (mkSt (users s) (probs s ++ [mkPr n U code pg ONone ONone []]) ((U, n, TParse) :: running s) (pending s ++ [tk]) (sessions s), (200, PNone)).
    Proof.
      destruct (filters_ok_inv Hok) as ((Hae1 & Hae2) & _).
      cbn [Model.handle]. destruct code as [|c0 cd]; [now elim Hcode|]. rewrite Hid. destruct n as [|n0 nn]; [now elim Hn|].
      rewrite (proj2 (existsb_false_iff _ _) (no_problem_pmatch _ _ _ _ Hae1 Hae2 Hnew)). reflexivity.
    Qed.

    Lemma add_complete (t : bool) :
      let o := if t then TimedOut else lib_parse code pg in
      complete (fst (handle s c (RAdd n code pg fresh))) k t =
      mkSt (users s) (probs s ++ [mkPr n U code pg (adf_of o) (parse_of o) []])
           (if keep_of o then (U, n, TParse) :: running s else remove_running (running s) tk) (pending s) (sessions s).
    Proof.
      destruct (filters_ok_inv Hok) as (_ & (Hac1 & Hac2) & _).
      intros o. rewrite add_ok. cbn [fst]. unfold Model.complete. cbn [pending]. unfold k. rewrite nth_error_app_last, skip_nth_app_last.
      cbn [t_task tk t_code t_parsing t_owner t_pname probs users running sessions]. fold o.
      assert (Er : remove_running ((U, n, TParse) :: running s) tk = remove_running (running s) tk) by apply remove_running_head.
      rewrite Er.
      assert (E : forall adf pr, update_first (pmatch (ft_add_complete tbl) U n)
                    (fun q : prob => mkPr (p_name q) (p_owner q) (p_code q) (p_parsing q) adf pr (p_res q))
                    (probs s ++ [mkPr n U code pg ONone ONone []]) = probs s ++ [mkPr n U code pg adf pr []]).
      { intros adf pr. rewrite update_first_app_last; [reflexivity| |now apply pmatch_self].
        now apply no_problem_pmatch. }
      destruct o as [[a g]| | |]; cbn [adf_of parse_of keep_of]; now rewrite E.
    Qed.

    (** the parse succeeded: the ADF and the parse result are stored, the running entry is gone,
        a solve is accepted, its result is stored and GET returns exactly these *)
    Theorem stored_after_add_solve st a g :
      lib_parse code pg = Done (a, g) ->
      let s1 := fst (handle s c (RAdd n code pg fresh)) in
      let s2 := complete s1 k false in
      let s3 := fst (handle s2 c (RSolve n st)) in
      let s4 := complete s3 k false in
      snd (handle s c (RAdd n code pg fresh)) = (200, PNone) /\
      probs s2 = probs s ++ [mkPr n U code pg (OSome a) (OSome g) []] /\ no_running U n (running s2) /\ pending s2 = pending s /\
      snd (handle s2 c (RSolve n st)) = (200, PNone) /\
      In (U, n, TSolve st) (running s3) /\
      probs s4 = probs s ++ [mkPr n U code pg (OSome a) (OSome g) [(st, res_of_outcome (lib_solve a st))]] /\
      pending s4 = pending s /\
      forall r, lib_solve a st = Done r ->
        no_running U n (running s4) /\
        (forall q, find (pmatch (ft_get_find tbl) U n) (probs s4) = Some q -> res_of q st = OSome r) /\
        handle s4 c (RGet n) = (s4, (200, PProblem (mkInfo n code pg (OSome g) [(st, OSome r)] []))).
    Proof.
      intros Hp s1 s2 s3 s4.
      destruct (filters_ok_inv Hok) as (_ & _ & (Hsf1 & Hsf2) & (Hsc1 & Hsc2) & (Hg1 & Hg2) & _).
      assert (E2 : s2 = mkSt (users s) (probs s ++ [mkPr n U code pg (OSome a) (OSome g) []])
                             (remove_running (running s) tk) (pending s) (sessions s)).
      { unfold s2, s1. rewrite add_complete. cbn iota. rewrite Hp. reflexivity. }
      assert (Hr2 : no_running U n (running s2)) by (rewrite E2; cbn [running]; now apply no_running_remove).
      set (P := mkPr n U code pg (OSome a) (OSome g) []) in *.
      set (tk2 := mkT U n (TSolve st) code pg (Some a) : ptask adfdata).
      assert (Hid2 : identity s2 c = Some U) by (rewrite E2; exact Hid).
      assert (E3 : handle s2 c (RSolve n st) =
                   (mkSt (users s) (probs s ++ [P]) ((U, n, TSolve st) :: running s2) (pending s ++ [tk2]) (sessions s), (200, PNone))).
      { cbn [Model.handle]. rewrite Hid2. rewrite E2 at 1. cbn [probs].
        rewrite (find_app_last _ _ P (no_problem_pmatch _ _ _ _ Hsf1 Hsf2 Hnew) (pmatch_self _ _ _ P eq_refl eq_refl)).
        cbn [p_adf P res_of p_res find orb].
        assert (Ex : existsb (fun t : str * str * task => str_eqb (fst (fst t)) U && str_eqb (snd (fst t)) n && task_eqb (snd t) (TSolve st)) (running s2) = false).
        { apply existsb_false_iff. intros [[u m] t] Hx. cbn [fst snd].
          destruct (str_eqb u U) eqn:E1; [|reflexivity]. destruct (str_eqb m n) eqn:E2'; [|reflexivity].
          apply str_eqb_eq in E1, E2'. subst. exfalso. now apply (Hr2 _ Hx). }
        rewrite Ex. rewrite E2. reflexivity. }
      assert (E4 : s4 = mkSt (users s) (probs s ++ [mkPr n U code pg (OSome a) (OSome g) [(st, res_of_outcome (lib_solve a st))]])
                             (if keep_of (lib_solve a st) then (U, n, TSolve st) :: running s2 else remove_running (running s2) tk2)
                             (pending s) (sessions s)).
      { unfold s4, s3. rewrite E3. cbn [fst]. unfold Model.complete. cbn [pending]. unfold k. rewrite nth_error_app_last, skip_nth_app_last.
        cbn [t_task tk2 t_adf t_owner t_pname probs users running sessions].
        assert (Er : remove_running ((U, n, TSolve st) :: running s2) tk2 = remove_running (running s2) tk2) by apply remove_running_head.
        rewrite Er.
        rewrite update_first_app_last; [|now apply no_problem_pmatch|now apply pmatch_self].
        destruct (lib_solve a st); reflexivity. }
      split; [now rewrite add_ok|]. split; [now rewrite E2|]. split; [assumption|]. split; [now rewrite E2|].
      split; [now rewrite E3|]. split; [unfold s3; rewrite E3; now left|]. split; [now rewrite E4|]. split; [now rewrite E4|].
      intros r Hs. rewrite Hs in E4. cbn [keep_of res_of_outcome] in E4.
      assert (Hr4 : no_running U n (running s4)) by (rewrite E4; cbn [running]; now apply no_running_remove).
      set (P4 := mkPr n U code pg (OSome a) (OSome g) [(st, OSome r)]) in *.
      assert (Ef : find (pmatch (ft_get_find tbl) U n) (probs s4) = Some P4).
      { rewrite E4. cbn [probs]. apply find_app_last; [now apply no_problem_pmatch|now apply pmatch_self]. }
      split; [assumption|]. split.
      - intros q Hq. rewrite Ef in Hq. injection Hq as <-. unfold res_of. cbn [P4 p_res find fst]. now rewrite strategy_eqb_refl.
      - cbn [Model.handle]. replace (identity s4 c) with (Some U) by (rewrite E4; symmetry; exact Hid).
        rewrite Ef. unfold info_of. cbn [P4 p_name p_code p_parsing p_parse p_res p_owner].
        now rewrite (no_running_info U n _ Hr4).
    Qed.

    (** the parse failed, panicked or timed out: an error is stored (never an empty answer) and a later
        solve is refused with 400 *)
    Theorem stored_after_failed_parse (t : bool) st :
      (t = true \/ lib_parse code pg = Failed \/ lib_parse code pg = Panicked \/ lib_parse code pg = TimedOut) ->
      let s2 := complete (fst (handle s c (RAdd n code pg fresh))) k t in
      probs s2 = probs s ++ [mkPr n U code pg OError OError []] /\ pending s2 = pending s /\
      handle s2 c (RSolve n st) = (s2, (400, PNone)).
    Proof.
      intros Ht s2.
      destruct (filters_ok_inv Hok) as (_ & _ & (Hsf1 & Hsf2) & _).
      assert (E2 : probs s2 = probs s ++ [mkPr n U code pg OError OError []] /\ pending s2 = pending s /\ sessions s2 = sessions s).
      { unfold s2. rewrite add_complete. cbn zeta.
        assert (Ho : forall o : outcome (adfdata * answers), (forall x, o <> Done x) -> adf_of o = OError /\ parse_of o = OError).
        { intros [[a g]| | |] H; try (now split). now elim (H (a, g)). }
        destruct (Ho (if t then TimedOut else lib_parse code pg)) as [-> ->]; [|now repeat split].
        intros x. destruct Ht as [->|Ht]; [discriminate|]. destruct t; [discriminate|]. destruct Ht as [->|[->| ->]]; discriminate. }
      destruct E2 as (Ep & Epe & Ese). split; [assumption|]. split; [assumption|].
      cbn [Model.handle]. replace (identity s2 c) with (Some U) by (unfold identity; rewrite Ese; symmetry; exact Hid).
      rewrite Ep. rewrite (find_app_last _ _ (mkPr n U code pg OError OError []) (no_problem_pmatch _ _ _ _ Hsf1 Hsf2 Hnew) (pmatch_self _ _ _ _ eq_refl eq_refl)).
      reflexivity.
    Qed.

    (** the running entry after a panic: removed by the repaired code, left behind on the pinned tree *)
    Theorem running_after_panic : lib_parse code pg = Panicked ->
      let s2 := complete (fst (handle s c (RAdd n code pg fresh))) k false in
      (remove_on_panic = true -> no_running U n (running s2)) /\
      (remove_on_panic = false -> In (U, n, TParse) (running s2)).
    Proof.
      intros Hp s2. unfold s2. rewrite add_complete. cbn iota zeta. rewrite Hp. cbn [keep_of]. split; intros ->; cbn [negb running].
      - now apply no_running_remove.
      - now left.
    Qed.
    Theorem running_stale_after_panic : lib_parse code pg = Panicked -> remove_on_panic = false ->
      let s2 := complete (fst (handle s c (RAdd n code pg fresh))) k false in
      handle s2 c (RGet n) = (s2, (200, PProblem (mkInfo n code pg OError [] [TParse]))).
    Proof.
      intros Hp Hrp s2. destruct (filters_ok_inv Hok) as (_ & _ & _ & _ & (Hg1 & Hg2) & _).
      assert (E2 : s2 = mkSt (users s) (probs s ++ [mkPr n U code pg OError OError []]) ((U, n, TParse) :: running s) (pending s) (sessions s)).
      { unfold s2. rewrite add_complete. cbn iota zeta. rewrite Hp. cbn [keep_of adf_of parse_of]. now rewrite Hrp. }
      rewrite (get_last s2 c U n (probs s) (mkPr n U code pg OError OError []) Hok); try reflexivity; try assumption;
        [|rewrite E2; exact Hid|now rewrite E2].
      do 3 f_equal. rewrite E2. unfold info_of. cbn [p_name p_code p_parsing p_parse p_res p_owner running filter fst snd].
      rewrite !str_eqb_refl. cbn [andb map snd]. now rewrite (no_running_info U n _ Hrun).
    Qed.
    (** after the 120 s limit the entry stays, with either setting *)
    Theorem running_stale_after_timeout :
      let s2 := complete (fst (handle s c (RAdd n code pg fresh))) k true in
      In (U, n, TParse) (running s2) /\
      handle s2 c (RGet n) = (s2, (200, PProblem (mkInfo n code pg OError [] [TParse]))).
    Proof.
      intros s2. destruct (filters_ok_inv Hok) as (_ & _ & _ & _ & (Hg1 & Hg2) & _).
      assert (E2 : s2 = mkSt (users s) (probs s ++ [mkPr n U code pg OError OError []]) ((U, n, TParse) :: running s) (pending s) (sessions s)).
      { unfold s2. rewrite add_complete. reflexivity. }
      split; [rewrite E2; now left|].
      rewrite (get_last s2 c U n (probs s) (mkPr n U code pg OError OError []) Hok); try reflexivity; try assumption;
        [|rewrite E2; exact Hid|now rewrite E2].
      do 3 f_equal. rewrite E2. unfold info_of. cbn [p_name p_code p_parsing p_parse p_res p_owner running filter fst snd].
      rewrite !str_eqb_refl. cbn [andb map snd]. now rewrite (no_running_info U n _ Hrun).
    Qed.
  End AddSolve.
End Isolation.

(** * Concrete histories (refutations and the tie to the filter table) *)
Module Concrete.
  Definition cparse (code : str) (_ : parsing) : outcome (unit * str) := Done (tt, code).   (* the "answer" is the code itself *)
  Definition csolve (_ : unit) (_ : strategy) : outcome str := Done [].
  Definition cdigest (p : str) : str := 36 :: p.
  Definition A : str := [65].  Definition A2 : str := [65; 50].  Definition Bn : str := [66].
  Definition pn : str := [112]. Definition qn : str := [113].
  Definition pw : str := [49].  Definition pw2 : str := [50].
  Definition X : str := [120].  Definition Y : str := [121].  Definition F : str := [116].
  Definition run (t : ftable) := run_events unit str cparse csolve cdigest t true s0.
  Definition state_after (t : ftable) es := fst (run t es).
  Definition last_response (t : ftable) es := last (snd (run t es)) None.
  Definition mkP (name owner code : str) (a : opt3 unit) (g : opt3 str) : problem unit str := mkPr name owner code PNaive a g [].

  Lemma cdigest_injective p q : cdigest p = cdigest q -> p = q.
  Proof. unfold cdigest. congruence. Qed.

  (** The rename hazard: client 0 registers A, logs in and adds problem p (code X; its parse task is
      captured under the name A); client 0 renames itself to A2; client 1 registers the free name A,
      logs in and adds its own p (code Y).  The completion of client 0's task then writes the result
      for X into client 1's problem; client 0's own problem never receives it. *)
  Definition hazard_prefix : list event :=
    [EReq 0 (RRegister A pw); EReq 0 (RLogin A pw); EReq 0 (RAdd pn X PNaive F); EReq 0 (RUpdate A2 pw);
     EReq 1 (RRegister A pw2); EReq 1 (RLogin A pw2); EReq 1 (RAdd pn Y PNaive F)].

  Theorem isolation_rename_refuted :
    let s := state_after table_full hazard_prefix in
    let s' := state_after table_full (hazard_prefix ++ [EComplete 0 false]) in
    filters_ok table_full = true /\
    identity s 0 = Some A2 /\ identity s 1 = Some A /\
    (* the task about to complete was started by client 0 (code X), before the rename *)
    nth_error (pending s) 0 = Some (mkT A pn TParse X PNaive None) /\
    owned _ _ A s = [mkP pn A Y ONone ONone] /\
    (* ... and it changes the problem of the new holder of the name A: the result for X under the code Y *)
    owned _ _ A s' = [mkP pn A Y (OSome tt) (OSome X)] /\
    owned _ _ A2 s' = [mkP pn A2 X ONone ONone] /\
    last_response table_full (hazard_prefix ++ [EComplete 0 false; EReq 1 (RGet pn)])
      = Some (200, PProblem (mkInfo pn Y PNaive (OSome X) [] [])) /\
    (* the event is not one of the new principal's: with B = {client 1} the history is not [history_ok] ... *)
    ~ history_ok unit str cparse csolve cdigest table_full true (fun c => Nat.eqb c 1) A s0 hazard_prefix /\
    (* ... and the state in which the name A is free again (after the rename) still holds a task captured under A *)
    (let sr := state_after table_full (firstn 4 hazard_prefix) in
     find_user sr A = None /\ (forall c, identity sr c <> Some A) /\ owned _ _ A sr = [] /\
     pending_of _ _ A sr = [mkT A pn TParse X PNaive None]).
  Proof.
    cbv zeta. repeat split; try (vm_compute; reflexivity).
    - intros H. cbn [hazard_prefix history_ok] in H. destruct H as (_ & _ & H & _).
      cbn [outsider_ok] in H. destruct (H eq_refl) as [H1 _]. apply H1. vm_compute. reflexivity.
    - intros c. vm_compute. destruct c as [|c]; discriminate.
  Qed.

  (** The stale-session hazard: the cookie of a second browser of the former holder of the name A
      survives the deletion of the account; it reads and deletes the problems of the next holder of
      the name (although it could not log in any more). *)
  Definition stale_prefix : list event :=
    [EReq 0 (RRegister A pw); EReq 0 (RLogin A pw); EReq 2 (RLogin A pw); EReq 0 RDelAcc;
     EReq 1 (RRegister A pw2); EReq 1 (RLogin A pw2); EReq 1 (RAdd pn Y PNaive F)].
  Theorem isolation_stale_session_refuted :
    let s := state_after table_full stale_prefix in
    identity s 2 = Some A /\ identity s 1 = Some A /\ identity s 0 = None /\
    last_response table_full (stale_prefix ++ [EReq 3 (RLogin A pw)]) = Some (400, PNone) /\
    last_response table_full (stale_prefix ++ [EReq 2 (RGet pn)]) = Some (200, PProblem (mkInfo pn Y PNaive ONone [] [TParse])) /\
    last_response table_full (stale_prefix ++ [EReq 2 (RDelete pn)]) = Some (200, PNone) /\
    owned _ _ A (state_after table_full (stale_prefix ++ [EReq 2 (RDelete pn)])) = [].
  Proof. cbv zeta. repeat split; vm_compute; reflexivity. Qed.

  (** ... and a problem stored through such a stale session belongs to nobody until somebody registers the name *)
  Definition orphan_prefix : list event :=
    [EReq 0 (RRegister A pw); EReq 0 (RLogin A pw); EReq 2 (RLogin A pw); EReq 0 RDelAcc; EReq 2 (RAdd qn X PNaive F)].
  Theorem orphan_problem_refuted :
    let s := state_after table_full orphan_prefix in
    find_user s A = None /\ owned _ _ A s = [mkP qn A X ONone ONone] /\
    last_response table_full (orphan_prefix ++ [EReq 1 (RRegister A pw2); EReq 1 (RLogin A pw2); EReq 1 RList])
      = Some (200, PProblems [mkInfo qn X PNaive ONone [] [TParse]]).
  Proof. cbv zeta. repeat split; vm_compute; reflexivity. Qed.

  (** The user name space is shared: removing the events of another user changes what the own events do
      (so "the state of U is that of the sub-history of U's own events" is false). *)
  Definition own_events : list event :=
    [EReq 0 (RRegister A pw); EReq 0 (RLogin A pw); EReq 0 (RAdd pn X PNaive F); EReq 0 (RUpdate Bn pw)].
  Theorem isolation_subhistory_refuted :
    owned _ _ A (state_after table_full (EReq 1 (RRegister Bn pw2) :: own_events)) = [mkP pn A X ONone ONone] /\
    last_response table_full (EReq 1 (RRegister Bn pw2) :: own_events) = Some (409, PNone) /\
    owned _ _ A (state_after table_full own_events) = [] /\
    last_response table_full own_events = Some (200, PUser Bn false).
  Proof. repeat split; vm_compute; reflexivity. Qed.

  (** A task outlives its problem: delete and re-add under the same name while the first parse is
      pending, and the stored parse result is the one of the deleted code. *)
  Definition readd_history : list event :=
    [EReq 0 (RRegister A pw); EReq 0 (RLogin A pw); EReq 0 (RAdd pn X PNaive F); EReq 0 (RDelete pn);
     EReq 0 (RAdd pn Y PNaive F); EComplete 0 false].
  Theorem stale_parse_after_readd :
    owned _ _ A (state_after table_full readd_history) = [mkP pn A Y (OSome tt) (OSome X)] /\
    cparse Y PNaive = Done (tt, Y).
  Proof. split; vm_compute; reflexivity. Qed.

  (** C. without the "username" key at the find_one of GET the tie breaks: client 1 reads client 0's problem *)
  Definition table_get_without_user : ftable :=
    mkFT [FName; FUser] [FName; FUser] [FName; FUser] [FName; FUser] [FName] [FName; FUser] [FUser] [FUser] [FUser].
  Definition leak_history : list event :=
    [EReq 0 (RRegister A pw); EReq 0 (RLogin A pw); EReq 0 (RAdd pn X PNaive F);
     EReq 1 (RRegister Bn pw2); EReq 1 (RLogin Bn pw2); EReq 1 (RGet pn)].
  Theorem leak_without_username_key :
    filters_ok table_get_without_user = false /\
    let s := state_after table_get_without_user leak_history in
    identity s 1 = Some Bn /\ owned _ _ Bn s = [] /\
    last_response table_get_without_user leak_history = Some (200, PProblem (mkInfo pn X PNaive ONone [] [TParse])) /\
    last_response table_full leak_history = Some (404, PNone).
  Proof. cbv zeta. repeat split; vm_compute; reflexivity. Qed.
End Concrete.

Print Assumptions login_iff.
Print Assumptions login_sets_identity.
Print Assumptions temp_cannot_login.
Print Assumptions stored_is_digest.
Print Assumptions login_password_unique.
Print Assumptions latest_password_update.
Print Assumptions latest_password_register.
Print Assumptions unauthenticated_no_data.
Print Assumptions usernames_unique.
Print Assumptions handle_frame.
Print Assumptions handle_frame_existing.
Print Assumptions complete_frame.
Print Assumptions frame_history.
Print Assumptions response_contains_only_own.
Print Assumptions response_anonymous_no_problem.
Print Assumptions response_local.
Print Assumptions response_local_anonymous.
Print Assumptions tasks_started_by_own.
Print Assumptions isolation.
Print Assumptions isolation_from_s0.
Print Assumptions stored_after_add_solve.
Print Assumptions stored_after_failed_parse.
Print Assumptions running_after_panic.
Print Assumptions running_stale_after_panic.
Print Assumptions running_stale_after_timeout.
Print Assumptions Concrete.isolation_rename_refuted.
Print Assumptions Concrete.isolation_stale_session_refuted.
Print Assumptions Concrete.orphan_problem_refuted.
Print Assumptions Concrete.isolation_subhistory_refuted.
Print Assumptions Concrete.stale_parse_after_readd.
Print Assumptions Concrete.leak_without_username_key.
