(** Executable model of the web service (server/src/adf.rs, server/src/user.rs): two collections,
    session identities, the eleven handlers, background parse/solve tasks and their completion.
    The keys of every database filter come from a table ([ftable], regenerated from the doc!
    literals of the source by tools/translate.py into Gen/GenFilters.v), so that dropping a key at
    one call site changes the model the same way it changes the code.
    The library is a parameter of the section (instantiated by the verified library model in
    Server/Instance.v); password hashing is an abstract injective digest.  No proofs in this file. *)
From Coq Require Import NArith List Bool.
From ADF Require Import Front.Parser.
Import ListNotations.
Local Open Scope N_scope.

Inductive parsing := PNaive | PHybrid.
Inductive strategy := SGround | SComplete | SStable | SStableCountingA | SStableCountingB | SStableNogood.
Inductive task := TParse | TSolve (s : strategy).

Definition strategy_eqb (a b : strategy) : bool :=
  match a, b with
  | SGround, SGround | SComplete, SComplete | SStable, SStable
  | SStableCountingA, SStableCountingA | SStableCountingB, SStableCountingB | SStableNogood, SStableNogood => true
  | _, _ => false
  end.
Definition task_eqb (a b : task) : bool :=
  match a, b with
  | TParse, TParse => true
  | TSolve x, TSolve y => strategy_eqb x y
  | _, _ => false
  end.

(** OptionWithError *)
Inductive opt3 (A : Type) := ONone | OError | OSome (a : A).
Arguments ONone {A}. Arguments OError {A}. Arguments OSome {A} a.

(** outcome of a background task *)
Inductive outcome (A : Type) := Done (a : A) | Failed | Panicked | TimedOut.
Arguments Done {A} a. Arguments Failed {A}. Arguments Panicked {A}. Arguments TimedOut {A}.

(** filter keys *)
Inductive fld := FUser | FName.
Definition fld_eqb (a b : fld) : bool := match a, b with FUser, FUser | FName, FName => true | _, _ => false end.
Definition has (f : fld) (l : list fld) : bool := existsb (fld_eqb f) l.

(** the call sites of the adf-problems collection *)
Record ftable := mkFT {
  ft_add_exists : list fld;      (* adf_problem_exists, find_one *)
  ft_add_complete : list fld;    (* update_one in the completion of the parse task *)
  ft_solve_find : list fld;
  ft_solve_complete : list fld;  (* update_one in the completion of the solve task *)
  ft_get_find : list fld;
  ft_delete_one : list fld;
  ft_list_find : list fld;
  ft_delacc_many : list fld;     (* delete_many in delete_account *)
  ft_update_many : list fld      (* update_many in update_user *)
}.

Section Server.
  Variable adfdata : Type.                 (* SimplifiedAdf *)
  Variable answers : Type.                 (* Vec<AcAndGraph> *)
  Variable lib_parse : str -> parsing -> outcome (adfdata * answers).
  Variable lib_solve : adfdata -> strategy -> outcome answers.
  Variable digest : str -> str.            (* argon2 with its salt: only verify (digest p) p' <-> p = p' is used *)
  Variable tbl : ftable.
  (** [true] = the running entry of a task is removed also when the task panics (the repaired code);
      [false] = as on the pinned tree (Gen/GenFlags.v) *)
  Variable remove_on_panic : bool.

  Record user := mkU { u_name : str; u_pw : option str }.
  Record problem := mkPr {
    p_name : str; p_owner : str; p_code : str; p_parsing : parsing;
    p_adf : opt3 adfdata; p_parse : opt3 answers; p_res : list (strategy * opt3 answers)
  }.
  Record ptask := mkT { t_owner : str; t_pname : str; t_task : task; t_code : str; t_parsing : parsing; t_adf : option adfdata }.
  Record sstate := mkSt {
    users : list user; probs : list problem;
    running : list (str * str * task);      (* currently_running *)
    pending : list ptask;                   (* started, not yet completed *)
    sessions : list (nat * str)             (* client -> identity carried by its cookie *)
  }.
  Definition s0 : sstate := mkSt [] [] [] [] [].

  Definition identity (s : sstate) (c : nat) : option str :=
    match find (fun p => Nat.eqb (fst p) c) (sessions s) with Some (_, u) => Some u | None => None end.
  Definition set_identity (s : sstate) (c : nat) (u : option str) : sstate :=
    let rest := filter (fun p => negb (Nat.eqb (fst p) c)) (sessions s) in
    mkSt (users s) (probs s) (running s) (pending s) (match u with Some x => (c, x) :: rest | None => rest end).

  Definition find_user (s : sstate) (u : str) : option user := find (fun x => str_eqb (u_name x) u) (users s).

  (** a filter over adf-problems: the keys of the call site, the values the handler supplies *)
  Definition pmatch (keys : list fld) (owner name : str) (p : problem) : bool :=
    (negb (has FUser keys) || str_eqb (p_owner p) owner) && (negb (has FName keys) || str_eqb (p_name p) name).

  Definition res_of (p : problem) (st : strategy) : opt3 answers :=
    match find (fun x => strategy_eqb (fst x) st) (p_res p) with Some (_, r) => r | None => ONone end.
  Definition set_res (p : problem) (st : strategy) (r : opt3 answers) : problem :=
    mkPr (p_name p) (p_owner p) (p_code p) (p_parsing p) (p_adf p) (p_parse p)
         ((st, r) :: filter (fun x => negb (strategy_eqb (fst x) st)) (p_res p)).

  (** update_one: the first matching document *)
  Fixpoint update_first (f : problem -> bool) (g : problem -> problem) (l : list problem) : list problem :=
    match l with
    | [] => []
    | p :: r => if f p then g p :: r else p :: update_first f g r
    end.
  Fixpoint delete_first (f : problem -> bool) (l : list problem) : list problem * bool :=
    match l with
    | [] => ([], false)
    | p :: r => if f p then (r, true) else let '(r', b) := delete_first f r in (p :: r', b)
    end.

  Inductive request :=
  | RRegister (u p : str) | RLogin (u p : str) | RLogout | RInfo | RUpdate (u p : str) | RDelAcc
  | RAdd (name code : str) (pg : parsing) (fresh : str)   (* fresh: the name the generator proposes for a temporary user *)
  | RSolve (name : str) (st : strategy) | RGet (name : str) | RList | RDelete (name : str).

  (** AdfProblemInfo *)
  Record pinfo := mkInfo { i_name : str; i_code : str; i_parsing : parsing; i_parse : opt3 answers;
                           i_res : list (strategy * opt3 answers); i_running : list task }.
  Inductive payload := PNone | PUser (name : str) (temp : bool) | PProblem (i : pinfo) | PProblems (l : list pinfo).
  Definition resp := (N * payload)%type.

  Definition info_of (s : sstate) (p : problem) : pinfo :=
    mkInfo (p_name p) (p_code p) (p_parsing p) (p_parse p) (p_res p)
           (map (fun t => snd t)
                (filter (fun t => str_eqb (snd (fst t)) (p_name p) && str_eqb (fst (fst t)) (p_owner p)) (running s))).

  Definition with_users (s : sstate) (us : list user) := mkSt us (probs s) (running s) (pending s) (sessions s).
  Definition with_probs (s : sstate) (ps : list problem) := mkSt (users s) ps (running s) (pending s) (sessions s).

  Definition handle (s : sstate) (c : nat) (r : request) : sstate * resp :=
    match r with
    | RRegister u p =>
      if (match u with [] => true | _ => false end) || (match p with [] => true | _ => false end) then (s, (400, PNone))
      else match find_user s u with
           | Some _ => (s, (409, PNone))
           | None => (with_users s (users s ++ [mkU u (Some (digest p))]), (200, PNone))
           end
    | RLogin u p =>
      if (match u with [] => true | _ => false end) || (match p with [] => true | _ => false end) then (s, (400, PNone))
      else match find_user s u with
           | None => (s, (404, PNone))
           | Some x => match u_pw x with
                       | None => (s, (400, PNone))                     (* temporary users cannot log in *)
                       | Some d => if str_eqb d (digest p) then (set_identity s c (Some u), (200, PNone)) else (s, (400, PNone))
                       end
           end
    | RLogout =>
      match identity s c with
      | None => (s, (401, PNone))
      | Some u => match find_user s u with
                  | None => (s, (404, PNone))
                  | Some x => match u_pw x with
                              | None => (s, (400, PNone))
                              | Some _ => (set_identity s c None, (200, PNone))
                              end
                  end
      end
    | RInfo =>
      match identity s c with
      | None => (s, (401, PNone))
      | Some u => match find_user s u with
                  | Some x => (s, (200, PUser (u_name x) (match u_pw x with None => true | Some _ => false end)))
                  | None => (set_identity s c None, (404, PNone))
                  end
      end
    | RUpdate u p =>
      if (match u with [] => true | _ => false end) || (match p with [] => true | _ => false end) then (s, (400, PNone))
      else match identity s c with
      | None => (s, (401, PNone))
      | Some old =>
        if negb (str_eqb u old) && (match find_user s u with Some _ => true | None => false end) then (s, (409, PNone))
        else match find_user s old with
             | None => (s, (500, PNone))               (* replace_one modified nothing *)
             | Some _ =>
               let us := map (fun x => if str_eqb (u_name x) old then mkU u (Some (digest p)) else x) (users s) in
               let ps := map (fun q => if pmatch (ft_update_many tbl) old [] q
                                       then mkPr (p_name q) u (p_code q) (p_parsing q) (p_adf q) (p_parse q) (p_res q) else q) (probs s) in
               (set_identity (mkSt us ps (running s) (pending s) (sessions s)) c (Some u), (200, PUser u false))
             end
      end
    | RDelAcc =>
      match identity s c with
      | None => (s, (401, PNone))
      | Some u =>
        let ps := filter (fun q => negb (pmatch (ft_delacc_many tbl) u [] q)) (probs s) in
        match find_user s u with
        | None => (with_probs s ps, (500, PNone))
        | Some _ =>
          (set_identity (mkSt (filter (fun x => negb (str_eqb (u_name x) u)) (users s)) ps (running s) (pending s) (sessions s)) c None,
           (200, PNone))
        end
      end
    | RAdd name code pg fresh =>
      match code with [] => (s, (400, PNone)) | _ =>
      (* identity, or a new temporary user that is logged in *)
      let '(s1, who) :=
        match identity s c with
        | Some u => (s, Some u)
        | None => match find_user s fresh with
                  | Some _ => (s, None)        (* the proposed names are all taken: 500 *)
                  | None => (set_identity (with_users s (users s ++ [mkU fresh None])) c (Some fresh), Some fresh)
                  end
        end in
      match who with
      | None => (s1, (500, PNone))
      | Some u =>
        match name with
        | [] => (s1, (500, PNone))             (* generated problem names are not modelled: the harness always names its problems *)
        | _ =>
          if existsb (pmatch (ft_add_exists tbl) u name) (probs s1) then (s1, (409, PNone))
          else
            let p := mkPr name u code pg ONone ONone [] in
            (mkSt (users s1) (probs s1 ++ [p]) ((u, name, TParse) :: running s1)
                  (pending s1 ++ [mkT u name TParse code pg None]) (sessions s1), (200, PNone))
        end
      end end
    | RSolve name st =>
      match identity s c with
      | None => (s, (401, PNone))
      | Some u =>
        match find (pmatch (ft_solve_find tbl) u name) (probs s) with
        | None => (s, (404, PNone))
        | Some p =>
          match p_adf p with
          | ONone | OError => (s, (400, PNone))
          | OSome a =>
            if (match res_of p st with OSome _ => true | _ => false end)
               || existsb (fun t => str_eqb (fst (fst t)) u && str_eqb (snd (fst t)) name && task_eqb (snd t) (TSolve st)) (running s)
            then (s, (409, PNone))
            else (mkSt (users s) (probs s) ((u, name, TSolve st) :: running s)
                       (pending s ++ [mkT u name (TSolve st) (p_code p) (p_parsing p) (Some a)]) (sessions s), (200, PNone))
          end
        end
      end
    | RGet name =>
      match identity s c with
      | None => (s, (401, PNone))
      | Some u => match find (pmatch (ft_get_find tbl) u name) (probs s) with
                  | None => (s, (404, PNone))
                  | Some p => (s, (200, PProblem (info_of s p)))
                  end
      end
    | RList =>
      match identity s c with
      | None => (s, (401, PNone))
      | Some u => (s, (200, PProblems (map (info_of s) (filter (pmatch (ft_list_find tbl) u []) (probs s)))))
      end
    | RDelete name =>
      match identity s c with
      | None => (s, (401, PNone))
      | Some u => let '(ps, b) := delete_first (pmatch (ft_delete_one tbl) u name) (probs s) in
                  if b then (with_probs s ps, (200, PNone)) else (s, (500, PNone))
      end
    end.

  (** completion of the [i]-th pending task.  [timeout = true]: the 120 s limit fired first (the
      blocking thread keeps running, its entry in currently_running stays). *)
  Definition remove_running (l : list (str * str * task)) (t : ptask) :=
    filter (fun x => negb (str_eqb (fst (fst x)) (t_owner t) && str_eqb (snd (fst x)) (t_pname t) && task_eqb (snd x) (t_task t))) l.

  Definition complete (s : sstate) (i : nat) (timeout : bool) : sstate :=
    match nth_error (pending s) i with
    | None => s
    | Some t =>
      let pend := firstn i (pending s) ++ skipn (S i) (pending s) in
      match t_task t with
      | TParse =>
        let o := if timeout then TimedOut else lib_parse (t_code t) (t_parsing t) in
        let '(adf, pr) := match o with Done (a, g) => (OSome a, OSome g) | _ => (OError, OError) end in
        let keep := match o with Done _ | Failed => false | Panicked => negb remove_on_panic | TimedOut => true end in
        mkSt (users s)
             (update_first (pmatch (ft_add_complete tbl) (t_owner t) (t_pname t))
                           (fun q => mkPr (p_name q) (p_owner q) (p_code q) (p_parsing q) adf pr (p_res q)) (probs s))
             (if keep then running s else remove_running (running s) t) pend (sessions s)
      | TSolve st =>
        let o := if timeout then TimedOut else match t_adf t with Some a => lib_solve a st | None => Panicked end in
        let r := match o with Done g => OSome g | _ => OError end in
        let keep := match o with Done _ | Failed => false | Panicked => negb remove_on_panic | TimedOut => true end in
        mkSt (users s)
             (update_first (pmatch (ft_solve_complete tbl) (t_owner t) (t_pname t)) (fun q => set_res q st r) (probs s))
             (if keep then running s else remove_running (running s) t) pend (sessions s)
      end
    end.

  Inductive event := EReq (c : nat) (r : request) | EComplete (i : nat) (timeout : bool).

  Definition step (s : sstate) (e : event) : sstate * option resp :=
    match e with
    | EReq c r => let '(s', x) := handle s c r in (s', Some x)
    | EComplete i t => (complete s i t, None)
    end.

  Fixpoint run_events (s : sstate) (es : list event) : sstate * list (option resp) :=
    match es with
    | [] => (s, [])
    | e :: r => let '(s1, x) := step s e in let '(s2, xs) := run_events s1 r in (s2, x :: xs)
    end.
End Server.

(** the filter table every call site of which carries the keys it needs *)
Definition table_full : ftable :=
  mkFT [FName; FUser] [FName; FUser] [FName; FUser] [FName; FUser] [FName; FUser] [FName; FUser] [FUser] [FUser] [FUser].

Definition filters_ok (t : ftable) : bool :=
  has FUser (ft_add_exists t) && has FName (ft_add_exists t) &&
  has FUser (ft_add_complete t) && has FName (ft_add_complete t) &&
  has FUser (ft_solve_find t) && has FName (ft_solve_find t) &&
  has FUser (ft_solve_complete t) && has FName (ft_solve_complete t) &&
  has FUser (ft_get_find t) && has FName (ft_get_find t) &&
  has FUser (ft_delete_one t) && has FName (ft_delete_one t) &&
  has FUser (ft_list_find t) && has FUser (ft_delacc_many t) && has FUser (ft_update_many t).
