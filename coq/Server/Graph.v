(** Executable model of server/src/double_labeled_graph.rs: DoubleLabeledGraph::from_adf_and_ac.
    The node set is computed by the iterated frontier loop of the source; labels, root labels and
    the two edge lists are read off the node table.  No proofs in this file. *)
From Coq Require Import NArith List Bool.
From ADF Require Import Spec.Spec Bdd.Store.
Import ListNotations.
Local Open Scope N_scope.

Inductive nlabel := LTop | LBot | LVar (v : N).

Record dgraph := mkG {
  g_nodes : list N;                    (* node_indices, ascending *)
  g_labels : list (N * nlabel);        (* node_labels *)
  g_roots : list (N * list nat);       (* tree_root_labels: node -> statements it is the root of *)
  g_lo : list (N * N);                 (* lo_edges *)
  g_hi : list (N * N)                  (* hi_edges *)
}.

Definition tnode (tab : list node) (h : N) : node := nth (N.to_nat h) tab (mkN VTOP 1 1).

(** one round of the while loop: the children of all collected nodes that are not collected yet *)
Definition frontier (tab : list node) (seen : list N) : list N :=
  fold_left (fun acc h =>
               let n := tnode tab h in
               let acc1 := if nset_mem (nlo n) seen || nset_mem (nlo n) acc then acc else nset_add (nlo n) acc in
               if nset_mem (nhi n) seen || nset_mem (nhi n) acc1 then acc1 else nset_add (nhi n) acc1)
            seen [].

Fixpoint collect (fuel : nat) (tab : list node) (seen new : list N) : list N :=
  match fuel with
  | O => seen
  | S f =>
    match new with
    | [] => seen
    | _ => let seen' := nset_union seen new in collect f tab seen' (frontier tab seen')
    end
  end.

Definition in_set (l : list N) (h : N) : bool := nset_mem h l.

Definition from_adf_and_ac (tab : list node) (ac : list N) : dgraph :=
  let roots := fold_left (fun acc h => nset_add h acc) ac [] in
  let idx := collect (S (length tab)) tab [] roots in
  let all := map N.of_nat (seq 0 (length tab)) in
  let nodes := filter (in_set idx) all in
  let label (h : N) := let v := nv (tnode tab h) in if v =? VTOP then LTop else if v =? VBOT then LBot else LVar v in
  let inner := filter (fun h => negb ((nv (tnode tab h) =? VTOP) || (nv (tnode tab h) =? VBOT))) nodes in
  mkG nodes
      (map (fun h => (h, label h)) nodes)
      (map (fun h => (h, map fst (filter (fun p => snd p =? h) (combine (seq 0 (length ac)) ac)))) nodes)
      (map (fun h => (h, nlo (tnode tab h))) inner)
      (map (fun h => (h, nhi (tnode tab h))) inner).
