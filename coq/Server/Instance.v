(** The web-service model instantiated with the verified library model and the filter table
    regenerated from the source.  Executable (extracted); no proofs in this file. *)
From Coq Require Import NArith List Bool.
From ADF Require Import Base.Maps Spec.Spec Bdd.Store Adf.Iter Adf.Native Adf.NoGood Adf.Search Front.Parser
     Server.Model Server.Graph Gen.GenFilters.
Import ListNotations.
Local Open Scope N_scope.

(** SimplifiedAdf: ordering (names), node list, roots *)
Definition adfdata := (list str * list node * list N)%type.
(** Vec<AcAndGraph>: the interpretations as handle vectors, each with its graph *)
Definition answers := list (list N * dgraph).

Definition cfgS : cfg := cfg_default.

Definition lib_parse (code : str) (pg : parsing) : outcome (adfdata * answers) :=
  let '(ps, ok) := parse code in
  if negb ok then Failed else
  match resolve_acs (names ps) (acs ps) with
  | None => Panicked               (* an ac fact or atom names an undeclared statement: formula_order / term panic *)
  | Some fs =>
    match from_parser cfgS (length (names ps)) fs with
    | Some (st, ac) => Done ((names ps, table_of st, ac), [(ac, from_adf_and_ac (table_of st) ac)])
    | None => Panicked
    end
  end.

Definition lib_solve (a : adfdata) (s : strategy) : outcome answers :=
  let '(nm, tab, ac) := a in
  let st := from_nodes cfgS tab in          (* Adf::from(SimplifiedAdf): Bdd::from(nodes) replays through node() *)
  let r :=
    match s with
    | SGround => match grounded cfgS st ac with Some (s', g) => Some (s', [g]) | None => None end
    | SComplete => Native.complete cfgS st ac
    | SStable => stable cfgS st ac
    | SStableCountingA => stable_count_cur cfgS heu_a ac st
    | SStableCountingB => stable_count_cur cfgS heu_b ac st
    | SStableNogood => match nogood_search_cur cfgS ac HSimple false 300000 st [] with Some (s', l, _) => Some (s', l) | None => None end
    end in
  (* the graphs are drawn from the diagram as it is AFTER the computation *)
  match r with Some (s', l) => Done (map (fun v => (v, from_adf_and_ac (table_of s') v)) l) | None => Panicked end.

Definition digest (p : str) : str := 36 :: p.

Definition handle_cur := handle adfdata answers digest g_ftable.
Definition complete_cur := Model.complete adfdata answers lib_parse lib_solve g_ftable g_remove_on_panic.
Definition run_events_cur := run_events adfdata answers lib_parse lib_solve digest g_ftable g_remove_on_panic.
