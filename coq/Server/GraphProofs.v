(** Proofs about the model of server/src/double_labeled_graph.rs (Server/Graph.v):
    the node set is exactly the set of handles reachable from the roots, the edge lists, the node
    labels and the root labels are read off the node table, and following the edges from the root
    of a statement according to an assignment ends in the node labelled TOP iff the acceptance
    condition is true under that assignment. *)
From Coq Require Import NArith List Bool Lia Arith ListSet Sorted.
From ADF Require Import Base.Maps Spec.Spec Bdd.Store Bdd.WF Server.Graph.
Import ListNotations.
Local Open Scope N_scope.

(* ------------------------------------------------------------------ *)
(** * Reachability in a node table *)

Inductive reach (tab : list node) (ac : list N) : N -> Prop :=
| reach_root h : In h ac -> reach tab ac h
| reach_lo h : reach tab ac h -> nv (tnode tab h) < VBOT -> reach tab ac (nlo (tnode tab h))
| reach_hi h : reach tab ac h -> nv (tnode tab h) < VBOT -> reach tab ac (nhi (tnode tab h)).

Definition child (tab : list node) (h x : N) : Prop :=
  x = nlo (tnode tab h) \/ x = nhi (tnode tab h).

(** what the loop needs from the table: children stay inside the table, and the children of a
    node that is not an inner node are the node itself (the two terminals) *)
Definition tab_ok (tab : list node) : Prop :=
  forall h, h < N.of_nat (length tab) ->
    (nv (tnode tab h) < VBOT \/ (nlo (tnode tab h) = h /\ nhi (tnode tab h) = h)) /\
    nlo (tnode tab h) < N.of_nat (length tab) /\ nhi (tnode tab h) < N.of_nat (length tab).

Lemma reach_child tab ac h x : tab_ok tab -> h < N.of_nat (length tab) ->
  reach tab ac h -> child tab h x -> reach tab ac x.
Proof.
  intros T Hh R C. destruct (T h Hh) as ([Hv | [E1 E2]] & _ & _).
  - destruct C as [-> | ->]; [apply reach_lo|apply reach_hi]; assumption.
  - destruct C as [-> | ->]; [rewrite E1|rewrite E2]; exact R.
Qed.

Lemma reach_bounded tab ac h : tab_ok tab -> Forall (fun x => x < N.of_nat (length tab)) ac ->
  reach tab ac h -> h < N.of_nat (length tab).
Proof.
  intros T B R. induction R as [h Hin | h R IH Hv | h R IH Hv].
  - rewrite Forall_forall in B. apply B. exact Hin.
  - apply (T h IH).
  - apply (T h IH).
Qed.

(* ------------------------------------------------------------------ *)
(** * The list sets *)

Lemma nset_mem_iff x l : nset_mem x l = true <-> In x l.
Proof.
  unfold nset_mem. split.
  - apply set_mem_correct1.
  - apply set_mem_correct2.
Qed.

Lemma nset_mem_false x l : nset_mem x l = false <-> ~ In x l.
Proof.
  rewrite <- nset_mem_iff. destruct (nset_mem x l); split; congruence.
Qed.

Lemma nset_add_iff x y l : In x (nset_add y l) <-> x = y \/ In x l.
Proof. unfold nset_add. apply set_add_iff. Qed.

Lemma nset_add_nodup y l : NoDup l -> NoDup (nset_add y l).
Proof. unfold nset_add. apply set_add_nodup. Qed.

Lemma nset_union_iff x a b : In x (nset_union a b) <-> In x a \/ In x b.
Proof. unfold nset_union. apply set_union_iff. Qed.

Lemma nset_union_nodup a b : NoDup a -> NoDup b -> NoDup (nset_union a b).
Proof. unfold nset_union. apply set_union_nodup. Qed.

Lemma roots_spec ac : forall acc, NoDup acc ->
  let r := fold_left (fun acc h => nset_add h acc) ac acc in
  NoDup r /\ forall x, In x r <-> In x acc \/ In x ac.
Proof.
  induction ac as [|h ac IH]; intros acc ND; cbn [fold_left].
  - split; [exact ND|]. intros x. cbn [In]. tauto.
  - destruct (IH (nset_add h acc) (nset_add_nodup h acc ND)) as [ND' Hin].
    split; [exact ND'|]. intros x. rewrite Hin, nset_add_iff. cbn [In].
    split; [intros [[->|H]|H]|intros [H|[->|H]]]; auto.
Qed.

(** "push y unless it is already collected or already pushed" *)
Lemma add_if_spec seen acc y :
  let r := if nset_mem y seen || nset_mem y acc then acc else nset_add y acc in
  (NoDup acc -> NoDup r) /\ forall x, In x r <-> In x acc \/ (x = y /\ ~ In y seen).
Proof.
  cbv zeta. destruct (nset_mem y seen) eqn:M1; cbn [orb].
  - apply nset_mem_iff in M1. split; [auto|]. intros x. split; [auto|]. intros [H|[_ H]]; [exact H|contradiction].
  - apply nset_mem_false in M1. destruct (nset_mem y acc) eqn:M2.
    + apply nset_mem_iff in M2. split; [auto|]. intros x. split; [auto|]. intros [H|[-> _]]; assumption.
    + split; [apply nset_add_nodup|]. intros x. rewrite nset_add_iff. split.
      * intros [->|H]; auto.
      * intros [H|[-> _]]; auto.
Qed.

Definition fstep (tab : list node) (seen : list N) (acc : list N) (h : N) : list N :=
  let n := tnode tab h in
  let acc1 := if nset_mem (nlo n) seen || nset_mem (nlo n) acc then acc else nset_add (nlo n) acc in
  if nset_mem (nhi n) seen || nset_mem (nhi n) acc1 then acc1 else nset_add (nhi n) acc1.

Lemma fstep_spec tab seen acc h : NoDup acc ->
  NoDup (fstep tab seen acc h) /\
  forall x, In x (fstep tab seen acc h) <-> In x acc \/ (child tab h x /\ ~ In x seen).
Proof.
  intros ND. unfold fstep. cbv zeta.
  destruct (add_if_spec seen acc (nlo (tnode tab h))) as [N1 I1]. cbv zeta in N1, I1.
  set (acc1 := if nset_mem (nlo (tnode tab h)) seen || nset_mem (nlo (tnode tab h)) acc
               then acc else nset_add (nlo (tnode tab h)) acc) in *.
  destruct (add_if_spec seen acc1 (nhi (tnode tab h))) as [N2 I2]. cbv zeta in N2, I2.
  split; [auto|]. intros x. rewrite I2, I1. unfold child. split.
  - intros [[H|[-> H]]|[-> H]]; auto.
  - intros [H|[[-> | ->] H]]; auto.
Qed.

Lemma frontier_fold_spec tab seen : forall l acc, NoDup acc ->
  let r := fold_left (fstep tab seen) l acc in
  NoDup r /\ forall x, In x r <-> In x acc \/ (~ In x seen /\ exists h, In h l /\ child tab h x).
Proof.
  induction l as [|h l IH]; intros acc ND; cbn [fold_left].
  - split; [exact ND|]. intros x. split; [auto|]. intros [H|(_ & h & [] & _)]. exact H.
  - destruct (fstep_spec tab seen acc h ND) as [N1 I1].
    destruct (IH _ N1) as [N2 I2]. cbv zeta in N2, I2. split; [exact N2|].
    intros x. rewrite I2, I1. cbn [In]. split.
    + intros [[H|[C H]]|(H & k & Hk & C)]; auto.
      * right. split; [exact H|]. exists h. auto.
      * right. split; [exact H|]. exists k. auto.
    + intros [H|(H & k & [->|Hk] & C)]; auto.
      right. split; [exact H|]. exists k. auto.
Qed.

Lemma frontier_spec tab seen :
  NoDup (frontier tab seen) /\
  forall x, In x (frontier tab seen) <-> (~ In x seen /\ exists h, In h seen /\ child tab h x).
Proof.
  destruct (frontier_fold_spec tab seen seen [] (NoDup_nil N)) as [ND Hin]. cbv zeta in ND, Hin.
  change (fold_left (fstep tab seen) seen []) with (frontier tab seen) in ND, Hin.
  split; [exact ND|]. intros x. rewrite Hin. cbn [In]. tauto.
Qed.

(* ------------------------------------------------------------------ *)
(** * The loop *)

Lemma bounded_nodup_length (n : nat) (l : list N) :
  NoDup l -> (forall x, In x l -> x < N.of_nat n) -> (length l <= n)%nat.
Proof.
  intros ND B.
  assert (I : incl l (map N.of_nat (seq 0 n))).
  { intros x Hx. apply in_map_iff. exists (N.to_nat x). split; [lia|].
    apply in_seq. specialize (B x Hx). lia. }
  pose proof (NoDup_incl_length ND I) as L. rewrite map_length, seq_length in L. exact L.
Qed.

Record cinv (tab : list node) (ac seen new : list N) : Prop := mkCinv {
  ci_nd_seen : NoDup seen;
  ci_nd_new : NoDup new;
  ci_disj : forall x, In x new -> ~ In x seen;
  ci_reach : forall x, In x seen \/ In x new -> reach tab ac x;
  ci_roots : forall x, In x ac -> In x seen \/ In x new;
  ci_closed : forall h x, In h seen -> child tab h x -> In x seen \/ In x new
}.

Lemma cinv_step tab ac seen new : tab_ok tab -> Forall (fun x => x < N.of_nat (length tab)) ac ->
  cinv tab ac seen new ->
  cinv tab ac (nset_union seen new) (frontier tab (nset_union seen new)).
Proof.
  intros T B [N1 N2 Dj Rc Rt Cl].
  destruct (frontier_spec tab (nset_union seen new)) as [NF IF].
  constructor.
  - apply nset_union_nodup; assumption.
  - exact NF.
  - intros x Hx. apply IF in Hx. tauto.
  - intros x [Hx|Hx].
    + apply Rc. apply nset_union_iff. exact Hx.
    + apply IF in Hx. destruct Hx as (_ & h & Hh & C).
      assert (Rh : reach tab ac h) by (apply Rc; apply nset_union_iff; exact Hh).
      apply (reach_child tab ac h x T (reach_bounded tab ac h T B Rh) Rh C).
  - intros x Hx. left. apply nset_union_iff. apply Rt. exact Hx.
  - intros h x Hh C. destruct (in_dec N.eq_dec x (nset_union seen new)) as [Hin|Hnin]; [left; exact Hin|].
    right. apply IF. split; [exact Hnin|]. exists h. auto.
Qed.

Lemma union_grows seen new y : NoDup seen -> NoDup new -> In y new -> ~ In y seen ->
  (S (length seen) <= length (nset_union seen new))%nat.
Proof.
  intros N1 N2 Hy Hn.
  assert (ND : NoDup (y :: seen)) by (constructor; assumption).
  assert (I : incl (y :: seen) (nset_union seen new)).
  { intros x [<-|Hx]; apply nset_union_iff; auto. }
  apply (NoDup_incl_length ND I).
Qed.

Lemma collect_spec tab ac : tab_ok tab -> Forall (fun x => x < N.of_nat (length tab)) ac ->
  forall fuel seen new, cinv tab ac seen new -> (S (length tab) <= fuel + length seen)%nat ->
  let r := collect fuel tab seen new in
  NoDup r /\ forall x, In x r <-> reach tab ac x.
Proof.
  intros T B. induction fuel as [|f IH]; intros seen new CI HF.
  - exfalso. destruct CI as [N1 _ _ Rc _ _].
    assert (L : (length seen <= length tab)%nat).
    { apply bounded_nodup_length; [exact N1|]. intros x Hx.
      apply (reach_bounded tab ac x T B). apply Rc. auto. }
    lia.
  - cbn [collect]. destruct new as [|y new'].
    + destruct CI as [N1 _ _ Rc Rt Cl]. cbv zeta. split; [exact N1|]. intros x. split.
      * intros Hx. apply Rc. auto.
      * intros R. induction R as [h Hin | h R IHR Hv | h R IHR Hv].
        -- destruct (Rt h Hin) as [H|[]]. exact H.
        -- destruct (Cl h (nlo (tnode tab h)) IHR (or_introl eq_refl)) as [H|[]]. exact H.
        -- destruct (Cl h (nhi (tnode tab h)) IHR (or_intror eq_refl)) as [H|[]]. exact H.
    + cbv zeta. apply IH.
      * apply cinv_step; assumption.
      * destruct CI as [N1 N2 Dj _ _ _].
        pose proof (union_grows seen (y :: new') y N1 N2 (or_introl eq_refl) (Dj y (or_introl eq_refl))).
        lia.
Qed.

Lemma cinv_init tab ac : cinv tab ac [] (fold_left (fun acc h => nset_add h acc) ac []).
Proof.
  destruct (roots_spec ac [] (NoDup_nil N)) as [ND Hin]. cbv zeta in ND, Hin.
  constructor.
  - constructor.
  - exact ND.
  - intros x _ [].
  - intros x [[]|Hx]. apply Hin in Hx. destruct Hx as [[]|Hx]. apply reach_root. exact Hx.
  - intros x Hx. right. apply Hin. auto.
  - intros h x [].
Qed.

Definition node_index (tab : list node) (ac : list N) : list N :=
  collect (S (length tab)) tab [] (fold_left (fun acc h => nset_add h acc) ac []).

Lemma node_index_spec tab ac : tab_ok tab -> Forall (fun x => x < N.of_nat (length tab)) ac ->
  NoDup (node_index tab ac) /\ forall x, In x (node_index tab ac) <-> reach tab ac x.
Proof.
  intros T B. apply (collect_spec tab ac T B (S (length tab)) [] _ (cinv_init tab ac)).
  cbn [length]. lia.
Qed.

(* ------------------------------------------------------------------ *)
(** * Sorted lists of handles *)

Lemma seq_sorted : forall k a, StronglySorted N.lt (map N.of_nat (seq a k)).
Proof.
  induction k as [|k IH]; intros a; cbn [seq map]; constructor.
  - apply IH.
  - apply Forall_forall. intros x Hx. apply in_map_iff in Hx. destruct Hx as (j & <- & Hj).
    apply in_seq in Hj. lia.
Qed.

Lemma filter_sorted {A} (R : A -> A -> Prop) (p : A -> bool) l :
  StronglySorted R l -> StronglySorted R (filter p l).
Proof.
  induction 1 as [|x l Hs IH Hx]; cbn [filter]; [constructor|].
  destruct (p x); [|exact IH]. constructor; [exact IH|].
  apply Forall_forall. intros y Hy. apply filter_In in Hy. rewrite Forall_forall in Hx. apply Hx, Hy.
Qed.

Lemma sorted_lt_nodup l : StronglySorted N.lt l -> NoDup l.
Proof.
  induction 1 as [|x l Hs IH Hx]; constructor; [|exact IH].
  intros Hin. rewrite Forall_forall in Hx. specialize (Hx x Hin). lia.
Qed.

(* ------------------------------------------------------------------ *)
(** * The graph over an arbitrary table satisfying [tab_ok] *)

Definition label_of_tab (tab : list node) (h : N) : nlabel :=
  let v := nv (tnode tab h) in if v =? VTOP then LTop else if v =? VBOT then LBot else LVar v.
Definition inner_tab (tab : list node) (h : N) : bool :=
  negb ((nv (tnode tab h) =? VTOP) || (nv (tnode tab h) =? VBOT)).
Definition roots_at (ac : list N) (h : N) : list nat :=
  map fst (filter (fun p => snd p =? h) (combine (seq 0 (length ac)) ac)).

Lemma graph_unfold tab ac :
  let nodes := filter (in_set (node_index tab ac)) (map N.of_nat (seq 0 (length tab))) in
  let inner := filter (inner_tab tab) nodes in
  from_adf_and_ac tab ac =
  mkG nodes (map (fun h => (h, label_of_tab tab h)) nodes) (map (fun h => (h, roots_at ac h)) nodes)
      (map (fun h => (h, nlo (tnode tab h))) inner) (map (fun h => (h, nhi (tnode tab h))) inner).
Proof. reflexivity. Qed.

Lemma g_nodes_spec tab ac : tab_ok tab -> Forall (fun x => x < N.of_nat (length tab)) ac ->
  let g := from_adf_and_ac tab ac in
  (forall h, In h (g_nodes g) <-> reach tab ac h) /\ StronglySorted N.lt (g_nodes g).
Proof.
  intros T B. cbv zeta. rewrite graph_unfold. cbv zeta. cbn [g_nodes].
  destruct (node_index_spec tab ac T B) as [_ Hin]. split.
  - intros h. rewrite filter_In. unfold in_set. rewrite nset_mem_iff, Hin. split; [tauto|].
    intros R. split; [|exact R]. apply in_map_iff. exists (N.to_nat h). split; [lia|].
    apply in_seq. pose proof (reach_bounded tab ac h T B R). lia.
  - apply filter_sorted. apply seq_sorted.
Qed.

Lemma combine_seq_In (l : list N) : forall a i x,
  In (i, x) (combine (seq a (length l)) l) <-> (a <= i < a + length l)%nat /\ nth (i - a) l 0 = x.
Proof.
  induction l as [|y l IH]; intros a i x; cbn [length seq combine In].
  - split; [tauto|lia].
  - rewrite IH. split.
    + intros [E|[H1 H2]].
      * inversion E; subst. split; [lia|]. rewrite Nat.sub_diag. reflexivity.
      * split; [lia|]. replace (i - a)%nat with (S (i - S a)) by lia. exact H2.
    + intros [H1 H2]. destruct (Nat.eq_dec i a) as [->|Hne].
      * left. rewrite Nat.sub_diag in H2. cbn [nth] in H2. congruence.
      * right. split; [lia|]. replace (i - a)%nat with (S (i - S a)) in H2 by lia. exact H2.
Qed.

Lemma roots_at_In ac h i : In i (roots_at ac h) <-> (i < length ac)%nat /\ nth i ac 0 = h.
Proof.
  unfold roots_at. rewrite in_map_iff. split.
  - intros ([j x] & <- & Hp). apply filter_In in Hp. destruct Hp as [Hp Hx]. cbn [fst snd] in *.
    apply combine_seq_In in Hp. rewrite Nat.sub_0_r in Hp. apply N.eqb_eq in Hx.
    destruct Hp as [Hp <-]. split; [lia|exact Hx].
  - intros [Hi <-]. exists (i, nth i ac 0). split; [reflexivity|]. apply filter_In. cbn [snd].
    split; [|apply N.eqb_refl]. apply combine_seq_In. rewrite Nat.sub_0_r. split; [lia|reflexivity].
Qed.

Lemma combine_seq_fst_sorted (l : list N) : forall a,
  StronglySorted lt (map fst (combine (seq a (length l)) l)).
Proof.
  induction l as [|y l IH]; intros a; cbn [length seq combine map fst]; constructor.
  - apply IH.
  - apply Forall_forall. intros i Hi. apply in_map_iff in Hi. destruct Hi as ([j x] & <- & Hp).
    apply combine_seq_In in Hp. cbn [fst]. lia.
Qed.

Lemma map_filter_sorted {A B} (R : B -> B -> Prop) (f : A -> B) (p : A -> bool) l :
  StronglySorted R (map f l) -> StronglySorted R (map f (filter p l)).
Proof.
  induction l as [|x l IH]; cbn [map filter]; intros H; [constructor|].
  inversion H as [|? ? Hs Hx]; subst. destruct (p x); cbn [map]; [|apply IH; exact Hs].
  constructor; [apply IH; exact Hs|].
  apply Forall_forall. intros y Hy. apply in_map_iff in Hy. destruct Hy as (z & <- & Hz).
  apply filter_In in Hz. rewrite Forall_forall in Hx. apply Hx. apply in_map. apply Hz.
Qed.

Lemma roots_at_sorted ac h : StronglySorted lt (roots_at ac h).
Proof. unfold roots_at. apply map_filter_sorted. apply combine_seq_fst_sorted. Qed.

Lemma map_fst_pairs {A} (f : N -> A) l : map fst (map (fun h => (h, f h)) l) = l.
Proof. induction l as [|x l IH]; cbn [map fst]; [reflexivity|]. rewrite IH. reflexivity. Qed.

Lemma in_pairs {A} (f : N -> A) l h y : In (h, y) (map (fun h => (h, f h)) l) <-> In h l /\ y = f h.
Proof.
  rewrite in_map_iff. split.
  - intros (x & E & Hx). inversion E; subst. auto.
  - intros [Hh ->]. exists h. auto.
Qed.

(* ------------------------------------------------------------------ *)
(** * Lookup in association lists, the walk *)

Definition lookup {A} (h : N) (l : list (N * A)) : option A :=
  option_map snd (find (fun p => fst p =? h) l).

Lemma lookup_pairs {A} (f : N -> A) l h : In h l -> lookup h (map (fun x => (x, f x)) l) = Some (f h).
Proof.
  unfold lookup. induction l as [|x l IH]; intros Hin; [destruct Hin|]. cbn [map find fst].
  destruct (N.eqb_spec x h) as [->|Hne]; [reflexivity|].
  destruct Hin as [->|Hin]; [contradiction|]. apply IH. exact Hin.
Qed.

Lemma lookup_pairs_none {A} (f : N -> A) l h : ~ In h l -> lookup h (map (fun x => (x, f x)) l) = None.
Proof.
  unfold lookup. induction l as [|x l IH]; intros Hin; [reflexivity|]. cbn [map find fst].
  destruct (N.eqb_spec x h) as [->|Hne]; [exfalso; apply Hin; left; reflexivity|].
  apply IH. intros H. apply Hin. right. exact H.
Qed.

(** the node at which statement [i] is listed as a root *)
Definition root_of (g : dgraph) (i : nat) : option N :=
  option_map fst (find (fun p => existsb (Nat.eqb i) (snd p)) (g_roots g)).

(** follow the hi edge if the variable of the label is true, the lo edge otherwise; stop at a node
    that carries a terminal label; [None] = missing label, missing edge or fuel exhausted *)
Fixpoint walk (g : dgraph) (fuel : nat) (h : N) (a : asg) : option N :=
  match fuel with
  | O => None
  | S f =>
    match lookup h (g_labels g) with
    | Some LTop => Some h
    | Some LBot => Some h
    | Some (LVar v) =>
      match lookup h (if a v then g_hi g else g_lo g) with
      | Some h' => walk g f h' a
      | None => None
      end
    | None => None
    end
  end.

Lemma filter_len_le {A} (p : A -> bool) l : (length (filter p l) <= length l)%nat.
Proof. induction l as [|x l IH]; cbn [filter length]; [lia|]. destruct (p x); cbn [length]; lia. Qed.

Lemma filter_length_lt {A} (p q : A -> bool) l y :
  (forall x, p x = true -> q x = true) -> In y l -> p y = false -> q y = true ->
  (length (filter p l) < length (filter q l))%nat.
Proof.
  intros Hpq. assert (Le : forall l, (length (filter p l) <= length (filter q l))%nat).
  { induction l0 as [|x l0 IH]; cbn [filter]; [lia|].
    destruct (p x) eqn:Px; [rewrite (Hpq x Px); cbn [length]; lia|].
    destruct (q x); cbn [length]; lia. }
  induction l as [|x l IH]; intros Hin Py Qy; [destruct Hin|]. cbn [filter].
  destruct Hin as [->|Hin].
  - rewrite Py, Qy. cbn [length]. specialize (Le l). lia.
  - specialize (IH Hin Py Qy). destruct (p x) eqn:Px; [rewrite (Hpq x Px); cbn [length]; lia|].
    destruct (q x); cbn [length]; lia.
Qed.

(* ------------------------------------------------------------------ *)
(** * The graph of a well-formed store *)

Lemma tnode_table_of st h : h < size st -> tnode (table_of st) h = get_node st h.
Proof. intros H. exact (getn_table_of st h H). Qed.

Lemma table_size st : N.of_nat (length (table_of st)) = size st.
Proof. rewrite table_of_length. lia. Qed.

Lemma table_of_tab_ok st : WFN st -> tab_ok (table_of st).
Proof.
  intros W h Hh. rewrite table_size in *. rewrite tnode_table_of by exact Hh.
  pose proof (wf_size st W) as S2.
  destruct (N.eq_dec h 0) as [->|H0].
  { rewrite get_node_0 by exact W. cbn [node_bot nv nlo nhi]. split; [right; auto|lia]. }
  destruct (N.eq_dec h 1) as [->|H1].
  { rewrite get_node_1 by exact W. cbn [node_top nv nlo nhi]. split; [right; auto|lia]. }
  assert (H2 : 2 <= h) by lia.
  destruct (wf_node' st h W H2 Hh) as (Hv & _ & Hlo & Hhi & _). split; [left; exact Hv|lia].
Qed.

(** the terminals are recognised by their variable *)
Lemma nv_VTOP_iff st h : WFN st -> h < size st -> (nv (get_node st h) = VTOP <-> h = 1).
Proof.
  intros W Hh. destruct (N.eq_dec h 0) as [->|H0].
  { rewrite get_node_0 by exact W. cbn. split; [discriminate|lia]. }
  destruct (N.eq_dec h 1) as [->|H1].
  { rewrite get_node_1 by exact W. cbn. tauto. }
  pose proof (nv_nonterminal st h W ltac:(lia) Hh) as Hv. pose proof VBOT_lt_VTOP. split; lia.
Qed.
Lemma nv_VBOT_iff st h : WFN st -> h < size st -> (nv (get_node st h) = VBOT <-> h = 0).
Proof.
  intros W Hh. destruct (N.eq_dec h 0) as [->|H0].
  { rewrite get_node_0 by exact W. cbn. tauto. }
  destruct (N.eq_dec h 1) as [->|H1].
  { rewrite get_node_1 by exact W. cbn. split; [discriminate|lia]. }
  pose proof (nv_nonterminal st h W ltac:(lia) Hh) as Hv. split; lia.
Qed.
Lemma nv_inner_iff st h : WFN st -> h < size st -> (nv (get_node st h) < VBOT <-> 2 <= h).
Proof.
  intros W Hh. split.
  - intros Hv. destruct (N.eq_dec h 0) as [->|H0].
    { rewrite get_node_0 in Hv by exact W. cbn in Hv. lia. }
    destruct (N.eq_dec h 1) as [->|H1].
    { rewrite get_node_1 in Hv by exact W. cbn in Hv. pose proof VBOT_lt_VTOP. lia. }
    lia.
  - intros H2. apply nv_nonterminal; assumption.
Qed.

Lemma inner_tab_iff st h : WFN st -> h < size st ->
  (inner_tab (table_of st) h = true <-> nv (get_node st h) < VBOT).
Proof.
  intros W Hh. unfold inner_tab. rewrite tnode_table_of by exact Hh.
  rewrite negb_true_iff, orb_false_iff, !N.eqb_neq.
  rewrite (nv_VTOP_iff st h W Hh), (nv_VBOT_iff st h W Hh), (nv_inner_iff st h W Hh). lia.
Qed.

Definition label_of (st : store) (h : N) : nlabel :=
  if h =? 1 then LTop else if h =? 0 then LBot else LVar (nv (get_node st h)).

Lemma label_of_tab_eq st h : WFN st -> h < size st -> label_of_tab (table_of st) h = label_of st h.
Proof.
  intros W Hh. unfold label_of_tab, label_of. cbv zeta. rewrite tnode_table_of by exact Hh.
  destruct (N.eqb_spec (nv (get_node st h)) VTOP) as [E|E].
  - apply (nv_VTOP_iff st h W Hh) in E. subst h. reflexivity.
  - destruct (N.eqb_spec h 1) as [->|H1]; [exfalso; apply E; apply (nv_VTOP_iff st 1 W Hh); reflexivity|].
    destruct (N.eqb_spec (nv (get_node st h)) VBOT) as [E0|E0].
    + apply (nv_VBOT_iff st h W Hh) in E0. subst h. reflexivity.
    + destruct (N.eqb_spec h 0) as [->|H0]; [exfalso; apply E0; apply (nv_VBOT_iff st 0 W Hh); reflexivity|].
      reflexivity.
Qed.

Section Graph.
Variable st : store.
Variable ac : list N.
Hypothesis W : WFN st.
Hypothesis B : Forall (fun h => h < size st) ac.

Let tab := table_of st.
Let g := from_adf_and_ac tab ac.

Lemma B' : Forall (fun x => x < N.of_nat (length tab)) ac.
Proof. unfold tab. rewrite table_size. exact B. Qed.

Lemma reach_lt h : reach tab ac h -> h < size st.
Proof.
  intros R. rewrite <- table_size. apply (reach_bounded tab ac h (table_of_tab_ok st W) B' R).
Qed.

(** the graph contains exactly the handles reachable from the roots, each once, ascending *)
Theorem graph_nodes_exact :
  (forall h, In h (g_nodes g) <-> reach tab ac h) /\ NoDup (g_nodes g) /\ StronglySorted N.lt (g_nodes g).
Proof.
  destruct (g_nodes_spec tab ac (table_of_tab_ok st W) B') as [Hin Hs]. cbv zeta in Hin, Hs.
  split; [exact Hin|]. split; [apply sorted_lt_nodup|]; exact Hs.
Qed.

(** reachability over the store: inner nodes are the handles >= 2 *)
Lemma reach_store_lo h : reach tab ac h -> 2 <= h -> reach tab ac (nlo (get_node st h)).
Proof.
  intros R H2. pose proof (reach_lt h R) as Hh. rewrite <- (tnode_table_of st h Hh).
  apply reach_lo; [exact R|]. fold tab. unfold tab. rewrite tnode_table_of by exact Hh.
  apply nv_nonterminal; assumption.
Qed.
Lemma reach_store_hi h : reach tab ac h -> 2 <= h -> reach tab ac (nhi (get_node st h)).
Proof.
  intros R H2. pose proof (reach_lt h R) as Hh. rewrite <- (tnode_table_of st h Hh).
  apply reach_hi; [exact R|]. fold tab. unfold tab. rewrite tnode_table_of by exact Hh.
  apply nv_nonterminal; assumption.
Qed.

Lemma in_inner h :
  In h (filter (inner_tab tab) (g_nodes g)) <-> reach tab ac h /\ nv (get_node st h) < VBOT.
Proof.
  destruct graph_nodes_exact as (Hin & _ & _). rewrite filter_In, Hin. split.
  - intros [R Hi]. split; [exact R|]. apply (inner_tab_iff st h W (reach_lt h R)). exact Hi.
  - intros [R Hv]. split; [exact R|]. apply (inner_tab_iff st h W (reach_lt h R)). exact Hv.
Qed.

Lemma g_lo_unfold :
  g_lo g = map (fun h => (h, nlo (tnode tab h))) (filter (inner_tab tab) (g_nodes g)).
Proof. reflexivity. Qed.
Lemma g_hi_unfold :
  g_hi g = map (fun h => (h, nhi (tnode tab h))) (filter (inner_tab tab) (g_nodes g)).
Proof. reflexivity. Qed.
Lemma g_labels_unfold : g_labels g = map (fun h => (h, label_of_tab tab h)) (g_nodes g).
Proof. reflexivity. Qed.
Lemma g_roots_unfold : g_roots g = map (fun h => (h, roots_at ac h)) (g_nodes g).
Proof. reflexivity. Qed.

(** edges: every reachable inner node has exactly one lo edge and one hi edge, to its children in
    the store; terminals have no outgoing edge; no edge is listed twice; edges stay in the graph *)
Theorem graph_edges_exact :
  (forall h x, In (h, x) (g_lo g) <-> reach tab ac h /\ nv (get_node st h) < VBOT /\ x = nlo (get_node st h)) /\
  (forall h x, In (h, x) (g_hi g) <-> reach tab ac h /\ nv (get_node st h) < VBOT /\ x = nhi (get_node st h)) /\
  NoDup (map fst (g_lo g)) /\ NoDup (map fst (g_hi g)) /\
  (forall h x, In (h, x) (g_lo g) \/ In (h, x) (g_hi g) -> In h (g_nodes g) /\ In x (g_nodes g) /\ 2 <= h /\ x < h).
Proof.
  destruct graph_nodes_exact as (Hin & ND & _).
  assert (Elo : forall h x, In (h, x) (g_lo g) <->
            reach tab ac h /\ nv (get_node st h) < VBOT /\ x = nlo (get_node st h)).
  { intros h x. rewrite g_lo_unfold, in_pairs, in_inner. split.
    - intros [[R Hv] ->]. split; [exact R|]. split; [exact Hv|].
      unfold tab. rewrite tnode_table_of by (apply reach_lt; exact R). reflexivity.
    - intros (R & Hv & ->). split; [auto|].
      unfold tab. rewrite tnode_table_of by (apply reach_lt; exact R). reflexivity. }
  assert (Ehi : forall h x, In (h, x) (g_hi g) <->
            reach tab ac h /\ nv (get_node st h) < VBOT /\ x = nhi (get_node st h)).
  { intros h x. rewrite g_hi_unfold, in_pairs, in_inner. split.
    - intros [[R Hv] ->]. split; [exact R|]. split; [exact Hv|].
      unfold tab. rewrite tnode_table_of by (apply reach_lt; exact R). reflexivity.
    - intros (R & Hv & ->). split; [auto|].
      unfold tab. rewrite tnode_table_of by (apply reach_lt; exact R). reflexivity. }
  split; [exact Elo|]. split; [exact Ehi|].
  split; [rewrite g_lo_unfold, map_fst_pairs; apply NoDup_filter; exact ND|].
  split; [rewrite g_hi_unfold, map_fst_pairs; apply NoDup_filter; exact ND|].
  intros h x [H|H]; [apply Elo in H|apply Ehi in H]; destruct H as (R & Hv & ->);
    pose proof (reach_lt h R) as Hh; apply (nv_inner_iff st h W Hh) in Hv;
    destruct (wf_node' st h W Hv Hh) as (_ & _ & Hlo & Hhi & _).
  - split; [apply Hin; exact R|]. split; [apply Hin; apply reach_store_lo; assumption|]. split; assumption.
  - split; [apply Hin; exact R|]. split; [apply Hin; apply reach_store_hi; assumption|]. split; assumption.
Qed.

(** labels: node 1 is TOP, node 0 is BOT, every other node carries its variable (which is a proper
    variable); every node of the graph has exactly one label and nothing else is labelled *)
Theorem graph_labels_exact :
  map fst (g_labels g) = g_nodes g /\
  (forall h l, In (h, l) (g_labels g) <-> reach tab ac h /\ l = label_of st h) /\
  (forall h, reach tab ac h -> lookup h (g_labels g) = Some (label_of st h)) /\
  (forall h, ~ reach tab ac h -> lookup h (g_labels g) = None) /\
  (forall h, 2 <= h -> h < size st -> label_of st h = LVar (nv (get_node st h)) /\ nv (get_node st h) < VBOT).
Proof.
  destruct graph_nodes_exact as (Hin & ND & _).
  split; [rewrite g_labels_unfold; apply map_fst_pairs|].
  split; [|split; [|split]].
  - intros h l. rewrite g_labels_unfold, in_pairs, Hin. split.
    + intros [R ->]. split; [exact R|]. apply label_of_tab_eq; [exact W|apply reach_lt; exact R].
    + intros [R ->]. split; [exact R|]. symmetry. apply label_of_tab_eq; [exact W|apply reach_lt; exact R].
  - intros h R. rewrite g_labels_unfold, lookup_pairs by (apply Hin; exact R).
    f_equal. apply label_of_tab_eq; [exact W|apply reach_lt; exact R].
  - intros h R. rewrite g_labels_unfold. apply lookup_pairs_none. intros H. apply R, Hin, H.
  - intros h H2 Hh. split; [|apply nv_nonterminal; assumption]. unfold label_of.
    destruct (N.eqb_spec h 1) as [?|_]; [lia|]. destruct (N.eqb_spec h 0) as [?|_]; [lia|]. reflexivity.
Qed.

(** root labels: statement [i] is listed at node [h] iff [h] is the [i]-th acceptance condition;
    every statement is listed at exactly one node, and that node is in the graph *)
Theorem graph_roots_exact :
  map fst (g_roots g) = g_nodes g /\
  (forall h l, In (h, l) (g_roots g) ->
     (forall i, In i l <-> (i < length ac)%nat /\ nth i ac 0 = h) /\ StronglySorted lt l) /\
  (forall i, (i < length ac)%nat ->
     In (nth i ac 0) (g_nodes g) /\
     forall h l, In (h, l) (g_roots g) -> (In i l <-> h = nth i ac 0)) /\
  (forall i, (i < length ac)%nat -> root_of g i = Some (nth i ac 0)) /\
  (forall i, (length ac <= i)%nat -> root_of g i = None).
Proof.
  destruct graph_nodes_exact as (Hin & ND & _).
  assert (Hroot : forall i, (i < length ac)%nat -> In (nth i ac 0) (g_nodes g)).
  { intros i Hi. apply Hin. apply reach_root. apply nth_In. exact Hi. }
  split; [rewrite g_roots_unfold; apply map_fst_pairs|].
  split; [|split; [|split]].
  - intros h l H. rewrite g_roots_unfold, in_pairs in H. destruct H as [_ ->].
    split; [intros i; apply roots_at_In|apply roots_at_sorted].
  - intros i Hi. split; [apply Hroot; exact Hi|].
    intros h l H. rewrite g_roots_unfold, in_pairs in H. destruct H as [_ ->].
    rewrite roots_at_In. split; [intros [_ E]; auto|intros ->; auto].
  - intros i Hi. unfold root_of.
    destruct (find (fun p => existsb (Nat.eqb i) (snd p)) (g_roots g)) as [[h l]|] eqn:F.
    + apply find_some in F. destruct F as [F1 F2]. cbn [snd] in F2.
      rewrite g_roots_unfold, in_pairs in F1. destruct F1 as [_ ->].
      apply existsb_exists in F2. destruct F2 as (j & Hj & E). apply Nat.eqb_eq in E. subst j.
      apply roots_at_In in Hj. destruct Hj as [_ <-]. reflexivity.
    + exfalso. pose proof (find_none _ _ F (nth i ac 0, roots_at ac (nth i ac 0))) as Fn.
      cbn [snd] in Fn. rewrite g_roots_unfold, in_pairs in Fn.
      specialize (Fn (conj (Hroot i Hi) eq_refl)).
      assert (Ex : existsb (Nat.eqb i) (roots_at ac (nth i ac 0)) = true).
      { apply existsb_exists. exists i. split; [apply roots_at_In; auto|apply Nat.eqb_refl]. }
      congruence.
  - intros i Hi. unfold root_of.
    destruct (find (fun p => existsb (Nat.eqb i) (snd p)) (g_roots g)) as [[h l]|] eqn:F; [|reflexivity].
    exfalso. apply find_some in F. destruct F as [F1 F2]. cbn [snd] in F2.
    rewrite g_roots_unfold, in_pairs in F1. destruct F1 as [_ ->].
    apply existsb_exists in F2. destruct F2 as (j & Hj & E). apply Nat.eqb_eq in E. subst j.
    apply roots_at_In in Hj. lia.
Qed.

(** the number of graph nodes up to [h]: the fuel the walk needs from [h] *)
Definition below (h : N) : nat := length (filter (fun x => x <=? h) (g_nodes g)).

Lemma below_le h : (below h <= length (g_nodes g))%nat.
Proof. unfold below. apply filter_len_le. Qed.

Lemma below_lt h x : In h (g_nodes g) -> x < h -> (below x < below h)%nat.
Proof.
  intros Hin Hx. unfold below. apply (filter_length_lt _ _ _ h).
  - intros y Hy. apply N.leb_le in Hy. apply N.leb_le. lia.
  - exact Hin.
  - apply N.leb_gt. exact Hx.
  - apply N.leb_le. lia.
Qed.

(** the walk from a node of the graph ends in node 1 or node 0 according to the denotation *)
Lemma walk_den a : forall fuel h, reach tab ac h -> (below h <= fuel)%nat ->
  walk g fuel h a = Some (if den st h a then 1 else 0).
Proof.
  destruct graph_nodes_exact as (Hin & _ & _).
  destruct graph_labels_exact as (_ & _ & Hlab & _ & Hlv).
  destruct graph_edges_exact as (Elo & Ehi & _).
  induction fuel as [|f IH]; intros h R HF.
  - exfalso. assert (In h (g_nodes g)) as Hh by (apply Hin; exact R).
    assert (0 < below h)%nat; [|lia]. unfold below.
    assert (In h (filter (fun x => x <=? h) (g_nodes g))) as Hf.
    { apply filter_In. split; [exact Hh|apply N.leb_refl]. }
    destruct (filter (fun x => x <=? h) (g_nodes g)); [destruct Hf|cbn [length]; lia].
  - cbn [walk]. rewrite (Hlab h R). pose proof (reach_lt h R) as Hh.
    destruct (N.eq_dec h 1) as [->|H1]; [reflexivity|].
    destruct (N.eq_dec h 0) as [->|H0]; [reflexivity|].
    assert (H2 : 2 <= h) by lia. destruct (Hlv h H2 Hh) as [-> Hv].
    destruct (wf_node' st h W H2 Hh) as (_ & _ & Hlo & Hhi & _).
    rewrite (den_node st h a W H2 Hh).
    assert (Inn : In h (filter (inner_tab tab) (g_nodes g))) by (apply in_inner; auto).
    destruct (a (nv (get_node st h))).
    + rewrite g_hi_unfold, (lookup_pairs _ _ h Inn).
      unfold tab at 1. rewrite tnode_table_of by exact Hh.
      apply IH; [apply reach_store_hi; assumption|].
      pose proof (below_lt h (nhi (get_node st h)) (proj2 (Hin h) R) Hhi). lia.
    + rewrite g_lo_unfold, (lookup_pairs _ _ h Inn).
      unfold tab at 1. rewrite tnode_table_of by exact Hh.
      apply IH; [apply reach_store_lo; assumption|].
      pose proof (below_lt h (nlo (get_node st h)) (proj2 (Hin h) R) Hlo). lia.
Qed.

(** following the edges from the root of statement [i] according to [a] ends in the node labelled
    TOP iff the acceptance condition of [i] is true under [a]; otherwise in the node labelled BOT.
    As many steps as the graph has nodes suffice. *)
Theorem graph_evaluates i a fuel : (i < length ac)%nat -> (length (g_nodes g) <= fuel)%nat ->
  exists r t, root_of g i = Some r /\ r = nth i ac 0 /\ walk g fuel r a = Some t /\
    (lookup t (g_labels g) = Some LTop <-> den st (nth i ac 0) a = true) /\
    (lookup t (g_labels g) = Some LBot <-> den st (nth i ac 0) a = false).
Proof.
  intros Hi HF.
  destruct graph_roots_exact as (_ & _ & _ & Hroot & _).
  destruct graph_labels_exact as (_ & _ & Hlab & _ & _).
  assert (R : reach tab ac (nth i ac 0)) by (apply reach_root; apply nth_In; exact Hi).
  exists (nth i ac 0), (if den st (nth i ac 0) a then 1 else 0).
  split; [apply Hroot; exact Hi|]. split; [reflexivity|].
  split; [apply walk_den; [exact R|]; pose proof (below_le (nth i ac 0)); lia|].
  (* the terminal reached is itself in the graph *)
  assert (Rt : reach tab ac (if den st (nth i ac 0) a then 1 else 0)).
  { assert (G : forall h, reach tab ac h -> reach tab ac (if den st h a then 1 else 0)).
    { intros h. induction h as [h IHh] using N_strong_ind. intros Rh.
      pose proof (reach_lt h Rh) as Hh.
      destruct (N.eq_dec h 1) as [->|H1]; [exact Rh|].
      destruct (N.eq_dec h 0) as [->|H0]; [exact Rh|].
      assert (H2 : 2 <= h) by lia.
      destruct (wf_node' st h W H2 Hh) as (_ & _ & Hlo & Hhi & _).
      rewrite (den_node st h a W H2 Hh).
      destruct (a (nv (get_node st h))); apply IHh; auto using reach_store_lo, reach_store_hi. }
    apply G. exact R. }
  rewrite (Hlab _ Rt). destruct (den st (nth i ac 0) a).
  - change (label_of st 1) with LTop. split; split; congruence.
  - change (label_of st 0) with LBot. split; split; congruence.
Qed.

End Graph.

(* ------------------------------------------------------------------ *)
(** * Example: s0 <- s1 & not s2, s1 <- top, s2 <- s1.  The variable nodes 2 and 4 (s0, s2) are
    not reachable from the three roots and are not part of the graph. *)

From ADF Require Import Adf.Native.

Definition ex_graph : option (list N * dgraph) :=
  match from_parser cfg_default 3 [(0%nat, FAnd (FAtom 1) (FNot (FAtom 2))); (1%nat, FTop); (2%nat, FAtom 1)] with
  | Some (st, ac) => Some (ac, from_adf_and_ac (table_of st) ac)
  | None => None
  end.

Example ex_graph_value :
  ex_graph = Some ([6; 1; 3],
    mkG [0; 1; 3; 5; 6]
        [(0, LBot); (1, LTop); (3, LVar 1); (5, LVar 2); (6, LVar 1)]
        [(0, []); (1, [1%nat]); (3, [2%nat]); (5, []); (6, [0%nat])]
        [(3, 0); (5, 1); (6, 0)]
        [(3, 1); (5, 0); (6, 5)]).
Proof. vm_compute. reflexivity. Qed.

Example ex_graph_walk :
  match ex_graph with
  | Some (_, g) =>
    root_of g 0 = Some 6 /\
    walk g 5 6 (fun v => v =? 1) = Some 1 /\            (* s1 true, s2 false: accepted *)
    walk g 5 6 (fun v => (v =? 1) || (v =? 2)) = Some 0   (* s1, s2 true: rejected *)
  | None => False
  end.
Proof. vm_compute. repeat split. Qed.

Print Assumptions graph_nodes_exact.
Print Assumptions graph_edges_exact.
Print Assumptions graph_labels_exact.
Print Assumptions graph_roots_exact.
Print Assumptions graph_evaluates.
