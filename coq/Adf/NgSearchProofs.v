(** Proofs about the nogood-learning search of Adf/Search.v ([nogood_search], the model of
    nogood_internal in lib/src/adf.rs):
    - the built-in branching heuristics are admissible (they propose an undecided position and a
      truth value), the unrepaired random heuristic is not;
    - soundness: every interpretation emitted is a two-valued model / a stable model;
    - the two stacks stay synchronous and no nogood is too long for the store: no panic;
    - termination within a bound depending only on the number of statements, for every admissible
      heuristic (for at least one statement; on the empty ADF the loop as it was never ends; the
      repaired loop, [stop_exhausted = true], which ends when a backtrack finds no choice entry,
      terminates on every framework and returns the empty model once on the empty one);
    - completeness and absence of duplicates, for both forms of the loop. *)
From Coq Require Import NArith List Bool Lia Arith.
From ADF Require Import Base.Maps Spec.Spec Spec.Theory Bdd.Store Bdd.WF Bdd.Node Bdd.Restrict Bdd.Ops
  Adf.Iter Adf.IterProofs Adf.Native Adf.NoGood Adf.NoGoodProofs Adf.NativeBase Adf.GroundedProofs
  Adf.CompleteProofs Adf.StableProofs Adf.Search.
Import ListNotations.
Local Open Scope N_scope.

(* ------------------------------------------------------------------ *)
(** * Admissible heuristics *)

Definition undecided_at (v : list N) (i : nat) : Prop :=
  (i < length v)%nat /\ is_tv (nth i v 2) = false.

(** a heuristic is admissible when it proposes an undecided position together with a truth
    value, and gives up only when nothing is undecided ([None] = the supplied prefix of the
    random stream is used up) *)
Definition admissible (c : cfg) (h : heuristic) (rf : bool) : Prop :=
  forall st s,
    match run_heuristic c h rf st s with
    | Some (Some (var, t), _) => undecided_at (g_cur s) var /\ (t = 0 \/ t = 1)
    | Some (None, _) => forall i, ~ undecided_at (g_cur s) i
    | None => True
    end.

Definition cands (v : list N) : list (nat * N) := filter (fun p => negb (is_tv (snd p))) (enum v).

Lemma in_cands v i t : In (i, t) (cands v) <-> nth_error v i = Some t /\ is_tv t = false.
Proof.
  unfold cands, enum. rewrite filter_In, in_combine_seq0. cbn [snd].
  rewrite negb_true_iff. reflexivity.
Qed.

Lemma nth_error_nth' {A} (l : list A) i x d : nth_error l i = Some x -> nth i l d = x /\ (i < length l)%nat.
Proof.
  intros H. split.
  - rewrite nth_nth_error, H. reflexivity.
  - apply nth_error_Some. congruence.
Qed.

Lemma in_cands_undecided v i t : In (i, t) (cands v) -> undecided_at v i /\ t = nth i v 2.
Proof.
  intros H. apply in_cands in H. destruct H as [H1 H2].
  destruct (nth_error_nth' v i t 2 H1) as [E L]. unfold undecided_at. rewrite E. auto.
Qed.

Lemma cands_nil v : cands v = [] -> forall i, ~ undecided_at v i.
Proof.
  intros H i [L U].
  assert (K : In (i, nth i v 2) (cands v)).
  { apply in_cands. split; [|exact U].
    destruct (nth_error v i) as [x|] eqn:E.
    - destruct (nth_error_nth' v i x 2 E) as [E' _]. congruence.
    - apply nth_error_None in E. lia. }
  rewrite H in K. destruct K.
Qed.

Lemma min_by_in {A} (cmp : A -> A -> comparison) l x : min_by cmp l = Some x -> In x l.
Proof.
  destruct l as [|y r]; cbn [min_by]; [discriminate|].
  intros H. inversion H as [E]. clear H E.
  revert y. induction r as [|z r IH]; intros y; cbn [fold_left].
  - now left.
  - destruct (cmp y z).
    + destruct (IH y) as [<-|K]; [now left|right; now right].
    + destruct (IH y) as [<-|K]; [now left|right; now right].
    + destruct (IH z) as [<-|K]; [right; now left|right; now right].
Qed.

Lemma min_by_none {A} (cmp : A -> A -> comparison) l : min_by cmp l = None -> l = [].
Proof. destruct l; [reflexivity|discriminate]. Qed.

Lemma b2t_tv b : b2t b = 0 \/ b2t b = 1.
Proof. destruct b; auto. Qed.

Lemma heu_simple_adm v :
  match heu_simple v with
  | Some (i, t) => undecided_at v i /\ (t = 0 \/ t = 1)
  | None => forall i, ~ undecided_at v i
  end.
Proof.
  unfold heu_simple. fold (cands v). destruct (cands v) as [|[i t] r] eqn:E.
  - now apply cands_nil.
  - split; [|now right].
    apply (in_cands_undecided v i t). rewrite E. now left.
Qed.

Theorem simple_admissible c rf : admissible c HSimple rf.
Proof. intros st s. cbn [run_heuristic]. apply heu_simple_adm. Qed.

Theorem minpaths_admissible c rf : admissible c HMinPathsMaxImp rf.
Proof.
  intros st s. cbn [run_heuristic]. unfold heu_mc_minpaths_maxvarimp. fold (cands (g_cur s)).
  destruct (min_by _ (cands (g_cur s))) as [[i t]|] eqn:E.
  - apply min_by_in in E. split; [|apply b2t_tv]. apply (in_cands_undecided _ _ _ E).
  - apply min_by_none in E. now apply cands_nil.
Qed.

Theorem maximp_admissible c rf : admissible c HMaxImpMinPaths rf.
Proof.
  intros st s. cbn [run_heuristic]. unfold heu_mc_maxvarimp_minpaths. fold (cands (g_cur s)).
  destruct (min_by _ (cands (g_cur s))) as [[i t]|] eqn:E.
  - apply min_by_in in E. split; [|apply b2t_tv]. apply (in_cands_undecided _ _ _ E).
  - apply min_by_none in E. now apply cands_nil.
Qed.

Theorem static_admissible c rf order vals : admissible c (HStatic order vals) rf.
Proof.
  intros st s. cbn [run_heuristic]. unfold heu_static.
  destruct (filter _ order) as [|i r] eqn:E.
  - apply heu_simple_adm.
  - split; [|apply b2t_tv].
    assert (K : In i (filter (fun i => negb (is_tv (nth i (g_cur s) 0))) order)) by (rewrite E; now left).
    apply filter_In in K. destruct K as [_ K]. apply negb_true_iff in K.
    assert (L : (i < length (g_cur s))%nat).
    { destruct (lt_dec i (length (g_cur s))) as [L|L]; [exact L|].
      rewrite nth_overflow in K by lia. discriminate K. }
    split; [exact L|]. rewrite (nth_indep _ 2 0 L). exact K.
Qed.

(** the repaired random heuristic *)
Theorem rand_filtered_admissible c : admissible c HRand true.
Proof.
  intros st s. cbn [run_heuristic]. unfold heu_rand. fold (cands (g_cur s)).
  destruct (cands (g_cur s)) as [|p r] eqn:E.
  - now apply cands_nil.
  - destruct (g_draws s) as [|u [|u2 rest]]; [exact I|exact I|].
    split; [|apply b2t_tv].
    set (pos := N.to_nat (u mod N.of_nat (length (p :: r)))).
    assert (L : (pos < length (p :: r))%nat).
    { unfold pos. assert (N.of_nat (length (p :: r)) <> 0) by (cbn [length]; lia).
      pose proof (N.mod_lt u _ H). lia. }
    pose proof (nth_In (p :: r) (0%nat, 0) L) as K.
    destruct (nth pos (p :: r) (0%nat, 0)) as [i t] eqn:En.
    rewrite <- E in K. cbn [fst]. apply (in_cands_undecided _ _ _ K).
Qed.

(** the random heuristic of the pinned tree uses the drawn index of the FILTERED list as the
    statement number: on [1; 5] (statement 0 decided, statement 1 open) it proposes statement 0 *)
Theorem rand_unfiltered_not_admissible c : ~ admissible c HRand false.
Proof.
  intros A.
  specialize (A (init c) (mkNG [1; 5] (ngs_new 2) [] [] false true [] [0; 0])).
  cbn in A. destruct A as [[_ A] _]. cbn in A. discriminate A.
Qed.

(** what the heuristics do with the draw stream *)
Lemma run_heuristic_draws c h rf st s :
  match run_heuristic c h rf st s with
  | Some (_, dr) => exists used, g_draws s = used ++ dr /\ (length used <= 2)%nat
  | None => h = HRand /\ (length (g_draws s) < 2)%nat
  end.
Proof.
  destruct h; cbn [run_heuristic]; try (exists []; split; [reflexivity|cbn; lia]).
  unfold heu_rand. destruct (filter _ _) as [|p r].
  - exists []. split; [reflexivity|cbn; lia].
  - destruct (g_draws s) as [|u [|u2 rest]].
    + split; [reflexivity|cbn; lia].
    + split; [reflexivity|cbn; lia].
    + exists [u; u2]. split; [reflexivity|cbn; lia].
Qed.

(* ------------------------------------------------------------------ *)
(** * The step function, cut into its three phases *)

Section Phases.
  Variable c : cfg.
  Variable ac : list N.
  Variable h : heuristic.
  Variable rf : bool.
  Variable two : bool.
  Variable sx : bool.     (* stop_exhausted: the repaired loop *)

  (** 1. the choice *)
  Definition phase1 (st : store) (s : ngstate) : option ngstate :=
    if g_choice s then
      match run_heuristic c h rf st s with
      | Some (Some (var, t), dr) =>
        Some (mkNG (set_nth (g_cur s) var t) (g_store s)
                   ((true, ng_of_terms (set_nth (g_cur s) var t)) :: g_stack s) (g_cur s :: g_hist s)
                   (g_backtrack s) false (g_out s) dr)
      | Some (None, dr) =>
        Some (mkNG (g_cur s) (g_store s) (g_stack s) (g_hist s) true false (g_out s) dr)
      | None => None
      end
    else Some s.

  (** 3. the backtrack; [P2Break sb]: the loop ends in state [sb] (empty stack, or - repaired
      loop - no choice entry found) *)
  Inductive p2res := P2Break (sb : ngstate) | P2Panic | P2Go (s2 : ngstate).
  Definition phase2 (s1 : ngstate) : p2res :=
    if g_backtrack s1 then
      match g_stack s1 with
      | [] => P2Break s1
      | _ =>
        match unwind (g_store s1) (g_stack s1) (g_hist s1) (g_cur s1) with
        | None => P2Panic
        | Some (ngs, stk, hist, cur, found) =>
          if sx && negb found
          then P2Break (mkNG cur ngs stk hist false (g_choice s1) (g_out s1) (g_draws s1))
          else P2Go (mkNG cur ngs stk hist false (g_choice s1) (g_out s1) (g_draws s1))
        end
      end
    else P2Go s1.

  Definition contradicts (cur aci : list N) : bool :=
    existsb (fun p => is_tv (fst p) && is_tv (snd p) && negb (eqb (is_true (fst p)) (is_true (snd p))))
            (combine cur aci).

  Definition run_test (st : store) (v : list N) : option (store * bool) :=
    if two then Some (st, true) else stability_check c st ac v.

  (** 4.-6. closure, consistency, propagation, test *)
  Definition phase3 (st : store) (s2 : ngstate) : option step_result :=
    match conclusion_closure (g_store s2) (g_cur s2) with
    | None => None
    | Some CInconsistent =>
      Some (Continue st (mkNG (g_cur s2) (g_store s2) (g_stack s2) (g_hist s2) true (g_choice s2) (g_out s2) (g_draws s2)))
    | Some cl =>
      let '(s3, update_ng) :=
        match cl with
        | CUpdate v => (mkNG v (g_store s2) ((false, ng_of_terms v) :: g_stack s2) (g_hist s2)
                             (g_backtrack s2) (g_choice s2) (g_out s2) (g_draws s2), true)
        | _ => (s2, false)
        end in
      match apply_interp c false st ac (g_cur s3) with
      | None => None
      | Some (st1, aci) =>
        if contradicts (g_cur s3) aci
        then Some (Continue st1 (mkNG (g_cur s3) (g_store s3) (g_stack s3) (g_hist s3) true (g_choice s3) (g_out s3) (g_draws s3)))
        else
          match update_fix c st1 (g_cur s3) with
          | None => None
          | Some (st2, cur') =>
            if negb (list_eqb cur' (g_cur s3)) then
              Some (Continue st2 (mkNG cur' (g_store s3) (g_stack s3) (g_hist s3) (g_backtrack s3) (g_choice s3) (g_out s3) (g_draws s3)))
            else if update_ng then
              Some (Continue st2 (mkNG cur' (g_store s3) (g_stack s3) (g_hist s3) (g_backtrack s3) (g_choice s3) (g_out s3) (g_draws s3)))
            else if negb (forallb is_tv cur') then
              Some (Continue st2 (mkNG cur' (g_store s3) (g_stack s3) (g_hist s3) (g_backtrack s3) true (g_out s3) (g_draws s3)))
            else
              match run_test st2 cur' with
              | None => None
              | Some (st3, stable) =>
                Some (Continue st3 (mkNG cur' (g_store s3) ((false, ng_of_terms cur') :: g_stack s3) (g_hist s3)
                                         true (g_choice s3) (if stable then cur' :: g_out s3 else g_out s3) (g_draws s3)))
              end
          end
      end
    end.

  Lemma ng_step_eq st s :
    ng_step c ac h rf two sx st s =
    match phase1 st s with
    | None => None
    | Some s1 =>
      match phase2 s1 with
      | P2Break sb => Some (Break st sb)
      | P2Panic => Some Panic
      | P2Go s2 => phase3 st s2
      end
    end.
  Proof.
    unfold ng_step, phase1.
    destruct (g_choice s).
    - destruct (run_heuristic c h rf st s) as [[[[var t]|] dr]|]; cbn [negb]; try reflexivity.
      + unfold phase2. cbn [g_backtrack g_stack g_store g_hist g_cur g_choice g_out g_draws].
        destruct (g_backtrack s); [|reflexivity].
        destruct (unwind _ _ _ _) as [[[[[ngs stk] hist] cur] found]|]; [|reflexivity].
        destruct (sx && negb found); reflexivity.
      + unfold phase2. cbn [g_backtrack g_stack g_store g_hist g_cur g_choice g_out g_draws].
        destruct (g_stack s); [reflexivity|].
        destruct (unwind _ _ _ _) as [[[[[ngs stk] hist] cur] found]|]; [|reflexivity].
        destruct (sx && negb found); reflexivity.
    - cbn [negb]. unfold phase2.
      destruct (g_backtrack s); [|reflexivity].
      destruct (g_stack s); [reflexivity|].
      destruct (unwind _ _ _ _) as [[[[[ngs stk] hist] cur] found]|]; [|reflexivity].
      destruct (sx && negb found); reflexivity.
  Qed.

  (** the state handed to steps 5 and 6 *)
  Inductive closure_to (s2 : ngstate) : ngstate -> bool -> Prop :=
  | CT_update v :
      conclusion_closure (g_store s2) (g_cur s2) = Some (CUpdate v) ->
      closure_to s2 (mkNG v (g_store s2) ((false, ng_of_terms v) :: g_stack s2) (g_hist s2)
                          (g_backtrack s2) (g_choice s2) (g_out s2) (g_draws s2)) true
  | CT_noupdate :
      conclusion_closure (g_store s2) (g_cur s2) = Some CNoUpdate -> closure_to s2 s2 false.

  (** every way the third phase can end *)
  Inductive p3 (st : store) (s2 : ngstate) : step_result -> Prop :=
  | P3Incons :
      conclusion_closure (g_store s2) (g_cur s2) = Some CInconsistent ->
      p3 st s2 (Continue st (mkNG (g_cur s2) (g_store s2) (g_stack s2) (g_hist s2) true (g_choice s2) (g_out s2) (g_draws s2)))
  | P3Contra s3 upd st1 aci :
      closure_to s2 s3 upd -> apply_interp c false st ac (g_cur s3) = Some (st1, aci) ->
      contradicts (g_cur s3) aci = true ->
      p3 st s2 (Continue st1 (mkNG (g_cur s3) (g_store s3) (g_stack s3) (g_hist s3) true (g_choice s3) (g_out s3) (g_draws s3)))
  | P3Prop s3 upd st1 aci st2 cur' :
      closure_to s2 s3 upd -> apply_interp c false st ac (g_cur s3) = Some (st1, aci) ->
      contradicts (g_cur s3) aci = false ->
      update_fix c st1 (g_cur s3) = Some (st2, cur') ->
      (list_eqb cur' (g_cur s3) = false \/ upd = true) ->
      p3 st s2 (Continue st2 (mkNG cur' (g_store s3) (g_stack s3) (g_hist s3) (g_backtrack s3) (g_choice s3) (g_out s3) (g_draws s3)))
  | P3Choice st1 aci st2 cur' :
      conclusion_closure (g_store s2) (g_cur s2) = Some CNoUpdate ->
      apply_interp c false st ac (g_cur s2) = Some (st1, aci) ->
      contradicts (g_cur s2) aci = false ->
      update_fix c st1 (g_cur s2) = Some (st2, cur') ->
      list_eqb cur' (g_cur s2) = true -> forallb is_tv cur' = false ->
      p3 st s2 (Continue st2 (mkNG cur' (g_store s2) (g_stack s2) (g_hist s2) (g_backtrack s2) true (g_out s2) (g_draws s2)))
  | P3Test st1 aci st2 cur' st3 stable :
      conclusion_closure (g_store s2) (g_cur s2) = Some CNoUpdate ->
      apply_interp c false st ac (g_cur s2) = Some (st1, aci) ->
      contradicts (g_cur s2) aci = false ->
      update_fix c st1 (g_cur s2) = Some (st2, cur') ->
      list_eqb cur' (g_cur s2) = true -> forallb is_tv cur' = true ->
      run_test st2 cur' = Some (st3, stable) ->
      p3 st s2 (Continue st3 (mkNG cur' (g_store s2) ((false, ng_of_terms cur') :: g_stack s2) (g_hist s2)
                                   true (g_choice s2) (if stable then cur' :: g_out s2 else g_out s2) (g_draws s2))).

  Lemma phase3_cases st s2 r : phase3 st s2 = Some r -> p3 st s2 r.
  Proof.
    unfold phase3. intros H.
    destruct (conclusion_closure (g_store s2) (g_cur s2)) as [cl|] eqn:Ecl; [|discriminate H].
    assert (G : forall s3 upd, closure_to s2 s3 upd ->
      match apply_interp c false st ac (g_cur s3) with
      | None => None
      | Some (st1, aci) =>
        if contradicts (g_cur s3) aci
        then Some (Continue st1 (mkNG (g_cur s3) (g_store s3) (g_stack s3) (g_hist s3) true (g_choice s3) (g_out s3) (g_draws s3)))
        else
          match update_fix c st1 (g_cur s3) with
          | None => None
          | Some (st2, cur') =>
            if negb (list_eqb cur' (g_cur s3)) then
              Some (Continue st2 (mkNG cur' (g_store s3) (g_stack s3) (g_hist s3) (g_backtrack s3) (g_choice s3) (g_out s3) (g_draws s3)))
            else if upd then
              Some (Continue st2 (mkNG cur' (g_store s3) (g_stack s3) (g_hist s3) (g_backtrack s3) (g_choice s3) (g_out s3) (g_draws s3)))
            else if negb (forallb is_tv cur') then
              Some (Continue st2 (mkNG cur' (g_store s3) (g_stack s3) (g_hist s3) (g_backtrack s3) true (g_out s3) (g_draws s3)))
            else
              match run_test st2 cur' with
              | None => None
              | Some (st3, stable) =>
                Some (Continue st3 (mkNG cur' (g_store s3) ((false, ng_of_terms cur') :: g_stack s3) (g_hist s3)
                                         true (g_choice s3) (if stable then cur' :: g_out s3 else g_out s3) (g_draws s3)))
              end
          end
      end = Some r -> p3 st s2 r).
    { intros s3 upd CT K.
      destruct (apply_interp c false st ac (g_cur s3)) as [[st1 aci]|] eqn:E5; [|discriminate K].
      destruct (contradicts (g_cur s3) aci) eqn:Ec.
      { inversion K; subst r. eapply P3Contra; eauto. }
      destruct (update_fix c st1 (g_cur s3)) as [[st2 cur']|] eqn:E6; [|discriminate K].
      destruct (list_eqb cur' (g_cur s3)) eqn:El; cbn [negb] in K.
      2:{ inversion K; subst r. eapply P3Prop; eauto. }
      destruct upd.
      { inversion K; subst r. eapply P3Prop; eauto. }
      inversion CT as [v Hv|Hn]; subst.
      destruct (forallb is_tv cur') eqn:Ef; cbn [negb] in K.
      2:{ inversion K; subst r. eapply P3Choice; eauto. }
      destruct (run_test st2 cur') as [[st3 stable]|] eqn:Et; [|discriminate K].
      inversion K; subst r. eapply P3Test; eauto. }
    destruct cl as [v| |].
    - apply (G _ true (CT_update s2 v Ecl) H).
    - apply (G _ false (CT_noupdate s2 Ecl) H).
    - inversion H; subst r. apply P3Incons. exact Ecl.
  Qed.

  (** ... and the only ways it can fail *)
  Lemma phase3_none st s2 :
    phase3 st s2 = None ->
    conclusion_closure (g_store s2) (g_cur s2) = None \/
    (exists s3 upd, closure_to s2 s3 upd /\
      (apply_interp c false st ac (g_cur s3) = None \/
       exists st1 aci, apply_interp c false st ac (g_cur s3) = Some (st1, aci) /\
         (update_fix c st1 (g_cur s3) = None \/
          exists st2 cur', update_fix c st1 (g_cur s3) = Some (st2, cur') /\ run_test st2 cur' = None))).
  Proof.
    unfold phase3. intros H.
    destruct (conclusion_closure (g_store s2) (g_cur s2)) as [cl|] eqn:Ecl; [|now left]. right.
    assert (G : forall s3 upd, closure_to s2 s3 upd ->
      match apply_interp c false st ac (g_cur s3) with
      | None => None
      | Some (st1, aci) =>
        if contradicts (g_cur s3) aci
        then Some (Continue st1 (mkNG (g_cur s3) (g_store s3) (g_stack s3) (g_hist s3) true (g_choice s3) (g_out s3) (g_draws s3)))
        else
          match update_fix c st1 (g_cur s3) with
          | None => None
          | Some (st2, cur') =>
            if negb (list_eqb cur' (g_cur s3)) then
              Some (Continue st2 (mkNG cur' (g_store s3) (g_stack s3) (g_hist s3) (g_backtrack s3) (g_choice s3) (g_out s3) (g_draws s3)))
            else if upd then
              Some (Continue st2 (mkNG cur' (g_store s3) (g_stack s3) (g_hist s3) (g_backtrack s3) (g_choice s3) (g_out s3) (g_draws s3)))
            else if negb (forallb is_tv cur') then
              Some (Continue st2 (mkNG cur' (g_store s3) (g_stack s3) (g_hist s3) (g_backtrack s3) true (g_out s3) (g_draws s3)))
            else
              match run_test st2 cur' with
              | None => None
              | Some (st3, stable) =>
                Some (Continue st3 (mkNG cur' (g_store s3) ((false, ng_of_terms cur') :: g_stack s3) (g_hist s3)
                                         true (g_choice s3) (if stable then cur' :: g_out s3 else g_out s3) (g_draws s3)))
              end
          end
      end = None ->
      exists s3 upd, closure_to s2 s3 upd /\
      (apply_interp c false st ac (g_cur s3) = None \/
       exists st1 aci, apply_interp c false st ac (g_cur s3) = Some (st1, aci) /\
         (update_fix c st1 (g_cur s3) = None \/
          exists st2 cur', update_fix c st1 (g_cur s3) = Some (st2, cur') /\ run_test st2 cur' = None))).
    { intros s3 upd CT K. exists s3, upd. split; [exact CT|].
      destruct (apply_interp c false st ac (g_cur s3)) as [[st1 aci]|] eqn:E5; [|now left]. right.
      exists st1, aci. split; [reflexivity|].
      destruct (contradicts (g_cur s3) aci); [discriminate K|].
      destruct (update_fix c st1 (g_cur s3)) as [[st2 cur']|] eqn:E6; [|now left]. right.
      exists st2, cur'. split; [reflexivity|].
      destruct (negb (list_eqb cur' (g_cur s3))); [discriminate K|].
      destruct upd; [discriminate K|].
      destruct (negb (forallb is_tv cur')); [discriminate K|].
      destruct (run_test st2 cur') as [[st3 stable]|]; [discriminate K|reflexivity]. }
    destruct cl as [v| |].
    - apply (G _ true (CT_update s2 v Ecl) H).
    - apply (G _ false (CT_noupdate s2 Ecl) H).
    - discriminate H.
  Qed.

  (** every way a step can end: no answer of the heuristic / of a sub-computation ([None]),
      the loop exit, the panic of the stack discipline, or one of the five continuations *)
  Lemma ng_step_cases st s r :
    ng_step c ac h rf two sx st s = Some r ->
    exists s1, phase1 st s = Some s1 /\
      ((exists sb, phase2 s1 = P2Break sb /\ r = Break st sb) \/
       (phase2 s1 = P2Panic /\ r = Panic) \/
       (exists s2, phase2 s1 = P2Go s2 /\ p3 st s2 r)).
  Proof.
    rewrite ng_step_eq. destruct (phase1 st s) as [s1|]; [|discriminate].
    intros H. exists s1. split; [reflexivity|].
    destruct (phase2 s1) as [sb| |s2].
    - left. exists sb. inversion H. auto.
    - right; left. inversion H. auto.
    - right; right. exists s2. split; [reflexivity|]. now apply phase3_cases.
  Qed.
End Phases.

(* ------------------------------------------------------------------ *)
(** * Nogoods as partial assignments: containment, conflict, equivalence *)

Definition conflicts (x y : ng) : Prop :=
  exists i, ngat x i <> U /\ ngat y i <> U /\ ngat x i <> ngat y i.
Definition ng_equiv (x y : ng) : Prop := forall i, ngat x i = ngat y i.
Definition stored_eq (S : list ng) (g : ng) : Prop := exists x, In x S /\ ng_equiv x g.

Lemma conflicts_sub x y y' : ng_sub y y' -> conflicts x y -> conflicts x y'.
Proof.
  intros S [i [A [B C]]]. exists i. rewrite (S i B). auto.
Qed.

Lemma conflicts_sub_l x x' y : ng_sub x x' -> conflicts x y -> conflicts x' y.
Proof.
  intros S [i [A [B C]]]. exists i. rewrite (S i A). auto.
Qed.

Lemma conflicts_not_sub x y : conflicts x y -> ~ ng_sub x y.
Proof. intros [i [A [B C]]] S. apply C. symmetry. apply (S i A). Qed.

Lemma ng_equiv_sub x y : ng_equiv x y -> ng_sub x y /\ ng_sub y x.
Proof. intros E. split; intros i _; [symmetry|]; apply E. Qed.

Lemma ng_sub_antisym x y : ng_sub x y -> ng_sub y x -> ng_equiv x y.
Proof.
  intros A B i. destruct (ngat x i) eqn:Ex.
  - rewrite (A i); congruence.
  - rewrite (A i); congruence.
  - destruct (ngat y i) eqn:Ey; auto; rewrite (B i) in Ex; congruence.
Qed.

Lemma ng_equiv_eq x y : length x = length y -> ng_equiv x y -> x = y.
Proof.
  intros L E. apply (list_eq_of_nth U); [exact L|]. intros i _. apply E.
Qed.

Lemma ng_of_terms_length v : length (ng_of_terms v) = length v.
Proof. apply map_length. Qed.

Lemma filter_len_le {A} (f : A -> bool) l : (length (filter f l) <= length l)%nat.
Proof. induction l as [|a l IH]; cbn [filter length]; [lia|]. destruct (f a); cbn [length]; lia. Qed.

Lemma ng_len_le_length g : (ng_len g <= length g)%nat.
Proof. unfold ng_len. apply filter_len_le. Qed.

Lemma ng_len_of_terms_le v : (ng_len (ng_of_terms v) <= length v)%nat.
Proof. rewrite <- (ng_of_terms_length v). apply ng_len_le_length. Qed.

Lemma ng_len_pos g i : ngat g i <> U -> ng_len g <> 0%nat.
Proof. intros H Z. apply H. apply (ng_len_zero_inv g Z). Qed.

(** a nogood contained in another one of the same size is equivalent to it *)
Lemma ng_sub_len_equiv : forall g x, ng_sub g x -> ng_len g = ng_len x -> ng_equiv g x.
Proof.
  induction g as [|a g IH]; intros x S L.
  - intros i. rewrite ngat_nil. symmetry. apply ng_len_zero_inv. rewrite <- L. reflexivity.
  - rewrite (ng_len_step (a :: g)), (ng_len_step x) in L. cbn [tl] in L. rewrite ngat_cons_0 in L.
    assert (St : ng_sub g (tl x)).
    { intros i Hi. rewrite ngat_tl. apply (S (Datatypes.S i)). exact Hi. }
    pose proof (ng_len_sub g (tl x) St) as LE.
    assert (H0 : ngat x 0 = a /\ ng_len g = ng_len (tl x)).
    { destruct (active a) eqn:Ea.
      - apply active_true in Ea. pose proof (S 0%nat Ea) as E0. rewrite ngat_cons_0 in E0.
        split; [exact E0|]. rewrite E0 in L. apply active_true in Ea. rewrite Ea in L. lia.
      - apply active_false in Ea. subst a.
        destruct (active (ngat x 0)) eqn:Ex.
        + exfalso. lia.
        + apply active_false in Ex. split; [exact Ex|lia]. }
    destruct H0 as [H0 Ht]. intros [|i].
    + rewrite ngat_cons_0. symmetry. exact H0.
    + rewrite ngat_cons_S. rewrite <- ngat_tl. apply (IH (tl x) St Ht).
Qed.

Lemma ngat_set_nth v i t j :
  ngat (ng_of_terms (set_nth v i t)) j =
  if Nat.eqb j i && Nat.ltb i (length v) then info t else ngat (ng_of_terms v) j.
Proof.
  rewrite !ngat_of_terms. revert i j. induction v as [|a v IH]; intros i j.
  - cbn [set_nth length]. destruct i; rewrite andb_false_r; reflexivity.
  - destruct i as [|i], j as [|j]; cbn [set_nth nth length]; try reflexivity.
    rewrite IH. cbn [Nat.eqb]. change (Nat.ltb (S i) (S (length v))) with (Nat.ltb i (length v)). reflexivity.
Qed.

Lemma set_nth_length {A} (v : list A) i t : length (set_nth v i t) = length v.
Proof. revert i; induction v as [|a v IH]; intros [|i]; cbn [set_nth length]; auto. Qed.

Lemma nth_set_nth (v : list N) i t j d :
  nth j (set_nth v i t) d = if Nat.eqb j i && Nat.ltb i (length v) then t else nth j v d.
Proof.
  revert i j. induction v as [|a v IH]; intros i j.
  - cbn [set_nth length]. destruct i; rewrite andb_false_r; reflexivity.
  - destruct i as [|i], j as [|j]; cbn [set_nth nth length]; try reflexivity.
    rewrite IH. cbn [Nat.eqb]. change (Nat.ltb (S i) (S (length v))) with (Nat.ltb i (length v)). reflexivity.
Qed.

Lemma info_U_iff t : info t = U <-> is_tv t = false.
Proof. apply NativeBase.info_U. Qed.

Lemma info_tv t : t = 0 \/ t = 1 -> info t <> U.
Proof. intros [-> | ->]; discriminate. Qed.

(** choosing an undecided position extends the nogood by exactly that literal *)
Lemma set_nth_sub v i t : undecided_at v i -> ng_sub (ng_of_terms v) (ng_of_terms (set_nth v i t)).
Proof.
  intros [L Ui] j Hj. rewrite ngat_set_nth.
  destruct (Nat.eqb_spec j i) as [->|NE]; [|reflexivity].
  exfalso. apply Hj. rewrite ngat_of_terms. apply info_U_iff. exact Ui.
Qed.

(* ------------------------------------------------------------------ *)
(** * The store in the mode of the search (Equiv) *)

Lemma add_ng_equiv_mode s g s' :
  dup s = DEquiv -> add_ng s g = Some s' ->
  (forall x, In x (stored s) -> In x (stored s')) /\
  (forall x, In x (stored s') -> In x (stored s) \/ x = g) /\
  (ng_len g <> 0%nat -> stored_eq (stored s') g).
Proof.
  intros D H. destruct s as [bs m]. cbn [dup] in D. subst m.
  apply add_ng_cases in H. cbn [buckets dup] in H.
  destruct H as [[Z ->] | [idx [L [B H]]]].
  - split; [auto|]. split; [auto|]. intros NZ. contradiction.
  - destruct H as [[-> _] | [[-> [_ E]] | [[_ [K _]] | [_ [K _]]]]]; try discriminate K.
    + unfold stored; cbn [buckets]. split; [|split].
      * intros x Hx. apply in_concat_upd_nth. now left.
      * intros x Hx. apply in_concat_upd_nth in Hx. destruct Hx as [Hx|[-> _]]; auto.
      * intros _. exists g. split; [|intros i; reflexivity]. apply in_concat_upd_nth. right. auto.
    + split; [auto|]. split; [auto|]. intros _.
      apply existsb_exists in E. destruct E as [x [Hx Ex]]. exists x. split.
      * unfold stored; cbn [buckets]. eapply in_nth_in_concat; eauto.
      * unfold ng_equiv. apply ng_eqb_spec. exact Ex.
Qed.

Lemma add_ng_some s g : (ng_len g <= length (buckets s))%nat -> exists s', add_ng s g = Some s'.
Proof.
  intros L. unfold add_ng. destruct (ng_len g) as [|idx]; [eauto|].
  destruct (Nat.leb_spec (length (buckets s)) idx) as [B|B]; [lia|].
  destruct (dup s); [eauto| |].
  - destruct (existsb _ _); eauto.
  - destruct (existsb _ _); eauto.
Qed.

Lemma add_all_equiv_mode l : forall s s',
  buckets_ok s -> dup s = DEquiv -> add_all s l = Some s' ->
  (forall x, In x (stored s) -> In x (stored s')) /\
  (forall x, In x (stored s') -> In x (stored s) \/ In x l) /\
  (forall g, In g l -> ng_len g <> 0%nat -> stored_eq (stored s') g).
Proof.
  induction l as [|g l IH]; intros s s' Hok D H; cbn [add_all] in H.
  - inversion H; subst s'. split; [auto|]. split; [auto|]. intros g [].
  - destruct (add_ng s g) as [s1|] eqn:E; [|discriminate H].
    destruct (add_ng_ok s g s1 Hok E) as [Hok1 [D1 _]].
    destruct (add_ng_equiv_mode s g s1 D E) as [A1 [B1 C1]].
    destruct (IH s1 s' Hok1 (eq_trans D1 D) H) as [A2 [B2 C2]].
    split; [auto|]. split.
    + intros x Hx. destruct (B2 x Hx) as [K|K]; [|right; now right].
      destruct (B1 x K) as [K1 | ->]; [now left|right; now left].
    + intros g0 [<-|Hg] NZ; [|now apply C2].
      destruct (C1 NZ) as [x [Hx Ex]]. exists x. split; auto.
Qed.

(* ------------------------------------------------------------------ *)
(** * [unwind] *)

Lemma unwind_spec : forall stack ngs hist cur ngs' stk' hist' cur' found,
  unwind ngs stack hist cur = Some (ngs', stk', hist', cur', found) ->
  (found = true /\ exists above g I,
      stack = above ++ (true, g) :: stk' /\ Forall (fun f => fst f = false) above /\
      hist = I :: hist' /\ cur' = I /\
      add_all ngs (map snd above ++ [g]) = Some ngs') \/
  (found = false /\ stk' = [] /\ Forall (fun f => fst f = false) stack /\ hist' = hist /\ cur' = cur /\
   add_all ngs (map snd stack) = Some ngs').
Proof.
  induction stack as [|[ch g] rest IH]; intros ngs hist cur ngs' stk' hist' cur' found H; cbn [unwind] in H.
  - inversion H; subst. right. repeat split; auto.
  - destruct (add_ng ngs g) as [n1|] eqn:E; [|discriminate H].
    destruct ch.
    + destruct hist as [|old hist0]; [discriminate H|]. inversion H; subst.
      left. split; [reflexivity|]. exists [], g, cur'. cbn [app map add_all]. rewrite E. cbn [add_all]. repeat split; auto.
    + apply IH in H. destruct H as [[Hf [above [g0 [I [Hs [Ha [Hh [Hc Hadd]]]]]]]] | [Hf [Hs [Ha [Hh [Hc Hadd]]]]]].
      * left. split; [exact Hf|]. exists ((false, g) :: above), g0, I. subst rest. cbn [app map add_all snd]. rewrite E.
        repeat split; auto.
      * right. cbn [map add_all snd]. rewrite E. repeat split; auto.
Qed.

Lemma unwind_some : forall stack ngs hist cur,
  buckets_ok ngs ->
  Forall (fun f => (ng_len (snd f) <= length (buckets ngs))%nat) stack ->
  (length (filter fst stack) <= length hist)%nat ->
  exists r, unwind ngs stack hist cur = Some r.
Proof.
  induction stack as [|[ch g] rest IH]; intros ngs hist cur Hok HF HL; cbn [unwind]; [eauto|].
  inversion HF as [|? ? Hg Hr]; subst. cbn [snd] in Hg.
  destruct (add_ng_some ngs g Hg) as [n1 E]. rewrite E.
  destruct (add_ng_ok ngs g n1 Hok E) as [Hok1 [_ L1]].
  destruct ch.
  - cbn [filter fst length] in HL. destruct hist; [cbn in HL; lia|eauto].
  - apply IH; auto. rewrite L1. exact Hr.
Qed.

(* ------------------------------------------------------------------ *)
(** * More about [conclude], [conclusions] and the closure *)

Lemma filter_combine_seq_none {A} (f : nat * A -> bool) d : forall (z : list A) k,
  (forall i, (i < length z)%nat -> f ((k + i)%nat, nth i z d) = false) ->
  filter f (combine (seq k (length z)) z) = [].
Proof.
  induction z as [|a z IH]; intros k H; [reflexivity|].
  cbn [length seq combine filter].
  pose proof (H 0%nat ltac:(cbn; lia)) as H0. rewrite Nat.add_0_r in H0. cbn [nth] in H0. rewrite H0.
  apply IH. intros i Hi. specialize (H (S i) ltac:(cbn; lia)). cbn [nth] in H.
  rewrite Nat.add_succ_r in H. exact H.
Qed.

Lemma filter_combine_seq_single {A} (f : nat * A -> bool) d : forall (z : list A) k p,
  (p < length z)%nat ->
  (forall i, (i < length z)%nat -> f ((k + i)%nat, nth i z d) = Nat.eqb i p) ->
  filter f (combine (seq k (length z)) z) = [((k + p)%nat, nth p z d)].
Proof.
  induction z as [|a z IH]; intros k p Hp H; [cbn in Hp; lia|].
  cbn [length seq combine filter].
  pose proof (H 0%nat ltac:(cbn; lia)) as H0. rewrite Nat.add_0_r in H0. cbn [nth] in H0. rewrite H0.
  destruct p as [|p].
  - cbn [Nat.eqb nth]. rewrite Nat.add_0_r. f_equal.
    apply filter_combine_seq_none with (d := d). intros i Hi.
    specialize (H (S i) ltac:(cbn; lia)). cbn [nth Nat.eqb] in H. rewrite Nat.add_succ_r in H. exact H.
  - cbn [Nat.eqb nth]. rewrite (IH (S k) p).
    + rewrite Nat.add_succ_r. reflexivity.
    + cbn in Hp. lia.
    + intros i Hi. specialize (H (S i) ltac:(cbn; lia)). cbn [nth Nat.eqb] in H.
      rewrite Nat.add_succ_r in H. exact H.
Qed.

(** [conclude] finds the unit literal whenever there is one *)
Lemma conclude_complete x I p :
  ngat x p <> U -> ngat I p = U ->
  (forall i, i <> p -> ngat x i <> U -> ngat I i = ngat x i) ->
  conclude x I = Some (p, negb (tv_eqb (ngat x p) T)).
Proof.
  intros Hx HI Ho. unfold conclude.
  set (z := zip_pad x I).
  assert (Lp : (p < length z)%nat).
  { destruct (lt_dec p (length z)) as [L|L]; [exact L|]. exfalso. apply Hx.
    assert (K : nth p z (U, U) = (U, U)) by (apply nth_overflow; lia).
    unfold z in K. rewrite zip_pad_nth in K. congruence. }
  rewrite (filter_combine_seq_single _ (U, U) z 0 p Lp).
  - rewrite (filter_combine_seq_none _ (U, U) z 0).
    + unfold z. rewrite zip_pad_nth. cbn [Nat.add fst snd]. reflexivity.
    + intros i Hi. cbn [Nat.add snd fst]. unfold z. rewrite zip_pad_nth. cbn [fst snd].
      destruct (Nat.eq_dec i p) as [->|NE].
      * rewrite HI. cbn. rewrite andb_false_r. reflexivity.
      * destruct (ngat x i) eqn:Ex; cbn; try reflexivity;
          rewrite (Ho i NE) by congruence; rewrite Ex; reflexivity.
  - intros i Hi. cbn [Nat.add snd fst]. unfold z. rewrite zip_pad_nth. cbn [fst snd].
    destruct (Nat.eqb_spec i p) as [->|NE].
    + rewrite HI. apply active_true in Hx. rewrite Hx. reflexivity.
    + destruct (ngat x i) eqn:Ex; cbn; try reflexivity;
        rewrite (Ho i NE) by congruence; rewrite Ex; reflexivity.
Qed.

(** a nogood with a unit conclusion does not conflict with the interpretation *)
Lemma conclude_no_conflict x I p b : conclude x I = Some (p, b) -> ~ conflicts x I.
Proof.
  intros C [i [A [B D]]]. apply conclude_spec in C. destruct C as [_ [Ip Co]].
  destruct (Nat.eq_dec i p) as [->|NE]; [congruence|].
  apply D. symmetry. apply (Co i NE A).
Qed.

Lemma pairs_to_ng_const y v : forall l acc,
  (forall q, In q l -> q = (y, v)) -> (ngat acc y = U \/ ngat acc y = lit v) ->
  exists r, pairs_to_ng acc l = Some r.
Proof.
  induction l as [|q l IH]; intros acc Hl Ha; cbn [pairs_to_ng]; [eauto|].
  rewrite (Hl q (or_introl eq_refl)).
  assert (G : active (ngat acc y) && (if v then negb (tv_eqb (ngat acc y) T) else tv_eqb (ngat acc y) T) = false).
  { destruct Ha as [-> | ->]; destruct v; reflexivity. }
  rewrite G. apply IH.
  - intros q' Hq'. apply Hl. now right.
  - right. rewrite ngat_ng_set, Nat.eqb_refl. destruct v; reflexivity.
Qed.

Lemma disjunction_sub_r a x : is_contradicting x a = false -> ng_sub x (disjunction a x).
Proof.
  intros H i Hi. rewrite ngat_disjunction.
  pose proof (is_contradicting_false _ _ H i Hi) as K.
  destruct (ngat a i) eqn:Ea.
  - rewrite K by congruence. reflexivity.
  - rewrite K by congruence. reflexivity.
  - destruct (ngat x i); reflexivity.
Qed.

Lemma fold_cstep_sub : forall l a R,
  fold_left cstep l (Some a) = Some R -> ng_sub a R /\ forall x, In x l -> ng_sub x R.
Proof.
  induction l as [|x l IH]; intros a R H; cbn [fold_left] in H.
  - inversion H; subst. split; [apply ng_sub_refl|intros x []].
  - cbn [cstep] in H. destruct (is_contradicting x a) eqn:E.
    + rewrite fold_cstep_none in H. discriminate H.
    + destruct (IH _ _ H) as [S1 S2]. split.
      * eapply ng_sub_trans; [|exact S1]. now apply disjunction_sub.
      * intros x0 [<-|Hx]; [|now apply S2].
        eapply ng_sub_trans; [|exact S1]. now apply disjunction_sub_r.
Qed.

Lemma conclusions_some_sub s I val x :
  conclusions s I = Some val -> In x (concl_of s I) -> ng_sub x val.
Proof.
  rewrite conclusions_eq. intros H Hx.
  destruct (fold_left cstep (concl_of s I) (Some I)) as [R|] eqn:F; [|discriminate H].
  destruct (existsb _ _); [discriminate H|]. inversion H; subst.
  apply (proj2 (fold_cstep_sub _ _ _ F) x Hx).
Qed.

(** the forced move: when the only stored nogoods compatible with the interpretation contain a
    stored nogood [g] that has exactly one more literal, the closure concludes the negation
    of that literal (or reports a conflict) *)
Lemma conclusions_forced s I g y b val :
  buckets_ok s -> In g (stored s) ->
  ng_sub I g -> ngat I y = U -> ngat g y = lit b -> ng_len g = S (ng_len I) ->
  (forall x, In x (stored s) -> conflicts x I \/ ng_sub g x) ->
  conclusions s I = Some val -> ngat val y = lit (negb b).
Proof.
  intros Hok Hg Sg Iy Gy Lg K C.
  unfold stored in Hg. apply in_concat_nth in Hg. destruct Hg as [idx [bkt [Hb Hgb]]].
  pose proof (Hok idx bkt Hb) as Fb. rewrite Forall_forall in Fb.
  assert (Eidx : idx = ng_len I) by (pose proof (Fb g Hgb); lia).
  assert (Hsel : In bkt (sel_of s I)) by (apply in_sel_of; exists idx; split; [exact Hb|lia]).
  set (pairs := filter_map (fun x => conclude x I) bkt).
  assert (Hall : forall q, In q pairs -> q = (y, negb b)).
  { intros [p v] Hq. apply in_filter_map in Hq. destruct Hq as [x [Hx Cx]].
    assert (Sx : ng_sub g x).
    { destruct (K x) as [Kc|Ks]; [apply in_concat_nth; eauto| |exact Ks].
      exfalso. exact (conclude_no_conflict _ _ _ _ Cx Kc). }
    assert (Ex : ng_equiv g x).
    { apply ng_sub_len_equiv; [exact Sx|]. rewrite (Fb g Hgb), (Fb x Hx). reflexivity. }
    apply conclude_spec in Cx. destruct Cx as [Xp [Ip Co]].
    assert (p = y).
    { destruct (Nat.eq_dec p y) as [E|NE]; [exact E|]. exfalso.
      assert (A : ngat x y <> U) by (rewrite <- (Ex y), Gy; destruct b; discriminate).
      rewrite (Co y (fun E => NE (eq_sym E)) A) in Iy. contradiction. }
    subst p. f_equal. rewrite <- (Ex y), Gy in Xp. destruct b, v; cbn in Xp; try reflexivity; discriminate Xp. }
  assert (Hin : In (y, negb b) pairs).
  { apply in_filter_map. exists g. split; [exact Hgb|].
    rewrite (conclude_complete g I y).
    - rewrite Gy. destruct b; reflexivity.
    - rewrite Gy. destruct b; discriminate.
    - exact Iy.
    - intros i NE Hi. destruct (ngat I i) eqn:Ei.
      + rewrite (Sg i) by congruence. congruence.
      + rewrite (Sg i) by congruence. congruence.
      + exfalso.
        (* g has a second literal outside I: too long *)
        assert (Sg' : ng_sub (ng_set I y (lit b)) g).
        { intros j Hj. rewrite ngat_ng_set in Hj. rewrite ngat_ng_set.
          destruct (Nat.eqb_spec j y) as [EJ|NJ]; [rewrite EJ; exact Gy|].
          apply Sg. exact Hj. }
        assert (S2 : ng_sub (ng_set (ng_set I y (lit b)) i (ngat g i)) g).
        { intros j Hj. rewrite ngat_ng_set in Hj. rewrite ngat_ng_set.
          destruct (Nat.eqb_spec j i) as [EJ|NJ]; [rewrite EJ; reflexivity|].
          apply Sg'. exact Hj. }
        pose proof (ng_len_sub _ _ S2) as LE.
        assert (L1 : forall J j t, ngat J j = U -> t <> U -> ng_len (ng_set J j t) = S (ng_len J)).
        { clear. intros J j. revert J. induction j as [|j IH]; intros J t HJ Ht.
          - destruct J as [|a J]; cbn [ng_set].
            + unfold ng_len. cbn. apply active_true in Ht. rewrite Ht. reflexivity.
            + rewrite ngat_cons_0 in HJ. subst a. rewrite (ng_len_step (t :: J)), (ng_len_step (U :: J)).
              cbn [tl]. rewrite !ngat_cons_0. apply active_true in Ht. rewrite Ht. reflexivity.
          - destruct J as [|a J]; cbn [ng_set].
            + rewrite (ng_len_step (U :: _)). cbn [tl]. rewrite ngat_cons_0. cbn [active tv_eqb negb Nat.add].
              rewrite IH; [reflexivity|apply ngat_nil|exact Ht].
            + rewrite ngat_cons_S in HJ. rewrite (ng_len_step (a :: ng_set J j t)), (ng_len_step (a :: J)).
              cbn [tl]. rewrite !ngat_cons_0. rewrite IH by assumption. lia. }
        rewrite L1 in LE.
        * rewrite L1 in LE; [lia|exact Iy|destruct b; discriminate].
        * rewrite ngat_ng_set. destruct (Nat.eqb_spec i y) as [E|_]; [contradiction|exact Ei].
        * exact Hi. }
  assert (Hne : pairs <> []) by (intros E; rewrite E in Hin; destruct Hin).
  destruct (pairs_to_ng_const y (negb b) pairs [] Hall (or_introl (ngat_nil y))) as [r Hr].
  assert (Ht : try_from_pair_iter pairs = Some r) by (destruct pairs; [contradiction|exact Hr]).
  destruct (try_from_pair_iter_spec _ _ Ht) as [_ [H2 _]].
  assert (Hc : In r (concl_of s I)).
  { unfold concl_of. apply in_filter_map. exists bkt. split; [exact Hsel|exact Ht]. }
  pose proof (conclusions_some_sub s I val r C Hc) as Sr.
  rewrite (Sr y); rewrite (H2 y (negb b) Hin); [reflexivity|destruct b; discriminate].
Qed.

Lemma closure_update_inv s v w :
  conclusion_closure s v = Some (CUpdate w) ->
  exists val, conclusions s (ng_of_terms v) = Some val /\ snd (update_term_vec val v) = true /\
              closure_inv s (fst (update_term_vec val v)) w.
Proof.
  unfold conclusion_closure. intros H.
  destruct (conclusions s (ng_of_terms v)) as [val|] eqn:C; [|discriminate H].
  exists val. split; [reflexivity|].
  destruct (update_term_vec val v) as [r upd] eqn:E. cbn [fst snd].
  destruct upd; [|discriminate H]. split; [reflexivity|].
  apply (closure_loop_sound s r _ _ _ H (closure_inv_refl s r)).
Qed.

Lemma closure_noupdate_inv s v :
  conclusion_closure s v = Some CNoUpdate ->
  exists val, conclusions s (ng_of_terms v) = Some val /\ snd (update_term_vec val v) = false.
Proof.
  unfold conclusion_closure. intros H.
  destruct (conclusions s (ng_of_terms v)) as [val|] eqn:C; [|discriminate H].
  exists val. split; [reflexivity|].
  destruct (update_term_vec val v) as [r upd] eqn:E. cbn [snd].
  destruct upd; [|reflexivity]. exfalso. exact (closure_loop_not_noupdate _ _ _ H).
Qed.

Lemma utv_upd_true val v y :
  (y < length v)%nat -> ngat val y <> U -> is_tv (nth y v 2) = false -> snd (update_term_vec val v) = true.
Proof.
  intros L A Uy. unfold update_term_vec. cbn [snd]. apply existsb_exists.
  exists (y, nth y v 2). split.
  - apply in_combine_seq0. rewrite nth_nth_error.
    destruct (nth_error v y) eqn:E; [reflexivity|]. apply nth_error_None in E. lia.
  - cbn [fst snd]. apply active_true in A. rewrite A, Uy. reflexivity.
Qed.

Theorem closure_forced s cur g y b r :
  buckets_ok s -> In g (stored s) ->
  ng_sub (ng_of_terms cur) g -> undecided_at cur y -> ngat g y = lit b ->
  ng_len g = S (ng_len (ng_of_terms cur)) ->
  (forall x, In x (stored s) -> conflicts x (ng_of_terms cur) \/ ng_sub g x) ->
  conclusion_closure s cur = Some r ->
  r = CInconsistent \/ exists w, r = CUpdate w /\ ngat (ng_of_terms w) y = lit (negb b).
Proof.
  intros Hok Hg Sg [Ly Uy] Gy Lg K H.
  assert (Iy : ngat (ng_of_terms cur) y = U) by (rewrite ngat_of_terms; apply info_U_iff; exact Uy).
  destruct r as [w| |].
  - right. exists w. split; [reflexivity|].
    destruct (closure_update_inv _ _ _ H) as [val [C [_ [_ [S _]]]]].
    pose proof (conclusions_forced s _ g y b val Hok Hg Sg Iy Gy Lg K C) as Vy.
    rewrite (S y).
    + rewrite ngat_utv. apply Nat.ltb_lt in Ly. rewrite Ly, Vy. destruct b; reflexivity.
    + rewrite ngat_utv. apply Nat.ltb_lt in Ly. rewrite Ly, Vy. destruct b; discriminate.
  - exfalso. destruct (closure_noupdate_inv _ _ H) as [val [C N]].
    pose proof (conclusions_forced s _ g y b val Hok Hg Sg Iy Gy Lg K C) as Vy.
    rewrite (utv_upd_true val cur y Ly) in N; [discriminate N| |exact Uy].
    rewrite Vy. destruct b; discriminate.
  - now left.
Qed.

(** a stored nogood contained in the interpretation makes the closure report a conflict *)
Lemma closure_dead s cur x :
  buckets_ok s -> In x (stored s) -> ng_sub x (ng_of_terms cur) ->
  conclusion_closure s cur = Some CInconsistent.
Proof.
  intros Hok Hx S. unfold conclusion_closure.
  rewrite (conflict_on_match s _ x Hok Hx); [reflexivity|]. now apply is_violating_sub.
Qed.

(** an updating closure decides at least one more position *)
Lemma closure_loop_undec s : forall fuel cur w,
  closure_loop fuel s cur = Some (CUpdate w) -> (undec w <= undec cur)%nat.
Proof.
  induction fuel as [|f IH]; intros cur w H; [discriminate H|].
  cbn [closure_loop] in H. destruct (conclusions s (ng_of_terms cur)) as [val|]; [|discriminate H].
  pose proof (utv_measure val cur) as M.
  destruct (update_term_vec val cur) as [cur' upd]. cbn [fst snd] in M.
  destruct upd.
  - apply IH in H. lia.
  - inversion H; subst. lia.
Qed.

Lemma closure_update_undec s v w :
  conclusion_closure s v = Some (CUpdate w) -> (undec w < undec v)%nat.
Proof.
  unfold conclusion_closure. intros H.
  destruct (conclusions s (ng_of_terms v)) as [val|]; [|discriminate H].
  pose proof (utv_measure val v) as M.
  destruct (update_term_vec val v) as [r upd]. cbn [fst snd] in M.
  destruct upd; [|discriminate H]. apply closure_loop_undec in H. lia.
Qed.

(** the entries of an updated vector: new constants or the old entries *)
Lemma closure_update_entries s v w :
  buckets_ok s -> conclusion_closure s v = Some (CUpdate w) ->
  length w = length v /\ ng_sub (ng_of_terms v) (ng_of_terms w) /\
  (forall i, is_tv (nth i w 2) = true \/ nth i w 2 = nth i v 2) /\
  (forall a, matches (ng_of_terms v) a -> avoids (stored s) a -> matches (ng_of_terms w) a).
Proof.
  intros Hok H. pose proof (closure_sound s v Hok _ H) as K.
  cbv beta iota in K. destruct K as [L [S [E M]]].
  split; [exact L|]. split; [exact S|]. split; [|exact M].
  intros i. destruct (is_tv (nth i w 2)) eqn:Tw; [now left|right].
  apply E; [|exact Tw].
  destruct (is_tv (nth i v 2)) eqn:Tv; [|reflexivity]. exfalso.
  assert (A : ngat (ng_of_terms v) i <> U).
  { rewrite ngat_of_terms. intros Z. apply info_U_iff in Z. congruence. }
  pose proof (S i A) as B. rewrite !ngat_of_terms in B.
  assert (Z : info (nth i w 2) = U) by (apply info_U_iff; exact Tw).
  rewrite ngat_of_terms in A. congruence.
Qed.

(* ------------------------------------------------------------------ *)
(** * The propagation step and the consistency test, semantically *)

Lemma list_eqb_eq : forall a b, list_eqb a b = true -> a = b.
Proof.
  unfold list_eqb. induction a as [|x a IH]; intros [|y b] H; cbn [length combine forallb fst snd] in H;
    try reflexivity; try discriminate H.
  apply andb_true_iff in H. destruct H as [L H]. apply andb_true_iff in H. destruct H as [E H].
  apply N.eqb_eq in E. subst y. f_equal. apply IH. cbn [Nat.eqb] in L. rewrite L, H. reflexivity.
Qed.

Lemma valid_nth st v i d : valid st v -> (i < length v)%nat -> nth i v d < size st.
Proof. intros V L. unfold valid in V. rewrite Forall_forall in V. apply V. now apply nth_In. Qed.

Lemma ac_ok_extends c st st' ac : WF c st -> extends st st' -> ac_ok st ac -> ac_ok st' ac.
Proof.
  intros W E [V S]. split.
  - exact (valid_extends st st' ac E V).
  - exact (supported_adf_eq _ _ _ (abs_extends c st st' ac W E V) S).
Qed.

Lemma update_fix_facts c st cur st' cur' :
  WF c st -> valid st cur -> update_fix c st cur = Some (st', cur') ->
  WF c st' /\ extends st st' /\ valid st' cur' /\ length cur' = length cur /\
  Forall2 (fun h a => feq (den st' h) (fun x => den st a (override (interp_of cur) x))) cur' cur /\
  (forall i, is_tv (nth i cur 2) = true -> nth i cur' 2 = nth i cur 2).
Proof.
  intros W V X. unfold update_fix in X.
  destruct (apply_interp_ok c false cur cur st st' cur' W V X) as (W' & E & V' & D).
  assert (D' : Forall2 (fun h a => feq (den st' h) (fun x => den st a (override (interp_of cur) x))) cur' cur).
  { eapply Forall2_impl_Forall; [exact V'| |exact D]. intros hh a _ Hd x. cbv beta in *.
    rewrite Hd. apply den_ext. intros i. apply ovl_override. }
  pose proof (Forall2_len _ _ _ D') as L.
  split; [exact W'|]. split; [exact E|]. split; [exact V'|]. split; [exact L|]. split; [exact D'|].
  intros i Ti.
  destruct (lt_dec i (length cur')) as [Li|Li].
  - pose proof (Forall2_nth _ _ _ D' i 2 2 Li) as Hi. cbv beta in Hi.
    pose proof (valid_nth st' cur' i 2 V' Li) as Hs.
    destruct (is_tv_true _ Ti) as [Z|Z]; rewrite Z in *.
    + apply (const_false_iff st' _ (wf_n c st' W') Hs). intros a. rewrite Hi. apply den_0.
    + apply (const_true_iff st' _ (wf_n c st' W') Hs). intros a. rewrite Hi. apply den_1.
  - rewrite !nth_overflow by lia. reflexivity.
Qed.

Lemma update_fix_total c st cur : WF c st -> valid st cur -> exists st' cur', update_fix c st cur = Some (st', cur').
Proof. intros W V. unfold update_fix. apply apply_interp_total; assumption. Qed.

Lemma update_fix_sub c st cur st' cur' :
  WF c st -> valid st cur -> update_fix c st cur = Some (st', cur') ->
  ng_sub (ng_of_terms cur) (ng_of_terms cur').
Proof.
  intros W V X. destruct (update_fix_facts c st cur st' cur' W V X) as (_ & _ & _ & _ & _ & K).
  intros i Hi. rewrite !ngat_of_terms in *. rewrite K; [reflexivity|].
  destruct (is_tv (nth i cur 2)) eqn:E; [reflexivity|]. apply info_U_iff in E. contradiction.
Qed.

(** restricting twice by the same decided positions changes nothing: handles are canonical *)
Definition pstable (st : store) (cur : list N) : Prop :=
  Forall (fun hh => forall x, den st hh (override (interp_of cur) x) = den st hh x) cur.

Lemma pstable_fix c st cur st' cur' :
  WF c st -> valid st cur -> pstable st cur -> update_fix c st cur = Some (st', cur') -> cur' = cur.
Proof.
  intros W V P X. destruct (update_fix_facts c st cur st' cur' W V X) as (W' & E & V' & L & D & _).
  apply (list_eq_of_nth 2 _ _ L). intros i Li.
  pose proof (Forall2_nth _ _ _ D i 2 2 Li) as Hi. cbv beta in Hi.
  rewrite L in Li.
  pose proof (valid_nth st cur i 2 V Li) as Hs.
  unfold pstable in P. rewrite Forall_forall in P. pose proof (P _ (nth_In cur 2 Li)) as Pi.
  apply (canonicity st' (wf_n c st' W')).
  - apply (valid_nth st' cur' i 2 V'). lia.
  - apply (extends_lt st st' _ E Hs).
  - intros a. rewrite Hi, Pi. symmetry. apply (extends_den_stable c st st' _ W E Hs a).
Qed.

Lemma pstable_extends c st st' cur :
  WF c st -> extends st st' -> valid st cur -> pstable st cur -> pstable st' cur.
Proof.
  intros W E V P. unfold pstable in *. rewrite Forall_forall in *. intros hh Hh x.
  assert (Hs : hh < size st) by (unfold valid in V; rewrite Forall_forall in V; auto).
  rewrite !(extends_den_stable c st st' hh W E Hs). apply P. exact Hh.
Qed.

Lemma update_fix_pstable c st cur st' cur' :
  WF c st -> valid st cur -> update_fix c st cur = Some (st', cur') ->
  interp_of cur' = interp_of cur -> pstable st' cur'.
Proof.
  intros W V X EI. destruct (update_fix_facts c st cur st' cur' W V X) as (W' & E & V' & L & D & _).
  unfold pstable. rewrite EI. clear EI X L V V'. revert D. generalize (interp_of cur). intros w D.
  induction D as [|hh a l l' Hd _ IH]; constructor.
  - intros x. rewrite !Hd. apply den_ext. intros i. apply override_absorb. apply info_le_refl.
  - exact IH.
Qed.

Lemma undec_ndecided v : (undec v + ndecided (interp_of v) = length v)%nat.
Proof.
  induction v as [|t v IH]; [reflexivity|].
  cbn [undec interp_of map length]. rewrite ndecided_cons. fold (interp_of v).
  destruct (is_tv t) eqn:E.
  - assert (K : tv_eqb (info t) U = false).
    { destruct (info t) eqn:Ei; try reflexivity. apply info_U_iff in Ei. congruence. }
    rewrite K. lia.
  - apply info_U_iff in E. rewrite E. cbn [tv_eqb]. lia.
Qed.

Lemma ng_sub_info_le a b :
  length a = length b -> ng_sub (ng_of_terms a) (ng_of_terms b) -> info_le (interp_of a) (interp_of b).
Proof.
  intros L S. unfold info_le. apply (Forall2_of_nth _ U U).
  - rewrite !interp_of_length. exact L.
  - intros i Hi. specialize (S i). unfold ngat, ng_of_terms in S. unfold interp_of.
    destruct (nth i (map info a) U) eqn:E; [right|right|left; reflexivity]; symmetry; apply S; congruence.
Qed.

Lemma info_le_ng_sub a b : info_le a b -> ng_sub a b.
Proof.
  intros L i Hi. destruct (lt_dec i (length a)) as [Li|Li].
  - pose proof (Forall2_nth _ _ _ L i U U Li) as K. cbv beta in K. unfold ngat in *.
    destruct K as [K|K]; [contradiction|symmetry; exact K].
  - exfalso. apply Hi. apply ngat_overflow. lia.
Qed.

Lemma undec_set_nth v i t : undecided_at v i -> is_tv t = true -> (S (undec (set_nth v i t)) = undec v)%nat.
Proof.
  revert i. induction v as [|a v IH]; intros i [L Ui] Tt; [cbn in L; lia|].
  destruct i as [|i]; cbn [set_nth undec].
  - cbn [nth] in Ui. rewrite Ui, Tt. lia.
  - cbn [nth length] in *. rewrite <- (IH i); [lia| |exact Tt]. split; [lia|exact Ui].
Qed.

Lemma undec_zero_all_tv v : forallb is_tv v = false -> (0 < undec v)%nat.
Proof.
  induction v as [|a v IH]; cbn [forallb undec]; [discriminate|].
  destruct (is_tv a); cbn [andb]; [exact IH|lia].
Qed.

Lemma forallb_is_tv_undecided v : forallb is_tv v = false -> exists i, undecided_at v i.
Proof.
  induction v as [|a v IH]; cbn [forallb]; [discriminate|].
  destruct (is_tv a) eqn:E; cbn [andb]; intros H.
  - destruct (IH H) as [i [L Ui]]. exists (S i). split; [cbn; lia|exact Ui].
  - exists 0%nat. split; [cbn; lia|exact E].
Qed.

Lemma forallb_is_tv_Forall v : forallb is_tv v = true -> Forall (fun x => is_tv x = true) v.
Proof. intros H. apply Forall_forall. apply forallb_forall. exact H. Qed.

Lemma contradicts_false_nth cur aci i :
  contradicts cur aci = false -> (i < length cur)%nat -> (i < length aci)%nat ->
  is_tv (nth i cur 2) = true -> is_tv (nth i aci 2) = true -> info (nth i cur 2) = info (nth i aci 2).
Proof.
  unfold contradicts. revert aci i. induction cur as [|a cur IH]; intros [|b aci] i H L1 L2 T1 T2;
    try (cbn in L1, L2; lia).
  cbn [combine existsb fst snd] in H. apply orb_false_iff in H. destruct H as [H0 H].
  destruct i as [|i]; cbn [nth] in *.
  - rewrite T1, T2 in H0. cbn [andb] in H0. apply negb_false_iff, eqb_prop in H0.
    destruct (is_tv_true _ T1) as [-> | ->], (is_tv_true _ T2) as [-> | ->]; try reflexivity; discriminate H0.
  - apply IH; auto; cbn in L1, L2; lia.
Qed.

Section Semantics.
  Variable c : cfg.
  Variable ac : list N.
  Variable st0 : store.
  Hypothesis WF0 : WF c st0.
  Hypothesis OK0 : ac_ok st0 ac.

  Lemma apply_ac_facts st cur st1 aci :
    WF c st -> extends st0 st -> apply_interp c false st ac cur = Some (st1, aci) ->
    WF c st1 /\ extends st st1 /\ length aci = length ac /\ valid st1 aci /\
    Forall2 (fun hh a => feq (den st1 hh) (fun x => den st0 a (override (interp_of cur) x))) aci ac.
  Proof.
    intros W E X. destruct OK0 as [V0 _].
    destruct (apply_interp_ok c false cur ac st st1 aci W (valid_extends st0 st ac E V0) X) as (W1 & E1 & V1 & D).
    split; [exact W1|]. split; [exact E1|]. split; [apply (Forall2_len _ _ _ D)|]. split; [exact V1|].
    eapply Forall2_impl_Forall_r; [exact V0| |exact D]. intros hh a Ha Hd x. cbv beta in *.
    rewrite Hd. rewrite (extends_den_stable c st0 st a WF0 E Ha). apply den_ext. intros i. apply ovl_override.
  Qed.

  (** the three-valued consequence of every condition under [cur] *)
  Lemma apply_ac_cons3 st cur st1 aci i :
    WF c st -> extends st0 st -> apply_interp c false st ac cur = Some (st1, aci) ->
    (i < length ac)%nat -> Cons3 (den st0 (nth i ac 0)) (interp_of cur) (info (nth i aci 2)).
  Proof.
    intros W E X Li. destruct (apply_ac_facts st cur st1 aci W E X) as (W1 & E1 & L & V1 & D).
    rewrite <- L in Li. pose proof (Forall2_nth _ _ _ D i 2 0 Li) as Hi. cbv beta in Hi.
    apply (cons3_den c st0 st1 _ _ _ W1 (valid_nth st1 aci i 2 V1 Li) Hi).
  Qed.

  (** a two-valued interpretation that is consistent with the consequences of its conditions
      is a two-valued model *)
  Lemma consistent_model2 st v st1 aci :
    WF c st -> extends st0 st -> length v = length ac -> Forall (fun x => is_tv x = true) v ->
    apply_interp c false st ac v = Some (st1, aci) -> contradicts v aci = false ->
    Model2 (abs st0 ac) (interp_of v).
  Proof.
    intros W E L TV X NC. split; [|apply two_valued_interp_of; exact TV].
    unfold Complete. apply Gamma_abs. apply (Forall2_of_nth _ 0 2); [symmetry; exact L|].
    intros i Li.
    pose proof (apply_ac_cons3 st v st1 aci i W E X Li) as C3.
    destruct (apply_ac_facts st v st1 aci W E X) as (_ & _ & La & _ & _).
    assert (S : supported (length (interp_of v)) (den st0 (nth i ac 0))).
    { rewrite interp_of_length, L. destruct OK0 as [_ S]. rewrite Forall_forall in S. apply S.
      unfold abs. apply in_map. now apply nth_In. }
    pose proof (Cons3_two_valued _ _ (two_valued_interp_of v TV) S) as C2.
    pose proof (Cons3_det _ _ _ _ C3 C2) as Ed.
    assert (Ta : is_tv (nth i aci 2) = true).
    { apply is_tv_info. rewrite Ed. destruct (den st0 (nth i ac 0) (asg_of (interp_of v))); discriminate. }
    assert (Tv : is_tv (nth i v 2) = true).
    { rewrite Forall_forall in TV. apply TV. apply nth_In. lia. }
    rewrite (contradicts_false_nth v aci i NC); auto; lia.
  Qed.

  (** a complete interpretation above [cur] agrees with every decided consequence *)
  Lemma complete_above_cons3 st cur st1 aci m i :
    WF c st -> extends st0 st -> apply_interp c false st ac cur = Some (st1, aci) ->
    Complete (abs st0 ac) m -> info_le (interp_of cur) m ->
    (i < length ac)%nat -> is_tv (nth i aci 2) = true -> nth i m U = info (nth i aci 2).
  Proof.
    intros W E X Cm Lm Li Ta.
    pose proof (apply_ac_cons3 st cur st1 aci i W E X Li) as C3.
    unfold Complete, Gamma in Cm.
    assert (Li' : (i < length (abs st0 ac))%nat) by (rewrite abs_length; exact Li).
    pose proof (Forall2_nth _ _ _ Cm i (den st0 0) U Li') as Ci. cbv beta in Ci.
    unfold abs in Ci. rewrite map_nth in Ci.
    destruct (Cons3_mono _ _ _ _ _ Lm C3 Ci) as [K|K]; [|symmetry; exact K].
    apply info_U_iff in K. congruence.
  Qed.
End Semantics.

(** every built-in heuristic proposes a truth value (also the unrepaired random one) *)
Lemma run_heuristic_tv c h rf st s var t dr :
  run_heuristic c h rf st s = Some (Some (var, t), dr) -> t = 0 \/ t = 1.
Proof.
  destruct h; cbn [run_heuristic].
  - unfold heu_simple. destruct (filter _ _) as [|[i x] r]; intros H; inversion H. now right.
  - unfold heu_mc_minpaths_maxvarimp. destruct (min_by _ _) as [[i x]|]; intros H; inversion H. apply b2t_tv.
  - unfold heu_mc_maxvarimp_minpaths. destruct (min_by _ _) as [[i x]|]; intros H; inversion H. apply b2t_tv.
  - unfold heu_rand. destruct (filter _ _) as [|p r]; [intros H; inversion H|].
    destruct (g_draws s) as [|u [|u2 rest]]; intros H; inversion H. apply b2t_tv.
  - unfold heu_static. destruct (filter _ order) as [|i r].
    + unfold heu_simple. destruct (filter _ _) as [|[i x] r]; intros H; inversion H. now right.
    + intros H; inversion H. apply b2t_tv.
Qed.

(* ------------------------------------------------------------------ *)
(** * The basic invariant: shapes, synchronous stacks, sound output *)

Section Basic.
  Variable c : cfg.
  Variable ac : list N.
  Variable h : heuristic.
  Variable rf : bool.
  Variable two : bool.
  Variable sx : bool.
  Variable st0 : store.
  Hypothesis WF0 : WF c st0.
  Hypothesis OK0 : ac_ok st0 ac.

  Definition modelP (m : interp) : Prop :=
    if two then Model2 (abs st0 ac) m else Stable (abs st0 ac) m.

  Definition vec_ok (st : store) (v : list N) : Prop := length v = length ac /\ valid st v.

  Record inv0 (st : store) (s : ngstate) : Prop := mkInv0 {
    i_wf : WF c st;
    i_ext : extends st0 st;
    i_cur : vec_ok st (g_cur s);
    i_hist : Forall (vec_ok st) (g_hist s);
    i_stack : Forall (fun f => length (snd f) = length ac) (g_stack s);
    i_sync : length (filter fst (g_stack s)) = length (g_hist s);
    i_bok : buckets_ok (g_store s);
    i_blen : length (buckets (g_store s)) = length ac;
    i_dup : dup (g_store s) = DEquiv;
    i_out : Forall (fun v => length v = length ac /\ Forall (fun x => is_tv x = true) v /\ modelP (interp_of v))
                   (g_out s)
  }.

  Lemma vec_ok_extends st st' v : extends st st' -> vec_ok st v -> vec_ok st' v.
  Proof. intros E [L V]. split; [exact L|exact (valid_extends st st' v E V)]. Qed.

  Lemma inv0_store st st' s : inv0 st s -> WF c st' -> extends st st' -> inv0 st' s.
  Proof.
    intros [W E C H S Y B BL D O] W' E'. constructor; auto.
    - eapply extends_trans; eauto.
    - eapply vec_ok_extends; eauto.
    - eapply Forall_impl; [|exact H]. intros v. apply vec_ok_extends. exact E'.
  Qed.

  Lemma valid_set_nth st v i t : valid st v -> t < size st -> valid st (set_nth v i t).
  Proof.
    unfold valid. revert i. induction v as [|a v IH]; intros [|i] V T; cbn [set_nth]; auto;
      inversion V; subst; constructor; auto.
  Qed.

  Lemma inv0_phase1 st s s1 : inv0 st s -> phase1 c h rf st s = Some s1 -> inv0 st s1.
  Proof.
    intros I H. unfold phase1 in H. destruct (g_choice s); [|inversion H; subst; exact I].
    destruct I as [W E [CL CV] Hh S Y B BL D O].
    destruct (run_heuristic c h rf st s) as [[[[var t]|] dr]|] eqn:R; [| |discriminate H];
      inversion H; subst s1; clear H; constructor; cbn [g_cur g_hist g_stack g_store g_out]; auto.
    - split; [rewrite set_nth_length; exact CL|].
      apply valid_set_nth; [exact CV|]. pose proof (size_gt_1 c st W).
      destruct (run_heuristic_tv _ _ _ _ _ _ _ _ R) as [-> | ->]; lia.
    - constructor; [split; assumption|exact Hh].
    - constructor; [cbn [snd]; rewrite ng_of_terms_length, set_nth_length; exact CL|exact S].
    - cbn [filter fst length]. rewrite Y. reflexivity.
    - split; assumption.
  Qed.

  Lemma filter_fst_false (l : list (bool * ng)) : Forall (fun f => fst f = false) l -> filter fst l = [].
  Proof.
    induction 1 as [|[b g] l Hb _ IH]; [reflexivity|]. cbn [filter fst] in *. rewrite Hb. exact IH.
  Qed.

  Lemma unwind_inv0 st s1 ngs stk hist cur found :
    inv0 st s1 -> unwind (g_store s1) (g_stack s1) (g_hist s1) (g_cur s1) = Some (ngs, stk, hist, cur, found) ->
    inv0 st (mkNG cur ngs stk hist false (g_choice s1) (g_out s1) (g_draws s1)).
  Proof.
    intros [W E C Hh S Y B BL D O] H.
    apply unwind_spec in H.
    destruct H as [[_ [above [g [I [Hs [Ha [Hhist [Hc Hadd]]]]]]]] | [_ [Hs [Ha [Hhist [Hc Hadd]]]]]].
    - destruct (add_all_ok _ _ _ B Hadd) as [B' [D' L']].
      rewrite Hhist in Hh. inversion Hh as [|? ? HI Hh']; subst.
      constructor; cbn [g_cur g_hist g_stack g_store g_out]; auto; try congruence.
      + rewrite Hs in S. apply Forall_app in S. destruct S as [_ S]. inversion S; assumption.
      + rewrite Hs, Hhist in Y. rewrite filter_app, (filter_fst_false above Ha) in Y.
        cbn [filter fst app length] in Y. lia.
    - destruct (add_all_ok _ _ _ B Hadd) as [B' [D' L']]. subst.
      constructor; cbn [g_cur g_hist g_stack g_store g_out]; auto; try congruence.
      rewrite (filter_fst_false _ Ha) in Y. cbn [filter length]. exact Y.
  Qed.

  Lemma inv0_phase2 st s1 s2 : inv0 st s1 -> phase2 sx s1 = P2Go s2 -> inv0 st s2.
  Proof.
    intros I H. unfold phase2 in H. destruct (g_backtrack s1); [|inversion H; subst; exact I].
    destruct (g_stack s1) eqn:Es; [discriminate H|]. rewrite <- Es in H.
    destruct (unwind _ _ _ _) as [[[[[ngs stk] hist] cur] found]|] eqn:U; [|discriminate H].
    destruct (sx && negb found); [discriminate H|].
    inversion H; subst s2. apply (unwind_inv0 st s1 _ _ _ _ _ I U).
  Qed.

  Lemma inv0_phase2_break st s1 sb : inv0 st s1 -> phase2 sx s1 = P2Break sb -> inv0 st sb /\ g_stack sb = [].
  Proof.
    intros I H. unfold phase2 in H. destruct (g_backtrack s1); [|discriminate H].
    destruct (g_stack s1) eqn:Es; [inversion H; subst; auto|]. rewrite <- Es in H.
    destruct (unwind _ _ _ _) as [[[[[ngs stk] hist] cur] found]|] eqn:U; [|discriminate H].
    destruct (sx && negb found) eqn:Ex; [|discriminate H].
    inversion H; subst sb. split; [apply (unwind_inv0 st s1 _ _ _ _ _ I U)|].
    apply andb_true_iff in Ex. destruct Ex as [_ Ef]. apply negb_true_iff in Ef. subst found.
    apply unwind_spec in U. destruct U as [[Z _]|[_ [Hs _]]]; [discriminate Z|exact Hs].
  Qed.

  Lemma inv0_no_panic st s1 : inv0 st s1 -> phase2 sx s1 <> P2Panic.
  Proof.
    intros [W E C Hh S Y B BL D O] H. unfold phase2 in H. destruct (g_backtrack s1); [|discriminate H].
    destruct (g_stack s1) eqn:Es; [discriminate H|]. rewrite <- Es in H, S, Y.
    destruct (unwind_some (g_stack s1) (g_store s1) (g_hist s1) (g_cur s1) B) as [r U].
    - eapply Forall_impl; [|exact S]. intros f Lf. cbv beta in *.
      rewrite BL, <- Lf. apply ng_len_le_length.
    - lia.
    - rewrite U in H. destruct r as [[[[ngs stk] hist] cur] found]. destruct (sx && negb found); discriminate H.
  Qed.

  Lemma closure_to_inv0 st s2 s3 upd : inv0 st s2 -> closure_to s2 s3 upd -> inv0 st s3.
  Proof.
    intros I CT. inversion CT as [v Hv|Hn]; subst; [|exact I].
    destruct I as [W E [CL CV] Hh S Y B BL D O].
    destruct (closure_update_entries _ _ _ B Hv) as [L [_ [En _]]].
    constructor; cbn [g_cur g_hist g_stack g_store g_out]; auto.
    - split; [congruence|]. unfold valid. apply Forall_forall. intros x Hx.
      destruct (In_nth _ _ 2 Hx) as [i [Li Ei]]. subst x.
      destruct (En i) as [T|Eq].
      + pose proof (size_gt_1 c st W). apply is_tv_le in T. lia.
      + rewrite Eq. apply valid_nth; [exact CV|lia].
    - constructor; [cbn [snd]; rewrite ng_of_terms_length; congruence|exact S].
  Qed.

  Lemma run_test_ok st v st' b :
    WF c st -> extends st0 st -> length v = length ac -> Forall (fun x => is_tv x = true) v ->
    run_test c ac two st v = Some (st', b) ->
    WF c st' /\ extends st st' /\
    (two = true -> b = true) /\ (two = false -> (b = true <-> Stable (abs st0 ac) (interp_of v))).
  Proof.
    intros W E L TV H. unfold run_test in H. destruct two.
    - inversion H; subst. split; [exact W|]. split; [apply extends_refl|]. split; [auto|discriminate].
    - destruct (stability_check_iff c st ac v st' b W (ac_ok_extends c st0 st ac WF0 E OK0) L TV H) as (W' & E' & Hb).
      split; [exact W'|]. split; [exact E'|]. split; [discriminate|]. intros _. rewrite Hb.
      destruct OK0 as [V0 _]. pose proof (abs_extends c st0 st ac WF0 E V0) as EQ.
      split; apply Stable_feq; [apply adf_eq_sym|]; exact EQ.
  Qed.

  Lemma inv0_phase3 st s2 r :
    inv0 st s2 -> p3 c ac two st s2 r -> exists st' s', r = Continue st' s' /\ inv0 st' s' /\ extends st st'.
  Proof.
    intros I P. inversion P as [Hc | s3 upd st1 aci CT X5 Ec | s3 upd st1 aci st2 cur' CT X5 Ec X6 Hu
                                | st1 aci st2 cur' Hc X5 Ec X6 El Ef | st1 aci st2 cur' st3 stable Hc X5 Ec X6 El Ef Xt]; subst r.
    - eexists _, _. split; [reflexivity|]. split; [|apply extends_refl].
      destruct I. constructor; auto.
    - pose proof (closure_to_inv0 st s2 s3 upd I CT) as I3.
      destruct (apply_ac_facts c ac st0 WF0 OK0 st _ st1 aci (i_wf _ _ I3) (i_ext _ _ I3) X5) as (W1 & E1 & _).
      eexists _, _. split; [reflexivity|]. split; [|exact E1].
      apply (inv0_store st st1); [|exact W1|exact E1]. destruct I3. constructor; auto.
    - pose proof (closure_to_inv0 st s2 s3 upd I CT) as I3.
      destruct (apply_ac_facts c ac st0 WF0 OK0 st _ st1 aci (i_wf _ _ I3) (i_ext _ _ I3) X5) as (W1 & E1 & _).
      pose proof (inv0_store st st1 s3 I3 W1 E1) as I3'.
      destruct (update_fix_facts c st1 _ st2 cur' W1 (proj2 (i_cur _ _ I3')) X6) as (W2 & E2 & V2 & L2 & _).
      eexists _, _. split; [reflexivity|]. split; [|eapply extends_trans; eauto].
      pose proof (inv0_store st1 st2 s3 I3' W2 E2) as I3''. destruct I3''. constructor; auto.
      cbn [g_cur]. split; [|exact V2]. destruct i_cur0. congruence.
    - destruct (apply_ac_facts c ac st0 WF0 OK0 st _ st1 aci (i_wf _ _ I) (i_ext _ _ I) X5) as (W1 & E1 & _).
      pose proof (inv0_store st st1 s2 I W1 E1) as I'.
      destruct (update_fix_facts c st1 _ st2 cur' W1 (proj2 (i_cur _ _ I')) X6) as (W2 & E2 & V2 & L2 & _).
      eexists _, _. split; [reflexivity|]. split; [|eapply extends_trans; eauto].
      pose proof (inv0_store st1 st2 s2 I' W2 E2) as I''. destruct I''. constructor; auto.
      cbn [g_cur]. split; [|exact V2]. destruct i_cur0. congruence.
    - destruct (apply_ac_facts c ac st0 WF0 OK0 st _ st1 aci (i_wf _ _ I) (i_ext _ _ I) X5) as (W1 & E1 & _).
      pose proof (inv0_store st st1 s2 I W1 E1) as I'.
      destruct (update_fix_facts c st1 _ st2 cur' W1 (proj2 (i_cur _ _ I')) X6) as (W2 & E2 & V2 & L2 & _).
      pose proof (list_eqb_eq _ _ El) as Ecur.
      assert (Lc : length cur' = length ac) by (destruct (i_cur _ _ I); congruence).
      pose proof (forallb_is_tv_Forall _ Ef) as TV.
      assert (E02 : extends st0 st2).
      { eapply extends_trans; [exact (i_ext _ _ I)|]. eapply extends_trans; eauto. }
      destruct (run_test_ok st2 cur' st3 stable W2 E02 Lc TV Xt) as (W3 & E3 & Ht & Hs).
      eexists _, _. split; [reflexivity|].
      split; [|eapply extends_trans; [exact E1|eapply extends_trans; eauto]].
      pose proof (inv0_store st1 st2 s2 I' W2 E2) as I''.
      pose proof (inv0_store st2 st3 s2 I'' W3 E3) as I3. destruct I3. constructor; auto; cbn [g_cur g_stack g_out].
      + split; [exact Lc|]. exact (valid_extends st2 st3 cur' E3 V2).
      + constructor; [cbn [snd]; rewrite ng_of_terms_length; exact Lc|assumption].
      + destruct stable; [|assumption]. constructor; [|assumption].
        split; [exact Lc|]. split; [exact TV|].
        unfold modelP. destruct two eqn:Etwo.
        * rewrite Ecur. rewrite Ecur in TV, Lc.
          apply (consistent_model2 c ac st0 WF0 OK0 st _ st1 aci (i_wf _ _ I) (i_ext _ _ I) Lc TV X5 Ec).
        * apply Hs; reflexivity.
  Qed.

  (** one step *)
  Lemma inv0_step st s r :
    inv0 st s -> ng_step c ac h rf two sx st s = Some r ->
    match r with
    | Continue st' s' => inv0 st' s' /\ extends st st'
    | Break st' s' => inv0 st' s' /\ st' = st /\ g_stack s' = []
    | Panic => False
    end.
  Proof.
    intros I H. rewrite ng_step_eq in H.
    destruct (phase1 c h rf st s) as [s1|] eqn:P1; [|discriminate H].
    pose proof (inv0_phase1 st s s1 I P1) as I1.
    destruct (phase2 sx s1) as [sb| |s2] eqn:P2.
    - inversion H; subst r. destruct (inv0_phase2_break st s1 sb I1 P2) as [Ib Sb]. auto.
    - exfalso. exact (inv0_no_panic st s1 I1 P2).
    - pose proof (inv0_phase2 st s1 s2 I1 P2) as I2.
      apply phase3_cases in H.
      destruct (inv0_phase3 st s2 r I2 H) as (st' & s' & -> & I' & E'). split; assumption.
  Qed.

  Lemma inv0_loop : forall fuel st s st' s',
    inv0 st s -> ng_loop c ac h rf two sx fuel st s = Some (st', s') ->
    inv0 st' s' /\ extends st st' /\ g_stack s' = [].
  Proof.
    induction fuel as [|f IH]; intros st s st' s' I H; [discriminate H|].
    cbn [ng_loop] in H. destruct (ng_step c ac h rf two sx st s) as [r|] eqn:S; [|discriminate H].
    pose proof (inv0_step st s r I S) as K. destruct r as [st1 s1|st1 s1|].
    - destruct K as [I1 E1]. destruct (IH st1 s1 st' s' I1 H) as (I' & E' & F').
      split; [exact I'|]. split; [eapply extends_trans; eauto|exact F'].
    - inversion H; subst. destruct K as [I1 [-> F]]. split; [exact I1|]. split; [apply extends_refl|exact F].
    - destruct K.
  Qed.

  Definition ng_init (g : list N) (draws : list N) : ngstate :=
    mkNG g (ngs_new (length ac)) [] [] false false [] draws.

  Lemma inv0_init s1 g draws : grounded c st0 ac = Some (s1, g) -> inv0 s1 (ng_init g draws).
  Proof.
    intros G. destruct (grounded_exact c st0 ac s1 g WF0 OK0 G) as (W1 & E1 & L & V & _).
    constructor; cbn [ng_init g_cur g_hist g_stack g_store g_out]; auto.
    - split; assumption.
    - apply ngs_new_ok.
    - cbn [ngs_new buckets]. apply repeat_length.
  Qed.
End Basic.

(** states reachable by the loop *)
Inductive ng_reach (c : cfg) (ac : list N) (h : heuristic) (rf two sx : bool)
  : store -> ngstate -> store -> ngstate -> Prop :=
| reach_refl st s : ng_reach c ac h rf two sx st s st s
| reach_step st s st1 s1 st2 s2 :
    ng_reach c ac h rf two sx st s st1 s1 -> ng_step c ac h rf two sx st1 s1 = Some (Continue st2 s2) ->
    ng_reach c ac h rf two sx st s st2 s2.

Lemma inv0_reach c ac h rf two sx st0 (WF0 : WF c st0) (OK0 : ac_ok st0 ac) st s st' s' :
  inv0 c ac two st0 st s -> ng_reach c ac h rf two sx st s st' s' -> inv0 c ac two st0 st' s'.
Proof.
  intros I R. induction R as [|st s st1 s1 st2 s2 R IH S]; [exact I|].
  apply (inv0_step c ac h rf two sx st0 WF0 OK0 st1 s1 _ (IH I) S).
Qed.

(** 1. soundness: everything emitted is two-valued and is a two-valued model, respectively a
    stable model (no assumption on the heuristic) *)
Theorem ng_sound c ac h rf two sx budget st draws st' l rest :
  WF c st -> ac_ok st ac -> nogood_search c ac h rf two sx budget st draws = Some (st', l, rest) ->
  WF c st' /\ extends st st' /\
  forall v, In v l ->
    length v = length ac /\ Forall (fun x => is_tv x = true) v /\
    (if two then Model2 (abs st ac) (interp_of v) else Stable (abs st ac) (interp_of v)).
Proof.
  intros W OK H. unfold nogood_search in H.
  apply obind_inv in H. destruct H as ([s1 g] & G & H).
  apply obind_inv in H. destruct H as ([s2 fin] & L & H). inversion H; subst st' l rest. clear H.
  pose proof (inv0_init c ac two st W OK s1 g draws G) as I1.
  destruct (inv0_loop c ac h rf two sx st W OK budget s1 _ s2 fin I1 L) as (I2 & E2 & _).
  destruct (grounded_exact c st ac s1 g W OK G) as (_ & E1 & _).
  split; [exact (i_wf _ _ _ _ _ _ I2)|]. split; [exact (i_ext _ _ _ _ _ _ I2)|].
  intros v Hv. apply in_rev in Hv.
  pose proof (i_out _ _ _ _ _ _ I2) as O. rewrite Forall_forall in O. exact (O v Hv).
Qed.

(** 2. the two stacks stay synchronous and every nogood fits into the store: from a state the
    loop can reach, a step never panics (no assumption on the heuristic is needed) *)
Theorem ng_no_panic c ac h rf two sx st draws s1 g st' s' :
  WF c st -> ac_ok st ac -> grounded c st ac = Some (s1, g) ->
  ng_reach c ac h rf two sx s1 (ng_init ac g draws) st' s' ->
  ng_step c ac h rf two sx st' s' <> Some Panic /\
  length (filter fst (g_stack s')) = length (g_hist s') /\
  Forall (fun f => (ng_len (snd f) <= length (buckets (g_store s')))%nat) (g_stack s').
Proof.
  intros W OK G R.
  pose proof (inv0_reach c ac h rf two sx st W OK _ _ _ _ (inv0_init c ac two st W OK s1 g draws G) R) as I.
  split; [|split].
  - intros S. exact (inv0_step c ac h rf two sx st W OK st' s' _ I S).
  - exact (i_sync _ _ _ _ _ _ I).
  - pose proof (i_stack _ _ _ _ _ _ I) as S. pose proof (i_blen _ _ _ _ _ _ I) as BL.
    eapply Forall_impl; [|exact S]. intros f Lf. cbv beta in *.
    rewrite BL, <- Lf. apply ng_len_le_length.
Qed.

(* ------------------------------------------------------------------ *)
(** * The structure of the stack *)

Lemma ng_len_undec v : (ng_len (ng_of_terms v) + undec v = length v)%nat.
Proof.
  induction v as [|t v IH]; [reflexivity|].
  change (ng_of_terms (t :: v)) with (info t :: ng_of_terms v).
  rewrite (ng_len_step (info t :: ng_of_terms v)). cbn [tl undec length]. rewrite ngat_cons_0.
  destruct (is_tv t) eqn:E.
  - assert (K : active (info t) = true).
    { apply active_true. intros Z. apply info_U_iff in Z. congruence. }
    rewrite K. lia.
  - apply info_U_iff in E. rewrite E. cbn [active tv_eqb negb]. lia.
Qed.

Lemma ng_len_set_nth v i t :
  undecided_at v i -> is_tv t = true ->
  ng_len (ng_of_terms (set_nth v i t)) = S (ng_len (ng_of_terms v)).
Proof.
  intros Ui Tt. pose proof (undec_set_nth v i t Ui Tt). pose proof (ng_len_undec v).
  pose proof (ng_len_undec (set_nth v i t)). rewrite set_nth_length in *. lia.
Qed.

Lemma ng_equiv_len x g : ng_equiv x g -> ng_len x = ng_len g.
Proof.
  intros E. destruct (ng_equiv_sub x g E) as [A B].
  pose proof (ng_len_sub _ _ A). pose proof (ng_len_sub _ _ B). lia.
Qed.

Lemma ng_equiv_sym x g : ng_equiv x g -> ng_equiv g x.
Proof. intros E i. symmetry. apply E. Qed.

Lemma ng_sub_len_strict g x : ng_sub g x -> (ng_len x < ng_len g)%nat -> False.
Proof. intros S L. pose proof (ng_len_sub _ _ S). lia. Qed.

Inductive stk_inv (S : list ng) : list (bool * ng) -> list (list N) -> ng -> Prop :=
| SI_nil top : stk_inv S [] [] top
| SI_f g rest hist top :
    ng_sub g top -> ng_len g <> 0%nat -> stk_inv S rest hist g ->
    stk_inv S ((false, g) :: rest) hist top
| SI_c g I y b rest hist top :
    ng_sub g top -> ng_sub (ng_of_terms I) g ->
    undecided_at I y -> ngat g y = lit b -> ng_len g = Datatypes.S (ng_len (ng_of_terms I)) ->
    (forall x, In x S -> conflicts x (ng_of_terms I) \/ (ng_sub g x /\ ~ ng_sub x g)) ->
    stk_inv S rest hist (ng_of_terms I) ->
    stk_inv S ((true, g) :: rest) (I :: hist) top.

Lemma stk_inv_top S stk hist top top' : ng_sub top top' -> stk_inv S stk hist top -> stk_inv S stk hist top'.
Proof.
  intros Ht H. destruct H.
  - constructor.
  - constructor; auto. eapply ng_sub_trans; eauto.
  - econstructor; eauto. eapply ng_sub_trans; eauto.
Qed.

(** new stored nogoods strictly above the bound do not disturb the frames *)
Lemma stk_inv_store S S' stk hist top :
  (forall x, In x S' -> In x S \/ (ng_sub top x /\ ~ ng_sub x top)) ->
  stk_inv S stk hist top -> stk_inv S' stk hist top.
Proof.
  intros HS H. revert HS. induction H as [top|g rest hist top Hg Hl H IH|g I y b rest hist top Hg HI Hy Hb Hl HK H IH];
    intros HS.
  - constructor.
  - constructor; auto. apply IH. intros x Hx. destruct (HS x Hx) as [K|[K1 K2]]; [now left|right].
    split; [eapply ng_sub_trans; eauto|]. intros Z. apply K2. eapply ng_sub_trans; eauto.
  - econstructor; eauto.
    + intros x Hx. destruct (HS x Hx) as [K|[K1 K2]]; [now apply HK|right].
      split; [eapply ng_sub_trans; eauto|]. intros Z. apply K2. eapply ng_sub_trans; eauto.
    + apply IH. intros x Hx. destruct (HS x Hx) as [K|[K1 K2]]; [now left|right].
      split; [eapply ng_sub_trans; [exact HI|eapply ng_sub_trans; eauto]|].
      intros Z. apply K2. eapply ng_sub_trans; [exact Z|]. eapply ng_sub_trans; eauto.
Qed.

(** the frames above the first choice frame *)
Lemma stk_inv_split S : forall above g rest hist top,
  Forall (fun f => fst f = false) above ->
  stk_inv S (above ++ (true, g) :: rest) hist top ->
  (forall f, In f above -> ng_sub g (snd f)) /\ ng_sub g top /\
  exists top', stk_inv S ((true, g) :: rest) hist top'.
Proof.
  induction above as [|[ch g0] above IH]; intros g rest hist top Ha H.
  - cbn [app] in H. split; [intros f []|]. split; [|exists top; exact H].
    inversion H; subst; assumption.
  - inversion Ha as [|? ? Hch Ha']; subst. cbn [fst] in Hch. subst ch.
    cbn [app] in H. inversion H as [|? ? ? ? Hg Hl H'|]; subst.
    destruct (IH g rest hist g0 Ha' H') as [A [B C]].
    split; [|split; [eapply ng_sub_trans; eauto|exact C]].
    intros f [<-|Hf]; [exact B|now apply A].
Qed.

Lemma stk_inv_nochoice S : forall stk hist top,
  Forall (fun f => fst f = false) stk -> stk_inv S stk hist top ->
  hist = [] /\ forall f, hd_error stk = Some f -> ng_sub (snd f) top /\ ng_len (snd f) <> 0%nat.
Proof.
  induction stk as [|[ch g] stk IH]; intros hist top Ha H.
  - inversion H; subst. split; [reflexivity|]. intros f E. discriminate E.
  - inversion Ha as [|? ? Hch Ha']; subst. cbn [fst] in Hch. subst ch.
    inversion H as [|? ? ? ? Hg Hl H'|]; subst.
    destruct (IH hist g Ha' H') as [Eh _]. split; [exact Eh|].
    intros f E. cbn [hd_error] in E. inversion E; subst f. cbn [snd]. split; assumption.
Qed.

(* ------------------------------------------------------------------ *)
(** * Counting the partial assignments that are not yet stored *)

Fixpoint all_ngs (n : nat) : list ng :=
  match n with
  | O => [[]]
  | S k => flat_map (fun g => [T :: g; F :: g; U :: g]) (all_ngs k)
  end.

Lemma all_ngs_length n : length (all_ngs n) = (3 ^ n)%nat.
Proof.
  induction n as [|n IH]; [reflexivity|]. cbn [all_ngs].
  assert (G : forall l : list ng, length (flat_map (fun g => [T :: g; F :: g; U :: g]) l) = (3 * length l)%nat).
  { induction l as [|a l IHl]; [reflexivity|]. cbn [flat_map app length]. rewrite IHl. lia. }
  rewrite G, IH. cbn [Nat.pow]. lia.
Qed.

Lemma in_all_ngs g : In g (all_ngs (length g)).
Proof.
  induction g as [|a g IH]; [now left|]. cbn [length all_ngs]. apply in_flat_map.
  exists g. split; [exact IH|]. destruct a; cbn; auto.
Qed.

Definition is_stored (G : list ng) (p : ng) : bool := existsb (fun x => ng_eqb x p) G.

Lemma is_stored_spec G p : is_stored G p = true <-> stored_eq G p.
Proof.
  unfold is_stored, stored_eq, ng_equiv. rewrite existsb_exists. split; intros [x [Hx E]]; exists x; split; auto;
    apply ng_eqb_spec; exact E.
Qed.

Definition mu1 (n : nat) (G : list ng) : nat :=
  length (filter (fun p => negb (is_stored G p)) (all_ngs n)).

Lemma filter_length_mono {A} (f f' : A -> bool) l :
  (forall x, f' x = true -> f x = true) -> (length (filter f' l) <= length (filter f l))%nat.
Proof.
  intros H. induction l as [|a l IH]; [reflexivity|]. cbn [filter].
  destruct (f' a) eqn:E'.
  - rewrite (H a E'). cbn [length]. lia.
  - destruct (f a); cbn [length]; lia.
Qed.

Lemma filter_length_strict {A} (f f' : A -> bool) l p :
  (forall x, f' x = true -> f x = true) -> In p l -> f p = true -> f' p = false ->
  (length (filter f' l) < length (filter f l))%nat.
Proof.
  intros H. induction l as [|a l IH]; intros Hp Fp F'p; [destruct Hp|]. cbn [filter].
  destruct Hp as [->|Hp].
  - rewrite Fp, F'p. cbn [length]. pose proof (filter_length_mono f f' l H). lia.
  - specialize (IH Hp Fp F'p). destruct (f' a) eqn:E'.
    + rewrite (H a E'). cbn [length]. lia.
    + destruct (f a); cbn [length]; lia.
Qed.

Lemma mu1_le n G : (mu1 n G <= 3 ^ n)%nat.
Proof. unfold mu1. rewrite <- all_ngs_length. apply filter_len_le. Qed.

Lemma mu1_mono n G G' : (forall x, In x G -> In x G') -> (mu1 n G' <= mu1 n G)%nat.
Proof.
  intros H. unfold mu1. apply filter_length_mono. intros p Hp.
  apply negb_true_iff in Hp. apply negb_true_iff.
  destruct (is_stored G p) eqn:E; [|reflexivity].
  apply is_stored_spec in E. destruct E as [x [Hx Ex]].
  assert (K : is_stored G' p = true) by (apply is_stored_spec; exists x; auto). congruence.
Qed.

Lemma mu1_strict n G G' g :
  (forall x, In x G -> In x G') -> length g = n -> ~ stored_eq G g -> stored_eq G' g ->
  (mu1 n G' < mu1 n G)%nat.
Proof.
  intros H L N Y. unfold mu1. apply filter_length_strict with (p := g).
  - intros p Hp. apply negb_true_iff in Hp. apply negb_true_iff.
    destruct (is_stored G p) eqn:E; [|reflexivity].
    apply is_stored_spec in E. destruct E as [x [Hx Ex]].
    assert (K : is_stored G' p = true) by (apply is_stored_spec; exists x; auto). congruence.
  - rewrite <- L. apply in_all_ngs.
  - apply negb_true_iff. destruct (is_stored G g) eqn:E; [|reflexivity].
    apply is_stored_spec in E. contradiction.
  - apply negb_false_iff. apply is_stored_spec. exact Y.
Qed.

(* ------------------------------------------------------------------ *)
(** * The strong invariant (admissible heuristic, at least one statement) *)

Section Strong.
  Variable c : cfg.
  Variable ac : list N.
  Variable h : heuristic.
  Variable rf : bool.
  Variable two : bool.
  Variable sx : bool.
  Variable st0 : store.
  Hypothesis WF0 : WF c st0.
  Hypothesis OK0 : ac_ok st0 ac.
  Hypothesis ADM : admissible c h rf.
  Hypothesis NE : ac <> [].

  Notation ngv := ng_of_terms.
  Notation Inv0 := (inv0 c ac two st0).

  Definition clean (G : list ng) (cur : list N) : Prop := forall x, In x G -> conflicts x (ngv cur).

  Record inv1 (st : store) (s : ngstate) : Prop := mkInv1 {
    j0 : Inv0 st s;
    j_stk : stk_inv (stored (g_store s)) (g_stack s) (g_hist s) (ngv (g_cur s));
    j_slen : Forall (fun g => length g = length ac) (stored (g_store s));
    j_k2 : g_backtrack s = false -> clean (stored (g_store s)) (g_cur s);
    j_ch : g_choice s = true -> g_backtrack s = false /\ forallb is_tv (g_cur s) = false
  }.

  (** the situation just before the closure is computed *)
  Inductive cmode (G : list ng) (cur : list N) : Prop :=
  | CM_clean : clean G cur -> cmode G cur
  | CM_pend g y b :
      In g G -> ng_sub (ngv cur) g -> undecided_at cur y -> ngat g y = lit b ->
      ng_len g = S (ng_len (ngv cur)) ->
      (forall x, In x G -> conflicts x (ngv cur) \/ ng_sub g x) -> cmode G cur
  | CM_dead x : In x G -> ng_sub x (ngv cur) -> cmode G cur.

  Record mid1 (st : store) (s : ngstate) : Prop := mkMid1 {
    m0 : Inv0 st s;
    m_stk : stk_inv (stored (g_store s)) (g_stack s) (g_hist s) (ngv (g_cur s));
    m_slen : Forall (fun g => length g = length ac) (stored (g_store s));
    m_bt : g_backtrack s = false;
    m_ch : g_choice s = false;
    m_mode : cmode (stored (g_store s)) (g_cur s)
  }.

  Lemma lit_info t : t = 0 \/ t = 1 -> info t = lit (t =? 1).
  Proof. intros [-> | ->]; reflexivity. Qed.

  Lemma tv_is_tv t : t = 0 \/ t = 1 -> is_tv t = true.
  Proof. intros [-> | ->]; reflexivity. Qed.

  (** phase 1 *)
  Lemma inv1_phase1 st s s1 :
    inv1 st s -> phase1 c h rf st s = Some s1 ->
    inv1 st s1 /\ g_choice s1 = false /\ g_store s1 = g_store s /\ g_out s1 = g_out s /\
    (g_choice s = false -> s1 = s) /\
    (g_choice s = true ->
       exists var t, undecided_at (g_cur s) var /\ (t = 0 \/ t = 1) /\ g_cur s1 = set_nth (g_cur s) var t /\
         g_backtrack s1 = false /\
         g_stack s1 = (true, ngv (g_cur s1)) :: g_stack s /\ g_hist s1 = g_cur s :: g_hist s).
  Proof.
    intros I H. pose proof (inv0_phase1 c ac h rf two st0 st s s1 (j0 _ _ I) H) as I01.
    unfold phase1 in H. destruct (g_choice s) eqn:Ech.
    2:{ inversion H; subst s1. split; [exact I|]. repeat split; auto. discriminate. }
    destruct (j_ch _ _ I Ech) as [Ebt Ef].
    pose proof (ADM st s) as A.
    destruct (run_heuristic c h rf st s) as [[[[var t]|] dr]|] eqn:R; [| |discriminate H].
    - destruct A as [Uv Tt]. inversion H; subst s1; clear H.
      split; [|split; [reflexivity|split; [reflexivity|split; [reflexivity|split; [discriminate|]]]]].
      2:{ intros _. exists var, t. cbn [g_cur g_backtrack g_stack g_hist].
          split; [exact Uv|]. split; [exact Tt|]. repeat split; auto. }
      destruct I as [I0 Stk Sl K2 Ch]. constructor; cbn [g_cur g_stack g_hist g_store g_backtrack g_choice] in *.
      + exact I01.
      + apply SI_c with (y := var) (b := (t =? 1)).
        * apply ng_sub_refl.
        * apply set_nth_sub. exact Uv.
        * exact Uv.
        * rewrite ngat_set_nth, Nat.eqb_refl. destruct Uv as [Lv _]. apply Nat.ltb_lt in Lv. rewrite Lv.
          cbn [andb]. apply lit_info. exact Tt.
        * apply ng_len_set_nth; [exact Uv|apply tv_is_tv; exact Tt].
        * intros x Hx. left. apply (K2 Ebt x Hx).
        * exact Stk.
      + exact Sl.
      + intros _ x Hx. eapply conflicts_sub; [apply set_nth_sub; exact Uv|]. apply (K2 Ebt x Hx).
      + discriminate.
    - exfalso. destruct (forallb_is_tv_undecided _ Ef) as [i Ui]. exact (A i Ui).
  Qed.

  (** phase 2 *)
  Lemma stored_eq_not_k1 G g I :
    ng_sub (ngv I) g ->
    (forall x, In x G -> conflicts x (ngv I) \/ (ng_sub g x /\ ~ ng_sub x g)) -> ~ stored_eq G g.
  Proof.
    intros SI K [x [Hx Ex]]. destruct (ng_equiv_sub _ _ Ex) as [A B].
    destruct (K x Hx) as [Cx|[_ N]]; [|exact (N A)].
    apply (conflicts_not_sub x (ngv I)).
    - exact Cx.
    - exfalso. destruct Cx as [i [X1 [X2 X3]]]. apply X3. rewrite (Ex i). apply (SI i X2).
  Qed.

  Lemma inv1_phase2 st s1 s2 :
    inv1 st s1 -> g_choice s1 = false -> phase2 sx s1 = P2Go s2 ->
    mid1 st s2 /\ g_out s2 = g_out s1 /\
    ((g_backtrack s1 = false /\ s2 = s1) \/
     (g_backtrack s1 = true /\
      (mu1 (length ac) (stored (g_store s2)) < mu1 (length ac) (stored (g_store s1)))%nat) \/
     (g_backtrack s1 = true /\
      (mu1 (length ac) (stored (g_store s2)) <= mu1 (length ac) (stored (g_store s1)))%nat /\
      g_stack s2 = [] /\ exists x, In x (stored (g_store s2)) /\ ng_sub x (ngv (g_cur s2)))).
  Proof.
    intros I Ech H. pose proof (inv0_phase2 c ac two sx st0 st s1 s2 (j0 _ _ I) H) as I02.
    unfold phase2 in H. destruct (g_backtrack s1) eqn:Ebt.
    2:{ inversion H; subst s2. split; [|split; [reflexivity|left; auto]].
        destruct I as [I0 Stk Sl K2 Ch]. constructor; auto. apply CM_clean. apply K2. exact Ebt. }
    destruct (g_stack s1) as [|f0 stk0] eqn:Es; [discriminate H|]. rewrite <- Es in H.
    destruct (unwind _ _ _ _) as [[[[[ngs stk] hist] cur] found]|] eqn:Un; [|discriminate H].
    destruct (sx && negb found); [discriminate H|].
    inversion H; subst s2; clear H. split; [|split; [reflexivity|right]].
    - (* the state before the closure *)
      destruct I as [I0 Stk Sl K2 Ch].
      pose proof (i_bok _ _ _ _ _ _ I0) as B. pose proof (i_dup _ _ _ _ _ _ I0) as D.
      pose proof (i_stack _ _ _ _ _ _ I0) as SL.
      apply unwind_spec in Un.
      destruct Un as [[_ [above [g [I [Hs [Ha [Hhist [Hc Hadd]]]]]]]] | [_ [Hs [Ha [Hhist [Hc Hadd]]]]]].
      + subst cur. destruct (add_all_equiv_mode _ _ _ B D Hadd) as [A1 [B1 C1]].
        rewrite Hs, Hhist in Stk. destruct (stk_inv_split _ _ _ _ _ _ Ha Stk) as [Sab [_ [top' Sg]]].
        inversion Sg as [| |? ? y b ? ? ? _ HI Hy Hb Hl HK Hrest]; subst.
        assert (Hpop : forall x, In x (map snd above ++ [g]) -> ng_sub g x /\ length x = length ac).
        { intros x Hx. rewrite Hs in SL. rewrite Forall_forall in SL. apply in_app_or in Hx.
          destruct Hx as [Hx|[<-|[]]].
          - apply in_map_iff in Hx. destruct Hx as [f [<- Hf]]. split; [now apply Sab|].
            apply SL. apply in_or_app. now left.
          - split; [apply ng_sub_refl|]. apply (SL (true, g)). apply in_or_app. right. now left. }
        assert (Lg : ng_len g <> 0%nat) by lia.
        assert (Ing : In g (map snd above ++ [g])) by (apply in_or_app; right; now left).
        destruct (C1 g Ing Lg) as [g' [Hg' Eg']].
        constructor; cbn [g_cur g_stack g_hist g_store g_backtrack g_choice]; auto.
        * apply (stk_inv_store (stored (g_store s1))); [|exact Hrest].
          intros x Hx. destruct (B1 x Hx) as [K|K]; [now left|right].
          destruct (Hpop x K) as [Sx _]. split; [eapply ng_sub_trans; eauto|].
          intros Z. apply (ng_sub_len_strict _ _ (ng_sub_trans _ _ _ Sx Z)). lia.
        * apply Forall_forall. intros x Hx. destruct (B1 x Hx) as [K|K].
          -- rewrite Forall_forall in Sl. now apply Sl.
          -- apply (Hpop x K).
        * apply (CM_pend _ _ g' y b).
          -- exact Hg'.
          -- intros i Hi. rewrite (Eg' i). apply (HI i Hi).
          -- exact Hy.
          -- rewrite (Eg' y). exact Hb.
          -- rewrite (ng_equiv_len _ _ Eg'). exact Hl.
          -- intros x Hx. destruct (B1 x Hx) as [K|K].
             ++ destruct (HK x K) as [Cx|[Sx _]]; [now left|right].
                intros i Hi. rewrite (Eg' i) in Hi. rewrite (Eg' i). apply (Sx i Hi).
             ++ right. destruct (Hpop x K) as [Sx _].
                intros i Hi. rewrite (Eg' i) in Hi. rewrite (Eg' i). apply (Sx i Hi).
      + subst stk hist cur. destruct (add_all_equiv_mode _ _ _ B D Hadd) as [A1 [B1 C1]].
        destruct (stk_inv_nochoice _ _ _ _ Ha Stk) as [Eh Hhd].
        rewrite Es in Hhd. destruct (Hhd f0 eq_refl) as [S0 L0].
        assert (In0 : In (snd f0) (map snd (g_stack s1))) by (rewrite Es; now left).
        destruct (C1 _ In0 L0) as [x [Hx Ex]].
        constructor; cbn [g_cur g_stack g_hist g_store g_backtrack g_choice]; auto.
        * rewrite Eh. constructor.
        * apply Forall_forall. intros x' Hx'. destruct (B1 x' Hx') as [K|K].
          -- rewrite Forall_forall in Sl. now apply Sl.
          -- apply in_map_iff in K. destruct K as [f [<- Hf]].
             rewrite Forall_forall in SL. now apply SL.
        * apply (CM_dead _ _ x Hx). intros i Hi. rewrite (Ex i) in Hi. rewrite (Ex i). apply (S0 i Hi).
    - (* the measure *)
      destruct I as [I0 Stk Sl K2 Ch].
      pose proof (i_bok _ _ _ _ _ _ I0) as B. pose proof (i_dup _ _ _ _ _ _ I0) as D.
      pose proof (i_stack _ _ _ _ _ _ I0) as SL.
      apply unwind_spec in Un. cbn [g_store g_stack g_cur].
      destruct Un as [[_ [above [g [I [Hs [Ha [Hhist [Hc Hadd]]]]]]]] | [_ [Hs [Ha [Hhist [Hc Hadd]]]]]].
      + left. split; [reflexivity|].
        destruct (add_all_equiv_mode _ _ _ B D Hadd) as [A1 [B1 C1]].
        rewrite Hs, Hhist in Stk. destruct (stk_inv_split _ _ _ _ _ _ Ha Stk) as [Sab [_ [top' Sg]]].
        inversion Sg as [| |? ? y b ? ? ? _ HI Hy Hb Hl HK Hrest]; subst.
        apply (mu1_strict _ _ _ g A1).
        * rewrite Hs in SL. rewrite Forall_forall in SL.
          apply (SL (true, g)). apply in_or_app. right. now left.
        * apply (stored_eq_not_k1 _ _ _ HI HK).
        * apply C1; [apply in_or_app; right; now left|lia].
      + right. split; [reflexivity|].
        destruct (add_all_equiv_mode _ _ _ B D Hadd) as [A1 [B1 C1]].
        split; [apply (mu1_mono _ _ _ A1)|]. split; [exact Hs|].
        destruct (stk_inv_nochoice _ _ _ _ Ha Stk) as [Eh Hhd].
        rewrite Es in Hhd. destruct (Hhd f0 eq_refl) as [S0 L0].
        assert (In0 : In (snd f0) (map snd (g_stack s1))) by (rewrite Es; now left).
        destruct (C1 _ In0 L0) as [x [Hx Ex]]. exists x. split; [exact Hx|]. subst cur.
        intros i Hi. rewrite (Ex i) in Hi. rewrite (Ex i). apply (S0 i Hi).
  Qed.

  (** phases 4-6 *)
  Lemma step56_facts st s3 st1 aci st2 cur' :
    Inv0 st s3 -> apply_interp c false st ac (g_cur s3) = Some (st1, aci) ->
    update_fix c st1 (g_cur s3) = Some (st2, cur') ->
    WF c st1 /\ extends st st1 /\ valid st1 (g_cur s3) /\ WF c st2 /\ extends st1 st2 /\
    valid st2 cur' /\ length cur' = length ac /\ ng_sub (ngv (g_cur s3)) (ngv cur') /\
    Forall2 (fun hh a => feq (den st2 hh) (fun x => den st1 a (override (interp_of (g_cur s3)) x))) cur' (g_cur s3).
  Proof.
    intros I X5 X6.
    destruct (apply_ac_facts c ac st0 WF0 OK0 st _ st1 aci (i_wf _ _ _ _ _ _ I) (i_ext _ _ _ _ _ _ I) X5) as (W1 & E1 & _).
    destruct (i_cur _ _ _ _ _ _ I) as [L V]. pose proof (valid_extends st st1 _ E1 V) as V1.
    destruct (update_fix_facts c st1 _ st2 cur' W1 V1 X6) as (W2 & E2 & V2 & L2 & D & _).
    split; [exact W1|]. split; [exact E1|]. split; [exact V1|]. split; [exact W2|]. split; [exact E2|].
    split; [exact V2|]. split; [congruence|]. split; [|exact D].
    apply (update_fix_sub c st1 _ st2 cur' W1 V1 X6).
  Qed.

  Lemma closure_to_mid st s2 s3 upd :
    mid1 st s2 -> closure_to s2 s3 upd ->
    Inv0 st s3 /\ stk_inv (stored (g_store s3)) (g_stack s3) (g_hist s3) (ngv (g_cur s3)) /\
    g_store s3 = g_store s2 /\ clean (stored (g_store s3)) (g_cur s3) /\
    g_backtrack s3 = false /\ g_choice s3 = false /\ g_out s3 = g_out s2 /\
    ng_sub (ngv (g_cur s2)) (ngv (g_cur s3)) /\
    (upd = true -> (undec (g_cur s3) < undec (g_cur s2))%nat /\
                   g_stack s3 = (false, ngv (g_cur s3)) :: g_stack s2 /\ g_hist s3 = g_hist s2) /\
    (upd = false -> s3 = s2).
  Proof.
    intros M CT. pose proof (closure_to_inv0 c ac two st0 st s2 s3 upd (m0 _ _ M) CT) as I3.
    destruct M as [I0 Stk Sl Bt Ch Mode]. pose proof (i_bok _ _ _ _ _ _ I0) as B.
    inversion CT as [v Hv|Hn]; subst.
    - cbn [g_cur g_stack g_hist g_store g_backtrack g_choice g_out] in *.
      destruct (closure_update_entries _ _ _ B Hv) as [L [Sv _]].
      pose proof (closure_update_undec _ _ _ Hv) as Uv.
      split; [exact I3|]. split.
      { constructor; [apply ng_sub_refl| |apply (stk_inv_top _ _ _ _ _ Sv Stk)].
        pose proof (ng_len_undec v). pose proof (ng_len_undec (g_cur s2)). lia. }
      split; [reflexivity|]. split.
      { destruct Mode as [Cl|g y b Hg Sg Uy Gy Lg K|x Hx Sx].
        - intros x Hx. eapply conflicts_sub; [exact Sv|]. now apply Cl.
        - destruct (closure_forced _ _ g y b _ B Hg Sg Uy Gy Lg K Hv) as [Z|[w [Ew Wy]]]; [discriminate Z|].
          inversion Ew; subst w. intros x Hx. destruct (K x Hx) as [Cx|Sx].
          + eapply conflicts_sub; [exact Sv|exact Cx].
          + exists y. rewrite (Sx y), Gy, Wy; [|rewrite Gy; destruct b; discriminate].
            destruct b; repeat split; discriminate.
        - rewrite (closure_dead _ _ x B Hx Sx) in Hv. discriminate Hv. }
      repeat split; auto; try discriminate.
    - split; [exact I3|]. split; [exact Stk|]. split; [reflexivity|]. split.
      { destruct Mode as [Cl|g y b Hg Sg Uy Gy Lg K|x Hx Sx].
        - exact Cl.
        - destruct (closure_forced _ _ g y b _ B Hg Sg Uy Gy Lg K Hn) as [Z|[w [Ew _]]]; discriminate.
        - rewrite (closure_dead _ _ x B Hx Sx) in Hn. discriminate Hn. }
      repeat split; auto; try discriminate; try apply ng_sub_refl.
  Qed.

  Lemma all_tv_ng_len v : forallb is_tv v = true -> length v = length ac -> ng_len (ngv v) <> 0%nat.
  Proof.
    intros T L. assert (Z : undec v = 0%nat).
    { clear L. induction v as [|a v IH]; [reflexivity|]. cbn [forallb] in T. apply andb_true_iff in T.
      destruct T as [Ta Tv]. cbn [undec]. rewrite Ta, (IH Tv). reflexivity. }
    pose proof (ng_len_undec v). destruct ac; [contradiction|]. cbn [length] in L. lia.
  Qed.

  Lemma inv1_phase3 st s2 r :
    mid1 st s2 -> p3 c ac two st s2 r ->
    exists st' s', r = Continue st' s' /\ inv1 st' s' /\ g_store s' = g_store s2.
  Proof.
    intros M P. destruct (inv0_phase3 c ac two st0 WF0 OK0 st s2 r (m0 _ _ M) P) as (st' & s' & Er & I0' & _).
    exists st', s'. split; [exact Er|]. subst r.
    inversion P as [Hc | s3 upd st1 aci CT X5 Ec | s3 upd st1 aci st2 cur' CT X5 Ec X6 Hu
                    | st1 aci st2 cur' Hc X5 Ec X6 El Ef | st1 aci st2 cur' st3 stable Hc X5 Ec X6 El Ef Xt];
      subst st' s'.
    - destruct M as [I0 Stk Sl Bt Ch Mode]. split; [|reflexivity].
      constructor; cbn [g_cur g_stack g_hist g_store g_backtrack g_choice]; auto; try discriminate.
      intros Z. rewrite Ch in Z. discriminate Z.
    - destruct (closure_to_mid st s2 s3 upd M CT) as (I3 & Stk3 & Es & Cl & Bt3 & Ch3 & _).
      split; [|exact Es]. destruct M as [I0 Stk Sl Bt Ch Mode].
      constructor; cbn [g_cur g_stack g_hist g_store g_backtrack g_choice]; auto; try discriminate.
      + rewrite Es. exact Sl.
      + intros Z. rewrite Ch3 in Z. discriminate Z.
    - destruct (closure_to_mid st s2 s3 upd M CT) as (I3 & Stk3 & Es & Cl & Bt3 & Ch3 & _).
      destruct (step56_facts st s3 st1 aci st2 cur' I3 X5 X6) as (_ & _ & _ & _ & _ & _ & _ & Sc & _).
      split; [|exact Es]. destruct M as [I0 Stk Sl Bt Ch Mode].
      constructor; cbn [g_cur g_stack g_hist g_store g_backtrack g_choice]; auto.
      + apply (stk_inv_top _ _ _ _ _ Sc Stk3).
      + rewrite Es. exact Sl.
      + intros _ x Hx. eapply conflicts_sub; [exact Sc|]. now apply Cl.
      + intros Z. rewrite Ch3 in Z. discriminate Z.
    - destruct (closure_to_mid st s2 s2 false M (CT_noupdate s2 Hc)) as (I3 & Stk3 & Es & Cl & Bt3 & Ch3 & _).
      destruct (step56_facts st s2 st1 aci st2 cur' I3 X5 X6) as (_ & _ & _ & _ & _ & _ & _ & Sc & _).
      split; [|reflexivity]. destruct M as [I0 Stk Sl Bt Ch Mode].
      constructor; cbn [g_cur g_stack g_hist g_store g_backtrack g_choice]; auto.
      + apply (stk_inv_top _ _ _ _ _ Sc Stk3).
      + intros _ x Hx. eapply conflicts_sub; [exact Sc|]. now apply Cl.
    - destruct (closure_to_mid st s2 s2 false M (CT_noupdate s2 Hc)) as (I3 & Stk3 & Es & Cl & Bt3 & Ch3 & _).
      destruct (step56_facts st s2 st1 aci st2 cur' I3 X5 X6) as (_ & _ & _ & _ & _ & _ & Lc & Sc & _).
      split; [|reflexivity]. destruct M as [I0 Stk Sl Bt Ch Mode].
      constructor; cbn [g_cur g_stack g_hist g_store g_backtrack g_choice]; auto; try discriminate.
      + constructor; [apply ng_sub_refl|apply all_tv_ng_len; assumption|].
        apply (stk_inv_top _ _ _ _ _ Sc Stk3).
      + intros Z. rewrite Ch in Z. discriminate Z.
  Qed.

  (** one step keeps the strong invariant *)
  Lemma inv1_step st s st' s' :
    inv1 st s -> ng_step c ac h rf two sx st s = Some (Continue st' s') -> inv1 st' s'.
  Proof.
    intros I H. rewrite ng_step_eq in H.
    destruct (phase1 c h rf st s) as [s1|] eqn:P1; [|discriminate H].
    destruct (inv1_phase1 st s s1 I P1) as (I1 & Ch1 & _).
    destruct (phase2 sx s1) as [sb| |s2] eqn:P2; try discriminate H.
    destruct (inv1_phase2 st s1 s2 I1 Ch1 P2) as (M & _).
    apply phase3_cases in H. destruct (inv1_phase3 st s2 _ M H) as (st'' & s'' & Er & I' & _).
    inversion Er; subst. exact I'.
  Qed.

  Lemma inv1_init s1 g draws : grounded c st0 ac = Some (s1, g) -> inv1 s1 (ng_init ac g draws).
  Proof.
    intros G. constructor.
    - apply (inv0_init c ac two st0 WF0 OK0 s1 g draws G).
    - cbn. constructor.
    - cbn [ng_init g_store]. rewrite (proj2 (ngs_new_ok _)). constructor.
    - intros _ x Hx. cbn [ng_init g_store] in Hx. rewrite (proj2 (ngs_new_ok _)) in Hx. destruct Hx.
    - cbn. discriminate.
  Qed.

  (* ---------------------------------------------------------------- *)
  (** ** Termination *)

  Definition Wd : nat := 3 * length ac + 5.

  Definition psi_le (st : store) (s : ngstate) (k : nat) : Prop :=
    if g_backtrack s then (match g_stack s with [] => 0 | _ => 1 end <= k)%nat
    else if g_choice s then (3 * undec (g_cur s) + 2 <= k)%nat
    else (3 * undec (g_cur s) + 4 <= k)%nat \/ (pstable st (g_cur s) /\ (3 * undec (g_cur s) + 3 <= k)%nat).

  Definition rank (st : store) (s : ngstate) (r : nat) : Prop :=
    exists k, psi_le st s k /\ (mu1 (length ac) (stored (g_store s)) * Wd + k <= r)%nat.

  Lemma undec_sub a b :
    length a = length b -> ng_sub (ngv a) (ngv b) ->
    (undec b <= undec a)%nat /\ (undec b = undec a -> interp_of b = interp_of a).
  Proof.
    intros L S. pose proof (ng_sub_info_le a b L S) as LE.
    pose proof (info_le_ndecided _ _ LE). pose proof (undec_ndecided a). pose proof (undec_ndecided b).
    split; [lia|]. intros E. symmetry. apply info_le_ndecided_eq; [exact LE|lia].
  Qed.

  Lemma list_eqb_refl a : list_eqb a a = true.
  Proof.
    unfold list_eqb. rewrite Nat.eqb_refl. cbn [andb]. induction a as [|x a IH]; [reflexivity|].
    cbn [combine forallb fst snd]. rewrite N.eqb_refl, IH. reflexivity.
  Qed.

  Lemma p3_dead st s2 r x :
    Inv0 st s2 -> In x (stored (g_store s2)) -> ng_sub x (ngv (g_cur s2)) -> p3 c ac two st s2 r ->
    r = Continue st (mkNG (g_cur s2) (g_store s2) (g_stack s2) (g_hist s2) true (g_choice s2) (g_out s2) (g_draws s2)).
  Proof.
    intros I Hx Sx P. pose proof (closure_dead _ _ x (i_bok _ _ _ _ _ _ I) Hx Sx) as Cd.
    inversion P as [Hc | s3 upd st1 aci CT X5 Ec | s3 upd st1 aci st2 cur' CT X5 Ec X6 Hu
                    | st1 aci st2 cur' Hc X5 Ec X6 El Ef | st1 aci st2 cur' st3 stable Hc X5 Ec X6 El Ef Xt];
      try reflexivity; try (rewrite Cd in Hc; discriminate Hc);
      inversion CT as [v Hv|Hn]; subst; try (rewrite Cd in Hv; discriminate Hv); rewrite Cd in Hn; discriminate Hn.
  Qed.

  Lemma p3_draws st s2 st' s' : p3 c ac two st s2 (Continue st' s') -> g_draws s' = g_draws s2.
  Proof.
    intros P. inversion P as [Hc | s3 upd st1 aci CT X5 Ec | s3 upd st1 aci st2 cur' CT X5 Ec X6 Hu
                    | st1 aci st2 cur' Hc X5 Ec X6 El Ef | st1 aci st2 cur' st3 stable Hc X5 Ec X6 El Ef Xt];
      subst st' s'; cbn [g_draws]; try reflexivity; inversion CT; subst; reflexivity.
  Qed.

  Lemma phase3_psi st s2 st' s' k2 :
    mid1 st s2 -> p3 c ac two st s2 (Continue st' s') ->
    ((3 * undec (g_cur s2) + 4 <= k2)%nat \/ (pstable st (g_cur s2) /\ (3 * undec (g_cur s2) + 3 <= k2)%nat)) ->
    exists k', psi_le st' s' k' /\ (k' < k2)%nat.
  Proof.
    intros M P K2.
    assert (K3 : (3 <= k2)%nat) by (destruct K2 as [K|[_ K]]; lia).
    inversion P as [Hc | s3 upd st1 aci CT X5 Ec | s3 upd st1 aci st2 cur' CT X5 Ec X6 Hu
                    | st1 aci st2 cur' Hc X5 Ec X6 El Ef | st1 aci st2 cur' st3 stable Hc X5 Ec X6 El Ef Xt];
      subst st' s'.
    - exists 1%nat. split; [|lia]. unfold psi_le. cbn [g_backtrack g_stack]. destruct (g_stack s2); lia.
    - exists 1%nat. split; [|lia]. unfold psi_le. cbn [g_backtrack g_stack]. destruct (g_stack s3); lia.
    - destruct (closure_to_mid st s2 s3 upd M CT) as (I3 & Stk3 & Es & Cl & Bt3 & Ch3 & _ & S23 & Hup & Hnoup).
      destruct (step56_facts st s3 st1 aci st2 cur' I3 X5 X6) as (W1 & E1 & V1 & W2 & E2 & V2 & Lc & Sc & D).
      destruct (i_cur _ _ _ _ _ _ I3) as [L3 V3].
      destruct (undec_sub (g_cur s3) cur' ltac:(congruence) Sc) as [Ule Ueq].
      unfold psi_le. cbn [g_backtrack g_choice g_cur]. rewrite Bt3, Ch3.
      destruct upd.
      + destruct (Hup eq_refl) as [Ult _]. exists (3 * undec cur' + 4)%nat. split; [now left|].
        destruct K2 as [K|[_ K]]; lia.
      + rewrite (Hnoup eq_refl) in *. destruct Hu as [Hu|Hu]; [|discriminate Hu].
        destruct K2 as [K|[Pst K]].
        * destruct (Nat.eq_dec (undec cur') (undec (g_cur s2))) as [Eu|Nu].
          -- exists (3 * undec cur' + 3)%nat. split; [|lia]. right. split; [|lia].
             apply (update_fix_pstable c st1 (g_cur s2) st2 cur' W1 V1 X6 (Ueq Eu)).
          -- exists (3 * undec cur' + 4)%nat. split; [now left|lia].
        * exfalso.
          pose proof (pstable_extends c st st1 _ (i_wf _ _ _ _ _ _ I3) E1 V3 Pst) as Pst1.
          rewrite (pstable_fix c st1 _ st2 cur' W1 V1 Pst1 X6), list_eqb_refl in Hu. discriminate Hu.
    - pose proof (list_eqb_eq _ _ El) as ->.
      exists (3 * undec (g_cur s2) + 2)%nat. split; [|destruct K2 as [K|[_ K]]; lia].
      unfold psi_le. cbn [g_backtrack g_choice g_cur]. rewrite (m_bt _ _ M). lia.
    - exists 1%nat. split; [|lia]. unfold psi_le. cbn [g_backtrack g_stack]. lia.
  Qed.

  Lemma phase3_total st s2 : mid1 st s2 -> exists r, phase3 c ac two st s2 = Some r.
  Proof.
    intros M. destruct (phase3 c ac two st s2) as [r|] eqn:P; [eauto|]. exfalso.
    apply phase3_none in P. destruct P as [P|[s3 [upd [CT P]]]].
    - destruct (closure_total (g_store s2) (g_cur s2)) as [r Hr]. congruence.
    - destruct (closure_to_mid st s2 s3 upd M CT) as (I3 & _).
      pose proof (i_wf _ _ _ _ _ _ I3) as W. pose proof (i_ext _ _ _ _ _ _ I3) as E.
      destruct OK0 as [V0 _]. destruct (i_cur _ _ _ _ _ _ I3) as [L3 V3].
      destruct (apply_interp_total c false (g_cur s3) ac st W (valid_extends st0 st ac E V0)) as (st1 & aci & X5).
      destruct P as [P|[st1' [aci' [X5' P]]]]; [congruence|].
      rewrite X5 in X5'. inversion X5'; subst st1' aci'. clear X5'.
      destruct (apply_ac_facts c ac st0 WF0 OK0 st _ st1 aci W E X5) as (W1 & E1 & _).
      destruct (update_fix_total c st1 (g_cur s3) W1 (valid_extends st st1 _ E1 V3)) as (st2 & cur' & X6).
      destruct P as [P|[st2' [cur'' [X6' P]]]]; [congruence|].
      rewrite X6 in X6'. inversion X6'; subst st2' cur''. clear X6'.
      destruct (step56_facts st s3 st1 aci st2 cur' I3 X5 X6) as (_ & _ & _ & W2 & E2 & _).
      unfold run_test in P. destruct two; [discriminate P|].
      assert (E02 : extends st0 st2) by (eapply extends_trans; [exact E|eapply extends_trans; eauto]).
      destruct (stability_check_total c st2 ac cur' W2 (ac_ok_extends c st0 st2 ac WF0 E02 OK0)) as (st3 & b & X).
      congruence.
  Qed.

  Lemma psi_le_max st s : g_backtrack s = false -> g_choice s = false -> length (g_cur s) = length ac ->
    psi_le st s (3 * length ac + 4).
  Proof.
    intros Bt Ch L. unfold psi_le. rewrite Bt, Ch. left. pose proof (undec_le_length (g_cur s)). lia.
  Qed.

  Lemma ng_loop_total : forall fuel st s r,
    inv1 st s -> rank st s r -> (r < fuel)%nat ->
    (h = HRand -> (2 * fuel <= length (g_draws s))%nat) ->
    exists st' s', ng_loop c ac h rf two sx fuel st s = Some (st', s').
  Proof.
    induction fuel as [|f IH]; intros st s r I [k [Pk Rk]] Hr Hd; [lia|].
    cbn [ng_loop]. rewrite ng_step_eq.
    (* phase 1 *)
    assert (P1 : exists s1, phase1 c h rf st s = Some s1 /\
                            (h = HRand -> (2 * f <= length (g_draws s1))%nat)).
    { unfold phase1. destruct (g_choice s).
      - pose proof (run_heuristic_draws c h rf st s) as RD.
        destruct (run_heuristic c h rf st s) as [[[[var t]|] dr]|].
        + eexists. split; [reflexivity|]. cbn [g_draws]. intros Eh. specialize (Hd Eh).
          destruct RD as [used [Eu Lu]]. rewrite Eu, app_length in Hd. lia.
        + eexists. split; [reflexivity|]. cbn [g_draws]. intros Eh. specialize (Hd Eh).
          destruct RD as [used [Eu Lu]]. rewrite Eu, app_length in Hd. lia.
        + exfalso. destruct RD as [Eh Ld]. specialize (Hd Eh). lia.
      - exists s. split; [reflexivity|]. intros Eh. specialize (Hd Eh). lia. }
    destruct P1 as [s1 [P1 Hd1]]. rewrite P1.
    destruct (inv1_phase1 st s s1 I P1) as (I1 & Ch1 & Es1 & _ & Hnc & Hc).
    destruct (phase2 sx s1) as [sb| |s2] eqn:P2.
    - eauto.
    - exfalso. exact (inv0_no_panic c ac two sx st0 st s1 (j0 _ _ I1) P2).
    - destruct (inv1_phase2 st s1 s2 I1 Ch1 P2) as (M & _ & Hm).
      assert (Ed2 : g_draws s2 = g_draws s1).
      { unfold phase2 in P2. destruct (g_backtrack s1); [|inversion P2; reflexivity].
        destruct (g_stack s1); [discriminate P2|].
        destruct (unwind _ _ _ _) as [[[[[? ?] ?] ?] found]|]; [|discriminate P2].
        destruct (sx && negb found); inversion P2; reflexivity. }
      destruct (phase3_total st s2 M) as [res P3]. rewrite P3.
      pose proof (phase3_cases c ac two st s2 res P3) as P3'.
      destruct (inv1_phase3 st s2 res M P3') as (st' & s' & -> & I' & Es').
      pose proof (p3_draws st s2 st' s' P3') as Ed'.
      assert (R' : exists r', rank st' s' r' /\ (r' < r)%nat).
      { destruct (i_cur _ _ _ _ _ _ (m0 _ _ M)) as [L2 _].
        pose proof (undec_le_length (g_cur s2)) as U2.
        unfold rank. rewrite Es'.
        destruct (g_choice s) eqn:Ech.
        - (* a choice was made *)
          destruct (Hc eq_refl) as (var & t & Uv & Tt & Ecur & Bt1 & _).
          destruct (j_ch _ _ I Ech) as [Bt _].
          unfold psi_le in Pk. rewrite Bt, Ech in Pk.
          destruct Hm as [[_ ->]|[[Z _]|[Z _]]]; try (rewrite Bt1 in Z; discriminate Z).
          pose proof (undec_set_nth (g_cur s) var t Uv (tv_is_tv t Tt)) as Us. rewrite <- Ecur in Us.
          destruct (phase3_psi st s1 st' s' (3 * undec (g_cur s1) + 4) M P3' (or_introl (le_n _))) as [k' [Pk' Lk']].
          exists (mu1 (length ac) (stored (g_store s1)) * Wd + k')%nat. split; [exists k'; split; [exact Pk'|lia]|].
          rewrite Es1. lia.
        - rewrite (Hnc eq_refl) in *. clear Hnc Hc.
          destruct Hm as [[Bt ->]|[[Bt Mu]|[Bt [Mu [Stk2 [x [Hx Sx]]]]]]].
          + unfold psi_le in Pk. rewrite Bt, Ech in Pk.
            destruct (phase3_psi st s st' s' k M P3' Pk) as [k' [Pk' Lk']].
            exists (mu1 (length ac) (stored (g_store s)) * Wd + k')%nat. split; [exists k'; split; [exact Pk'|lia]|lia].
          + destruct (phase3_psi st s2 st' s' (3 * undec (g_cur s2) + 4) M P3' (or_introl (le_n _))) as [k' [Pk' Lk']].
            exists (mu1 (length ac) (stored (g_store s2)) * Wd + k')%nat. split; [exists k'; split; [exact Pk'|lia]|].
            unfold Wd in *. nia.
          + pose proof (p3_dead st s2 _ x (m0 _ _ M) Hx Sx P3') as Er. inversion Er; subst st' s'.
            exists (mu1 (length ac) (stored (g_store s2)) * Wd + 0)%nat. split.
            * exists 0%nat. split; [|lia]. unfold psi_le. cbn [g_backtrack g_stack]. rewrite Stk2. lia.
            * unfold psi_le in Pk. rewrite Bt in Pk.
              assert (1 <= k)%nat.
              { unfold phase2 in P2. rewrite Bt in P2. destruct (g_stack s); [discriminate P2|exact Pk]. }
              unfold Wd in *. nia. }
      destruct R' as [r' [R' Lr']].
      apply (IH st' s' r' I' R'); [lia|]. rewrite Ed', Ed2. exact Hd1.
  Qed.

  (* ---------------------------------------------------------------- *)
  (** ** Completeness and absence of duplicates *)

  Definition asg_of_interp (m : interp) : nat -> bool :=
    fun i => match nth i m U with T => true | _ => false end.

  Lemma two_valued_nth m i : TwoValued m -> (i < length m)%nat -> nth i m U <> U.
  Proof. intros TV L. unfold TwoValued in TV. rewrite Forall_forall in TV. apply TV. now apply nth_In. Qed.

  Lemma matches_sub_iff g m :
    TwoValued m -> (length g <= length m)%nat -> (matches g (asg_of_interp m) <-> ng_sub g m).
  Proof.
    intros TV L. unfold asg_of_interp. split.
    - intros M i Hi. destruct (M i) as [MT MF].
      assert (Li : (i < length m)%nat).
      { destruct (lt_dec i (length m)) as [Li|Li]; [exact Li|]. exfalso. apply Hi. apply ngat_overflow. lia. }
      pose proof (two_valued_nth m i TV Li) as NU. unfold ngat at 1.
      destruct (ngat g i) eqn:Eg; [| |contradiction].
      + specialize (MT eq_refl). destruct (nth i m U); congruence.
      + specialize (MF eq_refl). destruct (nth i m U); congruence.
    - intros S i. split; intros E.
      + assert (K : ngat m i = T) by (rewrite (S i); congruence). unfold ngat in K. rewrite K. reflexivity.
      + assert (K : ngat m i = F) by (rewrite (S i); congruence). unfold ngat in K. rewrite K. reflexivity.
  Qed.

  Lemma sub_info_le (a b : interp) : length a = length b -> ng_sub a b -> info_le a b.
  Proof.
    intros L S. unfold info_le. apply (Forall2_of_nth _ U U); [exact L|].
    intros i Hi. specialize (S i). unfold ngat in S.
    destruct (nth i a U) eqn:E; [right|right|left; reflexivity]; symmetry; apply S; congruence.
  Qed.

  Lemma tv_sub_eq (v : list N) (m : interp) :
    forallb is_tv v = true -> length v = length m -> ng_sub (ngv v) m -> m = interp_of v.
  Proof.
    intros TV L S. symmetry. apply (list_eq_of_nth U); [rewrite interp_of_length; exact L|].
    intros i Hi. rewrite interp_of_length in Hi.
    change (ngat (ngv v) i = ngat m i). symmetry. apply S.
    rewrite ngat_of_terms. intros Z. apply info_U_iff in Z.
    rewrite forallb_forall in TV. rewrite (TV _ (nth_In v 2 Hi)) in Z. discriminate Z.
  Qed.

  Fixpoint live_stk (m : interp) (stack : list (bool * ng)) (hist : list (list N)) : Prop :=
    match stack with
    | [] => False
    | (false, _) :: r => live_stk m r hist
    | (true, g) :: r =>
      match hist with
      | [] => False
      | old :: h' => (ng_sub (ngv old) m /\ ~ ng_sub g m) \/ live_stk m r h'
      end
    end.

  Lemma live_stk_app m above rest hist :
    Forall (fun f => fst f = false) above -> (live_stk m (above ++ rest) hist <-> live_stk m rest hist).
  Proof.
    induction 1 as [|[b g] above Hb _ IH]; [reflexivity|]. cbn [fst] in Hb. subst b. exact IH.
  Qed.

  Lemma live_stk_nochoice m stack hist : Forall (fun f => fst f = false) stack -> ~ live_stk m stack hist.
  Proof.
    induction 1 as [|[b g] above Hb _ IH]; [intros []|]. cbn [fst] in Hb. subst b. exact IH.
  Qed.

  (** a model kept alive by a choice frame is not lost when nogoods above the stack are stored *)
  Lemma live_stk_avoid G m : forall stk hist top,
    stk_inv G stk hist top -> live_stk m stk hist -> forall x, ng_sub top x -> ~ ng_sub x m.
  Proof.
    intros stk hist top H. induction H as [top|g rest hist top Hg Hl H IH|g I y b rest hist top Hg HI Hy Hb Hl HK H IH];
      intros L x Sx Z.
    - destruct L.
    - apply (IH L x); [eapply ng_sub_trans; eauto|exact Z].
    - cbn [live_stk] in L. destruct L as [[_ N]|L].
      + apply N. eapply ng_sub_trans; [exact Hg|]. eapply ng_sub_trans; eauto.
      + apply (IH L x); [|exact Z]. eapply ng_sub_trans; [exact HI|]. eapply ng_sub_trans; eauto.
  Qed.

  (** the undecided entries are the conditions restricted by a part of the interpretation *)
  Definition sem_ok (st : store) (cur : list N) : Prop :=
    Forall2 (fun hh a => is_tv hh = true \/
                         exists w, info_le w (interp_of cur) /\ feq (den st hh) (fun x => den st0 a (override w x)))
            cur ac.

  Lemma sem_ok_mono st cur cur' :
    length cur' = length cur -> (forall i, is_tv (nth i cur' 2) = true \/ nth i cur' 2 = nth i cur 2) ->
    info_le (interp_of cur) (interp_of cur') -> sem_ok st cur -> sem_ok st cur'.
  Proof.
    intros L En LE H. unfold sem_ok in *. pose proof (Forall2_len _ _ _ H) as Lc.
    apply (Forall2_of_nth _ 2 0); [congruence|]. intros i Hi.
    destruct (En i) as [T|Eq]; [now left|]. rewrite Eq.
    rewrite L in Hi. destruct (Forall2_nth _ _ _ H i 2 0 Hi) as [T|[w [Hw Hd]]]; [now left|right].
    exists w. split; [eapply info_le_trans; eauto|exact Hd].
  Qed.

  Lemma sem_ok_extends st st' cur :
    WF c st -> extends st st' -> valid st cur -> sem_ok st cur -> sem_ok st' cur.
  Proof.
    intros W E V H. unfold sem_ok in *.
    eapply Forall2_impl_Forall; [exact V| |exact H]. intros hh a Hh [T|[w [Hw Hd]]]; [now left|right].
    exists w. split; [exact Hw|]. intros x. rewrite (extends_den_stable c st st' hh W E Hh x). apply Hd.
  Qed.

  Definition is_model (m : interp) : Prop :=
    length m = length ac /\ TwoValued m /\ modelP ac two st0 m.

  Lemma is_model_complete m : is_model m -> Complete (abs st0 ac) m.
  Proof. intros [_ [_ M]]. unfold modelP in M. destruct two; [apply M|apply M]. Qed.

  (** one propagation step loses no complete interpretation and keeps the entries meaningful *)
  Lemma propagation_sem st cur st1 st2 cur' :
    WF c st -> extends st0 st -> valid st cur -> length cur = length ac -> sem_ok st cur ->
    WF c st1 -> extends st st1 -> WF c st2 -> extends st1 st2 -> valid st2 cur' ->
    ng_sub (ngv cur) (ngv cur') ->
    Forall2 (fun hh a => feq (den st2 hh) (fun x => den st1 a (override (interp_of cur) x))) cur' cur ->
    sem_ok st2 cur' /\
    forall m, Complete (abs st0 ac) m -> length m = length ac -> ng_sub (ngv cur) m -> ng_sub (ngv cur') m.
  Proof.
    intros W E V L Sem W1 E1 W2 E2 V2 Sc D.
    pose proof (Forall2_len _ _ _ D) as L'.
    pose proof (ng_sub_info_le cur cur' (eq_sym L') Sc) as LE.
    (* the meaning of every entry of cur' that was undecided in cur *)
    assert (Key : forall i, (i < length cur)%nat -> is_tv (nth i cur 2) = false ->
              feq (den st2 (nth i cur' 2)) (fun x => den st0 (nth i ac 0) (override (interp_of cur) x))).
    { intros i Li Ui x. rewrite <- L' in Li.
      pose proof (Forall2_nth _ _ _ D i 2 2 Li) as Di. cbv beta in Di. rewrite Di.
      rewrite L' in Li. unfold sem_ok in Sem.
      destruct (Forall2_nth _ _ _ Sem i 2 0 Li) as [T|[w [Hw Hd]]]; [congruence|].
      rewrite (extends_den_stable c st st1 _ W E1 (valid_nth st cur i 2 V Li)).
      rewrite Hd. apply den_ext. intros j. apply override_absorb. exact Hw. }
    split.
    - unfold sem_ok. apply (Forall2_of_nth _ 2 0); [congruence|]. intros i Li.
      rewrite L' in Li.
      destruct (is_tv (nth i cur 2)) eqn:Ti.
      + left. assert (A : ngat (ngv cur) i <> U).
        { rewrite ngat_of_terms. intros Z. apply info_U_iff in Z. congruence. }
        pose proof (Sc i A) as B. rewrite !ngat_of_terms in B.
        apply is_tv_info. rewrite B. rewrite ngat_of_terms in A. exact A.
      + right. exists (interp_of cur). split; [exact LE|]. apply Key; assumption.
    - intros m Cm Lm Sm i Hi. rewrite ngat_of_terms in Hi.
      assert (Li : (i < length cur)%nat).
      { destruct (lt_dec i (length cur)) as [Li|Li]; [exact Li|]. exfalso. apply Hi.
        rewrite nth_overflow by lia. reflexivity. }
      destruct (is_tv (nth i cur 2)) eqn:Ti.
      + assert (A : ngat (ngv cur) i <> U).
        { rewrite ngat_of_terms. intros Z. apply info_U_iff in Z. congruence. }
        rewrite (Sm i A). symmetry. apply (Sc i A).
      + pose proof (Key i Li Ti) as Ki.
        assert (Hs : nth i cur' 2 < size st2) by (apply valid_nth; [exact V2|lia]).
        pose proof (cons3_den c st0 st2 _ _ _ W2 Hs Ki) as C3.
        unfold Complete, Gamma in Cm.
        assert (Li' : (i < length (abs st0 ac))%nat) by (rewrite abs_length; lia).
        pose proof (Forall2_nth _ _ _ Cm i (den st0 0) U Li') as Ci. cbv beta in Ci.
        unfold abs in Ci. rewrite map_nth in Ci.
        assert (LEm : info_le (interp_of cur) m).
        { apply sub_info_le; [rewrite interp_of_length; congruence|exact Sm]. }
        destruct (Cons3_mono _ _ _ _ _ LEm C3 Ci) as [K|K]; [contradiction|].
        rewrite ngat_of_terms. unfold ngat. symmetry. exact K.
  Qed.

  Record inv2 (st : store) (s : ngstate) : Prop := mkInv2 {
    q1 : inv1 st s;
    q_sem : sem_ok st (g_cur s);
    q_hsem : Forall (sem_ok st) (g_hist s);
    q_live : forall m, is_model m ->
      In m (map interp_of (g_out s)) \/
      ((forall x, In x (stored (g_store s)) -> ~ ng_sub x m) /\
       ((g_backtrack s = false /\ ng_sub (ngv (g_cur s)) m) \/ live_stk m (g_stack s) (g_hist s)));
    q_nodup : NoDup (map interp_of (g_out s));
    q_blocked : forall v, In v (g_out s) ->
      (exists x, In x (stored (g_store s)) /\ ng_sub x (ngv v)) \/
      (g_backtrack s = true /\ exists rest, g_stack s = (false, ngv v) :: rest)
  }.

  Record mid2 (st : store) (s : ngstate) : Prop := mkMid2 {
    r1 : mid1 st s;
    r_sem : sem_ok st (g_cur s);
    r_hsem : Forall (sem_ok st) (g_hist s);
    r_live : forall m, is_model m ->
      In m (map interp_of (g_out s)) \/
      ((forall x, In x (stored (g_store s)) -> ~ ng_sub x m) /\
       (ng_sub (ngv (g_cur s)) m \/ live_stk m (g_stack s) (g_hist s)));
    r_nodup : NoDup (map interp_of (g_out s));
    r_blocked : forall v, In v (g_out s) -> exists x, In x (stored (g_store s)) /\ ng_sub x (ngv v)
  }.

  Lemma ng_sub_dec x m : {ng_sub x m} + {~ ng_sub x m}.
  Proof.
    destruct (is_violating x m) eqn:E.
    - left. now apply is_violating_sub.
    - right. intros S. apply is_violating_sub in S. congruence.
  Qed.

  Lemma inv2_phase1 st s s1 :
    inv2 st s -> phase1 c h rf st s = Some s1 -> inv2 st s1.
  Proof.
    intros Q H. destruct (inv1_phase1 st s s1 (q1 _ _ Q) H) as (I1 & Ch1 & Es & Eo & Hnc & Hc).
    destruct (g_choice s) eqn:Ech; [|rewrite (Hnc eq_refl); exact Q].
    destruct (Hc eq_refl) as (var & t & Uv & Tt & Ecur & Bt1 & Estk & Ehist).
    destruct Q as [I Sem HSem Live ND Bl].
    destruct (j_ch _ _ I Ech) as [Bt _].
    destruct (i_cur _ _ _ _ _ _ (j0 _ _ I)) as [Lc Vc].
    constructor; auto.
    - rewrite Ecur. apply (sem_ok_mono st (g_cur s)); [apply set_nth_length| | |exact Sem].
      + intros i. rewrite nth_set_nth. destruct (Nat.eqb i var && Nat.ltb var (length (g_cur s))); [left|now right].
        apply tv_is_tv. exact Tt.
      + apply ng_sub_info_le; [symmetry; apply set_nth_length|]. apply set_nth_sub. exact Uv.
    - rewrite Ehist. constructor; assumption.
    - intros m Hm. rewrite Eo, Es. destruct (Live m Hm) as [K|[Av K]]; [now left|right].
      split; [exact Av|]. rewrite Bt1, Estk, Ehist. cbn [live_stk].
      destruct K as [[_ K]|K]; [|right; right; exact K].
      destruct (ng_sub_dec (ngv (g_cur s1)) m) as [Y|Nn]; [left; auto|right; left; auto].
    - rewrite Eo. exact ND.
    - intros v Hv. rewrite Eo in Hv. rewrite Es. destruct (Bl v Hv) as [K|[K _]]; [now left|congruence].
  Qed.

  Lemma out_ng_len st s v : Inv0 st s -> In v (g_out s) -> ng_len (ngv v) <> 0%nat /\ length v = length ac.
  Proof.
    intros I Hv. pose proof (i_out _ _ _ _ _ _ I) as O. rewrite Forall_forall in O.
    destruct (O v Hv) as [L [T _]]. split; [|exact L]. apply all_tv_ng_len; [|exact L].
    apply forallb_forall. rewrite Forall_forall in T. exact T.
  Qed.

  Lemma inv2_phase2 st s1 s2 :
    inv2 st s1 -> g_choice s1 = false -> phase2 sx s1 = P2Go s2 -> mid2 st s2.
  Proof.
    intros Q Ech H. destruct (inv1_phase2 st s1 s2 (q1 _ _ Q) Ech H) as (M & _ & _).
    unfold phase2 in H. destruct (g_backtrack s1) eqn:Ebt.
    2:{ destruct Q as [I Sem HSem Live ND Bl]. inversion H; subst s2. constructor; auto.
        - intros m Hm. destruct (Live m Hm) as [K|[Av K]]; [now left|right]. split; [exact Av|].
          destruct K as [[_ K]|K]; auto.
        - intros v Hv. destruct (Bl v Hv) as [K|[K _]]; [exact K|congruence]. }
    destruct (g_stack s1) as [|f0 stk0] eqn:Es; [discriminate H|]. rewrite <- Es in H. clear Es.
    destruct (unwind _ _ _ _) as [[[[[ngs stk] hist] cur] found]|] eqn:Un; [|discriminate H].
    destruct (sx && negb found); [discriminate H|].
    inversion H; subst s2; clear H.
    destruct Q as [I Sem HSem Live ND Bl]. pose proof (j0 _ _ I) as I0. rewrite Ebt in Live, Bl.
    pose proof (i_bok _ _ _ _ _ _ I0) as B. pose proof (i_dup _ _ _ _ _ _ I0) as D.
    pose proof (j_stk _ _ I) as Stk.
    apply unwind_spec in Un.
    destruct Un as [[_ [above [g [I' [Hs [Ha [Hhist [Hc Hadd]]]]]]]] | [_ [Hs [Ha [Hhist [Hc Hadd]]]]]].
    - subst cur. destruct (add_all_equiv_mode _ _ _ B D Hadd) as [A1 [B1 C1]].
      rewrite Hs, Hhist in Stk. destruct (stk_inv_split _ _ _ _ _ _ Ha Stk) as [Sab [_ [top' Sg]]].
      inversion Sg as [| |? ? y b ? ? ? _ HI Hy Hb Hl HK Hrest]; subst.
      assert (Hpop : forall x, In x (map snd above ++ [g]) -> ng_sub g x).
      { intros x Hx. apply in_app_or in Hx. destruct Hx as [Hx|[<-|[]]]; [|apply ng_sub_refl].
        apply in_map_iff in Hx. destruct Hx as [f [<- Hf]]. now apply Sab. }
      rewrite Hhist in HSem. inversion HSem as [|? ? SemI HSem']; subst.
      constructor; cbn [g_cur g_stack g_hist g_store g_out]; auto.
      + intros m Hm. destruct (Live m Hm) as [K|[Av K]]; [now left|right].
        destruct K as [[K _]|K]; [congruence|].
        rewrite Hs, Hhist in K. apply (proj1 (live_stk_app m above _ _ Ha)) in K. cbn [live_stk] in K.
        destruct K as [[K1 K2]|K].
        * split; [|now left]. intros x Hx Z. destruct (B1 x Hx) as [Ho|Hp]; [exact (Av x Ho Z)|].
          apply K2. eapply ng_sub_trans; [apply (Hpop x Hp)|exact Z].
        * split; [|now right]. intros x Hx Z. destruct (B1 x Hx) as [Ho|Hp]; [exact (Av x Ho Z)|].
          apply (live_stk_avoid _ m _ _ _ Hrest K x); [|exact Z].
          eapply ng_sub_trans; [exact HI|apply (Hpop x Hp)].
      + intros v Hv. destruct (Bl v Hv) as [[x [Hx Sx]]|[_ [rest Er]]]; [exists x; auto|].
        destruct (out_ng_len st s1 v I0 Hv) as [Lv _].
        assert (Inv : In (ngv v) (map snd above ++ [g])).
        { apply in_or_app. left. rewrite Hs in Er. destruct above as [|f above']; [discriminate Er|].
          cbn [app] in Er. inversion Er; subst f. now left. }
        destruct (C1 _ Inv Lv) as [x [Hx Ex]]. exists x. split; [exact Hx|].
        apply (proj1 (ng_equiv_sub _ _ Ex)).
    - subst stk hist cur. destruct (add_all_equiv_mode _ _ _ B D Hadd) as [A1 [B1 C1]].
      constructor; cbn [g_cur g_stack g_hist g_store g_out]; auto.
      + intros m Hm. destruct (Live m Hm) as [K|[Av K]]; [now left|exfalso].
        destruct K as [[K _]|K]; [congruence|]. exact (live_stk_nochoice m _ _ Ha K).
      + intros v Hv. destruct (Bl v Hv) as [[x [Hx Sx]]|[_ [rest Er]]]; [exists x; auto|].
        destruct (out_ng_len st s1 v I0 Hv) as [Lv _].
        assert (Inv : In (ngv v) (map snd (g_stack s1))) by (rewrite Er; now left).
        destruct (C1 _ Inv Lv) as [x [Hx Ex]]. exists x. split; [exact Hx|].
        apply (proj1 (ng_equiv_sub _ _ Ex)).
  Qed.

  Lemma contradicts_true_nth cur aci :
    contradicts cur aci = true ->
    exists i, (i < length cur)%nat /\ (i < length aci)%nat /\ is_tv (nth i cur 2) = true /\
              is_tv (nth i aci 2) = true /\ is_true (nth i cur 2) <> is_true (nth i aci 2).
  Proof.
    unfold contradicts. revert aci. induction cur as [|a cur IH]; intros [|b aci] H; try discriminate H.
    cbn [combine existsb fst snd] in H. apply orb_true_iff in H. destruct H as [H|H].
    - exists 0%nat. cbn [nth length]. apply andb_true_iff in H. destruct H as [H H3].
      apply andb_true_iff in H. destruct H as [H1 H2]. apply negb_true_iff in H3.
      repeat split; try lia; auto. intros E. rewrite E, eqb_reflx in H3. discriminate H3.
    - destruct (IH aci H) as [i (L1 & L2 & K)]. exists (S i). cbn [nth length]. repeat split; try lia; apply K.
  Qed.

  Lemma hsem_extends st st' hist :
    WF c st -> extends st st' -> Forall (vec_ok ac st) hist -> Forall (sem_ok st) hist -> Forall (sem_ok st') hist.
  Proof.
    intros W E V H. induction H as [|v hist Hv _ IH]; constructor.
    - inversion V as [|? ? [_ Vv] _]; subst. apply (sem_ok_extends st st' v W E Vv Hv).
    - apply IH. inversion V; assumption.
  Qed.

  Lemma model_avoid_matches G m :
    is_model m -> Forall (fun g => length g = length ac) G ->
    (forall x, In x G -> ~ ng_sub x m) -> avoids G (asg_of_interp m).
  Proof.
    intros [Lm [TV _]] Sl Av g Hg Mg. apply (Av g Hg).
    rewrite Forall_forall in Sl. apply (matches_sub_iff g m TV); [rewrite (Sl g Hg); lia|exact Mg].
  Qed.

  Lemma closure_to_mid2 st s2 s3 upd :
    mid2 st s2 -> closure_to s2 s3 upd ->
    sem_ok st (g_cur s3) /\ g_hist s3 = g_hist s2 /\
    forall m, is_model m ->
      In m (map interp_of (g_out s2)) \/
      ((forall x, In x (stored (g_store s2)) -> ~ ng_sub x m) /\
       (ng_sub (ngv (g_cur s3)) m \/ live_stk m (g_stack s3) (g_hist s3))).
  Proof.
    intros R CT. destruct R as [M Sem HSem Live ND Bl].
    pose proof (m0 _ _ M) as I0. pose proof (i_bok _ _ _ _ _ _ I0) as B.
    destruct (i_cur _ _ _ _ _ _ I0) as [Lc _].
    inversion CT as [v Hv|Hn]; subst; [|auto].
    cbn [g_cur g_stack g_hist].
    destruct (closure_update_entries _ _ _ B Hv) as [L [Sv [En Mt]]].
    split; [|split; [reflexivity|]].
    - apply (sem_ok_mono st (g_cur s2)); auto. apply ng_sub_info_le; [congruence|exact Sv].
    - intros m Hm. destruct (Live m Hm) as [K|[Av K]]; [now left|right]. split; [exact Av|].
      destruct K as [K|K]; [left|right; exact K].
      pose proof Hm as [Lm [TV _]].
      apply (matches_sub_iff (ngv v) m TV); [rewrite ng_of_terms_length; lia|].
      apply Mt.
      + apply (matches_sub_iff _ m TV); [rewrite ng_of_terms_length; lia|exact K].
      + apply (model_avoid_matches _ m Hm (m_slen _ _ M) Av).
  Qed.

  Lemma inv2_phase3 st s2 r :
    mid2 st s2 -> p3 c ac two st s2 r -> exists st' s', r = Continue st' s' /\ inv2 st' s'.
  Proof.
    intros R P. destruct (inv1_phase3 st s2 r (r1 _ _ R) P) as (st' & s' & Er & I1' & _).
    exists st', s'. split; [exact Er|]. subst r.
    pose proof (r1 _ _ R) as M. pose proof (m0 _ _ M) as I0.
    pose proof (i_wf _ _ _ _ _ _ I0) as W. pose proof (i_ext _ _ _ _ _ _ I0) as E.
    pose proof (i_bok _ _ _ _ _ _ I0) as B.
    inversion P as [Hc | s3 upd st1 aci CT X5 Ec | s3 upd st1 aci st2 cur' CT X5 Ec X6 Hu
                    | st1 aci st2 cur' Hc X5 Ec X6 El Ef | st1 aci st2 cur' st3 stable Hc X5 Ec X6 El Ef Xt];
      subst st' s'.
    - (* conflict reported by the closure *)
      destruct R as [_ Sem HSem Live ND Bl].
      constructor; cbn [g_cur g_stack g_hist g_store g_out g_backtrack];
        [exact I1'|exact Sem|exact HSem| |exact ND|].
      + intros m Hm. destruct (Live m Hm) as [K|[Av K]]; [now left|right]. split; [exact Av|right].
        destruct K as [K|K]; [exfalso|exact K].
        pose proof Hm as [Lm [TV _]]. destruct (i_cur _ _ _ _ _ _ I0) as [Lc _].
        pose proof (closure_sound _ _ B _ Hc) as Cs. cbv beta iota in Cs.
        destruct (Cs (asg_of_interp m)) as [g [Hg Mg]].
        * apply (matches_sub_iff _ m TV); [rewrite ng_of_terms_length; lia|exact K].
        * exact (model_avoid_matches _ m Hm (m_slen _ _ M) Av g Hg Mg).
      + intros v Hv. left. now apply Bl.
    - (* contradiction with a condition *)
      destruct (closure_to_mid st s2 s3 upd M CT) as (I3 & _ & Es & _ & _ & _ & Eo & _).
      destruct (closure_to_mid2 st s2 s3 upd R CT) as (Sem3 & Eh3 & Live3).
      destruct (apply_ac_facts c ac st0 WF0 OK0 st _ st1 aci W E X5) as (W1 & E1 & La & _).
      destruct (i_cur _ _ _ _ _ _ I3) as [L3 V3].
      destruct R as [_ Sem HSem Live ND Bl].
      constructor; cbn [g_cur g_stack g_hist g_store g_out g_backtrack]; [exact I1'| | | | |].
      + apply (sem_ok_extends st st1 _ W E1 V3 Sem3).
      + rewrite Eh3. apply (hsem_extends st st1 _ W E1 (i_hist _ _ _ _ _ _ I0) HSem).
      + intros m Hm. rewrite Eo, Es. destruct (Live3 m Hm) as [K|[Av K]]; [now left|right]. split; [exact Av|right].
        destruct K as [K|K]; [exfalso|exact K].
        destruct (contradicts_true_nth _ _ Ec) as [i (Li1 & Li2 & T1 & T2 & Ne)].
        pose proof Hm as [Lm _].
        assert (LE : info_le (interp_of (g_cur s3)) m).
        { apply sub_info_le; [rewrite interp_of_length; congruence|exact K]. }
        pose proof (complete_above_cons3 c ac st0 WF0 OK0 st _ st1 aci m i W E X5 (is_model_complete m Hm) LE
                      ltac:(lia) T2) as Em.
        assert (A : ngat (ngv (g_cur s3)) i <> U).
        { rewrite ngat_of_terms. intros Z. apply info_U_iff in Z. congruence. }
        pose proof (K i A) as Ek. unfold ngat at 1 in Ek. rewrite Em, ngat_of_terms in Ek.
        apply Ne. destruct (is_tv_true _ T1) as [Z1|Z1], (is_tv_true _ T2) as [Z2|Z2];
          rewrite Z1, Z2 in *; try reflexivity; discriminate Ek.
      + rewrite Eo. exact ND.
      + intros v Hv. rewrite Eo in Hv. rewrite Es. left. now apply Bl.
    - (* propagation changed something *)
      destruct (closure_to_mid st s2 s3 upd M CT) as (I3 & _ & Es & _ & Bt3 & _ & Eo & _).
      destruct (closure_to_mid2 st s2 s3 upd R CT) as (Sem3 & Eh3 & Live3).
      destruct (step56_facts st s3 st1 aci st2 cur' I3 X5 X6) as (W1 & E1 & V1 & W2 & E2 & V2 & Lc & Sc & Dd).
      destruct (i_cur _ _ _ _ _ _ I3) as [L3 V3].
      destruct (propagation_sem st _ st1 st2 cur' W E V3 L3 Sem3 W1 E1 W2 E2 V2 Sc Dd) as [Sem' Keep].
      destruct R as [_ Sem HSem Live ND Bl].
      assert (E02 : extends st st2) by (eapply extends_trans; eauto).
      constructor; cbn [g_cur g_stack g_hist g_store g_out g_backtrack]; [exact I1'|exact Sem'| | | |].
      + rewrite Eh3. apply (hsem_extends st st2 _ W E02 (i_hist _ _ _ _ _ _ I0) HSem).
      + intros m Hm. rewrite Eo, Es. destruct (Live3 m Hm) as [K|[Av K]]; [now left|right]. split; [exact Av|].
        destruct K as [K|K]; [left|right; exact K]. split; [exact Bt3|].
        apply (Keep m (is_model_complete m Hm) (proj1 Hm) K).
      + rewrite Eo. exact ND.
      + intros v Hv. rewrite Eo in Hv. rewrite Es. left. now apply Bl.
    - (* fixpoint, not two-valued: choose next *)
      destruct (closure_to_mid2 st s2 s2 false R (CT_noupdate s2 Hc)) as (Sem3 & _ & Live3).
      destruct (step56_facts st s2 st1 aci st2 cur' I0 X5 X6) as (W1 & E1 & V1 & W2 & E2 & V2 & Lc & Sc & Dd).
      destruct (i_cur _ _ _ _ _ _ I0) as [L3 V3].
      destruct (propagation_sem st _ st1 st2 cur' W E V3 L3 Sem3 W1 E1 W2 E2 V2 Sc Dd) as [Sem' Keep].
      destruct R as [_ Sem HSem Live ND Bl].
      assert (E02 : extends st st2) by (eapply extends_trans; eauto).
      constructor; cbn [g_cur g_stack g_hist g_store g_out g_backtrack]; [exact I1'|exact Sem'| | |exact ND|].
      + apply (hsem_extends st st2 _ W E02 (i_hist _ _ _ _ _ _ I0) HSem).
      + intros m Hm. destruct (Live3 m Hm) as [K|[Av K]]; [now left|right]. split; [exact Av|].
        destruct K as [K|K]; [left|right; exact K]. split; [exact (m_bt _ _ M)|].
        apply (Keep m (is_model_complete m Hm) (proj1 Hm) K).
      + intros v Hv. left. now apply Bl.
    - (* fixpoint, two-valued: test and emit *)
      destruct (closure_to_mid2 st s2 s2 false R (CT_noupdate s2 Hc)) as (Sem3 & _ & Live3).
      destruct (step56_facts st s2 st1 aci st2 cur' I0 X5 X6) as (W1 & E1 & V1 & W2 & E2 & V2 & Lc & Sc & Dd).
      destruct (i_cur _ _ _ _ _ _ I0) as [L3 V3].
      destruct (propagation_sem st _ st1 st2 cur' W E V3 L3 Sem3 W1 E1 W2 E2 V2 Sc Dd) as [Sem' Keep].
      pose proof (forallb_is_tv_Forall _ Ef) as TV.
      assert (E002 : extends st0 st2) by (eapply extends_trans; [exact E|eapply extends_trans; eauto]).
      destruct (run_test_ok c ac two st0 WF0 OK0 st2 cur' st3 stable W2 E002 Lc TV Xt) as (W3 & E3 & Ht & Hs).
      destruct R as [_ Sem HSem Live ND Bl].
      assert (E03 : extends st st3) by (eapply extends_trans; [exact E1|eapply extends_trans; eauto]).
      assert (Hcur : forall m, is_model m -> ng_sub (ngv (g_cur s2)) m -> m = interp_of cur').
      { intros m Hm K. apply tv_sub_eq; [exact Ef|rewrite (proj1 Hm); exact Lc|].
        apply (Keep m (is_model_complete m Hm) (proj1 Hm) K). }
      constructor; cbn [g_cur g_stack g_hist g_store g_out g_backtrack]; [exact I1'| | | | |].
      + apply (sem_ok_extends st2 st3 _ W2 E3 V2 Sem').
      + apply (hsem_extends st st3 _ W E03 (i_hist _ _ _ _ _ _ I0) HSem).
      + intros m Hm. destruct (Live3 m Hm) as [K|[Av K]].
        * left. destruct stable; [right|]; exact K.
        * destruct K as [K|K]; [|right; split; [exact Av|right; exact K]].
          pose proof (Hcur m Hm K) as Em. left. destruct stable; [left; symmetry; exact Em|exfalso].
          destruct two eqn:Etwo; [specialize (Ht eq_refl); discriminate Ht|].
          destruct Hm as [_ [_ Pm]]. unfold modelP in Pm. rewrite Etwo in Pm. rewrite Em in Pm.
          apply (Hs eq_refl) in Pm. discriminate Pm.
      + destruct stable; [|exact ND]. cbn [map]. constructor; [|exact ND].
        intros Hin. apply in_map_iff in Hin. destruct Hin as [v [Ev Hv]].
        destruct (Bl v Hv) as [x [Hx Sx]].
        change (ngv v) with (interp_of v) in Sx. rewrite Ev in Sx.
        pose proof (list_eqb_eq _ _ El) as Ecur. rewrite Ecur in Sx.
        rewrite (closure_dead _ _ x B Hx Sx) in Hc. discriminate Hc.
      + intros v Hv. destruct stable; [destruct Hv as [<-|Hv]|].
        * right. split; [reflexivity|]. eexists. reflexivity.
        * left. now apply Bl.
        * left. now apply Bl.
  Qed.

  Lemma inv2_step st s st' s' :
    inv2 st s -> ng_step c ac h rf two sx st s = Some (Continue st' s') -> inv2 st' s'.
  Proof.
    intros Q H. rewrite ng_step_eq in H.
    destruct (phase1 c h rf st s) as [s1|] eqn:P1; [|discriminate H].
    pose proof (inv2_phase1 st s s1 Q P1) as Q1.
    destruct (inv1_phase1 st s s1 (q1 _ _ Q) P1) as (_ & Ch1 & _).
    destruct (phase2 sx s1) as [sb| |s2] eqn:P2; try discriminate H.
    pose proof (inv2_phase2 st s1 s2 Q1 Ch1 P2) as R.
    apply phase3_cases in H. destruct (inv2_phase3 st s2 _ R H) as (st'' & s'' & Er & Q').
    inversion Er; subst. exact Q'.
  Qed.

  (** the loop exit: the stack is empty, or (repaired loop) holds no choice entry: no model is
      kept alive by a choice frame, so all have been emitted *)
  Lemma inv2_phase2_break st s1 sb :
    inv2 st s1 -> phase2 sx s1 = P2Break sb ->
    NoDup (map interp_of (g_out sb)) /\ forall m, is_model m -> In m (map interp_of (g_out sb)).
  Proof.
    intros Q P2. unfold phase2 in P2. destruct (g_backtrack s1) eqn:Ebt; [|discriminate P2].
    destruct (g_stack s1) as [|f0 stk0] eqn:Es.
    - inversion P2; subst sb. destruct Q as [I Sem HSem Live ND Bl]. split; [exact ND|].
      intros m Hm. destruct (Live m Hm) as [K|[_ K]]; [exact K|exfalso].
      destruct K as [[K _]|K]; [congruence|]. rewrite Es in K. destruct K.
    - rewrite <- Es in P2. clear Es.
      destruct (unwind _ _ _ _) as [[[[[ngs stk] hist] cur] found]|] eqn:Un; [|discriminate P2].
      destruct (sx && negb found) eqn:Ex; [|discriminate P2].
      inversion P2; subst sb. cbn [g_out]. destruct Q as [I Sem HSem Live ND Bl]. split; [exact ND|].
      apply andb_true_iff in Ex. destruct Ex as [_ Ef]. apply negb_true_iff in Ef. subst found.
      apply unwind_spec in Un. destruct Un as [[Z _]|[_ [_ [Ha _]]]]; [discriminate Z|].
      intros m Hm. destruct (Live m Hm) as [K|[_ K]]; [exact K|exfalso].
      destruct K as [[K _]|K]; [congruence|]. exact (live_stk_nochoice m _ _ Ha K).
  Qed.

  Lemma inv2_break st s st' s' :
    inv2 st s -> ng_step c ac h rf two sx st s = Some (Break st' s') ->
    NoDup (map interp_of (g_out s')) /\ forall m, is_model m -> In m (map interp_of (g_out s')).
  Proof.
    intros Q H. rewrite ng_step_eq in H.
    destruct (phase1 c h rf st s) as [s1|] eqn:P1; [|discriminate H].
    pose proof (inv2_phase1 st s s1 Q P1) as Q1.
    destruct (phase2 sx s1) as [sb| |s2] eqn:P2; try discriminate H.
    2:{ apply phase3_cases in H. destruct (inv2_phase3 st s2 _ ltac:(eapply inv2_phase2; eauto;
          destruct (inv1_phase1 st s s1 (q1 _ _ Q) P1) as (_ & Ch1 & _); exact Ch1) H) as (? & ? & Er & _).
        discriminate Er. }
    inversion H; subst st' s'. apply (inv2_phase2_break st s1 sb Q1 P2).
  Qed.

  Lemma inv2_loop : forall fuel st s st' s',
    inv2 st s -> ng_loop c ac h rf two sx fuel st s = Some (st', s') ->
    NoDup (map interp_of (g_out s')) /\ forall m, is_model m -> In m (map interp_of (g_out s')).
  Proof.
    induction fuel as [|f IH]; intros st s st' s' Q H; [discriminate H|].
    cbn [ng_loop] in H. destruct (ng_step c ac h rf two sx st s) as [[st1 s1|st1 s1|]|] eqn:S; try discriminate H.
    - apply (IH st1 s1 st' s' (inv2_step st s st1 s1 Q S) H).
    - inversion H; subst. apply (inv2_break st s st' s' Q S).
  Qed.

  Lemma inv2_init s1 g draws : grounded c st0 ac = Some (s1, g) -> inv2 s1 (ng_init ac g draws).
  Proof.
    intros G. destruct (grounded_exact c st0 ac s1 g WF0 OK0 G) as (W1 & E1 & L & V & HG & Dd).
    constructor.
    - apply (inv1_init s1 g draws G).
    - cbn [ng_init g_cur]. unfold sem_ok. eapply Forall2_impl_Forall_r; [exact (proj1 OK0)| |exact Dd].
      intros hh a _ Hd. right. exists (interp_of g). split; [apply info_le_refl|exact Hd].
    - constructor.
    - intros m Hm. right. cbn [ng_init g_store g_backtrack g_cur]. split.
      + intros x Hx. rewrite (proj2 (ngs_new_ok _)) in Hx. destruct Hx.
      + left. split; [reflexivity|]. apply info_le_ng_sub.
        apply (grounded_below _ _ _ HG (is_model_complete m Hm)).
    - constructor.
    - intros v [].
  Qed.
End Strong.

Lemma ng_loop_mono c ac h rf two sx : forall f st s res,
  ng_loop c ac h rf two sx f st s = Some res -> forall f', (f <= f')%nat -> ng_loop c ac h rf two sx f' st s = Some res.
Proof.
  induction f as [|f IH]; intros st s res H f' L; [discriminate H|].
  destruct f' as [|f']; [lia|]. cbn [ng_loop] in *.
  destruct (ng_step c ac h rf two sx st s) as [[st1 s1|st1 s1|]|]; try discriminate H; try exact H.
  apply (IH _ _ _ H). lia.
Qed.

(** the step bound: the stored nogoods are distinct partial assignments (3^n of them), and
    between two backtracks over a choice at most 3n+5 steps are made *)
Definition ng_bound (n : nat) : nat := (3 ^ n + 1) * (3 * n + 5).

(** 3. termination for every admissible heuristic, within [ng_bound (length ac)] steps, for both
    forms of the loop; the random heuristic needs two draws per step at most *)
Theorem ng_terminates c ac h rf two sx budget st draws :
  admissible c h rf -> ac <> [] -> WF c st -> ac_ok st ac ->
  (ng_bound (length ac) <= budget)%nat ->
  (h = HRand -> (2 * ng_bound (length ac) <= length draws)%nat) ->
  nogood_search c ac h rf two sx budget st draws <> None.
Proof.
  intros ADM NE W OK HB HD. unfold nogood_search.
  destruct (grounded_total c st ac W OK) as (s1 & g & G). rewrite G. cbn [obind].
  pose proof (inv1_init c ac two st W OK s1 g draws G) as I1.
  assert (R : rank ac s1 (ng_init ac g draws) (3 ^ length ac * Wd ac + (3 * length ac + 4))).
  { exists (3 * length ac + 4)%nat. split.
    - apply psi_le_max; try reflexivity. destruct (grounded_exact c st ac s1 g W OK G) as (_ & _ & L & _). exact L.
    - pose proof (mu1_le (length ac) (stored (g_store (ng_init ac g draws)))) as M.
      apply Nat.add_le_mono_r. apply Nat.mul_le_mono_r. exact M. }
  destruct (ng_loop_total c ac h rf two sx st W OK ADM NE (ng_bound (length ac)) s1 _ _ I1 R) as (st' & s' & L).
  - unfold ng_bound, Wd. lia.
  - exact HD.
  - pose proof (ng_loop_mono c ac h rf two sx _ _ _ _ L budget HB) as L'. unfold ng_init in L'.
    rewrite L'. cbn [obind]. discriminate.
Qed.

(* ------------------------------------------------------------------ *)
(** * The empty framework *)

Lemma unwind_empty : forall stack : list (bool * ng),
  Forall (fun f : bool * ng => f = (false, [])) stack ->
  unwind (ngs_new 0) stack [] [] = Some (ngs_new 0, [], [], [], false).
Proof.
  induction 1 as [|f stack Hf _ IH]; [reflexivity|]. subst f. cbn [unwind]. exact IH.
Qed.

Lemma phase3_empty c two st stk out dr :
  phase3 c [] two st (mkNG [] (ngs_new 0) stk [] false false out dr) =
  Some (Continue st (mkNG [] (ngs_new 0) ((false, []) :: stk) [] true false ([] :: out) dr)).
Proof. destruct two; vm_compute; reflexivity. Qed.

Lemma grounded_empty c st : grounded c st [] = Some (st, []).
Proof. vm_compute. reflexivity. Qed.

(** ** the loop as it was ([stop_exhausted = false]): it never ends.
    With no statement at all the interpretation [] is a two-valued fixpoint in every round: it
    is emitted, its (empty) nogood is ignored by the store, the backtrack finds no choice and
    the next round emits it again; the model returns [None] for every budget *)
Lemma ng_loop_empty c h rf two st : forall fuel (stack : list (bool * ng)) bt out dr,
  Forall (fun f : bool * ng => f = (false, [])) stack -> (bt = true -> stack <> []) ->
  ng_loop c [] h rf two false fuel st (mkNG [] (ngs_new 0) stack [] bt false out dr) = None.
Proof.
  induction fuel as [|f IH]; intros stack bt out dr Hs Hb; [reflexivity|].
  cbn [ng_loop]. rewrite ng_step_eq. unfold phase1. cbn [g_choice]. unfold phase2.
  cbn [g_backtrack g_stack g_store g_hist g_cur g_choice g_out g_draws].
  destruct bt.
  - destruct stack as [|f0 stack]; [exfalso; now apply Hb|].
    rewrite (unwind_empty _ Hs). cbn [andb]. rewrite phase3_empty. apply IH; [repeat constructor|discriminate].
  - rewrite phase3_empty. apply IH; [constructor; [reflexivity|exact Hs]|discriminate].
Qed.

Theorem ng_empty_adf_diverges c h rf two budget st draws :
  nogood_search c [] h rf two false budget st draws = None.
Proof.
  unfold nogood_search. rewrite grounded_empty. cbn [obind length].
  change (match ng_loop c [] h rf two false budget st (mkNG [] (ngs_new 0) [] [] false false [] draws) with
          | Some (s2, fin) => Some (s2, rev (g_out fin), g_draws fin) | None => None end = None).
  rewrite (ng_loop_empty c h rf two st budget [] false [] draws); [reflexivity|constructor|discriminate].
Qed.

(** hence, for the loop as it was, the termination statement without the side condition
    [ac <> []] is false: this is why the loop was repaired *)
Theorem ng_terminates_refuted :
  ~ (forall c ac h rf two budget st draws,
       admissible c h rf -> WF c st -> ac_ok st ac -> (ng_bound (length ac) <= budget)%nat ->
       nogood_search c ac h rf two false budget st draws <> None).
Proof.
  intros H.
  apply (H cfg_default [] HSimple true true (ng_bound 0) (init cfg_default) []).
  - apply simple_admissible.
  - apply init_wf.
  - split; constructor.
  - apply le_n.
  - apply ng_empty_adf_diverges.
Qed.

(** ** the repaired loop ([stop_exhausted = true]): two rounds.  The first emits [], the second
    backtracks, finds no choice entry and ends *)
Lemma ng_loop_empty_repaired c h rf two st draws fuel :
  ng_loop c [] h rf two true (S (S fuel)) st (mkNG [] (ngs_new 0) [] [] false false [] draws) =
  Some (st, mkNG [] (ngs_new 0) [] [] false false [[]] draws).
Proof.
  cbn [ng_loop]. rewrite ng_step_eq. unfold phase1. cbn [g_choice]. unfold phase2.
  cbn [g_backtrack g_stack g_store g_hist g_cur g_choice g_out g_draws].
  rewrite phase3_empty.
  rewrite ng_step_eq. unfold phase1. cbn [g_choice]. unfold phase2.
  cbn [g_backtrack g_stack g_store g_hist g_cur g_choice g_out g_draws].
  reflexivity.
Qed.

(** the exact answer on the empty framework: one model, the empty interpretation, once; the
    diagram store and the draw stream are untouched *)
Theorem ng_empty_adf_repaired c h rf two budget st draws :
  (2 <= budget)%nat -> nogood_search c [] h rf two true budget st draws = Some (st, [[]], draws).
Proof.
  intros HB. destruct budget as [|[|f]]; try lia.
  unfold nogood_search. rewrite grounded_empty. cbn [obind length].
  change (match ng_loop c [] h rf two true (S (S f)) st (mkNG [] (ngs_new 0) [] [] false false [] draws) with
          | Some (s2, fin) => Some (s2, rev (g_out fin), g_draws fin) | None => None end = Some (st, [[]], draws)).
  rewrite ng_loop_empty_repaired. reflexivity.
Qed.

(** whatever the budget, an answer on the empty framework is that one *)
Lemma ng_empty_adf_answer c h rf two budget st draws st' l rest :
  nogood_search c [] h rf two true budget st draws = Some (st', l, rest) ->
  st' = st /\ l = [[]] /\ rest = draws.
Proof.
  intros H. unfold nogood_search in H. rewrite grounded_empty in H. cbn [obind length] in H.
  change (match ng_loop c [] h rf two true budget st (mkNG [] (ngs_new 0) [] [] false false [] draws) with
          | Some (s2, fin) => Some (s2, rev (g_out fin), g_draws fin) | None => None end = Some (st', l, rest)) in H.
  destruct (ng_loop c [] h rf two true budget st _) as [[s2 fin]|] eqn:L; [|discriminate H].
  pose proof (ng_loop_mono _ _ _ _ _ _ _ _ _ _ L (S (S budget)) ltac:(lia)) as L2.
  rewrite ng_loop_empty_repaired in L2. inversion L2; subst s2 fin. inversion H; subst. auto.
Qed.

(** termination of the repaired loop for every framework, the empty one included *)
Theorem ng_terminates_repaired c ac h rf two budget st draws :
  admissible c h rf -> WF c st -> ac_ok st ac -> (ng_bound (length ac) <= budget)%nat ->
  (h = HRand -> (2 * ng_bound (length ac) <= length draws)%nat) ->
  nogood_search c ac h rf two true budget st draws <> None.
Proof.
  intros ADM W OK HB HD. destruct ac as [|a0 ac0] eqn:Eac.
  - rewrite ng_empty_adf_repaired; [discriminate|].
    change (ng_bound (length (@nil N))) with 10%nat in HB. lia.
  - rewrite <- Eac in *. apply ng_terminates; auto. rewrite Eac. discriminate.
Qed.

(* ------------------------------------------------------------------ *)
(** * Completeness and absence of duplicates *)

Lemma modelP_is_model c ac (two : bool) st v :
  WF c st -> ac_ok st ac ->
  (if two then Model2 (abs st ac) v else Stable (abs st ac) v) -> is_model ac two st v.
Proof.
  intros W OK M. assert (M2 : Model2 (abs st ac) v) by (destruct two; [exact M|apply M]).
  destruct M2 as [C TV]. split; [|split; [exact TV|exact M]].
  rewrite <- (Gamma_length _ _ _ C). apply abs_length.
Qed.

(** the empty framework has exactly one model, the empty interpretation *)
Lemma empty_adf_model (two : bool) st v :
  (if two then Model2 (abs st []) v else Stable (abs st []) v) -> v = [].
Proof.
  intros M. assert (M2 : Model2 (abs st []) v) by (destruct two; [exact M|apply M]).
  destruct M2 as [C _]. unfold Complete, Gamma in C. cbn [abs map] in C. inversion C. reflexivity.
Qed.

(** 4. every two-valued model / stable model is emitted, for every admissible heuristic and for
    both forms of the loop *)
Theorem ng_complete c ac h rf two sx budget st draws st' l rest :
  admissible c h rf -> WF c st -> ac_ok st ac ->
  nogood_search c ac h rf two sx budget st draws = Some (st', l, rest) ->
  forall v, (if two then Model2 (abs st ac) v else Stable (abs st ac) v) -> In v (map interp_of l).
Proof.
  intros ADM W OK H v Mv.
  destruct ac as [|a0 ac0] eqn:Eac.
  { destruct sx; [|rewrite ng_empty_adf_diverges in H; discriminate H].
    destruct (ng_empty_adf_answer _ _ _ _ _ _ _ _ _ _ H) as (_ & -> & _).
    rewrite (empty_adf_model two st v Mv). now left. }
  rewrite <- Eac in *.
  assert (NE : ac <> []) by (rewrite Eac; discriminate).
  unfold nogood_search in H.
  apply obind_inv in H. destruct H as ([s1 g] & G & H).
  apply obind_inv in H. destruct H as ([s2 fin] & L & H). inversion H; subst st' l rest. clear H.
  pose proof (inv2_init c ac two st W OK s1 g draws G) as Q.
  destruct (inv2_loop c ac h rf two sx st W OK ADM NE budget s1 _ s2 fin Q L) as [_ K].
  rewrite map_rev. apply -> in_rev. apply K. apply (modelP_is_model c ac two st v W OK Mv).
Qed.

(** ... and nothing is emitted twice *)
Theorem ng_nodup c ac h rf two sx budget st draws st' l rest :
  admissible c h rf -> WF c st -> ac_ok st ac ->
  nogood_search c ac h rf two sx budget st draws = Some (st', l, rest) -> NoDup (map interp_of l).
Proof.
  intros ADM W OK H.
  destruct ac as [|a0 ac0] eqn:Eac.
  { destruct sx; [|rewrite ng_empty_adf_diverges in H; discriminate H].
    destruct (ng_empty_adf_answer _ _ _ _ _ _ _ _ _ _ H) as (_ & -> & _).
    cbn [map]. constructor; [intros []|constructor]. }
  rewrite <- Eac in *.
  assert (NE : ac <> []) by (rewrite Eac; discriminate).
  unfold nogood_search in H.
  apply obind_inv in H. destruct H as ([s1 g] & G & H).
  apply obind_inv in H. destruct H as ([s2 fin] & L & H). inversion H; subst st' l rest. clear H.
  pose proof (inv2_init c ac two st W OK s1 g draws G) as Q.
  destruct (inv2_loop c ac h rf two sx st W OK ADM NE budget s1 _ s2 fin Q L) as [ND _].
  rewrite map_rev. apply NoDup_rev. exact ND.
Qed.

(** the emitted list is exactly the set of models *)
Corollary ng_exact c ac h rf two sx budget st draws st' l rest :
  admissible c h rf -> WF c st -> ac_ok st ac ->
  nogood_search c ac h rf two sx budget st draws = Some (st', l, rest) ->
  NoDup (map interp_of l) /\
  forall v, In v (map interp_of l) <-> (if two then Model2 (abs st ac) v else Stable (abs st ac) v).
Proof.
  intros ADM W OK H. split; [eapply ng_nodup; eauto|]. intros v. split.
  - intros Hv. apply in_map_iff in Hv. destruct Hv as [w [<- Hw]].
    destruct (ng_sound c ac h rf two sx budget st draws st' l rest W OK H) as (_ & _ & S). apply (S w Hw).
  - eapply ng_complete; eauto.
Qed.

(** the repair does not change the set of models found (with possibly different heuristics,
    budgets and draws on the two sides) *)
Corollary ng_repair_same_models c ac two h1 rf1 b1 d1 h2 rf2 b2 d2 st s1 l1 r1 s2 l2 r2 :
  admissible c h1 rf1 -> admissible c h2 rf2 -> WF c st -> ac_ok st ac ->
  nogood_search c ac h1 rf1 two false b1 st d1 = Some (s1, l1, r1) ->
  nogood_search c ac h2 rf2 two true b2 st d2 = Some (s2, l2, r2) ->
  forall v, In v (map interp_of l1) <-> In v (map interp_of l2).
Proof.
  intros A1 A2 W OK H1 H2 v.
  rewrite (proj2 (ng_exact _ _ _ _ _ _ _ _ _ _ _ _ A1 W OK H1) v).
  rewrite (proj2 (ng_exact _ _ _ _ _ _ _ _ _ _ _ _ A2 W OK H2) v). reflexivity.
Qed.

(** all built-in heuristics, the random one in its repaired form *)
Corollary builtin_admissible c h rf : (h = HRand -> rf = true) -> admissible c h rf.
Proof.
  destruct h; intros H.
  - apply simple_admissible.
  - apply minpaths_admissible.
  - apply maximp_admissible.
  - rewrite (H eq_refl). apply rand_filtered_admissible.
  - apply static_admissible.
Qed.

(** all together, both loops, at least one statement *)
Corollary ng_correct c ac h rf two sx budget st draws :
  admissible c h rf -> ac <> [] -> WF c st -> ac_ok st ac ->
  (ng_bound (length ac) <= budget)%nat ->
  (h = HRand -> (2 * ng_bound (length ac) <= length draws)%nat) ->
  exists st' l rest,
    nogood_search c ac h rf two sx budget st draws = Some (st', l, rest) /\
    WF c st' /\ extends st st' /\ NoDup (map interp_of l) /\
    forall v, In v (map interp_of l) <-> (if two then Model2 (abs st ac) v else Stable (abs st ac) v).
Proof.
  intros ADM NE W OK HB HD.
  destruct (nogood_search c ac h rf two sx budget st draws) as [[[st' l] rest]|] eqn:H.
  - exists st', l, rest. split; [reflexivity|].
    destruct (ng_sound c ac h rf two sx budget st draws st' l rest W OK H) as (W' & E' & _).
    destruct (ng_exact c ac h rf two sx budget st draws st' l rest ADM W OK H) as [ND EX]. auto.
  - exfalso. exact (ng_terminates c ac h rf two sx budget st draws ADM NE W OK HB HD H).
Qed.

(** the repaired loop: with an admissible heuristic, enough budget (and draws), the search
    answers on EVERY framework, and its answer lists every model exactly once *)
Corollary ng_correct_repaired c ac h rf two budget st draws :
  admissible c h rf -> WF c st -> ac_ok st ac ->
  (ng_bound (length ac) <= budget)%nat ->
  (h = HRand -> (2 * ng_bound (length ac) <= length draws)%nat) ->
  exists st' l rest,
    nogood_search c ac h rf two true budget st draws = Some (st', l, rest) /\
    WF c st' /\ extends st st' /\ NoDup (map interp_of l) /\
    forall v, In v (map interp_of l) <-> (if two then Model2 (abs st ac) v else Stable (abs st ac) v).
Proof.
  intros ADM W OK HB HD.
  destruct (nogood_search c ac h rf two true budget st draws) as [[[st' l] rest]|] eqn:H.
  - exists st', l, rest. split; [reflexivity|].
    destruct (ng_sound c ac h rf two true budget st draws st' l rest W OK H) as (W' & E' & _).
    destruct (ng_exact c ac h rf two true budget st draws st' l rest ADM W OK H) as [ND EX]. auto.
  - exfalso. exact (ng_terminates_repaired c ac h rf two budget st draws ADM W OK HB HD H).
Qed.

(* ------------------------------------------------------------------ *)
(** * Examples: a <- not b, b <- not a (two stable models) *)

Definition ex_adf := from_parser cfg_default 2 [(0%nat, FNot (FAtom 1)); (1%nat, FNot (FAtom 0))].
Definition run_ex (h : heuristic) (rf two sx : bool) (budget : nat) (draws : list N) :=
  match ex_adf with
  | Some (st, ac) =>
    match nogood_search cfg_default ac h rf two sx budget st draws with
    | Some (_, l, rest) => Some (l, rest)
    | None => None
    end
  | None => None
  end.

(** the repaired loop *)
Example ex_simple_twoval : run_ex HSimple true true true 50 [] = Some ([[1; 0]; [0; 1]], []).
Proof. vm_compute. reflexivity. Qed.
Example ex_simple_stable : run_ex HSimple true false true 50 [] = Some ([[1; 0]; [0; 1]], []).
Proof. vm_compute. reflexivity. Qed.
Example ex_minpaths_twoval : run_ex HMinPathsMaxImp true true true 50 [] = Some ([[1; 0]; [0; 1]], []).
Proof. vm_compute. reflexivity. Qed.
Example ex_minpaths_stable : run_ex HMinPathsMaxImp true false true 50 [] = Some ([[1; 0]; [0; 1]], []).
Proof. vm_compute. reflexivity. Qed.
Example ex_maximp_twoval : run_ex HMaxImpMinPaths true true true 50 [] = Some ([[1; 0]; [0; 1]], []).
Proof. vm_compute. reflexivity. Qed.
Example ex_maximp_stable : run_ex HMaxImpMinPaths true false true 50 [] = Some ([[1; 0]; [0; 1]], []).
Proof. vm_compute. reflexivity. Qed.
Example ex_static_twoval :
  run_ex (HStatic [1%nat; 0%nat] [false; true]) true true true 50 [] = Some ([[0; 1]; [1; 0]], []).
Proof. vm_compute. reflexivity. Qed.
Example ex_static_stable :
  run_ex (HStatic [1%nat; 0%nat] [false; true]) true false true 50 [] = Some ([[0; 1]; [1; 0]], []).
Proof. vm_compute. reflexivity. Qed.
(** the random heuristic with the draws 7 (7 mod 2 = 1: the second open statement) and 0 (true);
    the unused draws are handed back *)
Example ex_rand_twoval :
  run_ex HRand true true true 50 [7; 0; 3; 9223372036854775808; 5; 5]
  = Some ([[0; 1]; [1; 0]], [3; 9223372036854775808; 5; 5]).
Proof. vm_compute. reflexivity. Qed.
Example ex_rand_stable :
  run_ex HRand true false true 50 [7; 0; 3; 9223372036854775808; 5; 5]
  = Some ([[0; 1]; [1; 0]], [3; 9223372036854775808; 5; 5]).
Proof. vm_compute. reflexivity. Qed.
(** a draw stream that is too short gives no answer *)
Example ex_rand_short : run_ex HRand true false true 50 [7] = None.
Proof. vm_compute. reflexivity. Qed.
(** the loop as it was gives the same answers on this framework *)
Example ex_simple_twoval_old : run_ex HSimple true true false 50 [] = Some ([[1; 0]; [0; 1]], []).
Proof. vm_compute. reflexivity. Qed.
Example ex_simple_stable_old : run_ex HSimple true false false 50 [] = Some ([[1; 0]; [0; 1]], []).
Proof. vm_compute. reflexivity. Qed.
Example ex_static_stable_old :
  run_ex (HStatic [1%nat; 0%nat] [false; true]) true false false 50 [] = Some ([[0; 1]; [1; 0]], []).
Proof. vm_compute. reflexivity. Qed.
(** the bound of [ng_terminates] for two statements *)
Example ex_bound : ng_bound 2 = 110%nat.
Proof. reflexivity. Qed.
(** the empty framework: no answer from the loop as it was, the empty model once from the
    repaired loop (also by computation, and through the generated flag) *)
Example ex_empty_old : nogood_search cfg_default [] HSimple true true false 1000 (init cfg_default) [] = None.
Proof. apply ng_empty_adf_diverges. Qed.
Example ex_empty_repaired :
  nogood_search cfg_default [] HSimple true false true 2 (init cfg_default) [4; 2]
  = Some (init cfg_default, [[]], [4; 2]).
Proof. vm_compute. reflexivity. Qed.
Example ex_empty_repaired_1 : nogood_search cfg_default [] HSimple true false true 1 (init cfg_default) [] = None.
Proof. vm_compute. reflexivity. Qed.
Example ex_empty_cur :
  nogood_search_cur cfg_default [] HSimple true 2 (init cfg_default) [] = Some (init cfg_default, [[]], []).
Proof. vm_compute. reflexivity. Qed.

Print Assumptions simple_admissible.
Print Assumptions minpaths_admissible.
Print Assumptions maximp_admissible.
Print Assumptions static_admissible.
Print Assumptions rand_filtered_admissible.
Print Assumptions rand_unfiltered_not_admissible.
Print Assumptions ng_sound.
Print Assumptions ng_no_panic.
Print Assumptions ng_terminates.
Print Assumptions ng_terminates_repaired.
Print Assumptions ng_empty_adf_diverges.
Print Assumptions ng_terminates_refuted.
Print Assumptions ng_empty_adf_repaired.
Print Assumptions ng_complete.
Print Assumptions ng_nodup.
Print Assumptions ng_exact.
Print Assumptions ng_repair_same_models.
Print Assumptions ng_correct.
Print Assumptions ng_correct_repaired.
