(** Native back-end of the ADF solver (model: Adf/Native.v): summary of the proved claims.
    - Adf/NativeBase.v     : abstraction, restriction folds, filter_st, invariance lemmas
    - Adf/GroundedProofs.v : C01  grounded_internal / grounded
    - Adf/CompleteProofs.v : C02  complete
    - Adf/StableProofs.v   : C03  stability_check, stable, stable_with_prefilter, stable_from_candidates
    - Adf/NativeExamples.v : from_parser produces well-formed inputs; worked examples *)
From ADF Require Export Adf.NativeBase Adf.GroundedProofs Adf.CompleteProofs Adf.StableProofs Adf.NativeExamples.

Check grounded_exact.
Check grounded_total.
Check complete_exact.
Check complete_total.
Check stability_check_iff.
Check stable_exact.
Check stable_with_prefilter_exact.
Check stable_from_candidates_exact.
Check stable_from_candidates_filtered.
Check stable_total.
Check stable_with_prefilter_total.
Check stable_from_candidates_total.
Check stability_check_total.
Check from_parser_ok.

Print Assumptions grounded_internal_exact.
Print Assumptions grounded_internal_total.
Print Assumptions grounded_exact.
Print Assumptions grounded_total.
Print Assumptions complete_exact.
Print Assumptions complete_total.
Print Assumptions stability_check_iff.
Print Assumptions stability_check_total.
Print Assumptions stable_exact.
Print Assumptions stable_with_prefilter_exact.
Print Assumptions stable_from_candidates_exact.
Print Assumptions stable_from_candidates_filtered.
Print Assumptions stable_total.
Print Assumptions stable_with_prefilter_total.
Print Assumptions stable_from_candidates_total.
Print Assumptions from_parser_ok.
